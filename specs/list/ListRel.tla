------------------------------ MODULE ListRel ------------------------------
(* Oracle for the list half of C19: what the property demands of a list     *)
(* widget, in the vocabulary of the property (items, heights, viewport,     *)
(* selected index, laid-out items).  No implementation identifiers.         *)
(*                                                                          *)
(* A laid-out item ("kid") is a record [i, row, h]: item index (0-based),   *)
(* the viewport row of its first line (0-based, may be negative: scrolled   *)
(* partly out at the top) and the number of rows it occupies.               *)
EXTENDS Integers, Sequences

(* The selected index is valid: within range, or the list is empty.         *)
InRange(n, sel) == n = 0 \/ (sel >= 0 /\ sel < n)

(* Items are laid out in order: consecutive items, increasing.              *)
Ordered(kids) == \A j \in 1..(Len(kids) - 1) : kids[j + 1].i = kids[j].i + 1
(* ... contiguously: each starts where the previous one ended (plus gap).   *)
Contiguous(kids, gap) == \A j \in 1..(Len(kids) - 1) : kids[j + 1].row = kids[j].row + kids[j].h + gap
(* ... without overlap.                                                     *)
NoOverlap(kids) == \A j \in 1..Len(kids) : \A k \in (j + 1)..Len(kids) : kids[j].row + kids[j].h <= kids[k].row
(* Only items that exist are drawn, each with its own (measured) height.    *)
Existing(kids, n) == \A j \in 1..Len(kids) : kids[j].i >= 0 /\ kids[j].i < n
OwnHeight(kids, hs) == \A j \in 1..Len(kids) : kids[j].i >= 0 /\ kids[j].i < Len(hs) => kids[j].h = hs[kids[j].i + 1]

LayoutOK(kids, n, gap) == Existing(kids, n) /\ Ordered(kids) /\ Contiguous(kids, gap) /\ NoOverlap(kids)

(* The selected item is shown inside a viewport of H rows: at least one of  *)
(* its rows is one of the viewport's rows.                                  *)
Visible(kids, sel, H) == \E j \in 1..Len(kids) : kids[j].i = sel /\ kids[j].row < H /\ kids[j].row + kids[j].h > 0

(* WHEN the index must be in range.  The classic list is handed its items:  *)
(* always.  The builder-driven list asks an application function for item   *)
(* i and is told neither the item count nor that items went away; the only  *)
(* moment it can learn either is when it next lays the items out.  An index *)
(* left beyond the items by an item replacement, or put there by a          *)
(* set-cursor beyond the last item, is therefore tolerated until the next   *)
(* draw (cause = the operation that put it there, "" = none), and from that *)
(* draw on it must be in range again.  Any other operation must keep an     *)
(* index that is in range in range.                                         *)
LearnsAtDraw(op) == op \in {"replace", "setcursorabs"}
CauseAfter(cause, op, n, sel) ==
  IF InRange(n, sel) THEN ""
  ELSE IF op = "setcursorabs" THEN op       \* put beyond the items by this very operation
  ELSE IF cause # "" THEN cause             \* it already was (a replacement does not move it)
  ELSE IF LearnsAtDraw(op) THEN op ELSE ""  \* the replacement removed the selected item / not tolerated
OpRangeOK(cause, op, n, sel) == InRange(n, sel) \/ CauseAfter(cause, op, n, sel) # ""

(* WHEN the selected item must be shown.  "After a selection change         *)
(* followed by a draw show the selected item inside the viewport": the draw *)
(* that follows a selection change (selchg) shows it, and so does every     *)
(* further draw of the same viewport with no operation at all in between    *)
(* (the same list drawn again: nothing scrolled it away).  follow = the     *)
(* viewport <<W, H>> of such an unbroken run of draws, <<>> = none.  An     *)
(* empty list or a viewport without rows can show nothing.                  *)
MustShow(selchg, follow, W, H, n) == (selchg \/ follow = <<W, H>>) /\ n > 0 /\ H > 0
FollowAfterDraw(selchg, follow, W, H, n) == IF MustShow(selchg, follow, W, H, n) THEN <<W, H>> ELSE <<>>
ShowWhy(selchg) == IF selchg THEN "selected-not-visible" ELSE "selected-lost-on-redraw"

(* First failing clause, for the rejection signature.                       *)
LayoutWhy(kids, n, gap) ==
  IF ~Existing(kids, n) THEN "nonexistent-item"
  ELSE IF ~Ordered(kids) THEN "order"
  ELSE IF ~Contiguous(kids, gap) THEN "not-contiguous"
  ELSE IF ~NoOverlap(kids) THEN "overlap"
  ELSE "ok"
=============================================================================
