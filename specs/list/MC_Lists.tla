------------------------------ MODULE MC_Lists ------------------------------
(* Exhaustive bounded model for C19: the three implementation-shaped        *)
(* transcriptions (ListImpl, DynList, PagerImpl) composed with the oracles  *)
(* (ListRel, Pager).  TLC explores EVERY operation history up to MaxOps     *)
(* over the bounded item counts / heights / viewports, and every text up to *)
(* MaxText over {narrow, narrow, wide, newline} at every width, and         *)
(* evaluates the property's demands in each state.  A violation here is a   *)
(* candidate to replay on the real widgets, not a verdict.  OracleRows and  *)
(* AsFoundRejected are sanity statements about the Pager oracle itself.     *)
EXTENDS ListImpl, DynList, PagerImpl, ListRel, Pager, TLC, FiniteSets

CONSTANTS MaxOps,       \* length of operation histories
          LstNs,        \* item counts of the classic list (and of set-items)
          LstHs,        \* window heights of the classic list
          DynHeights,   \* set of height sequences for the builder-driven list
          DynGaps, DynViews,
          MaxText, Widths

QuickHeights == {<<>>, <<1>>, <<1, 2, 3>>, <<2, 1>>}
DeepHeights  == {<<>>, <<1>>, <<1, 2, 3>>, <<2, 1>>, <<1, 1, 1, 1>>, <<3, 3>>}

VARIABLES m,        \* which widget this behaviour explores: "lst" | "dyn" | "pg"
          st,       \* the widget's state (implementation-shaped record)
          k,        \* operations so far
          sel,      \* the selection changed and nothing but selection changes happened since
          drawn,    \* viewport height of the draw that produced st.kids (-1: none yet)
          cause,    \* why the index may be out of range until the next draw (ListRel!CauseAfter)
          follow    \* viewport of the unbroken run of draws after a selection change (ListRel!FollowAfterDraw)
vars == <<m, st, k, sel, drawn, cause, follow>>

(* ---- classic list ------------------------------------------------------- *)
Fresh == k = 0 /\ sel = FALSE /\ drawn = -1 /\ cause = "" /\ follow = <<>>
LstInit == \E n \in LstNs : m = "lst" /\ st = LNew(n) /\ Fresh
LstOp(s2) == /\ st' = s2 /\ sel' = (sel \/ s2.index # st.index) /\ drawn' = -1 /\ cause' = "" /\ follow' = <<>>
LstNext ==
  /\ m = "lst" /\ ~st.crashed /\ k < MaxOps /\ k' = k + 1 /\ m' = m
  /\ \/ LstOp(LDown(st)) \/ LstOp(LUp(st)) \/ LstOp(LHome(st)) \/ LstOp(LEnd(st))
     \/ \E h \in LstHs : LstOp(LPageDown(st, h)) \/ LstOp(LPageUp(st, h))
     \/ \E n \in LstNs : LstOp(LSetItems(st, n))
     \/ \E h \in LstHs : /\ st' = LDraw(st, h) /\ drawn' = h /\ sel' = FALSE /\ cause' = ""
                          /\ follow' = FollowAfterDraw(sel, follow, 0, h, st.n)

(* ---- builder-driven list ------------------------------------------------- *)
DynInit == \E hs \in DynHeights : \E g \in DynGaps :
              m = "dyn" /\ st = DNew(hs, g) /\ Fresh
DynOp(s2, op) == st' = s2 /\ drawn' = -1 /\ cause' = CauseAfter(cause, op, N(s2), s2.cursor) /\ follow' = <<>>
DynSelOp(s2, op) == DynOp(s2, op) /\ sel' = (sel \/ s2.cursor # st.cursor)
DynScrollOp(s2, op) == DynOp(s2, op) /\ sel' = FALSE
MaxItems == CHOOSE n \in {Len(hs) : hs \in DynHeights} : \A hs \in DynHeights : Len(hs) <= n
DynNext ==
  /\ m = "dyn" /\ ~st.crashed /\ k < MaxOps /\ k' = k + 1 /\ m' = m
  /\ \/ DynSelOp(DNext(st), "next") \/ DynSelOp(DPrev(st), "prev")
     \/ \E c \in 0..(MaxItems + 1) : DynSelOp(DSetCursor(st, c), "setcursorabs")       \* any index, also beyond the items
     \/ DynScrollOp(DWheelDown(st), "wheeldown") \/ DynScrollOp(DWheelUp(st), "wheelup")
     \/ \E p \in {-2, 1} : DynScrollOp(DSetPending(st, p), "pending")
     \/ \E hs \in DynHeights : DynScrollOp(DReplace(st, hs), "replace")                 \* any replacement, also of the selected item
     \/ \E H \in DynViews : /\ st' = DDraw(st, H) /\ drawn' = H /\ sel' = FALSE /\ cause' = ""
                            /\ follow' = FollowAfterDraw(sel, follow, 0, H, N(st))

(* ---- pager ------------------------------------------------------------------ *)
Chars == {[g |-> 1, w |-> 1, nl |-> FALSE], [g |-> 2, w |-> 1, nl |-> FALSE],
          [g |-> 3, w |-> 2, nl |-> FALSE], [g |-> 4, w |-> 0, nl |-> TRUE]}
Texts == UNION {[1..n -> Chars] : n \in 0..MaxText}
PgInit == \E tx \in Texts : \E w \in Widths :
             /\ Presentable(tx, w)
             /\ m = "pg" /\ st = [text |-> tx, w |-> w] /\ Fresh

Init == LstInit \/ DynInit \/ PgInit
Next == LstNext \/ DynNext
Spec == Init /\ [][Next]_vars

(* ---- the property's demands ---------------------------------------------- *)
NoCrash == m \in {"lst", "dyn"} => ~st.crashed
LstRange == m = "lst" /\ ~st.crashed => InRange(st.n, st.index)
(* out of range only between a replacement / a set-cursor beyond the items and the next draw *)
DynRange == m = "dyn" /\ ~st.crashed => InRange(N(st), st.cursor) \/ (cause # "" /\ drawn = -1)
LstLayout == m = "lst" /\ drawn >= 0 /\ ~st.crashed => LayoutOK(st.kids, st.n, 0)
DynLayout == m = "dyn" /\ drawn >= 0 /\ ~st.crashed => LayoutOK(st.kids, N(st), st.gap) /\ OwnHeight(st.kids, st.hs)
(* sel' is reset by the draw, so visibility is an action property: the draw *)
(* that follows a selection change shows the selected item, and so does the *)
(* same viewport drawn again with no operation in between (ListRel!MustShow; *)
(* widths are not modelled: 0).                                              *)
VisibleAfterSelect ==
  [][ /\ drawn' > 0 /\ ~st'.crashed
      => IF m = "lst" THEN MustShow(sel, follow, 0, drawn', st'.n) => Visible(st'.kids, st'.index, drawn')
         ELSE MustShow(sel, follow, 0, drawn', N(st')) => Visible(st'.kids, st'.cursor, drawn') ]_vars
PagerPresents == m = "pg" => Presents(PLayout(st.text, st.w), st.text, st.w)
PagerClamps == m = "pg" => \A off \in -2..(2 * MaxText + 2) : \A h \in 0..3 :
                  Clamped(POffset(off, Len(PLayout(st.text, st.w)), h), Len(PLayout(st.text, st.w)), h)

(* ---- oracle sanity (Pager) --------------------------------------------------- *)
(* The rule "a line of width k*W occupies k rows" stated independently of   *)
(* Pager!Lay, for texts of narrow characters: a line of n > 0 characters    *)
(* occupies ceil(n / W) rows, an empty terminated line one row, and nothing *)
(* follows the last terminator.                                             *)
RECURSIVE NarrowRowCount(_, _, _, _)
NarrowRowCount(text, W, i, n) ==      \* n: characters of the current line so far
  LET here == IF n = 0 THEN 0 ELSE (n + W - 1) \div W IN
  IF i > Len(text) THEN here
  ELSE IF text[i].nl THEN (IF n = 0 THEN 1 ELSE here) + NarrowRowCount(text, W, i + 1, 0)
  ELSE NarrowRowCount(text, W, i + 1, n + 1)
OracleRows == m = "pg" =>
  LET R == Rows(st.text, st.w) IN
  /\ NothingLost(R, st.text) /\ FitsWidth(R, st.w) /\ Presents(R, st.text, st.w)
  /\ (\A i \in 1..Len(st.text) : st.text[i].nl \/ st.text[i].w = 1) => Len(R) = NarrowRowCount(st.text, st.w, 1, 0)
  /\ \A y \in 1..Len(R) :       \* an empty row put in anywhere but at the very end is rejected, and named
       LET O == SubSeq(R, 1, y - 1) \o << <<>> >> \o SubSeq(R, y, Len(R)) IN
       O # Append(R, <<>>) => ~Presents(O, st.text, st.w) /\ PresentsWhy(O, st.text, st.w) = "empty-row-not-in-text"

(* Negative control: the layout as found (an exactly full line followed by  *)
(* its terminator gets an empty row of its own) is not a presentation, with *)
(* a narrow and with a wide character at the edge, one and two rows wide;   *)
(* at the end of the text it falls under the reading left to the pager.     *)
NarrowA == [g |-> 1, w |-> 1, nl |-> FALSE]
WideC   == [g |-> 3, w |-> 2, nl |-> FALSE]
NL      == [g |-> 4, w |-> 0, nl |-> TRUE]
AsFoundTexts == {<<NarrowA, NarrowA, NL, NarrowA>>, <<WideC, NL, NarrowA>>, <<NarrowA, NarrowA, NarrowA, NarrowA, NL, NarrowA>>,
                 <<NarrowA, NarrowA, NL, NL, NarrowA>>}
ASSUME AsFoundRejected ==
  /\ \A tx \in AsFoundTexts : /\ ~Presents(PLayoutAsFound(tx, 2), tx, 2)
                               /\ PresentsWhy(PLayoutAsFound(tx, 2), tx, 2) = "empty-row-not-in-text"
                               /\ Presents(PLayoutAsFound(tx, 3), tx, 3)
                               /\ Presents(PLayout(tx, 2), tx, 2)
  /\ Presents(PLayoutAsFound(<<NarrowA, NarrowA, NL>>, 2), <<NarrowA, NarrowA, NL>>, 2)
=============================================================================
