----------------------------- MODULE PagerImpl -----------------------------
(* IMPLEMENTATION-SHAPED (no verdicts): transcription of the pager's line   *)
(* layout and of the offset handling in its Draw (widgets/pager).           *)
EXTENDS Integers, Sequences

(* Layout: walk the characters; a newline stores the line; a character that *)
(* does not fit (col > 0) stores the line first; after appending, a full    *)
(* line is stored; what is left at the end is stored if not empty.          *)
RECURSIVE PLay(_, _, _, _, _, _)
PLay(text, W, i, cur, col, acc) ==
  IF i > Len(text) THEN (IF cur = <<>> THEN acc ELSE Append(acc, cur))
  ELSE LET ch == text[i] IN
       IF ch.nl THEN PLay(text, W, i + 1, <<>>, 0, Append(acc, cur))
       ELSE LET wrapFirst == col > 0 /\ col + ch.w > W
                acc1 == IF wrapFirst THEN Append(acc, cur) ELSE acc
                cur1 == Append(IF wrapFirst THEN <<>> ELSE cur, <<ch.g, ch.w>>)
                col1 == (IF wrapFirst THEN 0 ELSE col) + ch.w
            IN IF col1 >= W THEN PLay(text, W, i + 1, <<>>, 0, Append(acc1, cur1))
               ELSE PLay(text, W, i + 1, cur1, col1, acc1)
PLayout(text, W) == PLay(text, W, 1, <<>>, 0, <<>>)

(* Draw's offset handling for `total` laid-out lines in a window of h rows. *)
POffset(off, total, h) ==
  LET o1 == IF total - off < h THEN total - h ELSE off IN IF o1 < 0 THEN 0 ELSE o1
=============================================================================
