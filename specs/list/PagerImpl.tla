----------------------------- MODULE PagerImpl -----------------------------
(* IMPLEMENTATION-SHAPED (no verdicts): transcription of the pager's line   *)
(* layout and of the offset handling in its Draw (widgets/pager).           *)
EXTENDS Integers, Sequences

(* Layout (WITH the repair notes/proposed-fixes/c19-3.diff): walk the       *)
(* characters; a newline stores the line; a character that does not fit in  *)
(* what is left of the line (col > 0) stores the line first; what is left   *)
(* at the end is stored if not empty.                                       *)
RECURSIVE PLay(_, _, _, _, _, _)
PLay(text, W, i, cur, col, acc) ==
  IF i > Len(text) THEN (IF cur = <<>> THEN acc ELSE Append(acc, cur))
  ELSE LET ch == text[i] IN
       IF ch.nl THEN PLay(text, W, i + 1, <<>>, 0, Append(acc, cur))
       ELSE LET wrapFirst == col > 0 /\ col + ch.w > W
                acc1 == IF wrapFirst THEN Append(acc, cur) ELSE acc
                cur1 == Append(IF wrapFirst THEN <<>> ELSE cur, <<ch.g, ch.w>>)
                col1 == (IF wrapFirst THEN 0 ELSE col) + ch.w
            IN PLay(text, W, i + 1, cur1, col1, acc1)
PLayout(text, W) == PLay(text, W, 1, <<>>, 0, <<>>)

(* The layout as found (b8505c1): in addition, after appending, a line that *)
(* is full is stored at once and an empty one begun - which the newline     *)
(* that ends the same text line then stores as a row of its own.  Kept as   *)
(* the negative control of MC_Lists (AsFoundRejected).                      *)
RECURSIVE PLayAsFound(_, _, _, _, _, _)
PLayAsFound(text, W, i, cur, col, acc) ==
  IF i > Len(text) THEN (IF cur = <<>> THEN acc ELSE Append(acc, cur))
  ELSE LET ch == text[i] IN
       IF ch.nl THEN PLayAsFound(text, W, i + 1, <<>>, 0, Append(acc, cur))
       ELSE LET wrapFirst == col > 0 /\ col + ch.w > W
                acc1 == IF wrapFirst THEN Append(acc, cur) ELSE acc
                cur1 == Append(IF wrapFirst THEN <<>> ELSE cur, <<ch.g, ch.w>>)
                col1 == (IF wrapFirst THEN 0 ELSE col) + ch.w
            IN IF col1 >= W THEN PLayAsFound(text, W, i + 1, <<>>, 0, Append(acc1, cur1))
               ELSE PLayAsFound(text, W, i + 1, cur1, col1, acc1)
PLayoutAsFound(text, W) == PLayAsFound(text, W, 1, <<>>, 0, <<>>)

(* Draw's offset handling for `total` laid-out lines in a window of h rows. *)
POffset(off, total, h) ==
  LET o1 == IF total - off < h THEN total - h ELSE off IN IF o1 < 0 THEN 0 ELSE o1
=============================================================================
