------------------------------- MODULE Pager -------------------------------
(* Oracle for the pager half of C19: which sequences of display rows        *)
(* present a text completely at a given width.  Written from the property   *)
(* ("presents every line of its text, including a last line with no         *)
(* terminator, wraps at the window width without losing characters, clamps  *)
(* its scroll offset to the content").  No implementation identifiers.      *)
(*                                                                          *)
(* A text is a sequence of graphemes [g, w, nl]: id, cell width, and whether *)
(* it is a line terminator.  A row is a sequence of <<g, w>>.               *)
EXTENDS Integers, Sequences

RowWidth(row) == LET RECURSIVE S(_)
                     S(i) == IF i > Len(row) THEN 0 ELSE row[i][2] + S(i + 1)
                 IN S(1)

(* The canonical presentation: a line terminator ends the row; a grapheme   *)
(* that does not fit in what is left of the row starts the next one; an     *)
(* unterminated last line is a row like any other.                          *)
RECURSIVE Lay(_, _, _, _, _)
Lay(text, W, i, cur, acc) ==
  IF i > Len(text) THEN (IF cur = <<>> THEN acc ELSE Append(acc, cur))
  ELSE LET ch == text[i] IN
       IF ch.nl THEN Lay(text, W, i + 1, <<>>, Append(acc, cur))
       ELSE IF RowWidth(cur) + ch.w > W /\ cur # <<>>
            THEN Lay(text, W, i + 1, <<<<ch.g, ch.w>>>>, Append(acc, cur))
            ELSE Lay(text, W, i + 1, Append(cur, <<ch.g, ch.w>>), acc)
Rows(text, W) == Lay(text, W, 1, <<>>, <<>>)

(* The text can be presented at width W at all: no grapheme is wider.       *)
Presentable(text, W) == \A i \in 1..Len(text) : text[i].nl \/ text[i].w <= W

(* obs presents the text: it is the canonical rows - a line whose width is  *)
(* k times the window width occupies k rows, with or without its terminator *)
(* (the terminator ends the line it stands after; it is not a line of its   *)
(* own), so an empty row appears exactly where the text has an empty line.  *)
(* A row that is not in the text is not a presentation of the text: between *)
(* two lines it shows a blank line the text does not have, and it is counted *)
(* as content by the scroll bound.  One reading is left to the pager: a     *)
(* terminator at the very end of the text may be taken to open a last,      *)
(* empty line (text viewers differ on this); that one empty row at the end  *)
(* is accepted.                                                             *)
EndsTerminated(text) == Len(text) > 0 /\ text[Len(text)].nl
Presents(obs, text, W) ==
  \/ obs = Rows(text, W)
  \/ (EndsTerminated(text) /\ obs = Append(Rows(text, W), <<>>))

(* No character is lost: the rows, read in order, are the text without its  *)
(* terminators (a consequence of Presents, stated separately for the        *)
(* rejection signature).                                                    *)
RECURSIVE Flat(_, _)
Flat(rows, i) == IF i > Len(rows) THEN <<>> ELSE rows[i] \o Flat(rows, i + 1)
Printable(text) == LET RECURSIVE P(_)
                       P(i) == IF i > Len(text) THEN <<>>
                               ELSE (IF text[i].nl THEN <<>> ELSE <<<<text[i].g, text[i].w>>>>) \o P(i + 1)
                   IN P(1)
NothingLost(obs, text) == Flat(obs, 1) = Printable(text)
FitsWidth(obs, W) == \A i \in 1..Len(obs) : RowWidth(obs[i]) <= W

(* Scroll offset clamped to the content of total rows shown h at a time.    *)
MaxOffset(total, h) == IF total > h THEN total - h ELSE 0
Clamped(off, total, h) == off >= 0 /\ off <= MaxOffset(total, h)

(* obs is the canonical rows with empty rows put in between (for the        *)
(* rejection signature: rows shown that no line of the text occupies; obs   *)
(* is what a screen shows, so empty rows at its end cannot be told from no  *)
(* rows).                                                                   *)
RECURSIVE Padded(_, _, _, _)
Padded(obs, can, i, j) ==
  IF i > Len(obs) THEN \A jj \in j..Len(can) : can[jj] = <<>>
  ELSE \/ (j <= Len(can) /\ obs[i] = can[j] /\ Padded(obs, can, i + 1, j + 1))
       \/ (obs[i] = <<>> /\ Padded(obs, can, i + 1, j))

PresentsWhy(obs, text, W) ==
  IF ~NothingLost(obs, text) THEN "characters-lost"
  ELSE IF ~FitsWidth(obs, W) THEN "row-wider-than-window"
  ELSE IF Padded(obs, Rows(text, W), 1, 1) THEN "empty-row-not-in-text"
  ELSE "line-structure"
=============================================================================
