------------------------------- MODULE Pager -------------------------------
(* Oracle for the pager half of C19: which sequences of display rows        *)
(* present a text completely at a given width.  Written from the property   *)
(* ("presents every line of its text, including a last line with no         *)
(* terminator, wraps at the window width without losing characters, clamps  *)
(* its scroll offset to the content").  No implementation identifiers.      *)
(*                                                                          *)
(* A text is a sequence of graphemes [g, w, nl]: id, cell width, and whether *)
(* it is a line terminator.  A row is a sequence of <<g, w>>.               *)
EXTENDS Integers, Sequences

RowWidth(row) == LET RECURSIVE S(_)
                     S(i) == IF i > Len(row) THEN 0 ELSE row[i][2] + S(i + 1)
                 IN S(1)

(* The canonical presentation: a line terminator ends the row; a grapheme   *)
(* that does not fit in what is left of the row starts the next one; an     *)
(* unterminated last line is a row like any other.                          *)
RECURSIVE Lay(_, _, _, _, _)
Lay(text, W, i, cur, acc) ==
  IF i > Len(text) THEN (IF cur = <<>> THEN acc ELSE Append(acc, cur))
  ELSE LET ch == text[i] IN
       IF ch.nl THEN Lay(text, W, i + 1, <<>>, Append(acc, cur))
       ELSE IF RowWidth(cur) + ch.w > W /\ cur # <<>>
            THEN Lay(text, W, i + 1, <<<<ch.g, ch.w>>>>, Append(acc, cur))
            ELSE Lay(text, W, i + 1, Append(cur, <<ch.g, ch.w>>), acc)
Rows(text, W) == Lay(text, W, 1, <<>>, <<>>)

(* The text can be presented at width W at all: no grapheme is wider.       *)
Presentable(text, W) == \A i \in 1..Len(text) : text[i].nl \/ text[i].w <= W

(* obs presents the text: it is the canonical rows, except that an extra    *)
(* EMPTY row is tolerated (it loses nothing) directly after a row that      *)
(* fills the width exactly, and at the very end when the text ends with a   *)
(* terminator.                                                              *)
RECURSIVE Match(_, _, _, _, _)
Match(obs, can, W, i, j) ==      \* obs[i..] against can[j..]
  IF i > Len(obs) THEN j > Len(can)
  ELSE \/ (j <= Len(can) /\ obs[i] = can[j] /\ Match(obs, can, W, i + 1, j + 1))
       \/ (obs[i] = <<>> /\ i > 1 /\ RowWidth(obs[i - 1]) = W /\ Match(obs, can, W, i + 1, j))
EndsTerminated(text) == Len(text) > 0 /\ text[Len(text)].nl
Presents(obs, text, W) ==
  \/ Match(obs, Rows(text, W), W, 1, 1)
  \/ (EndsTerminated(text) /\ Len(obs) > 0 /\ obs[Len(obs)] = <<>>
      /\ Match(SubSeq(obs, 1, Len(obs) - 1), Rows(text, W), W, 1, 1))

(* No character is lost: the rows, read in order, are the text without its  *)
(* terminators (a consequence of Presents, stated separately for the        *)
(* rejection signature).                                                    *)
RECURSIVE Flat(_, _)
Flat(rows, i) == IF i > Len(rows) THEN <<>> ELSE rows[i] \o Flat(rows, i + 1)
Printable(text) == LET RECURSIVE P(_)
                       P(i) == IF i > Len(text) THEN <<>>
                               ELSE (IF text[i].nl THEN <<>> ELSE <<<<text[i].g, text[i].w>>>>) \o P(i + 1)
                   IN P(1)
NothingLost(obs, text) == Flat(obs, 1) = Printable(text)
FitsWidth(obs, W) == \A i \in 1..Len(obs) : RowWidth(obs[i]) <= W

(* Scroll offset clamped to the content of total rows shown h at a time.    *)
MaxOffset(total, h) == IF total > h THEN total - h ELSE 0
Clamped(off, total, h) == off >= 0 /\ off <= MaxOffset(total, h)

PresentsWhy(obs, text, W) ==
  IF ~NothingLost(obs, text) THEN "characters-lost"
  ELSE IF ~FitsWidth(obs, W) THEN "row-wider-than-window"
  ELSE "line-structure"
=============================================================================
