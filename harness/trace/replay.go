package trace

import (
	"encoding/json"
	"os"
)

// LoadReplay reads a replay file: either one scenario descriptor or
// {"multi":[descriptor,...]}.
func LoadReplay[T any](path string) ([]*T, error) {
	b, err := os.ReadFile(path)
	if err != nil {
		return nil, err
	}
	var m struct {
		Multi []*T `json:"multi"`
	}
	if err := json.Unmarshal(b, &m); err == nil && len(m.Multi) > 0 {
		return m.Multi, nil
	}
	var one T
	if err := json.Unmarshal(b, &one); err != nil {
		return nil, err
	}
	return []*T{&one}, nil
}
