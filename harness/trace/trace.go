// Package trace writes NDJSON traces (one abstract event per line) sharded
// over several files, plus an index of scenario descriptors. Non-ASCII
// strings are interned to integers because TLC's Json module cannot carry
// them.
package trace

import (
	"bufio"
	"encoding/json"
	"fmt"
	"os"
	"path/filepath"
	"reflect"
	"sync"
)

type Ev map[string]any

type Scenario struct {
	ID     int    `json:"id"`
	Ord    int    `json:"ord"`            // position in the generated/replayed list
	Sig    string `json:"sig,omitempty"`  // input-derived signature (known-finding matching)
	Desc   any    `json:"desc"`           // replay descriptor
	Note   string `json:"note,omitempty"` // e.g. "panic: ..." observations
	Events []Ev   `json:"-"`
	NEv    int    `json:"nev"`
	Shard  int    `json:"shard"`
}

type Sink struct {
	mu     sync.Mutex
	dir    string
	shards int
	fs     []*os.File
	ws     []*bufio.Writer
	idxf   *os.File
	idx    *bufio.Writer
	n      int
	events int
	lines  []int
}

func NewSink(dir string, shards int) (*Sink, error) {
	if err := os.MkdirAll(dir, 0o755); err != nil {
		return nil, err
	}
	s := &Sink{dir: dir, shards: shards, lines: make([]int, shards)}
	for i := 0; i < shards; i++ {
		f, err := os.Create(filepath.Join(dir, fmt.Sprintf("shard%02d.ndjson", i)))
		if err != nil {
			return nil, err
		}
		s.fs = append(s.fs, f)
		s.ws = append(s.ws, bufio.NewWriterSize(f, 1<<20))
	}
	f, err := os.Create(filepath.Join(dir, "index.ndjson"))
	if err != nil {
		return nil, err
	}
	s.idxf, s.idx = f, bufio.NewWriterSize(f, 1<<20)
	return s, nil
}

// Put appends a scenario. Its first event must be a "reset" event.
func (s *Sink) Put(sc *Scenario) int {
	s.mu.Lock()
	defer s.mu.Unlock()
	sc.ID = s.n
	s.n++
	sh := sc.ID % s.shards
	sc.Shard = sh
	sc.NEv = len(sc.Events)
	w := s.ws[sh]
	for _, e := range sc.Events {
		e["scn"] = sc.ID
		noNil(e)
		b, err := json.Marshal(e)
		if err != nil {
			panic(err)
		}
		w.Write(b)
		w.WriteByte('\n')
	}
	s.lines[sh] += len(sc.Events)
	s.events += len(sc.Events)
	b, _ := json.Marshal(sc)
	s.idx.Write(b)
	s.idx.WriteByte('\n')
	return sc.ID
}

// noNil replaces nil slices and nil values (which encoding/json writes as
// null, a value TLC's Json module cannot read) by empty lists, in the event
// and in maps nested in it.
func noNil(m map[string]any) {
	for k, v := range m {
		if v == nil {
			m[k] = []any{}
			continue
		}
		if mm, ok := v.(map[string]any); ok {
			noNil(mm)
			continue
		}
		if rv := reflect.ValueOf(v); (rv.Kind() == reflect.Slice || rv.Kind() == reflect.Map) && rv.IsNil() {
			m[k] = []any{}
		}
	}
}

func (s *Sink) Close() error {
	s.mu.Lock()
	defer s.mu.Unlock()
	for i := range s.ws {
		// TLC's ndJsonDeserialize of an empty file yields an empty sequence; fine.
		s.ws[i].Flush()
		s.fs[i].Close()
	}
	s.idx.Flush()
	s.idxf.Close()
	meta, _ := json.Marshal(map[string]any{"scenarios": s.n, "events": s.events, "shards": s.shards, "lines": s.lines})
	return os.WriteFile(filepath.Join(s.dir, "meta.json"), meta, 0o644)
}

func (s *Sink) Count() (int, int) {
	s.mu.Lock()
	defer s.mu.Unlock()
	return s.n, s.events
}

// Interner maps strings to small integers; id 0 is reserved for " ".
type Interner struct {
	mu sync.Mutex
	m  map[string]int
	l  []string
}

func NewInterner(zero string) *Interner {
	return &Interner{m: map[string]int{zero: 0}, l: []string{zero}}
}

func (in *Interner) ID(s string) int {
	in.mu.Lock()
	defer in.mu.Unlock()
	if id, ok := in.m[s]; ok {
		return id
	}
	id := len(in.l)
	in.m[s] = id
	in.l = append(in.l, s)
	return id
}

func (in *Interner) Table() []string {
	in.mu.Lock()
	defer in.mu.Unlock()
	return append([]string(nil), in.l...)
}
