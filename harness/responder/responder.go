// Package responder is a deliberately small terminal stand-in that answers
// Vaxis's start-up and run-time queries according to a chosen capability
// set. It carries no display semantics (those live in specs/term/RefTerm.tla);
// it tracks only the cursor column/row well enough to answer CPR.
package responder

import (
	"encoding/base64"
	"fmt"
	"strings"
	"sync"

	"github.com/rivo/uniseg"

	"verif/harness/lexer"
)

// Caps is the set of features the terminal advertises.
type Caps struct {
	Sync          bool // DECRQM 2026
	UnicodeCore   bool // DECRQM 2027
	ColorTheme    bool // DECRQM 2031 + DSR 996
	InBandResize  bool // mode 2048
	KittyKeyboard bool // CSI ? u
	KittyGraphics bool // APC G query
	SixelDA1      bool // 4 in DA1
	DA1Class      int  // first DA1 parameter (service class); 0 = 62
	SixelXTSM     bool // XTSMGRAPHICS
	SizeReports   bool // CSI 14 t / CSI 18 t
	RGB           bool // XTGETTCAP RGB
	Smulx         bool // XTGETTCAP Smulx
	VTE           bool // tertiary DA ~VTE
	OSC4          bool
	OSC10         bool
	OSC11         bool
	OSC176        bool
	ExplicitWidth bool // OSC 66
	XTVersion     string
	// RepliesUnsupported: answer DECRQM with Ps=0 / XTGETTCAP with DCS 0+r for
	// unsupported features instead of staying silent.
	RepliesUnsupported bool
	CursorStyle        int // DECRQSS answer (0-6); -1 = no reply
	AppID              string
	NoDA1              bool
	// UnsupportedStatus is the DECRPM status reported for a mode the terminal
	// does not implement when RepliesUnsupported is set: 0 (not recognised)
	// or 4 (permanently reset: the mode number is known but cannot be set).
	UnsupportedStatus int
	// PreSet lists gated private modes that are already set when the
	// application starts (DECRQM then answers Ps=1 instead of 2).
	PreSet map[int]bool
	// HexCase: letter case of the hexadecimal digits in the terminal's XTGETTCAP and tertiary-DA replies
	// (a terminal decodes the requested name and encodes its answer itself): 0 = upper case (default),
	// 1 = lower case, 2 = mixed. Hexadecimal notation has no case.
	HexCase int
}

// reName: the capability name in a reply: the request's own bytes by default, re-encoded otherwise.
func (c Caps) reName(asked, name string) string {
	if c.HexCase == 0 {
		return asked
	}
	return c.hex(name)
}

// hex encodes s as the terminal writes hexadecimal strings.
func (c Caps) hex(s string) string {
	h := hexs(s)
	switch c.HexCase {
	case 1:
		return strings.ToLower(h)
	case 2:
		b, n := []byte(h), 0
		for i, ch := range b {
			if ch >= 'A' && ch <= 'F' {
				if n%2 == 0 {
					b[i] = ch + 'a' - 'A'
				}
				n++
			}
		}
		return string(b)
	}
	return h
}

// Names lists the 15 independent advertised features in a fixed order.
var Names = []string{"sync", "unicodeCore", "colorTheme", "inBandResize", "kittyKeyboard",
	"kittyGraphics", "sixel", "sizeReports", "rgb", "styledUnderlines", "osc4", "osc10", "osc11", "osc176", "explicitWidth"}

// FromMask builds Caps from a 15-bit mask in Names order. alt selects the
// alternative way of advertising a feature where two exist (sixel by XTSM
// instead of DA1, styled underlines by VTE signature instead of Smulx).
func FromMask(m int, alt bool) Caps {
	c := Caps{CursorStyle: 2, AppID: "oldapp"}
	bit := func(i int) bool { return m&(1<<i) != 0 }
	c.Sync, c.UnicodeCore, c.ColorTheme, c.InBandResize = bit(0), bit(1), bit(2), bit(3)
	c.KittyKeyboard, c.KittyGraphics = bit(4), bit(5)
	if bit(6) {
		if alt {
			c.SixelXTSM = true
		} else {
			c.SixelDA1 = true
		}
	}
	c.SizeReports, c.RGB = bit(7), bit(8)
	if bit(9) {
		if alt {
			c.VTE = true
		} else {
			c.Smulx = true
		}
	}
	c.OSC4, c.OSC10, c.OSC11, c.OSC176, c.ExplicitWidth = bit(10), bit(11), bit(12), bit(13), bit(14)
	c.RepliesUnsupported = alt
	if alt && m%3 != 1 {
		c.UnsupportedStatus = 4
	}
	return c
}

type Responder struct {
	Caps       Caps
	Cols, Rows int
	XPix, YPix int
	Row, Col   int // 1-based cursor
	savedR     int
	savedC     int
	lx         lexer.Lexer
	Reply      func([]byte) // where replies go (console.Inject)
	Queries    []string     // log of recognised queries
	Clipboard  string
	Mute       bool // when set, nothing is answered
	mu         sync.Mutex
	// Hold, when non-nil, receives replies instead of Reply (for late delivery).
}

func New(c Caps, cols, rows int, reply func([]byte)) *Responder {
	return &Responder{Caps: c, Cols: cols, Rows: rows, Row: 1, Col: 1, Reply: reply}
}

func hexs(s string) string { return fmt.Sprintf("%X", s) }

// OnWrite is installed as fakecon.Console.OnWrite.
func (r *Responder) OnWrite(p []byte) {
	r.mu.Lock()
	defer r.mu.Unlock()
	for _, t := range r.lx.Feed(p) {
		r.handle(t)
	}
}

func (r *Responder) send(s string) {
	if r.Mute || r.Reply == nil || s == "" {
		return
	}
	r.Reply([]byte(s))
}

func (r *Responder) handle(t lexer.Token) {
	c := r.Caps
	switch t.K {
	case lexer.Text:
		w := uniseg.StringWidth(t.S)
		r.Col += w
		if r.Col > r.Cols {
			r.Col = r.Cols
		}
	case lexer.CSI:
		switch {
		case t.B == 'H' && t.Priv == "":
			r.Row, r.Col = t.P(0, 1), t.P(1, 1)
		case t.B == 'h' && t.Priv == "?":
			switch t.P(0, 0) {
			case 1049:
				r.savedR, r.savedC = r.Row, r.Col
			case 2048:
				if c.InBandResize {
					r.Queries = append(r.Queries, "2048")
					r.send(fmt.Sprintf("\x1b[48;%d;%d;%d;%dt", r.Rows, r.Cols, r.YPix, r.XPix))
				}
			}
		case t.B == 'l' && t.Priv == "?":
			if t.P(0, 0) == 1049 {
				r.Row, r.Col = r.savedR, r.savedC
				if r.Row == 0 {
					r.Row, r.Col = 1, 1
				}
			}
		case t.B == 'p' && t.Priv == "?" && t.Inter == "$":
			n := t.P(0, 0)
			sup := (n == 2026 && c.Sync) || (n == 2027 && c.UnicodeCore) || (n == 2031 && c.ColorTheme)
			r.Queries = append(r.Queries, fmt.Sprintf("decrqm%d", n))
			if sup && c.PreSet[n] {
				r.send(fmt.Sprintf("\x1b[?%d;1$y", n))
			} else if sup {
				r.send(fmt.Sprintf("\x1b[?%d;2$y", n))
			} else if c.RepliesUnsupported {
				r.send(fmt.Sprintf("\x1b[?%d;%d$y", n, c.UnsupportedStatus))
			}
		case t.B == 'q' && t.Priv == ">":
			r.Queries = append(r.Queries, "xtversion")
			if c.XTVersion != "" {
				r.send("\x1bP>|" + c.XTVersion + "\x1b\\")
			}
		case t.B == 'u' && t.Priv == "?":
			r.Queries = append(r.Queries, "kittykb")
			if c.KittyKeyboard {
				r.send("\x1b[?0u")
			}
		case t.B == 'S' && t.Priv == "?":
			r.Queries = append(r.Queries, "xtsm")
			if c.SixelXTSM {
				r.send("\x1b[?2;0;800;600S")
			} else if c.RepliesUnsupported {
				r.send("\x1b[?2;3;0S")
			}
		case t.B == 't' && t.Priv == "":
			switch t.P(0, 0) {
			case 14:
				r.Queries = append(r.Queries, "size14")
				if c.SizeReports {
					r.send(fmt.Sprintf("\x1b[4;%d;%dt", r.YPix, r.XPix))
				}
			case 18:
				r.Queries = append(r.Queries, "size18")
				if c.SizeReports {
					r.send(fmt.Sprintf("\x1b[8;%d;%dt", r.Rows, r.Cols))
				}
			}
		case t.B == 'n' && t.Priv == "":
			if t.P(0, 0) == 6 {
				r.Queries = append(r.Queries, "cpr")
				r.send(fmt.Sprintf("\x1b[%d;%dR", r.Row, r.Col))
			}
		case t.B == 'n' && t.Priv == "?":
			if t.P(0, 0) == 996 && c.ColorTheme {
				r.Queries = append(r.Queries, "dsr996")
				r.send("\x1b[?997;1n")
			}
		case t.B == 'c' && t.Priv == "=":
			r.Queries = append(r.Queries, "da3")
			if c.VTE {
				r.send("\x1bP!|" + c.hex("~VTE") + "\x1b\\")
			} else if c.RepliesUnsupported {
				r.send("\x1bP!|00000000\x1b\\")
			}
		case t.B == 'c' && t.Priv == "":
			r.Queries = append(r.Queries, "da1")
			if c.NoDA1 {
				return
			}
			class := c.DA1Class
			if class == 0 {
				class = 62
			}
			if c.SixelDA1 {
				r.send(fmt.Sprintf("\x1b[?%d;4;22c", class))
			} else {
				r.send(fmt.Sprintf("\x1b[?%d;22c", class))
			}
		}
	case lexer.OSC:
		switch {
		case strings.HasPrefix(t.S, "66;"):
			if c.ExplicitWidth {
				parts := strings.SplitN(t.S, ";", 3)
				w := 1
				fmt.Sscanf(parts[1], "w=%d", &w)
				r.Col += w
			}
		case strings.HasPrefix(t.S, "4;") && strings.HasSuffix(t.S, ";?"):
			r.Queries = append(r.Queries, "osc4")
			if c.OSC4 {
				idx := strings.Split(t.S, ";")[1]
				r.send("\x1b]4;" + idx + ";rgb:1212/3434/5656\x1b\\")
			}
		case t.S == "10;?":
			r.Queries = append(r.Queries, "osc10")
			if c.OSC10 {
				r.send("\x1b]10;rgb:abab/cdcd/efef\x1b\\")
			}
		case t.S == "11;?":
			r.Queries = append(r.Queries, "osc11")
			if c.OSC11 {
				r.send("\x1b]11;rgb:0101/0202/0303\x1b\\")
			}
		case t.S == "176;?":
			r.Queries = append(r.Queries, "osc176")
			if c.OSC176 {
				r.send("\x1b]176;" + c.AppID + "\x1b\\")
			}
		case t.S == "52;c;?":
			r.Queries = append(r.Queries, "osc52")
			if r.Clipboard != "" {
				r.send("\x1b]52;c;" + base64.StdEncoding.EncodeToString([]byte(r.Clipboard)) + "\x1b\\")
			}
		}
	case lexer.DCS:
		switch {
		case strings.HasPrefix(t.S, "+q"):
			name := t.S[2:]
			r.Queries = append(r.Queries, "xtgettcap:"+name)
			switch {
			case strings.EqualFold(name, hexs("RGB")) && c.RGB:
				r.send("\x1bP1+r" + c.reName(name, "RGB") + "=" + c.hex("8/8/8") + "\x1b\\")
			case strings.EqualFold(name, hexs("Smulx")) && c.Smulx:
				r.send("\x1bP1+r" + c.reName(name, "Smulx") + "=" + c.hex("\\E[4:%p1%dm") + "\x1b\\")
			default:
				if c.RepliesUnsupported {
					r.send("\x1bP0+r\x1b\\")
				}
			}
		case t.S == "$q q":
			r.Queries = append(r.Queries, "decrqss")
			if c.CursorStyle >= 0 {
				r.send(fmt.Sprintf("\x1bP1$r%d q\x1b\\", c.CursorStyle))
			}
		}
	case lexer.APC:
		if strings.HasPrefix(t.S, "G") && strings.Contains(t.S, "a=q") {
			r.Queries = append(r.Queries, "kittygfx")
			if c.KittyGraphics {
				r.send("\x1b_Gi=1;OK\x1b\\")
			}
		}
	}
}
