// Package fakecon is an in-memory console.Console for driving a real Vaxis
// instance without a TTY. Output is captured; input is injected in chunks
// (one Read never returns more than one injected chunk, so the harness
// controls read boundaries). Fd() is invalid so that Vaxis falls back to
// Size().
package fakecon

import (
	"io"
	"sync"

	"github.com/containerd/console"
)

type Console struct {
	// AfterSize, when set, runs each time Size has read the size (before it returns)
	AfterSize func()
	mu        sync.Mutex
	cond      *sync.Cond
	chunks    [][]byte
	out       []byte
	closed    bool
	w, h      uint16
	// OnWrite, when set, is called (outside the lock) with every write.
	OnWrite func(p []byte)
	// Reads counts completed Read calls that returned data.
	reads   int
	waiting int // readers currently blocked
	raw     bool
	resets  int
}

func New(cols, rows int) *Console {
	c := &Console{w: uint16(cols), h: uint16(rows)}
	c.cond = sync.NewCond(&c.mu)
	return c
}

func (c *Console) Read(p []byte) (int, error) {
	c.mu.Lock()
	defer c.mu.Unlock()
	for len(c.chunks) == 0 && !c.closed {
		c.waiting++
		c.cond.Broadcast()
		c.cond.Wait()
		c.waiting--
	}
	if len(c.chunks) == 0 {
		return 0, io.EOF
	}
	n := copy(p, c.chunks[0])
	if n == len(c.chunks[0]) {
		c.chunks = c.chunks[1:]
	} else {
		c.chunks[0] = c.chunks[0][n:]
	}
	c.reads++
	c.cond.Broadcast()
	return n, nil
}

func (c *Console) Write(p []byte) (int, error) {
	c.mu.Lock()
	c.out = append(c.out, p...)
	cb := c.OnWrite
	c.mu.Unlock()
	if cb != nil {
		cb(append([]byte(nil), p...))
	}
	return len(p), nil
}

// Inject queues one chunk of terminal->application bytes.
func (c *Console) Inject(p []byte) {
	if len(p) == 0 {
		return
	}
	c.mu.Lock()
	c.chunks = append(c.chunks, append([]byte(nil), p...))
	c.cond.Broadcast()
	c.mu.Unlock()
}

// Drained blocks until every injected chunk has been read and a reader is
// blocked waiting for more (or the console is closed).
func (c *Console) Drained() {
	c.mu.Lock()
	for !(c.closed || (len(c.chunks) == 0 && c.waiting > 0)) {
		c.cond.Wait()
	}
	c.mu.Unlock()
}

// Pending reports the number of chunks not yet read.
func (c *Console) Pending() int {
	c.mu.Lock()
	defer c.mu.Unlock()
	return len(c.chunks)
}

// Take returns everything written since the last Take.
func (c *Console) Take() []byte {
	c.mu.Lock()
	defer c.mu.Unlock()
	o := c.out
	c.out = nil
	return o
}

func (c *Console) SetSize(cols, rows int) {
	c.mu.Lock()
	c.w, c.h = uint16(cols), uint16(rows)
	c.mu.Unlock()
}

func (c *Console) Close() error {
	c.mu.Lock()
	c.closed = true
	c.cond.Broadcast()
	c.mu.Unlock()
	return nil
}

func (c *Console) Closed() bool {
	c.mu.Lock()
	defer c.mu.Unlock()
	return c.closed
}

func (c *Console) Fd() uintptr  { return ^uintptr(0) }
func (c *Console) Name() string { return "fakecon" }

func (c *Console) Resize(ws console.WinSize) error {
	c.SetSize(int(ws.Width), int(ws.Height))
	return nil
}
func (c *Console) ResizeFrom(o console.Console) error { return nil }
func (c *Console) SetRaw() error {
	c.mu.Lock()
	c.raw = true
	c.mu.Unlock()
	return nil
}
func (c *Console) DisableEcho() error { return nil }
func (c *Console) Reset() error {
	c.mu.Lock()
	c.raw = false
	c.resets++
	c.mu.Unlock()
	return nil
}
func (c *Console) Size() (console.WinSize, error) {
	c.mu.Lock()
	ws := console.WinSize{Width: c.w, Height: c.h}
	after := c.AfterSize
	c.mu.Unlock()
	if after != nil {
		after() // a linearisation point for schedules: the caller has read the size, nothing else yet
	}
	return ws, nil
}
