package sess

import (
	"fmt"
	"sync"
	"sync/atomic"
)

// Pool keeps started sessions for reuse by scenarios that only draw and
// render (they neither need a fresh start-up handshake nor input). A driver
// that starts thousands of sessions on a loaded machine keeps running into the
// library's wall-clock time-outs (cursor-position reply after 50 ms, ESC timer
// 10 ms), which are other properties' subject; a pooled session is started
// once and never closed.
type Pool struct {
	mu       sync.Mutex
	m        map[string]*Shared
	rr       uint32
	Replicas int // sessions per key (parallelism); default 4
}

// Shared is a session used by one scenario at a time (hold Mu while using it).
type Shared struct {
	Mu   sync.Mutex
	S    *S
	Uses int // scenarios that have used it before
}

// Get returns a session for cfg, starting it on first use.
func (p *Pool) Get(key string, cfg Config) (*Shared, error) {
	n := p.Replicas
	if n <= 0 {
		n = 4
	}
	k := fmt.Sprintf("%s#%d", key, atomic.AddUint32(&p.rr, 1)%uint32(n))
	p.mu.Lock()
	defer p.mu.Unlock()
	if p.m == nil {
		p.m = map[string]*Shared{}
	}
	if sh, ok := p.m[k]; ok {
		return sh, nil
	}
	s, err := Start(cfg)
	if err != nil {
		return nil, err
	}
	sh := &Shared{S: s}
	p.m[k] = sh
	return sh, nil
}

// Drop forgets all sessions (they are left running; the process is short-lived).
func (p *Pool) Drop() {
	p.mu.Lock()
	p.m = nil
	p.mu.Unlock()
}
