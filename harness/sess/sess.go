// Package sess starts a real Vaxis on a fake console with a responder.
package sess

import (
	"os"
	"sync"

	"git.sr.ht/~rockorager/vaxis"

	"verif/harness/fakecon"
	"verif/harness/responder"
)

type S struct {
	Con  *fakecon.Console
	Resp *responder.Responder
	Vx   *vaxis.Vaxis
	// Startup is everything written during New.
	Startup []byte
}

var scrub sync.Once

func ScrubEnv() {
	scrub.Do(func() {
		for _, k := range []string{"COLORTERM", "ASCIINEMA_REC", "VAXIS_LOG_LEVEL", "VAXIS_GRAPHICS",
			"VAXIS_FORCE_LEGACY_SGR", "VAXIS_FORCE_WCWIDTH", "VAXIS_FORCE_UNICODE", "VAXIS_FORCE_NOZWJ",
			"VAXIS_DISABLE_NOZWJ", "VAXIS_FORCE_XTWINOPS"} {
			os.Unsetenv(k)
		}
	})
}

type Config struct {
	Caps       responder.Caps
	Cols, Rows int
	XPix, YPix int
	CurRow     int // terminal's initial cursor (1-based); 0 = 1
	CurCol     int
	Opts       vaxis.Options
}

func Start(cfg Config) (*S, error) {
	ScrubEnv()
	con := fakecon.New(cfg.Cols, cfg.Rows)
	resp := responder.New(cfg.Caps, cfg.Cols, cfg.Rows, con.Inject)
	resp.XPix, resp.YPix = cfg.XPix, cfg.YPix
	if cfg.CurRow > 0 {
		resp.Row, resp.Col = cfg.CurRow, cfg.CurCol
	}
	con.OnWrite = resp.OnWrite
	opts := cfg.Opts
	opts.WithConsole = con
	opts.NoSignals = true
	vx, err := vaxis.New(opts)
	if err != nil {
		return nil, err
	}
	s := &S{Con: con, Resp: resp, Vx: vx}
	s.Startup = con.Take()
	return s, nil
}
