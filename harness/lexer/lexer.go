// Package lexer is an independent ECMA-48 tokenizer for the byte stream an
// application writes to a terminal. It is written from ECMA-48 5th ed. §5.4
// (control sequences: parameter bytes 03/00-03/15, intermediate bytes
// 02/00-02/15, final byte 04/00-07/14) and §5.6 (control strings terminated
// by ST; BEL accepted for OSC as xterm does). It does not use ansi.Parser.
package lexer

import (
	"strconv"
	"strings"
	"unicode/utf8"
)

type Kind string

const (
	Text Kind = "text" // run of printable characters (UTF-8)
	C0   Kind = "c0"
	ESC  Kind = "esc"
	CSI  Kind = "csi"
	OSC  Kind = "osc"
	DCS  Kind = "dcs"
	APC  Kind = "apc"
	PM   Kind = "pm"
	SOS  Kind = "sos"
)

type Token struct {
	K      Kind
	S      string  // Text: the text; OSC/DCS/APC/PM/SOS: payload (DCS: whole body after ESC P)
	B      byte    // C0: the byte; ESC/CSI: final byte
	Priv   string  // CSI: leading private-marker bytes 03/12-03/15
	Inter  string  // ESC/CSI: intermediate bytes
	Params [][]int // CSI: parameters; sub-parameters separated by ':'; omitted value = -1
	Raw    string  // CSI: raw parameter string
}

type Lexer struct {
	st   int
	buf  []byte // pending bytes of an incomplete token
	text []byte
	out  []Token
}

const (
	sGround = iota
	sEsc
	sEscInter
	sCSI
	sStr    // inside OSC/DCS/APC/PM/SOS
	sStrEsc // ESC seen inside string
)

func (l *Lexer) flushText() {
	if len(l.text) > 0 {
		l.out = append(l.out, Token{K: Text, S: string(l.text)})
		l.text = l.text[:0]
	}
}

// Feed consumes bytes and returns the tokens completed so far.
func (l *Lexer) Feed(p []byte) []Token {
	for _, b := range p {
		l.step(b)
	}
	// text is flushed only at token boundaries or on demand: a UTF-8 sequence
	// may straddle writes. Flush complete runes.
	if l.st == sGround && len(l.text) > 0 && utf8.Valid(l.text) {
		l.flushText()
	}
	o := l.out
	l.out = nil
	return o
}

// Incomplete reports whether a control sequence or string is unfinished.
func (l *Lexer) Incomplete() bool { return l.st != sGround || len(l.text) > 0 }

var strKind byte

func (l *Lexer) step(b byte) {
	switch l.st {
	case sGround:
		switch {
		case b == 0x1b:
			l.flushText()
			l.st = sEsc
			l.buf = l.buf[:0]
		case b < 0x20 || b == 0x7f:
			l.flushText()
			l.out = append(l.out, Token{K: C0, B: b})
		default:
			l.text = append(l.text, b)
		}
	case sEsc:
		switch {
		case b == '[':
			l.st = sCSI
			l.buf = l.buf[:0]
		case b == ']', b == 'P', b == '_', b == '^', b == 'X':
			l.st = sStr
			l.buf = append(l.buf[:0], b)
		case b >= 0x20 && b <= 0x2f:
			l.buf = append(l.buf[:0], b)
			l.st = sEscInter
		case b == 0x1b:
			// stay
		default:
			l.out = append(l.out, Token{K: ESC, B: b})
			l.st = sGround
		}
	case sEscInter:
		switch {
		case b >= 0x20 && b <= 0x2f:
			l.buf = append(l.buf, b)
		default:
			l.out = append(l.out, Token{K: ESC, Inter: string(l.buf), B: b})
			l.st = sGround
		}
	case sCSI:
		switch {
		case b >= 0x40 && b <= 0x7e:
			l.out = append(l.out, parseCSI(l.buf, b))
			l.st = sGround
		case b == 0x1b:
			l.st = sEsc // cancelled
		case b < 0x20:
			l.out = append(l.out, Token{K: C0, B: b})
		default:
			l.buf = append(l.buf, b)
		}
	case sStr:
		switch {
		case b == 0x1b:
			l.st = sStrEsc
		case b == 0x07 && l.buf[0] == ']':
			l.emitStr()
			l.st = sGround
		default:
			l.buf = append(l.buf, b)
		}
	case sStrEsc:
		if b == '\\' {
			l.emitStr()
			l.st = sGround
		} else {
			// string cancelled by ESC; the ESC starts a new sequence
			l.emitStr()
			l.st = sEsc
			l.step(b)
		}
	}
}

func (l *Lexer) emitStr() {
	k := map[byte]Kind{']': OSC, 'P': DCS, '_': APC, '^': PM, 'X': SOS}[l.buf[0]]
	l.out = append(l.out, Token{K: k, S: string(l.buf[1:])})
}

func parseCSI(buf []byte, final byte) Token {
	t := Token{K: CSI, B: final}
	i := 0
	for i < len(buf) && buf[i] >= 0x3c && buf[i] <= 0x3f {
		i++
	}
	t.Priv = string(buf[:i])
	j := i
	for j < len(buf) && buf[j] >= 0x30 && buf[j] <= 0x3b {
		j++
	}
	t.Raw = string(buf[i:j])
	t.Inter = string(buf[j:])
	if t.Raw != "" {
		for _, p := range strings.Split(t.Raw, ";") {
			var sub []int
			for _, s := range strings.Split(p, ":") {
				if s == "" {
					sub = append(sub, -1)
				} else {
					n, err := strconv.Atoi(s)
					if err != nil {
						n = 1 << 30
					}
					sub = append(sub, n)
				}
			}
			t.Params = append(t.Params, sub)
		}
	}
	return t
}

// P returns parameter i (first sub-parameter) or def when omitted.
func (t Token) P(i, def int) int {
	if i >= len(t.Params) || len(t.Params[i]) == 0 || t.Params[i][0] < 0 {
		return def
	}
	return t.Params[i][0]
}
