// Package termcmd converts lexed terminal output into the abstract command
// events consumed by specs/term/RefTerm.tla, attaching to every printed
// grapheme cluster the number of cells *the terminal* gives it (a logged
// fact computed with uniseg/runewidth through a path independent of Vaxis).
package termcmd

import (
	"fmt"
	"strings"

	"github.com/mattn/go-runewidth"
	"github.com/rivo/uniseg"

	"verif/harness/lexer"
	"verif/harness/trace"
)

const RGBBase = 1 << 24

// Conv holds the terminal-side state needed to interpret output.
type Conv struct {
	G        *trace.Interner // graphemes
	L        *trace.Interner // hyperlinks (id 0 = none)
	Mode2027 bool            // terminal currently clusters + measures per Unicode core
	UCore    bool            // terminal supports mode 2027 at all
	XW       bool            // terminal honours OSC 66
	NULs     int
	Unknown  []string
	lx       lexer.Lexer
}

func NewConv(g, l *trace.Interner, ucore, xw bool) *Conv {
	return &Conv{G: g, L: l, UCore: ucore, XW: xw}
}

// LegacyWidth is the number of cells a terminal without grapheme clustering
// gives a cluster: the sum over its code points (variation selectors are
// zero-width there).
func LegacyWidth(s string) int {
	t := 0
	for _, r := range s {
		if (r >= 0xFE00 && r <= 0xFE0F) || (r >= 0xE0100 && r <= 0xE01EF) {
			continue
		}
		t += runewidth.RuneWidth(r)
	}
	return t
}

// TermWidth: cells the terminal gives cluster s when printed plainly.
func (c *Conv) TermWidth(s string) int {
	if c.Mode2027 {
		return termCols(uniseg.StringWidth(s))
	}
	return LegacyWidth(s)
}

// termCols: a terminal shows a cluster in one column or two (uniseg measures U+2E3A as three and U+2E3B
// as four columns wide; no terminal gives a glyph more than two cells).
func termCols(w int) int {
	if w > 2 {
		return 2
	}
	return w
}

// AppWidth: cells the terminal will give cluster s when the application
// leaves the width to Vaxis: on an explicit-width terminal anything Unicode
// measures wider than 1 is sent with OSC 66 and so takes that width.
func (c *Conv) AppWidth(s string) int {
	if c.XW && !c.Mode2027 {
		if u := termCols(uniseg.StringWidth(s)); u > 1 {
			return u
		}
	}
	return c.TermWidth(s)
}

// csiQuery recognises the report requests an application may send.
func csiQuery(t lexer.Token) trace.Ev {
	q := func(name string, n int) trace.Ev { return trace.Ev{"ev": "query", "q": name, "n": n} }
	switch {
	case t.B == 'n' && t.Priv == "" && t.P(0, 0) == 6:
		return q("cpr", 0)
	case t.B == 'n' && t.Priv == "?":
		return q("dsr", t.P(0, 0))
	case t.B == 'c' && t.Priv == "" && t.Inter == "":
		return q("da1", 0)
	case t.B == 'c' && t.Priv == "=":
		return q("da3", 0)
	case t.B == 'p' && t.Priv == "?" && t.Inter == "$":
		return q("decrqm", t.P(0, 0))
	case t.B == 'q' && t.Priv == ">":
		return q("xtversion", 0)
	case t.B == 'u' && t.Priv == "?":
		return q("kittykb", 0)
	case t.B == 'S' && t.Priv == "?":
		return q("xtsmgraphics", 0)
	case t.B == 't' && t.Priv == "" && (t.P(0, 0) == 14 || t.P(0, 0) == 18):
		return q("winsize", t.P(0, 0))
	}
	return nil
}

func asciiOnly(s string) string {
	b := []byte(s)
	for i := range b {
		if b[i] < 0x20 || b[i] > 0x7e || b[i] == '"' || b[i] == '\\' {
			b[i] = '?'
		}
	}
	return string(b)
}

// Feed converts a chunk of output bytes to events.
func (c *Conv) Feed(p []byte) []trace.Ev {
	var evs []trace.Ev
	for _, t := range c.lx.Feed(p) {
		evs = append(evs, c.conv(t)...)
	}
	return evs
}

func (c *Conv) other(what string) []trace.Ev {
	c.Unknown = append(c.Unknown, what)
	return []trace.Ev{{"ev": "other", "what": what}}
}

func (c *Conv) conv(t lexer.Token) []trace.Ev {
	switch t.K {
	case lexer.Text:
		var evs []trace.Ev
		gr := uniseg.NewGraphemes(t.S)
		for gr.Next() {
			s := gr.Str()
			evs = append(evs, trace.Ev{"ev": "print", "g": c.G.ID(s), "w": c.TermWidth(s)})
		}
		return evs
	case lexer.C0:
		switch t.B {
		case 0:
			c.NULs++
			return nil
		case '\r':
			return []trace.Ev{{"ev": "cr"}}
		case 7:
			return []trace.Ev{{"ev": "nop", "what": "bel"}}
		}
		return c.other(fmt.Sprintf("c0:%d", t.B))
	case lexer.CSI:
		switch {
		case t.B == 'H' && t.Priv == "" && t.Inter == "":
			return []trace.Ev{{"ev": "cup", "r": t.P(0, 1), "c": t.P(1, 1)}}
		case t.B == 'm' && t.Priv == "" && t.Inter == "":
			ps := t.Params
			if ps == nil {
				ps = [][]int{}
			}
			return []trace.Ev{{"ev": "sgr", "ps": ps}}
		case (t.B == 'h' || t.B == 'l') && t.Priv == "?" && t.Inter == "":
			var evs []trace.Ev
			for i := range t.Params {
				m := t.P(i, 0)
				if m == 2027 && c.UCore {
					c.Mode2027 = t.B == 'h'
				}
				evs = append(evs, trace.Ev{"ev": "set", "m": m, "v": t.B == 'h'})
			}
			return evs
		case t.B == 'q' && t.Inter == " " && t.Priv == "":
			return []trace.Ev{{"ev": "curs", "n": t.P(0, 0)}}
		case t.B == 'J' && t.Priv == "" && t.P(0, 0) == 2:
			return []trace.Ev{{"ev": "ed2"}}
		case t.B == 'u' && t.Priv == ">" && t.Inter == "":
			return []trace.Ev{{"ev": "kpush", "n": t.P(0, 0)}}
		case t.B == 'u' && t.Priv == "<" && t.Inter == "":
			return []trace.Ev{{"ev": "kpop", "n": t.P(0, 1)}}
		}
		if q := csiQuery(t); q != nil {
			return []trace.Ev{q}
		}
		return c.other(fmt.Sprintf("csi:%s%s%s%c", t.Priv, t.Raw, t.Inter, t.B))
	case lexer.OSC:
		switch {
		case strings.HasPrefix(t.S, "8;"):
			parts := strings.SplitN(t.S, ";", 3)
			if len(parts) == 3 {
				if parts[2] == "" {
					return []trace.Ev{{"ev": "osc8", "ln": 0}}
				}
				return []trace.Ev{{"ev": "osc8", "ln": c.L.ID(parts[1] + ";" + parts[2])}}
			}
		case strings.HasPrefix(t.S, "66;"):
			parts := strings.SplitN(t.S, ";", 3)
			w := 0
			if len(parts) == 3 {
				fmt.Sscanf(parts[1], "w=%d", &w)
				return []trace.Ev{{"ev": "xprint", "g": c.G.ID(parts[2]), "w": w}}
			}
		case strings.HasPrefix(t.S, "22;"):
			return []trace.Ev{{"ev": "pointer", "s": asciiOnly(t.S[3:])}}
		case strings.HasPrefix(t.S, "176;") && t.S != "176;?":
			return []trace.Ev{{"ev": "appid", "id": c.L.ID("appid:" + t.S[4:])}}
		}
		num := strings.SplitN(t.S, ";", 2)[0]
		switch {
		case strings.HasSuffix(t.S, "?") && (num == "4" || num == "10" || num == "11" || num == "176" || num == "52"):
			return []trace.Ev{{"ev": "query", "q": "osc" + num, "n": 0}}
		case num == "52":
			return []trace.Ev{{"ev": "side", "what": "clipboard"}}
		case num == "9" || num == "777":
			return []trace.Ev{{"ev": "side", "what": "notify"}}
		case num == "0" || num == "2":
			return []trace.Ev{{"ev": "side", "what": "title"}}
		}
		return c.other("osc:" + num)
	case lexer.APC:
		if strings.HasPrefix(t.S, "G") {
			if strings.Contains(t.S, "a=q") {
				return []trace.Ev{{"ev": "query", "q": "kittygfx", "n": 0}}
			}
			return []trace.Ev{{"ev": "gfx", "proto": "kitty"}}
		}
		return c.other("apc")
	case lexer.ESC:
		if t.Inter == "" && (t.B == '=' || t.B == '>') {
			return []trace.Ev{{"ev": "keypad", "v": t.B == '='}}
		}
		return c.other(fmt.Sprintf("esc:%s%c", t.Inter, t.B))
	case lexer.DCS:
		switch {
		case strings.HasPrefix(t.S, "+q"):
			return []trace.Ev{{"ev": "query", "q": "xtgettcap", "n": 0}}
		case strings.HasPrefix(t.S, "$q"):
			return []trace.Ev{{"ev": "query", "q": "decrqss", "n": 0}}
		}
		body := strings.TrimLeft(t.S, "0123456789;")
		if strings.HasPrefix(body, "q") {
			return []trace.Ev{{"ev": "gfx", "proto": "sixel"}}
		}
		return c.other("dcs")
	}
	return c.other(string(t.K))
}
