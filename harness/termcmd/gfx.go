package termcmd

import (
	"bytes"
	"encoding/base64"
	"image"
	_ "image/png"
	"strconv"
	"strings"

	"verif/harness/lexer"
	"verif/harness/trace"
)

// Gfx extends a Conv with the graphics vocabulary of specs/gfx/GfxTerm.tla:
// kitty graphics protocol commands (APC G ...) become
//
//	{"ev":"kgfx","a":"t|p|d|q","i":id,"p":placement,"m":more,"d":"i|I|a|A|...","C":n,"wpx":w,"hpx":h}
//
// (wpx/hpx: pixel size of the transmitted PNG, decoded from its header once
// the last chunk has arrived; 0 when unknown) and a sixel image (DCS ... q)
// becomes {"ev":"sixel"}. Everything else is converted by Conv.
type Gfx struct {
	C    *Conv
	pend map[int][]byte // base64 payload of chunked transmissions, per image id
}

func NewGfx(c *Conv) *Gfx { return &Gfx{C: c, pend: map[int][]byte{}} }

func (g *Gfx) Feed(p []byte) []trace.Ev {
	var evs []trace.Ev
	for _, t := range g.C.lx.Feed(p) {
		switch {
		case t.K == lexer.APC && strings.HasPrefix(t.S, "G"):
			evs = append(evs, g.kitty(t.S[1:]))
		case t.K == lexer.DCS && isSixel(t.S):
			evs = append(evs, trace.Ev{"ev": "sixel"})
		default:
			evs = append(evs, g.C.conv(t)...)
		}
	}
	return evs
}

// isSixel: DCS P1;P2;P3 q ... (parameters are digits and ';').
func isSixel(s string) bool {
	for i := 0; i < len(s); i++ {
		switch c := s[i]; {
		case c == 'q':
			return true
		case (c >= '0' && c <= '9') || c == ';':
		default:
			return false
		}
	}
	return false
}

func (g *Gfx) kitty(s string) trace.Ev {
	ctl, payload := s, ""
	if k := strings.IndexByte(s, ';'); k >= 0 {
		ctl, payload = s[:k], s[k+1:]
	}
	ev := trace.Ev{"ev": "kgfx", "a": "t", "i": 0, "p": 0, "m": 0, "d": "a", "C": 0, "wpx": 0, "hpx": 0}
	for _, kv := range strings.Split(ctl, ",") {
		k, v, ok := strings.Cut(kv, "=")
		if !ok {
			continue
		}
		switch k {
		case "a", "d":
			ev[k] = v
		case "i", "p", "m", "C":
			n, err := strconv.Atoi(v)
			if err != nil {
				n = -1
			}
			ev[k] = n
		}
	}
	if ev["a"] == "t" || ev["a"] == "T" {
		id := ev["i"].(int)
		g.pend[id] = append(g.pend[id], payload...)
		if ev["m"].(int) == 0 {
			raw, err := base64.StdEncoding.DecodeString(string(g.pend[id]))
			delete(g.pend, id)
			if err == nil {
				if cfg, _, err := image.DecodeConfig(bytes.NewReader(raw)); err == nil {
					ev["wpx"], ev["hpx"] = cfg.Width, cfg.Height
				}
			}
		}
	}
	return ev
}
