// Package keycodec is the Go side of specs/keys/KeyCodec.tla: the structured
// form of a key report ("Enc"), its serialisation to bytes, the abstract key
// identities shared with the oracle (functional keys are numbered by their
// position in FKeyNames, which the trace spec compares with its own list),
// and the Unicode character facts the oracle needs (computed here with Go's
// unicode tables - trusted base).
//
// Nothing in this package depends on the library under test, so it can be
// reused for C13 (xterm encoding of keys by the embedded terminal).
package keycodec

import (
	"fmt"
	"strconv"
	"strings"
	"unicode"
)

// FKBase is the first abstract identity of a functional key; identities
// below it are Unicode code points.
const FKBase = 0x110000

// FKeyNames lists the functional keys that have no Unicode code point, in the
// oracle's order (kitty keyboard protocol names; the tail are terminfo-only
// keys that no encoding in scope produces and that occur only in bindings).
// MUST equal KeyCodec!FKeyNames; the trace spec rejects the run otherwise.
var FKeyNames = []string{
	"INSERT", "DELETE", "LEFT", "RIGHT", "UP", "DOWN", "PAGE_UP", "PAGE_DOWN", "HOME", "END",
	"F1", "F2", "F3", "F4", "F5", "F6", "F7", "F8", "F9", "F10", "F11", "F12",
	"KP_BEGIN",
	"CAPS_LOCK", "SCROLL_LOCK", "NUM_LOCK", "PRINT_SCREEN", "PAUSE", "MENU",
	"F13", "F14", "F15", "F16", "F17", "F18", "F19", "F20", "F21", "F22", "F23", "F24", "F25",
	"F26", "F27", "F28", "F29", "F30", "F31", "F32", "F33", "F34", "F35",
	"KP_0", "KP_1", "KP_2", "KP_3", "KP_4", "KP_5", "KP_6", "KP_7", "KP_8", "KP_9",
	"KP_DECIMAL", "KP_DIVIDE", "KP_MULTIPLY", "KP_SUBTRACT", "KP_ADD", "KP_ENTER", "KP_EQUAL",
	"KP_SEPARATOR", "KP_LEFT", "KP_RIGHT", "KP_UP", "KP_DOWN", "KP_PAGE_UP", "KP_PAGE_DOWN",
	"KP_HOME", "KP_END", "KP_INSERT", "KP_DELETE",
	"MEDIA_PLAY", "MEDIA_PAUSE", "MEDIA_PLAY_PAUSE", "MEDIA_REVERSE", "MEDIA_STOP",
	"MEDIA_FAST_FORWARD", "MEDIA_REWIND", "MEDIA_TRACK_NEXT", "MEDIA_TRACK_PREVIOUS",
	"MEDIA_RECORD", "LOWER_VOLUME", "RAISE_VOLUME", "MUTE_VOLUME",
	"LEFT_SHIFT", "LEFT_CONTROL", "LEFT_ALT", "LEFT_SUPER", "LEFT_HYPER", "LEFT_META",
	"RIGHT_SHIFT", "RIGHT_CONTROL", "RIGHT_ALT", "RIGHT_SUPER", "RIGHT_HYPER", "RIGHT_META",
	"ISO_LEVEL3_SHIFT", "ISO_LEVEL5_SHIFT",
	// terminfo-only keys (no encoding in scope)
	"F0", "F36", "F37", "F38", "F39", "F40", "F41", "F42", "F43", "F44", "F45", "F46", "F47", "F48", "F49",
	"F50", "F51", "F52", "F53", "F54", "F55", "F56", "F57", "F58", "F59", "F60", "F61", "F62", "F63",
	"CLEAR", "DOWN_LEFT", "DOWN_RIGHT", "UP_LEFT", "UP_RIGHT", "CENTER", "BEGIN", "CANCEL", "CLOSE",
	"COMMAND", "COPY", "EXIT", "PRINT", "REFRESH",
}

var fkIndex = func() map[string]int {
	m := map[string]int{}
	for i, n := range FKeyNames {
		if _, dup := m[n]; dup {
			panic("duplicate functional key name " + n)
		}
		m[n] = i + 1
	}
	return m
}()

// FK returns the abstract identity of the named functional key.
func FK(name string) int {
	i, ok := fkIndex[name]
	if !ok {
		panic("unknown functional key " + name)
	}
	return FKBase + i
}

// Modifier bits (kitty keyboard protocol numbering).
const (
	Shift = 1 << iota
	Alt
	Ctrl
	Super
	Hyper
	Meta
	Caps
	Num
)

// Enc is one key report in structured form. K selects the encoding:
//
//	"char"  Cps: one grapheme cluster sent as UTF-8 text (first >= 0x20)
//	"c0"    B: a C0 control byte
//	"esc"   ESC followed by byte B (0x30..0x7f, not a C1 introducer)
//	"escc0" ESC followed by C0 control byte B
//	"ss3"   ESC O B
//	"csi"   ESC [ Ps Fin ; Ps[i][j] = -1 encodes an omitted (sub)parameter
type Enc struct {
	K   string  `json:"k"`
	B   int     `json:"b"`
	Cps []int   `json:"cps"`
	Ps  [][]int `json:"ps"`
	Fin int     `json:"fin"`
}

func (e Enc) Norm() Enc {
	if e.Cps == nil {
		e.Cps = []int{}
	}
	if e.Ps == nil {
		e.Ps = [][]int{}
	}
	return e
}

// Bytes serialises the report exactly as a terminal would send it.
func (e Enc) Bytes() []byte {
	switch e.K {
	case "char":
		var sb strings.Builder
		for _, c := range e.Cps {
			sb.WriteRune(rune(c))
		}
		return []byte(sb.String())
	case "c0":
		return []byte{byte(e.B)}
	case "esc", "escc0":
		return []byte{0x1b, byte(e.B)}
	case "ss3":
		return []byte{0x1b, 'O', byte(e.B)}
	case "csi":
		var sb strings.Builder
		sb.WriteString("\x1b[")
		for i, p := range e.Ps {
			if i > 0 {
				sb.WriteByte(';')
			}
			for j, s := range p {
				if j > 0 {
					sb.WriteByte(':')
				}
				if s >= 0 {
					sb.WriteString(strconv.Itoa(s))
				}
			}
		}
		sb.WriteByte(byte(e.Fin))
		return []byte(sb.String())
	}
	panic("bad enc kind " + e.K)
}

func (e Enc) String() string { return fmt.Sprintf("%s %q", e.K, e.Bytes()) }

// CodePoints returns every code point the oracle may ask facts about.
func (e Enc) CodePoints() []int {
	var out []int
	switch e.K {
	case "char":
		out = append(out, e.Cps...)
	case "esc":
		out = append(out, e.B)
	case "csi":
		if e.Fin == 'u' {
			for i, p := range e.Ps {
				if i == 1 {
					continue
				}
				for _, s := range p {
					if s >= 0 {
						out = append(out, s)
					}
				}
			}
		}
	}
	return out
}

// Fact is what the oracle may assume about one code point (Go unicode tables).
type Fact struct {
	CP int  `json:"cp"`
	L  bool `json:"L"`  // unicode.IsLetter
	U  bool `json:"U"`  // unicode.IsUpper
	Lo bool `json:"Lo"` // unicode.IsLower
	G  bool `json:"G"`  // unicode.IsGraphic
	P  bool `json:"P"`  // unicode.IsPrint
	Up int  `json:"up"` // unicode.ToUpper
	Lw int  `json:"lo"` // unicode.ToLower
}

func FactOf(cp int) Fact {
	r := rune(cp)
	return Fact{CP: cp, L: unicode.IsLetter(r), U: unicode.IsUpper(r), Lo: unicode.IsLower(r),
		G: unicode.IsGraphic(r), P: unicode.IsPrint(r), Up: int(unicode.ToUpper(r)), Lw: int(unicode.ToLower(r))}
}

// Facts returns facts for the given code points and their case images
// (closed under one application of ToUpper/ToLower), deduplicated; values
// that are not code points are skipped (the oracle knows they have no class).
func Facts(cps ...int) []Fact {
	seen := map[int]bool{}
	out := []Fact{}
	var add func(c int, depth int)
	add = func(c int, depth int) {
		if c < 0 || c > unicode.MaxRune || seen[c] {
			return
		}
		seen[c] = true
		f := FactOf(c)
		out = append(out, f)
		if depth > 0 {
			add(f.Up, depth-1)
			add(f.Lw, depth-1)
		}
	}
	for _, c := range cps {
		add(c, 1)
	}
	return out
}
