// Package vxsess starts a real vxfw.App (and therefore a real Vaxis) on a
// fake console with a responder. It mirrors harness/sess for applications
// that own their Vaxis privately (vxfw.NewApp takes vaxis.Options, so the
// fake console goes in through Options.WithConsole; no hook is needed).
package vxsess

import (
	"git.sr.ht/~rockorager/vaxis"
	"git.sr.ht/~rockorager/vaxis/vxfw"

	"verif/harness/fakecon"
	"verif/harness/responder"
	"verif/harness/sess"
)

type S struct {
	Con  *fakecon.Console
	Resp *responder.Responder
	App  *vxfw.App
	// Startup is everything written during NewApp.
	Startup []byte
}

func Start(caps responder.Caps, cols, rows int) (*S, error) {
	sess.ScrubEnv()
	con := fakecon.New(cols, rows)
	resp := responder.New(caps, cols, rows, con.Inject)
	con.OnWrite = resp.OnWrite
	app, err := vxfw.NewApp(vaxis.Options{WithConsole: con, NoSignals: true})
	if err != nil {
		return nil, err
	}
	return &S{Con: con, Resp: resp, App: app, Startup: con.Take()}, nil
}
