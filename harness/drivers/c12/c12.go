// Package c12 runs a real Vaxis application whose terminal is the embedded
// terminal emulator (widgets/term, verif constructor): every byte the inner
// Vaxis writes is parsed by the library's parser and fed to the emulator,
// whose replies come back as the inner Vaxis's input. After every frame the
// emulator's grid and cursor are recorded, the emulator is drawn into a
// host Vaxis of the same size and the host's output is recorded too.
// specs/emu/RoundTrip_Trace.tla requires all three views (reference
// terminal fed the same bytes, emulator state, host screen) to equal what
// the application set.
package c12

import (
	"bytes"
	"fmt"
	"os"
	"sync"
	"time"

	"git.sr.ht/~rockorager/vaxis"
	"git.sr.ht/~rockorager/vaxis/widgets/term"

	"verif/harness/drivers/c01"
	"verif/harness/drivers/emu"
	"verif/harness/fakecon"
	"verif/harness/responder"
	"verif/harness/sess"
	"verif/harness/termcmd"
	"verif/harness/trace"
)

type Ctx struct {
	G, L *trace.Interner
}

func styleCell(cv *termcmd.Conv, l *trace.Interner, g string, w int, st vaxis.Style) []int {
	ln := 0
	if st.Hyperlink != "" {
		ln = l.ID(st.HyperlinkParams + ";" + st.Hyperlink)
	}
	return []int{cv.G.ID(g), w, c01.ColInt(st.Foreground), c01.ColInt(st.Background), c01.ColInt(st.UnderlineColor),
		int(st.UnderlineStyle), c01.AttrInt(st.Attribute), ln}
}

// emuGrid converts the emulator's active screen the way its Draw walks it:
// a head cell of width w is followed by w-1 continuation cells; an empty
// grapheme shows as a space. Each cell: [kind(0 glyph,1 cont), g, w, fg, bg, ul, us, at, ln].
func emuGrid(cv *termcmd.Conv, l *trace.Interner, st term.VerifState) [][][]int {
	out := make([][][]int, len(st.Active))
	for r, line := range st.Active {
		row := make([][]int, 0, len(line))
		for c := 0; c < len(line); {
			cell := line[c]
			g, w := cell.Grapheme, cell.Width
			if g == "" {
				g = " "
			}
			if w < 1 {
				w = 1
			}
			row = append(row, append([]int{0}, styleCell(cv, l, g, w, cell.Style)...))
			for k := 1; k < w && c+k < len(line); k++ {
				row = append(row, []int{1, 0, 0, 0, 0, 0, 0, 0, 0})
			}
			c += w
		}
		out[r] = row
	}
	return out
}

func wrapHost(evs []trace.Ev) []trace.Ev {
	out := make([]trace.Ev, 0, len(evs))
	for _, e := range evs {
		out = append(out, trace.Ev{"ev": "host", "c": e})
	}
	return out
}

// ImgD: one picture of a "sixel" scenario.
type ImgD struct {
	W, H   int // size of the source picture in pixels
	NCol   int // number of distinct colours in it
	C, R   int // the cell it is drawn at
	BW, BH int // the box (in cells) it is resized into
}

// Scn is a c01 scenario (replay files of either kind load) plus what only C12 has.
// Kind "sixel": the application draws Imgs in one frame; its tty reports cells of CW x CH pixels.
type Scn struct {
	c01.Scn
	CW, CH int    `json:",omitempty"`
	Imgs   []ImgD `json:",omitempty"`
}

// Run executes a scenario (its capability mask is ignored: the
// capabilities are whatever the emulator advertises).
func Run(ctx *Ctx, sc *Scn) (evs []trace.Ev, note string) {
	if sc.Kind == "sixel" {
		return runSixel(ctx, sc)
	}
	defer func() {
		if r := recover(); r != nil {
			note = fmt.Sprintf("panic: %v", r)
			evs = append(evs, trace.Ev{"ev": "panic", "msg": "panic"})
		}
	}()
	sess.ScrubEnv()
	cols, rows := sc.Cols, sc.Rows
	// host: a capable terminal, so that nothing is lost a second time
	hostCaps := responder.FromMask(1<<1|1<<8|1<<9, false)
	host, err := sess.Start(sess.Config{Caps: hostCaps, Cols: cols, Rows: rows})
	if err != nil {
		return nil, "host start: " + err.Error()
	}
	// two plain hosts (no Unicode core, no explicit width: a cluster is measured per code point there), one the
	// emulator is drawn into, one the cells of the emulator's snapshot are set in with their own widths: "drawing
	// the emulator into a host window yields those same cells" whatever the host's way of measuring text is, so
	// both Vaxis write the same bytes (what a plain terminal displays of them is not judged)
	plainCaps := responder.FromMask(1<<8|1<<9, false)
	plainA, err := sess.Start(sess.Config{Caps: plainCaps, Cols: cols, Rows: rows})
	if err != nil {
		return nil, "host start: " + err.Error()
	}
	plainB, err := sess.Start(sess.Config{Caps: plainCaps, Cols: cols, Rows: rows})
	if err != nil {
		return nil, "host start: " + err.Error()
	}
	plainA.Con.Take()
	plainB.Con.Take()
	// emulator with a pipe for its replies
	pr, pw, err := os.Pipe()
	if err != nil {
		return nil, err.Error()
	}
	vt := term.NewVerif(pw, cols, rows)
	vt.Focus()
	inner := fakecon.New(cols, rows)
	go func() {
		buf := make([]byte, 4096)
		for {
			n, err := pr.Read(buf)
			if n > 0 {
				inner.Inject(append([]byte(nil), buf[:n]...))
			}
			if err != nil {
				return
			}
		}
	}()
	var omu sync.Mutex
	var out []byte
	var ends []int // offsets in out at which a read of the emulator's parser ended
	var feedPanic string
	inner.OnWrite = func(p []byte) {
		seqs, e := parseRec(p)
		omu.Lock()
		for _, x := range e {
			ends = append(ends, len(out)+x)
		}
		out = append(out, p...)
		omu.Unlock()
		if msg := emu.Feed(vt, seqs, nil); msg != "" && feedPanic == "" {
			feedPanic = msg
		}
	}
	take := func() ([]byte, []int) {
		omu.Lock()
		defer omu.Unlock()
		o, e := out, ends
		out, ends = nil, nil
		return o, e
	}
	vx, err := vaxis.New(vaxis.Options{WithConsole: inner, NoSignals: true})
	if err != nil {
		return nil, "inner start: " + err.Error()
	}
	cv := termcmd.NewConv(ctx.G, ctx.L, true, false) // the emulator clusters and measures per Unicode (mode 2027 permanently set)
	cv.Mode2027 = true
	hcv := termcmd.NewConv(ctx.G, ctx.L, true, false) // the emulator clusters and measures per Unicode (mode 2027 permanently set)
	cv.Mode2027 = true
	evs = append(evs, trace.Ev{"ev": "reset", "rows": rows, "cols": cols, "xw": false, "adv": []string{"sixel", "unicodeCore"}})
	startup, _ := take()
	evs = append(evs, termPrints(cv.Feed(startup))...)
	evs = append(evs, trace.Ev{"ev": "ready", "can": map[string]bool{
		"rgb": vx.CanRGB(), "kittyGraphics": vx.CanKittyGraphics(), "sixel": vx.CanSixel(), "color": vx.CanReportColor(),
		"fg": vx.CanReportForegroundColor(), "bg": vx.CanReportBackgroundColor(), "graphics": vx.CanDisplayGraphics(),
		"appid": vx.CanSetAppID(), "unicodeCore": vx.CanUnicodeCore(), "explicitWidth": vx.CanExplicitWidth()}})
	evs = append(evs, wrapHost(termPrints(hcv.Feed(host.Startup)))...)
	rgbcap := vx.CanRGB()
	want := c01.NewRec(cols, rows, termWidther{cv}) // see width.go
	type curReq struct {
		vis             bool
		row, col, shape int
	}
	cur := curReq{}
	for _, f := range sc.Frames {
		if f.End == "resize" {
			continue // resizing the emulator under a running application is not part of C12
		}
		win := vx.Window()
		pc, pr := 0, 0 // where the application's own layout of a row stands ("at", "put")
		for _, op := range f.Ops {
			switch op.K {
			case "at", "put", "text":
				layOp(vx, win, want, op, &pc, &pr)
				continue
			case "set":
				win.SetCell(op.C, op.R, op.Cell.V())
			case "style":
				win.SetStyle(op.C, op.R, op.Style.V())
			case "fill":
				win.Fill(op.Cell.V())
			case "clear":
				win.Clear()
			case "print":
				win.Print(vaxis.Segment{Text: op.Text, Style: op.Style.V()})
			case "show":
				vx.ShowCursor(op.C, op.R, vaxis.CursorStyle(op.Shape))
				cur = curReq{true, op.R, op.C, op.Shape}
			case "hide":
				vx.HideCursor()
				cur.vis = false
			}
			want.Apply(op)
		}
		if f.End == "refresh" {
			vx.Refresh()
		} else {
			vx.Render()
		}
		fb, fe := take()
		fevs := termPrints(cv.Feed(fb))
		// a fact about the transport: the clusters of this frame that straddle the end of a read
		// of the emulator's parser (the parser cannot wait for the rest of a cluster)
		if cut, n := cutPrints(fb, fe); len(cut) > 0 {
			k := 0
			for _, e := range fevs {
				if e["ev"] == "print" {
					if cut[k] {
						e["cut"] = true
					}
					k++
				}
			}
			if k != n {
				note += fmt.Sprintf(" cut bookkeeping: %d prints, %d clusters", k, n)
			}
		}
		evs = append(evs, fevs...)
		app := termApp(want.App(cv, ctx.L))
		cr := []int{0, 0, 0, 0}
		if cur.vis {
			cr = []int{1, cur.row + 1, cur.col + 1, cur.shape}
		}
		evs = append(evs, trace.Ev{"ev": "frame", "app": app, "cur": cr, "rgb": rgbcap, "su": false})
		if feedPanic != "" {
			evs = append(evs, trace.Ev{"ev": "panic", "msg": "emulator panicked"})
			note = "emulator panic: " + feedPanic
			break
		}
		// the emulator's own state
		st := vt.VerifSnapshot()
		ecur := []int{0, 0, 0, 0}
		if st.DECTCEM {
			ecur = []int{1, st.Cursor.Row + 1, st.Cursor.Col + 1, st.CursorStyle}
		}
		evs = append(evs, trace.Ev{"ev": "emu", "grid": emuGrid(cv, ctx.L, st), "ecur": ecur,
			"app": app, "cur": cr, "rgb": rgbcap, "su": false})
		// drawn into a host of the same size
		hwin := host.Vx.Window()
		host.Vx.HideCursor()
		vt.Draw(hwin)
		host.Vx.Render()
		evs = append(evs, wrapHost(termPrints(hcv.Feed(host.Con.Take())))...)
		evs = append(evs, trace.Ev{"ev": "hframe", "app": app, "cur": cr, "rgb": rgbcap, "su": false})
		wa := plainA.Vx.Window()
		plainA.Vx.HideCursor()
		vt.Draw(wa)
		plainA.Vx.Render()
		wb := plainB.Vx.Window()
		plainB.Vx.HideCursor()
		for r, line := range st.Active {
			for c := 0; c < len(line); {
				cl := line[c]
				g, w := cl.Grapheme, cl.Width
				if g == "" {
					g = " "
				}
				if c+w > len(line) { // a wide character in the last column (the emulator wraps it: not reached)
					g, w = " ", 1
				}
				wb.SetCell(c, r, vaxis.Cell{Character: vaxis.Character{Grapheme: g, Width: w}, Style: cl.Style})
				if w == 0 {
					w = 1
				}
				c += w
			}
		}
		if st.DECTCEM {
			wb.ShowCursor(st.Cursor.Col, st.Cursor.Row, vaxis.CursorStyle(st.CursorStyle))
		}
		plainB.Vx.Render()
		ba, bb := plainA.Con.Take(), plainB.Con.Take()
		at := -1
		if !bytes.Equal(ba, bb) {
			for at = 0; at < len(ba) && at < len(bb) && ba[at] == bb[at]; at++ {
			}
		}
		evs = append(evs, trace.Ev{"ev": "hplain", "same": at < 0, "at": at})
	}
	done := make(chan struct{})
	go func() { vx.Close(); close(done) }()
	select {
	case <-done:
	case <-time.After(3 * time.Second):
		note += " inner Close did not return"
	}
	host.Vx.Close()
	plainA.Vx.Close()
	plainB.Vx.Close()
	pw.Close()
	pr.Close()
	return evs, note
}
