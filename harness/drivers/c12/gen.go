package c12

import (
	"math/rand"

	"git.sr.ht/~rockorager/vaxis"
	"github.com/rivo/uniseg"

	"verif/harness/drivers/c01"
)

// ---- neighbours: adjacent cells whose texts would be one cluster ---------

// Pairs (a, b): each a legal cell content on its own (one grapheme cluster of
// width >= 1) while a+b has no cluster boundary in between (UAX #29 rules in
// the comments). Validated with uniseg when used.
var joinPairs = [][2]string{
	{"\U0001F1FA", "\U0001F1F8"},       // GB12/13 regional indicator x regional indicator
	{"\U0001F1EF", "\U0001F1F5"},       //
	{"\u1100", "\u1100"},               // GB6 L x L
	{"\u1100", "\uAC00"},               // GB6 L x LV
	{"\u1100", "\uAC01"},               // GB6 L x LVT
	{"a", "\U0001F3FD"},                // GB9 x Extend (an emoji modifier, two cells wide)
	{"\U0001F44D", "\U0001F3FD"},       // GB9 thumbs up, then the modifier in its own cell
	{"\u0600", "a"},                    // GB9b Prepend x
	{"\u0600", "\u4E16"},               //
	{"\U0001F469\u200D", "\U0001F680"}, // GB11 ExtPict ZWJ x ExtPict
	{"\U0001F469\u200D", "\U0001F469"}, //
	{"a", "\u0903"},                    // GB9a x SpacingMark
	{"\u0915", "\u093E"},               // GB9a Devanagari letter x vowel sign
}

var plainPool = []string{"a", "b", "|", "\u4E16", "e\u0301", "\U0001F600", "x"}

func oneCluster(s string) bool {
	c, rest, _, _ := uniseg.FirstGraphemeClusterInString(s, -1)
	return c != "" && rest == ""
}

// Joinable returns the pairs of joinPairs that are what their comments say.
func Joinable() [][2]string {
	var out [][2]string
	for _, p := range joinPairs {
		if oneCluster(p[0]) && oneCluster(p[1]) && oneCluster(p[0]+p[1]) &&
			uniseg.StringWidth(p[0]) >= 1 && uniseg.StringWidth(p[1]) >= 1 {
			out = append(out, p)
		}
	}
	return out
}

var nbStyles = []c01.StyleD{{}, {At: 1 << 1}, {Fg: uint32(vaxis.IndexColor(1))}} // plain, bold, an indexed foreground

// wd: the columns the terminal gives a cell's text (one or two, see width.go).
func wd(g string) int {
	w := termW(uniseg.StringWidth(g))
	if w < 1 {
		w = 1
	}
	return w
}

// row writes items left to right from column c; returns the ops.
func rowOps(r, c, cols int, items []string, styles []c01.StyleD) []c01.Op {
	var ops []c01.Op
	for i, g := range items {
		w := wd(g)
		if c+w > cols {
			break
		}
		cell := c01.CellD{G: g, S: styles[i]}
		ops = append(ops, c01.Op{K: "set", C: c, R: r, Cell: &cell})
		c += w
	}
	return ops
}

func nbScn(cols, rows int) *Scn {
	sc := &Scn{}
	sc.Kind, sc.Mask, sc.Cols, sc.Rows = "neighbours", 1<<1|1<<6, cols, rows
	return sc
}

// GenNeighbours: the fixed cases (every pair alone at the left edge, in one
// frame and over two frames) and n random histories of runs of cells drawn
// from the pairs and from ordinary content, mostly in one style.
func GenNeighbours(rng *rand.Rand, n int) []*Scn {
	pairs := Joinable()
	var out []*Scn
	for _, p := range pairs {
		// one frame: a b |
		sc := nbScn(12, 2)
		st := []c01.StyleD{{}, {}, {}}
		sc.Frames = []c01.Frame{{End: "render", Ops: rowOps(0, 0, 12, []string{p[0], p[1], "|"}, st)}}
		out = append(out, sc)
		// two frames: a, then b beside it, then a again
		sc = nbScn(12, 2)
		wa := wd(p[0])
		sc.Frames = []c01.Frame{
			{End: "render", Ops: rowOps(1, 2, 12, []string{p[0]}, st)},
			{End: "render", Ops: rowOps(1, 2+wa, 12, []string{p[1], "|"}, st)},
			{End: "render", Ops: rowOps(1, 2, 12, []string{"x"}, st)},
			{End: "refresh"},
		}
		out = append(out, sc)
	}
	for i := 0; i < n; i++ {
		sc := nbScn(6+rng.Intn(10), 1+rng.Intn(3))
		nf := 1 + rng.Intn(3)
		for f := 0; f < nf; f++ {
			fr := c01.Frame{End: "render"}
			if rng.Intn(6) == 0 {
				fr.End = "refresh"
			}
			if rng.Intn(2) == 0 {
				fr.Ops = append(fr.Ops, c01.Op{K: "clear"})
			}
			for r := 0; r < sc.Rows; r++ {
				if rng.Intn(4) == 0 {
					continue
				}
				var items []string
				for k := 1 + rng.Intn(4); k > 0; k-- {
					if rng.Intn(10) < 6 {
						p := pairs[rng.Intn(len(pairs))]
						items = append(items, p[0], p[1])
					} else {
						items = append(items, plainPool[rng.Intn(len(plainPool))])
					}
				}
				styles := make([]c01.StyleD, len(items))
				cur := nbStyles[rng.Intn(len(nbStyles))]
				for j := range styles {
					if rng.Intn(5) == 0 {
						cur = nbStyles[rng.Intn(len(nbStyles))]
					}
					styles[j] = cur
				}
				fr.Ops = append(fr.Ops, rowOps(r, rng.Intn(3), sc.Cols, items, styles)...)
			}
			if rng.Intn(3) == 0 {
				fr.Ops = append(fr.Ops, c01.Op{K: "show", C: rng.Intn(sc.Cols), R: rng.Intn(sc.Rows), Shape: rng.Intn(7)})
			}
			sc.Frames = append(sc.Frames, fr)
		}
		out = append(out, sc)
	}
	return out
}

// ---- bigframe: frames larger than one read of the emulator's parser ------

// bigScn fills a cols x rows screen row by row with what cell(r, i) returns
// for the i-th cell of row r (rows above the last one), the last row with
// plain letters, and adds a small second frame.
func bigScn(cols, rows int, cell func(r, i int) c01.CellD) *Scn {
	sc := &Scn{}
	sc.Kind, sc.Mask, sc.Cols, sc.Rows = "bigframe", 1<<1|1<<6, cols, rows
	fr := c01.Frame{End: "render"}
	for r := 0; r < rows; r++ {
		c := 0
		for i := 0; c < cols; i++ {
			cl := c01.CellD{G: string(rune('a' + (r+i)%26))}
			if r < rows-1 {
				cl = cell(r, i)
			}
			w := wd(cl.G)
			if c+w > cols {
				cl = c01.CellD{G: "#", S: cl.S}
				w = 1
			}
			cc := cl
			fr.Ops = append(fr.Ops, c01.Op{K: "set", C: c, R: r, Cell: &cc})
			c += w
		}
	}
	x := c01.CellD{G: "Z"}
	sc.Frames = []c01.Frame{fr, {End: "render", Ops: []c01.Op{{K: "set", C: 0, R: rows - 1, Cell: &x},
		{K: "show", C: 1, R: rows - 1, Shape: 2}}}}
	return sc
}

// GenBig: screens whose first frame is several reads long.
func GenBig(rng *rand.Rand, full bool) []*Scn {
	var out []*Scn
	// a combining sequence (13 bytes) in every cell; a leading plain letter shifts the clusters against the reads
	for k := 0; k < 2; k++ {
		k := k
		out = append(out, bigScn(20, 18, func(r, i int) c01.CellD {
			if r == 0 && i < k {
				return c01.CellD{G: "x"}
			}
			return c01.CellD{G: "e\u0301\u0302\u0323\u0308\u0304\u0331"}
		}))
	}
	// a ZWJ sequence (18 bytes, two cells) in every pair of cells
	out = append(out, bigScn(40, 13, func(r, i int) c01.CellD {
		return c01.CellD{G: "\U0001F469\u200D\U0001F469\u200D\U0001F467"}
	}))
	// no multi-code-point cluster at all: nothing can be cut, whatever the styles in between
	out = append(out, bigScn(24, 11, func(r, i int) c01.CellD {
		g := []string{"a", "\u4E16", "b", "\u00E9", "\U0001F600"}[(r+i)%5]
		return c01.CellD{G: g, S: c01.StyleD{Fg: uint32(vaxis.IndexColor(uint8((r*40 + i) % 256))), At: uint8((r+i)%4) << 1,
			Us: uint8(i % 3), Link: []string{"", "", "http://a"}[i%3]}}
	}))
	if full {
		// one combining mark per cell on a large screen, flags
		for k := 0; k < 3; k++ {
			k := k
			out = append(out, bigScn(80, 40, func(r, i int) c01.CellD {
				if r == 0 && i < k {
					return c01.CellD{G: "x"}
				}
				return c01.CellD{G: "e\u0301"}
			}))
		}
		out = append(out, bigScn(40, 28, func(r, i int) c01.CellD { return c01.CellD{G: "\U0001F1EF\U0001F1F5"} }))
	}
	// ordinary mixed content
	nmix := 2
	if full {
		nmix = 40
	}
	pool := []string{"a", "b", "\u4E16", "e\u0301", "\U0001F469\u200D\U0001F680", "\u263A\uFE0F", "\U0001F1EF\U0001F1F5", " ", "x", "\U0001F600", "\uAC01"}
	for m := 0; m < nmix; m++ {
		cols, rows := 30+rng.Intn(8), 13+rng.Intn(3)
		if full {
			cols, rows = 30+rng.Intn(50), 14+rng.Intn(26)
		}
		r2 := rand.New(rand.NewSource(rng.Int63()))
		cur := c01.RandStyle(r2)
		out = append(out, bigScn(cols, rows, func(r, i int) c01.CellD {
			if r2.Intn(3) == 0 {
				cur = c01.RandStyle(r2)
			}
			return c01.CellD{G: pool[r2.Intn(len(pool))], S: cur}
		}))
	}
	return out
}

// ---- sixel ----------------------------------------------------------------

// GenSixel: pictures of few and of many colours, one or two per frame.
func GenSixel(rng *rand.Rand, full bool) []*Scn {
	var out []*Scn
	mk := func(cw, ch int, imgs ...ImgD) {
		sc := &Scn{CW: cw, CH: ch, Imgs: imgs}
		sc.Kind, sc.Mask, sc.Cols, sc.Rows = "sixel", 1<<1|1<<6, 20, 8
		out = append(out, sc)
	}
	mk(10, 20, ImgD{W: 20, H: 20, NCol: 2, C: 3, R: 1, BW: 4, BH: 2})
	mk(10, 20, ImgD{W: 30, H: 40, NCol: 1, C: 0, R: 0, BW: 3, BH: 2})
	mk(8, 16, ImgD{W: 16, H: 16, NCol: 7, C: 1, R: 2, BW: 4, BH: 3}, ImgD{W: 24, H: 16, NCol: 3, C: 10, R: 4, BW: 5, BH: 2})
	mk(10, 20, ImgD{W: 40, H: 40, NCol: 300, C: 5, R: 3, BW: 6, BH: 3})
	if full {
		for i := 0; i < 20; i++ {
			cw, ch := 6+rng.Intn(8), 10+rng.Intn(14)
			bw, bh := 1+rng.Intn(6), 1+rng.Intn(3)
			mk(cw, ch, ImgD{W: 1 + rng.Intn(60), H: 1 + rng.Intn(60), NCol: 1 + rng.Intn(400), C: rng.Intn(20 - bw), R: rng.Intn(8 - bh), BW: bw, BH: bh})
		}
	}
	return out
}
