package c12

import (
	"math/rand"

	"git.sr.ht/~rockorager/vaxis"
	"github.com/rivo/uniseg"

	"verif/harness/drivers/c01"
)

// ---- wideglyph: characters a width table gives more than two columns ------
//
// The application's own layout of a row. Three operations only this driver has:
//
//	at   C R            the layout stands at column C of row R
//	put  Cell Text=how  one cell at the place the layout stands at; the layout then moves on by the width the
//	                    application has for the cell, which it learns from the library the way `how` says:
//	                    "auto"   the cell's width is left to the library, the advance is vx.RenderedWidth
//	                    "asked"  the cell carries vx.RenderedWidth as its width
//	                    "chars"  the cell is vaxis.Characters(text)[0]
//	                    "styled" the cell is vx.NewStyledString(text).Cells[0]
//	                    (under the capabilities of the emulator - Unicode core - every one of them is a
//	                    documented way to a cell's width)
//	text C R Text Style Window.Print of Text into a one-row window from column C of row R to the right edge;
//	                    the text fits (by any measure); the application's record has its clusters one beside
//	                    the other
//
// Cells a put would place past the right edge (by the application's or by the terminal's width) are left out.

func layOp(vx *vaxis.Vaxis, win vaxis.Window, want *c01.Rec, op c01.Op, pc, pr *int) {
	switch op.K {
	case "at":
		*pc, *pr = op.C, op.R
	case "put":
		cell := *op.Cell
		adv := 0
		switch op.Text {
		case "asked":
			cell.W = vx.RenderedWidth(cell.G)
			adv = cell.W
		case "chars":
			ch := vaxis.Characters(cell.G)
			if len(ch) != 1 {
				return
			}
			cell.W = ch[0].Width
			adv = cell.W
		case "styled":
			ss := vx.NewStyledString(cell.G, cell.S.V())
			if len(ss.Cells) != 1 {
				return
			}
			cell.W = ss.Cells[0].Width
			adv = cell.W
		default: // auto
			cell.W = 0
			adv = vx.RenderedWidth(cell.G)
		}
		if adv < 1 {
			adv = 1
		}
		tw := want.Width(cell)
		if *pc < 0 || *pr < 0 || *pr >= want.Rows || *pc+adv > want.Cols || *pc+tw > want.Cols {
			return
		}
		win.SetCell(*pc, *pr, cell.V())
		want.Set(*pc, *pr, cell)
		*pc += adv
	case "text":
		if op.R < 0 || op.R >= want.Rows || op.C < 0 || op.C >= want.Cols {
			return
		}
		win.New(op.C, op.R, -1, 1).Print(vaxis.Segment{Text: op.Text, Style: op.Style.V()})
		c := op.C
		gr := uniseg.NewGraphemes(op.Text)
		for gr.Next() {
			cell := c01.CellD{G: gr.Str(), S: *op.Style}
			w := want.Width(cell)
			if c+w > want.Cols {
				break
			}
			want.Set(c, op.R, cell)
			c += w
		}
	}
}

// Characters a width table made for typesetting gives more than two columns (validated with uniseg when used).
var longGlyphs = []string{"⸺", "⸻"}

func LongGlyphs() []string {
	var out []string
	for _, g := range longGlyphs {
		if oneCluster(g) && uniseg.StringWidth(g) > 2 {
			out = append(out, g)
		}
	}
	return out
}

func wgScn(cols, rows int) *Scn {
	sc := &Scn{}
	sc.Kind, sc.Mask, sc.Cols, sc.Rows = "wideglyph", 1<<1|1<<6, cols, rows
	return sc
}

func putOps(r, c int, how string, items []string, st c01.StyleD) []c01.Op {
	ops := []c01.Op{{K: "at", C: c, R: r}}
	for _, g := range items {
		cell := c01.CellD{G: g, S: st}
		ops = append(ops, c01.Op{K: "put", Text: how, Cell: &cell})
	}
	return ops
}

// uw: the columns a text takes by the most generous measure (for keeping a printed text on its row).
func uw(items []string) int {
	n := 0
	for _, g := range items {
		w := uniseg.StringWidth(g)
		if w < 1 {
			w = 1
		}
		n += w
	}
	return n
}

func join(items []string) string {
	s := ""
	for _, g := range items {
		s += g
	}
	return s
}

var putHows = []string{"auto", "asked", "chars", "styled"}

// GenWide: the fixed cases (every such character followed by other cells: at the columns a terminal puts them in
// with the width left to the library and given as 2; laid out by the application from the widths the library
// reports, in every way it reports one; printed as text; overwritten in a later frame) and n random histories.
func GenWide(rng *rand.Rand, n int) []*Scn {
	glyphs := LongGlyphs()
	var out []*Scn
	plain := c01.StyleD{}
	st3 := []c01.StyleD{{}, {}, {}, {}, {}}
	for _, g := range glyphs {
		// cells at the columns the terminal's widths give, width left to the library
		sc := wgScn(12, 2)
		sc.Frames = []c01.Frame{{End: "render", Ops: rowOps(0, 0, 12, []string{g, "x", "y", "z"}, st3)}}
		out = append(out, sc)
		// the same with the width given (control: holds on any tree)
		sc = wgScn(12, 2)
		ops := rowOps(0, 0, 12, []string{g, "x", "y", "z"}, st3)
		ops[0].Cell.W = 2
		sc.Frames = []c01.Frame{{End: "render", Ops: ops}}
		out = append(out, sc)
		// the application lays the row out itself
		for _, how := range putHows {
			sc = wgScn(12, 2)
			sc.Frames = []c01.Frame{{End: "render", Ops: putOps(0, 0, how, []string{g, "x", "y", "z"}, plain)}}
			out = append(out, sc)
			sc = wgScn(14, 3)
			sc.Frames = []c01.Frame{
				{End: "render", Ops: putOps(1, 3, how, []string{"a", g, "世", g, "|"}, c01.StyleD{At: 1 << 1})},
				{End: "render", Ops: putOps(1, 3, how, []string{"b"}, plain)},
				{End: "refresh"},
			}
			out = append(out, sc)
		}
		// printed
		sc = wgScn(12, 2)
		sc.Frames = []c01.Frame{{End: "render", Ops: []c01.Op{{K: "text", C: 0, R: 1, Text: g + "xyz", Style: &c01.StyleD{}}}}}
		out = append(out, sc)
		// over several frames: the character, then a cell beside it, then a narrow cell over its first column
		sc = wgScn(12, 2)
		sc.Frames = []c01.Frame{
			{End: "render", Ops: rowOps(1, 2, 12, []string{g}, st3)},
			{End: "render", Ops: rowOps(1, 4, 12, []string{"|"}, st3)},
			{End: "render", Ops: rowOps(1, 2, 12, []string{"x", "y"}, st3)},
			{End: "refresh"},
		}
		out = append(out, sc)
	}
	pool := append([]string{"a", "x", "世", "é", "\U0001F600", "|"}, glyphs...)
	for i := 0; i < n && len(glyphs) > 0; i++ {
		sc := wgScn(8+rng.Intn(10), 1+rng.Intn(3))
		nf := 1 + rng.Intn(3)
		for f := 0; f < nf; f++ {
			fr := c01.Frame{End: "render"}
			if rng.Intn(6) == 0 {
				fr.End = "refresh"
			}
			if f == 0 || rng.Intn(2) == 0 {
				fr.Ops = append(fr.Ops, c01.Op{K: "clear"})
			}
			for r := 0; r < sc.Rows; r++ {
				if rng.Intn(4) == 0 {
					continue
				}
				items := []string{}
				for k := 1 + rng.Intn(4); k > 0; k-- {
					if rng.Intn(2) == 0 {
						items = append(items, glyphs[rng.Intn(len(glyphs))])
					} else {
						items = append(items, pool[rng.Intn(len(pool))])
					}
				}
				st := nbStyles[rng.Intn(len(nbStyles))]
				c := rng.Intn(3)
				switch x := rng.Intn(8); {
				case x < 2: // at the terminal's columns, width left to the library or given
					styles := make([]c01.StyleD, len(items))
					for j := range styles {
						styles[j] = st
					}
					ops := rowOps(r, c, sc.Cols, items, styles)
					for _, op := range ops {
						if rng.Intn(2) == 0 {
							op.Cell.W = wd(op.Cell.G)
						}
					}
					fr.Ops = append(fr.Ops, ops...)
				case x < 3:
					for c+uw(items) > sc.Cols {
						items = items[:len(items)-1]
					}
					if len(items) > 0 {
						st := st
						fr.Ops = append(fr.Ops, c01.Op{K: "text", C: c, R: r, Text: join(items), Style: &st})
					}
				default:
					fr.Ops = append(fr.Ops, putOps(r, c, putHows[rng.Intn(len(putHows))], items, st)...)
				}
			}
			if rng.Intn(3) == 0 {
				fr.Ops = append(fr.Ops, c01.Op{K: "show", C: rng.Intn(sc.Cols), R: rng.Intn(sc.Rows), Shape: rng.Intn(7)})
			}
			sc.Frames = append(sc.Frames, fr)
		}
		out = append(out, sc)
	}
	return out
}
