package c12

import (
	"bytes"
	"unicode/utf8"

	"git.sr.ht/~rockorager/vaxis/ansi"
	"github.com/rivo/uniseg"

	"verif/harness/lexer"
)

// recReader hands the bytes of one write to the library's parser and records
// where every read ended (offsets into the write).
type recReader struct {
	r    *bytes.Reader
	off  int
	ends []int
}

func (x *recReader) Read(p []byte) (int, error) {
	n, err := x.r.Read(p)
	if n > 0 {
		x.off += n
		x.ends = append(x.ends, x.off)
	}
	return n, err
}

// parseRec is emu.Parse (one parser per write, a parse in which the parser's
// ESC timer fired is repeated) that also reports the read boundaries.
func parseRec(b []byte) ([]ansi.Sequence, []int) {
	var out []ansi.Sequence
	var ends []int
	for try := 0; try < 8; try++ {
		out = out[:0]
		rr := &recReader{r: bytes.NewReader(b)}
		p := ansi.NewParser(rr)
		glitch := false
		for seq := range p.Next() {
			switch seq := seq.(type) {
			case ansi.EOF:
				continue
			case ansi.C0:
				if rune(seq) == 0x1B {
					glitch = true
				}
			}
			out = append(out, seq)
		}
		ends = rr.ends
		if !glitch {
			break
		}
	}
	return out, ends
}

// cutPrints walks the bytes of one frame the way a terminal's lexer does and
// returns the ordinals (among the frame's plainly printed grapheme clusters,
// in output order) of the clusters that have a read boundary strictly inside
// them - between two of their code points or inside one (a parser that does
// not wait for the rest of a cluster may not wait for the rest of a code point
// in the middle of one either; the library's has not since e714b12) -; n is the
// number of clusters.
func cutPrints(frame []byte, ends []int) (cut map[int]bool, n int) {
	if len(ends) == 0 {
		return nil, 0
	}
	isEnd := make(map[int]bool, len(ends))
	for _, e := range ends {
		if e > 0 && e < len(frame) {
			isEnd[e] = true
		}
	}
	cut = map[int]bool{}
	var lx lexer.Lexer
	run, runStart := "", -1
	flush := func() {
		if run == "" {
			return
		}
		off := runStart
		gr := uniseg.NewGraphemes(run)
		for gr.Next() {
			l := len(gr.Str())
			// (a code point is delivered whole: a cluster of one cannot be cut)
			for e := off + 1; e < off+l && utf8.RuneCountInString(gr.Str()) > 1; e++ {
				if isEnd[e] {
					cut[n] = true
				}
			}
			off += l
			n++
		}
		run, runStart = "", -1
	}
	for i := range frame {
		for _, t := range lx.Feed(frame[i : i+1]) {
			if t.K == lexer.Text {
				if run == "" {
					runStart = i + 1 - len(t.S)
				}
				run += t.S
			} else {
				flush()
			}
		}
	}
	flush()
	return cut, n
}
