package c12

import (
	"fmt"
	"image"
	"image/color"
	"os"
	"reflect"
	"sync"
	"syscall"
	"time"
	"unsafe"

	"git.sr.ht/~rockorager/vaxis"
	"git.sr.ht/~rockorager/vaxis/widgets/term"

	"verif/harness/drivers/emu"
	"verif/harness/fakecon"
	"verif/harness/sess"
	"verif/harness/termcmd"
	"verif/harness/trace"
)

// pixCon is the application's console with a tty behind Fd() whose window
// size carries a pixel geometry. The emulator gives its child no pixel
// geometry (see the as-built notes); an image encoder needs one, so the
// scenario supplies it the way a tty does.
type pixCon struct {
	*fakecon.Console
	fd uintptr
}

func (c pixCon) Fd() uintptr { return c.fd }

type winsize struct{ Row, Col, X, Y uint16 }

func openPixTTY(cols, rows, cw, ch int) (*os.File, error) {
	f, err := os.OpenFile("/dev/ptmx", os.O_RDWR|syscall.O_NOCTTY, 0)
	if err != nil {
		return nil, err
	}
	ws := winsize{Row: uint16(rows), Col: uint16(cols), X: uint16(cols * cw), Y: uint16(rows * ch)}
	if _, _, e := syscall.Syscall(syscall.SYS_IOCTL, f.Fd(), syscall.TIOCSWINSZ, uintptr(unsafe.Pointer(&ws))); e != 0 {
		f.Close()
		return nil, e
	}
	return f, nil
}

// picture: w x h pixels, ncol distinct opaque colours in diagonal stripes.
func picture(w, h, ncol int) image.Image {
	if ncol < 1 {
		ncol = 1
	}
	img := image.NewNRGBA(image.Rect(0, 0, w, h))
	for y := 0; y < h; y++ {
		for x := 0; x < w; x++ {
			k := (x + y) % ncol
			img.SetNRGBA(x, y, color.NRGBA{R: uint8(40 + 53*k), G: uint8(200 - 31*k), B: uint8(17 * k), A: 255})
		}
	}
	return img
}

// emuImages: where the emulator holds images (cell of the top-left corner), oldest first.
func emuImages(vt *term.Model) [][]int {
	out := [][]int{}
	g := reflect.ValueOf(vt).Elem().FieldByName("graphics")
	for i := 0; i < g.Len(); i++ {
		o := g.Index(i).Elem().FieldByName("origin")
		out = append(out, []int{int(o.FieldByName("row").Int()), int(o.FieldByName("col").Int())})
	}
	return out
}

// runSixel: a Vaxis application inside the emulator draws pictures with the
// graphics protocol it derived from the emulator's replies. One event
//
//	{"ev":"images","proto":p,"at":[[row,col]...],"sent":n,"got":[[row,col]...]}
//
// p = what NewImage chose (sixel | kitty | cells), at = where the application
// drew, sent = sixel sequences in the application's output, got = the images
// the emulator holds afterwards.
func runSixel(ctx *Ctx, sc *Scn) (evs []trace.Ev, note string) {
	defer func() {
		if r := recover(); r != nil {
			note = fmt.Sprintf("panic: %v", r)
			evs = append(evs, trace.Ev{"ev": "panic", "msg": "panic"})
		}
	}()
	sess.ScrubEnv()
	cols, rows := sc.Cols, sc.Rows
	tty, err := openPixTTY(cols, rows, sc.CW, sc.CH)
	if err != nil {
		return nil, "tty: " + err.Error()
	}
	defer tty.Close()
	pr, pw, err := os.Pipe()
	if err != nil {
		return nil, err.Error()
	}
	defer pr.Close()
	defer pw.Close()
	vt := term.NewVerif(pw, cols, rows)
	vt.Focus()
	inner := fakecon.New(cols, rows)
	go func() {
		buf := make([]byte, 4096)
		for {
			n, err := pr.Read(buf)
			if n > 0 {
				inner.Inject(append([]byte(nil), buf[:n]...))
			}
			if err != nil {
				return
			}
		}
	}()
	var omu sync.Mutex
	var out []byte
	var feedPanic string
	inner.OnWrite = func(p []byte) {
		omu.Lock()
		out = append(out, p...)
		omu.Unlock()
		if msg := emu.Feed(vt, emu.Parse(p), nil); msg != "" && feedPanic == "" {
			feedPanic = msg
		}
	}
	take := func() []byte { omu.Lock(); defer omu.Unlock(); o := out; out = nil; return o }
	vx, err := vaxis.New(vaxis.Options{WithConsole: pixCon{inner, tty.Fd()}, NoSignals: true})
	if err != nil {
		return nil, "inner start: " + err.Error()
	}
	stop := make(chan struct{})
	defer close(stop)
	go func() {
		for {
			select {
			case <-vx.Events():
			case <-stop:
				return
			}
		}
	}()
	cv := termcmd.NewConv(ctx.G, ctx.L, true, false)
	cv.Mode2027 = true
	evs = append(evs, trace.Ev{"ev": "reset", "rows": rows, "cols": cols, "xw": false, "adv": []string{"sixel", "unicodeCore"}})
	evs = append(evs, cv.Feed(take())...)
	evs = append(evs, trace.Ev{"ev": "ready", "can": map[string]bool{
		"rgb": vx.CanRGB(), "kittyGraphics": vx.CanKittyGraphics(), "sixel": vx.CanSixel(), "color": vx.CanReportColor(),
		"fg": vx.CanReportForegroundColor(), "bg": vx.CanReportBackgroundColor(), "graphics": vx.CanDisplayGraphics(),
		"appid": vx.CanSetAppID(), "unicodeCore": vx.CanUnicodeCore(), "explicitWidth": vx.CanExplicitWidth()}})
	before := len(emuImages(vt))
	proto := ""
	at := [][]int{}
	for _, d := range sc.Imgs {
		img, err := vx.NewImage(picture(d.W, d.H, d.NCol))
		if err != nil {
			note += " NewImage: " + err.Error()
			continue
		}
		p := "cells"
		switch img.(type) {
		case *vaxis.Sixel:
			p = "sixel"
		case *vaxis.KittyImage:
			p = "kitty"
		}
		if proto == "" || proto == p {
			proto = p
		} else {
			proto = "mixed"
		}
		img.Resize(d.BW, d.BH)
		if p != "cells" {
			// the encoding runs in a goroutine of the library; the size is reported once it is over
			for dl := time.Now().Add(10 * time.Second); time.Now().Before(dl); time.Sleep(2 * time.Millisecond) {
				if w, _ := img.CellSize(); w > 0 {
					break
				}
			}
		}
		img.Draw(vx.Window().New(d.C, d.R, -1, -1))
		at = append(at, []int{d.R, d.C})
	}
	vx.Render()
	sent := 0
	fevs := cv.Feed(take())
	for _, e := range fevs {
		if e["ev"] == "gfx" && e["proto"] == "sixel" {
			sent++
		}
	}
	evs = append(evs, fevs...)
	if feedPanic != "" {
		evs = append(evs, trace.Ev{"ev": "panic", "msg": "emulator panicked"})
		note += " emulator panic: " + feedPanic
	}
	got := emuImages(vt)[before:]
	evs = append(evs, trace.Ev{"ev": "images", "proto": proto, "at": at, "sent": sent, "got": got})
	done := make(chan struct{})
	go func() { vx.Close(); close(done) }()
	select {
	case <-done:
	case <-time.After(3 * time.Second):
		note += " inner Close did not return"
	}
	return evs, note
}
