package c12

import (
	"verif/harness/termcmd"
	"verif/harness/trace"
)

// A fact about terminals (and the one the emulator is built to): a character
// cell display gives a glyph one column or two, never more. uniseg, through
// which harness/termcmd measures what a Unicode-core terminal gives a cluster,
// has two exceptions to that (U+2E3A TWO-EM DASH 3, U+2E3B THREE-EM DASH 4);
// the logged terminal width of a cluster is therefore cut at two here: in the
// print commands of both reference terminals, in the terminal width the
// application's record carries for every cell and in the record's own
// bookkeeping of the columns a write covers.

func termW(w int) int {
	if w > 2 {
		return 2
	}
	return w
}

// termWidther is the widther of the application's record.
type termWidther struct{ cv *termcmd.Conv }

func (t termWidther) AppWidth(s string) int { return termW(t.cv.AppWidth(s)) }

func termPrints(evs []trace.Ev) []trace.Ev {
	for _, e := range evs {
		if e["ev"] == "print" {
			if w, ok := e["w"].(int); ok {
				e["w"] = termW(w)
			}
		}
	}
	return evs
}

// termApp: the tuples of c01.Rec.App are <<g, w, fg, bg, ul, us, at, ln, tw, hd, st>>.
func termApp(app [][][]int) [][][]int {
	for _, row := range app {
		for _, a := range row {
			if len(a) > 8 {
				a[8] = termW(a[8])
			}
		}
	}
	return app
}
