package c05

import (
	"fmt"
	"os/exec"
	"strings"
	"sync/atomic"
	"time"

	"git.sr.ht/~rockorager/vaxis"
	"git.sr.ht/~rockorager/vaxis/widgets/term"

	"verif/harness/trace"
)

// StallD: a real child process on a real PTY raises N events of kind What
// (bell, title, notify, apc, mixed) and then prints a marker; Consumer is how
// the attached event handler behaves (count, slow, reenter).
type StallD struct {
	What     string
	N        int
	Consumer string
}

const marker = "DONE"

func stallScript(what string, n int) string {
	one := map[string]string{
		"bell":   `\a`,
		"title":  `\033]0;t\a`,
		"notify": `\033]9;n\a`,
		"apc":    `\033_x\033\\`,
	}
	var sb strings.Builder
	kinds := []string{"bell", "title", "notify", "apc"}
	for i := 0; i < n; i++ {
		k := what
		if what == "mixed" {
			k = kinds[i%len(kinds)]
		}
		sb.WriteString(one[k])
	}
	return sb.String() + marker
}

// attempt runs the child once; done reports whether the marker reached the
// emulator's screen within the bound, seen the number of events delivered.
func stallAttempt(d *StallD, bound time.Duration) (done bool, seen int64) {
	vt := term.New()
	var n int64
	vt.Attach(func(ev vaxis.Event) {
		switch ev.(type) {
		case term.EventBell, term.EventTitle, term.EventNotify, term.EventAPC:
			atomic.AddInt64(&n, 1)
			switch d.Consumer {
			case "slow":
				time.Sleep(300 * time.Microsecond)
			case "reenter":
				_ = vt.String()
			}
		}
	})
	cmd := exec.Command("/usr/bin/printf", stallScript(d.What, d.N))
	if err := vt.StartWithSize(cmd, 20, 4); err != nil {
		panic("pty start: " + err.Error())
	}
	deadline := time.Now().Add(bound)
	for time.Now().Before(deadline) {
		res := make(chan string, 1)
		go func() { res <- vt.String() }() // blocks for ever if the emulator is stalled with its lock held
		select {
		case s := <-res:
			if strings.Contains(s, marker) {
				go vt.Close()
				return true, atomic.LoadInt64(&n)
			}
		case <-time.After(time.Until(deadline)):
		}
		time.Sleep(5 * time.Millisecond)
	}
	if cmd.Process != nil {
		cmd.Process.Kill()
	}
	return false, atomic.LoadInt64(&n)
}

// RunStall executes the stall scenario on the real PTY goroutine. A run that
// does not finish within a generous bound is repeated once before it is
// reported, so that scheduling noise cannot produce a verdict.
func RunStall(sc *Scn) (evs []trace.Ev, note string) {
	d := sc.Stall
	evs = append(evs, trace.Ev{"ev": "reset", "rows": 4, "cols": 20,
		"o": map[string]any{"r": 0, "c": 0, "lc": false, "top": 0, "bot": 3, "left": 0, "right": 19, "hs": []int{4, 4, 4}, "ws": []int{20}}})
	done, seen, tries := false, int64(0), 0
	for tries < 2 && !done {
		tries++
		done, seen = stallAttempt(d, 8*time.Second)
	}
	evs = append(evs, trace.Ev{"ev": "stall", "k": "stall:" + d.What, "what": d.What, "n": d.N, "consumer": d.Consumer,
		"done": done, "seen": seen, "tries": tries})
	if !done {
		note = fmt.Sprintf("stalled after %d events", seen)
	}
	return evs, note
}

// StallScenarios: every kind of event, counts around the channel capacity
// and well beyond it, each kind of consumer.
func StallScenarios(thorough bool) []*Scn {
	var out []*Scn
	counts := []int{1, 2, 3, 4, 20}
	if thorough {
		counts = []int{1, 2, 3, 4, 5, 8, 20, 100, 1000}
	}
	for _, what := range []string{"bell", "title", "notify", "apc", "mixed"} {
		for _, n := range counts {
			for _, c := range []string{"count", "slow", "reenter"} {
				if !thorough && c != "count" && n != 20 {
					continue
				}
				out = append(out, &Scn{Kind: "stall", Cols: 20, Rows: 4, Stall: &StallD{What: what, N: n, Consumer: c}})
			}
		}
	}
	return out
}
