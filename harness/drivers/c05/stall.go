package c05

import (
	"fmt"
	"os/exec"
	"strings"
	"sync/atomic"
	"syscall"
	"time"

	"git.sr.ht/~rockorager/vaxis"
	"git.sr.ht/~rockorager/vaxis/widgets/term"

	"verif/harness/trace"
)

// StallD: a real child process on a real PTY raises N events of kind What
// (bell, title, notify, apc, mixed) and then prints a marker; Consumer is how
// the attached event handler behaves (count, slow, reenter).
//
// What = "query:<name>", Consumer = "noread": the child puts its terminal in
// raw mode (as full-screen programs do), writes N requests for a report
// (device attributes, status, cursor position, mode) without ever reading the
// answers, prints the marker and stays alive. The bytes it writes are a legal,
// finite stream: it is processed iff the marker reaches the screen.
type StallD struct {
	What     string
	N        int
	Consumer string
}

const marker = "DONE"

func stallScript(what string, n int) string {
	one := map[string]string{
		"bell":   `\a`,
		"title":  `\033]0;t\a`,
		"notify": `\033]9;n\a`,
		"apc":    `\033_x\033\\`,
	}
	var sb strings.Builder
	kinds := []string{"bell", "title", "notify", "apc"}
	for i := 0; i < n; i++ {
		k := what
		if what == "mixed" {
			k = kinds[i%len(kinds)]
		}
		sb.WriteString(one[k])
	}
	return sb.String() + marker
}

// Queries are the requests the terminal answers by writing to its child.
var Queries = map[string]string{
	"da1":    `\033[c`,
	"da2":    `\033[>c`,
	"dsr":    `\033[5n`,
	"cpr":    `\033[6n`,
	"decrqm": `\033[?7$p`,
}

// stallCmd is the child of the scenario.
func stallCmd(d *StallD) *exec.Cmd {
	if q, ok := Queries[strings.TrimPrefix(d.What, "query:")]; ok && strings.HasPrefix(d.What, "query:") {
		// yes | head | tr: the N copies come from processes that write and never read; the shell becomes
		// the sleep, so that killing the child leaves nothing behind
		script := fmt.Sprintf(`stty raw -echo; q=$(printf '%s'); yes "$q" | head -n %d | tr -d '\n'; printf %s; exec sleep 60`, q, d.N, marker)
		return exec.Command("/bin/sh", "-c", script)
	}
	return exec.Command("/usr/bin/printf", stallScript(d.What, d.N))
}

// attempt runs the child once; done reports whether the marker reached the
// emulator's screen within the bound, seen the number of events delivered.
func stallAttempt(d *StallD, bound time.Duration) (done bool, seen int64) {
	vt := term.New()
	var n int64
	vt.Attach(func(ev vaxis.Event) {
		switch ev.(type) {
		case term.EventBell, term.EventTitle, term.EventNotify, term.EventAPC:
			atomic.AddInt64(&n, 1)
			switch d.Consumer {
			case "slow":
				time.Sleep(300 * time.Microsecond)
			case "reenter":
				_ = vt.String()
			}
		}
	})
	cmd := stallCmd(d)
	if err := vt.StartWithSize(cmd, 20, 4); err != nil {
		panic("pty start: " + err.Error())
	}
	deadline := time.Now().Add(bound)
	for time.Now().Before(deadline) {
		res := make(chan string, 1)
		go func() { res <- vt.String() }() // blocks for ever if the emulator is stalled with its lock held
		select {
		case s := <-res:
			if strings.Contains(s, marker) {
				go vt.Close()
				return true, atomic.LoadInt64(&n)
			}
		case <-time.After(time.Until(deadline)):
		}
		time.Sleep(5 * time.Millisecond)
	}
	if cmd.Process != nil {
		// the child leads its own session: kill its whole process group (a pipeline blocked on the terminal)
		syscall.Kill(-cmd.Process.Pid, syscall.SIGKILL)
		cmd.Process.Kill()
	}
	return false, atomic.LoadInt64(&n)
}

// RunStall executes the stall scenario on the real PTY goroutine. A run that
// does not finish within a generous bound is repeated once before it is
// reported, so that scheduling noise cannot produce a verdict.
func RunStall(sc *Scn) (evs []trace.Ev, note string) {
	d := sc.Stall
	evs = append(evs, trace.Ev{"ev": "reset", "rows": 4, "cols": 20,
		"o": map[string]any{"r": 0, "c": 0, "lc": false, "top": 0, "bot": 3, "left": 0, "right": 19, "hs": []int{4, 4, 4}, "ws": []int{20}}})
	done, seen, tries := false, int64(0), 0
	for tries < 2 && !done {
		tries++
		done, seen = stallAttempt(d, 8*time.Second)
	}
	k := "stall:" + d.What
	if strings.HasPrefix(d.What, "query:") {
		k = "unread:" + d.What[6:]
	}
	evs = append(evs, trace.Ev{"ev": "stall", "k": k, "what": d.What, "n": d.N, "consumer": d.Consumer,
		"done": done, "seen": seen, "tries": tries})
	if !done && strings.HasPrefix(d.What, "query:") {
		note = "child output after the unread replies not processed"
	} else if !done {
		note = fmt.Sprintf("stalled after %d events", seen)
	}
	return evs, note
}

// StallScenarios: every kind of event, counts around the channel capacity
// and well beyond it, each kind of consumer.
func StallScenarios(thorough bool) []*Scn {
	var out []*Scn
	counts := []int{1, 2, 3, 4, 20, 100}
	if thorough {
		counts = []int{1, 2, 3, 4, 5, 8, 20, 100, 1000}
	}
	for _, what := range []string{"bell", "title", "notify", "apc", "mixed"} {
		for _, n := range counts {
			for _, c := range []string{"count", "slow", "reenter"} {
				if !thorough && c != "count" && n != 20 {
					continue
				}
				out = append(out, &Scn{Kind: "stall", Cols: 20, Rows: 4, Stall: &StallD{What: what, N: n, Consumer: c}})
			}
		}
	}
	// requests whose answers the child does not read: far more than the kernel holds for it (about 4 KB + 64 KB)
	kinds, ns := []string{"da1", "cpr"}, []int{20000}
	if thorough {
		kinds, ns = []string{"da1", "da2", "dsr", "cpr", "decrqm"}, []int{100, 20000, 200000}
	}
	for _, q := range kinds {
		for _, n := range ns {
			out = append(out, &Scn{Kind: "unread", Cols: 20, Rows: 4, Stall: &StallD{What: "query:" + q, N: n, Consumer: "noread"}})
		}
	}
	return out
}
