package c05

import (
	"fmt"
	"math/rand"
	"strconv"
	"strings"
)

// Sixel family: device control strings DCS q ... ST whose data is a sixel
// picture (DEC STD 070 / VT330-340 programmer reference, "Sixel Graphics":
// raster attributes " Pan ; Pad ; Ph ; Pv, repeat introducer ! Pn <sixel>,
// colour introducer # Pc [; Pu ; Px ; Py ; Pz], graphics carriage return $,
// graphics new line -, data characters ? .. ~), with boundary and huge values
// for every number the child chooses, and long payloads.
//
// The scenarios carry a per-sequence deadline (Scn.Deadline) and are run in
// child processes: a picture whose decoding loops over a child-chosen count
// cannot be stopped from inside the process, so after a sequence that did not
// return within the deadline the child logs the hang and is replaced.
//
// SAFETY OF THE SHARED MACHINE. What an emulator without any bound would
// allocate for a generated picture is kept to about 100 MB: a payload either
// holds no number above 1001 and lines of at most 4000 sixels, or it holds
// ONE larger number, no other above 300, at most 8 graphics new lines and
// lines of at most 400 sixels. The larger number is either at most 65536 or
// so large that an allocation of that many pixels cannot even be attempted
// (4*w*h overflows or exceeds the address space: it panics at once) and a
// loop over it does not end within any deadline. The range in between
// (2^17 .. 2^46: gigabytes really allocated; loops that end after minutes and
// then allocate) is deliberately NOT generated.

// SixelDeadline is the no-progress bound of one sequence of this family, ms.
const SixelDeadline = 5000

// numbers a picture dimension or repeat count is drawn from
var sixelSmall = []string{"", "0", "1", "2", "5", "6", "7", "12", "13", "199", "200", "201", "255", "256", "300"}
var sixelMedium = []string{"399", "400", "401", "999", "1000", "1001"}
var sixelBig = []string{"4095", "4096", "9999", "10000", "10001", "16383", "16384", "32767", "32768", "65535", "65536"}

// allocation of that many pixels (times 4 bytes, times 6 or 200 rows) cannot even be attempted; a loop over it does not end
var sixelGiant = []string{"99999999999999", "2305843009213693952", "4611686018427387904", "9223372036854775807"}

// beyond the 64-bit integers, and the values that turn negative as signed ones
var sixelOver = []string{"9223372036854775808", "18446744073709551615", "18446744073709551616", "99999999999999999999999999"}

type sixelGen struct {
	g      *gen
	big    bool // the payload may hold ONE number above 1001 (then: no other above 300, few lines, short lines)
	bigSet bool // ... and holds it already
	lines  int  // graphics new lines so far
	x      int  // upper bound of the sixel column reached on the current line
}

func (s *sixelGen) small() string {
	r := s.g.rng
	if x := r.Intn(4); x == 0 { // around the terminal's size in cells
		return fmt.Sprint([]int{s.g.cols - 1, s.g.cols, s.g.cols + 1, s.g.rows, s.g.rows + 1}[r.Intn(5)])
	} else if x == 1 && !s.big { // ... and in pixels of a 10 x 20 cell
		return s.g.pick(append([]string{fmt.Sprint(min(10*s.g.cols, 1001)), fmt.Sprint(min(10*s.g.cols+1, 1001)), fmt.Sprint(min(20*s.g.rows, 1001))}, sixelMedium...))
	}
	return s.g.pick(sixelSmall)
}

// dim returns a dimension or count.
func (s *sixelGen) dim() string {
	r := s.g.rng
	if !s.big || s.bigSet || r.Intn(3) > 0 {
		return s.small()
	}
	s.bigSet = true
	switch r.Intn(4) {
	case 0:
		return s.g.pick(sixelGiant)
	case 1:
		return s.g.pick(sixelOver)
	}
	return s.g.pick(sixelBig[:len(sixelBig)-2]) // 65535 and 65536: SixelFixed
}

// advance keeps the line short: returns "$" when n more columns would make it longer than the mode allows.
func (s *sixelGen) advance(n int) string {
	limit := 4000
	if s.big {
		limit = 400
	}
	if s.x+n > limit {
		s.x = n
		return "$"
	}
	s.x += n
	return ""
}

func (s *sixelGen) colourNum() string {
	r := s.g.rng
	switch r.Intn(6) {
	case 0:
		return s.g.pick(huge)
	case 1:
		return s.g.pick([]string{"", "255", "256", "1023", "1024", "65535"})
	}
	return fmt.Sprint(r.Intn(17))
}

func (s *sixelGen) data(n int) string {
	r := s.g.rng
	b := make([]byte, n)
	for i := range b {
		switch r.Intn(6) {
		case 0:
			b[i] = '?'
		case 1:
			b[i] = '~'
		default:
			b[i] = byte('?' + r.Intn(64))
		}
	}
	return string(b)
}

// token returns one element of sixel data.
func (s *sixelGen) token() string {
	r := s.g.rng
	switch x := r.Intn(100); {
	case x < 30:
		n := 1 + r.Intn(12)
		return s.advance(n) + s.data(n)
	case x < 50: // repeat introducer
		d := s.dim()
		six := s.g.pick([]string{"~", "~", "?", "@", "^", "N", "}"})
		if n, err := strconv.Atoi(d); err == nil && n <= 1001 {
			return s.advance(n) + "!" + d + six
		}
		// a number above 1001: nothing else on this line (a decoder that took it as the column reached
		// would double its buffer with every further sixel)
		s.x = 0
		return "$!" + d + six + "$"
	case x < 58: // colour definition: RGB, HLS, other systems, boundary components
		comp := func() string {
			switch r.Intn(5) {
			case 0:
				return s.g.pick(huge)
			case 1:
				return s.g.pick([]string{"", "0", "99", "100", "101", "255", "256", "359", "360", "361"})
			}
			return fmt.Sprint(r.Intn(101))
		}
		return "#" + s.colourNum() + ";" + s.g.pick([]string{"2", "2", "1", "1", "0", "3", ""}) + ";" + comp() + ";" + comp() + ";" + comp()
	case x < 68: // colour selection (defined or not)
		return "#" + s.colourNum()
	case x < 76:
		s.x = 0
		return "$"
	case x < 86:
		s.x = 0
		if s.big && s.lines >= 8 {
			return "$"
		}
		s.lines++
		return "-"
	case x < 92: // raster attributes (anywhere: a device accepts them only at the start, a decoder may not care)
		return s.raster()
	case x < 96:
		return s.g.pick([]string{"#", "#;", "#1;2", "#1;2;3;4", "#1;2;3;4;5;6", "!", "!~", "!;~", "!5", "\"", "\"1", "\"1;1;", "\";;;", ";", "!-1~", "!+5~", "\"1;1;-5;-5"})
	}
	// characters outside the sixel alphabet
	return s.g.pick([]string{" ", "\n", "\r", "\t", "\x08", "+", "*", ">", "<", "=", "é", "\x00", "\x07"})
}

// raster attributes: at most one of width and height is above 300 in a payload that may hold a big number

func (s *sixelGen) raster() string {
	r := s.g.rng
	n := []int{4, 4, 4, 4, 3, 2, 1, 5, 6}[r.Intn(9)]
	parts := make([]string, n)
	for i := range parts {
		switch {
		case i < 2:
			parts[i] = s.g.pick([]string{"1", "1", "2", "0", "", "5", "100"})
			if r.Intn(12) == 0 {
				parts[i] = s.g.pick(huge)
			}
		case i < 4:
			parts[i] = s.dim()
		default:
			parts[i] = s.small()
		}
	}
	return "\"" + strings.Join(parts, ";")
}

// sixelString returns one device control string with sixel data.
func (g *gen) sixelString() string {
	r := g.rng
	s := &sixelGen{g: g, big: r.Intn(2) == 0}
	var sb strings.Builder
	sb.WriteString("\x1bP")
	// parameters P1;P2;P3 (macro, background, grid size), private markers, intermediates
	sb.WriteString(g.pick([]string{"", "", "", "", "0;0;0", "0;1", "9;1;0", ";;", "7;1;99999", "?", "1$"}))
	sb.WriteString("q")
	if r.Intn(3) > 0 {
		sb.WriteString(s.raster())
	}
	long := r.Intn(10)
	if s.big {
		long = -1
	}
	switch long {
	case 0: // long payload: many data characters on a few lines
		lines := 1 + r.Intn(6)
		for l := 0; l < lines; l++ {
			sb.WriteString("#" + fmt.Sprint(r.Intn(16)))
			sb.WriteString(s.data(200 + r.Intn(1500)))
			sb.WriteString([]string{"$", "-", "$-"}[r.Intn(3)])
		}
	case 1: // long payload: many short lines
		for l := 20 + r.Intn(80); l > 0; l-- {
			sb.WriteString(s.data(1+r.Intn(4)) + "-")
		}
	case 2: // long payload: many repeats with small counts
		for l := 50 + r.Intn(300); l > 0; l-- {
			sb.WriteString("!" + fmt.Sprint(r.Intn(14)) + s.data(1))
			if l%40 == 0 {
				sb.WriteString("$")
			}
		}
	}
	for n := r.Intn(14); n > 0; n-- {
		sb.WriteString(s.token())
	}
	sb.WriteString(g.pick([]string{"\x1b\\", "\x1b\\", "\x1b\\", "\x1b\\", "\x9c", "\x18", "\x1a", "\x1b[1m"}))
	return sb.String()
}

// GenSixel builds one scenario of the sixel family: ordinary output, sixel
// strings, resizes, and ordinary output again.
func GenSixel(rng *rand.Rand) *Scn {
	g := &gen{rng: rng}
	g.cols, g.rows = g.size(false)
	sc := &Scn{Kind: "sixel", Cols: g.cols, Rows: g.rows, Deadline: SixelDeadline}
	for k := rng.Intn(3); k > 0; k-- {
		sc.Steps = append(sc.Steps, W(g.item()))
	}
	for k := 1 + rng.Intn(3); k > 0; k-- {
		sc.Steps = append(sc.Steps, W(g.sixelString()))
		switch rng.Intn(4) {
		case 0:
			g.cols, g.rows = g.size(false)
			sc.Steps = append(sc.Steps, R(g.cols, g.rows))
		case 1:
			sc.Steps = append(sc.Steps, W(g.item()))
		}
	}
	sc.Steps = append(sc.Steps, W(g.text()), W(g.item()))
	return sc
}

// SixelFixed enumerates every boundary, huge and overflowing number in each
// of the places where sixel data holds a number the child chooses (picture
// width, picture height, repeat count of a drawn and of an empty sixel, with
// and without something drawn before), one number per scenario.
func SixelFixed() []*Scn {
	var out []*Scn
	add := func(name, payload string) {
		out = append(out, &Scn{Kind: "fixed-sixel-" + name, Cols: 8, Rows: 3, Deadline: SixelDeadline,
			Steps: []Step{W("ab"), W("\x1bPq" + payload + "\x1b\\"), W("cd\r\n"), W("\x1b[2;2Hx")}})
	}
	var all []string
	for _, l := range [][]string{sixelSmall, sixelMedium, sixelBig, sixelGiant, sixelOver} {
		all = append(all, l...)
	}
	for _, v := range all {
		add("width", "\"1;1;"+v+";1#1~~")
		add("height", "\"1;1;1;"+v+"#1~~")
		add("repeat", "!"+v+"~")
		add("repeat-after", "#2~~-~!"+v+"~~")
		add("repeat-empty", "#2~!"+v+"?~")
		add("colour", "#"+v+";2;"+v+";"+v+";"+v+"~#1;1;"+v+";"+v+";"+v+"~")
	}
	add("both-medium", "\"1;1;2000;2000#1~")
	add("attrs-late", "#1~~~-~~~\"1;1;300;300~~~")
	add("attrs-twice", "\"1;1;300;1\"1;1;1;300#1~")
	add("signs", "\"1;1;+300;-300#1!+3~!-3~")
	add("spaces", "\"1;1; 300;\r300#1! 3~")
	add("lines", strings.Repeat("~-", 400))
	add("wide", strings.Repeat("~", 3000))
	add("returns", strings.Repeat("!200~$", 300))
	return out
}
