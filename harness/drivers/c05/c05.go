// Package c05 drives the real terminal emulator (widgets/term) with arbitrary
// child output: grammar-generated control sequences with boundary parameters
// and raw fuzzed bytes, on screens from 1x1 upward, with resizes between
// writes. After every parsed sequence and every resize the emulator's cursor,
// margins and grid dimensions are logged; a panic or a sequence that does
// not return is logged as such. specs/emu/EmuSafe_Trace.tla decides.
package c05

import (
	"fmt"
	"math/rand"
	"strings"
	"sync"
	"time"

	"git.sr.ht/~rockorager/vaxis"
	"git.sr.ht/~rockorager/vaxis/ansi"
	"git.sr.ht/~rockorager/vaxis/widgets/term"

	"verif/harness/drivers/emu"
	"verif/harness/trace"
)

// ---- replay descriptor -------------------------------------------------

// Step is one write of child output (K = "w") or one resize (K = "r").
type Step struct {
	K    string `json:"k"`
	B    []byte `json:"b,omitempty"`
	Cols int    `json:"cols,omitempty"`
	Rows int    `json:"rows,omitempty"`
}

type Scn struct {
	Kind  string  `json:"kind"`
	Cols  int     `json:"cols"`
	Rows  int     `json:"rows"`
	Steps []Step  `json:"steps,omitempty"`
	Draw  *DrawD  `json:"draw,omitempty"`
	Stall *StallD `json:"stall,omitempty"`
	Conc  *ConcD  `json:"conc,omitempty"`
	// Deadline > 0: the scenario is run in a child process and a sequence that has not returned after that
	// many milliseconds is logged as a hang (sixel family: decoding cannot be interrupted from inside)
	Deadline int `json:"deadline,omitempty"`
}

func W(s string) Step       { return Step{K: "w", B: []byte(s)} }
func R(cols, rows int) Step { return Step{K: "r", Cols: cols, Rows: rows} }

// ---- observation -------------------------------------------------------

func dims(g [][]term.VerifCell) []int {
	out := make([]int, len(g))
	for i, r := range g {
		out[i] = len(r)
	}
	return out
}

// Obs is the observation record of module EmuSafe.
func Obs(st term.VerifState) map[string]any {
	return map[string]any{
		"r": st.Cursor.Row, "c": st.Cursor.Col, "lc": st.LastCol,
		"top": st.Top, "bot": st.Bottom, "left": st.Left, "right": st.Right,
		"hs": []int{len(st.PrimaryDims), len(st.AltDims), len(st.Active)},
		"ws": emu.Widths(st.PrimaryDims, st.AltDims, dims(st.Active)),
	}
}

func ascii(s string, max int) string {
	var sb strings.Builder
	for _, r := range s {
		if sb.Len() >= max {
			break
		}
		if r >= 0x20 && r < 0x7f && r != '"' && r != '\\' {
			sb.WriteRune(r)
		} else {
			sb.WriteByte('?')
		}
	}
	return sb.String()
}

// KindOf names a parsed sequence for the rejection signature.
func KindOf(seq ansi.Sequence) string {
	switch seq := seq.(type) {
	case ansi.Print:
		return "print"
	case ansi.C0:
		return fmt.Sprintf("c0:%02x", rune(seq))
	case ansi.ESC:
		return "esc:" + ascii(string(seq.Intermediate)+string(seq.Final), 4)
	case ansi.CSI:
		return "csi:" + ascii(string(seq.Intermediate)+string(seq.Final), 4)
	case ansi.OSC:
		sel, _, _ := strings.Cut(string(seq.Payload), ";")
		return "osc:" + ascii(sel, 4)
	case ansi.DCS:
		return "dcs:" + ascii(string(seq.Final), 1)
	case ansi.APC:
		return "apc"
	case ansi.SS3:
		return "ss3"
	}
	return "other"
}

// ---- executor ----------------------------------------------------------

type progress struct {
	mu   sync.Mutex
	evs  []trace.Ev
	n    int
	kind string
	note string
}

func (p *progress) put(e trace.Ev) {
	p.mu.Lock()
	p.evs = append(p.evs, e)
	p.n++
	p.mu.Unlock()
}

func (p *progress) at(kind string) {
	p.mu.Lock()
	p.kind = kind
	p.n++
	p.mu.Unlock()
}

func run(sc *Scn, p *progress) {
	vt := emu.New(sc.Cols, sc.Rows)
	var tabs []int
	obs := func() (map[string]any, term.VerifState) {
		st := vt.VerifSnapshot()
		o := Obs(st)
		modelObs(o, st, &tabs)
		return o, st
	}
	o0, _ := obs()
	p.put(trace.Ev{"ev": "reset", "rows": sc.Rows, "cols": sc.Cols, "o": o0})
	for _, st := range sc.Steps {
		switch st.K {
		case "r":
			p.at("resize")
			msg := func() (msg string) {
				defer func() {
					if r := recover(); r != nil {
						msg = fmt.Sprint(r)
					}
				}()
				vt.Resize(st.Cols, st.Rows)
				return ""
			}()
			if msg != "" {
				p.put(trace.Ev{"ev": "panic", "k": "resize", "msg": ascii(msg, 120)})
				p.note = "panic: " + msg
				return
			}
			o, _ := obs()
			p.put(trace.Ev{"ev": "resize", "k": "resize", "rows": st.Rows, "cols": st.Cols, "o": o})
		case "w":
			seqs := emu.Parse(st.B)
			i := 0
			for i < len(seqs) {
				p.at(KindOf(seqs[i]))
				msg := emu.Feed(vt, seqs[i:i+1], func(seq ansi.Sequence, _ []vaxis.Event) {})
				if msg != "" {
					f, mp, mq := ModelOp(seqs[i], term.VerifState{})
					p.put(trace.Ev{"ev": "panic", "k": KindOf(seqs[i]), "msg": ascii(msg, 120), "m": []any{f, mp, mq}})
					p.note = "panic: " + msg
					return
				}
				o, snap := obs()
				f, mp, mq := ModelOp(seqs[i], snap)
				p.put(trace.Ev{"ev": "seq", "k": KindOf(seqs[i]), "o": o, "m": []any{f, mp, mq}})
				i++
			}
		}
	}
}

// Run executes one scenario; a sequence that makes no progress for limit is
// reported as a hang (the goroutine is abandoned).
func Run(sc *Scn, limit time.Duration) (evs []trace.Ev, note string) {
	p := &progress{}
	done := make(chan struct{})
	go func() {
		defer close(done)
		run(sc, p)
	}()
	last, since := -1, time.Now()
	for {
		select {
		case <-done:
			return p.evs, p.note
		case <-time.After(limit / 5):
			p.mu.Lock()
			n, kind := p.n, p.kind
			if n != last {
				last, since = n, time.Now()
			} else if time.Since(since) >= limit {
				evs = append([]trace.Ev(nil), p.evs...)
				p.mu.Unlock()
				evs = append(evs, trace.Ev{"ev": "hang", "k": kind, "ms": int(limit / time.Millisecond)})
				return evs, "hang: " + kind
			}
			p.mu.Unlock()
		}
	}
}

// ---- generators --------------------------------------------------------

var huge = []string{"255", "256", "32767", "32768", "65535", "65536", "2147483647", "2147483648", "4294967295",
	"4294967296", "9223372036854775807", "9223372036854775808", "18446744073709551615", "18446744073709551616",
	"99999999999999999999999999"}

var texts = []string{"a", "b", "Z", " ", "~", "é", "é", "世", "界", "😀", "👩‍🚀", "🇯🇵", "☺️", "​", "́",
	"­", "\x7f", "\xff\xfe", "\xc3", "�", "x̀́̂", "ﷺ", "　"}

var csiFinals = "@ABCDEFGHIJKLMPSTXZ`abcdefghlmnrsu"

var escSeqs = []string{"7", "8", "D", "E", "H", "M", "N", "O", "=", ">", "c", "(0", ")0", "*0", "+0", "(B", ")B", "*B", "+B", "#8", "Z", "\\", "n", "o", "|", "}", "~", "(A", "%G"}

var c0s = []byte{0x07, 0x08, 0x09, 0x0a, 0x0b, 0x0c, 0x0d, 0x0e, 0x0f, 0x00, 0x05, 0x11, 0x13, 0x18, 0x1a, 0x1c, 0x1f}

var ansiModes = []string{"2", "4", "12", "20"}
var decModes = []string{"1", "2", "3", "4", "5", "6", "7", "8", "25", "45", "47", "1000", "1002", "1003", "1006", "1007", "1047", "1048", "1049", "2004", "2026"}

var oscs = []string{"0;title", "2;t", "0;", "1;icon", "8;;http://x", "8;id=1;http://y", "8;;", "8", "9;note", "9;", "777;notify;t;b",
	"777;notify;t", "777;x", "11;?", "10;?", "52;c;aGVsbG8=", "52;c;!!!", "52;c", "52", "4;1;?", "133;A", "", ";", "7;file://h/p", "99999;x"}

var dcss = []string{"q#0;2;0;0;0#0~~@@vv@@~~@@~~$-\x1b\\", "q\"1;1;4;6#1;2;100;0;0#1!4~-\x1b\\", "qgarbage\x1b\\", "q\x1b\\", "1;2q#0~\x1b\\",
	"$qm\x1b\\", "+q544e\x1b\\", "0;1|17/ab\x1b\\", ">|x\x1b\\"}

type gen struct {
	rng        *rand.Rand
	cols, rows int
}

func (g *gen) pick(l []string) string { return l[g.rng.Intn(len(l))] }

func (g *gen) param() string {
	switch g.rng.Intn(16) {
	case 0:
		return ""
	case 1:
		return "0"
	case 2:
		return "1"
	case 3:
		return "2"
	case 4:
		return fmt.Sprint(g.rows - 1)
	case 5:
		return fmt.Sprint(g.rows)
	case 6:
		return fmt.Sprint(g.rows + 1)
	case 7:
		return fmt.Sprint(g.cols - 1)
	case 8:
		return fmt.Sprint(g.cols)
	case 9:
		return fmt.Sprint(g.cols + 1)
	case 10, 11:
		return g.pick(huge)
	case 12:
		return fmt.Sprint(g.rng.Intn(300))
	}
	return fmt.Sprint(g.rng.Intn(12))
}

func (g *gen) params(max int) string {
	n := g.rng.Intn(max + 1)
	if g.rng.Intn(40) == 0 {
		n = 5 + g.rng.Intn(30)
	}
	parts := make([]string, n)
	for i := range parts {
		parts[i] = g.param()
		if g.rng.Intn(25) == 0 {
			parts[i] += ":" + g.param()
		}
	}
	return strings.Join(parts, ";")
}

func (g *gen) sgr() string {
	var parts []string
	for n := g.rng.Intn(4); n >= 0; n-- {
		switch g.rng.Intn(10) {
		case 0:
			parts = append(parts, fmt.Sprint(g.rng.Intn(110)))
		case 1:
			parts = append(parts, g.pick([]string{"38", "48", "58"})+";5;"+g.param())
		case 2:
			parts = append(parts, g.pick([]string{"38", "48", "58"})+";2;"+g.param()+";"+g.param()+";"+g.param())
		case 3:
			parts = append(parts, g.pick([]string{"38", "48", "58"})+":2::"+g.param()+":"+g.param()+":"+g.param())
		case 4:
			parts = append(parts, g.pick([]string{"38", "48", "58"})+g.pick([]string{"", ";", ";5", ";2", ";2;1", ":5", ":2:1", ":5:1:2:3:4:5:6:7", ";9;9"}))
		case 5:
			parts = append(parts, "4:"+g.param())
		case 6:
			parts = append(parts, g.param())
		default:
			parts = append(parts, fmt.Sprint([]int{0, 1, 2, 3, 4, 5, 7, 8, 9, 21, 22, 23, 24, 25, 27, 28, 29, 39, 49, 59}[g.rng.Intn(20)]))
		}
	}
	return "\x1b[" + strings.Join(parts, ";") + "m"
}

func (g *gen) text() string {
	var sb strings.Builder
	n := 1 + g.rng.Intn(g.cols+3)
	if g.rng.Intn(10) == 0 {
		n = g.cols*g.rows + g.rng.Intn(2*g.cols+1)
	}
	if n > 400 {
		n = 400
	}
	wideOnly := g.rng.Intn(6) == 0
	for i := 0; i < n; i++ {
		switch {
		case wideOnly:
			sb.WriteString(g.pick([]string{"世", "😀", "界"}))
		case g.rng.Intn(3) == 0:
			sb.WriteString(g.pick(texts))
		default:
			sb.WriteByte(byte('a' + g.rng.Intn(26)))
		}
	}
	return sb.String()
}

// item returns one unit of child output.
func (g *gen) item() string {
	switch x := g.rng.Intn(100); {
	case x < 22:
		return g.text()
	case x < 62:
		f := csiFinals[g.rng.Intn(len(csiFinals))]
		switch f {
		case 'm':
			return g.sgr()
		case 'h', 'l':
			if g.rng.Intn(3) > 0 {
				return "\x1b[?" + g.pick(decModes) + string(f)
			}
			if g.rng.Intn(2) == 0 {
				return "\x1b[" + g.pick(ansiModes) + string(f)
			}
			return "\x1b[" + g.pick([]string{"", "?", ">", "="}) + g.params(3) + string(f)
		}
		return "\x1b[" + g.params(3) + string(f)
	case x < 66:
		return "\x1b[" + g.pick([]string{"?", ">", "=", "<", ""}) + g.params(3) + g.pick([]string{" q", "$p", "c", "!p", "\"q", "t", "x", "i", "~", "v", " @", "'}", "*x", "y", "z", "{", "|"})
	case x < 76:
		return "\x1b" + g.pick(escSeqs)
	case x < 88:
		return string(c0s[g.rng.Intn(len(c0s))])
	case x < 94:
		return "\x1b]" + g.pick(oscs) + g.pick([]string{"\x07", "\x1b\\"})
	case x < 97:
		return "\x1bP" + g.pick(dcss)
	case x < 99:
		return "\x1b_" + g.pick([]string{"Gf=100;AAAA", "", "x"}) + "\x1b\\"
	}
	return g.pick([]string{"\x1bX text \x1b\\", "\x1b^pm\x1b\\", "\x1bOA", "\x9b5A", "\x90q\x9c", "\x1b[5;", "\x1b[", "\x1b]0;unterminated"}) + "Q"
}

var bigSizes = [][2]int{{80, 24}, {40, 10}, {132, 43}, {1, 50}, {50, 1}, {7, 5}, {16, 3}, {200, 2}}

func (g *gen) size(small bool) (int, int) {
	if !small && g.rng.Intn(8) == 0 {
		s := bigSizes[g.rng.Intn(len(bigSizes))]
		return s[0], s[1]
	}
	return 1 + g.rng.Intn(5), 1 + g.rng.Intn(4)
}

// Histories that set up the state conjunctions named in DESIGN.md: insert
// mode, origin mode, no-autowrap, tab stops, margins, alternate screen.
var setups = []string{"\x1b[4h", "\x1b[?6h", "\x1b[?7l", "\x1b[20h", "\x1bH", "\x1b[3g", "\x1b[2;3r", "\x1b[?1049h", "\x1b(0", "\x1b[?25l"}

// GenGrammar builds one grammar scenario of n steps.
func GenGrammar(rng *rand.Rand, n int, small bool) *Scn {
	g := &gen{rng: rng}
	g.cols, g.rows = g.size(small)
	sc := &Scn{Kind: "grammar", Cols: g.cols, Rows: g.rows}
	for k := rng.Intn(3); k > 0; k-- {
		sc.Steps = append(sc.Steps, W(g.pick(setups)))
	}
	for len(sc.Steps) < n {
		if rng.Intn(12) == 0 {
			g.cols, g.rows = g.size(small)
			sc.Steps = append(sc.Steps, R(g.cols, g.rows))
			continue
		}
		sc.Steps = append(sc.Steps, W(g.item()))
	}
	return sc
}

// Ways into and out of the alternate screen (xterm private modes 1049, 47,
// 1047, and 1048 for the cursor).
var altEnter = []string{"\x1b[?1049h", "\x1b[?1049h", "\x1b[?47h", "\x1b[?1047h", "\x1b[?1048h\x1b[?1047h"}
var altLeave = []string{"\x1b[?1049l", "\x1b[?1049l", "\x1b[?47l", "\x1b[?1047l", "\x1b[?1047l\x1b[?1048l"}

// GenAltResize builds a resize history on the alternate screen: the cursor
// is brought low on the primary screen (and saved there by the switch, or by
// DECSC), the alternate screen is entered, the terminal is resized several
// times (heights around the saved row: shrink below it, back above it, 1,
// larger than before) with output in between, and the primary screen is
// returned to and written on.
func GenAltResize(rng *rand.Rand) *Scn {
	g := &gen{rng: rng}
	g.cols, g.rows = 1+rng.Intn(8), 2+rng.Intn(9)
	sc := &Scn{Kind: "alt-resize", Cols: g.cols, Rows: g.rows}
	put := func(s string) { sc.Steps = append(sc.Steps, W(s)) }
	if rng.Intn(4) == 0 {
		t := 1 + rng.Intn(g.rows)
		put(fmt.Sprintf("\x1b[%d;%dr", t, t+rng.Intn(g.rows-t+2)))
	}
	saved := g.rows // 1-based row the cursor is left on
	switch rng.Intn(4) {
	case 0: // full screen, wrap pending in the last cell
		put(strings.Repeat("abcdefghij", (g.cols*g.rows+9)/10)[:g.cols*g.rows])
	case 1:
		put(strings.Repeat("x\r\n", g.rows-1+rng.Intn(3)))
	case 2:
		saved = g.rows - rng.Intn(2)
		put(fmt.Sprintf("\x1b[%d;%dH", saved, 1+rng.Intn(g.cols)))
	default:
		saved = 1 + rng.Intn(g.rows)
		put(fmt.Sprintf("\x1b[%d;%dH", saved, 1+rng.Intn(g.cols)))
		put(g.text())
	}
	if rng.Intn(3) == 0 {
		put("\x1b7")
	}
	way := rng.Intn(len(altEnter))
	put(altEnter[way])
	for k := rng.Intn(3); k > 0; k-- {
		put(g.item())
	}
	for n := 2 + rng.Intn(4); n > 0; n-- {
		h := []int{1, saved - 1, saved, saved + 1, g.rows, g.rows + 1 + rng.Intn(4), 1 + rng.Intn(12), 1 + rng.Intn(3)}[rng.Intn(8)]
		if h < 1 {
			h = 1
		}
		w := []int{g.cols, g.cols, 1 + rng.Intn(10), 1}[rng.Intn(4)]
		g.cols, g.rows = w, h
		sc.Steps = append(sc.Steps, R(w, h))
		if rng.Intn(3) == 0 {
			put([]string{"\x1b8", "\x1b7", "\n", "z", fmt.Sprintf("\x1b[%d;1H", h), g.item(), g.item()}[rng.Intn(7)])
		}
	}
	if rng.Intn(5) > 0 {
		if rng.Intn(4) == 0 {
			way = rng.Intn(len(altLeave))
		}
		put(altLeave[way])
	}
	put([]string{"\x1b8", "x", "\n\n", "\x1bM", "\x1b8x"}[rng.Intn(5)])
	if rng.Intn(2) == 0 {
		g.cols, g.rows = g.size(false)
		sc.Steps = append(sc.Steps, R(g.cols, g.rows))
		put(g.text())
	}
	for k := rng.Intn(4); k > 0; k-- {
		put(g.item())
	}
	return sc
}

var fuzzCtl = []byte("\x1b\x1b\x1b[[[]P_^X;;;::??>=<!\"$ '0123456789999hlmrABCDHJKLMPSTX@Zbcdfgnqsu\\\x07\x08\x09\x0a\x0d\x18\x9b\x9d\x90\x9c")

func fuzzBytes(rng *rand.Rand, n int) []byte {
	b := make([]byte, 0, n+1)
	for len(b) < n {
		switch x := rng.Intn(100); {
		case x < 45:
			b = append(b, fuzzCtl[rng.Intn(len(fuzzCtl))])
		case x < 75:
			b = append(b, byte(0x20+rng.Intn(0x5f)))
		case x < 83:
			b = append(b, byte(rng.Intn(0x20)))
		case x < 91:
			b = append(b, []byte(texts[rng.Intn(len(texts))])...)
		default:
			b = append(b, byte(rng.Intn(256)))
		}
	}
	if b[len(b)-1] == 0x1b {
		b = append(b, 'Q') // a trailing lone ESC would be decided by the parser's timer
	}
	return b
}

// GenFuzz builds one raw-byte scenario of about total bytes.
func GenFuzz(rng *rand.Rand, total int) *Scn {
	g := &gen{rng: rng}
	g.cols, g.rows = g.size(false)
	sc := &Scn{Kind: "fuzz", Cols: g.cols, Rows: g.rows}
	for total > 0 {
		n := 1 + rng.Intn(200)
		if n > total {
			n = total
		}
		total -= n
		sc.Steps = append(sc.Steps, Step{K: "w", B: fuzzBytes(rng, n)})
		if rng.Intn(5) == 0 {
			g.cols, g.rows = g.size(false)
			sc.Steps = append(sc.Steps, R(g.cols, g.rows))
		}
	}
	return sc
}

// Fixed are hand-written corner cases (DESIGN.md section 5, C05 "P").
func Fixed() []*Scn {
	f := func(kind string, cols, rows int, steps ...Step) *Scn {
		return &Scn{Kind: "fixed-" + kind, Cols: cols, Rows: rows, Steps: steps}
	}
	return []*Scn{
		f("cup-zero", 3, 3, W("\x1b[0;0H"), W("x")),
		f("irm-wide", 4, 2, W("\x1b[4h"), W("世")),
		f("stbm-over", 3, 3, W("\x1b[1;100r"), W("\x1b[50B"), W("x")),
		f("bs-row0", 3, 3, W("\x1b[2;3r"), W("\x1b[1;1H"), W("\x08"), W("x")),
		f("ri-row0", 3, 3, W("\x1b[2;3r"), W("\x1b[1;1H"), W("\x1bM"), W("x")),
		f("stbm-zero", 3, 3, W("\x1b[0;2r"), W("\n\n\n")),
		f("shrink-margin", 10, 8, W("\x1b[6;8r"), R(5, 3), W("\n\n\n\n"), W("\x1bM\x1bM\x1bM\x1bM")),
		f("tab-narrow", 3, 2, W("\t"), W("x"), W("\t\t\t")),
		f("rep-edge", 3, 2, W("abc"), W("\x1b[5b"), W("\x1b[1;3H\x1b[9b")),
		f("cnl-huge", 3, 3, W("\x1b[2147483647E"), W("\x1b[2147483647F")),
		f("neg-param", 4, 3, W("\x1b[18446744073709551615A"), W("x"), W("\x1b[18446744073709551615C"), W("x"),
			W("\x1b[9223372036854775808B"), W("x"), W("\x1b[18446744073709551615;18446744073709551615H"), W("x")),
		f("wide-1col", 1, 2, W("世"), W("a世b")),
		f("one-by-one", 1, 1, W("ab\r\n\x1b[2J\x1b[5@\x1b[5P\x1b[5L\x1b[5M\x1bM\x1bD世")),
		f("osc52-early", 4, 2, W("\x1b]52;c;aGVsbG8=\x07")),
		f("grow-shrink", 2, 2, W("abcd"), R(80, 24), W("\x1b[24;80Hx"), R(1, 1), W("y\n\x1bM")),
		f("alt-resize", 4, 3, W("\x1b[?1049h"), W("abc"), R(2, 2), W("\x1b[?1049l"), W("xyz\n\n")),
		f("alt-shrink-twice", 4, 6, W("\x1b[6;1H"), W("\x1b[?1049h"), R(4, 3), R(4, 5), W("\x1b[?1049l"), W("x")),
		f("alt-shrink-grow", 3, 5, W("a\r\nb\r\nc\r\nd\r\ne"), W("\x1b7\x1b[?1049h"), R(3, 2), W("z\x1b8"), R(2, 1), R(5, 9), W("\x1b[?1049l\x1b8"), W("x")),
		f("saved-shrink", 10, 8, W("\x1b[8;10H\x1b7"), R(3, 2), W("\x1b8"), W("x")),
		f("hts-dup", 6, 2, W("\x1b[1;3H\x1bH\x1bH\x1b[1;1H"), W("\t\t\t\t"), W("\x1b[Z\x1b[9Z\x1b[0Z")),
		f("decom", 5, 4, W("\x1b[2;3r\x1b[?6h"), W("\x1b[1;1H"), W("x\x1b[9;9H"), W("y")),
	}
}

// Ascii makes a message printable for the trace.
func Ascii(s string, max int) string { return ascii(s, max) }
