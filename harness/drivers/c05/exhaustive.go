package c05

import (
	"fmt"
	"strconv"
)

// Bounded-exhaustive enumeration on the real emulator, mirroring the
// alphabet of the exhaustive TLC model MC_EmuImpl: every function the
// emulator implements with every boundary parameter, plus resizes to every
// small size, from a few prepared start states.

func exParams(rows, cols int) []string {
	seen := map[string]bool{}
	var out []string
	for _, v := range []int{0, 1, 2, rows - 1, rows, rows + 1, cols - 1, cols, cols + 1, 65535} {
		if v < 0 {
			continue
		}
		s := strconv.Itoa(v)
		if v == 0 {
			s = ""
		}
		if !seen[s] {
			seen[s] = true
			out = append(out, s)
		}
	}
	return append(out, "0", "18446744073709551615", "9223372036854775807")
}

// ExAlphabet returns the steps of the enumeration for a rows x cols screen.
func ExAlphabet(rows, cols, maxR, maxC int, reduced bool) []Step {
	var a []Step
	for _, s := range []string{"\x08", "\t", "\n", "\r", "\x1bD", "\x1bE", "\x1bM", "\x1bH", "\x1b7", "\x1b8", "\x1bc",
		"\x1b[?1049h", "\x1b[?1049l", "\x1b[4h", "\x1b[4l", "\x1b[?7h", "\x1b[?7l", "\x1b[?6h", "\x1b[20h", "\x1b[g", "\x1b[3g", "\x07",
		"a", "世", "́", "ab世"} {
		a = append(a, W(s))
	}
	ps := exParams(rows, cols)
	two := []string{"", "1", "2", strconv.Itoa(rows), strconv.Itoa(rows + 1), "65535", "18446744073709551615"}
	if reduced {
		ps = []string{"", "2", strconv.Itoa(cols + 1), "65535", "18446744073709551615"}
		two = []string{"", "2", strconv.Itoa(rows + 1), "18446744073709551615"}
	}
	for _, f := range "@ABCDEFGILMPSTXZ`abde" {
		for _, p := range ps {
			a = append(a, W("\x1b["+p+string(f)))
		}
	}
	for _, f := range "JK" {
		for _, p := range []string{"", "0", "1", "2", "3"} {
			a = append(a, W("\x1b["+p+string(f)))
		}
	}
	for _, f := range "Hr" {
		for _, p := range two {
			for _, q := range two {
				a = append(a, W("\x1b["+p+";"+q+string(f)))
			}
		}
	}
	for r := 1; r <= maxR; r++ {
		for c := 1; c <= maxC; c++ {
			a = append(a, R(c, r))
		}
	}
	return a
}

// ExPrefixes are the prepared start states.
func ExPrefixes(rows, cols int) map[string][]Step {
	fill := ""
	for i := 0; i < rows*cols; i++ {
		fill += string(rune('a' + i%26))
	}
	p := map[string][]Step{
		"fresh": {},
		"full":  {W(fill)}, // ends with a wrap pending in the last cell
		"irm":   {W("\x1b[4h"), W(fill)},
		"noawm": {W("\x1b[?7l"), W(fill)},
		"alt":   {W(fill), W("\x1b7"), W("\x1b[?1049h")},
	}
	if rows >= 3 {
		p["region"] = []Step{W(fill), W("\x1b[2;" + strconv.Itoa(rows-1) + "r"), W("\x1b[2;1H")}
	}
	return p
}

// Exhaustive emits every sequence of exactly depth steps after the prefix.
func Exhaustive(rows, cols int, pname string, pre, alpha []Step, depth int, emit func(*Scn)) {
	idx := make([]int, depth)
	for {
		steps := append([]Step(nil), pre...)
		for _, i := range idx {
			steps = append(steps, alpha[i])
		}
		emit(&Scn{Kind: fmt.Sprintf("ex%d-%s", depth, pname), Cols: cols, Rows: rows, Steps: steps})
		k := depth - 1
		for k >= 0 {
			idx[k]++
			if idx[k] < len(alpha) {
				break
			}
			idx[k] = 0
			k--
		}
		if k < 0 {
			return
		}
	}
}

// AltResizes emits, for a rows x cols start screen whose primary screen is
// full (cursor on the last row, saved by the switch) and whose alternate
// screen is active, every sequence of exactly depth resizes over the sizes up
// to maxR x maxC, followed by the return to the primary screen, a restore
// cursor and some output. The saved cursor of the primary screen lies at or
// below the new height in most of them.
func AltResizes(rows, cols, maxR, maxC, depth int, emit func(*Scn)) {
	var alpha []Step
	for r := 1; r <= maxR; r++ {
		for c := 1; c <= maxC; c++ {
			alpha = append(alpha, R(c, r))
		}
	}
	pre := ExPrefixes(rows, cols)["alt"]
	tail := []Step{W("y"), W("\x1b[?1049l"), W("\x1b8"), W("x\n")}
	Exhaustive(rows, cols, "alt", pre, alpha, depth, func(sc *Scn) {
		sc.Kind = fmt.Sprintf("exr%d-alt", depth)
		sc.Steps = append(sc.Steps, tail...)
		emit(sc)
	})
}
