package c05

import (
	"git.sr.ht/~rockorager/vaxis/ansi"
	"git.sr.ht/~rockorager/vaxis/widgets/term"
)

// The implementation-shaped model specs/emu/EmuImpl.tla is conformance-
// checked against the real emulator (EmuImpl_Trace.tla): every parsed
// sequence is also named in the model's vocabulary. f = "nop" for sequences
// that do not touch cursor, margins, modes or tab stops, "?" for those the
// model does not cover (the model then re-synchronises from the observation).
// This mapping mirrors the emulator's dispatch tables; it takes no part in
// any verdict.

const maxParam = 65535

func clamp(p int) int {
	if p < 0 || p > maxParam {
		return maxParam
	}
	return p
}

var csiModel = map[string]string{"@": "ich", "A": "cuu", "B": "cud", "C": "cuf", "D": "cub", "E": "cnl", "F": "cpl", "G": "cha",
	"H": "cup", "f": "cup", "I": "cht", "J": "ed", "K": "el", "L": "il", "M": "dl", "P": "dch", "S": "su", "T": "sd", "X": "ech",
	"Z": "cbt", "`": "hpa", "a": "hpr", "b": "rep", "d": "vpa", "e": "vpr", "g": "tbc", "r": "decstbm", "s": "decsc", "u": "decrc"}

var escModel = map[string]string{"7": "decsc", "8": "decrc", "D": "ind", "E": "nel", "H": "hts", "M": "ri", "c": "ris"}

// ModelOp names seq in the vocabulary of EmuImpl.
func ModelOp(seq ansi.Sequence, st term.VerifState) (f string, p, q int) {
	switch seq := seq.(type) {
	case ansi.Print:
		if seq.Width < 0 || seq.Width > 2 {
			return "?", 0, 0
		}
		return "print", seq.Width, 0
	case ansi.C0:
		switch rune(seq) {
		case 0x08:
			return "bs", 0, 0
		case 0x09:
			return "ht", 0, 0
		case 0x0a, 0x0b, 0x0c:
			if st.LNM {
				return "?", 0, 0
			}
			return "lf", 0, 0
		case 0x0d:
			return "cr", 0, 0
		}
		return "nop", 0, 0
	case ansi.ESC:
		if f, ok := escModel[string(seq.Intermediate)+string(seq.Final)]; ok {
			return f, 0, 0
		}
		return "nop", 0, 0
	case ansi.CSI:
		key := string(seq.Intermediate) + string(seq.Final)
		if len(seq.Parameters) > 0 {
			p = clamp(seq.Parameters[0][0])
		}
		if len(seq.Parameters) > 1 {
			q = clamp(seq.Parameters[1][0])
		}
		if f, ok := csiModel[key]; ok {
			if key == "T" && len(seq.Parameters) == 5 {
				return "nop", 0, 0
			}
			return f, p, q
		}
		switch key {
		case "h", "l", "?h", "?l":
			if len(seq.Parameters) != 1 {
				if len(seq.Parameters) == 0 {
					return "nop", 0, 0
				}
				return "?", 0, 0
			}
			on := 0
			if seq.Final == 'h' {
				on = 1
			}
			mode := seq.Parameters[0][0]
			switch {
			case key[0] != '?' && mode == 4:
				return "irm", on, 0
			case key[0] != '?' && mode == 20:
				return "?", 0, 0
			case key[0] == '?' && mode == 7:
				return "awm", on, 0
			case key[0] == '?' && mode == 1049 && on == 1:
				return "alton", 0, 0
			case key[0] == '?' && mode == 1049:
				return "altoff", 0, 0
			case key[0] == '?' && (mode == 47 || mode == 1047 || mode == 1048):
				return "?", 0, 0 // xterm's other screen-switching / cursor-saving modes: outside the model
			}
			return "nop", 0, 0
		}
		return "nop", 0, 0
	}
	return "nop", 0, 0
}

// modelObs adds to an observation what the model needs to re-synchronise.
func modelObs(o map[string]any, st term.VerifState, lastTabs *[]int) {
	o["awm"], o["irm"], o["alt"] = st.DECAWM, st.IRM, st.Alt
	b := func(x bool) int {
		if x {
			return 1
		}
		return 0
	}
	o["sp"] = []int{st.SavedPri.Row, st.SavedPri.Col, b(st.SavedPriAWM)}
	o["sa"] = []int{st.SavedAlt.Row, st.SavedAlt.Col, b(st.SavedAltAWM)}
	same := lastTabs != nil && *lastTabs != nil && len(*lastTabs) == len(st.TabStops)
	if same {
		for i, t := range st.TabStops {
			if (*lastTabs)[i] != t {
				same = false
				break
			}
		}
	}
	if !same {
		t := append([]int{}, st.TabStops...)
		o["tabs"] = t
		*lastTabs = t
	}
}
