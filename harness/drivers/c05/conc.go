package c05

import (
	"fmt"
	"os/exec"
	"strings"
	"time"

	"git.sr.ht/~rockorager/vaxis"
	"git.sr.ht/~rockorager/vaxis/widgets/term"

	"verif/harness/trace"
)

// ConcD: resizes interleaved with child output by the scheduler, not by the
// driver. A real child on a real PTY writes lines without pause while the
// host calls Resize N times, cycling through Sizes (cols, rows); then the
// host sends a key, on which the child stops writing and prints a marker.
// The stream was processed iff the marker reaches the screen.
type ConcD struct {
	N     int
	Sizes [][2]int
}

// the child: writes "y" lines until it can read a line from the terminal
const concScript = `yes y & read x; kill $!; wait $! 2>/dev/null; printf ` + marker

func screenHas(vt *term.Model, what string, bound time.Duration) bool {
	deadline := time.Now().Add(bound)
	for time.Now().Before(deadline) {
		res := make(chan string, 1)
		go func() { res <- vt.String() }() // blocks for ever if the emulator is stuck with its lock held
		select {
		case s := <-res:
			if strings.Contains(s, what) {
				return true
			}
		case <-time.After(time.Until(deadline)):
		}
		time.Sleep(5 * time.Millisecond)
	}
	return false
}

// concAttempt runs the child once. started = the child's output reached the
// screen before the first resize; hostPanic = a Resize call panicked; hung =
// a Resize call did not return; done = the marker reached the screen.
func concAttempt(d *ConcD, bound time.Duration) (started, done, hung bool, hostPanic string) {
	vt := term.New()
	vt.Attach(func(vaxis.Event) {})
	cmd := exec.Command("/bin/sh", "-c", concScript)
	if err := vt.StartWithSize(cmd, 20, 4); err != nil {
		panic("pty start: " + err.Error())
	}
	defer func() {
		if cmd.Process != nil {
			cmd.Process.Kill()
		}
		go vt.Close()
	}()
	if !screenHas(vt, "y", bound) {
		return false, false, false, ""
	}
	fin := make(chan string, 1)
	go func() {
		defer func() {
			if r := recover(); r != nil {
				fin <- "panic: " + fmt.Sprint(r)
			}
		}()
		for i := 0; i < d.N; i++ {
			s := d.Sizes[i%len(d.Sizes)]
			vt.Resize(s[0], s[1])
		}
		vt.Resize(20, 4)
		fin <- ""
	}()
	select {
	case msg := <-fin:
		if msg != "" {
			return true, false, false, msg
		}
	case <-time.After(4 * bound):
		return true, false, true, ""
	}
	// the key that ends the child's output; repeated because it is lost if the child has not yet reached its read
	for k := 0; k < 3; k++ {
		go vt.Update(vaxis.Key{Keycode: vaxis.KeyEnter})
		if screenHas(vt, marker, bound/3) {
			return true, true, false, ""
		}
	}
	return true, false, false, ""
}

// FreshObs is the EmuSafe observation of a fresh cols x rows emulator.
func FreshObs(cols, rows int) map[string]any {
	return map[string]any{"r": 0, "c": 0, "lc": false, "top": 0, "bot": rows - 1, "left": 0, "right": cols - 1,
		"hs": []int{rows, rows, rows}, "ws": []int{cols}}
}

// ConcEv is the observation of a concurrent-resize run.
func ConcEv(n int, done bool, tries int, how string) trace.Ev {
	return trace.Ev{"ev": "conc", "k": "conc:resize", "n": n, "done": done, "tries": tries, "how": ascii(how, 120)}
}

// RunConc executes the scenario on the real PTY goroutine. A run whose
// marker does not arrive within a generous bound is repeated once before it
// is reported, so that scheduling noise cannot produce a verdict.
func RunConc(sc *Scn) (evs []trace.Ev, note string) {
	d := sc.Conc
	evs = append(evs, trace.Ev{"ev": "reset", "rows": 4, "cols": 20, "o": FreshObs(20, 4)})
	var started, done, hung bool
	var msg string
	tries := 0
	for tries < 2 && !done {
		tries++
		started, done, hung, msg = concAttempt(d, 6*time.Second)
		if !started {
			// the child never wrote anything: not an observation of the emulator
			return evs, "child produced no output"
		}
	}
	// one observation whatever the way the processing ended (which way it is depends on the schedule)
	how := ""
	switch {
	case done:
	case msg != "":
		how = msg
	case hung:
		how = "a Resize call did not return"
	default:
		how = "child output no longer processed"
	}
	evs = append(evs, ConcEv(d.N, done, tries, how))
	note = how
	return evs, note
}

// ConcScenarios: size cycles that shrink and grow the screen under the
// child's cursor.
func ConcScenarios(thorough bool) []*Scn {
	mk := func(n int, sizes ...[2]int) *Scn {
		return &Scn{Kind: "conc", Cols: 20, Rows: 4, Conc: &ConcD{N: n, Sizes: sizes}}
	}
	out := []*Scn{mk(1500, [2]int{80, 24}, [2]int{79, 24}, [2]int{80, 5}, [2]int{3, 30})}
	if thorough {
		out = append(out,
			mk(5000, [2]int{80, 24}, [2]int{79, 24}, [2]int{80, 5}, [2]int{3, 30}),
			mk(5000, [2]int{1, 1}, [2]int{40, 12}, [2]int{3, 2}, [2]int{20, 6}),
			mk(5000, [2]int{20, 4}, [2]int{20, 3}),
			mk(20000, [2]int{10, 10}, [2]int{2, 2}))
	}
	return out
}
