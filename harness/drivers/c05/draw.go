package c05

import (
	"fmt"
	"math/rand"

	"git.sr.ht/~rockorager/vaxis"

	"verif/harness/drivers/emu"
	"verif/harness/responder"
	"verif/harness/sess"
	"verif/harness/termcmd"
	"verif/harness/trace"
)

// DrawD describes drawing the emulator into a window of a host screen: the
// host is HW x HH cells and entirely filled with a sentinel cell; the window
// is created with Window.New(X, Y, W, H) (inside an intermediate window at
// (PX, PY) when Nested). Steps2 is written between a first and a second Draw.
type DrawD struct {
	HW, HH     int
	X, Y, W, H int
	Nested     bool   `json:",omitempty"`
	PX, PY     int    `json:",omitempty"`
	Focus      bool   `json:",omitempty"`
	Steps2     []Step `json:",omitempty"`
}

// drawCaps: a terminal that measures text as the emulator's parser does
// (Unicode core), with RGB and styled underlines, no graphics.
const drawMask = 1 | 2 | 1<<8 | 1<<9

func clip(lo, n, max int) (int, int) { // [lo, lo+n) within [0, max)
	hi := lo + n
	if lo < 0 {
		lo = 0
	}
	if hi > max {
		hi = max
	}
	if hi < lo {
		hi = lo
	}
	return lo, hi
}

// RunDraw executes a draw scenario. Events are RefTerm commands lexed from
// the host's console output plus "drawn" events.
func RunDraw(g, l *trace.Interner, sc *Scn) (evs []trace.Ev, note string) {
	d := sc.Draw
	vt := emu.New(sc.Cols, sc.Rows)
	feed := func(steps []Step) string {
		for _, st := range steps {
			switch st.K {
			case "r":
				vt.Resize(st.Cols, st.Rows)
			case "w":
				if msg := emu.Feed(vt, emu.Parse(st.B), nil); msg != "" {
					return msg
				}
			}
		}
		return ""
	}
	caps := responder.FromMask(drawMask, false)
	evs = append(evs, trace.Ev{"ev": "reset", "rows": d.HH, "cols": d.HW, "xw": caps.ExplicitWidth})
	defer func() {
		if r := recover(); r != nil {
			note = fmt.Sprintf("panic: %v", r)
			evs = append(evs, trace.Ev{"ev": "panic", "k": "draw", "msg": ascii(fmt.Sprint(r), 120)})
		}
	}()
	if msg := feed(sc.Steps); msg != "" {
		// not this family's business: the state family reports panics in feeding
		return append(evs, trace.Ev{"ev": "skip"}), "skip: " + msg
	}
	s, err := sess.Start(sess.Config{Caps: caps, Cols: d.HW, Rows: d.HH})
	if err != nil {
		return append(evs, trace.Ev{"ev": "skip"}), "start: " + err.Error()
	}
	defer s.Vx.Close()
	cv := termcmd.NewConv(g, l, caps.UnicodeCore, caps.ExplicitWidth)
	evs = append(evs, cv.Feed(s.Startup)...)
	sent := vaxis.Cell{Character: vaxis.Character{Grapheme: "S", Width: 1},
		Style: vaxis.Style{Foreground: vaxis.IndexColor(3), Background: vaxis.IndexColor(4)}}
	host := s.Vx.Window()
	host.Fill(sent)
	s.Vx.Render()
	evs = append(evs, cv.Feed(s.Con.Take())...)
	sentT := append([]int{g.ID("S")}, emu.Pen(sent.Style)...)

	parent := host
	ox, oy, pw, ph := 0, 0, d.HW, d.HH
	if d.Nested {
		parent = host.New(d.PX, d.PY, -1, -1)
		ox, oy = d.PX, d.PY
		pw, ph = d.HW-d.PX, d.HH-d.PY
	}
	win := parent.New(d.X, d.Y, d.W, d.H)
	// the window's extent by the documented rule of Window.New: a size that is
	// negative or reaches past the parent is cut at the parent's edge
	w, h := d.W, d.H
	if w < 0 || d.X+w > pw {
		w = pw - d.X
	}
	if h < 0 || d.Y+h > ph {
		h = ph - d.Y
	}
	x0, x1 := clip(ox+d.X, w, d.HW)
	y0, y1 := clip(oy+d.Y, h, d.HH)
	if d.Focus {
		vt.Focus()
	}
	draw := func() {
		vt.Draw(win)
		s.Vx.Render()
		evs = append(evs, cv.Feed(s.Con.Take())...)
		evs = append(evs, trace.Ev{"ev": "drawn", "rect": []int{x0, y0, x1, y1}, "sent": sentT, "w": w, "h": h,
			"focus": d.Focus, "o": Obs(vt.VerifSnapshot())})
	}
	draw()
	if len(d.Steps2) > 0 {
		if msg := feed(d.Steps2); msg != "" {
			return append(evs, trace.Ev{"ev": "skip"}), "skip: " + msg
		}
		draw()
	}
	return evs, ""
}

var drawTexts = []string{"a", "b", "c", "x", "y", "z", " ", "世", "界", "😀", "é"}

// GenDraw builds one draw scenario: a short, well-behaved emulator history
// (text whose width every Unicode-core terminal agrees on, cursor movement,
// erasing, scrolling, insert/delete) and a window geometry.
func GenDraw(rng *rand.Rand) *Scn {
	g := &gen{rng: rng}
	g.cols, g.rows = 1+rng.Intn(8), 1+rng.Intn(5)
	sc := &Scn{Kind: "draw", Cols: g.cols, Rows: g.rows}
	hist := func(n int) []Step {
		var st []Step
		for i := 0; i < n; i++ {
			switch x := rng.Intn(10); {
			case x < 5:
				s := ""
				for k := 1 + rng.Intn(g.cols*2); k > 0; k-- {
					s += drawTexts[rng.Intn(len(drawTexts))]
				}
				st = append(st, W(s))
			case x < 8:
				f := "@ABCDHJKLMPSTXdG"[rng.Intn(16)]
				st = append(st, W("\x1b["+g.params(2)+string(f)))
			case x < 9:
				st = append(st, W([]string{"\r\n", "\n", "\x1bM", "\x1b[?7l", "\x1b[4h", "\x1b[?1049h", "\x1b[41m", "\x1b[?25l", "\x1b[2 q",
					"\x1bPq#0;2;0;0;0#0~~@@vv@@~~@@~~$-\x1b\\"}[rng.Intn(10)]))
			default:
				st = append(st, W(g.sgr()))
			}
		}
		return st
	}
	sc.Steps = hist(rng.Intn(12))
	d := &DrawD{HW: 2 + rng.Intn(11), HH: 2 + rng.Intn(6), Focus: rng.Intn(3) > 0}
	if rng.Intn(4) == 0 {
		d.Nested = true
		d.PX, d.PY = rng.Intn(d.HW-1), rng.Intn(d.HH-1)
	}
	pw, ph := d.HW-d.PX, d.HH-d.PY
	d.X, d.Y = rng.Intn(pw), rng.Intn(ph)
	switch rng.Intn(4) {
	case 0: // reaches past the parent: cut by Window.New
		d.W, d.H = pw-d.X+rng.Intn(3), ph-d.Y+rng.Intn(3)
	case 1:
		d.W, d.H = -1, -1
	default:
		d.W, d.H = 1+rng.Intn(pw-d.X), 1+rng.Intn(ph-d.Y)
	}
	if rng.Intn(2) == 0 {
		d.Steps2 = hist(1 + rng.Intn(6))
	}
	sc.Draw = d
	return sc
}
