package c19

import (
	"fmt"
	"math/rand"
	"sort"
	"strings"
	"sync"

	"github.com/rivo/uniseg"
)

// ---- measured coverage ---------------------------------------------------

type Cov struct {
	mu      sync.Mutex
	ops     map[string]int
	dynCfg  map[string]bool
	lstCfg  map[string]bool
	pgTexts map[string]bool
	pgCfg   map[string]bool
	counts  map[string]int
}

func NewCov() *Cov {
	return &Cov{ops: map[string]int{}, dynCfg: map[string]bool{}, lstCfg: map[string]bool{}, pgTexts: map[string]bool{},
		pgCfg: map[string]bool{}, counts: map[string]int{}}
}

func (c *Cov) op(w, k string) {
	c.mu.Lock()
	c.ops[w+"."+k]++
	c.mu.Unlock()
}

func (c *Cov) dynDraw(sc *Scn, op Op, n int, sel bool, kids [][]int, cursor, before int, idle bool) {
	c.mu.Lock()
	defer c.mu.Unlock()
	c.ops["dyn.draw"]++
	if n > 0 && before >= n {
		c.counts["dyn_draws_with_selected_index_beyond_the_items"]++
	}
	if idle {
		c.counts["dyn_draws_directly_after_a_draw"]++
	}
	c.dynCfg[fmt.Sprintf("n%d gap%d H%d cur%v", n, sc.Gap, op.H, sc.Cursor)] = true
	if sel {
		c.counts["dyn_draws_after_selection_change"]++
	}
	if n == 0 {
		c.counts["dyn_draws_empty_list"]++
	}
	for _, k := range kids {
		if k[1] < 0 {
			c.counts["dyn_draws_with_item_scrolled_partly_above"]++
			break
		}
	}
	span := 0
	for _, k := range kids {
		span += k[2] + sc.Gap
	}
	if span > 65535 {
		c.counts["dyn_draws_whose_items_span_more_than_65535_rows"]++
	}
	for _, k := range kids {
		if k[0] == cursor && k[1]+k[2] > op.H && k[1] < op.H {
			c.counts["dyn_draws_selected_item_cut_at_bottom"]++
		}
		if k[0] == cursor && k[2] > op.H {
			c.counts["dyn_draws_selected_item_taller_than_viewport"]++
		}
	}
}

func (c *Cov) lstDraw(op Op, n int, sel bool) {
	c.mu.Lock()
	defer c.mu.Unlock()
	c.ops["lst.draw"]++
	c.lstCfg[fmt.Sprintf("n%d w%d h%d", n, op.W, op.H)] = true
	if sel {
		c.counts["lst_draws_after_selection_change"]++
	}
	if n == 0 {
		c.counts["lst_draws_empty_list"]++
	}
}

func (c *Cov) pgDraw(sc *Scn, op Op, off int) {
	c.mu.Lock()
	defer c.mu.Unlock()
	c.ops["pg.draw"]++
	t := strings.Join(sc.Text, "")
	c.pgTexts[t] = true
	c.pgCfg[fmt.Sprintf("w%d h%d", op.W, op.H)] = true
	if off > 0 {
		c.counts["pg_draws_scrolled"]++
	}
	if t != "" && !strings.HasSuffix(t, "\n") {
		c.counts["pg_draws_unterminated_last_line"]++
	}
	if op.W > 0 {
		// lines that fill the window width exactly (once or several times over) and have a terminator
		lines := strings.Split(t, "\n")
		for i, ln := range lines[:len(lines)-1] {
			crlf := strings.HasSuffix(ln, "\r")
			lw := uniseg.StringWidth(strings.TrimSuffix(ln, "\r"))
			if lw == 0 || lw%op.W != 0 {
				continue
			}
			c.counts["pg_draws_terminated_line_of_exactly_k_window_widths"]++
			if lw > op.W {
				c.counts["pg_draws_terminated_line_of_exactly_k_window_widths_k_above_1"]++
			}
			if crlf {
				c.counts["pg_draws_terminated_line_of_exactly_k_window_widths_crlf"]++
			}
			if strings.ContainsAny(ln, "世界") && (strings.HasSuffix(strings.TrimSuffix(ln, "\r"), "世") || strings.HasSuffix(strings.TrimSuffix(ln, "\r"), "界")) {
				c.counts["pg_draws_terminated_line_wide_character_ends_at_the_edge"]++
			}
			if i+1 < len(lines)-1 || lines[len(lines)-1] != "" {
				c.counts["pg_draws_terminated_line_of_exactly_k_window_widths_then_more_text"]++
			}
		}
	}
}

func (c *Cov) Report() map[string]any {
	c.mu.Lock()
	defer c.mu.Unlock()
	keys := func(m map[string]bool) []string {
		out := make([]string, 0, len(m))
		for k := range m {
			out = append(out, k)
		}
		sort.Strings(out)
		return out
	}
	return map[string]any{"operations": c.ops, "counts": c.counts,
		"dyn_distinct_draw_configs": len(c.dynCfg), "lst_distinct_draw_configs": keys(c.lstCfg),
		"pg_distinct_texts": len(c.pgTexts), "pg_distinct_windows": keys(c.pgCfg)}
}

// ---- helpers ------------------------------------------------------------------

// seqs calls f with every sequence over alpha of length 0..maxLen.
func seqs(alpha []Op, maxLen int, f func([]Op)) {
	var rec func(prefix []Op)
	rec = func(prefix []Op) {
		f(append([]Op(nil), prefix...))
		if len(prefix) == maxLen {
			return
		}
		for _, a := range alpha {
			rec(append(prefix, a))
		}
	}
	rec(nil)
}

func endsWithDraw(ops []Op) bool { return len(ops) > 0 && ops[len(ops)-1].K == "draw" }

// ---- vxfw/list.Dynamic ------------------------------------------------------------

func heightPatterns(n int, thorough bool) [][]int {
	mk := func(f func(i int) int) []int {
		hs := make([]int, n)
		for i := range hs {
			hs[i] = f(i)
		}
		return hs
	}
	out := [][]int{mk(func(int) int { return 1 }), mk(func(i int) int { return 1 + i%3 })}
	if thorough {
		out = append(out, mk(func(i int) int { return 3 - i%3 }))
	}
	if n == 0 {
		return out[:1]
	}
	return out
}

func dynAlphabet(n, H int) []Op {
	a := []Op{{K: "next"}, {K: "prev"}, {K: "wheeldown"}, {K: "wheelup"}, {K: "pending", A: -2}, {K: "pending", A: 1},
		{K: "draw", W: 5, H: H}, {K: "replace", Hs: []int{2, 1}}, {K: "replace", Hs: []int{1, 3, 1, 2, 2, 1}}}
	if n > 0 {
		a = append(a, Op{K: "setcursor", A: 0}, Op{K: "setcursor", A: n - 1})
	}
	a = append(a, Op{K: "setcursorabs", A: n + 1}) // beyond the last item
	return a
}

func genDyn(rng *rand.Rand, thorough bool) []*Scn {
	var out []*Scn
	expand := func(ns, Hs []int, rich bool, maxLen int) {
		for _, n := range ns {
			for _, hs := range heightPatterns(n, rich) {
				for gap := 0; gap <= 1; gap++ {
					for _, H := range Hs {
						for _, cur := range []bool{false, true} {
							seqs(dynAlphabet(n, H), maxLen, func(ops []Op) {
								if len(ops) < maxLen-1 && maxLen > 3 {
									return // the shorter ones come from the broader sweep
								}
								if !endsWithDraw(ops) {
									ops = append(ops, Op{K: "draw", W: 5, H: H})
								}
								out = append(out, &Scn{Kind: "dyn-exhaustive", Widget: "dyn", Hs: hs, Gap: gap, Cursor: cur, Ops: ops})
							})
						}
					}
				}
			}
		}
	}
	if thorough {
		expand([]int{0, 1, 2, 3, 4}, []int{0, 2, 4}, true, 3)
		expand([]int{2, 3}, []int{1, 3}, false, 4)
	} else {
		expand([]int{0, 1, 3}, []int{1, 3}, false, 3)
	}
	// long lists in a tall viewport: the selection jumps far down and back, then a scroll overshoots either end;
	// with a gap and the top widget well inside the list the insertion and snap-to-end paths are reached
	bigAlphabet := func(n, H int) []Op {
		return []Op{{K: "setcursor", A: n - 3}, {K: "setcursor", A: 3}, {K: "pending", A: -100}, {K: "pending", A: 100}, {K: "pending", A: 4},
			{K: "wheelup"}, {K: "draw", W: 5, H: H}}
	}
	bigLen := 4
	for _, hs := range [][]int{{1, 1, 1, 1, 1, 1, 1, 1, 1, 1, 1, 1, 1, 1, 1, 1}, {1, 2, 1, 2, 1, 2, 1, 2, 1, 2, 1, 2, 1, 2}, {2, 2, 2, 2, 2, 2, 2, 2, 2, 2, 2, 2}} {
		for gap := 0; gap <= 2; gap++ {
			for _, H := range []int{10, 11} {
				if !thorough && (gap == 0 || (H == 10) != (hs[0] == 2)) {
					continue // quick: gapped lists only, one viewport per height pattern
				}
				seqs(bigAlphabet(len(hs), H), bigLen, func(ops []Op) {
					if len(ops) < bigLen || ops[0].K == "draw" {
						return
					}
					// a frame after every operation: the widget records its anchor while drawing
					var full []Op
					for _, o := range ops {
						full = append(full, o)
						if o.K != "draw" {
							full = append(full, Op{K: "draw", W: 5, H: H})
						}
					}
					full = append(full, Op{K: "draw", W: 5, H: H})
					out = append(out, &Scn{Kind: "dyn-big", Widget: "dyn", Hs: hs, Gap: gap, Cursor: gap == 1, Ops: full})
				})
			}
		}
	}
	// very tall items ("any item heights": a height is a 16-bit count of rows): the rows above the viewport add up to
	// more than 65535 and a scroll far beyond the first item (as many wheel events before one frame) brings the list
	// back to its start. The gutter cursor is only drawn beside a short item (it allocates width x height cells).
	for _, hs := range [][]int{{30000, 30000, 5536, 1, 1, 1, 1, 1}, {40000, 40000, 1, 1, 1}, {65535, 1, 2, 1, 1, 1}, {21846, 21846, 21846, 1, 1, 1, 1},
		{32768, 1, 32767, 2, 2, 2}} {
		for gap := 0; gap <= 1; gap++ {
			n, H := len(hs), 4
			dr := Op{K: "draw", W: 5, H: H}
			for v, ops := range [][]Op{
				{{K: "setcursor", A: n - 1}, dr, {K: "pending", A: -100000}, dr, dr, {K: "next"}, dr},
				{{K: "setcursor", A: n - 1}, dr, {K: "pending", A: -65537}, dr, {K: "wheeldown"}, dr, {K: "wheelup"}, dr},
				{{K: "setcursor", A: n - 2}, dr, {K: "wheelup"}, dr, {K: "pending", A: -70000}, dr, {K: "setcursor", A: n - 1}, dr, {K: "pending", A: -200000}, dr, dr},
				{{K: "pending", A: 70000}, dr, {K: "pending", A: 70000}, dr, {K: "pending", A: -140000}, dr, dr},
			} {
				out = append(out, &Scn{Kind: "dyn-tall", Widget: "dyn", Hs: hs, Gap: gap, Cursor: v == 0 && gap == 1, Ops: ops})
			}
		}
	}
	// long random histories: more items, key events, viewport changes, tall items
	nrand := 3000
	if thorough {
		nrand = 20000
	}
	for i := 0; i < nrand; i++ {
		big := i%4 == 3 // a quarter: long lists, tall viewports, scrolls past either end
		n := rng.Intn(9)
		if big {
			n = 10 + rng.Intn(15)
		}
		hs := make([]int, n)
		for j := range hs {
			hs[j] = 1 + rng.Intn(4)
			if big {
				hs[j] = 1 + rng.Intn(2)
			}
			if rng.Intn(8) == 0 {
				hs[j] = 5 + rng.Intn(4)
			}
		}
		sc := &Scn{Kind: "dyn-random", Widget: "dyn", Hs: hs, Gap: rng.Intn(3), Cursor: rng.Intn(2) == 0}
		H := rng.Intn(7)
		if big {
			H = 5 + rng.Intn(10)
		}
		for k, m := 0, 4+rng.Intn(20); k < m; k++ {
			var op Op
			switch x := rng.Intn(20); {
			case x < 4:
				op = Op{K: pick(rng, []string{"next", "keyj", "keydown"})}
			case x < 7:
				op = Op{K: pick(rng, []string{"prev", "keyk", "keyup"})}
			case x < 9:
				op = Op{K: "wheeldown"}
			case x < 11:
				op = Op{K: "wheelup"}
			case x < 12:
				op = Op{K: "pending", A: rng.Intn(13) - 6}
				if big && rng.Intn(2) == 0 {
					op.A = (rng.Intn(2)*2 - 1) * (20 + rng.Intn(100))
				}
			case x < 13 && n > 0 && rng.Intn(4) > 0:
				op = Op{K: "setcursor", A: rng.Intn(n)}
			case x < 13:
				op = Op{K: "setcursorabs", A: rng.Intn(n + 4)} // a quarter of the set-cursors: any index up to 3 beyond the end
			case x < 14:
				n = rng.Intn(9)
				if big && rng.Intn(2) == 0 {
					n = 5 + rng.Intn(15)
				}
				nh := make([]int, n)
				for j := range nh {
					nh[j] = 1 + rng.Intn(4)
				}
				op = Op{K: "replace", Hs: nh}
			case x < 15:
				H = rng.Intn(7)
				op = Op{K: "draw", W: rng.Intn(6), H: H}
			default:
				op = Op{K: "draw", W: 5, H: H}
			}
			sc.Ops = append(sc.Ops, op)
		}
		sc.Ops = append(sc.Ops, Op{K: "draw", W: 5, H: H})
		out = append(out, sc)
	}
	return out
}

func pick[T any](r *rand.Rand, xs []T) T { return xs[r.Intn(len(xs))] }

// ---- widgets/list ---------------------------------------------------------------------

func genLst(rng *rand.Rand, thorough bool) []*Scn {
	var out []*Scn
	const cols, rows = 5, 4
	sweep := func(ns []int, sizes [][2]int, maxLen int, only int) {
		for _, n := range ns {
			for _, sz := range sizes {
				w, h := sz[0], sz[1]
				alpha := []Op{{K: "down"}, {K: "up"}, {K: "home"}, {K: "end"}, {K: "pagedown", W: w, H: h}, {K: "pageup", W: w, H: h},
					{K: "setitems", N: 0}, {K: "setitems", N: -1}, {K: "setitems", N: 2}, {K: "setitems", N: 5}, {K: "draw", W: w, H: h}}
				seqs(alpha, maxLen, func(ops []Op) {
					if only > 0 && len(ops) != only {
						return
					}
					if !endsWithDraw(ops) {
						ops = append(ops, Op{K: "draw", W: w, H: h})
					}
					out = append(out, &Scn{Kind: "lst-exhaustive", Widget: "lst", Cols: cols, Rows: rows, N: n, Ops: ops})
				})
			}
		}
	}
	if thorough {
		sweep([]int{-1, 0, 1, 2, 5}, [][2]int{{4, 0}, {4, 1}, {4, 2}, {4, 3}, {0, 2}, {1, 2}}, 2, 0)
		sweep([]int{0, 3}, [][2]int{{4, 1}, {4, 2}}, 3, 3)
	} else {
		sweep([]int{-1, 0, 1, 3}, [][2]int{{4, 0}, {4, 1}, {4, 2}}, 2, 0)
	}
	nrand := 400
	if thorough {
		nrand = 3000
	}
	for i := 0; i < nrand; i++ {
		sc := &Scn{Kind: "lst-random", Widget: "lst", Cols: 6, Rows: 5, N: rng.Intn(14) - 1}
		w, h := rng.Intn(7), rng.Intn(6)
		for k, m := 0, 3+rng.Intn(16); k < m; k++ {
			var op Op
			switch x := rng.Intn(20); {
			case x < 4:
				op = Op{K: "down"}
			case x < 7:
				op = Op{K: "up"}
			case x < 8:
				op = Op{K: "home"}
			case x < 9:
				op = Op{K: "end"}
			case x < 11:
				op = Op{K: "pagedown", W: w, H: h}
			case x < 13:
				op = Op{K: "pageup", W: w, H: h}
			case x < 15:
				op = Op{K: "setitems", N: rng.Intn(14) - 1}
			case x < 16:
				w, h = rng.Intn(7), rng.Intn(6)
				op = Op{K: "draw", W: w, H: h}
			default:
				op = Op{K: "draw", W: w, H: h}
			}
			sc.Ops = append(sc.Ops, op)
		}
		sc.Ops = append(sc.Ops, Op{K: "draw", W: w, H: h})
		out = append(out, sc)
	}
	return out
}

// ---- widgets/pager -------------------------------------------------------------------------

func pgOps(w, w2 int, variant int) []Op {
	switch variant {
	case 0:
		return []Op{{K: "draw", W: w, H: 2}, {K: "down"}, {K: "draw", W: w, H: 2}, {K: "down"}, {K: "down"}, {K: "down"}, {K: "draw", W: w, H: 2},
			{K: "up"}, {K: "draw", W: w, H: 2}, {K: "setoffset", A: 99}, {K: "draw", W: w, H: 2}, {K: "setoffset", A: -3}, {K: "draw", W: w, H: 2}}
	case 1:
		return []Op{{K: "draw", W: w, H: 1}, {K: "setoffset", A: 1}, {K: "draw", W: w, H: 3}, {K: "down"}, {K: "draw", W: w2, H: 2},
			{K: "down"}, {K: "draw", W: w, H: 0}, {K: "draw", W: w, H: 1}}
	}
	return []Op{{K: "setoffset", A: 2}, {K: "draw", W: w, H: 1}, {K: "up"}, {K: "up"}, {K: "up"}, {K: "draw", W: w, H: 4}, {K: "draw", W: 0, H: 2}, {K: "draw", W: w, H: 2}}
}

func maxWidthNeeded(text string) int {
	if strings.ContainsRune(text, '世') {
		return 2
	}
	return 1
}

func genPg(rng *rand.Rand, thorough bool) []*Scn {
	var out []*Scn
	alpha := []string{"a", "b", "世", "\n"}
	maxLen := 3
	widths := []int{1, 2, 3}
	if thorough {
		maxLen = 4 // (5 makes the shards too large for TLC's in-memory JSON trace on a shared machine)
		widths = []int{1, 2, 3, 4}
	}
	var texts []string
	var rec func(s string, n int)
	rec = func(s string, n int) {
		texts = append(texts, s)
		if n == maxLen {
			return
		}
		for _, a := range alpha {
			rec(s+a, n+1)
		}
	}
	rec("", 0)
	for ti, t := range texts {
		for _, w := range widths {
			if w < maxWidthNeeded(t) {
				continue // a grapheme wider than the window cannot be presented at all
			}
			nv := 1
			if thorough {
				nv = 2
			}
			for v := 0; v < nv; v++ {
				variant := (ti + w + v) % 3
				w2 := w%4 + 1
				if w2 < maxWidthNeeded(t) {
					w2 = 2
				}
				segs := []string{t}
				if r := []rune(t); len(r) > 1 && (ti+v)%2 == 0 { // two segments, cut at a grapheme boundary
					k := 1 + (ti+w)%(len(r)-1)
					segs = []string{string(r[:k]), string(r[k:])}
				}
				out = append(out, &Scn{Kind: "pg-exhaustive", Widget: "pg", Cols: 5, Rows: 2*maxLen + 3, Text: segs, Ops: pgOps(w, w2, variant)})
			}
		}
	}
	// longer random texts, CRLF terminators, several segments, random scroll histories
	nrand := 200
	if thorough {
		nrand = 1500
	}
	parts := []string{"a", "b", "c", "世", "界", "\n", "\r\n", "é", "ab", "\n\n"}
	for i := 0; i < nrand; i++ {
		var segs []string
		total := 0
		for s, ns := 0, 1+rng.Intn(3); s < ns; s++ {
			var b strings.Builder
			for k, m := 0, rng.Intn(6); k < m; k++ {
				p := pick(rng, parts)
				b.WriteString(p)
				total += len([]rune(p))
			}
			segs = append(segs, b.String())
		}
		t := strings.Join(segs, "")
		need := 1
		if strings.ContainsAny(t, "世界") {
			need = 2
		}
		w := need + rng.Intn(5-need)
		sc := &Scn{Kind: "pg-random", Widget: "pg", Cols: 6, Rows: 2*total + 4, Text: segs}
		h := rng.Intn(4)
		for k, m := 0, 3+rng.Intn(10); k < m; k++ {
			switch x := rng.Intn(10); {
			case x < 3:
				sc.Ops = append(sc.Ops, Op{K: "down"})
			case x < 5:
				sc.Ops = append(sc.Ops, Op{K: "up"})
			case x < 6:
				sc.Ops = append(sc.Ops, Op{K: "setoffset", A: rng.Intn(12) - 3})
			case x < 7:
				w = need + rng.Intn(5-need)
				h = rng.Intn(4)
				sc.Ops = append(sc.Ops, Op{K: "draw", W: w, H: h})
			default:
				sc.Ops = append(sc.Ops, Op{K: "draw", W: w, H: h})
			}
		}
		sc.Ops = append(sc.Ops, Op{K: "draw", W: w, H: 2})
		out = append(out, sc)
	}
	return out
}

// genPgEdge: lines around the window edge. For every width: lines of narrow characters one short of, exactly and one
// over one and two window widths; a wide character that ends exactly at the edge, one column before it (followed by
// nothing, by a narrow character that then fills the row, by a wide one that has to wrap) and one that starts in the last
// column; each with no terminator, "\n" and "\r\n", followed by nothing, more text, an empty line, another full line.
func genPgEdge(thorough bool) []*Scn {
	var out []*Scn
	narrow := func(n int) string {
		if n < 0 {
			n = 0
		}
		return "abcdefghijklmnop"[:n]
	}
	widths := []int{2, 3, 4}
	if thorough {
		widths = []int{1, 2, 3, 4, 5}
	}
	k := 0
	for _, w := range widths {
		var bodies []string
		for _, n := range []int{w - 1, w, w + 1, 2*w - 1, 2 * w, 2*w + 1} {
			if n >= 1 {
				bodies = append(bodies, narrow(n))
			}
		}
		if w >= 2 {
			bodies = append(bodies,
				narrow(w-2)+"世",           // ends exactly at the edge
				narrow(w)+narrow(w-2)+"世", // two rows, the second ends exactly at the edge
				narrow(w-1)+"世",           // starts in the last column: has to wrap
				"世界")                      // w = 2: every row full; w = 4: one full row
		}
		if w >= 3 {
			bodies = append(bodies,
				narrow(w-3)+"世",  // ends one column before the edge
				narrow(w-3)+"世x", // ... and a narrow character fills the row
				narrow(w-3)+"世界") // ... and a wide one has to wrap
		}
		for _, body := range bodies {
			for _, term := range []string{"", "\n", "\r\n"} {
				followers := []string{""}
				if term != "" {
					followers = []string{"", "z", term, term + "z", narrow(w) + term}
				}
				for _, fol := range followers {
					nv := 1
					if thorough {
						nv = 3
					}
					for v := 0; v < nv; v++ {
						k++
						w2 := w%4 + 1
						if w2 < 2 {
							w2 = 2 // wide characters
						}
						segs := []string{body + term + fol}
						switch k % 3 {
						case 1: // the terminator opens the second segment
							segs = []string{body, term + fol}
						case 2: // ... or closes the first
							segs = []string{body + term, fol}
						}
						n := len([]rune(body + term + fol))
						out = append(out, &Scn{Kind: "pg-edge", Widget: "pg", Cols: 6, Rows: n + 3, Text: segs, Ops: pgOps(w, w2, (k/3+v)%3)})
					}
				}
			}
		}
	}
	return out
}

// ---- widgets/scrollbar ------------------------------------------------------------------------

func genSb(rng *rand.Rand, thorough bool) []*Scn {
	var out []*Scn
	var ops []Op
	for _, total := range []int{-1, 0, 1, 3, 10} {
		for _, view := range []int{-1, 0, 1, 3, 10, 11} {
			for _, top := range []int{-2, 0, 1, 9, 10, 50} {
				for _, h := range []int{0, 1, 4} {
					ops = append(ops, Op{K: "draw", N: total, A: view, T: top, W: 2, H: h})
				}
			}
		}
	}
	for i := 0; i < len(ops); i += 30 {
		j := i + 30
		if j > len(ops) {
			j = len(ops)
		}
		out = append(out, &Scn{Kind: "sb-grid", Widget: "sb", Cols: 3, Rows: 4, Ops: ops[i:j]})
	}
	return out
}

// Fixed: hand-written corner cases and the counterexamples TLC found in the
// implementation-shaped models (specs/list/MC_Lists), kept as regression scenarios.
func Fixed() []*Scn {
	d := func(w, h int) Op { return Op{K: "draw", W: w, H: h} }
	dyn := func(hs []int, gap int, cur bool, ops ...Op) *Scn {
		return &Scn{Kind: "fixed", Widget: "dyn", Hs: hs, Gap: gap, Cursor: cur, Ops: ops}
	}
	lst := func(n int, ops ...Op) *Scn {
		return &Scn{Kind: "fixed", Widget: "lst", Cols: 5, Rows: 4, N: n, Ops: ops}
	}
	pg := func(w int, segs ...string) *Scn {
		n := len([]rune(strings.Join(segs, "")))
		return &Scn{Kind: "fixed", Widget: "pg", Cols: 6, Rows: 2*n + 4, Text: segs, Ops: pgOps(w, w+1, 0)}
	}
	return []*Scn{
		// TLC (MC_Lists, NoCrash): scrolled down, items replaced by fewer, scrolled up
		dyn([]int{1, 2, 3}, 0, false, Op{K: "wheeldown"}, d(5, 2), Op{K: "pending", A: -2}, Op{K: "replace", Hs: []int{1}}, d(5, 2)),
		// gutter cursor while the list is scrolled past the cursor
		dyn([]int{1, 1, 1}, 0, true, Op{K: "pending", A: 1}, d(5, 1), d(5, 1)),
		// upward scroll with a gap
		dyn([]int{1, 2, 3}, 1, false, Op{K: "setcursor", A: 2}, d(5, 1), Op{K: "wheelup"}, d(5, 1), d(5, 1)),
		// selection change while a scroll is pending
		dyn([]int{1, 2, 3}, 0, false, Op{K: "wheeldown"}, Op{K: "next"}, d(5, 1)),
		dyn([]int{1, 1, 1}, 0, false, Op{K: "next"}, d(5, 2), Op{K: "pending", A: 1}, Op{K: "prev"}, d(5, 2)),
		// items shrink under a recorded scroll offset, then the selection moves
		dyn([]int{8, 3, 1, 6, 2, 4}, 0, true, Op{K: "setcursor", A: 4}, d(5, 3), d(5, 3), Op{K: "next"},
			Op{K: "replace", Hs: []int{2, 2}}, Op{K: "prev"}, Op{K: "next"}, d(5, 3), d(5, 6)),
		// upward insertion followed by a selection change (top index bookkeeping)
		dyn([]int{1, 1, 4, 1, 2, 1, 4, 3}, 2, false, Op{K: "setcursor", A: 7}, d(5, 2), Op{K: "wheelup"}, d(5, 2), Op{K: "wheeldown"}, d(5, 2),
			Op{K: "prev"}, d(5, 2)),
		// item taller than the viewport, empty list, single item
		dyn([]int{9, 1}, 0, true, Op{K: "next"}, d(5, 3), Op{K: "prev"}, d(5, 3), Op{K: "wheeldown"}, d(5, 3), Op{K: "wheelup"}, d(5, 3)),
		dyn(nil, 1, true, Op{K: "next"}, Op{K: "prev"}, Op{K: "wheeldown"}, d(5, 3), Op{K: "wheelup"}, Op{K: "pending", A: -4}, d(5, 0), d(0, 0)),
		dyn([]int{2}, 1, true, Op{K: "next"}, d(5, 1), Op{K: "wheeldown"}, d(5, 1), Op{K: "wheelup"}, d(5, 1)),
		// the selected item is removed by a replacement (hunter h19-1): the next draw selects an existing one,
		// the draw after that shows it, and navigation works again
		dyn([]int{1, 1, 1, 1, 1, 1, 1, 1, 1, 1}, 0, false, Op{K: "setcursor", A: 9}, d(5, 4), Op{K: "replace", Hs: []int{1, 1, 1}}, d(5, 4),
			Op{K: "prev"}, Op{K: "next"}, d(5, 4)),
		dyn([]int{1, 1, 1, 1, 1, 1, 1, 1, 1, 1}, 1, true, Op{K: "setcursor", A: 9}, d(5, 1), Op{K: "replace", Hs: []int{1, 1, 1}}, d(5, 1), d(5, 1),
			Op{K: "replace", Hs: nil}, d(5, 1), Op{K: "replace", Hs: []int{2, 2}}, d(5, 1)),
		// the same frame drawn again with a gap row on the first viewport row (h19-2)
		dyn([]int{1, 1, 1, 1, 1, 1}, 1, false, d(5, 4), Op{K: "next"}, Op{K: "next"}, d(5, 4), d(5, 4), d(5, 4)),
		// set-cursor beyond the last item (h19-3), also on an empty list
		dyn([]int{1, 1, 1, 1, 1}, 0, true, Op{K: "setcursorabs", A: 100}, d(5, 3), d(5, 3), Op{K: "prev"}, d(5, 3)),
		dyn(nil, 0, false, Op{K: "setcursorabs", A: 3}, d(5, 3), Op{K: "replace", Hs: []int{1, 1}}, d(5, 1), d(5, 1)),
		// classic list: empty and nil item lists through every operation
		lst(0, Op{K: "end"}, d(4, 2)),
		lst(0, d(4, 0)),
		lst(-1, Op{K: "down"}, d(4, 2), Op{K: "pagedown", W: 4, H: 2}, d(4, 2)),
		lst(3, Op{K: "end"}, d(4, 2), Op{K: "setitems", N: -1}, d(4, 2), Op{K: "setitems", N: 5}, d(4, 2)),
		lst(0, Op{K: "pagedown", W: 4, H: 0}, Op{K: "setitems", N: 5}, d(4, 2), Op{K: "end"}, d(4, 1), Op{K: "setitems", N: 2}, d(4, 3)),
		// pager: no terminator, only terminators, wide character at the edge, exactly full lines
		pg(3, "a"), pg(3, "one\ntwo"), pg(2, "\n"), pg(2, "\n\n"), pg(2, "a世"), pg(2, "世b世"), pg(3, "ab世c"),
		pg(2, "ab\ncd"), pg(2, "ab\n\ncd\n"), pg(2, "ab", "cd\r\ne"), pg(4, ""),
		// an exactly full line and its terminator (hunter h19-2): two lines that fit a 3x2 window; one line, scrolled
		&Scn{Kind: "fixed", Widget: "pg", Cols: 6, Rows: 9, Text: []string{"abc\ndef"}, Ops: []Op{d(3, 2), {K: "down"}, d(3, 2), d(4, 2)}},
		&Scn{Kind: "fixed", Widget: "pg", Cols: 6, Rows: 9, Text: []string{"abc\n"}, Ops: []Op{d(3, 1), {K: "down"}, d(3, 1), d(4, 1)}},
		&Scn{Kind: "fixed", Widget: "pg", Cols: 6, Rows: 12, Text: []string{"abcdef\r\n", "a世\nz"}, Ops: []Op{d(3, 2), {K: "setoffset", A: 9}, d(3, 2), d(2, 2)}},
	}
}

// Generate returns the scenarios of a tier.
func Generate(rng *rand.Rand, thorough bool) []*Scn {
	var out []*Scn
	out = append(out, Fixed()...)
	out = append(out, genLst(rng, thorough)...)
	out = append(out, genPg(rng, thorough)...)
	out = append(out, genPgEdge(thorough)...)
	out = append(out, genSb(rng, thorough)...)
	out = append(out, genDyn(rng, thorough)...)
	return out
}
