// Package c19 drives the list widgets (vxfw/list.Dynamic, widgets/list.List),
// the pager and the scrollbar through operation histories and records what a
// user would observe: for the builder-driven list the child surfaces its Draw
// returns; for the classic widgets the bytes a real Vaxis renders to a fake
// console (lexed into terminal commands for the RefTerm oracle) plus the
// widgets' public state. The driver keeps its own record of the items and of
// whether the selection changed; specs/list/List_Trace.tla decides.
package c19

import (
	"fmt"

	"github.com/rivo/uniseg"

	"git.sr.ht/~rockorager/vaxis"
	"git.sr.ht/~rockorager/vaxis/vxfw"
	vlist "git.sr.ht/~rockorager/vaxis/vxfw/list"
	"git.sr.ht/~rockorager/vaxis/widgets/list"
	"git.sr.ht/~rockorager/vaxis/widgets/pager"
	"git.sr.ht/~rockorager/vaxis/widgets/scrollbar"

	"verif/harness/responder"
	"verif/harness/sess"
	"verif/harness/termcmd"
	"verif/harness/trace"
)

// ---- replay descriptor -------------------------------------------------

type Op struct {
	K  string // operation name (widget specific)
	A  int    `json:",omitempty"` // argument: cursor index, pending lines, offset, view height
	T  int    `json:",omitempty"` // scrollbar: top
	W  int    `json:",omitempty"` // draw: viewport width
	H  int    `json:",omitempty"` // draw: viewport height
	N  int    `json:",omitempty"` // set-items: number of items (lst); scrollbar: total
	Hs []int  `json:",omitempty"` // replace (dyn): heights of the new items
}

type Scn struct {
	Kind   string
	Widget string   // lst | dyn | pg | sb
	Cols   int      `json:",omitempty"` // screen (lst, pg, sb)
	Rows   int      `json:",omitempty"`
	N      int      `json:",omitempty"` // lst: initial number of items (-1: nil slice)
	Hs     []int    `json:",omitempty"` // dyn: initial item heights
	Gap    int      `json:",omitempty"`
	Cursor bool     `json:",omitempty"` // dyn: DrawCursor
	Text   []string `json:",omitempty"` // pg: segments
	Ops    []Op
}

type Ctx struct {
	G, L *trace.Interner
	Dump func(format string, a ...any)
	Cov  *Cov
	pool sess.Pool // screens, one set per size
}

func (c *Ctx) dump(format string, a ...any) {
	if c.Dump != nil {
		c.Dump(format, a...)
	}
}

func guard(pan *string, f func()) {
	defer func() {
		if r := recover(); r != nil {
			s := []byte(fmt.Sprint(r))
			for i, x := range s {
				if x < 0x20 || x > 0x7e || x == '"' || x == '\\' {
					s[i] = '?'
				}
			}
			if len(s) > 100 {
				s = s[:100]
			}
			*pan = string(s)
		}
	}()
	f()
}

// Run executes one scenario against the real library.
func Run(ctx *Ctx, sc *Scn) (evs []trace.Ev, note string) {
	switch sc.Widget {
	case "dyn":
		return runDyn(ctx, sc)
	case "lst":
		return runScreen(ctx, sc, lstRunner)
	case "pg":
		return runScreen(ctx, sc, pgRunner)
	case "sb":
		return runScreen(ctx, sc, sbRunner)
	}
	return []trace.Ev{{"ev": "reset", "rows": 1, "cols": 1}, {"ev": "bad-widget"}}, "bad widget"
}

// ---- vxfw/list.Dynamic -----------------------------------------------------

type item struct {
	idx uint
	h   int
}

func (it *item) HandleEvent(vaxis.Event, vxfw.EventPhase) (vxfw.Command, error) { return nil, nil }
func (it *item) Draw(ctx vxfw.DrawContext) (vxfw.Surface, error) {
	w := ctx.Max.Width
	if w > 4 {
		w = 4 // the list hands out an effectively unbounded width when its own is below the gutter's
	}
	return vxfw.Surface{Size: vxfw.Size{Width: w, Height: uint16(it.h)}, Widget: it}, nil
}

func runDyn(ctx *Ctx, sc *Scn) (evs []trace.Ev, note string) {
	evs = append(evs, trace.Ev{"ev": "reset", "rows": 1, "cols": 1})
	hs := append([]int(nil), sc.Hs...)
	d := &vlist.Dynamic{DrawCursor: sc.Cursor, Gap: sc.Gap}
	d.Builder = func(i uint, cursor uint) vxfw.Widget {
		if i >= uint(len(hs)) {
			return nil
		}
		return &item{idx: i, h: hs[i]}
	}
	sel := false
	idle := false // the previous step was a draw too (coverage only)
	for _, op := range sc.Ops {
		pan := ""
		before := d.Cursor()
		if op.K == "draw" {
			var s vxfw.Surface
			guard(&pan, func() {
				var err error
				s, err = d.Draw(vxfw.DrawContext{Max: vxfw.Size{Width: uint16(op.W), Height: uint16(op.H)}, Characters: vaxis.Characters})
				if err != nil {
					panic("Draw error: " + err.Error())
				}
			})
			kids := [][]int{}
			if pan == "" {
				for _, ch := range s.Children {
					it, ok := ch.Surface.Widget.(*item)
					id := -1
					if ok {
						id = int(it.idx)
					}
					kids = append(kids, []int{id, ch.Origin.Row, int(ch.Surface.Size.Height)})
				}
			}
			ctx.Cov.dynDraw(sc, op, len(hs), sel, kids, int(d.Cursor()), int(before), idle)
			evs = append(evs, trace.Ev{"ev": "dyn-draw", "op": "draw", "n": len(hs), "hs": append([]int{}, hs...), "gap": sc.Gap,
				"W": op.W, "H": op.H, "idx": int(d.Cursor()), "kids": kids, "sel": sel, "pan": pan})
			// (a draw that itself moves the selection because the selected item is gone is not
			// "a selection change followed by a draw": only the index is judged there)
			sel = false
			idle = true
		} else {
			idle = false
			guard(&pan, func() {
				switch op.K {
				case "next":
					d.NextItem()
				case "prev":
					d.PrevItem()
				case "setcursor":
					// an item that exists
					if len(hs) > 0 {
						d.SetCursor(uint(op.A % len(hs)))
					}
				case "setcursorabs":
					// any index, also one beyond the last item
					d.SetCursor(uint(op.A))
				case "keyj":
					d.CaptureEvent(vaxis.Key{Keycode: 'j', Text: "j"})
				case "keyk":
					d.CaptureEvent(vaxis.Key{Keycode: 'k', Text: "k"})
				case "keydown":
					d.CaptureEvent(vaxis.Key{Keycode: vaxis.KeyDown})
				case "keyup":
					d.CaptureEvent(vaxis.Key{Keycode: vaxis.KeyUp})
				case "wheeldown":
					d.HandleEvent(vaxis.Mouse{Button: vaxis.MouseWheelDown}, vxfw.TargetPhase)
				case "wheelup":
					d.HandleEvent(vaxis.Mouse{Button: vaxis.MouseWheelUp}, vxfw.TargetPhase)
				case "pending":
					d.SetPendingScroll(op.A)
				case "replace":
					// any replacement, also one that removes the selected item
					hs = append([]int(nil), op.Hs...)
				default:
					panic("harness: unknown op " + op.K)
				}
			})
			switch {
			case d.Cursor() != before:
				sel = true
			case op.K == "wheeldown" || op.K == "wheelup" || op.K == "pending" || op.K == "replace":
				// the user scrolled away (or the items changed) after selecting: the draw that
				// follows is no longer "a selection change followed by a draw"
				sel = false
			}
			ctx.Cov.op("dyn", op.K)
			evs = append(evs, trace.Ev{"ev": "dyn-op", "op": op.K, "n": len(hs), "idx": int(d.Cursor()), "pan": pan})
		}
		if pan != "" {
			return evs, "panic: " + pan
		}
	}
	return evs, ""
}

// ---- widgets on a real screen ----------------------------------------------------

type screen struct {
	ctx   *Ctx
	sc    *Scn
	s     *sess.S
	cv    *termcmd.Conv
	evs   []trace.Ev
	tall  int
	first bool
}

// frame renders what the application drew and feeds the bytes to the reference terminal.
// Screens are reused between scenarios (see sess.Pool): the reference terminal of a
// scenario starts with every cell unknown and the scenario's first frame is a full
// refresh, which redraws every cell.
func (sn *screen) frame() {
	if sn.first {
		sn.s.Vx.Refresh()
		sn.first = false
	} else {
		sn.s.Vx.Render()
	}
	o := sn.s.Con.Take()
	sn.ctx.dump("frame %q\n", o)
	sn.evs = append(sn.evs, sn.cv.Feed(o)...)
}

type runner func(sn *screen) string

func runScreen(ctx *Ctx, sc *Scn, run runner) (evs []trace.Ev, note string) {
	sh, err := ctx.pool.Get(fmt.Sprintf("%dx%d", sc.Cols, sc.Rows), sess.Config{Caps: responder.FromMask(0, false), Cols: sc.Cols, Rows: sc.Rows})
	if err != nil {
		return []trace.Ev{{"ev": "reset", "rows": 1, "cols": 1}, {"ev": "start-failed"}}, "start: " + err.Error()
	}
	sh.Mu.Lock()
	defer sh.Mu.Unlock()
	sh.S.Con.Take()
	sn := &screen{ctx: ctx, sc: sc, s: sh.S, cv: termcmd.NewConv(ctx.G, ctx.L, false, false), tall: sc.Rows, first: true}
	sn.evs = append(sn.evs, trace.Ev{"ev": "reset", "rows": sc.Rows, "cols": sc.Cols})
	note = run(sn)
	return sn.evs, note
}

// glyphs returns the graphemes of s as [id, width-on-this-terminal] pairs.
func (sn *screen) glyphs(s string) [][]int {
	out := [][]int{}
	gr := uniseg.NewGraphemes(s)
	for gr.Next() {
		out = append(out, []int{sn.cv.G.ID(gr.Str()), sn.cv.TermWidth(gr.Str())})
	}
	return out
}

// ---- widgets/list -----------------------------------------------------------

const idChars = "0123456789ABCDEFGHIJKLMNOPQRSTUVWXYZ"

// ItemText is the text of item k: a first character unique to the item, then a tail.
func ItemText(k int) string {
	tails := []string{"", "x", "xy", "世", "x世z"}
	return string(idChars[k%len(idChars)]) + tails[k%len(tails)]
}

func items(n int) []string {
	if n < 0 {
		return nil
	}
	out := make([]string, n)
	for i := range out {
		out[i] = ItemText(i)
	}
	return out
}

func lstRunner(sn *screen) string {
	sc := sn.sc
	cur := items(sc.N)
	m := list.New(cur)
	sel := false
	for _, op := range sc.Ops {
		pan := ""
		before := m.Index()
		root := sn.s.Vx.Window()
		if op.K == "draw" {
			root.Clear()
			guard(&pan, func() { m.Draw(root.New(0, 0, op.W, op.H)) })
			sn.frame()
			txt := [][][]int{}
			for _, it := range cur {
				txt = append(txt, sn.glyphs(it))
			}
			sn.ctx.Cov.lstDraw(op, len(cur), sel)
			sn.evs = append(sn.evs, trace.Ev{"ev": "lst-draw", "op": "draw", "n": len(cur), "idx": m.Index(), "w": op.W, "h": op.H,
				"items": txt, "sel": sel, "pan": pan})
			sel = false
		} else {
			guard(&pan, func() {
				switch op.K {
				case "down":
					m.Down()
				case "up":
					m.Up()
				case "home":
					m.Home()
				case "end":
					m.End()
				case "pagedown":
					m.PageDown(root.New(0, 0, op.W, op.H))
				case "pageup":
					m.PageUp(root.New(0, 0, op.W, op.H))
				case "setitems":
					cur = items(op.N)
					m.SetItems(cur)
				default:
					panic("harness: unknown op " + op.K)
				}
			})
			if m.Index() != before {
				sel = true
			}
			sn.ctx.Cov.op("lst", op.K)
			sn.evs = append(sn.evs, trace.Ev{"ev": "lst-op", "op": op.K, "n": len(cur), "idx": m.Index(), "pan": pan})
		}
		if pan != "" {
			return "panic: " + pan
		}
	}
	return ""
}

// ---- widgets/pager ------------------------------------------------------------

func pgRunner(sn *screen) string {
	sc := sn.sc
	m := &pager.Model{}
	text := []map[string]any{}
	for _, seg := range sc.Text {
		m.Segments = append(m.Segments, vaxis.Segment{Text: seg})
		gr := uniseg.NewGraphemes(seg)
		for gr.Next() {
			g := gr.Str()
			nl := g == "\n" || g == "\r\n"
			w := 0
			if !nl {
				w = sn.cv.TermWidth(g)
			}
			text = append(text, map[string]any{"g": sn.cv.G.ID(g), "w": w, "nl": nl})
		}
	}
	sn.evs = append(sn.evs, trace.Ev{"ev": "pg-init", "op": "init", "text": text})
	for _, op := range sc.Ops {
		pan := ""
		root := sn.s.Vx.Window()
		switch op.K {
		case "draw":
			root.Clear()
			guard(&pan, func() { m.Draw(root.New(0, 0, op.W, op.H)) })
			sn.frame()
			sn.ctx.Cov.pgDraw(sc, op, m.Offset)
			sn.evs = append(sn.evs, trace.Ev{"ev": "pg-draw", "op": "draw", "w": op.W, "h": op.H, "off": m.Offset, "pan": pan})
			if pan == "" && op.W > 0 {
				// the whole layout at this width, on a window tall enough for all of it;
				// the scroll offset is the application's to set and is put back afterwards
				save := m.Offset
				m.Offset = 0
				root.Clear()
				guard(&pan, func() { m.Draw(root.New(0, 0, op.W, sn.tall)) })
				sn.frame()
				sn.evs = append(sn.evs, trace.Ev{"ev": "pg-full", "op": "full", "w": op.W, "tall": sn.tall, "pan": pan})
				m.Offset = save
			}
		case "down":
			m.ScrollDown()
		case "up":
			m.ScrollUp()
		case "setoffset":
			m.Offset = op.A
		default:
			return "harness: unknown op " + op.K
		}
		if op.K != "draw" {
			sn.ctx.Cov.op("pg", op.K)
		}
		if pan != "" {
			return "panic: " + pan
		}
	}
	return ""
}

// ---- widgets/scrollbar -----------------------------------------------------------

func sbRunner(sn *screen) string {
	for _, op := range sn.sc.Ops {
		pan := ""
		root := sn.s.Vx.Window()
		root.Clear()
		sb := &scrollbar.Model{TotalHeight: op.N, ViewHeight: op.A, Top: op.T}
		guard(&pan, func() { sb.Draw(root.New(0, 0, op.W, op.H)) })
		sn.frame()
		sn.ctx.Cov.op("sb", "draw")
		sn.evs = append(sn.evs, trace.Ev{"ev": "sb-draw", "op": "draw", "pan": pan})
		if pan != "" {
			return "panic: " + pan
		}
	}
	return ""
}
