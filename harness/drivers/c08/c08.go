// Package c08 exercises the parser's lifecycle and Escape-key timing on the
// real ansi.Parser: inputs delivered in chunks separated by short or long
// gaps, end of input or a read error at any point, consumers of every speed
// (including one that retains every sequence), Close at any point, and -
// through the verif gate hooks - exact interleavings of the run loop, the
// ESC timer callback and the consumer chosen by TLC from specs/parser/ParserLife.tla.
//
// A panic in a parser goroutine kills the process, so scenarios are executed
// in child processes (see cmd/drive/c08.go).
package c08

import (
	"bytes"
	"encoding/hex"
	"errors"
	"fmt"
	"io"
	"reflect"
	"runtime"
	"strconv"
	"strings"
	"sync"
	"time"

	"git.sr.ht/~rockorager/vaxis/ansi"

	"verif/harness/drivers/c02"
)

const LongGap = 30 * time.Millisecond // > 10 ms ESC delay, factor 3

type Chunk struct {
	Hex  string
	Long bool // preceded by a long gap (silence longer than the ESC delay)
}

type Scn struct {
	Kind     string
	Chunks   []Chunk
	EndLong  bool     // long gap before the end of input
	End      string   // "eof" | "error"
	Consumer string   // eager | lazy | slow | stalled (not reading while input arrives: back-pressure)
	Retain   bool     // never hand sequences back (no Finish)
	CloseAt  int      // call Close before delivering chunk CloseAt (len(Chunks) = before the end); -1 never
	Sched    []string `json:",omitempty"` // gate schedule (TLC action names), chunks are single symbols then
	Tolerant bool     `json:",omitempty"` // schedule from a refuted shape of the model: a timer the code does not let fire is skipped, not drift
	Wire     bool     `json:",omitempty"` // gaps are realised in wall-clock time on the wire, whatever the parser has consumed by then
	PaceMs   int      `json:",omitempty"` // Wire: the consumer takes this long over every item
	// CloseStop: Close is requested while the parser waits in Read; what follows (the remaining chunks, then the end) are
	// reader returns handed over one at a time, the next one only when the parser is seen waiting in yet another Read
	CloseStop bool `json:",omitempty"`
}

type Result struct {
	Items    []map[string]any `json:"items"`
	Closed   bool             `json:"closed"`   // channel closed after the end marker
	Kept     bool             `json:"kept"`     // retained sequences unchanged at the end
	Panic    string           `json:"panic"`    // panic message if the process died
	Hang     string           `json:"hang"`     // what was being waited for when the watchdog expired
	Drift    string           `json:"drift"`    // schedule could not be followed (model drift, no verdict)
	EarlyEnd bool             `json:"earlyEnd"` // Close was requested before all input was delivered
	Ambig    bool             `json:"ambig"`    // a "short" gap after a lone ESC could not be kept short: timing not judged
	StopRets int              `json:"stopRets"` // Read calls that returned after Close() until the channel was closed (-1: no Close)
	Log      []string         `json:"log,omitempty"`
}

// ---- controllable reader ---------------------------------------------------

type reader struct {
	mu      sync.Mutex
	cond    *sync.Cond
	chunks  [][]byte
	end     error // returned when chunks are exhausted and end != nil
	waiting bool
	rets    int // Read calls that have returned
}

func newReader() *reader { r := &reader{}; r.cond = sync.NewCond(&r.mu); return r }

func (r *reader) Read(p []byte) (int, error) {
	r.mu.Lock()
	defer r.mu.Unlock()
	for len(r.chunks) == 0 && r.end == nil {
		r.waiting = true
		r.cond.Broadcast()
		r.cond.Wait()
	}
	r.waiting = false
	r.rets++
	if len(r.chunks) == 0 {
		return 0, r.end
	}
	n := copy(p, r.chunks[0])
	if n == len(r.chunks[0]) {
		r.chunks = r.chunks[1:]
	} else {
		r.chunks[0] = r.chunks[0][n:]
	}
	return n, nil
}

func (r *reader) put(b []byte) {
	r.mu.Lock()
	r.chunks = append(r.chunks, b)
	r.waiting = false
	r.cond.Broadcast()
	r.mu.Unlock()
}

func (r *reader) finish(err error) {
	r.mu.Lock()
	r.end = err
	r.waiting = false
	r.cond.Broadcast()
	r.mu.Unlock()
}

func (r *reader) returned() int {
	r.mu.Lock()
	defer r.mu.Unlock()
	return r.rets
}

// idle reports whether the parser has consumed everything and is blocked in Read.
func (r *reader) idle() bool {
	r.mu.Lock()
	defer r.mu.Unlock()
	return r.waiting && len(r.chunks) == 0
}

// ---- gates -------------------------------------------------------------------

type arrival struct {
	point string
	gid   int64
	rel   chan struct{}
}

type gates struct {
	mu      sync.Mutex
	open    bool
	arrived []*arrival
	narr    int // total arrivals so far
	sig     chan struct{}
}

func gid() int64 {
	var buf [64]byte
	n := runtime.Stack(buf[:], false)
	f := strings.Fields(string(buf[:n]))
	id, _ := strconv.ParseInt(f[1], 10, 64)
	return id
}

func (g *gates) hook(point string) {
	g.mu.Lock()
	if g.open {
		g.mu.Unlock()
		return
	}
	a := &arrival{point: point, gid: gid(), rel: make(chan struct{})}
	g.arrived = append(g.arrived, a)
	g.narr++
	g.mu.Unlock()
	select {
	case g.sig <- struct{}{}:
	default:
	}
	<-a.rel
}

// take waits for an arrival matching pred and removes it from the list.
func (g *gates) take(pred func(*arrival) bool, d time.Duration) *arrival {
	deadline := time.Now().Add(d)
	for {
		g.mu.Lock()
		for i, a := range g.arrived {
			if pred(a) {
				g.arrived = append(g.arrived[:i], g.arrived[i+1:]...)
				g.mu.Unlock()
				return a
			}
		}
		g.mu.Unlock()
		if time.Now().After(deadline) {
			return nil
		}
		select {
		case <-g.sig:
		case <-time.After(time.Millisecond):
		}
	}
}

func (g *gates) openAll() {
	g.mu.Lock()
	g.open = true
	for _, a := range g.arrived {
		close(a.rel)
	}
	g.arrived = nil
	g.mu.Unlock()
}

// ---- execution -----------------------------------------------------------------

type exec struct {
	sc    *Scn
	p     *ansi.Parser
	r     *reader
	g     *gates
	res   *Result
	kept  []ansi.Sequence // retained originals
	cop   []ansi.Sequence // deep copies taken on delivery
	eof   bool
	chEnd bool
	base  int // reader returns at the moment of Close (-1: no Close yet)
}

func deepCopy(s ansi.Sequence) ansi.Sequence {
	switch v := s.(type) {
	case ansi.CSI:
		c := ansi.CSI{Final: v.Final, Intermediate: append([]rune(nil), v.Intermediate...)}
		for _, p := range v.Parameters {
			c.Parameters = append(c.Parameters, append([]int(nil), p...))
		}
		return c
	case ansi.ESC:
		return ansi.ESC{Final: v.Final, Intermediate: append([]rune(nil), v.Intermediate...)}
	case ansi.OSC:
		return ansi.OSC{Payload: append([]rune(nil), v.Payload...)}
	case ansi.DCS:
		return ansi.DCS{Final: v.Final, Intermediate: append([]rune(nil), v.Intermediate...),
			Parameters: append([]int(nil), v.Parameters...), Data: append([]rune(nil), v.Data...)}
	}
	return s
}

func normalize(s ansi.Sequence) string { return fmt.Sprintf("%#v", deepCopy(s)) }

// recv receives one item if one arrives within d. Returns false on timeout.
func (e *exec) recv(d time.Duration) bool {
	select {
	case seq, ok := <-e.p.Next():
		if !ok {
			e.chEnd = true
			return true
		}
		if it, ok := c02.Item(seq); ok {
			e.res.Items = append(e.res.Items, it)
			if it["t"] == "eof" {
				e.eof = true
			}
		}
		if e.sc.Retain {
			e.kept = append(e.kept, seq)
			e.cop = append(e.cop, deepCopy(seq))
		} else {
			e.p.Finish(seq)
		}
		return true
	case <-time.After(d):
		return false
	}
}

// untilIdle lets the consumer receive just enough for the parser to consume
// all delivered input and wait in Read (so that a following long gap is
// silence the parser actually observes).
func (e *exec) untilIdle() bool {
	if e.sc.Consumer == "stalled" {
		// a consumer that is not reading at all: the parser gets as far as
		// the channel's capacity lets it; only when it is stuck behind a full
		// channel with input left is one sequence at a time taken off
		quiet := time.Now().Add(40 * time.Millisecond)
		for !e.r.idle() && time.Now().Before(quiet) {
			time.Sleep(200 * time.Microsecond)
		}
	}
	deadline := time.Now().Add(2 * time.Second)
	for !e.r.idle() {
		if time.Now().After(deadline) {
			return false
		}
		if !e.recv(2 * time.Millisecond) {
			continue
		}
		if e.chEnd {
			return true
		}
	}
	return true
}

func (e *exec) endErr() error {
	if e.sc.End == "error" {
		return errors.New("read error")
	}
	return io.EOF
}

// Execute runs one scenario in this process.
func Execute(sc *Scn) (res *Result) {
	res = &Result{Items: []map[string]any{}, Kept: true, StopRets: -1}
	e := &exec{sc: sc, r: newReader(), res: res, base: -1}
	defer func() { ansi.VerifHook = nil }()
	if len(sc.Sched) > 0 {
		e.g = &gates{sig: make(chan struct{}, 1)}
		ansi.VerifHook = e.g.hook
	}
	e.p = ansi.NewParser(e.r)
	if len(sc.Sched) > 0 {
		e.schedule()
		if res.Drift != "" {
			e.g.openAll()
			e.r.finish(io.EOF)
		}
	} else if sc.Wire {
		e.wire()
	} else {
		e.plain()
	}
	// drain: everything still pending is received; the channel must close
	if e.g != nil {
		e.g.openAll()
	}
	deadline := time.Now().Add(3 * time.Second)
	for !e.chEnd {
		if time.Now().After(deadline) {
			res.Hang = "channel not closed 3s after the end of input"
			break
		}
		e.recv(20 * time.Millisecond)
	}
	if e.base >= 0 && e.chEnd {
		res.StopRets = e.r.returned() - e.base
	}
	res.Closed = e.chEnd && e.eof && len(res.Items) > 0 && res.Items[len(res.Items)-1]["t"] == "eof"
	for i := range e.kept {
		if !reflect.DeepEqual(normalize(e.kept[i]), normalize(e.cop[i])) {
			res.Kept = false
		}
	}
	return res
}

func (e *exec) plain() {
	sc := e.sc
	var fired int64
	var fmu sync.Mutex
	ansi.VerifHook = func(pt string) {
		if pt == "timer.fired" {
			fmu.Lock()
			fired++
			fmu.Unlock()
		}
	}
	nfired := func() int64 { fmu.Lock(); defer fmu.Unlock(); return fired }
	lastByte := byte(0)
	firedAtPut := int64(0)
	// waitGap realises "silence longer than the ESC delay": if the parser is
	// holding a lone ESC the silence lasts until its timer has actually
	// expired (robust against a loaded machine), otherwise a fixed sleep.
	waitGap := func() {
		if lastByte == 0x1b {
			deadline := time.Now().Add(2 * time.Second)
			for nfired() <= firedAtPut && time.Now().Before(deadline) {
				time.Sleep(time.Millisecond)
			}
			time.Sleep(2 * time.Millisecond)
			return
		}
		time.Sleep(LongGap)
	}
	i := 0
	for i < len(sc.Chunks) {
		if sc.Chunks[i].Long {
			if !e.untilIdle() {
				e.res.Hang = fmt.Sprintf("parser did not consume its input before chunk %d", i)
				return
			}
			waitGap()
		}
		// this chunk and the following short-gap chunks go out back to back
		firedAtPut = nfired()
		for {
			if sc.CloseStop && sc.CloseAt == i {
				e.closeStop(i)
				return
			}
			if sc.CloseAt == i {
				e.doClose()
				e.res.EarlyEnd = true
			}
			b, _ := hex.DecodeString(sc.Chunks[i].Hex)
			if len(b) > 0 {
				lastByte = b[len(b)-1]
			}
			e.r.put(b)
			i++
			if i >= len(sc.Chunks) || sc.Chunks[i].Long {
				break
			}
		}
		if i >= len(sc.Chunks) && !sc.EndLong {
			break // a prompt end follows immediately
		}
		switch sc.Consumer {
		case "eager":
			for e.recv(2*time.Millisecond) && !e.chEnd {
			}
		case "slow":
			e.recv(time.Millisecond)
		}
	}
	if sc.CloseStop && sc.CloseAt == len(sc.Chunks) {
		e.closeStop(len(sc.Chunks))
		return
	}
	if sc.CloseAt == len(sc.Chunks) {
		e.doClose()
	}
	if sc.EndLong {
		if !e.untilIdle() {
			e.res.Hang = "parser did not consume its input before the end"
			return
		}
		waitGap()
	}
	e.r.finish(e.endErr())
}

// doClose calls Close and notes how many Read calls have returned by then: a Read that returns later has returned after
// Close (one that returns between the two statements is not counted: the count errs on the lenient side).
func (e *exec) doClose() {
	e.p.Close()
	if e.base < 0 {
		e.base = e.r.returned()
	}
}

// closeStop: Close is requested while the parser waits in Read with everything delivered so far consumed.  Chunk i and
// the following ones, then the end of input, are each one return of the reader; the next is handed over only once the
// parser is seen waiting in another Read (an observation, not a time-out).  How many returns it took until the channel
// was closed is counted by the reader itself (Execute).
func (e *exec) closeStop(i int) {
	sc := e.sc
	if !e.untilIdle() {
		e.res.Hang = fmt.Sprintf("parser did not consume its input before Close (chunk %d)", i)
		return
	}
	e.doClose()
	e.res.EarlyEnd = true
	for ; !e.chEnd; i++ {
		if i >= len(sc.Chunks) {
			e.r.finish(e.endErr())
			return // Execute drains and waits for the closure
		}
		b, _ := hex.DecodeString(sc.Chunks[i].Hex)
		if len(b) == 0 {
			continue
		}
		e.r.put(b)
		deadline := time.Now().Add(3 * time.Second)
		for !e.chEnd && !e.r.idle() {
			if time.Now().After(deadline) {
				e.res.Hang = fmt.Sprintf("parser neither stopped nor read on after Close and chunk %d", i)
				e.r.finish(e.endErr())
				return
			}
			e.recv(time.Millisecond)
		}
	}
}

// WireGap is the silence on the wire of a Wire scenario (6 x the ESC delay).
const WireGap = 60 * time.Millisecond

// wire delivers the chunks at wall-clock times that do not depend on how far
// the parser has got: chunks separated by a short gap back to back, a long
// gap is WireGap of silence on the wire.  The consumer runs beside it and
// takes PaceMs over every item, so the parser is held up by the full channel
// while the input arrives.
func (e *exec) wire() {
	sc := e.sc
	pace := time.Duration(sc.PaceMs) * time.Millisecond
	done := make(chan struct{})
	stop := make(chan struct{})
	go func() {
		defer close(done)
		for !e.chEnd {
			select {
			case <-stop:
				return
			default:
			}
			if e.recv(50*time.Millisecond) && !e.chEnd {
				time.Sleep(pace)
			}
		}
	}()
	for i, c := range sc.Chunks {
		if c.Long {
			time.Sleep(WireGap)
		}
		if sc.CloseAt == i {
			e.doClose()
			e.res.EarlyEnd = true
		}
		b, _ := hex.DecodeString(c.Hex)
		e.r.put(b)
	}
	if sc.CloseAt == len(sc.Chunks) {
		e.doClose()
	}
	if sc.EndLong {
		time.Sleep(WireGap)
	}
	e.r.finish(e.endErr())
	select {
	case <-done:
	case <-time.After(10 * time.Second):
		close(stop)
		<-done
		if !e.chEnd {
			e.res.Hang = "channel not closed 10s after the end of input (paced consumer)"
			e.chEnd = true // the consumer has stopped: nothing more is received
		}
	}
}

// schedule follows a TLC behaviour of ParserLife action by action.
func (e *exec) schedule() {
	sc := e.sc
	g := e.g
	timers := map[int]int64{} // model timer index -> goroutine id
	doneTimers := map[int]bool{}
	absent := map[int]bool{} // Tolerant: timers of the behaviour that the code did not let fire
	next := 0                // next chunk (symbol) to deliver
	logf := func(f string, a ...any) { e.res.Log = append(e.res.Log, fmt.Sprintf(f, a...)) }
	// settle waits until the goroutine just released has reached its next
	// observable point (a gate, or the reader waiting for input); when it
	// blocks in a channel send instead there is nothing to observe: 2 ms.
	settle := func() {
		deadline := time.Now().Add(2 * time.Millisecond)
		g.mu.Lock()
		n0 := g.narr
		g.mu.Unlock()
		for time.Now().Before(deadline) {
			g.mu.Lock()
			n := g.narr
			g.mu.Unlock()
			if n != n0 || e.r.idle() {
				return
			}
			time.Sleep(50 * time.Microsecond)
		}
	}
	var escArmedAt time.Time
	processed := 0 // symbols handed to the run loop by RLock
	isRun := func(pt string) func(*arrival) bool {
		return func(a *arrival) bool { return a.point == pt }
	}
	for _, act := range sc.Sched {
		name, arg := act, 0
		if i := strings.IndexByte(act, ':'); i >= 0 {
			name = act[:i]
			arg, _ = strconv.Atoi(act[i+1:])
		}
		switch name {
		case "Deliver":
			if next < len(sc.Chunks) {
				c := sc.Chunks[next]
				if c.Long {
					// real time passes; an armed timer fires and parks at its gate
					time.Sleep(LongGap)
				}
				if c.Long || next == 0 {
					// a chunk = this symbol and the following short-gap symbols
					var b []byte
					j := next
					for {
						x, _ := hex.DecodeString(sc.Chunks[j].Hex)
						b = append(b, x...)
						j++
						if j >= len(sc.Chunks) || sc.Chunks[j].Long {
							break
						}
					}
					e.r.put(b)
					if j >= len(sc.Chunks) && !sc.EndLong {
						e.r.finish(e.endErr()) // a prompt end follows the last symbol immediately
					}
				}
				next++
			} else {
				if sc.EndLong {
					time.Sleep(LongGap)
				}
				e.r.finish(e.endErr())
				next++
			}
		case "RTop":
			a := g.take(isRun("run.top"), 500*time.Millisecond)
			if a == nil {
				e.res.Drift = "run loop did not reach run.top"
				return
			}
			if !escArmedAt.IsZero() {
				// the read that stops the timer happens now: was the gap
				// after the lone ESC meant to be short, and is it still?
				short := (processed < len(sc.Chunks) && !sc.Chunks[processed].Long) || (processed == len(sc.Chunks) && !sc.EndLong)
				if short && time.Since(escArmedAt) > 4*time.Millisecond {
					e.res.Ambig = true
				}
				escArmedAt = time.Time{}
			}
			close(a.rel)
			settle()
		case "RRead", "RSent", "Stutter", "RPeek", "RHand":
			// autonomous steps of the run loop
		case "RLock":
			a := g.take(isRun("run.read"), 500*time.Millisecond)
			if a == nil {
				e.res.Drift = "run loop did not reach run.read for " + act
				return
			}
			if processed < len(sc.Chunks) && sc.Chunks[processed].Hex == "1b" {
				escArmedAt = time.Now()
			}
			if processed+1 < len(sc.Chunks) && sc.Chunks[processed].Hex == "c3" && sc.Chunks[processed+1].Hex == "a9" {
				processed++ // the two bytes of one scalar are handed over together
			}
			processed++
			close(a.rel)
			settle()
		case "RExit":
			a := g.take(isRun("run.eof"), 500*time.Millisecond)
			if a == nil {
				e.res.Drift = "run loop did not reach run.eof"
				return
			}
			close(a.rel)
			settle()
		case "RClose":
			a := g.take(isRun("run.close"), 500*time.Millisecond)
			if a == nil {
				e.res.Drift = "run loop did not reach run.close (blocked sending the end marker?)"
				return
			}
			close(a.rel)
			settle()
		case "TFire":
			a := g.take(func(a *arrival) bool {
				if a.point != "timer.fired" {
					return false
				}
				for _, id := range timers {
					if id == a.gid {
						return false
					}
				}
				return true
			}, map[bool]time.Duration{false: 2 * time.Second, true: 150 * time.Millisecond}[sc.Tolerant])
			if a == nil && sc.Tolerant {
				absent[arg] = true
				logf("%s: the code did not let this timer fire", act)
				break
			}
			if a == nil {
				e.res.Drift = "timer did not fire for " + act
				return
			}
			timers[arg] = a.gid
			g.mu.Lock()
			g.arrived = append(g.arrived, a) // stays parked until TSend
			g.mu.Unlock()
		case "TSend", "FLock":
			if absent[arg] {
				break
			}
			id := timers[arg]
			a := g.take(func(a *arrival) bool { return a.point == "timer.fired" && a.gid == id }, 200*time.Millisecond)
			if a == nil {
				e.res.Drift = "no parked callback for " + act
				return
			}
			close(a.rel)
			settle()
		case "TLock":
			// released by TSend/FLock the callback runs to its next gate: after
			// its send ("timer.emitted") or, when it found its ESC no longer
			// pending, its end ("timer.done")
			if absent[arg] {
				break
			}
			id := timers[arg]
			a := g.take(func(a *arrival) bool {
				return (a.point == "timer.emitted" || a.point == "timer.done") && a.gid == id
			}, 300*time.Millisecond)
			if a == nil {
				e.res.Drift = "callback did not reach its next gate for " + act
				return
			}
			if a.point == "timer.done" {
				doneTimers[arg] = true
			}
			close(a.rel)
			settle()
		case "TSet", "FSet":
			if doneTimers[arg] || absent[arg] {
				break
			}
			id := timers[arg]
			a := g.take(func(a *arrival) bool {
				return (a.point == "timer.emitted" || a.point == "timer.done") && a.gid == id
			}, 300*time.Millisecond)
			if a != nil && a.point == "timer.emitted" {
				close(a.rel)
				a = g.take(func(a *arrival) bool { return a.point == "timer.done" && a.gid == id }, 300*time.Millisecond)
			}
			if a == nil {
				e.res.Drift = "callback did not complete for " + act
				return
			}
			doneTimers[arg] = true
			close(a.rel)
		case "RecvStep":
			if !e.recv(100 * time.Millisecond) {
				e.res.Drift = "nothing to receive for " + act
				return
			}
		case "DoClose":
			e.doClose()
			if next <= len(sc.Chunks) {
				e.res.EarlyEnd = true
			}
		default:
			logf("unknown action %s", act)
		}
	}
	// deliver whatever the behaviour did not
	g.openAll()
	for next < len(sc.Chunks) {
		c := sc.Chunks[next]
		if c.Long {
			if !e.untilIdle() {
				return
			}
			time.Sleep(LongGap)
		}
		b, _ := hex.DecodeString(c.Hex)
		e.r.put(b)
		next++
	}
	if next == len(sc.Chunks) {
		if sc.EndLong {
			if e.untilIdle() {
				time.Sleep(LongGap)
			}
		}
		e.r.finish(e.endErr())
	}
}

// Input returns the oracle's input: the scalars of the whole byte stream (a
// scalar's bytes may arrive in different chunks) with the Gap pseudo-symbol
// (-3) wherever a long gap was realised between two scalars and GapInside
// (-4) where it was realised between the bytes of one scalar.
func (sc *Scn) Input() []int {
	in := []int{} // never nil: an empty input must be logged as [], TLC's Json module rejects null
	var all []byte
	gapAt := map[int]bool{} // byte offsets preceded by a long gap
	for _, c := range sc.Chunks {
		if c.Long {
			gapAt[len(all)] = true
		}
		b, _ := hex.DecodeString(c.Hex)
		all = append(all, b...)
	}
	s, off := c02.Scalars(all)
	for k := range s {
		end := len(all)
		if k+1 < len(off) {
			end = off[k+1]
		}
		if gapAt[off[k]] {
			in = append(in, -3)
		}
		for o := off[k] + 1; o < end; o++ {
			if gapAt[o] {
				in = append(in, -4)
			}
		}
		in = append(in, s[k])
	}
	if gapAt[len(all)] && len(all) > 0 {
		in = append(in, -3)
	}
	if sc.EndLong {
		in = append(in, -3)
	}
	return in
}

func Hex(b []byte) string { return hex.EncodeToString(b) }

var _ = bytes.MinRead
