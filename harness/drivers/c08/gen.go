package c08

import (
	"encoding/json"
	"fmt"
	"math/rand"
	"strings"
)

type schedJSON struct {
	Inp []struct {
		C   int    `json:"c"`
		Gap string `json:"gap"`
	} `json:"inp"`
	EofGap string   `json:"eofGap"`
	Acts   []string `json:"acts"`
}

// FromSched converts a SCHED line printed by MC_ParserLife_Gen (or a TLC
// counterexample converted by the check script) into a scenario.
func FromSched(line string) (*Scn, error) {
	var s schedJSON
	if err := json.Unmarshal([]byte(line), &s); err != nil {
		return nil, err
	}
	sc := &Scn{Kind: "sched", End: "eof", Consumer: "sched", CloseAt: -1, EndLong: s.EofGap == "long", Sched: s.Acts}
	for _, x := range s.Inp {
		sc.Chunks = append(sc.Chunks, Chunk{Hex: Hex([]byte{byte(x.C)}), Long: x.Gap == "long"})
	}
	return sc, nil
}

var pieces = []string{"a", "b", "\x1b[1;5A", "\x1b[A", "\x1bOP", "\x1b]0;t\x07", "\x1bx", "é", "\x1b[38:2::1:2:3m", "\x1bP1$r2 q\x1b\\", "\r", "世"}

var serial int

// chunkOf concatenates a few pieces; string sequences get payloads that are
// all different, so that a delivered sequence overwritten by a later one shows.
func chunkOf(rng *rand.Rand) string {
	s := ""
	for n := 1 + rng.Intn(3); n > 0; n-- {
		serial++
		switch rng.Intn(6) {
		case 0:
			s += fmt.Sprintf("\x1b]0;title-%d\x07", serial)
		case 1:
			s += fmt.Sprintf("\x1bP1$r%d q\x1b\\", serial)
		case 2:
			s += fmt.Sprintf("\x1b[%d;%dH", serial, serial+1)
		default:
			s += pieces[rng.Intn(len(pieces))]
		}
	}
	return s
}

// manySeqs: six rounds of CSI / ESC / OSC / DCS / APC whose parameters and payloads all differ.
func manySeqs() string {
	s := ""
	for k := 1; k <= 6; k++ {
		s += fmt.Sprintf("\x1b[%d;%d;%dm\x1b(%c\x1b]8;;http://u/%d-%s\x1b\\\x1bP%d$r%d q\x1b\\\x1b_G%d\x1b\\", k, k+10, k+20, 'A'+k, k,
			strings.Repeat("x", k), k, k, k)
	}
	return s
}

var consumers = []string{"eager", "lazy", "slow", "stalled"}

// Timing generates plain scenarios around the Escape-key delay.
func Timing(rng *rand.Rand) *Scn {
	sc := &Scn{Kind: "timing", End: "eof", Consumer: consumers[rng.Intn(len(consumers))], Retain: rng.Intn(3) == 0, CloseAt: -1}
	if rng.Intn(8) == 0 {
		sc.End = "error"
	}
	n := 1 + rng.Intn(5)
	for i := 0; i < n; i++ {
		var s string
		switch rng.Intn(6) {
		case 0, 1: // lone ESC at the end of a chunk
			s = chunkOf(rng)
			if rng.Intn(2) == 0 {
				s = ""
			}
			s += "\x1b"
		case 2: // chunk starting with what could complete an ESC
			s = []string{"[1;5A", "x", "OP", "[A", "\x1b", "]0;t\x07"}[rng.Intn(6)] + chunkOf(rng)
		default:
			s = chunkOf(rng)
		}
		sc.Chunks = append(sc.Chunks, Chunk{Hex: Hex([]byte(s)), Long: rng.Intn(2) == 0})
	}
	sc.EndLong = rng.Intn(2) == 0
	if rng.Intn(6) == 0 {
		sc.CloseAt = rng.Intn(len(sc.Chunks) + 1)
	}
	return sc
}

// Fixed corner cases: one per clause of the property.
func Fixed() []*Scn {
	mk := func(kind string, cons string, retain bool, endLong bool, chunks ...Chunk) *Scn {
		return &Scn{Kind: kind, End: "eof", Consumer: cons, Retain: retain, CloseAt: -1, Chunks: chunks, EndLong: endLong}
	}
	h := func(s string, long bool) Chunk { return Chunk{Hex: Hex([]byte(s)), Long: long} }
	var out []*Scn
	for _, cons := range consumers {
		for _, retain := range []bool{false, true} {
			out = append(out,
				mk("lone-esc-then-seq", cons, retain, false, h("ab\x1b", false), h("\x1b[1;5A", true)),
				mk("lone-esc-then-text", cons, retain, true, h("\x1b", false), h("x", true)),
				mk("lone-esc-at-end", cons, retain, true, h("a\x1b", false)),
				mk("prompt-esc-seq", cons, retain, false, h("\x1b", false), h("[1;5A", false)),
				mk("prompt-alt-key", cons, retain, false, h("ab\x1b", false), h("x", false)),
				mk("esc-esc", cons, retain, true, h("\x1b", false), h("\x1b", true), h("[A", false)),
				// the ESC delay runs out while the consumer is not reading and the channel is full:
				// the key press must still come out before what follows, and what follows starts from ground
				mk("lone-esc-behind-full-channel", cons, retain, true, h("ab\x1b", false), h("c", true)),
				mk("lone-esc-behind-full-channel", cons, retain, false, h("abc\x1b", false), h("[A", true), h("x", true)),
				mk("lone-esc-behind-full-channel", cons, retain, true, h("\x1b[1;2Hab\x1b", false), h("Pq", true), h("\x1b", true)),
				mk("many-seqs-retained", cons, retain, false, h(manySeqs(), false)),
			)
		}
	}
	return out
}
