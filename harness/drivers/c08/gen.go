package c08

import (
	"encoding/json"
	"fmt"
	"math/rand"
	"strings"
)

type schedJSON struct {
	Inp []struct {
		C   int    `json:"c"`
		Gap string `json:"gap"`
	} `json:"inp"`
	EofGap   string   `json:"eofGap"`
	Acts     []string `json:"acts"`
	Tolerant bool     `json:"tolerant"`
}

// FromSched converts a SCHED line printed by MC_ParserLife_Gen (or a TLC
// counterexample converted by the check script) into a scenario.
func FromSched(line string) (*Scn, error) {
	var s schedJSON
	if err := json.Unmarshal([]byte(line), &s); err != nil {
		return nil, err
	}
	sc := &Scn{Kind: "sched", End: "eof", Consumer: "sched", CloseAt: -1, EndLong: s.EofGap == "long", Sched: s.Acts, Tolerant: s.Tolerant}
	for _, x := range s.Inp {
		sc.Chunks = append(sc.Chunks, Chunk{Hex: Hex([]byte{byte(x.C)}), Long: x.Gap == "long"})
	}
	return sc, nil
}

var pieces = []string{"a", "b", "\x1b[1;5A", "\x1b[A", "\x1bOP", "\x1b]0;t\x07", "\x1bx", "é", "\x1b[38:2::1:2:3m", "\x1bP1$r2 q\x1b\\", "\r", "世"}

var serial int

// chunkOf concatenates a few pieces; string sequences get payloads that are
// all different, so that a delivered sequence overwritten by a later one shows.
func chunkOf(rng *rand.Rand) string {
	s := ""
	for n := 1 + rng.Intn(3); n > 0; n-- {
		serial++
		switch rng.Intn(6) {
		case 0:
			s += fmt.Sprintf("\x1b]0;title-%d\x07", serial)
		case 1:
			s += fmt.Sprintf("\x1bP1$r%d q\x1b\\", serial)
		case 2:
			s += fmt.Sprintf("\x1b[%d;%dH", serial, serial+1)
		default:
			s += pieces[rng.Intn(len(pieces))]
		}
	}
	return s
}

// csiRun: a control sequence with three parameters, then n adjacent ones whose parameters all differ: storage handed
// back with the first (Finish) is used for the later ones while their neighbours are still waiting to be received.
func csiRun(n int) string {
	s := "\x1b[1;2;3m"
	for k := 1; k <= n; k++ {
		s += fmt.Sprintf("\x1b[%d;%d;%dH\x1b[?%d;%dh", 10*k+1, 10*k+2, 10*k+3, 100*k+4, 100*k+5)
	}
	return s
}

// manySeqs: six rounds of CSI / ESC / OSC / DCS / APC whose parameters and payloads all differ.
func manySeqs() string {
	s := ""
	for k := 1; k <= 6; k++ {
		s += fmt.Sprintf("\x1b[%d;%d;%dm\x1b(%c\x1b]8;;http://u/%d-%s\x1b\\\x1bP%d$r%d q\x1b\\\x1b_G%d\x1b\\", k, k+10, k+20, 'A'+k, k,
			strings.Repeat("x", k), k, k, k)
	}
	return s
}

var consumers = []string{"eager", "lazy", "slow", "stalled"}

// scalars of two, three and four bytes; a chunk boundary may fall inside them
var wide = []string{"é", "世", "😀", "ü"}

// what an interrupted scalar may follow: a lone ESC (is it "promptly followed by further bytes"?), nothing, an open sequence
var beforeCut = []string{"\x1b", "\x1b", "\x1b", "", "a", "\x1b[1", "\x1b]0;t", "\x1bO"}

// control strings (and a control sequence) left open: the ESC that follows ends them
var openers = []string{"\x1b]0;x", "\x1b]", "\x1bP1$rq", "\x1bPq", "\x1bP1;2", "\x1b_Gx", "\x1b^pm", "\x1bXsos", "\x1b[1;2", "\x1b[?1$"}

// Timing generates plain scenarios around the Escape-key delay.
func Timing(rng *rand.Rand) *Scn {
	sc := &Scn{Kind: "timing", End: "eof", Consumer: consumers[rng.Intn(len(consumers))], Retain: rng.Intn(3) == 0, CloseAt: -1}
	if rng.Intn(8) == 0 {
		sc.End = "error"
	}
	n := 1 + rng.Intn(5)
	carry := "" // rest of a scalar that the previous chunk cut
	for i := 0; i < n; i++ {
		var s string
		next := ""
		switch rng.Intn(9) {
		case 0, 1: // lone ESC at the end of a chunk
			s = chunkOf(rng)
			if rng.Intn(2) == 0 {
				s = ""
			}
			s += "\x1b"
		case 2: // chunk starting with what could complete an ESC
			s = []string{"[1;5A", "x", "OP", "[A", "\x1b", "]0;t\x07", "\\", "\x1b\\", "\x1b\\x"}[rng.Intn(9)] + chunkOf(rng)
		case 3, 4: // the chunk ends inside a multi-byte scalar (after a lone ESC, after nothing, inside a sequence)
			if rng.Intn(2) == 0 {
				s = chunkOf(rng)
			}
			w := wide[rng.Intn(len(wide))]
			k := 1 + rng.Intn(len(w)-1)
			s += beforeCut[rng.Intn(len(beforeCut))] + w[:k]
			next = w[k:]
			if rng.Intn(6) == 0 {
				next = "" // the scalar stays incomplete: its bytes are symbols of their own
			}
		case 5: // a control string or sequence left open, then the ESC that ends it, at the end of a chunk
			if rng.Intn(2) == 0 {
				s = chunkOf(rng)
			}
			s += openers[rng.Intn(len(openers))] + "\x1b"
		default:
			s = chunkOf(rng)
		}
		sc.Chunks = append(sc.Chunks, Chunk{Hex: Hex([]byte(carry + s)), Long: rng.Intn(2) == 0})
		carry = next
	}
	if carry != "" {
		sc.Chunks = append(sc.Chunks, Chunk{Hex: Hex([]byte(carry)), Long: rng.Intn(2) == 0})
	}
	sc.EndLong = rng.Intn(2) == 0
	if rng.Intn(6) == 0 {
		sc.CloseAt = rng.Intn(len(sc.Chunks) + 1)
		// every other one: Close while the parser waits in Read, then one reader return at a time
		sc.CloseStop = rng.Intn(2) == 0
	}
	return sc
}

// CloseThenReturn: Close is requested while the parser waits in Read, then the reader returns ONE chunk: that must stop the
// parser whatever the chunk ends with - in particular inside a multi-byte scalar (after 1, 2, 3 bytes of scalars of 2, 3,
// 4 bytes), alone or after complete characters, after a lone ESC, inside a control sequence or string.  The rest of the
// scalar and "z" would be the next return, then the end of input.
func CloseThenReturn() []*Scn {
	var out []*Scn
	h := func(s string) Chunk { return Chunk{Hex: Hex([]byte(s))} }
	befores := []string{"", "x", "\x1b", "\x1b[1", "\x1b]0;t", "\x1bP1$rq", "ab\xe4\xb8"}
	n := 0
	add := func(before, ret, rest string) {
		n++
		sc := &Scn{Kind: "close-then-return", End: "eof", Consumer: []string{"eager", "lazy", "stalled"}[n%3], Retain: n%4 == 3,
			CloseAt: 0, CloseStop: true}
		if n%5 == 4 {
			sc.End = "error"
		}
		if before != "" {
			sc.Chunks = append(sc.Chunks, Chunk{Hex: Hex([]byte(before))})
			sc.CloseAt = 1
		}
		sc.Chunks = append(sc.Chunks, h(ret))
		if rest != "" {
			sc.Chunks = append(sc.Chunks, h(rest))
		}
		out = append(out, sc)
	}
	for _, before := range befores {
		for _, w := range wide {
			for k := 1; k < len(w); k++ {
				if before == "ab\xe4\xb8" {
					add(before, "\x96"+w[:k], w[k:]+"z") // the return completes one scalar and begins the next
					continue
				}
				add(before, w[:k], w[k:]+"z")
				if before == "" || before == "\x1b" {
					add(before, "a"+w[:k], w[k:]+"z") // a complete character, then the beginning of one
					add(before, "e\u0301"+w[:k], w[k:]+"z")
				}
			}
		}
		// controls: the return ends with a complete scalar, a lone ESC, inside a sequence or string
		for _, ret := range []string{"a", "é", "\x1b", "\x1b[1;", "\x1b]0;x", "世界"} {
			add(before, ret, "z")
		}
	}
	return out
}

// Fixed corner cases: one per clause of the property.
func Fixed() []*Scn {
	mk := func(kind string, cons string, retain bool, endLong bool, chunks ...Chunk) *Scn {
		return &Scn{Kind: kind, End: "eof", Consumer: cons, Retain: retain, CloseAt: -1, Chunks: chunks, EndLong: endLong}
	}
	h := func(s string, long bool) Chunk { return Chunk{Hex: Hex([]byte(s)), Long: long} }
	var out []*Scn
	for _, cons := range consumers {
		for _, retain := range []bool{false, true} {
			out = append(out,
				mk("lone-esc-then-seq", cons, retain, false, h("ab\x1b", false), h("\x1b[1;5A", true)),
				mk("lone-esc-then-text", cons, retain, true, h("\x1b", false), h("x", true)),
				mk("lone-esc-at-end", cons, retain, true, h("a\x1b", false)),
				mk("prompt-esc-seq", cons, retain, false, h("\x1b", false), h("[1;5A", false)),
				mk("prompt-alt-key", cons, retain, false, h("ab\x1b", false), h("x", false)),
				mk("esc-esc", cons, retain, true, h("\x1b", false), h("\x1b", true), h("[A", false)),
				// the ESC delay runs out while the consumer is not reading and the channel is full:
				// the key press must still come out before what follows, and what follows starts from ground
				mk("lone-esc-behind-full-channel", cons, retain, true, h("ab\x1b", false), h("c", true)),
				mk("lone-esc-behind-full-channel", cons, retain, false, h("abc\x1b", false), h("[A", true), h("x", true)),
				mk("lone-esc-behind-full-channel", cons, retain, true, h("\x1b[1;2Hab\x1b", false), h("Pq", true), h("\x1b", true)),
				mk("many-seqs-retained", cons, retain, false, h(manySeqs(), false)),
				mk("finish-then-reuse", cons, retain, false, h(csiRun(8), false)),
				mk("finish-then-reuse", cons, retain, true, h("\x1b[1;2;3m", false), h(csiRun(6), true), h(csiRun(3), true)),
			)
		}
	}
	hx := func(b string, long bool) Chunk { return Chunk{Hex: b, Long: long} }
	for ci, cons := range consumers {
		retain := ci%2 == 1
		// bytes did follow the ESC promptly, though not yet a whole scalar: never the Escape key, for any gap inside the scalar
		out = append(out,
			mk("esc-then-cut-scalar", cons, retain, false, hx("1bc3", false), hx("a9", true)),
			mk("esc-then-cut-scalar", cons, retain, true, hx("1bc3", false), hx("a9", false)),
			mk("esc-then-cut-scalar", cons, retain, false, hx("61621be4", false), hx("b896", true), hx("78", false)),
			mk("esc-then-cut-scalar", cons, retain, false, hx("1be4b8", false), hx("96", true)),
			mk("esc-then-cut-scalar", cons, retain, true, hx("1bf09f", false), hx("98", true), hx("80", true)),
			mk("esc-then-cut-scalar", cons, retain, true, hx("1bc3", false)),                  // silence, then the end: the lone byte is a symbol of its own
			mk("esc-then-cut-scalar", cons, retain, false, hx("1bc3", false), hx("41", true)), // invalid: C3 and A are two symbols
			// silence between the ESC and the first byte: the key press, then the scalar from ground whatever the gap inside it
			mk("esc-gap-cut-scalar", cons, retain, false, hx("1b", false), hx("c3", true), hx("a9", true)),
			mk("cut-scalar", cons, retain, false, hx("78c3", false), hx("a9", true), hx("1b5b41", false)),
			mk("cut-scalar", cons, retain, false, hx("1b5b31c3", false), hx("a9", true), hx("41", false)),
		)
		// whatever follows a reported Escape key is parsed as by a parser that has seen nothing yet: no residue of the
		// string or sequence that the ESC ended
		afters := []string{"\x1b\\"}
		if cons == "eager" || cons == "stalled" {
			afters = []string{"\x1b\\", "\\", "[A", "\x1b]0;y\x07z", "x", "\x1b\x1b\\"}
		}
		for _, o := range openers {
			for _, a := range afters {
				out = append(out, mk("timeout-then-ground", cons, retain, false, h(o+"\x1b", false), h(a, true)))
			}
		}
		out = append(out, mk("timeout-then-ground", cons, retain, true, h("\x1b]0;x\x1b", false), h("\x1b", true), h("\\", true)))
	}
	// Arrival times on the wire that do not wait for the parser, and a consumer that takes its time: the ESC is the last
	// byte before a silence of six times the delay, but the parser is still held up by the full channel when the silence ends
	wire := func(kind string, endLong bool, chunks ...Chunk) *Scn {
		return &Scn{Kind: kind, End: "eof", Consumer: "paced", CloseAt: -1, Chunks: chunks, EndLong: endLong, Wire: true, PaceMs: 20}
	}
	out = append(out,
		wire("wire-slow-consumer", false, h("abcdefgh\x1b", false), h("[A", true)),
		wire("wire-slow-consumer", false, h("abcdefgh\x1b", false), h("\x1b[A", true)),
		wire("wire-slow-consumer", true, h("abcdefgh\x1b", false)),
		wire("wire-slow-consumer", false, h("\x1b[1;2H\x1b[3;4Habcdef\x1b", false), h("x", true)),
		// controls: nothing is held up when the ESC arrives / the sequence arrives in one piece
		wire("wire-slow-consumer", false, h("a\x1b", false), h("[A", true)),
		wire("wire-slow-consumer", true, h("abcdefgh\x1b[A", false), h("x", true)),
	)
	return out
}
