// Package c06 drives the real terminal emulator (widgets/term) through
// operation sequences of the C06 core vocabulary and records, after every
// operation, the emulator's complete display state. specs/emu/VTRef_Trace.tla
// steps the VTRef oracle through the same operations and decides.
package c06

import (
	"fmt"
	"math/rand"
	"strconv"
	"strings"

	"github.com/rivo/uniseg"

	"verif/harness/drivers/emu"
	"verif/harness/trace"
)

// ---- replay descriptor -------------------------------------------------

// Op is one operation of the vocabulary. Ps are numeric parameters (-1 =
// omitted), T the text of a PRINT, Sgr the parameter list of an SGR
// (sub-parameters separated by ':' on the wire, -1 = omitted).
type Op struct {
	Op  string  `json:"op"`
	Ps  []int   `json:"ps,omitempty"`
	T   string  `json:"t,omitempty"`
	Sgr [][]int `json:"sgr,omitempty"`
	// Raw[i], when not empty, is the decimal digit string written on the wire
	// for parameter i (numbers that do not fit an int, or that TLC's 32-bit
	// integers cannot hold); Ps[i] is then Huge, the value the trace carries.
	Raw []string `json:"raw,omitempty"`
}

// Huge stands in the trace for every parameter value from 10^6 on: the
// oracle compares parameters only with screen sizes (at most a few dozen),
// so all such values have the same prescribed effect (MC_VTRef ThmHuge).
const Huge = 1 << 30

// H is a counted / positional operation whose parameters are given as digit
// strings ("" = omitted); values of 10^6 and more are logged as Huge.
func H(op string, digits ...string) Op {
	o := Op{Op: op, Ps: make([]int, len(digits)), Raw: make([]string, len(digits))}
	for i, d := range digits {
		switch {
		case d == "":
			o.Ps[i] = -1
		case len(strings.TrimLeft(d, "0")) > 6:
			o.Ps[i], o.Raw[i] = Huge, d
		default:
			o.Ps[i], _ = strconv.Atoi(d)
			o.Raw[i] = d // keeps leading zeros
		}
	}
	return o
}

type Scn struct {
	Kind string `json:"kind"`
	Cols int    `json:"cols"`
	Rows int    `json:"rows"`
	Pre  int    `json:"pre,omitempty"` // number of leading ops that only prepare the start state
	Ops  []Op   `json:"ops"`
}

var csiFinal = map[string]string{
	"CUP": "H", "HVP": "f", "CHA": "G", "HPA": "`", "VPA": "d", "CUU": "A", "CUD": "B", "CUF": "C", "CUB": "D",
	"CNL": "E", "CPL": "F", "ED": "J", "EL": "K", "ECH": "X", "ICH": "@", "DCH": "P", "IL": "L", "DL": "M",
	"SU": "S", "SD": "T", "DECSTBM": "r",
}

var fixedBytes = map[string]string{
	"CR": "\r", "LF": "\n", "IND": "\x1bD", "RI": "\x1bM", "NEL": "\x1bE", "DECSC": "\x1b7", "DECRC": "\x1b8",
	"ALTON": "\x1b[?1049h", "ALTOFF": "\x1b[?1049l", "NOP": "",
	// xterm's other alternate-screen modes and its private-mode form of save / restore cursor
	"ALT47ON": "\x1b[?47h", "ALT47OFF": "\x1b[?47l", "ALT1047ON": "\x1b[?1047h", "ALT1047OFF": "\x1b[?1047l",
	"SC1048": "\x1b[?1048h", "RC1048": "\x1b[?1048l",
}

func joinPs(ps []int, raw []string) string {
	parts := make([]string, len(ps))
	for i, p := range ps {
		switch {
		case i < len(raw) && raw[i] != "":
			parts[i] = raw[i]
		case p >= 0:
			parts[i] = strconv.Itoa(p)
		}
	}
	return strings.Join(parts, ";")
}

// Bytes is what the child writes for the operation.
func (o Op) Bytes() string {
	if f, ok := csiFinal[o.Op]; ok {
		return "\x1b[" + joinPs(o.Ps, o.Raw) + f
	}
	if b, ok := fixedBytes[o.Op]; ok {
		return b
	}
	switch o.Op {
	case "PRINT":
		return o.T
	case "SGR":
		parts := make([]string, len(o.Sgr))
		for i, p := range o.Sgr {
			sub := make([]string, len(p))
			for j, v := range p {
				if v >= 0 {
					sub[j] = strconv.Itoa(v)
				}
			}
			parts[i] = strings.Join(sub, ":")
		}
		return "\x1b[" + strings.Join(parts, ";") + "m"
	}
	panic("unknown op " + o.Op)
}

// cls classifies the numeric parameters relative to the screen size (for
// the rejection signature): - omitted, 0, 1, m inside, e = size, x beyond,
// h huge (a digit string of seven digits or more).
func (o Op) cls(rows, cols int) string {
	if _, ok := csiFinal[o.Op]; !ok {
		return ""
	}
	if len(o.Ps) == 0 {
		return "none"
	}
	var sb strings.Builder
	for i, p := range o.Ps {
		size := cols
		switch o.Op {
		case "CUU", "CUD", "CNL", "CPL", "VPA", "IL", "DL", "SU", "SD", "DECSTBM":
			size = rows
		case "CUP", "HVP":
			if i == 0 {
				size = rows
			}
		case "ED", "EL":
			size = 1 << 30
		}
		switch {
		case p < 0:
			sb.WriteByte('-')
		case p >= Huge:
			sb.WriteByte('h')
		case p == 0:
			sb.WriteByte('0')
		case p == 1:
			sb.WriteByte('1')
		case p < size:
			sb.WriteByte('m')
		case p == size:
			sb.WriteByte('e')
		default:
			sb.WriteByte('x')
		}
	}
	return sb.String()
}

// ---- executor ----------------------------------------------------------

type Ctx struct {
	G *trace.Interner
}

// graphemes splits text into clusters with their widths (a logged fact
// computed with uniseg directly).
func graphemes(ctx *Ctx, t string) [][]int {
	var out [][]int
	gr := uniseg.NewGraphemes(t)
	for gr.Next() {
		out = append(out, []int{ctx.G.ID(gr.Str()), uniseg.StringWidth(gr.Str())})
	}
	return out
}

// Run executes one scenario against the real emulator.
func Run(ctx *Ctx, sc *Scn) (evs []trace.Ev, note string) {
	vt := emu.New(sc.Cols, sc.Rows)
	obs := &emu.Obs{G: ctx.G}
	evs = append(evs, trace.Ev{"ev": "reset", "rows": sc.Rows, "cols": sc.Cols})
	evs = append(evs, trace.Ev{"ev": "op", "op": "NOP", "cls": "", "o": obs.Full(vt.VerifSnapshot(), sc.Rows, sc.Cols)})
	for _, op := range sc.Ops {
		e := trace.Ev{"op": op.Op, "cls": op.cls(sc.Rows, sc.Cols)}
		switch op.Op {
		case "PRINT":
			gs := graphemes(ctx, op.T)
			if len(gs) == 1 {
				e["g"], e["w"] = gs[0][0], gs[0][1]
			} else {
				e["op"] = "PRINTS"
				e["gs"] = gs
			}
		case "SGR":
			sg := op.Sgr
			if sg == nil {
				sg = [][]int{}
			}
			e["sgr"] = sg
		default:
			ps := op.Ps
			if ps == nil {
				ps = []int{}
			}
			e["ps"] = ps
		}
		msg := emu.Feed(vt, emu.ParseMemo(op.Bytes()), nil)
		if msg != "" {
			e["ev"] = "panic"
			note = "panic: " + msg
			evs = append(evs, e)
			return evs, note
		}
		e["ev"] = "op"
		e["o"] = obs.Full(vt.VerifSnapshot(), sc.Rows, sc.Cols)
		evs = append(evs, e)
	}
	return evs, note
}

// ---- generators --------------------------------------------------------

func P(op string, ps ...int) Op { return Op{Op: op, Ps: ps} }
func T(s string) Op             { return Op{Op: "PRINT", T: s} }
func S(ps ...[]int) Op          { return Op{Op: "SGR", Sgr: ps} }

var nOps = []string{"CUU", "CUD", "CUF", "CUB", "CNL", "CPL", "CHA", "HPA", "VPA", "ECH", "ICH", "DCH", "IL", "DL", "SU", "SD"}

func vertical(op string) bool {
	switch op {
	case "CUU", "CUD", "CNL", "CPL", "VPA", "IL", "DL", "SU", "SD":
		return true
	}
	return false
}

func dedupe(ops []Op) []Op {
	seen := map[string]bool{}
	var out []Op
	for _, o := range ops {
		k := o.Op + "|" + o.Bytes()
		if !seen[k] {
			seen[k] = true
			out = append(out, o)
		}
	}
	return out
}

// Tiny is the alphabet of the longest (length 3) enumerations: one instance
// of every function of the vocabulary, plus over-long counts.
func Tiny(rows, cols int) []Op {
	return dedupe([]Op{T("x"), T("世"), T("⸻"), P("CR"), P("LF"), P("RI"), P("DECSC"), P("DECRC"), P("ALTON"), P("ALTOFF"),
		P("ALT47ON"), P("ALT47OFF"),
		P("CUP"), P("CUP", 2, 2), P("CUU"), P("CUD"), P("CUF"), P("CUB"), P("ED"), P("ED", 1), P("ED", 2), P("EL"), P("EL", 1),
		P("ECH", 2), P("ICH"), P("DCH"), P("IL"), P("DL"), P("SU"), P("SD"), P("DECSTBM", 1, 2), P("DECSTBM", 2, rows),
		P("DECSTBM"), S([]int{41}), P("IL", rows+1), P("DL", rows+1), P("ICH", cols+1), P("DCH", cols+1), P("CNL"), P("CHA", cols)})
}

// Alphabet is the operation alphabet of the bounded-exhaustive enumeration
// on a rows x cols screen: every function of the vocabulary with parameters
// omitted, 0, 1, 2, size-1, size, size+1 (reduced: omitted, 0, 2, size+1).
func Alphabet(rows, cols int, reduced bool) []Op {
	var a []Op
	a = append(a, T("x"), T("世"), T("⸺"), T("⸻")) // narrow, wide, and measured 3 and 4 columns wide
	for _, o := range []string{"CR", "LF", "IND", "RI", "NEL", "DECSC", "DECRC", "ALTON", "ALTOFF",
		"ALT47ON", "ALT47OFF", "ALT1047ON", "ALT1047OFF", "SC1048", "RC1048"} {
		a = append(a, P(o))
	}
	for _, o := range nOps {
		size := cols
		if vertical(o) {
			size = rows
		}
		vals := []int{-2, 0, 1, 2, size - 1, size, size + 1}
		if reduced {
			vals = []int{-2, 0, 2, size + 1}
			if o == "HPA" || o == "CNL" || o == "CPL" {
				continue
			}
		}
		for _, v := range vals {
			switch {
			case v == -2:
				a = append(a, P(o))
			case v >= 0:
				a = append(a, P(o, v))
			}
		}
	}
	for _, o := range []string{"ED", "EL"} {
		a = append(a, P(o), P(o, 0), P(o, 1), P(o, 2))
	}
	a = append(a, P("CUP"), P("CUP", 0, 0), P("CUP", 1, 1), P("CUP", rows, cols), P("CUP", rows+1, cols+1),
		P("CUP", 2), P("CUP", -1, 2), P("CUP", 2, -1), P("HVP"), P("HVP", 2, 2))
	a = append(a, P("DECSTBM"), P("DECSTBM", 0, 0), P("DECSTBM", 1, 2), P("DECSTBM", 2, rows), P("DECSTBM", 2, 2),
		P("DECSTBM", 1, rows+1), P("DECSTBM", 2), P("DECSTBM", rows, 1), P("DECSTBM", -1, 2))
	a = append(a, S(), S([]int{41}), S([]int{7}), S([]int{21}))
	if reduced {
		var b []Op
		for _, o := range a {
			switch {
			case o.Op == "HVP", o.Op == "IND", o.Op == "ALT1047ON", o.Op == "SC1048", o.Op == "RC1048",
				o.Op == "CUP" && len(o.Ps) == 2 && o.Ps[0] == 1 && o.Ps[1] == 1,
				(o.Op == "ED" || o.Op == "EL") && len(o.Ps) == 1 && o.Ps[0] == 0:
				continue
			}
			b = append(b, o)
		}
		a = b
	}
	return dedupe(a)
}

// HugeDigits are parameter values far beyond every screen size, around the
// places where a parameter accumulated in a 16, 32 or 64 bit integer wraps:
// 2^16, 2^31, 2^32+1, 2^63-1, 2^63, 2^64-1, 2^64, 2^64+1, 2^64+2, 2^64+3,
// 2^65+1, 10^20, 10^30.
var HugeDigits = []string{"65536", "2147483648", "4294967297", "9223372036854775807", "9223372036854775808",
	"18446744073709551615", "18446744073709551616", "18446744073709551617", "18446744073709551618", "18446744073709551619",
	"36893488147419103233", "100000000000000000000", "1000000000000000000000000000000"}

// HugeOps is every function of the vocabulary that takes a count, a position
// or a selection, with each of the huge values in each parameter place.
func HugeOps() []Op {
	var a []Op
	for _, d := range HugeDigits {
		for _, o := range nOps {
			a = append(a, H(o, d))
		}
		a = append(a, H("ED", d), H("EL", d))
	}
	for _, d := range []string{"9223372036854775808", "18446744073709551617", "18446744073709551618", "1000000000000000000000000000000"} {
		a = append(a, H("CUP", d, d), H("CUP", d), H("CUP", "", d), H("CUP", "1", d), H("CUP", d, "1"), H("HVP", d, d),
			H("DECSTBM", d), H("DECSTBM", "", d), H("DECSTBM", "1", d), H("DECSTBM", d, d))
	}
	// top and bottom that wrap to 1 and 2
	a = append(a, H("DECSTBM", "18446744073709551617", "18446744073709551618"), H("CUP", "18446744073709551618", "18446744073709551617"))
	return dedupe(a)
}

// Sizes (rows, cols) of the bounded-exhaustive enumeration.
var Sizes = [][2]int{{2, 2}, {2, 3}, {3, 2}, {3, 3}, {3, 4}, {4, 5}}

const letters = "abcdefghijklmnopqrstuvwyzABCDEFGHIJKLMNOPQRSTUVWXYZ0123456789"

func fill(rows, cols int) Op {
	var sb strings.Builder
	for i := 0; i < rows*cols; i++ {
		sb.WriteByte(letters[i%len(letters)])
	}
	return T(sb.String())
}

// Prefixes are the start states of the bounded-exhaustive enumeration; the
// prefix operations are executed and validated like any others.
func Prefixes(rows, cols int) map[string][]Op {
	mid := (rows + 1) / 2
	p := map[string][]Op{
		"blank": {},
		"full":  {fill(rows, cols), S([]int{44}), P("CUP", mid, (cols+1)/2)},
		"wrap":  {fill(rows, cols), S([]int{42}), P("CUP", mid, 1), T(strings.Repeat("w", cols))},
		"wide":  {fill(rows, cols), S([]int{45}), P("CUP", mid, 1), T(strings.Repeat("界", cols/2)), P("CUP", mid, 2)},
		"alt":   {fill(rows, cols), S([]int{46}), P("CUP", mid, cols), P("ALTON"), T("A"), P("DECSC"), P("CUP", 1, 1)},
		// on the alternate screen through mode 47, which already holds text from an earlier visit
		"alt47": {fill(rows, cols), P("ALT47ON"), S([]int{45}), T("B"), P("ALT47OFF"), S([]int{46}), P("CUP", mid, cols), P("SC1048"),
			P("ALT1047ON"), P("CUP", 1, cols)},
	}
	if rows >= 3 {
		p["region"] = []Op{fill(rows, cols), P("DECSTBM", 2, rows-1), S([]int{43}), P("CUP", 2, (cols+1)/2)}
		p["below"] = []Op{fill(rows, cols), P("DECSTBM", 1, rows-1), S([]int{41}), P("CUP", rows, cols)}
		p["above"] = []Op{fill(rows, cols), P("DECSTBM", 2, rows), S([]int{47}), P("CUP", 1, 1)}
	} else {
		p["bottom"] = []Op{fill(rows, cols), S([]int{43}), P("CUP", rows, 1)}
	}
	return p
}

// Exhaustive enumerates, for one size and prefix, all sequences over the
// alphabet of exactly the given length.
func Exhaustive(rows, cols int, pname string, pre []Op, alpha []Op, length int, emit func(*Scn)) {
	idx := make([]int, length)
	for {
		ops := append([]Op(nil), pre...)
		for _, i := range idx {
			ops = append(ops, alpha[i])
		}
		emit(&Scn{Kind: fmt.Sprintf("ex%d-%s", length, pname), Cols: cols, Rows: rows, Pre: len(pre), Ops: ops})
		k := length - 1
		for k >= 0 {
			idx[k]++
			if idx[k] < len(alpha) {
				break
			}
			idx[k] = 0
			k--
		}
		if k < 0 {
			return
		}
	}
}

var narrow = []string{"a", "b", "c", "x", "y", "z", "é", "é", "~", "#", " "}
var wide = []string{"世", "界", "😀", "語"}

// odd are printable characters that uniseg measures 3 and 4 columns wide
// (U+2E3A TWO-EM DASH, U+2E3B THREE-EM DASH).
var odd = []string{"⸺", "⸻"}

func randParam(rng *rand.Rand, size int) []int {
	switch rng.Intn(10) {
	case 0:
		return nil
	case 1:
		return []int{0}
	case 2:
		return []int{1}
	case 3:
		return []int{size}
	case 4:
		return []int{size + 1 + rng.Intn(3)}
	case 5:
		return []int{size - 1}
	case 6:
		return []int{size * 3}
	}
	return []int{1 + rng.Intn(size)}
}

func randColorPs(rng *rand.Rand, base int) [][]int {
	r, g, b := rng.Intn(256), rng.Intn(256), rng.Intn(256)
	switch rng.Intn(5) {
	case 0:
		return [][]int{{base}, {5}, {rng.Intn(256)}}
	case 1:
		return [][]int{{base, 5, rng.Intn(256)}}
	case 2:
		return [][]int{{base}, {2}, {r}, {g}, {b}}
	case 3:
		return [][]int{{base, 2, r, g, b}}
	}
	return [][]int{{base, 2, -1, r, g, b}}
}

// RandSGR builds a well-formed SGR parameter list.
func RandSGR(rng *rand.Rand) Op {
	if rng.Intn(8) == 0 {
		return S()
	}
	var ps [][]int
	for n := 1 + rng.Intn(3); n > 0; n-- {
		switch rng.Intn(12) {
		case 0:
			ps = append(ps, []int{0})
		case 1:
			ps = append(ps, []int{[]int{1, 2, 3, 5, 7, 8, 9, 21}[rng.Intn(8)]})
		case 2:
			ps = append(ps, []int{[]int{22, 23, 24, 25, 27, 28, 29}[rng.Intn(7)]})
		case 3:
			ps = append(ps, []int{30 + rng.Intn(8)})
		case 4:
			ps = append(ps, []int{40 + rng.Intn(8)})
		case 5:
			ps = append(ps, []int{90 + rng.Intn(8)})
		case 6:
			ps = append(ps, []int{100 + rng.Intn(8)})
		case 7:
			ps = append(ps, []int{[]int{39, 49, 59}[rng.Intn(3)]})
		case 8:
			ps = append(ps, randColorPs(rng, 38)...)
		case 9:
			ps = append(ps, randColorPs(rng, 48)...)
		case 10:
			ps = append(ps, randColorPs(rng, 58)...)
		case 11:
			if rng.Intn(2) == 0 {
				ps = append(ps, []int{4})
			} else {
				ps = append(ps, []int{4, rng.Intn(6)})
			}
		}
	}
	return Op{Op: "SGR", Sgr: ps}
}

// GenRandom builds one random operation sequence.
func GenRandom(rng *rand.Rand, maxCols, maxRows, minLen, maxLen int) *Scn {
	cols, rows := 2+rng.Intn(maxCols-1), 2+rng.Intn(maxRows-1)
	n := minLen + rng.Intn(maxLen-minLen+1)
	sc := &Scn{Kind: "random", Cols: cols, Rows: rows}
	wideBias := rng.Intn(4) == 0
	// one scenario in five also prints the odd-width characters and one in five uses
	// huge parameters (not all: a rejection ends the judgement of its scenario)
	oddToo, hugeToo := rng.Intn(5) == 0, rng.Intn(5) == 0
	for len(sc.Ops) < n {
		switch x := rng.Intn(100); {
		case x < 38:
			for k := 1 + rng.Intn(cols+2); k > 0; k-- {
				if oddToo && rng.Intn(10) == 0 {
					sc.Ops = append(sc.Ops, T(odd[rng.Intn(len(odd))]))
				} else if rng.Intn(6) == 0 || (wideBias && rng.Intn(2) == 0) {
					sc.Ops = append(sc.Ops, T(wide[rng.Intn(len(wide))]))
				} else {
					sc.Ops = append(sc.Ops, T(narrow[rng.Intn(len(narrow))]))
				}
			}
		case x < 44:
			sc.Ops = append(sc.Ops, P("CR"))
			if rng.Intn(2) == 0 {
				sc.Ops = append(sc.Ops, P("LF"))
			}
		case x < 48:
			sc.Ops = append(sc.Ops, P([]string{"LF", "IND", "RI", "NEL"}[rng.Intn(4)]))
		case x < 58:
			var ps []int
			switch rng.Intn(6) {
			case 0:
			case 1:
				ps = []int{0, 0}
			case 2:
				ps = []int{1 + rng.Intn(rows)}
			case 3:
				ps = []int{rows + rng.Intn(3), cols + rng.Intn(3)}
			default:
				ps = []int{1 + rng.Intn(rows), 1 + rng.Intn(cols)}
			}
			if hugeToo && rng.Intn(6) == 0 {
				d := []string{"", "1", HugeDigits[rng.Intn(len(HugeDigits))], HugeDigits[rng.Intn(len(HugeDigits))]}
				sc.Ops = append(sc.Ops, H([]string{"CUP", "HVP", "DECSTBM"}[rng.Intn(3)], d[rng.Intn(4)], d[rng.Intn(4)]))
				continue
			}
			sc.Ops = append(sc.Ops, Op{Op: []string{"CUP", "CUP", "CUP", "HVP"}[rng.Intn(4)], Ps: ps})
		case x < 72:
			o := nOps[rng.Intn(len(nOps))]
			size := cols
			if vertical(o) {
				size = rows
			}
			if hugeToo && rng.Intn(4) == 0 {
				sc.Ops = append(sc.Ops, H(o, HugeDigits[rng.Intn(len(HugeDigits))]))
				continue
			}
			sc.Ops = append(sc.Ops, Op{Op: o, Ps: randParam(rng, size)})
		case x < 78:
			o := []string{"ED", "EL"}[rng.Intn(2)]
			var ps []int
			if k := rng.Intn(4); k < 3 {
				ps = []int{k}
			}
			sc.Ops = append(sc.Ops, Op{Op: o, Ps: ps})
		case x < 82:
			var ps []int
			switch rng.Intn(5) {
			case 0:
			case 1:
				ps = []int{1 + rng.Intn(rows)}
			case 2:
				ps = []int{0, rows + rng.Intn(3)}
			default:
				t := 1 + rng.Intn(rows)
				ps = []int{t, t + rng.Intn(rows-t+2)}
			}
			sc.Ops = append(sc.Ops, Op{Op: "DECSTBM", Ps: ps})
		case x < 86:
			sc.Ops = append(sc.Ops, P([]string{"DECSC", "DECRC", "DECSC", "DECRC", "SC1048", "RC1048"}[rng.Intn(6)]))
		case x < 89:
			sc.Ops = append(sc.Ops, P([]string{"ALTON", "ALTOFF", "ALTON", "ALTOFF", "ALT47ON", "ALT47OFF", "ALT1047ON", "ALT1047OFF"}[rng.Intn(8)]))
		default:
			sc.Ops = append(sc.Ops, RandSGR(rng))
		}
	}
	return sc
}

// Fixed are hand-written corner cases (DESIGN.md section 5, C05/C06 "P").
func Fixed() []*Scn {
	f := func(kind string, cols, rows int, ops ...Op) *Scn {
		return &Scn{Kind: "fixed-" + kind, Cols: cols, Rows: rows, Ops: ops}
	}
	return []*Scn{
		f("il-over", 4, 3, T("aaaabbbbcccc"), P("CUP", 1, 2), P("IL", 5)),
		f("dl-over", 4, 3, T("aaaabbbbcccc"), P("CUP", 1, 2), P("DL", 5)),
		f("il-exact", 4, 3, T("aaaabbbbcccc"), P("CUP", 2, 1), P("IL", 2)),
		f("ich-bg", 5, 2, T("abcde"), P("CUP", 1, 2), S([]int{41}), P("ICH", 2)),
		f("cud-below", 3, 4, P("DECSTBM", 1, 2), P("CUP", 4, 1), P("CUD", 1), P("CUP", 3, 1), P("CUD", 1)),
		f("cuu-above", 3, 4, P("DECSTBM", 3, 4), P("CUP", 1, 1), P("CUU", 1), P("CUP", 2, 1), P("CUU", 5)),
		f("cup-zero", 3, 3, T("ab"), P("CUP", 0, 0), T("x")),
		f("stbm-zero", 3, 3, P("DECSTBM", 0, 2), P("CUP", 2, 1), P("LF"), T("x")),
		f("stbm-over", 3, 3, P("DECSTBM", 1, 100), P("CUP", 3, 1), P("CUD", 9), P("LF")),
		f("ri-top", 3, 3, P("DECSTBM", 2, 3), P("CUP", 1, 1), P("RI"), T("x")),
		f("wrap-print", 3, 2, T("abc"), T("d"), T("ef"), T("g")),
		f("wrap-cr", 3, 2, T("abc"), P("CR"), T("d")),
		f("wrap-cup", 3, 2, T("abc"), P("CUP", 1, 3), T("d")),
		f("wide-edge", 3, 2, T("ab"), T("世"), T("c")),
		f("wide-over-head", 4, 2, T("世a"), P("CUP", 1, 1), T("x")),
		f("wide-over-tail", 4, 2, T("世a"), P("CUP", 1, 2), T("x")),
		f("alt-bg", 3, 2, T("ab"), S([]int{41}), P("ALTON"), T("c"), P("ALTOFF"), S(), P("ALTON")),
		f("alt47", 4, 3, T("AB"), P("CR"), P("LF"), T("CD"), P("ALT47ON"), P("CUP"), P("ED", 2), T("XYZ"), P("ALT47OFF"), T("e"),
			P("ALT47ON"), T("f"), P("ALT47OFF")),
		f("alt1047", 4, 3, T("AB"), P("CR"), P("LF"), T("CD"), P("ALT1047ON"), P("CUP"), T("XYZ"), S([]int{44}), P("ALT1047OFF"), T("e"),
			P("ALT1047ON"), T("f"), P("ALT47OFF"), P("ALT1047OFF")),
		f("alt-mixed", 4, 3, T("AB"), P("ALT47ON"), T("xy"), P("ALTON"), T("z"), P("ALT47OFF"), T("C"), P("ALT1047ON"), P("ALTOFF"),
			P("ALT47ON"), T("w"), P("ALT1047OFF"), P("ALTON"), P("ALT1047OFF")),
		f("sc1048", 4, 3, P("CUP", 2, 3), S([]int{1}), P("SC1048"), P("CUP"), S(), P("RC1048"), T("x"), P("DECRC"), P("ALTON"), P("RC1048"),
			P("CUP", 3, 2), P("SC1048"), P("ALTOFF"), P("ALT47ON"), P("DECRC")),
		f("sgr21", 4, 2, S([]int{21}), T("X"), S([]int{24}), T("y"), S([]int{4}, []int{21}), T("z"), S([]int{21}, []int{4, 3}), T("w")),
		f("decrc-none", 3, 2, T("ab"), S([]int{1}), P("DECRC")),
		f("sd-zero", 3, 3, T("abcdefghi"), P("SD", 0), P("SU", 0)),
		f("nel-bottom", 3, 2, T("abc"), P("CUP", 2, 2), P("NEL"), P("CNL", 1), P("CPL", 5)),
		// characters measured wider than two columns: a cell is narrow or wide, never wider
		f("odd-2x2", 2, 2, T("⸻")),
		f("odd-2x2-more", 2, 2, T("⸺"), T("⸻"), T("x")),
		f("odd-then-x", 8, 2, T("⸻x"), P("CR"), P("LF"), T("⸺x")),
		f("odd-over", 8, 2, T("⸻"), P("CUP", 1, 3), T("x"), P("CUP", 1, 2), T("y"), P("CUP", 1, 1), T("z")),
		f("odd-edge", 4, 2, T("abc"), T("⸻"), T("d")),
		f("odd-erase", 6, 2, T("a⸻b⸺"), P("CUP", 1, 2), P("ECH", 1), P("CUP", 1, 4), P("DCH", 1), P("CUP", 1, 1), P("ICH", 2), P("EL", 1)),
		f("odd-wrap", 3, 3, T("ab⸻⸺c⸻")),
		// parameters of 20 digits and more (2^64+1, 2^64+3, 2^64+2, 2^64, 10^30): beyond the screen like any other large value
		f("huge-moves", 10, 5, T("abcdefghij"), P("CUP"), H("CUD", "18446744073709551617"), H("CUF", "18446744073709551617"), P("CUP"),
			H("CUP", "18446744073709551617", "18446744073709551617"), P("CUP"), H("VPA", "18446744073709551619"),
			H("CHA", "18446744073709551618"), H("CUU", "18446744073709551616"), H("CUB", "1000000000000000000000000000000")),
		f("huge-erase", 10, 5, T("abcdefghijABCDEFGHIJ"), P("CUP"), H("ECH", "18446744073709551617"), P("CUP", 2, 3), H("ED", "18446744073709551618"),
			H("EL", "18446744073709551617"), H("DCH", "18446744073709551617"), P("CUP", 1, 2), H("ICH", "18446744073709551618")),
		f("huge-lines", 4, 5, T("aaaabbbbccccddddeeee"), P("CUP", 2, 1), H("IL", "18446744073709551617"), T("x"), H("SU", "18446744073709551617"),
			T("y"), H("DECSTBM", "18446744073709551617", "18446744073709551619"), T("z"), H("SD", "18446744073709551616"), H("DL", "18446744073709551617")),
	}
}

// SgrChains walk systematically through the SGR vocabulary: every
// attribute / colour setting followed by every resetting code (and SGR 0),
// with a character printed after each so that the pen reaches the grid.
func SgrChains() []*Scn {
	sets := [][][]int{{{1}}, {{2}}, {{3}}, {{4}}, {{5}}, {{7}}, {{8}}, {{9}}, {{21}}, {{4, 3}}, {{4, 5}}, {{31}}, {{42}}, {{95}}, {{103}},
		{{38}, {5}, {100}}, {{48}, {2}, {1}, {2}, {3}}, {{58, 5, 7}}, {{38, 2, -1, 9, 8, 7}}, {{1}, {2}, {3}, {4}, {5}, {7}, {8}, {9}}, {{38}, {5}, {21}, {21}, {58}, {5}, {21}}}
	resets := [][]int{{0}, {22}, {23}, {24}, {25}, {27}, {28}, {29}, {39}, {49}, {59}, {4, 0}}
	var out []*Scn
	for _, s := range sets {
		sc := &Scn{Kind: "sgr-chain", Cols: 6, Rows: 2}
		for _, r := range resets {
			sc.Ops = append(sc.Ops, S(), Op{Op: "SGR", Sgr: s}, T("a"), S(r), T("b"), P("EL", 2), P("CR"))
		}
		// all resets in one list, and the empty list
		sc.Ops = append(sc.Ops, Op{Op: "SGR", Sgr: s}, Op{Op: "SGR", Sgr: resets[1:]}, T("c"), Op{Op: "SGR", Sgr: s}, S(), T("d"))
		out = append(out, sc)
	}
	return out
}
