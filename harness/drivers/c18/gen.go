package c18

import (
	"fmt"
	"math/rand"
	"os"
	"regexp"
	"sort"
	"strings"
	"sync"

	"github.com/rivo/uniseg"

	"git.sr.ht/~rockorager/vaxis"
)

func setenv(k, v string) { os.Setenv(k, v) }

// ---- measured coverage ---------------------------------------------------

type Cov struct {
	mu         sync.Mutex
	attrPairs  map[string]map[[2]uint8]bool // producer -> (prev attr, next attr)
	usPairs    map[string]map[[2]uint8]bool
	clsPairs   map[string]map[[3]int]bool // producer -> (channel, prev class, next class)
	triPairs   map[string]map[[2]int]bool // producer -> (prev class triple, next class triple)
	forms      map[string]int
	fuzzN      int
	fuzzTrunc  int
	cells      int
	rtScn      int
	lossyScn   int
	legacyScn  int
	longest    int
	linkPairs  map[string]map[[2]int]bool // producer -> (prev link state, next link state)
	linkScn    int
	linkTail   int // scenarios whose last cell carries a hyperlink
	osc8Open   int
	osc8Close  int
	stallScn   int // scenarios run under the stalled-parser schedule
	stallTimer int // ... in which the stall was ended by the library's Escape timer having run
	stallCap   int // ... in which no timer ran while the parser was held (none was pending)
	stallNoEsc int // ... whose string had no ESC to stall after
}

// stall records one stalled parse: 1 ended by a timer callback, 0 by the cap, -1 no ESC in the string.
func (c *Cov) stall(how int) {
	c.mu.Lock()
	c.stallScn++
	switch how {
	case 1:
		c.stallTimer++
	case 0:
		c.stallCap++
	default:
		c.stallNoEsc++
	}
	c.mu.Unlock()
}

func NewCov() *Cov {
	return &Cov{attrPairs: map[string]map[[2]uint8]bool{}, usPairs: map[string]map[[2]uint8]bool{},
		clsPairs: map[string]map[[3]int]bool{}, triPairs: map[string]map[[2]int]bool{}, forms: map[string]int{},
		linkPairs: map[string]map[[2]int]bool{}}
}

func (c *Cov) osc8(ln int) {
	c.mu.Lock()
	if ln == 0 {
		c.osc8Close++
	} else {
		c.osc8Open++
	}
	c.mu.Unlock()
}

// linkState classifies a cell's hyperlink relative to its predecessor's: 0 none, 1 the same
// URI and parameters, 2 the same URI with other parameters, 3 another URI (after state 0 only 0 and 3
// can follow: 14 ordered pairs).
func linkState(prev, n StyleD) int {
	switch {
	case n.L == "":
		return 0
	case n.L == prev.L && n.LP == prev.LP:
		return 1
	case n.L == prev.L:
		return 2
	}
	return 3
}

// Class of a colour: 0 default, 1 index 0-7, 2 index 8-15, 3 index 16-255, 4 direct.
func Class(c uint32) int {
	p := vaxis.Color(c).Params()
	switch {
	case len(p) == 3:
		return 4
	case len(p) == 0:
		return 0
	case p[0] < 8:
		return 1
	case p[0] < 16:
		return 2
	}
	return 3
}

var numRe = regexp.MustCompile(`[0-9]+`)

func (c *Cov) form(raw string) {
	// shape: the leading code is kept, every later number becomes #
	i := 0
	shape := numRe.ReplaceAllStringFunc(raw, func(s string) string {
		i++
		if i == 1 {
			return s
		}
		return "#"
	})
	c.mu.Lock()
	c.forms[shape]++
	c.mu.Unlock()
}

func (c *Cov) fuzz(raw string) {
	c.mu.Lock()
	c.fuzzN++
	if truncRe.MatchString(raw) {
		c.fuzzTrunc++
	}
	c.mu.Unlock()
}

// a list ending inside an extended-colour form
var truncRe = regexp.MustCompile(`(^|;)(38|48|58)((;|:)[25]?((;|:)[0-9]*){0,2})?$`)

func (c *Cov) scenario(sc *Scn, rt bool) {
	c.mu.Lock()
	defer c.mu.Unlock()
	key := sc.Prod
	if sc.Legacy {
		key += "+legacy"
		c.legacyScn++
	}
	if rt {
		c.rtScn++
	} else {
		c.lossyScn++
		key += "+fallback"
	}
	c.cells += len(sc.Cells)
	if len(sc.Cells) > c.longest {
		c.longest = len(sc.Cells)
	}
	for _, m := range []map[string]map[[2]uint8]bool{c.attrPairs, c.usPairs} {
		if m[key] == nil {
			m[key] = map[[2]uint8]bool{}
		}
	}
	if c.clsPairs[key] == nil {
		c.clsPairs[key] = map[[3]int]bool{}
		c.triPairs[key] = map[[2]int]bool{}
	}
	prev := StyleD{}
	linked, ps := false, 0
	for _, x := range sc.Cells {
		n := x.S
		if n.L != "" || linked {
			if c.linkPairs[key] == nil {
				c.linkPairs[key] = map[[2]int]bool{}
			}
			st := linkState(prev, n)
			c.linkPairs[key][[2]int{ps, st}] = true
			ps = st
			linked = true
		}
		c.attrPairs[key][[2]uint8{prev.At, n.At}] = true
		c.usPairs[key][[2]uint8{prev.Us, n.Us}] = true
		pc := [3]int{Class(prev.Fg), Class(prev.Bg), Class(prev.Ul)}
		nc := [3]int{Class(n.Fg), Class(n.Bg), Class(n.Ul)}
		for ch := 0; ch < 3; ch++ {
			c.clsPairs[key][[3]int{ch, pc[ch], nc[ch]}] = true
		}
		c.triPairs[key][[2]int{pc[0]*25 + pc[1]*5 + pc[2], nc[0]*25 + nc[1]*5 + nc[2]}] = true
		prev = n
	}
	if linked {
		c.linkScn++
		if prev.L != "" {
			c.linkTail++
		}
	}
}

// Report returns the measured coverage.
func (c *Cov) Report() map[string]any {
	c.mu.Lock()
	defer c.mu.Unlock()
	per := map[string]any{}
	for k := range c.attrPairs {
		per[k] = map[string]int{
			"attr_mask_pairs_of_16384":        len(c.attrPairs[k]),
			"underline_style_pairs_of_36":     len(c.usPairs[k]),
			"colour_class_pairs_of_75":        len(c.clsPairs[k]),
			"colour_class_triple_pairs_15625": len(c.triPairs[k]),
			"hyperlink_state_pairs_of_14":     len(c.linkPairs[k]),
		}
	}
	forms := make([]string, 0, len(c.forms))
	for f := range c.forms {
		forms = append(forms, f)
	}
	sort.Strings(forms)
	return map[string]any{"per_producer": per, "sgr_forms_produced": forms, "fuzz_lists": c.fuzzN,
		"fuzz_lists_truncated_extended_colour": c.fuzzTrunc, "cells_encoded": c.cells,
		"scenarios_round_trip": c.rtScn, "scenarios_fallback_no_round_trip": c.lossyScn,
		"scenarios_legacy_sgr": c.legacyScn, "longest_sequence_cells": c.longest,
		"scenarios_with_hyperlinked_cells": c.linkScn, "scenarios_last_cell_hyperlinked": c.linkTail,
		"hyperlinks_opened_by_producers": c.osc8Open, "hyperlink_closings_by_producers": c.osc8Close,
		"parses_with_parser_stalled_after_an_esc": c.stallScn, "stalls_during_which_an_escape_timer_ran": c.stallTimer,
		"stalls_with_no_timer_pending": c.stallCap, "stalls_without_esc_in_string": c.stallNoEsc}
}

// ---- generators ------------------------------------------------------------

func idx(n int) uint32                   { return uint32(vaxis.IndexColor(uint8(n))) }
func rgbc(r, g, b int) uint32            { return uint32(vaxis.RGBColor(uint8(r), uint8(g), uint8(b))) }
func attr(m int) uint8                   { return uint8(m) << 1 } // 7-bit mask -> vaxis.AttributeMask bits
func letter(i int) string                { return string(rune('a' + i%26)) }
func pick[T any](r *rand.Rand, xs []T) T { return xs[r.Intn(len(xs))] }

// classColour returns a random colour of the given class.
func classColour(rng *rand.Rand, class int) uint32 {
	switch class {
	case 1:
		return idx(rng.Intn(8))
	case 2:
		return idx(8 + rng.Intn(8))
	case 3:
		return idx(pick(rng, []int{16, 17, 100, 231, 232, 254, 255, 16 + rng.Intn(240)}))
	case 4:
		return pick(rng, []uint32{rgbc(0, 0, 0), rgbc(255, 255, 255), rgbc(1, 2, 3), rgbc(rng.Intn(256), rng.Intn(256), rng.Intn(256))})
	}
	return 0
}

// pairChain returns a node sequence in which every ordered pair (a, b) of
// 0..n-1, a = b included, occurs as neighbours.
func pairChain(n int) []int {
	var out []int
	for a := 0; a < n; a++ {
		for b := a; b < n; b++ {
			out = append(out, a, b)
		}
	}
	return out
}

// chunk cuts a style chain into scenarios of at most size cells, overlapping
// by one cell so that no neighbour pair is lost at a cut.
func chunk(kind string, chain []StyleD, size int) [][]CellD {
	var out [][]CellD
	for i := 0; i < len(chain); i += size - 1 {
		j := i + size
		if j > len(chain) {
			j = len(chain)
		}
		cs := make([]CellD, 0, j-i)
		for k := i; k < j; k++ {
			cs = append(cs, CellD{G: letter(k), S: chain[k]})
		}
		out = append(out, cs)
		if j == len(chain) {
			break
		}
	}
	return out
}

// AttrChain: every ordered pair of the 128 attribute masks; ctx supplies the
// other channels (nil: default colours).
func AttrChain(ctx func(i int) StyleD) []StyleD {
	nodes := pairChain(128)
	out := make([]StyleD, len(nodes))
	for i, m := range nodes {
		if ctx != nil {
			out[i] = ctx(i)
		}
		out[i].At = attr(m)
	}
	return out
}

// ColourChain: every ordered pair of (fg class, bg class, underline-colour
// class) triples, fresh random representatives at every occurrence.
func ColourChain(rng *rand.Rand) []StyleD {
	nodes := pairChain(125)
	out := make([]StyleD, len(nodes))
	for i, t := range nodes {
		out[i] = StyleD{Fg: classColour(rng, t/25), Bg: classColour(rng, (t/5)%5), Ul: classColour(rng, t%5)}
		if t%5 != 0 {
			out[i].Us = uint8(1 + rng.Intn(5))
		}
	}
	return out
}

// SameClassChain: neighbouring cells whose colours stay in the same class but
// change value, or stay identical (nothing must be emitted, nothing lost).
func SameClassChain(rng *rand.Rand) []StyleD {
	var out []StyleD
	for cl := 0; cl < 5; cl++ {
		for k := 0; k < 12; k++ {
			s := StyleD{Fg: classColour(rng, cl), Bg: classColour(rng, cl), Ul: classColour(rng, cl), Us: 1}
			out = append(out, s)
			if k%3 == 0 {
				out = append(out, s)
			}
		}
	}
	return out
}

// UnderlineChain: every ordered pair of (underline style, underline-colour class).
func UnderlineChain(rng *rand.Rand) []StyleD {
	nodes := pairChain(30)
	out := make([]StyleD, len(nodes))
	for i, t := range nodes {
		out[i] = StyleD{Us: uint8(t / 5), Ul: classColour(rng, t%5)}
	}
	return out
}

// PaletteSweep: every palette index on every channel, and a spread of direct colours.
func PaletteSweep() []StyleD {
	var out []StyleD
	for i := 0; i < 256; i++ {
		out = append(out, StyleD{Fg: idx(i), Bg: idx(255 - i), Ul: idx((i + 128) % 256), Us: 1})
	}
	for _, v := range []int{0, 1, 2, 9, 10, 99, 100, 127, 128, 199, 200, 254, 255} {
		out = append(out, StyleD{Fg: rgbc(v, 0, 255-v), Bg: rgbc(0, v, v), Ul: rgbc(255, 255, v), Us: 3})
	}
	return out
}

var pool = []string{"a", "Z", "0", " ", "~", "m", "[", ";", ":", "é", "ß", "世", "界", "😀", "👩‍🚀", "☺️", "🇯🇵", "é", "한", "กำ", " ", "ẍ̣"}
var narrowPool = []string{"a", "Z", "0", "~", "m", "[", ";", ":", "é", "ß", "#"}

func RandStyle(rng *rand.Rand) StyleD {
	s := StyleD{}
	switch rng.Intn(5) {
	case 0:
		return s
	case 1:
		s.At = attr(rng.Intn(128))
		return s
	}
	s.Fg, s.Bg = classColour(rng, rng.Intn(5)), classColour(rng, rng.Intn(5))
	if rng.Intn(2) == 0 {
		s.Us = uint8(rng.Intn(6))
		s.Ul = classColour(rng, rng.Intn(5))
	}
	if rng.Intn(2) == 0 {
		s.At = attr(rng.Intn(128))
	}
	return s
}

// segmentsBack reports whether the concatenation of the graphemes segments
// back into exactly these graphemes (otherwise no codec could return them).
func segmentsBack(gs []string) bool {
	gr := uniseg.NewGraphemes(strings.Join(gs, ""))
	i := 0
	for gr.Next() {
		if i >= len(gs) || gr.Str() != gs[i] {
			return false
		}
		i++
	}
	return i == len(gs)
}

// RandCells: n cells, graphemes from the pool, styles random with runs of
// equal style (so that some neighbours need no SGR at all).
func RandCells(rng *rand.Rand, n int, graphemes []string) []CellD {
	for {
		cs := make([]CellD, n)
		gs := make([]string, n)
		st := RandStyle(rng)
		for i := range cs {
			if rng.Intn(3) != 0 {
				st = RandStyle(rng)
			}
			gs[i] = pick(rng, graphemes)
			cs[i] = CellD{G: gs[i], S: st}
		}
		if segmentsBack(gs) {
			return cs
		}
	}
}

// LongCells: a sequence whose encoding is several input-buffer lengths long,
// made of multi-code-point graphemes, with offset extra leading narrow cells
// so that different clusters straddle any fixed byte boundary.
func LongCells(offset, n int) []CellD {
	var cs []CellD
	for i := 0; i < offset; i++ {
		cs = append(cs, CellD{G: "a"})
	}
	gs := []string{"👩‍🚀", "é", "🇯🇵", "☺️"}
	for i := 0; i < n; i++ {
		s := StyleD{}
		if i%7 == 3 {
			s.At = attr(1)
		}
		cs = append(cs, CellD{G: gs[i%len(gs)], S: s})
	}
	return cs
}

// BoundaryCells: narrow default-style padding (one byte per cell, no control
// sequence) with a two-code-point cluster placed so that its first code point
// ends shift bytes before/after each power-of-two byte offset from 4 KiB to
// 128 KiB of the encoded string - the sizes at which readers and scratch
// buffers are commonly capped. A consumer that re-segments at such an offset
// tears the cluster apart.
func BoundaryCells(shift int) []CellD {
	var cs []CellD
	pos := 0 // bytes encoded so far
	for _, b := range []int{4096, 8192, 16384, 32768, 65536, 131072} {
		target := b + shift - 1 // the cluster's first byte: "e" ends at target+1
		for pos < target {
			cs = append(cs, CellD{G: "a"})
			pos++
		}
		cs = append(cs, CellD{G: "e\u0301"})
		pos += 3
	}
	for i := 0; i < 8; i++ {
		cs = append(cs, CellD{G: "z"})
	}
	return cs
}

// Fixed: hand-written corner cases.
func Fixed() [][]CellD {
	c := func(g string, s StyleD) CellD { return CellD{G: g, S: s} }
	bold, dim := attr(1), attr(2)
	return [][]CellD{
		{},                 // nothing at all
		{c("a", StyleD{})}, // one default cell: no SGR expected, none needed
		{c("a", StyleD{At: bold | dim}), c("b", StyleD{At: dim}), c("c", StyleD{At: bold | dim}), c("d", StyleD{At: bold}), c("e", StyleD{})},
		{c("a", StyleD{At: bold}), c("b", StyleD{At: dim}), c("c", StyleD{At: bold})},
		// an underline colour on one cell must not leak onto the next ones
		{c("a", StyleD{Ul: idx(1), Us: 3}), c("b", StyleD{Us: 3}), c("c", StyleD{})},
		{c("a", StyleD{Ul: rgbc(1, 2, 3), Us: 1}), c("b", StyleD{Fg: idx(5)}), c("c", StyleD{Fg: idx(5)})},
		// the last cell is styled: the string must end reset
		{c("a", StyleD{}), c("b", StyleD{Fg: rgbc(9, 9, 9), Bg: idx(200), Ul: idx(7), Us: 5, At: attr(127)})},
		// index 0 and direct black are not the default colour
		{c("a", StyleD{Fg: idx(0), Bg: idx(0), Ul: idx(0), Us: 1}), c("b", StyleD{Fg: rgbc(0, 0, 0), Bg: rgbc(0, 0, 0), Ul: rgbc(0, 0, 0), Us: 1}), c("c", StyleD{})},
		// graphemes that look like SGR syntax
		{c("m", StyleD{At: bold}), c("[", StyleD{}), c("3", StyleD{Fg: idx(1)}), c("1", StyleD{Fg: idx(1)}), c("m", StyleD{})},
	}
}

// StalledParse: short sequences of one-byte graphemes whose encodings are read by ParseStyledString while its
// parser is held up after one ESC (the first, the last - the closing reset -, one in between).
func StalledParse(rng *rand.Rand, thorough bool) []*Scn {
	c := func(g string, s StyleD) CellD { return CellD{G: g, S: s} }
	bold := attr(1)
	seqs := [][]CellD{
		{c("x", StyleD{At: bold})},
		{c("a", StyleD{At: bold}), c("b", StyleD{}), c("c", StyleD{Fg: idx(1)})},
		{c("m", StyleD{Fg: rgbc(1, 2, 3), Bg: idx(200)}), c("[", StyleD{Ul: idx(7), Us: 3}), c("1", StyleD{At: attr(127)})},
	}
	n := 3
	if thorough {
		n = 24
	}
	for i := 0; i < n; i++ {
		seqs = append(seqs, RandCells(rng, 1+rng.Intn(6), []string{"a", "Z", "0", "~", "m", "[", ";", ":"}))
	}
	var out []*Scn
	for i, cs := range seqs {
		for j, p := range []string{"cells", "ss"} {
			st := 1 + rng.Intn(40)
			if i < 2 {
				st = 1 + (i+j)%2 // the first ESC; the second (of the first sequence: the closing reset)
			}
			out = append(out, &Scn{Kind: "stalled-parse", Prod: p, Cells: cs, Stall: st})
		}
	}
	return out
}

// JoiningNeighbours: neighbouring cells each of which holds a complete grapheme cluster, but whose texts written
// back to back have no cluster boundary between them (UAX #29: Hangul L + V and LV + T, an emoji and a skin-tone
// modifier (Extend), two regional indicators, a letter and a lone combining mark, a symbol and a variation selector), in
// the same style (nothing need be written between them) and in different styles.
func JoiningNeighbours(rng *rand.Rand) [][]CellD {
	pairs := [][2]string{{"\u1100", "\u1161"}, {"\uac00", "\u11a8"}, {"\U0001F44D", "\U0001F3FD"}, {"\U0001F1EF", "\U0001F1F5"},
		{"e", "\u0301"}, {"\u263a", "\ufe0f"}}
	var out [][]CellD
	for _, p := range pairs {
		for k := 0; k < 3; k++ {
			st := StyleD{}
			switch k {
			case 1:
				st = StyleD{Fg: idx(1)}
			case 2:
				st = RandStyle(rng)
			}
			out = append(out, []CellD{{G: p[0], S: st}, {G: p[1], S: st}})                                         // the same style
			out = append(out, []CellD{{G: "a", S: StyleD{}}, {G: p[0], S: st}, {G: p[1], S: st}, {G: "b", S: st}}) // in the middle
			out = append(out, []CellD{{G: p[0], S: st}, {G: p[1], S: StyleD{At: attr(1 + rng.Intn(127))}}})        // an SGR falls between them
		}
	}
	// a hyperlink that ends, begins or changes exactly where the two cells would join (the encoder restarts the
	// style there: an open link is part of it), alone, followed by more cells, and with a style of their own
	for i, p := range pairs {
		u := linkURIs[i%len(linkURIs)]
		out = append(out, []CellD{{G: p[0], S: StyleD{L: u, LP: "id=1"}}, {G: p[1], S: StyleD{}}})
		out = append(out, []CellD{{G: p[0], S: StyleD{L: u}}, {G: p[1], S: StyleD{}}, {G: "x", S: StyleD{At: attr(1)}}, {G: "y", S: StyleD{}}})
		out = append(out, []CellD{{G: "a", S: StyleD{}}, {G: p[0], S: StyleD{}}, {G: p[1], S: StyleD{L: u}}, {G: "b", S: StyleD{}}})
		out = append(out, []CellD{{G: p[0], S: StyleD{L: u, Fg: idx(2)}}, {G: p[1], S: StyleD{L: linkURIs[(i+1)%len(linkURIs)], Fg: idx(2)}}, {G: "z", S: StyleD{}}})
		out = append(out, []CellD{{G: p[0], S: StyleD{L: u}}, {G: p[1], S: StyleD{L: u}}, {G: "w", S: StyleD{}}})
	}
	// three in a row, and the second pair member repeated
	out = append(out, []CellD{{G: "\u1100"}, {G: "\u1161"}, {G: "\u11a8"}}, []CellD{{G: "\U0001F44D"}, {G: "\U0001F3FD"}, {G: "\U0001F3FD"}})
	return out
}

// ---- hyperlinked cells -------------------------------------------------------

var linkURIs = []string{"http://x", "https://example.com/a;b=m[1]?q=%20:8#f", "file:///tmp/a%20b", "mailto:a@b.c",
	// targets that end in a percent sign or a percent escape, and ones full of printf verbs: a URI is data, never a format
	"https://example.com/q?rate=100%", "https://example.com/My%20Docs%20", "http://h/%s%d%v%%%n%!x"}
var linkParams = []string{"", "id=1", "id=2", "id=a1:foo=bar"}

// LinkFixed: hand-written hyperlink cases (codecs only).
func LinkFixed() [][]CellD {
	c := func(g string, s StyleD) CellD { return CellD{G: g, S: s} }
	u, v := linkURIs[0], linkURIs[1]
	return [][]CellD{
		// a link that ends before the string does
		{c("a", StyleD{L: u, Fg: idx(1)}), c("b", StyleD{})},
		// the last cell is linked: the string must not leave the link open
		{c("a", StyleD{L: u, At: attr(1)})},
		{c("a", StyleD{L: u})},
		{c("a", StyleD{}), c("b", StyleD{L: v, LP: "id=1"})},
		// links changing between neighbours, with and without parameters
		{c("a", StyleD{L: u}), c("b", StyleD{L: v}), c("c", StyleD{L: v, LP: "id=7"}), c("d", StyleD{})},
		{c("a", StyleD{L: u, LP: "id=1"}), c("b", StyleD{L: u, LP: "id=1"}), c("c", StyleD{L: u, LP: "id=2"}), c("d", StyleD{L: u}), c("e", StyleD{})},
		// the link ends where every channel of the style changes
		{c("a", StyleD{L: u, Fg: rgbc(1, 2, 3), Bg: idx(200), Ul: idx(7), Us: 3, At: attr(127)}), c("b", StyleD{Bg: idx(3)}), c("c", StyleD{})},
		// one link over many style changes
		{c("a", StyleD{L: v, Fg: idx(1)}), c("b", StyleD{L: v, Fg: idx(9), At: attr(3)}), c("c", StyleD{L: v, At: attr(2)}), c("d", StyleD{L: v}), c("e", StyleD{L: v, Us: 3, Ul: rgbc(9, 8, 7)})},
		// linked multi-code-point graphemes and graphemes that look like control-string syntax
		{c("世", StyleD{L: u}), c("👩‍🚀", StyleD{L: u, LP: "id=x"}), c("é", StyleD{}), c("]", StyleD{L: v}), c("8", StyleD{L: v}), c(";", StyleD{L: u}), c("\\", StyleD{})},
		// parameters without a URI are no link
		{c("a", StyleD{LP: "id=1"}), c("b", StyleD{})},
		// percent signs at the end of the target and of the parameters
		{c("s", StyleD{}), c("a", StyleD{L: linkURIs[4]}), c("b", StyleD{}), c("c", StyleD{L: linkURIs[5], LP: "id=50%"}), c("d", StyleD{L: linkURIs[6]}), c("e", StyleD{})},
		{c("a", StyleD{L: linkURIs[5], Fg: idx(2)})},
	}
}

// LinkChain: every ordered pair of hyperlink states {none, u, u+id=1, u+id=2, v, v+id=1}
// between neighbours; styles from ctx (nil: default).
func LinkChain(ctx func(i int) StyleD) []StyleD {
	states := []StyleD{{}, {L: linkURIs[0]}, {L: linkURIs[0], LP: "id=1"}, {L: linkURIs[0], LP: "id=2"}, {L: linkURIs[1]}, {L: linkURIs[1], LP: "id=1"}}
	nodes := pairChain(len(states))
	out := make([]StyleD, len(nodes))
	for i, n := range nodes {
		if ctx != nil {
			out[i] = ctx(i)
		}
		out[i].L, out[i].LP = states[n].L, states[n].LP
	}
	return out
}

// RandLinkCells: random cells over which runs of hyperlinks are laid.
func RandLinkCells(rng *rand.Rand, n int, graphemes []string) []CellD {
	cs := RandCells(rng, n, graphemes)
	l, lp := "", ""
	for i := range cs {
		if i == 0 || rng.Intn(3) == 0 {
			l, lp = "", ""
			if rng.Intn(3) != 0 {
				l, lp = pick(rng, linkURIs), pick(rng, linkParams)
			}
		}
		cs[i].S.L, cs[i].S.LP = l, lp
	}
	return cs
}

// ---- arbitrary parameter lists ------------------------------------------------

var fuzzVals = []string{"", "0", "1", "2", "3", "4", "5", "6", "7", "9", "21", "22", "24", "29", "30", "37", "38", "39", "47", "48", "49",
	"58", "59", "90", "97", "100", "107", "255", "256", "300", "65536", "4294967296", "99999999999999999999"}

// FuzzSystematic: every list of up to three parameters over the codes that
// open multi-parameter forms, in semicolon and colon spelling; every prefix
// of every extended-colour form.
func FuzzSystematic() []string {
	var out []string
	alpha := []string{"", "0", "1", "2", "4", "5", "38", "48", "58", "256"}
	for _, sep := range []string{";", ":"} {
		for _, a := range alpha {
			out = append(out, a)
			for _, b := range alpha {
				out = append(out, a+sep+b)
				for _, c := range alpha {
					out = append(out, a+sep+b+sep+c)
				}
			}
		}
	}
	for _, code := range []string{"38", "48", "58"} {
		for _, sep := range []string{";", ":"} {
			for _, full := range [][]string{{code, "5", "7"}, {code, "2", "1", "2", "3"}, {code, "2", "", "1", "2", "3"}, {code, "2", "0", "1", "2", "3", "4"}} {
				for n := 1; n <= len(full); n++ {
					pre := strings.Join(full[:n], sep)
					out = append(out, pre, "1;"+pre, pre+";1", pre+sep)
				}
			}
		}
		// mixed spellings
		out = append(out, code+";5:7", code+":5;7", code+";2:1:2:3", code+":2;1;2;3", code+";2;1;2:3", code+":2::1:2", code+"::5:7", code+":5:256", code+";5;256", code+";2;256;256;256", code+":2:300:300:300")
	}
	for _, u := range []string{"4:0", "4:1", "4:5", "4:6", "4:", "4::", "4:3:1", "4:255", "4;3", "21", "4:3;58:5:1;59;24"} {
		out = append(out, u)
	}
	return out
}

// FuzzRandom: up to 6 parameters of up to 6 sub-parameters.
func FuzzRandom(rng *rand.Rand) string {
	var ps []string
	for i, n := 0, rng.Intn(7); i < n; i++ {
		var sub []string
		k := 1
		if rng.Intn(3) == 0 {
			k = 1 + rng.Intn(6)
		}
		for j := 0; j < k; j++ {
			if rng.Intn(4) == 0 {
				sub = append(sub, fmt.Sprint(rng.Intn(300)))
			} else {
				sub = append(sub, pick(rng, fuzzVals))
			}
		}
		ps = append(ps, strings.Join(sub, ":"))
	}
	return strings.Join(ps, ";")
}

// ---- the scenario list of a tier ----------------------------------------------------

const chunkSize = 64

func forProducers(kind string, chunks [][]CellD, prods []string, legacy bool, mask int) []*Scn {
	var out []*Scn
	for _, cs := range chunks {
		for _, p := range prods {
			if p == "render" && len(cs) == 0 {
				continue // a screen has at least one cell
			}
			sc := &Scn{Kind: kind, Prod: p, Legacy: legacy, Cells: cs}
			if p == "render" {
				sc.Mask = mask
			}
			out = append(out, sc)
		}
	}
	return out
}

var all3 = []string{"cells", "ss", "render"}

// Generate returns the scenarios of a tier.
func Generate(rng *rand.Rand, thorough bool) []*Scn {
	var out []*Scn
	add := func(s []*Scn) { out = append(out, s...) }

	// every attribute-mask pair, through every producer
	add(forProducers("attr-pairs", chunk("attr", AttrChain(nil), chunkSize), all3, false, MaskFull))
	// every colour-class-triple pair, underline pairs, same-class changes, the whole palette
	add(forProducers("colour-class-pairs", chunk("colour", ColourChain(rng), chunkSize), all3, false, MaskFull))
	add(forProducers("underline-pairs", chunk("ul", UnderlineChain(rng), chunkSize), all3, false, MaskFull))
	add(forProducers("same-class", chunk("same", SameClassChain(rng), chunkSize), all3, false, MaskFull))
	add(forProducers("palette", chunk("palette", PaletteSweep(), chunkSize), all3, false, MaskFull))
	add(forProducers("fixed", Fixed(), all3, false, MaskFull))

	// attribute pairs in random colour/underline contexts (both change at once)
	nctx := 1
	if thorough {
		nctx = 6
	}
	for k := 0; k < nctx; k++ {
		ch := AttrChain(func(int) StyleD { s := RandStyle(rng); return s })
		chunks := chunk("attr-ctx", ch, chunkSize)
		if !thorough {
			// a seeded quarter of it
			var sel [][]CellD
			for _, c := range chunks {
				if rng.Intn(4) == 0 {
					sel = append(sel, c)
				}
			}
			chunks = sel
		}
		add(forProducers("attr-pairs-in-colour-context", chunks, all3, false, MaskFull))
	}
	if thorough {
		for k := 0; k < 3; k++ {
			add(forProducers("colour-class-pairs", chunk("colour", ColourChain(rng), chunkSize), all3, false, MaskFull))
		}
	}

	// random cell sequences: all lengths from 0, Unicode graphemes for the codecs
	nrand := 300
	if thorough {
		nrand = 6000
	}
	for i := 0; i < nrand; i++ {
		n := rng.Intn(40)
		if i < 40 {
			n = i % 8
		}
		add(forProducers("random", [][]CellD{RandCells(rng, n, pool)}, []string{"cells", "ss"}, false, 0))
		add(forProducers("random", [][]CellD{RandCells(rng, n, narrowPool)}, []string{"render"}, false, MaskFull))
	}
	// hyperlinked cells through the two codecs (the renderer's hyperlinks belong to other properties)
	codecs := []string{"cells", "ss"}
	add(forProducers("links-fixed", LinkFixed(), codecs, false, 0))
	add(forProducers("link-pairs", chunk("link", LinkChain(nil), chunkSize), codecs, false, 0))
	nlctx := 2
	if thorough {
		nlctx = 20
	}
	for k := 0; k < nlctx; k++ {
		add(forProducers("link-pairs-in-style-context", chunk("link", LinkChain(func(int) StyleD { return RandStyle(rng) }), chunkSize), codecs, false, 0))
	}
	for i := 0; i < nrand/3; i++ {
		n := 1 + rng.Intn(30)
		if i < 12 {
			n = 1 + i%4
		}
		add(forProducers("random-links", [][]CellD{RandLinkCells(rng, n, pool)}, codecs, false, 0))
	}
	// long sequences (several parser buffers)
	nlong := 2
	if thorough {
		nlong = 12
	}
	for i := 0; i < nlong; i++ {
		add(forProducers("long", [][]CellD{LongCells(i, 1500+rng.Intn(300))}, []string{"cells", "ss"}, false, 0))
	}

	// clusters across power-of-two byte offsets of a long encoding
	shifts := []int{0}
	if thorough {
		shifts = []int{-2, -1, 0, 1, 2}
	}
	for _, sh := range shifts {
		add(forProducers("boundary", [][]CellD{BoundaryCells(sh)}, []string{"cells", "ss"}, false, 0))
	}

	// the renderer under capability fallbacks (palette instead of direct colour, plain
	// underline instead of styles): lossy by design, but whatever it writes must be read alike
	fb := chunk("fallback", ColourChain(rng), chunkSize)
	fbA := chunk("fallback", AttrChain(func(int) StyleD { return RandStyle(rng) }), chunkSize)
	for i, cs := range append(fb, fbA...) {
		if !thorough && i%8 != int(rng.Int31n(8)) {
			continue
		}
		for _, m := range []int{0, 1 << bitRGB, 1 << bitSU} {
			out = append(out, &Scn{Kind: "render-fallback", Prod: "render", Mask: m, Cells: cs})
		}
	}
	// incremental frames: pens carried over gaps
	for i := 0; i < nrand/3; i++ {
		out = append(out, &Scn{Kind: "render-sparse", Prod: "render", Mask: MaskFull, Sparse: true, Cells: RandCells(rng, 2+rng.Intn(30), narrowPool)})
	}

	// arbitrary parameter lists
	sys := FuzzSystematic()
	nf := 3000
	if thorough {
		nf = 60000
	}
	for i := 0; i < nf; i++ {
		sys = append(sys, FuzzRandom(rng))
	}
	for i := 0; i < len(sys); i += 50 {
		j := i + 50
		if j > len(sys) {
			j = len(sys)
		}
		out = append(out, &Scn{Kind: "fuzz", Fuzz: sys[i:j]})
	}

	// legacy (semicolon) spelling: cell encoder and renderer change their output
	lg := chunk("colour", ColourChain(rng), chunkSize)
	for i, cs := range lg {
		if !thorough && i%6 != int(rng.Int31n(6)) {
			continue
		}
		add(forProducers("colour-class-pairs", [][]CellD{cs}, all3, true, MaskFull))
	}
	add(forProducers("palette", chunk("palette", PaletteSweep(), chunkSize), all3, true, MaskFull))
	add(forProducers("fixed", Fixed(), all3, true, MaskFull))
	add(forProducers("links-fixed", LinkFixed(), []string{"cells", "ss"}, true, 0))
	for i := 0; i < nrand/12; i++ {
		add(forProducers("random-links", [][]CellD{RandLinkCells(rng, 1+rng.Intn(20), narrowPool)}, []string{"cells", "ss"}, true, 0))
	}
	for i := 0; i < nrand/4; i++ {
		add(forProducers("random", [][]CellD{RandCells(rng, rng.Intn(30), narrowPool)}, all3, true, MaskFull))
	}
	// (the families below were added later; they draw from rng last so that the scenarios above stay what they were)
	// ParseStyledString under the schedule "parser held up after an ESC" (run one at a time by the driver)
	out = append(out, StalledParse(rng, thorough)...)
	// neighbouring cells whose texts would join into one cluster (the two codecs; the renderer's are C01/C12's)
	add(forProducers("joining-neighbours", JoiningNeighbours(rng), []string{"cells", "ss"}, false, 0))
	return out
}
