// Package c18 drives the library's three SGR producers (vaxis.EncodeCells,
// StyledString.Encode, the renderer of a real Vaxis on a fake console) over
// cell sequences, lexes what they wrote with the independent harness lexer,
// and hands the very same SGR/grapheme string to the three SGR consumers
// (vaxis.ParseStyledString, Vaxis.NewStyledString, the embedded terminal's
// SGR handler through widgets/term VerifSGR). It records the producer's token
// stream, the cells it was given (the driver's own record) and what each
// consumer read; specs/codec/Codec_Trace.tla decides with the SGR oracle.
// A second scenario kind feeds arbitrary parameter lists to the consumers
// (must not panic).
package c18

import (
	"bufio"
	"fmt"
	"strings"
	"sync"
	"sync/atomic"
	"time"

	"github.com/rivo/uniseg"

	"git.sr.ht/~rockorager/vaxis"
	"git.sr.ht/~rockorager/vaxis/ansi"
	"git.sr.ht/~rockorager/vaxis/widgets/term"

	"verif/harness/drivers/c01"
	"verif/harness/lexer"
	"verif/harness/responder"
	"verif/harness/sess"
	"verif/harness/trace"
)

// ---- replay descriptor -------------------------------------------------

// StyleD is a style in the library's own value encoding (vaxis.Color raw
// values, vaxis.AttributeMask bits).
type StyleD struct {
	Fg, Bg, Ul uint32 `json:",omitempty"`
	Us, At     uint8  `json:",omitempty"`
	L, LP      string `json:",omitempty"` // hyperlink URI and its OSC 8 parameter string
}

type CellD struct {
	G string
	S StyleD
}

type Scn struct {
	Kind   string  // generator name
	Prod   string  `json:",omitempty"` // cells | ss | render ; empty for fuzz
	Legacy bool    `json:",omitempty"` // run with VAXIS_FORCE_LEGACY_SGR (semicolon colours)
	Mask   int     `json:",omitempty"` // render: responder capability mask
	Sparse bool    `json:",omitempty"` // render: second frame redraws every other cell only
	Cells  []CellD `json:",omitempty"`
	// Stall n > 0: ParseStyledString reads the producer's string under the schedule "the parser's goroutine is
	// held up right after it took the n-th ESC of the string (counted round the string's ESCs) for longer than
	// the library's Escape-key delay". What a string means does not depend on the schedule.
	Stall int      `json:",omitempty"`
	Fuzz  []string `json:",omitempty"` // raw parameter strings (between CSI and m)
}

func (s StyleD) V() vaxis.Style {
	return vaxis.Style{Foreground: vaxis.Color(s.Fg), Background: vaxis.Color(s.Bg), UnderlineColor: vaxis.Color(s.Ul),
		UnderlineStyle: vaxis.UnderlineStyle(s.Us), Attribute: vaxis.AttributeMask(s.At), Hyperlink: s.L, HyperlinkParams: s.LP}
}

const (
	bitRGB = 8 // responder.Names index
	bitSU  = 9
	// MaskFull: direct colour and styled underlines advertised (the renderer is lossless).
	MaskFull = 1<<bitRGB | 1<<bitSU
)

// ---- executor ----------------------------------------------------------

type Ctx struct {
	G    *trace.Interner
	L    *trace.Interner // hyperlinks ("params;uri"); id 0 is reserved (no link)
	Dump func(format string, a ...any)

	once sync.Once
	nss  *sess.S // a Vaxis to call NewStyledString on
	err  error
	Cov  *Cov
	pool sess.Pool // renderer sessions, one set per capability mask
}

func (c *Ctx) dump(format string, a ...any) {
	if c.Dump != nil {
		c.Dump(format, a...)
	}
}

func (c *Ctx) vx() (*vaxis.Vaxis, error) {
	c.once.Do(func() {
		c.nss, c.err = sess.Start(sess.Config{Caps: responder.FromMask(MaskFull, false), Cols: 4, Rows: 1})
	})
	if c.err != nil {
		return nil, c.err
	}
	return c.nss.Vx, nil
}

// Close forgets the sessions. They are deliberately not shut down: Close runs the library's
// shutdown handshake, whose wall-clock time-outs (other properties' subject) kill or hang
// the process on an overloaded machine, and the driver exits right afterwards anyway.
func (c *Ctx) Close() { c.pool.Drop() }

// DropSessions makes the next render scenarios start fresh sessions.
func (c *Ctx) DropSessions() { c.pool.Drop() }

// tuple is a cell in the oracle's vocabulary: g, fg, bg, ul, us, at (a cell's
// hyperlink is not part of what the property demands back).
func (c *Ctx) tuple(g string, st vaxis.Style) []int {
	return []int{c.G.ID(g), c01.ColInt(st.Foreground), c01.ColInt(st.Background), c01.ColInt(st.UnderlineColor),
		int(st.UnderlineStyle), c01.AttrInt(st.Attribute)}
}

func (c *Ctx) tuples(cells []vaxis.Cell) [][]int {
	out := make([][]int, 0, len(cells))
	for _, x := range cells {
		out = append(out, c.tuple(x.Grapheme, x.Style))
	}
	return out
}

func guard(who string, pan *string, f func()) {
	defer func() {
		if r := recover(); r != nil && *pan == "" {
			*pan = fmt.Sprintf("%s: %v", who, r)
			if len(*pan) > 120 {
				*pan = (*pan)[:120]
			}
			*pan = asciiOnly(*pan)
		}
	}()
	f()
}

func asciiOnly(s string) string {
	b := []byte(s)
	for i, x := range b {
		if x < 0x20 || x > 0x7e || x == '"' || x == '\\' {
			b[i] = '?'
		}
	}
	return string(b)
}

// emuRead is the embedded terminal's reading of s: its SGR handler applied to
// every CSI m the (library's) input parser delivers; every printed grapheme
// takes the pen.
func emuRead(s string) []vaxis.Cell {
	// The harness's own use of the library's input parser (made for a keyboard: an ESC that nothing follows
	// within 10 ms of wall-clock time is reported as the Escape key, C0 0x1B). No string handed to this
	// function has an ESC outside a control sequence or control string, so an Escape key in the parser's
	// output means that this goroutine pair was held up by the machine: not an observation of the SGR
	// handler - read again.
	for try := 0; ; try++ {
		out, escKey := emuReadOnce(s)
		if !escKey || try == 20 {
			return out
		}
	}
}

func emuReadOnce(s string) (out []vaxis.Cell, escKey bool) {
	// the whole string is buffered: where the parser's reader happens to refill is
	// irrelevant to the SGR handler under observation
	p := ansi.NewParser(bufio.NewReaderSize(strings.NewReader(s), len(s)+16))
	defer p.Close()
	var pen vaxis.Style
	for seq := range p.Next() {
		switch seq := seq.(type) {
		case ansi.C0:
			if seq == 0x1B {
				escKey = true
			}
		case ansi.Print:
			out = append(out, vaxis.Cell{Character: vaxis.Character{Grapheme: seq.Grapheme, Width: seq.Width}, Style: pen})
		case ansi.CSI:
			if seq.Final == 'm' && len(seq.Intermediate) == 0 {
				pen = term.VerifSGR(pen, seq)
			}
		}
		p.Finish(seq)
	}
	return out, escKey
}

// StallCap bounds how long a stalled parser waits for an Escape timer (there may be none).
const StallCap = 150 * time.Millisecond

// stalledParse is ParseStyledString(s) under one schedule of the goroutines the library itself starts for the
// call: the parsing goroutine is held at its loop head right after it has taken the n-th ESC of s (a machine
// under load, one CPU and busy goroutines, a collection pause) until the library's Escape-key timer, if one is
// pending, has expired and its callback is done - at most StallCap otherwise. Uses the library's verif hook
// points of the parser loop ("run.top": before a character is read; "timer.done": a timer callback returned);
// every character of s up to that ESC must be a single byte so that loop rounds are bytes. The caller makes
// sure no other parser runs meanwhile (the hook is process-wide).
func (c *Ctx) stalledParse(s string, n int) []vaxis.Cell {
	var offs []int
	for i := 0; i < len(s); i++ {
		if s[i] >= 0x80 {
			break
		}
		if s[i] == 0x1b {
			offs = append(offs, i)
		}
	}
	if len(offs) == 0 {
		c.Cov.stall(-1)
		return vaxis.ParseStyledString(s)
	}
	off := offs[(n-1)%len(offs)]
	var tops int32
	done := make(chan struct{}, 1)
	ansi.VerifHook = func(pt string) {
		switch pt {
		case "run.top":
			// round off+1 took the byte at off; this is the head of the round after it
			if int(atomic.AddInt32(&tops, 1)) == off+2 {
				t := time.NewTimer(StallCap)
				select { // a callback of an earlier ESC's timer is not the one waited for
				case <-done:
				default:
				}
				select {
				case <-done:
					c.Cov.stall(1)
				case <-t.C:
					c.Cov.stall(0)
				}
				t.Stop()
			}
		case "timer.done":
			select {
			case done <- struct{}{}:
			default:
			}
		}
	}
	defer func() { ansi.VerifHook = nil }()
	return vaxis.ParseStyledString(s)
}

// consume runs the three consumers on s (stall > 0: ParseStyledString under that schedule).
func (c *Ctx) consume(s string, stall int) (dec map[string][][]int, pan string) {
	dec = map[string][][]int{"parse": {}, "nss": {}, "emu": {}}
	guard("ParseStyledString", &pan, func() {
		if stall > 0 {
			dec["parse"] = c.tuples(c.stalledParse(s, stall))
		} else {
			dec["parse"] = c.tuples(vaxis.ParseStyledString(s))
		}
	})
	guard("NewStyledString", &pan, func() {
		vx, err := c.vx()
		if err != nil {
			panic(err)
		}
		dec["nss"] = c.tuples(vx.NewStyledString(s, vaxis.Style{}).Cells)
	})
	guard("term.sgr", &pan, func() { dec["emu"] = c.tuples(emuRead(s)) })
	return dec, pan
}

// lexOut turns producer output into sgr/g events and rebuilds the string made
// of exactly those tokens (what the consumers are given). other counts tokens
// that are neither (cursor addressing, modes, OSC, ...).
func (c *Ctx) lexOut(out []byte) (evs []trace.Ev, filtered string, other []string) {
	var lx lexer.Lexer
	var b strings.Builder
	for _, t := range lx.Feed(out) {
		switch {
		case t.K == lexer.CSI && t.B == 'm' && t.Priv == "" && t.Inter == "":
			ps := t.Params
			if ps == nil {
				ps = [][]int{}
			}
			// consecutive SGR control sequences share one event
			if n := len(evs); n > 0 && evs[n-1]["ev"] == "sgr" {
				evs[n-1]["seqs"] = append(evs[n-1]["seqs"].([][][]int), ps)
			} else {
				evs = append(evs, trace.Ev{"ev": "sgr", "seqs": [][][]int{ps}})
			}
			b.WriteString("\x1b[" + t.Raw + "m")
			c.Cov.form(t.Raw)
		case t.K == lexer.Text:
			gr := uniseg.NewGraphemes(t.S)
			// consecutive graphemes share one event (a run takes the same pen)
			var ids []int
			for gr.Next() {
				ids = append(ids, c.G.ID(gr.Str()))
			}
			if n := len(evs); n > 0 && evs[n-1]["ev"] == "gs" {
				evs[n-1]["gs"] = append(evs[n-1]["gs"].([]int), ids...)
			} else if len(ids) > 0 {
				evs = append(evs, trace.Ev{"ev": "gs", "gs": ids})
			}
			b.WriteString(t.S)
		case t.K == lexer.OSC && strings.HasPrefix(t.S, "8;") && strings.Count(t.S, ";") >= 2:
			// hyperlink control string OSC 8 ; params ; URI ST: an empty URI closes the link
			parts := strings.SplitN(t.S, ";", 3)
			ln := 0
			if parts[2] != "" {
				ln = c.L.ID(parts[1] + ";" + parts[2])
			}
			evs = append(evs, trace.Ev{"ev": "osc8", "ln": ln})
			b.WriteString("\x1b]" + t.S + "\x1b\\")
			c.Cov.osc8(ln)
		case t.K == lexer.C0 && t.B == 0:
			// writer start-up padding
		default:
			other = append(other, string(t.K)+":"+t.Priv+t.Raw+t.Inter+string(rune(t.B)))
		}
	}
	if lx.Incomplete() {
		other = append(other, "incomplete")
	}
	return evs, b.String(), other
}

func vcells(cs []CellD) []vaxis.Cell {
	out := make([]vaxis.Cell, len(cs))
	for i, x := range cs {
		out[i] = vaxis.Cell{Character: vaxis.Character{Grapheme: x.G, Width: 1}, Style: x.S.V()}
	}
	return out
}

// Run executes one scenario against the real library.
func Run(ctx *Ctx, sc *Scn) (evs []trace.Ev, note string) {
	evs = append(evs, trace.Ev{"ev": "reset"})
	if sc.Prod == "" {
		return append(evs, ctx.runFuzz(sc)...), ""
	}
	cells := vcells(sc.Cells)
	in := make([][]int, 0, len(sc.Cells))
	for _, x := range sc.Cells {
		in = append(in, ctx.tuple(x.G, x.S.V()))
	}
	var out []byte
	pan := ""
	rt := true
	switch sc.Prod {
	case "cells":
		guard("EncodeCells", &pan, func() { out = []byte(vaxis.EncodeCells(cells)) })
	case "ss":
		guard("StyledString.Encode", &pan, func() { out = []byte((&vaxis.StyledString{Cells: cells}).Encode()) })
	case "render":
		rt = sc.Mask&MaskFull == MaskFull && !sc.Sparse
		guard("render", &pan, func() { out = ctx.renderCells(sc, cells) })
		for i := len(sc.Cells); i < RenderCols && !sc.Sparse; i++ {
			in = append(in, ctx.tuple(" ", vaxis.Style{})) // the cleared rest of the row
		}
	default:
		return append(evs, trace.Ev{"ev": "bad-producer"}), "bad producer"
	}
	ctx.dump("%s legacy=%v out=%q\n", sc.Prod, sc.Legacy, out)
	tok, filtered, other := ctx.lexOut(out)
	if sc.Prod != "render" {
		// the codecs write nothing but SGR, graphemes and hyperlink control strings (either string terminator)
		if len(other) > 0 || filtered != strings.ReplaceAll(string(out), "\x07", "\x1b\\") {
			evs = append(evs, trace.Ev{"ev": "other", "what": asciiOnly(strings.Join(other, ","))})
		} else {
			filtered = string(out) // the consumers are handed the very bytes
		}
	}
	evs = append(evs, tok...)
	dec := map[string][][]int{"parse": {}, "nss": {}, "emu": {}}
	if pan == "" {
		dec, pan = ctx.consume(filtered, sc.Stall)
	}
	ctx.Cov.scenario(sc, rt)
	evs = append(evs, trace.Ev{"ev": "end", "prod": sc.Prod, "rt": rt, "in": in, "dec": dec, "pan": pan, "stall": sc.Stall})
	return evs, pan
}

// RenderCols is the width of the one-row screen the renderer scenarios use.
const RenderCols = 64

// renderCells puts the cells on the one-row screen of a real Vaxis (the rest
// of the row is cleared: default-style spaces, which the caller adds to its
// record) and returns what a full refresh writes (sparse: what the following
// incremental render writes after every other cell changed its grapheme).
// Sessions are reused: a refresh redraws every cell from a default pen, so
// what it writes does not depend on earlier scenarios.
func (ctx *Ctx) renderCells(sc *Scn, cells []vaxis.Cell) []byte {
	if len(cells) > RenderCols {
		panic("harness: render scenario wider than the screen")
	}
	sh, err := ctx.pool.Get(fmt.Sprintf("mask%d", sc.Mask), sess.Config{Caps: responder.FromMask(sc.Mask, false), Cols: RenderCols, Rows: 1})
	if err != nil {
		panic(err)
	}
	sh.Mu.Lock()
	defer sh.Mu.Unlock()
	s := sh.S
	s.Con.Take()
	win := s.Vx.Window()
	win.Clear()
	for i, c := range cells {
		win.SetCell(i, 0, c)
	}
	s.Vx.Refresh()
	out := s.Con.Take()
	if sc.Sparse {
		for i, c := range cells {
			if i%2 == 0 {
				c.Grapheme = "#"
				win.SetCell(i, 0, c)
			}
		}
		s.Vx.Render()
		out = s.Con.Take()
	}
	return out
}

func (c *Ctx) runFuzz(sc *Scn) []trace.Ev {
	var evs []trace.Ev
	for _, raw := range sc.Fuzz {
		var lx lexer.Lexer
		s := "\x1b[" + raw + "mX"
		toks := lx.Feed([]byte(s))
		ps := [][]int{}
		if len(toks) > 0 && toks[0].K == lexer.CSI && toks[0].Params != nil {
			ps = toks[0].Params
		}
		dec, pan := c.consume(s, 0)
		c.Cov.fuzz(raw)
		evs = append(evs, trace.Ev{"ev": "fuzz", "ps": ps, "dec": dec, "pan": pan})
	}
	return evs
}

// EnterLegacy switches the process to the library's legacy-SGR quirk (colours
// with semicolons): the quirk is applied to package state when a Vaxis is
// created while VAXIS_FORCE_LEGACY_SGR is set, and cannot be undone.
func EnterLegacy() error {
	sess.ScrubEnv()
	setenv("VAXIS_FORCE_LEGACY_SGR", "1")
	_, err := sess.Start(sess.Config{Caps: responder.FromMask(MaskFull, false), Cols: 2, Rows: 1})
	return err
}
