// Package c14 drives the vxfw surface API, the built-in widgets' Draw methods
// and the real App.Run render path, and records what they did for
// specs/vxfw/Surface_Trace.tla (oracles: Surface.tla, LayoutRel.tla, RefTerm).
//
// The driver keeps its own record of what it asked for (which writes were
// inside the surface, which tree it built); it never derives an expectation
// from the library's buffers. It reads Surface.Buffer only to observe which
// positions a write changed.
package c14

import (
	"fmt"
	"math"
	"runtime/debug"
	"strings"
	"sync/atomic"
	"time"

	"git.sr.ht/~rockorager/vaxis"
	"git.sr.ht/~rockorager/vaxis/vxfw"
	"git.sr.ht/~rockorager/vaxis/vxfw/button"
	"git.sr.ht/~rockorager/vaxis/vxfw/center"
	"git.sr.ht/~rockorager/vaxis/vxfw/list"
	"git.sr.ht/~rockorager/vaxis/vxfw/richtext"
	"git.sr.ht/~rockorager/vaxis/vxfw/text"
	"git.sr.ht/~rockorager/vaxis/vxfw/textfield"

	"verif/harness/responder"
	"verif/harness/termcmd"
	"verif/harness/trace"
	"verif/harness/vxsess"
)

// ---- replay descriptor -------------------------------------------------

// WD describes a built-in widget (possibly nested).
type WD struct {
	K      string   // text | rich | center | button | list | field
	S      string   `json:",omitempty"` // text content / button label / field value
	Rep    int      `json:",omitempty"` // content = S repeated Rep times joined by "\n" (0 = S as is)
	Cat    int      `json:",omitempty"` // content = S repeated Cat times on one line (before Rep is applied)
	Wrap   bool     `json:",omitempty"` // text/rich: soft wrap
	Segs   []string `json:",omitempty"` // rich: segments
	C      *WD      `json:",omitempty"` // center: child
	Items  []*WD    `json:",omitempty"` // list: items
	Cursor bool     `json:",omitempty"` // list: DrawCursor
	Gap    int      `json:",omitempty"` // list: Gap
	Every  bool     `json:",omitempty"` // list: the builder has a widget for EVERY index (row i = Items[i mod len])
}

// DrawStep is one Draw call, optionally preceded by list operations.
type DrawStep struct {
	MinW, MinH, MaxW, MaxH int
	Sel                    int `json:",omitempty"` // list: SetCursor(Sel-1) when > 0
	Scroll                 int `json:",omitempty"` // list: SetPendingScroll
}

// SD describes a surface tree built through the public API.
type SD struct {
	W, H   int
	Fg     int      `json:",omitempty"` // palette index + 1 of the fill colour, 0 = default
	Writes [][3]int `json:",omitempty"` // WriteCell(c, r, code point) in order; may be outside
	Auto   bool     `json:",omitempty"` // cells are written with Width 0 (left to the library to measure)
	Kids   []KD     `json:",omitempty"`
}

type KD struct {
	X, Y, Z int
	S       *SD
}

type Scn struct {
	Kind string // surf | draw | paint
	// surf
	W, H   int      `json:",omitempty"`
	Writes [][2]int `json:",omitempty"`
	Adds   [][4]int `json:",omitempty"` // AddChild(col,row, child of cw x ch)
	// draw
	Widget *WD        `json:",omitempty"`
	Draws  []DrawStep `json:",omitempty"`
	// paint
	Cols, Rows int   `json:",omitempty"`
	Frames     []*SD `json:",omitempty"`
}

type Ctx struct {
	G, L *trace.Interner
	Dump func(format string, a ...any)
}

func (c *Ctx) dump(format string, a ...any) {
	if c.Dump != nil {
		c.Dump(format, a...)
	}
}

// PanicClass reduces a panic value to a short stable ASCII class.
func PanicClass(v any) string {
	s := fmt.Sprint(v)
	switch {
	case strings.Contains(s, "bounded"):
		// the deliberate assertion of Center / Button / list.Dynamic
		return "bounded-assert-" + strings.ToLower(strings.SplitN(s, " ", 2)[0])
	case strings.Contains(s, "index out of range"):
		return "index-out-of-range"
	case strings.Contains(s, "slice bounds"):
		return "slice-bounds"
	case strings.Contains(s, "divide"):
		return "divide-by-zero"
	case strings.Contains(s, "nil pointer"):
		return "nil-deref"
	case strings.Contains(s, "makeslice"), strings.Contains(s, "out of memory"):
		return "alloc"
	}
	return "other"
}

const noReturn = "builder-calls-exceeded"

// Stacks, when set, receives the stack of every recovered panic (debugging).
var Stacks func(v any, stack []byte)

// ---- a Draw that does not return --------------------------------------------
//
// A list whose builder has a widget for every index ends its drawing loop only
// when the viewport is full. Such a builder counts the calls of one Draw; past
// builderBudget (several thousand times what any viewport the generators use
// can show) it panics with budgetExceeded, which unwinds the library's loop:
// the driver records that Draw did not return (ret = false, pmsg
// builder-calls-exceeded). This keeps a loop that never ends from eating the
// machine's memory and keeps the observation deterministic. Every Draw also
// runs in its own goroutine with a deadline: a safety net only, for a loop
// that spins without asking the builder (recorded as ret = false, pmsg deadline).
const builderBudget = 20000

const drawDeadline = 120 * time.Second

type budgetExceeded struct{}

type budget struct {
	calls int
	spent atomic.Bool // set by the deadline: the next builder call unwinds the abandoned Draw
}

func guard(f func()) (panicked bool, class string) {
	defer func() {
		if r := recover(); r != nil {
			if _, ok := r.(budgetExceeded); ok {
				panicked, class = true, noReturn
				return
			}
			panicked, class = true, PanicClass(r)
			if Stacks != nil {
				Stacks(r, debug.Stack())
			}
		}
	}()
	f()
	return
}

// Run executes one scenario against the real library.
func Run(ctx *Ctx, sc *Scn) (evs []trace.Ev, note string) {
	switch sc.Kind {
	case "surf":
		return runSurf(ctx, sc)
	case "draw":
		return runDraw(ctx, sc)
	case "paint":
		return runPaint(ctx, sc)
	}
	return []trace.Ev{{"ev": "reset", "k": sc.Kind, "rows": 1, "cols": 1}, {"ev": "panic", "pmsg": "bad-kind"}}, "bad kind"
}

// ---- surf: NewSurface / WriteCell / AddChild ------------------------------

const maxChanged = 6

func runSurf(ctx *Ctx, sc *Scn) (evs []trace.Ev, note string) {
	evs = append(evs, trace.Ev{"ev": "reset", "k": "surf", "rows": 1, "cols": 1})
	var s vxfw.Surface
	p, cls := guard(func() { s = vxfw.NewSurface(uint16(sc.W), uint16(sc.H), nil) })
	evs = append(evs, trace.Ev{"ev": "new", "w": sc.W, "h": sc.H, "len": len(s.Buffer), "panic": p, "pmsg": cls})
	if p {
		return evs, "panic: NewSurface " + cls
	}
	shadow := append([]vaxis.Cell(nil), s.Buffer...)
	for i, wr := range sc.Writes {
		c, r := wr[0], wr[1]
		cell := vaxis.Cell{Character: vaxis.Character{Grapheme: fmt.Sprintf("m%d", i), Width: 1}}
		p, cls := guard(func() { s.WriteCell(uint16(c), uint16(r), cell) })
		changed := []int{}
		if len(s.Buffer) != len(shadow) {
			changed = append(changed, -1)
			shadow = append([]vaxis.Cell(nil), s.Buffer...)
		} else {
			for j := range s.Buffer {
				if s.Buffer[j] != shadow[j] {
					if len(changed) < maxChanged {
						changed = append(changed, j)
					}
					shadow[j] = s.Buffer[j]
				}
			}
		}
		evs = append(evs, trace.Ev{"ev": "write", "w": sc.W, "h": sc.H, "c": c, "r": r, "changed": changed, "panic": p, "pmsg": cls})
		if p {
			note = "panic: WriteCell " + cls
		}
	}
	for _, a := range sc.Adds {
		before := len(s.Children)
		var ox, oy, cw, ch int
		p, cls := guard(func() {
			s.AddChild(a[0], a[1], vxfw.NewSurface(uint16(a[2]), uint16(a[3]), nil))
			k := s.Children[len(s.Children)-1]
			ox, oy, cw, ch = k.Origin.Col, k.Origin.Row, int(k.Surface.Size.Width), int(k.Surface.Size.Height)
		})
		ok := cw == a[2] && ch == a[3]
		if !ok {
			ox = math.MinInt32 // a child whose size was altered is reported as a wrong origin
		}
		evs = append(evs, trace.Ev{"ev": "addchild", "col": a[0], "row": a[1], "before": before, "after": len(s.Children),
			"ox": ox, "oy": oy, "panic": p, "pmsg": cls})
	}
	return evs, note
}

// ---- draw: built-in widgets under constraints ------------------------------

// probe wraps a child widget and records the constraint it was handed and the
// size it returned.
type probe struct {
	inner vxfw.Widget
	kind  string
	rec   *[]trace.Ev
}

func (p *probe) HandleEvent(ev vaxis.Event, ph vxfw.EventPhase) (vxfw.Command, error) {
	return p.inner.HandleEvent(ev, ph)
}

func (p *probe) Draw(ctx vxfw.DrawContext) (vxfw.Surface, error) {
	s, err := p.inner.Draw(ctx)
	*p.rec = append(*p.rec, trace.Ev{"kind": p.kind, "mw": int(ctx.Max.Width), "mh": int(ctx.Max.Height),
		"w": int(s.Size.Width), "h": int(s.Size.Height)})
	return s, err
}

func (d *WD) content() string {
	s := d.S
	if d.Cat > 0 {
		s = strings.Repeat(s, d.Cat)
	}
	if d.Rep > 0 {
		return strings.TrimSuffix(strings.Repeat(s+"\n", d.Rep), "\n")
	}
	return s
}

// Sig names the widget nesting, e.g. "center(list(text,button))".
func (d *WD) Sig() string {
	switch d.K {
	case "center":
		return "center(" + d.C.Sig() + ")"
	case "list":
		var ks []string
		seen := map[string]bool{}
		for _, it := range d.Items {
			if s := it.Sig(); !seen[s] {
				seen[s] = true
				ks = append(ks, s)
			}
		}
		return "list(" + strings.Join(ks, ",") + ")"
	}
	return d.K
}

func build(d *WD, rec *[]trace.Ev, top bool, bud *budget) vxfw.Widget {
	var w vxfw.Widget
	switch d.K {
	case "text":
		t := text.New(d.content())
		t.Softwrap = d.Wrap
		w = t
	case "rich":
		var segs []vaxis.Segment
		for i, s := range d.Segs {
			segs = append(segs, vaxis.Segment{Text: s, Style: vaxis.Style{Foreground: vaxis.IndexColor(uint8(i % 8))}})
		}
		if len(d.Segs) == 0 {
			segs = append(segs, vaxis.Segment{Text: d.content()})
		}
		t := richtext.New(segs)
		t.Softwrap = d.Wrap
		w = t
	case "center":
		w = &center.Center{Child: build(d.C, rec, false, bud)}
	case "button":
		w = button.New(d.content(), func() (vxfw.Command, error) { return nil, nil })
	case "field":
		f := textfield.New()
		f.InsertStringAtCursor(d.content())
		w = f
	case "list":
		items := make([]vxfw.Widget, len(d.Items))
		for i, it := range d.Items {
			items[i] = build(it, rec, false, bud)
		}
		l := &list.Dynamic{DrawCursor: d.Cursor, Gap: d.Gap}
		l.Builder = func(i uint, cursor uint) vxfw.Widget {
			if d.Every && len(items) > 0 {
				if bud.calls++; bud.calls > builderBudget || bud.spent.Load() {
					panic(budgetExceeded{})
				}
				return items[i%uint(len(items))]
			}
			if i >= uint(len(items)) {
				return nil
			}
			return items[i]
		}
		w = l
	default:
		panic("c14: unknown widget kind " + d.K)
	}
	if top {
		return w
	}
	return &probe{inner: w, kind: d.K, rec: rec}
}

func kindOf(w vxfw.Widget) string {
	switch w.(type) {
	case *text.Text:
		return "text"
	case *richtext.RichText:
		return "rich"
	case *center.Center:
		return "center"
	case *button.Button:
		return "button"
	case *list.Dynamic:
		return "list"
	case *textfield.TextField:
		return "field"
	case nil:
		return "none"
	}
	return "other"
}

func nodeOf(s vxfw.Surface, depth int) map[string]any {
	kids := []any{}
	if depth < 12 {
		for _, k := range s.Children {
			kids = append(kids, map[string]any{"x": k.Origin.Col, "y": k.Origin.Row, "n": nodeOf(k.Surface, depth+1)})
		}
	}
	return map[string]any{"kind": kindOf(s.Widget), "w": int(s.Size.Width), "h": int(s.Size.Height), "kids": kids}
}

func unwrap(w vxfw.Widget) vxfw.Widget {
	if p, ok := w.(*probe); ok {
		return p.inner
	}
	return w
}

func runDraw(ctx *Ctx, sc *Scn) (evs []trace.Ev, note string) {
	evs = append(evs, trace.Ev{"ev": "reset", "k": "draw", "rows": 1, "cols": 1})
	var rec []trace.Ev
	var w vxfw.Widget
	bud := &budget{}
	if p, cls := guard(func() { w = build(sc.Widget, &rec, true, bud) }); p {
		return append(evs, trace.Ev{"ev": "panic", "pmsg": "build:" + cls}), "panic: build"
	}
	for _, st := range sc.Draws {
		if l, ok := w.(*list.Dynamic); ok {
			if st.Sel > 0 {
				l.SetCursor(uint(st.Sel - 1))
			}
			if st.Scroll != 0 {
				l.SetPendingScroll(st.Scroll)
			}
		}
		rec = rec[:0]
		dc := vxfw.DrawContext{
			Min:        vxfw.Size{Width: uint16(st.MinW), Height: uint16(st.MinH)},
			Max:        vxfw.Size{Width: uint16(st.MaxW), Height: uint16(st.MaxH)},
			Characters: vaxis.Characters,
		}
		type result struct {
			s   vxfw.Surface
			err error
			p   bool
			cls string
		}
		bud.calls = 0
		done := make(chan result, 1)
		go func() {
			var r result
			r.p, r.cls = guard(func() { r.s, r.err = w.Draw(dc) })
			done <- r
		}()
		var s vxfw.Surface
		var err error
		var p bool
		var cls string
		ret := true
		select {
		case r := <-done:
			s, err, p, cls = r.s, r.err, r.p, r.cls
			if p && cls == noReturn {
				p, ret = false, false
			}
		case <-time.After(drawDeadline):
			// abandoned (it ends at its next builder call, if it makes one)
			bud.spent.Store(true)
			ret, cls = false, "deadline"
		}
		ev := trace.Ev{"ev": "draw", "maxw": st.MaxW, "maxh": st.MaxH, "minw": st.MinW, "minh": st.MinH,
			"panic": p, "pmsg": cls, "err": err != nil, "ret": ret}
		if !ret {
			ev["root"] = map[string]any{"kind": "none", "w": 0, "h": 0, "kids": []any{}}
			ev["probes"] = []any{}
			note = "Draw does not return: " + cls
			evs = append(evs, ev)
			break // the widget's state is that of an abandoned Draw
		}
		if p {
			ev["root"] = map[string]any{"kind": "none", "w": 0, "h": 0, "kids": []any{}}
			ev["probes"] = []any{}
			note = "panic: Draw " + cls
		} else {
			ev["root"] = nodeOf(s, 0)
			ps := make([]any, len(rec))
			for i := range rec {
				ps[i] = rec[i]
			}
			ev["probes"] = ps
		}
		evs = append(evs, ev)
	}
	return evs, note
}

// ---- paint: a surface tree rendered by the real App.Run ---------------------

type paintRoot struct {
	ctx    *Ctx
	frames []*SD
	cur    int
	take   func() []byte
	outs   [][]byte
	built  []map[string]any // the driver's own record of each tree it built
	notes  []string
	drawn  chan struct{}
}

func (p *paintRoot) HandleEvent(ev vaxis.Event, ph vxfw.EventPhase) (vxfw.Command, error) {
	switch ev := ev.(type) {
	case vxfw.Init:
		return vxfw.RedrawCmd{}, nil
	case vaxis.Key:
		switch {
		case ev.Matches('n'):
			p.outs = append(p.outs, p.take())
			p.cur++
			return vxfw.RedrawCmd{}, nil
		case ev.Matches('q'):
			p.outs = append(p.outs, p.take())
			return vxfw.QuitCmd{}, nil
		}
	}
	return nil, nil
}

// buildSurface realises d through NewSurface / Fill / WriteCell / AddChild and
// returns, next to it, the record of what was asked for: only the writes
// inside the surface count (the property: others are ignored).
func buildSurface(d *SD, w vxfw.Widget, g *trace.Interner, notes *[]string) (vxfw.Surface, map[string]any) {
	s := vxfw.NewSurface(uint16(d.W), uint16(d.H), w)
	style := vaxis.Style{}
	if d.Fg > 0 {
		style.Foreground = vaxis.IndexColor(uint8(d.Fg - 1))
	}
	s.Fill(style)
	cells := [][]int{}
	for _, wr := range d.Writes {
		c, r, ch := wr[0], wr[1], string(rune(wr[2]))
		// columns the terminal gives the grapheme: a logged fact, measured
		// without the library (go-runewidth)
		gw := termcmd.LegacyWidth(ch)
		cell := vaxis.Cell{Character: vaxis.Character{Grapheme: ch, Width: gw}, Style: style}
		if d.Auto {
			cell.Width = 0
		}
		if p, cls := guard(func() { s.WriteCell(uint16(c), uint16(r), cell) }); p {
			*notes = append(*notes, "WriteCell:"+cls)
		}
		if c >= 0 && r >= 0 && c < d.W && r < d.H {
			cells = append(cells, []int{c, r, g.ID(ch), gw})
		}
	}
	kids := []any{}
	for _, k := range d.Kids {
		cs, crec := buildSurface(k.S, nil, g, notes)
		s.AddChild(k.X, k.Y, cs)
		s.Children[len(s.Children)-1].ZIndex = k.Z
		kids = append(kids, map[string]any{"x": k.X, "y": k.Y, "z": k.Z, "s": crec})
	}
	return s, map[string]any{"w": d.W, "h": d.H, "fg": d.Fg, "cells": cells, "kids": kids}
}

func (p *paintRoot) Draw(dc vxfw.DrawContext) (vxfw.Surface, error) {
	i := p.cur
	if i >= len(p.frames) {
		i = len(p.frames) - 1
	}
	s, rec := buildSurface(p.frames[i], p, p.ctx.G, &p.notes)
	for len(p.built) <= i {
		p.built = append(p.built, nil)
	}
	p.built[i] = rec
	select {
	case p.drawn <- struct{}{}:
	default:
	}
	return s, nil
}

// only a missing reaction runs into this limit (then reported as an observation)
const waitLimit = 20 * time.Second

func runPaint(ctx *Ctx, sc *Scn) (evs []trace.Ev, note string) {
	evs = append(evs, trace.Ev{"ev": "reset", "k": "paint", "rows": sc.Rows, "cols": sc.Cols})
	s, err := vxsess.Start(responder.FromMask(0, false), sc.Cols, sc.Rows)
	if err != nil {
		return append(evs, trace.Ev{"ev": "panic", "pmsg": "start"}), "start: " + err.Error()
	}
	cv := termcmd.NewConv(ctx.G, ctx.L, false, false)
	evs = append(evs, cv.Feed(s.Startup)...)
	root := &paintRoot{ctx: ctx, frames: sc.Frames, take: s.Con.Take, drawn: make(chan struct{}, 64)}
	done := make(chan string, 1)
	go func() {
		defer func() {
			if r := recover(); r != nil {
				done <- "panic:" + PanicClass(r)
			}
		}()
		if err := s.App.Run(root); err != nil {
			done <- "error"
			return
		}
		done <- ""
	}()
	// wait for n Draw calls (or the end of Run); false on timeout / early exit
	res := ""
	waitDraws := func(n int) bool {
		for ; n > 0; n-- {
			select {
			case <-root.drawn:
			case res = <-done:
				done <- res
				return false
			case <-time.After(waitLimit):
				res = "noframe"
				return false
			}
		}
		return true
	}
	ok := waitDraws(2) // the initial layout and the first frame
	for i := 1; ok && i < len(sc.Frames); i++ {
		s.Con.Inject([]byte("n"))
		ok = waitDraws(1)
	}
	if ok {
		s.Con.Inject([]byte("q"))
	}
	select {
	case res = <-done:
	case <-time.After(waitLimit):
		if res == "" {
			res = "hang"
		}
	}
	if len(root.notes) > 0 {
		evs = append(evs, trace.Ev{"ev": "panic", "pmsg": root.notes[0]})
		note = "panic: " + root.notes[0]
	}
	for i, o := range root.outs {
		ctx.dump("frame %d out=%q\n", i, strings.ReplaceAll(string(o), "\x00", ""))
		evs = append(evs, cv.Feed(o)...)
		if i < len(root.built) && root.built[i] != nil {
			evs = append(evs, trace.Ev{"ev": "paint", "tree": root.built[i], "rgb": false, "su": false, "panic": false, "pmsg": ""})
		}
	}
	if res != "" || len(root.outs) != len(sc.Frames) {
		if res == "" {
			res = "frames-missing"
		}
		evs = append(evs, trace.Ev{"ev": "panic", "pmsg": "run:" + res})
		note = "run: " + res
	}
	return evs, note
}
