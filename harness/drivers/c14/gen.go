package c14

import (
	"math/rand"
	"sort"
	"strings"
)

// ---- surf -------------------------------------------------------------------

func clip16(v int) (int, bool) { return v, v >= 0 && v <= 65535 }

func edgeCoords(n int, rng *rand.Rand) []int {
	set := map[int]bool{}
	for _, v := range []int{0, 1, n - 2, n - 1, n, n + 1, 65535} {
		if x, ok := clip16(v); ok {
			set[x] = true
		}
	}
	if n > 4 {
		set[2+rng.Intn(n-3)] = true
	}
	var out []int
	for v := range set {
		out = append(out, v)
	}
	sort.Ints(out)
	return out
}

func surfScn(w, h int, rng *rand.Rand) *Scn {
	sc := &Scn{Kind: "surf", W: w, H: h}
	for _, r := range edgeCoords(h, rng) {
		for _, c := range edgeCoords(w, rng) {
			sc.Writes = append(sc.Writes, [2]int{c, r})
		}
	}
	rng.Shuffle(len(sc.Writes), func(i, j int) { sc.Writes[i], sc.Writes[j] = sc.Writes[j], sc.Writes[i] })
	sc.Adds = [][4]int{{0, 0, 1, 1}, {-3, 2, 0, 0}, {w, h, 2, 3}, {70000, -70000, 1, 2}}
	return sc
}

// GenSurf: every size in the boundary set squared (bounded-exhaustive), and in
// the thorough tier further sizes around 2^16 cells plus random ones.
func GenSurf(rng *rand.Rand, thorough bool) []*Scn {
	base := []int{0, 1, 2, 3, 255, 256, 257, 300}
	var out []*Scn
	for _, w := range base {
		for _, h := range base {
			out = append(out, surfScn(w, h, rng))
		}
	}
	extra := [][2]int{{65535, 1}, {1, 65535}, {65535, 2}, {2, 32768}, {32768, 2}, {4, 16384}, {181, 362}, {362, 181},
		{1000, 65}, {1000, 66}, {65, 1009}, {512, 128}, {128, 513}, {65535, 0}, {0, 65535}}
	n := 6
	if thorough {
		n = 200
	} else {
		extra = extra[:8]
	}
	for _, e := range extra {
		out = append(out, surfScn(e[0], e[1], rng))
	}
	for i := 0; i < n; i++ {
		w := 1 + rng.Intn(700)
		h := 1 + rng.Intn(140000/w)
		if h > 65535 {
			h = 65535
		}
		if rng.Intn(2) == 0 {
			w, h = h, w
		}
		out = append(out, surfScn(w, h, rng))
	}
	return out
}

// ---- draw -------------------------------------------------------------------

var bounds = []int{0, 1, 2, 3, 10, 65535}

var contents = []string{
	"", "a", "hello world", "a\nb\nc\nd\ne", "\n\n\n", "世界世界世", "x世y 世 z",
	"abcdefghijklmnopqrstuvwxyz0123456789", "one two three four five six seven eight nine ten",
	"tab\there  and   spaces ", "éä 👩‍🚀 🇯🇵 ☺️",
}

func leafs(content string, rep int) []*WD {
	return []*WD{
		{K: "text", S: content, Rep: rep, Wrap: true},
		{K: "text", S: content, Rep: rep, Wrap: false},
		{K: "rich", S: content, Rep: rep, Wrap: true},
		{K: "rich", S: content, Rep: rep, Wrap: false},
		{K: "button", S: content, Rep: rep},
		{K: "field", S: content, Rep: rep},
	}
}

func richSegs(wrap bool) *WD {
	return &WD{K: "rich", Segs: []string{"hello ", "wide 世界 ", "line\nbreak", " tail"}, Wrap: wrap}
}

func drawScn(w *WD, mw, mh, minw, minh int) *Scn {
	return &Scn{Kind: "draw", Widget: w, Draws: []DrawStep{{MinW: minw, MinH: minh, MaxW: mw, MaxH: mh}}}
}

// nestings wraps a widget in every container that can hold it.
func nestings(w *WD) []*WD {
	cp := func() *WD { c := *w; return &c }
	return []*WD{
		{K: "center", C: cp()},
		{K: "center", C: &WD{K: "center", C: cp()}},
		{K: "list", Items: []*WD{cp(), cp(), cp()}},
		{K: "list", Items: []*WD{cp(), cp()}, Cursor: true, Gap: 1},
		{K: "center", C: &WD{K: "list", Items: []*WD{cp(), cp()}, Cursor: true}},
	}
}

// GenDraw: every built-in widget x content class x max in bounds^2
// (bounded-exhaustive), contents taller/longer than the maximum built per
// constraint, one level of nesting, and list state sequences.
func GenDraw(rng *rand.Rand, thorough bool) []*Scn {
	var out []*Scn
	add := func(w *WD, mw, mh int) {
		out = append(out, drawScn(w, mw, mh, 0, 0))
		if thorough || rng.Intn(6) == 0 {
			out = append(out, drawScn(w, mw, mh, mw, mh)) // tight constraint: min = max
		}
	}
	for _, mw := range bounds {
		for _, mh := range bounds {
			var ws []*WD
			for _, c := range contents {
				ws = append(ws, leafs(c, 0)...)
			}
			// content exactly at, one over and far over the maximum height / width
			for _, lines := range []int{mh, mh + 1, mh + 7} {
				if lines > 0 && lines < 2000 {
					ws = append(ws, leafs("ab", lines)...)
				}
			}
			if mw < 2000 {
				for _, n := range []int{mw, mw + 1, 3*mw + 2} {
					ws = append(ws, leafs(strings.Repeat("w", n), 0)...)
					ws = append(ws, leafs(strings.Repeat("世", n/2+1), 0)...)
				}
			}
			ws = append(ws, richSegs(true), richSegs(false))
			ws = append(ws, &WD{K: "list"}, &WD{K: "list", Cursor: true})
			for _, w := range ws {
				add(w, mw, mh)
			}
			// one level of nesting over a smaller content set
			for _, c := range []string{"", "hello world", "a\nb\nc\nd\ne", "世界世界世"} {
				for _, lf := range leafs(c, 0) {
					for _, n := range nestings(lf) {
						if thorough || rng.Intn(3) == 0 {
							add(n, mw, mh)
						}
					}
				}
			}
		}
	}
	// very large contents (more than 65535 cells when unconstrained)
	big := strings.Repeat("x", 300)
	for _, lf := range leafs(big, 300) {
		for _, m := range [][2]int{{65535, 65535}, {300, 300}, {299, 65535}, {10, 10}, {65535, 3}} {
			out = append(out, drawScn(lf, m[0], m[1], 0, 0))
		}
	}
	// single lines of more than 65535 columns (a handful: each costs a few ms)
	for _, cat := range []int{65536, 65541, 32769} {
		for _, lf := range leafs("x", 0) {
			c := *lf
			c.Cat = cat
			if cat == 32769 {
				c.S = "世" // 65538 columns in 32769 graphemes
			}
			for _, m := range [][2]int{{10, 1}, {65535, 65535}, {65535, 2}} {
				out = append(out, drawScn(&c, m[0], m[1], 0, 0))
			}
			out = append(out, drawScn(&WD{K: "center", C: &c}, 80, 24, 0, 0))
		}
	}
	// list state: select / scroll between draws at changing constraints
	nseq := 150
	if thorough {
		nseq = 3000
	}
	items := func() []*WD {
		var it []*WD
		n := rng.Intn(6)
		for i := 0; i < n; i++ {
			switch rng.Intn(4) {
			case 0:
				it = append(it, &WD{K: "text", S: "row", Rep: 1 + rng.Intn(4), Wrap: rng.Intn(2) == 0})
			case 1:
				it = append(it, &WD{K: "rich", S: "rich row", Wrap: true})
			case 2:
				it = append(it, &WD{K: "field", S: "in"})
			default:
				it = append(it, &WD{K: "text", S: contents[rng.Intn(len(contents))], Wrap: true})
			}
		}
		return it
	}
	small := []int{0, 1, 2, 3, 4, 5, 10}
	for i := 0; i < nseq; i++ {
		w := &WD{K: "list", Items: items(), Cursor: rng.Intn(2) == 0, Gap: rng.Intn(3)}
		sc := &Scn{Kind: "draw", Widget: w}
		for j := 0; j < 2+rng.Intn(4); j++ {
			st := DrawStep{MaxW: small[rng.Intn(len(small))], MaxH: small[rng.Intn(len(small))]}
			switch rng.Intn(3) {
			case 0:
				st.Sel = 1 + rng.Intn(len(w.Items)+2)
			case 1:
				st.Scroll = rng.Intn(13) - 6
			}
			sc.Draws = append(sc.Draws, st)
		}
		out = append(out, sc)
	}
	out = append(out, genEndless(rng, thorough)...)
	return out
}

// genEndless: lists whose builder has a widget for EVERY index (as in the
// library's own _examples/vxfw/list), so that only the list itself ends the
// drawing of rows. Bounded-exhaustive over the row classes below x maximum
// width {0,1,2,3,10} x maximum height {0,1,3,10} x cursor gutter x gap {0,1}:
// rows that have no height at the width left to them (no room beside the
// gutter, width 0, empty rows, a field at width 0) are what the demand
// "Draw returns" is about. Half of the scenarios go on with a second draw
// after a selection or a scroll at another width.
func genEndless(rng *rand.Rand, thorough bool) []*Scn {
	rows := [][]*WD{
		{{K: "text", S: "hello world", Wrap: true}},
		{{K: "text", S: "row"}},
		{{K: "text", S: ""}},
		{{K: "text", S: "", Wrap: true}},
		{{K: "rich", S: ""}},
		{{K: "rich", S: "rich row", Wrap: true}},
		{{K: "field", S: "in"}},
		{{K: "field", S: ""}},
		{{K: "text", S: ""}, {K: "text", S: "a\nb"}},
		{{K: "text", S: "世界", Wrap: true}, {K: "rich", S: ""}, {K: "field", S: ""}},
	}
	widths, heights := []int{0, 1, 2, 3, 10}, []int{0, 1, 3, 10}
	var out []*Scn
	for _, r := range rows {
		for _, mw := range widths {
			for _, mh := range heights {
				for _, cur := range []bool{false, true} {
					for gap := 0; gap <= 1; gap++ {
						if gap == 1 && !thorough && rng.Intn(2) == 0 {
							continue // a gap always adds height: a sample in the quick tier
						}
						w := &WD{K: "list", Items: r, Cursor: cur, Gap: gap, Every: true}
						sc := &Scn{Kind: "draw", Widget: w, Draws: []DrawStep{{MaxW: mw, MaxH: mh}}}
						if rng.Intn(2) == 0 {
							st := DrawStep{MaxW: widths[rng.Intn(len(widths))], MaxH: heights[rng.Intn(len(heights))]}
							if rng.Intn(2) == 0 {
								st.Sel = 1 + rng.Intn(30)
							} else {
								st.Scroll = rng.Intn(13) - 6
							}
							sc.Draws = append(sc.Draws, st, DrawStep{MaxW: mw, MaxH: mh})
						}
						out = append(out, sc)
					}
				}
			}
		}
	}
	// nested: a centring parent hands the list its own maximum
	for _, mw := range []int{0, 2} {
		w := &WD{K: "center", C: &WD{K: "list", Items: rows[0], Cursor: true, Every: true}}
		out = append(out, drawScn(w, mw, 10, 0, 0))
	}
	return out
}

// ---- paint ------------------------------------------------------------------

// fillWrites writes every cell of a w x h surface with a letter that depends
// on the surface and on the position (so a shifted or transposed paint shows).
func fillWrites(w, h, salt int) [][3]int {
	var ws [][3]int
	for r := 0; r < h; r++ {
		for c := 0; c < w; c++ {
			ws = append(ws, [3]int{c, r, 'a' + (salt*5+c+3*r)%26})
		}
	}
	return ws
}

func leafSD(w, h, salt int) *SD {
	return &SD{W: w, H: h, Fg: 1 + salt%7, Writes: fillWrites(w, h, salt)}
}

func overlap(a, b KD) bool {
	return a.X < b.X+b.S.W && b.X < a.X+a.S.W && a.Y < b.Y+b.S.H && b.Y < a.Y+a.S.H
}

// distinctZ gives overlapping siblings different z-indices: the property
// orders painting by z-index only.
func distinctZ(kids []KD, rng *rand.Rand) {
	for i := range kids {
		for again := true; again; {
			again = false
			for j := 0; j < i; j++ {
				if kids[i].Z == kids[j].Z && overlap(kids[i], kids[j]) {
					kids[i].Z = rng.Intn(7) - 3
					again = true
				}
			}
		}
	}
}

func randSD(rng *rand.Rand, depth, maxw, maxh int, salt *int) *SD {
	*salt++
	w, h := rng.Intn(maxw+1), rng.Intn(maxh+1)
	if rng.Intn(5) > 0 {
		w, h = 1+rng.Intn(maxw), 1+rng.Intn(maxh)
	}
	s := leafSD(w, h, *salt)
	switch rng.Intn(5) {
	case 0: // sparse writes, some of them outside
		s.Writes = nil
		for i := 0; i < 1+rng.Intn(6); i++ {
			s.Writes = append(s.Writes, [3]int{rng.Intn(w+2) - 0, rng.Intn(h + 2), 'A' + rng.Intn(26)})
		}
	case 1: // a write just outside each edge after the fill
		s.Writes = append(s.Writes, [3]int{w, 0, '#'}, [3]int{0, h, '#'}, [3]int{w, h, '#'}, [3]int{65535, 65535, '#'})
	}
	if depth > 0 {
		n := rng.Intn(4)
		for i := 0; i < n; i++ {
			k := KD{X: rng.Intn(w+4) - 2, Y: rng.Intn(h+3) - 1, Z: rng.Intn(3) - 1, S: randSD(rng, depth-1, maxw, maxh, salt)}
			s.Kids = append(s.Kids, k)
		}
		distinctZ(s.Kids, rng)
	}
	return s
}

// GenPaintSmall: bounded-exhaustive two-level trees on a 4x3 screen: a root, one
// child at every offset in -1..3 x -1..2 of sizes {1x1, 2x2, 5x1}, and a second
// overlapping child with every z relation.
func GenPaintSmall(rng *rand.Rand) []*Scn {
	var out []*Scn
	sizes := [][2]int{{1, 1}, {2, 2}, {5, 1}, {0, 2}}
	for _, sz := range sizes {
		var frames []*SD
		for x := -1; x <= 3; x++ {
			for y := -1; y <= 2; y++ {
				for _, z := range []int{-1, 1} {
					root := leafSD(3, 3, 0)
					a := KD{X: x, Y: y, Z: 0, S: leafSD(sz[0], sz[1], 1)}
					b := KD{X: 1, Y: 1, Z: z, S: leafSD(2, 1, 2)}
					// grandchild hanging over the edge of a
					a.S.Kids = []KD{{X: sz[0] - 1, Y: 0, Z: 0, S: leafSD(2, 2, 3)}}
					root.Kids = []KD{a, b}
					if rng.Intn(2) == 0 {
						root.Kids = []KD{b, a}
					}
					frames = append(frames, root)
				}
			}
		}
		// several frames per session keep this cheap: 8 ms per frame
		for i := 0; i < len(frames); i += 8 {
			j := i + 8
			if j > len(frames) {
				j = len(frames)
			}
			out = append(out, &Scn{Kind: "paint", Cols: 4, Rows: 3, Frames: frames[i:j]})
		}
	}
	return out
}

// bigSD: a surface with more than 65535 cells of which only the far corner is
// visible (negative origin), written near that corner.
func bigChild(w, h, cols, rows, salt int) KD {
	s := &SD{W: w, H: h, Fg: 3}
	for r := h - rows; r < h; r++ {
		for c := w - cols; c < w; c++ {
			if c >= 0 && r >= 0 {
				s.Writes = append(s.Writes, [3]int{c, r, 'a' + (salt+c+3*r)%26})
			}
		}
	}
	return KD{X: cols - w, Y: rows - h, Z: 1, S: s}
}

func PaintFixed() []*Scn {
	var out []*Scn
	for _, sz := range [][2]int{{300, 300}, {256, 256}, {257, 255}, {1000, 70}, {255, 257}} {
		root := leafSD(6, 4, 0)
		k := bigChild(sz[0], sz[1], 3, 2, 1)
		root.Kids = []KD{k}
		// the big surface itself as root, bigger than the screen
		big := &SD{W: sz[0], H: sz[1], Fg: 2, Writes: [][3]int{{0, 0, 'T'}, {5, 3, 'B'}, {0, 3, 'L'}, {sz[0] - 1, sz[1] - 1, 'Z'}, {6, 4, 'o'}}}
		out = append(out, &Scn{Kind: "paint", Cols: 6, Rows: 4, Frames: []*SD{root, big}})
	}
	// zero-sized root, root smaller than the screen, child entirely outside
	out = append(out, &Scn{Kind: "paint", Cols: 5, Rows: 3, Frames: []*SD{
		{W: 0, H: 0},
		{W: 0, H: 3, Kids: []KD{{X: 0, Y: 0, S: leafSD(2, 2, 1)}}},
		leafSD(2, 1, 4),
		{W: 5, H: 3, Fg: 2, Writes: fillWrites(5, 3, 1), Kids: []KD{{X: 9, Y: 0, S: leafSD(2, 2, 2)}, {X: -4, Y: -4, S: leafSD(3, 3, 3)}, {X: 4, Y: 2, Z: 5, S: leafSD(3, 3, 4)}}},
		leafSD(9, 9, 5),
	}})
	return out
}

func GenPaintRandom(rng *rand.Rand, n int) []*Scn {
	var out []*Scn
	for i := 0; i < n; i++ {
		cols, rows := 3+rng.Intn(6), 2+rng.Intn(4)
		sc := &Scn{Kind: "paint", Cols: cols, Rows: rows}
		nf := 2 + rng.Intn(4)
		salt := rng.Intn(20)
		for f := 0; f < nf; f++ {
			root := randSD(rng, 1+rng.Intn(3), cols+1, rows+1, &salt)
			if rng.Intn(3) > 0 {
				root.W, root.H = cols, rows
				root.Writes = fillWrites(cols, rows, salt)
			}
			if rng.Intn(12) == 0 {
				root.Kids = append(root.Kids, bigChild(256+rng.Intn(60), 256+rng.Intn(60), 1+rng.Intn(cols), 1+rng.Intn(rows), salt))
				distinctZ(root.Kids, rng)
			}
			if i%2 == 1 {
				widen(root, rng, root.W <= cols && root.H <= rows)
			}
			sc.Frames = append(sc.Frames, root)
		}
		out = append(out, sc)
	}
	return out
}

// ---- paint: wide graphemes under and over the edges of other surfaces --------

var wideRunes = []int{'世', '界', '你', '好'}

// rowWrites turns a pattern ('n' narrow, 'W' wide + the column it covers, '.'
// nothing written) into the writes of one row. A wide grapheme is followed by
// a column the surface does not write: what a surface holds under its own
// wide grapheme is not part of the property.
func rowWrites(pat string, row, salt int) [][3]int {
	var ws [][3]int
	c := 0
	for _, p := range pat {
		switch p {
		case 'n':
			ws = append(ws, [3]int{c, row, 'a' + (salt*7+c+3*row)%26})
			c++
		case 'W':
			ws = append(ws, [3]int{c, row, wideRunes[(salt+c+row)%len(wideRunes)]})
			c += 2
		default:
			c++
		}
	}
	return ws
}

func patWidth(pat string) int {
	w := 0
	for _, p := range pat {
		if p == 'W' {
			w += 2
		} else {
			w++
		}
	}
	return w
}

// GenPaintWide: bounded-exhaustive on a 7x2 screen. The root holds narrow
// letters in row 0 and wide graphemes of its own in row 1; child A (z 0, four
// columns of row 0, every arrangement of narrow and wide cells, its cells its
// own or those of a grandchild that fills it) and child B (two rows, narrow,
// wide, mixed or unwritten, at every column, below or above A) overlap in
// every way: the later-painted surface starts or ends on the left half, on
// the right half or on both halves of a wide grapheme of the surface under it.
// No wide grapheme hangs over the edge of its own surface and every surface is
// inside the root, so Surface!Want judges every frame.
func GenPaintWide(rng *rand.Rand, thorough bool) []*Scn {
	const cols, rows = 7, 2
	apats := []string{"WW", "nWn", "nnW", "Wnn", "nnnn"}
	bpats := []string{"n", "W", "nW", "Wn", "..", "nn"}
	var frames []*SD
	for ai, ap := range apats {
		for bi, bp := range bpats {
			bw := patWidth(bp)
			nests := []bool{rng.Intn(2) == 0} // quick: one of the two per pair of patterns
			if thorough {
				nests = []bool{false, true}
			}
			for _, nest := range nests {
				for x := 0; x+bw <= cols; x++ {
					for _, z := range []int{-1, 1} {
						root := &SD{W: cols, H: rows, Fg: 1, Writes: append(rowWrites("nnnnnnn", 0, 0), rowWrites("nWWnn", 1, 1)...)}
						a := &SD{W: 4, H: 1, Fg: 2}
						if nest {
							a.Kids = []KD{{X: 0, Y: 0, Z: 0, S: &SD{W: 4, H: 1, Fg: 4, Writes: rowWrites(ap, 0, 2+ai)}}}
						} else {
							a.Writes = rowWrites(ap, 0, 2+ai)
						}
						b := &SD{W: bw, H: 2, Fg: 3, Writes: append(rowWrites(bp, 0, 5+bi), rowWrites(bp, 1, 6+bi)...)}
						// one surface in four leaves the widths of its cells to the library
						switch rng.Intn(8) {
						case 0:
							a.Auto = true
							if nest {
								a.Kids[0].S.Auto = true
							}
						case 1:
							b.Auto = true
						}
						ka, kb := KD{X: 1, Y: 0, Z: 0, S: a}, KD{X: x, Y: 0, Z: z, S: b}
						root.Kids = []KD{ka, kb}
						if rng.Intn(2) == 0 {
							root.Kids = []KD{kb, ka}
						}
						frames = append(frames, root)
					}
				}
			}
		}
	}
	var out []*Scn
	for i := 0; i < len(frames); i += 12 {
		j := i + 12
		if j > len(frames) {
			j = len(frames)
		}
		out = append(out, &Scn{Kind: "paint", Cols: cols, Rows: rows, Frames: frames[i:j]})
	}
	return out
}

// PaintWideFixed: a root with wide graphemes only; a one-cell child on the
// right half of a wide grapheme of a lower child (text "x" over text "你好");
// a wide child over that right half; a child on the left half; back.
func PaintWideFixed() []*Scn {
	low := func() KD {
		return KD{X: 0, Y: 0, Z: 0, S: &SD{W: 4, H: 1, Fg: 2, Writes: [][3]int{{0, 0, '你'}, {2, 0, '好'}}}}
	}
	root := func(kids ...KD) *SD {
		return &SD{W: 10, H: 2, Fg: 1, Writes: [][3]int{{0, 1, '世'}, {2, 1, '界'}, {4, 1, 'z'}, {8, 1, '世'}}, Kids: kids}
	}
	// a wide character in the last column of a surface does not fit and is not shown (its row is not judged);
	// the rows below it are painted as ever: the cell in their first column too
	edge := func(kids ...KD) *SD {
		return &SD{W: 3, H: 3, Fg: 1, Writes: [][3]int{{0, 0, 'a'}, {1, 0, 'b'}, {2, 0, '世'}, {0, 1, 'Ω'}, {1, 1, 'c'}, {2, 1, '界'}, {0, 2, 'd'}}, Kids: kids}
	}
	edges := &Scn{Kind: "paint", Cols: 6, Rows: 3, Frames: []*SD{
		edge(),
		edge(KD{X: 1, Y: 1, Z: 1, S: &SD{W: 2, H: 2, Fg: 3, Writes: [][3]int{{0, 0, 'p'}, {1, 0, '好'}, {0, 1, 'q'}, {1, 1, 'r'}}}}),
		{W: 1, H: 3, Fg: 2, Writes: [][3]int{{0, 0, '世'}, {0, 1, 'Ω'}, {0, 2, '界'}}},
		edge(),
	}}
	return []*Scn{edges, {Kind: "paint", Cols: 10, Rows: 2, Frames: []*SD{
		root(),
		root(low(), KD{X: 1, Y: 0, Z: 1, S: &SD{W: 1, H: 1, Fg: 3, Writes: [][3]int{{0, 0, 'x'}}}}),
		root(low(), KD{X: 1, Y: 0, Z: 1, S: &SD{W: 2, H: 2, Fg: 3, Writes: [][3]int{{0, 0, '世'}, {0, 1, '界'}}}}),
		root(low(), KD{X: 2, Y: 0, Z: 1, S: &SD{W: 1, H: 2, Fg: 3, Auto: true, Writes: [][3]int{{0, 0, 'y'}, {0, 1, 'y'}}}}),
		root(),
	}}}
}

// widen replaces, in surfaces that lie entirely inside all their ancestors
// and the screen and were filled cell by cell, some pairs of neighbouring
// cells by one wide grapheme (the covered column is then not written).
func widen(s *SD, rng *rand.Rand, inside bool) {
	if inside && s.W > 1 && len(s.Writes) == s.W*s.H {
		var ws [][3]int
		for i := 0; i < len(s.Writes); i++ {
			wr := s.Writes[i]
			if wr[0]+1 < s.W && rng.Intn(4) == 0 {
				ws = append(ws, [3]int{wr[0], wr[1], wideRunes[rng.Intn(len(wideRunes))]})
				i++ // the cell under its right half
				continue
			}
			ws = append(ws, wr)
		}
		s.Writes = ws
		s.Auto = rng.Intn(5) == 0
	}
	for _, k := range s.Kids {
		widen(k.S, rng, inside && k.X >= 0 && k.Y >= 0 && k.X+k.S.W <= s.W && k.Y+k.S.H <= s.H)
	}
}
