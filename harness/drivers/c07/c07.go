// Package c07 generates, for every subset of the features a terminal may
// advertise, a short session (start-up, frames exercising every fallback,
// Close) executed by the c01 executor, and the RGB->palette sweep.
package c07

import (
	"git.sr.ht/~rockorager/vaxis"

	"verif/harness/drivers/c01"
	"verif/harness/trace"
)

func st(fg, bg, ul vaxis.Color, us vaxis.UnderlineStyle, at vaxis.AttributeMask) c01.StyleD {
	return c01.StyleD{Fg: uint32(fg), Bg: uint32(bg), Ul: uint32(ul), Us: uint8(us), At: uint8(at)}
}

// Session builds the scenario for one advertised feature mask.
func Session(mask int, alt bool, variant int) *c01.Scn {
	cell := func(g string, w int, s c01.StyleD) *c01.CellD { return &c01.CellD{G: g, W: w, S: s} }
	rgb1 := vaxis.RGBColor(uint8(1+variant*37), uint8(1+variant*91), uint8(1+variant*13))
	rgb2 := vaxis.RGBColor(0x60, uint8(variant*53), 0)
	f1 := c01.Frame{End: "render", Ops: []c01.Op{
		{K: "set", C: 0, R: 0, Cell: cell("a", 1, st(rgb1, 0, 0, 0, vaxis.AttrBold))},
		{K: "set", C: 1, R: 0, Cell: cell("b", 0, st(vaxis.IndexColor(3), rgb2, rgb1, vaxis.UnderlineCurly, 0))},
		{K: "set", C: 2, R: 0, Cell: cell("世", 0, st(0, vaxis.IndexColor(200), vaxis.IndexColor(9), vaxis.UnderlineDashed, vaxis.AttrItalic))},
		{K: "set", C: 0, R: 1, Cell: cell("👩‍🚀", 0, st(0, 0, 0, vaxis.UnderlineDouble, 0))},
		{K: "set", C: 4, R: 1, Cell: cell("☺️", 0, c01.StyleD{Link: "http://x"})},
		{K: "set", C: 0, R: 2, Cell: cell("🇯🇵", 0, st(rgb2, rgb1, 0, 0, vaxis.AttrReverse))},
		{K: "set", C: 3, R: 2, Cell: cell("é", 0, c01.StyleD{})},
		{K: "show", C: 1, R: 1, Shape: 3},
	}}
	f2 := c01.Frame{End: "render", Ops: []c01.Op{
		{K: "set", C: 0, R: 1, Cell: cell("x", 1, st(0, 0, rgb2, vaxis.UnderlineSingle, 0))},
		{K: "set", C: 2, R: 0, Cell: cell("y", 1, c01.StyleD{})},
		{K: "hide"},
	}}
	f3 := c01.Frame{End: "refresh"}
	return &c01.Scn{Kind: "caps-session", Mask: mask, Alt: alt, Cols: 8, Rows: 3, Frames: []c01.Frame{f1, f2, f3}}
}

// TermSession: a session on a terminal that names itself (XTVERSION) and gives a DA1 service class; the
// frames hold narrow ASCII cells only (what such a terminal makes of wide clusters is not the point).
func TermSession(mask int, termID string, da1class int) *c01.Scn {
	cell := func(g string, s c01.StyleD) *c01.CellD { return &c01.CellD{G: g, W: 1, S: s} }
	f1 := c01.Frame{End: "render", Ops: []c01.Op{
		{K: "set", C: 0, R: 0, Cell: cell("a", c01.StyleD{Fg: 2})},
		{K: "set", C: 1, R: 0, Cell: cell("b", c01.StyleD{Us: 3, Ul: 4})},
		{K: "set", C: 2, R: 1, Cell: cell("c", c01.StyleD{Link: "http://x"})},
	}}
	f2 := c01.Frame{End: "refresh"}
	return &c01.Scn{Kind: "caps-term", Mask: mask, Cols: 6, Rows: 2, Frames: []c01.Frame{f1, f2}, TermID: termID, DA1Class: da1class}
}

// PaletteRow evaluates the fallback for (r, g, b) over the given blues.
func PaletteRow(r, g int, bs []int) trace.Ev {
	idx := make([]int, len(bs))
	for k, b := range bs {
		p := vaxis.VerifAsIndex(vaxis.RGBColor(uint8(r), uint8(g), uint8(b))).Params()
		if len(p) == 1 {
			idx[k] = int(p[0])
		} else {
			idx[k] = -1
		}
	}
	return trace.Ev{"ev": "row", "r": r, "g": g, "bs": bs, "idx": idx}
}
