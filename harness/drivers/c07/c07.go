// Package c07 generates, for every subset of the features a terminal may
// advertise, a short session (start-up, frames exercising every fallback,
// Close) executed by the c01 executor, and the RGB->palette sweep.
package c07

import (
	"fmt"

	"git.sr.ht/~rockorager/vaxis"

	"verif/harness/drivers/c01"
	"verif/harness/responder"
	"verif/harness/sess"
	"verif/harness/termcmd"
	"verif/harness/trace"
)

// Scn is a C07 session: a c01 scenario plus two things that leave what the terminal advertises untouched and
// therefore must leave what Vaxis establishes untouched: the size of the application's event queue
// (Options.EventQueueSize, a public option; 0 = the library's default) and the letter case of the hexadecimal
// digits in the terminal's XTGETTCAP / tertiary-DA replies (0 upper, 1 lower, 2 mixed).
type Scn struct {
	c01.Scn
	Queue int `json:",omitempty"`
	Hex   int `json:",omitempty"`
	// Cur: where the terminal's cursor is when the application starts (1-based row, column; zero = home).
	// A program started after other output on the line (printf x; app) finds it anywhere, and an xterm-like
	// terminal keeps it across the switch to the alternate screen.
	Cur [2]int `json:",omitempty"`
}

// CursorSession: Session on a terminal whose cursor is not at home when the application starts.
func CursorSession(mask int, alt bool, variant, row, col int) *Scn {
	sc := Plain(Session(mask, alt, variant))
	sc.Kind, sc.Cur = "caps-cursor", [2]int{row, col}
	return sc
}

// Plain wraps a c01 scenario (default queue, upper-case hex): executed by the c01 executor itself.
func Plain(sc *c01.Scn) *Scn { return &Scn{Scn: *sc} }

// QueueSession: Session on an application with an event queue of q entries.
func QueueSession(mask int, alt bool, variant, q int, termID string) *Scn {
	sc := Plain(Session(mask, alt, variant))
	sc.Kind, sc.Queue, sc.TermID = "caps-queue", q, termID
	return sc
}

// HexSession: Session on a terminal writing hexadecimal strings in the given case.
func HexSession(mask int, alt bool, variant, hexcase int) *Scn {
	sc := Plain(Session(mask, alt, variant))
	sc.Kind, sc.Hex = "caps-hex", hexcase
	return sc
}

// Run executes a session. Sessions without the C07 extras go through the c01 executor unchanged; the others
// through the same steps with the extra option / reply form (cells, cursor, render/refresh frames, Close).
func Run(ctx *c01.Ctx, sc *Scn) (evs []trace.Ev, note string) {
	if sc.Queue == 0 && sc.Hex == 0 && sc.Cur == [2]int{} {
		return c01.Run(ctx, &sc.Scn)
	}
	caps := responder.FromMask(sc.Mask, sc.Alt)
	caps.XTVersion, caps.DA1Class, caps.HexCase = sc.TermID, sc.DA1Class, sc.Hex
	s, err := sess.Start(sess.Config{Caps: caps, Cols: sc.Cols, Rows: sc.Rows, CurRow: sc.Cur[0], CurCol: sc.Cur[1],
		Opts: vaxis.Options{EventQueueSize: sc.Queue}})
	if err != nil {
		return nil, "start: " + err.Error()
	}
	vx := s.Vx
	defer func() {
		if r := recover(); r != nil {
			note = fmt.Sprintf("panic: %v", r)
			evs = append(evs, trace.Ev{"ev": "panic"})
		}
	}()
	cv := termcmd.NewConv(ctx.G, ctx.L, caps.UnicodeCore, caps.ExplicitWidth)
	adv := []string{}
	for i, n := range responder.Names {
		if sc.Mask&(1<<i) != 0 {
			adv = append(adv, n)
		}
	}
	evs = append(evs, trace.Ev{"ev": "reset", "rows": sc.Rows, "cols": sc.Cols, "xw": caps.ExplicitWidth, "adv": adv})
	evs = append(evs, cv.Feed(s.Startup)...)
	evs = append(evs, trace.Ev{"ev": "ready", "can": map[string]bool{
		"rgb": vx.CanRGB(), "kittyGraphics": vx.CanKittyGraphics(), "sixel": vx.CanSixel(), "color": vx.CanReportColor(),
		"fg": vx.CanReportForegroundColor(), "bg": vx.CanReportBackgroundColor(), "graphics": vx.CanDisplayGraphics(),
		"appid": vx.CanSetAppID(), "unicodeCore": vx.CanUnicodeCore(), "explicitWidth": vx.CanExplicitWidth()}})
	want := c01.NewRec(sc.Cols, sc.Rows, cv)
	cur := []int{0, 0, 0, 0}
	for _, f := range sc.Frames {
		win := vx.Window()
		for _, op := range f.Ops {
			switch op.K {
			case "set":
				win.SetCell(op.C, op.R, op.Cell.V())
				want.Apply(op)
			case "show":
				vx.ShowCursor(op.C, op.R, vaxis.CursorStyle(op.Shape))
				cur = []int{1, op.R + 1, op.C + 1, op.Shape}
			case "hide":
				vx.HideCursor()
				cur = []int{0, 0, 0, 0}
			default:
				return nil, "c07 executor: unsupported op " + op.K
			}
		}
		if f.End == "refresh" {
			evs = append(evs, trace.Ev{"ev": "scramble"})
			vx.Refresh()
		} else {
			vx.Render()
		}
		evs = append(evs, cv.Feed(s.Con.Take())...)
		app := want.App(cv, ctx.L)
		// rgb / su: which fallbacks the terminal's advertisement calls for (what it said, not what Vaxis made of it)
		evs = append(evs, trace.Ev{"ev": "frame", "app": app, "cur": cur, "rgb": caps.RGB, "su": caps.Smulx || caps.VTE})
	}
	vx.Close()
	evs = append(evs, cv.Feed(s.Con.Take())...)
	return evs, ""
}

// appCell: one application cell as the tuple RefTerm.Intended expects.
func appCell(cv *termcmd.Conv, l *trace.Interner, c c01.CellD) []int {
	ln := 0
	if c.S.Link != "" {
		ln = l.ID(c.S.LinkP + ";" + c.S.Link)
	}
	v := c.S.V()
	return []int{cv.G.ID(c.G), c.W, c01.ColInt(v.Foreground), c01.ColInt(v.Background), c01.ColInt(v.UnderlineColor),
		int(c.S.Us), c01.AttrInt(v.Attribute), ln, cv.AppWidth(c.G)}
}

func st(fg, bg, ul vaxis.Color, us vaxis.UnderlineStyle, at vaxis.AttributeMask) c01.StyleD {
	return c01.StyleD{Fg: uint32(fg), Bg: uint32(bg), Ul: uint32(ul), Us: uint8(us), At: uint8(at)}
}

// Session builds the scenario for one advertised feature mask.
func Session(mask int, alt bool, variant int) *c01.Scn {
	cell := func(g string, w int, s c01.StyleD) *c01.CellD { return &c01.CellD{G: g, W: w, S: s} }
	rgb1 := vaxis.RGBColor(uint8(1+variant*37), uint8(1+variant*91), uint8(1+variant*13))
	rgb2 := vaxis.RGBColor(0x60, uint8(variant*53), 0)
	f1 := c01.Frame{End: "render", Ops: []c01.Op{
		{K: "set", C: 0, R: 0, Cell: cell("a", 1, st(rgb1, 0, 0, 0, vaxis.AttrBold))},
		{K: "set", C: 1, R: 0, Cell: cell("b", 0, st(vaxis.IndexColor(3), rgb2, rgb1, vaxis.UnderlineCurly, 0))},
		{K: "set", C: 2, R: 0, Cell: cell("世", 0, st(0, vaxis.IndexColor(200), vaxis.IndexColor(9), vaxis.UnderlineDashed, vaxis.AttrItalic))},
		{K: "set", C: 0, R: 1, Cell: cell("👩‍🚀", 0, st(0, 0, 0, vaxis.UnderlineDouble, 0))},
		{K: "set", C: 4, R: 1, Cell: cell("☺️", 0, c01.StyleD{Link: "http://x"})},
		{K: "set", C: 0, R: 2, Cell: cell("🇯🇵", 0, st(rgb2, rgb1, 0, 0, vaxis.AttrReverse))},
		{K: "set", C: 3, R: 2, Cell: cell("é", 0, c01.StyleD{})},
		{K: "show", C: 1, R: 1, Shape: 3},
	}}
	f2 := c01.Frame{End: "render", Ops: []c01.Op{
		{K: "set", C: 0, R: 1, Cell: cell("x", 1, st(0, 0, rgb2, vaxis.UnderlineSingle, 0))},
		{K: "set", C: 2, R: 0, Cell: cell("y", 1, c01.StyleD{})},
		{K: "hide"},
	}}
	f3 := c01.Frame{End: "refresh"}
	return &c01.Scn{Kind: "caps-session", Mask: mask, Alt: alt, Cols: 8, Rows: 3, Frames: []c01.Frame{f1, f2, f3}}
}

// TermSession: a session on a terminal that names itself (XTVERSION) and gives a DA1 service class; the
// frames hold narrow ASCII cells only (what such a terminal makes of wide clusters is not the point).
func TermSession(mask int, termID string, da1class int) *c01.Scn {
	cell := func(g string, s c01.StyleD) *c01.CellD { return &c01.CellD{G: g, W: 1, S: s} }
	f1 := c01.Frame{End: "render", Ops: []c01.Op{
		{K: "set", C: 0, R: 0, Cell: cell("a", c01.StyleD{Fg: 2})},
		{K: "set", C: 1, R: 0, Cell: cell("b", c01.StyleD{Us: 3, Ul: 4})},
		{K: "set", C: 2, R: 1, Cell: cell("c", c01.StyleD{Link: "http://x"})},
	}}
	f2 := c01.Frame{End: "refresh"}
	return &c01.Scn{Kind: "caps-term", Mask: mask, Cols: 6, Rows: 2, Frames: []c01.Frame{f1, f2}, TermID: termID, DA1Class: da1class}
}

// PaletteRow evaluates the fallback for (r, g, b) over the given blues.
func PaletteRow(r, g int, bs []int) trace.Ev {
	idx := make([]int, len(bs))
	for k, b := range bs {
		p := vaxis.VerifAsIndex(vaxis.RGBColor(uint8(r), uint8(g), uint8(b))).Params()
		if len(p) == 1 {
			idx[k] = int(p[0])
		} else {
			idx[k] = -1
		}
	}
	return trace.Ev{"ev": "row", "r": r, "g": g, "bs": bs, "idx": idx}
}
