// Package c07 generates, for every subset of the features a terminal may
// advertise, a short session (start-up, frames exercising every fallback,
// Close) executed by the c01 executor, and the RGB->palette sweep.
package c07

import (
	"fmt"

	"git.sr.ht/~rockorager/vaxis"
	"git.sr.ht/~rockorager/vaxis/widgets/pager"
	"git.sr.ht/~rockorager/vaxis/widgets/textinput"
	"github.com/rivo/uniseg"

	"verif/harness/drivers/c01"
	"verif/harness/responder"
	"verif/harness/sess"
	"verif/harness/termcmd"
	"verif/harness/trace"
)

// Scn is a C07 session: a c01 scenario plus two things that leave what the terminal advertises untouched and
// therefore must leave what Vaxis establishes untouched: the size of the application's event queue
// (Options.EventQueueSize, a public option; 0 = the library's default) and the letter case of the hexadecimal
// digits in the terminal's XTGETTCAP / tertiary-DA replies (0 upper, 1 lower, 2 mixed).
type Scn struct {
	c01.Scn
	Queue int `json:",omitempty"`
	Hex   int `json:",omitempty"`
	// Cur: where the terminal's cursor is when the application starts (1-based row, column; zero = home).
	// A program started after other output on the line (printf x; app) finds it anywhere, and an xterm-like
	// terminal keeps it across the switch to the alternate screen.
	Cur [2]int `json:",omitempty"`
	// AppID: the application id the terminal reports in its reply to the OSC 176 query ("" = the responder's
	// default); any string the terminal was started with.
	AppID string `json:",omitempty"`
	// Prior: the process has run another Vaxis before this one (a second tty, a restart after Close), on a
	// terminal advertising Prior-1 (0 = none), which drew the clusters this session draws. What that terminal
	// advertised, and how text was measured for it, is nothing to this session.
	Prior int `json:",omitempty"`
}

// Widget frames: besides the c01 cell operations a C07 frame may hold
//
//	{K: "setnext", R: row, Cell: c}              the cell c right of the cell set by the op before it (see Run)
//	{K: "pager", R: row, Text: t, Style: s}      the library's pager widget drawn into the one-row window at row R
//	                                             (fill and text in style s), holding the one-line text t
//	{K: "input", R: row, Text: t, Cell: {G: p}, Shape: 0|1}
//	                                             the library's text input drawn there with prompt p and content t;
//	                                             Shape 1 = with its cursor (a steady block behind the content)
//
// Here the LIBRARY lays the text out, so the library measures the clusters. The application's record of such a
// row is the text itself (the clusters in order, logged with the number of cells this terminal gives each); where
// each cluster has to be displayed is worked out by the oracle (Caps_Trace!TextRows).
func widgetOp(k string) bool { return k == "pager" || k == "input" }

func hasWidgets(sc *Scn) bool {
	for _, f := range sc.Frames {
		for _, op := range f.Ops {
			if widgetOp(op.K) {
				return true
			}
		}
	}
	return false
}

type part struct {
	text string
	st   c01.StyleD
}

// textRow is the application's record of one widget row.
type textRow struct {
	r     int
	fill  c01.StyleD
	parts []part
	cur   int // DECSCUSR shape of the cursor requested behind the text; 0 = none
}

func clusters(s string) (l []string) {
	gr := uniseg.NewGraphemes(s)
	for gr.Next() {
		l = append(l, gr.Str())
	}
	return l
}

// ev renders the record as {r, c, cells, fill, cur}: cells = the clusters in order as the tuples RefTerm!Intended
// expects (width 0 = left to the library; tw = the logged width on this terminal), fill = a blank in the fill style.
func (t *textRow) ev(cv *termcmd.Conv, l *trace.Interner) trace.Ev {
	cells := [][]int{}
	for _, p := range t.parts {
		for _, g := range clusters(p.text) {
			cells = append(cells, appCell(cv, l, c01.CellD{G: g, W: 0, S: p.st}))
		}
	}
	return trace.Ev{"r": t.r + 1, "c": 1, "cells": cells, "fill": appCell(cv, l, c01.CellD{G: " ", W: 1, S: t.fill}), "cur": t.cur}
}

// CursorSession: Session on a terminal whose cursor is not at home when the application starts.
func CursorSession(mask int, alt bool, variant, row, col int) *Scn {
	sc := Plain(Session(mask, alt, variant))
	sc.Kind, sc.Cur = "caps-cursor", [2]int{row, col}
	return sc
}

// Plain wraps a c01 scenario (default queue, upper-case hex): executed by the c01 executor itself.
func Plain(sc *c01.Scn) *Scn { return &Scn{Scn: *sc} }

// QueueSession: Session on an application with an event queue of q entries.
func QueueSession(mask int, alt bool, variant, q int, termID string) *Scn {
	sc := Plain(Session(mask, alt, variant))
	sc.Kind, sc.Queue, sc.TermID = "caps-queue", q, termID
	return sc
}

// HexSession: Session on a terminal writing hexadecimal strings in the given case.
func HexSession(mask int, alt bool, variant, hexcase int) *Scn {
	sc := Plain(Session(mask, alt, variant))
	sc.Kind, sc.Hex = "caps-hex", hexcase
	return sc
}

// Run executes a session. Sessions without the C07 extras go through the c01 executor unchanged; the others
// through the same steps with the extra option / reply form (cells, cursor, render/refresh frames, Close).
func Run(ctx *c01.Ctx, sc *Scn) (evs []trace.Ev, note string) {
	if sc.Queue == 0 && sc.Hex == 0 && sc.Cur == [2]int{} && sc.AppID == "" && sc.Prior == 0 && !hasWidgets(sc) {
		return c01.Run(ctx, &sc.Scn)
	}
	if sc.Prior != 0 {
		p, err := sess.Start(sess.Config{Caps: responder.FromMask(sc.Prior-1, false), Cols: sc.Cols, Rows: sc.Rows})
		if err != nil {
			return nil, "start of the prior session: " + err.Error()
		}
		pw := p.Vx.Window()
		for _, f := range sc.Frames {
			for _, op := range f.Ops {
				switch op.K {
				case "set", "setnext":
					pw.Print(vaxis.Segment{Text: op.Cell.G})
				case "pager", "input":
					pw.Print(vaxis.Segment{Text: op.Text})
				}
			}
		}
		p.Vx.Render()
		p.Vx.Close()
	}
	caps := responder.FromMask(sc.Mask, sc.Alt)
	caps.XTVersion, caps.DA1Class, caps.HexCase = sc.TermID, sc.DA1Class, sc.Hex
	if sc.AppID != "" {
		caps.AppID = sc.AppID
	}
	s, err := sess.Start(sess.Config{Caps: caps, Cols: sc.Cols, Rows: sc.Rows, CurRow: sc.Cur[0], CurCol: sc.Cur[1],
		Opts: vaxis.Options{EventQueueSize: sc.Queue}})
	if err != nil {
		return nil, "start: " + err.Error()
	}
	vx := s.Vx
	defer func() {
		if r := recover(); r != nil {
			note = fmt.Sprintf("panic: %v", r)
			evs = append(evs, trace.Ev{"ev": "panic"})
		}
	}()
	cv := termcmd.NewConv(ctx.G, ctx.L, caps.UnicodeCore, caps.ExplicitWidth)
	adv := []string{}
	for i, n := range responder.Names {
		if sc.Mask&(1<<i) != 0 {
			adv = append(adv, n)
		}
	}
	evs = append(evs, trace.Ev{"ev": "reset", "rows": sc.Rows, "cols": sc.Cols, "xw": caps.ExplicitWidth, "adv": adv})
	evs = append(evs, cv.Feed(s.Startup)...)
	evs = append(evs, trace.Ev{"ev": "ready", "can": map[string]bool{
		"rgb": vx.CanRGB(), "kittyGraphics": vx.CanKittyGraphics(), "sixel": vx.CanSixel(), "color": vx.CanReportColor(),
		"fg": vx.CanReportForegroundColor(), "bg": vx.CanReportBackgroundColor(), "graphics": vx.CanDisplayGraphics(),
		"appid": vx.CanSetAppID(), "unicodeCore": vx.CanUnicodeCore(), "explicitWidth": vx.CanExplicitWidth()}})
	want := c01.NewRec(sc.Cols, sc.Rows, cv)
	cur := []int{0, 0, 0, 0}
	texts := map[int]*textRow{} // widget rows, by row
	nextCol := 0
	for _, f := range sc.Frames {
		win := vx.Window()
		for _, op := range f.Ops {
			switch op.K {
			case "pager":
				p := &pager.Model{Segments: []vaxis.Segment{{Text: op.Text, Style: op.Style.V()}}, Fill: vaxis.Cell{Style: op.Style.V()}}
				p.Draw(win.New(0, op.R, -1, 1))
				texts[op.R] = &textRow{r: op.R, fill: *op.Style, parts: []part{{op.Text, *op.Style}}}
			case "input":
				ti := textinput.New().SetPrompt(op.Cell.G).SetContent(op.Text)
				ti.HideCursor = op.Shape == 0
				ti.Draw(win.New(0, op.R, -1, 1))
				t := &textRow{r: op.R, parts: []part{{op.Cell.G, c01.StyleD{}}, {op.Text, c01.StyleD{}}}}
				if op.Shape != 0 {
					for _, o := range texts {
						o.cur = 0
					}
					t.cur = int(vaxis.CursorBlock)
				}
				texts[op.R] = t
			case "set":
				win.SetCell(op.C, op.R, op.Cell.V())
				want.Apply(op)
				nextCol = op.C + cv.AppWidth(op.Cell.G)
			case "setnext":
				// the cell right of the cell set before it, where this terminal's way of measuring ends that one (the
				// application knows its terminal): a library measuring the cell before with another method, a width
				// remembered from another terminal for instance, skips or displaces this one
				o := op
				o.K, o.C = "set", nextCol
				win.SetCell(o.C, o.R, o.Cell.V())
				want.Apply(o)
				nextCol = o.C + cv.AppWidth(o.Cell.G)
			case "show":
				vx.ShowCursor(op.C, op.R, vaxis.CursorStyle(op.Shape))
				cur = []int{1, op.R + 1, op.C + 1, op.Shape}
				for _, t := range texts {
					t.cur = 0
				}
			case "hide":
				vx.HideCursor()
				cur = []int{0, 0, 0, 0}
				for _, t := range texts {
					t.cur = 0
				}
			default:
				return nil, "c07 executor: unsupported op " + op.K
			}
		}
		if f.End == "refresh" {
			evs = append(evs, trace.Ev{"ev": "scramble"})
			vx.Refresh()
		} else {
			vx.Render()
		}
		evs = append(evs, cv.Feed(s.Con.Take())...)
		app := want.App(cv, ctx.L)
		// rgb / su: which fallbacks the terminal's advertisement calls for (what it said, not what Vaxis made of it)
		fe := trace.Ev{"ev": "frame", "app": app, "cur": cur, "rgb": caps.RGB, "su": caps.Smulx || caps.VTE}
		if len(texts) > 0 {
			tl := []trace.Ev{}
			for r := 0; r < sc.Rows; r++ {
				if t := texts[r]; t != nil {
					tl = append(tl, t.ev(cv, ctx.L))
				}
			}
			fe["texts"] = tl
		}
		evs = append(evs, fe)
	}
	vx.Close()
	evs = append(evs, cv.Feed(s.Con.Take())...)
	return evs, ""
}

// appCell: one application cell as the tuple RefTerm.Intended expects.
func appCell(cv *termcmd.Conv, l *trace.Interner, c c01.CellD) []int {
	ln := 0
	if c.S.Link != "" {
		ln = l.ID(c.S.LinkP + ";" + c.S.Link)
	}
	v := c.S.V()
	return []int{cv.G.ID(c.G), c.W, c01.ColInt(v.Foreground), c01.ColInt(v.Background), c01.ColInt(v.UnderlineColor),
		int(c.S.Us), c01.AttrInt(v.Attribute), ln, cv.AppWidth(c.G)}
}

func st(fg, bg, ul vaxis.Color, us vaxis.UnderlineStyle, at vaxis.AttributeMask) c01.StyleD {
	return c01.StyleD{Fg: uint32(fg), Bg: uint32(bg), Ul: uint32(ul), Us: uint8(us), At: uint8(at)}
}

// Session builds the scenario for one advertised feature mask.
func Session(mask int, alt bool, variant int) *c01.Scn {
	cell := func(g string, w int, s c01.StyleD) *c01.CellD { return &c01.CellD{G: g, W: w, S: s} }
	rgb1 := vaxis.RGBColor(uint8(1+variant*37), uint8(1+variant*91), uint8(1+variant*13))
	rgb2 := vaxis.RGBColor(0x60, uint8(variant*53), 0)
	f1 := c01.Frame{End: "render", Ops: []c01.Op{
		{K: "set", C: 0, R: 0, Cell: cell("a", 1, st(rgb1, 0, 0, 0, vaxis.AttrBold))},
		{K: "set", C: 1, R: 0, Cell: cell("b", 0, st(vaxis.IndexColor(3), rgb2, rgb1, vaxis.UnderlineCurly, 0))},
		{K: "set", C: 2, R: 0, Cell: cell("世", 0, st(0, vaxis.IndexColor(200), vaxis.IndexColor(9), vaxis.UnderlineDashed, vaxis.AttrItalic))},
		{K: "set", C: 0, R: 1, Cell: cell("👩‍🚀", 0, st(0, 0, 0, vaxis.UnderlineDouble, 0))},
		{K: "set", C: 4, R: 1, Cell: cell("☺️", 0, c01.StyleD{Link: "http://x"})},
		{K: "set", C: 0, R: 2, Cell: cell("🇯🇵", 0, st(rgb2, rgb1, 0, 0, vaxis.AttrReverse))},
		{K: "set", C: 3, R: 2, Cell: cell("é", 0, c01.StyleD{})},
		{K: "show", C: 1, R: 1, Shape: 3},
	}}
	f2 := c01.Frame{End: "render", Ops: []c01.Op{
		{K: "set", C: 0, R: 1, Cell: cell("x", 1, st(0, 0, rgb2, vaxis.UnderlineSingle, 0))},
		{K: "set", C: 2, R: 0, Cell: cell("y", 1, c01.StyleD{})},
		{K: "hide"},
	}}
	f3 := c01.Frame{End: "refresh"}
	return &c01.Scn{Kind: "caps-session", Mask: mask, Alt: alt, Cols: 8, Rows: 3, Frames: []c01.Frame{f1, f2, f3}}
}

// WidgetSession: the library's own text widgets hold clusters whose width depends on the measuring method (ZWJ
// sequence, VS16 emoji, flag), each followed by a sentinel; row 0 holds plain cells. Frame 2 changes the sentinels
// only (so that a repaint goes to the column the library believes they are in), frame 3 repaints everything.
// Every text, measured by whatever method, is far narrower than the screen: no wrapping, truncation or scrolling.
// variant%3: 0 = pagers and text input, 1 = pagers only, 2 = text input only.
func WidgetSession(mask int, alt bool, variant int) *Scn {
	// one joiner, a variation selector, a flag, two joiners, three joiners (a terminal that shows the parts of a
	// joined sequence on their own needs every joiner taken out before measuring)
	tricky := []string{"👩‍🚀", "☺️", "🇯🇵", "👨‍👩‍👧", "👨‍👩‍👧‍👦"}
	plain := []string{"a", "世", "é", "x"}
	t := func(k int) string { return tricky[(variant+k)%len(tricky)] }
	p := func(k int) string { return plain[(variant+k)%4] }
	bg := c01.StyleD{Bg: uint32(vaxis.IndexColor(uint8(1 + variant%6)))}
	none := c01.StyleD{}
	texts := func(s1, s2 string) []c01.Op {
		ops := []c01.Op{
			{K: "set", C: 0, R: 0, Cell: &c01.CellD{G: "r", W: 1}},
			{K: "set", C: 1, R: 0, Cell: &c01.CellD{G: t(0), W: 0}},
			{K: "setnext", R: 0, Cell: &c01.CellD{G: s1, W: 1}},
			{K: "set", C: 20, R: 0, Cell: &c01.CellD{G: t(1), W: 0}},
			{K: "setnext", R: 0, Cell: &c01.CellD{G: s2, W: 1}},
		}
		if variant%3 != 2 {
			ops = append(ops, c01.Op{K: "pager", R: 1, Text: t(0) + s1 + p(0), Style: &bg},
				c01.Op{K: "pager", R: 2, Text: p(1) + t(1) + s1 + t(2) + s2, Style: &none})
		}
		if variant%3 != 1 {
			ops = append(ops, c01.Op{K: "input", R: 3, Text: t(2) + s1 + p(2) + t(0) + s2,
				Cell: &c01.CellD{G: []string{"", "> ", t(1) + " "}[variant/3%3]}, Shape: 1})
		}
		return ops
	}
	// (the last row stays empty: text a wrongly measuring library pushes over the end of a row wraps, not scrolls)
	return Plain(&c01.Scn{Kind: "caps-widget", Mask: mask, Alt: alt, Cols: 40, Rows: 5, Frames: []c01.Frame{
		{End: "render", Ops: texts("|", "!")}, {End: "render", Ops: texts("#", "?")}, {End: "refresh"}}})
}

// AppIDSession: Session on a terminal that reports the given application id (any string it was started with).
func AppIDSession(mask int, alt bool, variant int, id string) *Scn {
	sc := Plain(Session(mask, alt, variant))
	sc.Kind, sc.AppID = "caps-appid", id
	return sc
}

// TermSession: a session on a terminal that names itself (XTVERSION) and gives a DA1 service class; the
// frames hold narrow ASCII cells only (what such a terminal makes of wide clusters is not the point).
func TermSession(mask int, termID string, da1class int) *c01.Scn {
	cell := func(g string, s c01.StyleD) *c01.CellD { return &c01.CellD{G: g, W: 1, S: s} }
	f1 := c01.Frame{End: "render", Ops: []c01.Op{
		{K: "set", C: 0, R: 0, Cell: cell("a", c01.StyleD{Fg: 2})},
		{K: "set", C: 1, R: 0, Cell: cell("b", c01.StyleD{Us: 3, Ul: 4})},
		{K: "set", C: 2, R: 1, Cell: cell("c", c01.StyleD{Link: "http://x"})},
	}}
	f2 := c01.Frame{End: "refresh"}
	return &c01.Scn{Kind: "caps-term", Mask: mask, Cols: 6, Rows: 2, Frames: []c01.Frame{f1, f2}, TermID: termID, DA1Class: da1class}
}

// PaletteRow evaluates the fallback for (r, g, b) over the given blues.
func PaletteRow(r, g int, bs []int) trace.Ev {
	idx := make([]int, len(bs))
	for k, b := range bs {
		p := vaxis.VerifAsIndex(vaxis.RGBColor(uint8(r), uint8(g), uint8(b))).Params()
		if len(p) == 1 {
			idx[k] = int(p[0])
		} else {
			idx[k] = -1
		}
	}
	return trace.Ev{"ev": "row", "r": r, "g": g, "bs": bs, "idx": idx}
}
