// Package c01 drives a real Vaxis through frame histories on a fake console
// and records, per frame, the abstract terminal commands it emitted followed
// by the application's own record of what it set (the driver never reads
// Vaxis's buffers). specs/term/RefTerm_Trace.tla decides.
package c01

import (
	"fmt"
	"math/rand"
	"strings"

	"git.sr.ht/~rockorager/vaxis"

	"verif/harness/responder"
	"verif/harness/sess"
	"verif/harness/termcmd"
	"verif/harness/trace"
)

// ---- replay descriptor -------------------------------------------------

type StyleD struct {
	Fg, Bg, Ul uint32
	Us, At     uint8
	Link       string `json:",omitempty"`
	LinkP      string `json:",omitempty"`
}

type CellD struct {
	G string
	W int
	S StyleD
}

type Op struct {
	K     string  // set, style, fill, clear, print, show, hide
	C, R  int     `json:",omitempty"`
	Cell  *CellD  `json:",omitempty"`
	Style *StyleD `json:",omitempty"`
	Text  string  `json:",omitempty"`
	Shape int     `json:",omitempty"`
}

type Frame struct {
	Ops        []Op
	End        string // render | refresh | resize
	Cols, Rows int    `json:",omitempty"` // for resize
}

type Scn struct {
	Kind   string
	Mask   int // responder.Names bit mask
	Alt    bool
	Cols   int
	Rows   int
	Frames []Frame
	// TermID: the name the terminal gives in its XTVERSION reply ("" = none); DA1Class: the service class
	// (first parameter) of its DA1 reply (0 = 62). Neither advertises a feature, except that "tmux 3.4" is
	// known to implement Unicode core without reporting mode 2027.
	TermID   string `json:",omitempty"`
	DA1Class int    `json:",omitempty"`
}

func (s StyleD) V() vaxis.Style {
	return vaxis.Style{Hyperlink: s.Link, HyperlinkParams: s.LinkP, Foreground: vaxis.Color(s.Fg),
		Background: vaxis.Color(s.Bg), UnderlineColor: vaxis.Color(s.Ul),
		UnderlineStyle: vaxis.UnderlineStyle(s.Us), Attribute: vaxis.AttributeMask(s.At)}
}

func (c CellD) V() vaxis.Cell {
	return vaxis.Cell{Character: vaxis.Character{Grapheme: c.G, Width: c.W}, Style: c.S.V()}
}

// ColInt converts a vaxis colour to the oracle's integer encoding using only
// the public Params accessor.
func ColInt(c vaxis.Color) int {
	p := c.Params()
	switch len(p) {
	case 1:
		return int(p[0]) + 1
	case 3:
		return termcmd.RGBBase + int(p[0])<<16 + int(p[1])<<8 + int(p[2])
	}
	return 0
}

// AttrInt converts Vaxis's attribute mask to the oracle's bit numbering.
func AttrInt(a vaxis.AttributeMask) int {
	n := 0
	for i, b := range []vaxis.AttributeMask{vaxis.AttrBold, vaxis.AttrDim, vaxis.AttrItalic, vaxis.AttrBlink,
		vaxis.AttrReverse, vaxis.AttrInvisible, vaxis.AttrStrikethrough} {
		if a&b != 0 {
			n |= 1 << i
		}
	}
	return n
}

// ---- executor ----------------------------------------------------------

type Ctx struct {
	G, L *trace.Interner
	Dump func(format string, a ...any) // debugging: raw output per frame
}

func (c *Ctx) dump(format string, a ...any) {
	if c.Dump != nil {
		c.Dump(format, a...)
	}
}

func stripNUL(b []byte) string { return strings.ReplaceAll(string(b), "\x00", "") }

type curReq struct {
	vis             bool
	row, col, shape int
}

// appCell renders one application cell as the tuple RefTerm.Intended expects.
func appCell(cv *termcmd.Conv, l *trace.Interner, c CellD) []int {
	ln := 0
	if c.S.Link != "" {
		ln = l.ID(c.S.LinkP + ";" + c.S.Link)
	}
	v := c.S.V()
	return []int{cv.G.ID(c.G), c.W, ColInt(v.Foreground), ColInt(v.Background), ColInt(v.UnderlineColor),
		int(c.S.Us), AttrInt(v.Attribute), ln, cv.AppWidth(c.G)}
}

// Run executes a scenario against the real library and returns its events.
func Run(ctx *Ctx, sc *Scn) (evs []trace.Ev, note string) {
	caps := responder.FromMask(sc.Mask, sc.Alt)
	caps.XTVersion, caps.DA1Class = sc.TermID, sc.DA1Class
	s, err := sess.Start(sess.Config{Caps: caps, Cols: sc.Cols, Rows: sc.Rows})
	if err != nil {
		return nil, "start: " + err.Error()
	}
	vx := s.Vx
	defer func() {
		if r := recover(); r != nil {
			note = fmt.Sprintf("panic: %v", r)
			evs = append(evs, trace.Ev{"ev": "panic"})
		}
	}()
	cv := termcmd.NewConv(ctx.G, ctx.L, caps.UnicodeCore, caps.ExplicitWidth)
	rgbcap := vx.CanRGB()
	sucap := caps.Smulx || caps.VTE
	adv := []string{}
	for i, n := range responder.Names {
		if sc.Mask&(1<<i) != 0 {
			adv = append(adv, n)
		}
	}
	if sc.TermID == "tmux 3.4" && sc.Mask&(1<<1) == 0 {
		adv = append(adv, "unicodeCore")
	}
	evs = append(evs, trace.Ev{"ev": "reset", "rows": sc.Rows, "cols": sc.Cols, "xw": caps.ExplicitWidth, "adv": adv})
	evs = append(evs, cv.Feed(s.Startup)...)
	evs = append(evs, trace.Ev{"ev": "ready", "can": map[string]bool{
		"rgb": vx.CanRGB(), "kittyGraphics": vx.CanKittyGraphics(), "sixel": vx.CanSixel(), "color": vx.CanReportColor(),
		"fg": vx.CanReportForegroundColor(), "bg": vx.CanReportBackgroundColor(), "graphics": vx.CanDisplayGraphics(),
		"appid": vx.CanSetAppID(), "unicodeCore": vx.CanUnicodeCore(), "explicitWidth": vx.CanExplicitWidth()}})
	ctx.dump("startup caps=%+v out=%q\n", caps, stripNUL(s.Startup))
	cols, rows := sc.Cols, sc.Rows
	want := newWant(cols, rows)
	cur := curReq{}
	for _, f := range sc.Frames {
		if f.End == "resize" && (f.Cols != cols || f.Rows != rows) {
			cols, rows = f.Cols, f.Rows
			s.Con.SetSize(cols, rows)
			s.Resp.Cols, s.Resp.Rows = cols, rows
			vx.Resize()
			vx.Render()
			o := s.Con.Take()
			ctx.dump("resize -> %dx%d out=%q\n", cols, rows, stripNUL(o))
			evs = append(evs, cv.Feed(o)...)
			evs = append(evs, trace.Ev{"ev": "resize", "rows": rows, "cols": cols})
			want = newWant(cols, rows)
		}
		win := vx.Window()
		for _, op := range f.Ops {
			switch op.K {
			case "set":
				win.SetCell(op.C, op.R, op.Cell.V())
				if op.C >= 0 && op.C < cols && op.R >= 0 && op.R < rows {
					want[op.R][op.C] = *op.Cell
				}
			case "style":
				win.SetStyle(op.C, op.R, op.Style.V())
				if op.C >= 0 && op.C < cols && op.R >= 0 && op.R < rows {
					want[op.R][op.C].S = *op.Style
				}
			case "fill":
				win.Fill(op.Cell.V())
				for r := range want {
					for c := range want[r] {
						want[r][c] = *op.Cell
					}
				}
			case "clear":
				win.Clear()
				for r := range want {
					for c := range want[r] {
						want[r][c] = CellD{G: " ", W: 1}
					}
				}
			case "print":
				// narrow ASCII text only; documented behaviour: left to
				// right from the origin, wrapping at the right edge.
				win.Print(vaxis.Segment{Text: op.Text, Style: op.Style.V()})
				c, r := 0, 0
				for _, ch := range op.Text {
					if r >= rows {
						break
					}
					want[r][c] = CellD{G: string(ch), W: 1, S: *op.Style}
					c++
					if c >= cols {
						c, r = 0, r+1
					}
				}
			case "show":
				vx.ShowCursor(op.C, op.R, vaxis.CursorStyle(op.Shape))
				cur = curReq{true, op.R, op.C, op.Shape}
			case "hide":
				vx.HideCursor()
				cur.vis = false
			}
		}
		switch f.End {
		case "refresh":
			evs = append(evs, trace.Ev{"ev": "scramble"})
			vx.Refresh()
		default:
			vx.Render()
		}
		o := s.Con.Take()
		ctx.dump("frame %s out=%q\n", f.End, stripNUL(o))
		evs = append(evs, cv.Feed(o)...)
		app := make([][][]int, rows)
		for r := range want {
			app[r] = make([][]int, cols)
			for c := range want[r] {
				app[r][c] = appCell(cv, ctx.L, want[r][c])
			}
		}
		cr := []int{0, 0, 0, 0}
		if cur.vis {
			cr = []int{1, cur.row + 1, cur.col + 1, cur.shape}
		}
		evs = append(evs, trace.Ev{"ev": "frame", "app": app, "cur": cr, "rgb": rgbcap, "su": sucap})
	}
	vx.Close()
	evs = append(evs, cv.Feed(s.Con.Take())...)
	return evs, ""
}

func newWant(cols, rows int) [][]CellD {
	w := make([][]CellD, rows)
	for r := range w {
		w[r] = make([]CellD, cols)
	}
	return w
}

// ---- generators --------------------------------------------------------

var narrow = []string{"a", "b", "x", " ", "é", "~"}
var wide = []string{"世", "😀"}
var tricky = []string{"👩‍🚀", "☺️", "🇯🇵"} // width depends on the terminal's method
var zero = []string{"", "́"}

func randColor(rng *rand.Rand) uint32 {
	switch rng.Intn(6) {
	case 0, 1:
		return 0
	case 2:
		return uint32(vaxis.IndexColor(uint8(rng.Intn(8))))
	case 3:
		return uint32(vaxis.IndexColor(uint8(8 + rng.Intn(8))))
	case 4:
		return uint32(vaxis.IndexColor(uint8(16 + rng.Intn(240))))
	}
	return uint32(vaxis.RGBColor(uint8(rng.Intn(256)), uint8(rng.Intn(256)), uint8(rng.Intn(256))))
}

func RandStyle(rng *rand.Rand) StyleD {
	s := StyleD{}
	if rng.Intn(4) == 0 {
		return s
	}
	s.Fg, s.Bg = randColor(rng), randColor(rng)
	if rng.Intn(2) == 0 {
		s.Us = uint8(rng.Intn(6))
		s.Ul = randColor(rng)
	}
	if rng.Intn(2) == 0 {
		s.At = uint8(rng.Intn(128)) << 1
	}
	switch rng.Intn(12) {
	case 0:
		s.Link = "http://a"
	case 1:
		s.Link, s.LinkP = "http://b", "id=1"
	case 2: // the same target under another id: a different hyperlink
		s.Link, s.LinkP = "http://b", "id=2"
	case 3: // a target with the separator of the sequence in it
		s.Link, s.LinkP = "http://c/login;jsessionid=1?x=/y", "id=1"
	case 4:
		s.Link = "http://c/login;jsessionid=1?x=/y"
	}
	return s
}

func randCell(rng *rand.Rand, cv widther, maxw int) CellD {
	var g string
	switch x := rng.Intn(20); {
	case x < 10:
		g = narrow[rng.Intn(len(narrow))]
	case x < 15:
		g = wide[rng.Intn(len(wide))]
	case x < 17:
		g = tricky[rng.Intn(len(tricky))]
	case x < 19:
		g = zero[rng.Intn(len(zero))]
	default:
		g = ""
	}
	c := CellD{G: g, S: RandStyle(rng)}
	if rng.Intn(3) == 0 && g != "" {
		c.W = cv.AppWidth(g) // explicit, correct width
	}
	return c
}

type widther interface{ AppWidth(string) int }

// fixDomain appends ops so that no glyph extends past the right edge (such a
// cell has no correct rendering and is outside C01's domain).
func fixDomain(want [][]CellD, cv widther, ops []Op) []Op {
	for r := range want {
		n := len(want[r])
		for c := 0; c < n; {
			w := want[r][c].W
			if w == 0 {
				w = cv.AppWidth(want[r][c].G)
			}
			if w < 1 {
				w = 1
			}
			if c+w > n {
				cell := CellD{G: "#", W: 1, S: want[r][c].S}
				want[r][c] = cell
				ops = append(ops, Op{K: "set", C: c, R: r, Cell: &cell})
				w = 1
			}
			c += w
		}
	}
	return ops
}

// simWant mirrors Run's bookkeeping so generators can keep scenarios in domain.
type sim struct {
	want       [][]CellD
	cols, rows int
	vis        bool
	cr, cc     int
}

func (m *sim) apply(op Op) {
	in := op.C >= 0 && op.C < m.cols && op.R >= 0 && op.R < m.rows
	switch op.K {
	case "set":
		if in {
			m.want[op.R][op.C] = *op.Cell
		}
	case "style":
		if in {
			m.want[op.R][op.C].S = *op.Style
		}
	case "fill":
		for r := range m.want {
			for c := range m.want[r] {
				m.want[r][c] = *op.Cell
			}
		}
	case "clear":
		for r := range m.want {
			for c := range m.want[r] {
				m.want[r][c] = CellD{G: " ", W: 1}
			}
		}
	case "print":
		c, r := 0, 0
		for _, ch := range op.Text {
			if r >= m.rows {
				break
			}
			m.want[r][c] = CellD{G: string(ch), W: 1, S: *op.Style}
			c++
			if c >= m.cols {
				c, r = 0, r+1
			}
		}
	case "show":
		m.vis, m.cr, m.cc = true, op.R, op.C
	case "hide":
		m.vis = false
	}
}

// capsConv returns a width oracle matching what the terminal will do once
// Vaxis has finished start-up under this mask.
func capsConv(mask int, alt bool) *termcmd.Conv {
	caps := responder.FromMask(mask, alt)
	cv := termcmd.NewConv(trace.NewInterner(" "), trace.NewInterner(""), caps.UnicodeCore, caps.ExplicitWidth)
	// Mode 2027 is switched on by a conforming application iff the terminal
	// advertises it and explicit width is not in use.
	cv.Mode2027 = caps.UnicodeCore && !caps.ExplicitWidth
	return cv
}

// The capability bits that matter for rendering.
var renderBits = []int{0, 1, 8, 9, 14} // sync, unicodeCore, rgb, styledUnderlines, explicitWidth

func randMask(rng *rand.Rand) int {
	m := 0
	for _, b := range renderBits {
		if rng.Intn(2) == 0 {
			m |= 1 << b
		}
	}
	return m
}

func GenRandom(rng *rand.Rand, nframes int) *Scn {
	return GenRandomFor(rng, nframes, randMask(rng), rng.Intn(2) == 0)
}

// GenRandomFor generates a history for a terminal advertising exactly mask.
func GenRandomFor(rng *rand.Rand, nframes int, mask int, alt bool) *Scn {
	sc := &Scn{Kind: "random", Mask: mask, Alt: alt, Cols: 1 + rng.Intn(8), Rows: 1 + rng.Intn(4)}
	cv := capsConv(sc.Mask, sc.Alt)
	m := &sim{want: newWant(sc.Cols, sc.Rows), cols: sc.Cols, rows: sc.Rows}
	for i := 0; i < nframes; i++ {
		f := Frame{End: "render"}
		switch x := rng.Intn(20); {
		case x < 3:
			f.End = "refresh"
		case x < 5 && i > 0:
			f.End = "resize"
			f.Cols, f.Rows = 1+rng.Intn(8), 1+rng.Intn(4)
			if f.Cols == m.cols && f.Rows == m.rows {
				f.Cols++
			}
			vis, cr, cc := m.vis, m.cr, m.cc
			m = &sim{want: newWant(f.Cols, f.Rows), cols: f.Cols, rows: f.Rows, vis: vis, cr: cr, cc: cc}
			if m.vis && (m.cr >= m.rows || m.cc >= m.cols) {
				// a cursor request outside the new screen has no meaning
				op := Op{K: "hide"}
				m.apply(op)
				f.Ops = append(f.Ops, op)
			}
		}
		nops := rng.Intn(6)
		for j := 0; j < nops; j++ {
			var op Op
			switch x := rng.Intn(20); {
			case x < 10:
				c := randCell(rng, cv, m.cols)
				if mask&(1<<14) != 0 && rng.Intn(4) == 0 && len([]rune(c.G)) == 1 && cv.AppWidth(c.G) == 1 {
					// a terminal with explicit width displays a glyph in as many cells as the
					// application says: a narrow character laid out two cells wide
					c.W = 2
				}
				op = Op{K: "set", C: rng.Intn(m.cols+1) - 0, R: rng.Intn(m.rows), Cell: &c}
				if rng.Intn(10) == 0 {
					op.C = -1
				}
			case x < 12:
				st := RandStyle(rng)
				op = Op{K: "style", C: rng.Intn(m.cols), R: rng.Intn(m.rows), Style: &st}
			case x < 13:
				c := randCell(rng, cv, m.cols)
				op = Op{K: "fill", Cell: &c}
			case x < 15:
				op = Op{K: "clear"}
			case x < 16:
				st := RandStyle(rng)
				op = Op{K: "print", Text: strings.Repeat("hi", 1+rng.Intn(3)), Style: &st}
			case x < 19:
				op = Op{K: "show", C: rng.Intn(m.cols), R: rng.Intn(m.rows), Shape: rng.Intn(7)}
			default:
				op = Op{K: "hide"}
			}
			m.apply(op)
			f.Ops = append(f.Ops, op)
		}
		f.Ops = fixDomain(m.want, cv, f.Ops)
		sc.Frames = append(sc.Frames, f)
	}
	return sc
}

// GenChain exercises pen transitions: rows of cells whose styles follow a
// prescribed chain, two frames so that both in-frame carry and cross-frame
// diffs are covered.
func GenChain(mask int, alt bool, cols, rows int, styles []StyleD) *Scn {
	sc := &Scn{Kind: "chain", Mask: mask, Alt: alt, Cols: cols, Rows: rows}
	k := 0
	for fr := 0; fr < 2 && k < len(styles); fr++ {
		f := Frame{End: "render"}
		for r := 0; r < rows && k < len(styles); r++ {
			for c := 0; c < cols && k < len(styles); c++ {
				cell := CellD{G: string(rune('a' + k%26)), W: 1, S: styles[k]}
				f.Ops = append(f.Ops, Op{K: "set", C: c, R: r, Cell: &cell})
				k++
			}
		}
		sc.Frames = append(sc.Frames, f)
	}
	return sc
}

// allStyleChain returns a style chain covering every ordered pair of
// attribute masks (128 x 128) once: a, b0, a, b1, ... for each a.
func attrPairChain() []StyleD {
	var out []StyleD
	for a := 0; a < 128; a++ {
		for b := 0; b < 128; b++ {
			out = append(out, StyleD{At: uint8(a) << 1}, StyleD{At: uint8(b) << 1})
		}
	}
	return out
}

func colourClassChain() []StyleD {
	classes := []uint32{0, uint32(vaxis.IndexColor(3)), uint32(vaxis.IndexColor(12)), uint32(vaxis.IndexColor(200)),
		uint32(vaxis.RGBColor(1, 2, 3)), uint32(vaxis.RGBColor(0x60, 0, 0)), uint32(vaxis.IndexColor(0)), uint32(vaxis.IndexColor(255))}
	var out []StyleD
	for _, a := range classes {
		for _, b := range classes {
			out = append(out, StyleD{Fg: a, Bg: b}, StyleD{Fg: b, Bg: a, Ul: a, Us: 1}, StyleD{Ul: b, Us: 3})
		}
	}
	for a := 0; a < 6; a++ {
		for b := 0; b < 6; b++ {
			out = append(out, StyleD{Us: uint8(a)}, StyleD{Us: uint8(b)})
		}
	}
	return out
}

// GenChains builds chain scenarios. full: every attribute-mask pair;
// otherwise n random chunks of the pair chain plus the colour-class chain.
func GenChains(rng *rand.Rand, full bool, n int) []*Scn {
	var out []*Scn
	pairs := attrPairChain()
	cc := colourClassChain()
	const cols, rows = 16, 4
	per := cols * rows * 2
	emit := func(chain []StyleD, mask int) {
		for i := 0; i < len(chain); i += per {
			j := i + per
			if j > len(chain) {
				j = len(chain)
			}
			out = append(out, GenChain(mask, false, cols, rows, chain[i:j]))
		}
	}
	if full {
		emit(pairs, 0)
		emit(pairs, 1<<8|1<<9|1)
	} else {
		for k := 0; k < n; k++ {
			i := rng.Intn(len(pairs)/per) * per
			out = append(out, GenChain(randMask(rng), false, cols, rows, pairs[i:i+per]))
		}
	}
	for _, m := range []int{0, 1 << 8, 1 << 9, 1<<8 | 1<<9, 1<<8 | 1<<9 | 1} {
		emit(cc, m)
	}
	return out
}

// Fixed returns hand-written regression scenarios for corner cases the
// random generator reaches only rarely.
func Fixed() []*Scn {
	cell := func(g string, w int) *CellD { return &CellD{G: g, W: w} }
	var out []*Scn
	for _, mask := range []int{0, 1 << 1, 1 << 14, 1 | 1<<1 | 1<<8 | 1<<9} {
		// wide glyph over never-written cells, then replaced by a narrow one
		out = append(out, &Scn{Kind: "wide-then-narrow", Mask: mask, Cols: 3, Rows: 1, Frames: []Frame{
			{End: "render", Ops: []Op{{K: "set", C: 0, R: 0, Cell: cell("世", 0)}}},
			{End: "render", Ops: []Op{{K: "set", C: 0, R: 0, Cell: cell("a", 1)}}},
		}})
		// narrow pair replaced by a wide glyph, then back
		out = append(out, &Scn{Kind: "narrow-wide-narrow", Mask: mask, Cols: 4, Rows: 2, Frames: []Frame{
			{End: "render", Ops: []Op{{K: "set", C: 1, R: 0, Cell: cell("a", 1)}, {K: "set", C: 2, R: 0, Cell: cell("b", 1)}}},
			{End: "render", Ops: []Op{{K: "set", C: 1, R: 0, Cell: cell("世", 2)}}},
			{End: "render", Ops: []Op{{K: "set", C: 1, R: 0, Cell: cell("a", 1)}}},
			{End: "render", Ops: []Op{{K: "set", C: 2, R: 0, Cell: cell("c", 1)}}},
		}})
		// cursor shown, moved without content change, hidden
		out = append(out, &Scn{Kind: "cursor-only", Mask: mask, Cols: 4, Rows: 2, Frames: []Frame{
			{End: "render", Ops: []Op{{K: "show", C: 1, R: 1, Shape: 2}}},
			{End: "render", Ops: []Op{{K: "show", C: 2, R: 0, Shape: 2}}},
			{End: "render", Ops: []Op{{K: "show", C: 2, R: 0, Shape: 4}}},
			{End: "render", Ops: []Op{{K: "hide"}}},
			{End: "render", Ops: []Op{{K: "show", C: 0, R: 0, Shape: 6}, {K: "set", C: 0, R: 0, Cell: cell("z", 1)}}},
			{End: "render", Ops: []Op{{K: "hide"}, {K: "set", C: 1, R: 0, Cell: cell("y", 1)}}},
			{End: "refresh", Ops: nil},
		}})
	}
	return out
}
