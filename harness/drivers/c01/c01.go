// Package c01 drives a real Vaxis through frame histories on a fake console
// and records, per frame, the abstract terminal commands it emitted followed
// by the application's own record of what it set (the driver never reads
// Vaxis's buffers). specs/term/RefTerm_Trace.tla decides.
package c01

import (
	"fmt"
	"math/rand"
	"strings"

	"git.sr.ht/~rockorager/vaxis"

	"verif/harness/responder"
	"verif/harness/sess"
	"verif/harness/termcmd"
	"verif/harness/trace"
)

// ---- replay descriptor -------------------------------------------------

type StyleD struct {
	Fg, Bg, Ul uint32
	Us, At     uint8
	Link       string `json:",omitempty"`
	LinkP      string `json:",omitempty"`
}

type CellD struct {
	G string
	W int
	S StyleD
}

type Op struct {
	K     string  // set, style, fill, clear, print, show, hide
	C, R  int     `json:",omitempty"`
	Cell  *CellD  `json:",omitempty"`
	Style *StyleD `json:",omitempty"`
	Text  string  `json:",omitempty"`
	Shape int     `json:",omitempty"`
}

type Frame struct {
	Ops        []Op
	End        string // render | refresh | resize
	Cols, Rows int    `json:",omitempty"` // for resize
	// Foreign: what something else left of the terminal's cursor before a Refresh or a size change
	// ("whatever the terminal displayed before" includes the cursor); nil = the cursor was left alone
	Foreign *ForeignD `json:",omitempty"`
}

// ForeignD is a cursor state of the terminal: visibility, DECSCUSR shape, 0-based position.
type ForeignD struct {
	Vis   bool
	Shape int
	R, C  int
}

type Scn struct {
	Kind   string
	Mask   int // responder.Names bit mask
	Alt    bool
	Cols   int
	Rows   int
	Frames []Frame
	// TermID: the name the terminal gives in its XTVERSION reply ("" = none); DA1Class: the service class
	// (first parameter) of its DA1 reply (0 = 62). Neither advertises a feature, except that "tmux 3.4" is
	// known to implement Unicode core without reporting mode 2027.
	TermID   string `json:",omitempty"`
	DA1Class int    `json:",omitempty"`
}

func (s StyleD) V() vaxis.Style {
	return vaxis.Style{Hyperlink: s.Link, HyperlinkParams: s.LinkP, Foreground: vaxis.Color(s.Fg),
		Background: vaxis.Color(s.Bg), UnderlineColor: vaxis.Color(s.Ul),
		UnderlineStyle: vaxis.UnderlineStyle(s.Us), Attribute: vaxis.AttributeMask(s.At)}
}

func (c CellD) V() vaxis.Cell {
	return vaxis.Cell{Character: vaxis.Character{Grapheme: c.G, Width: c.W}, Style: c.S.V()}
}

// ColInt converts a vaxis colour to the oracle's integer encoding using only
// the public Params accessor.
func ColInt(c vaxis.Color) int {
	p := c.Params()
	switch len(p) {
	case 1:
		return int(p[0]) + 1
	case 3:
		return termcmd.RGBBase + int(p[0])<<16 + int(p[1])<<8 + int(p[2])
	}
	return 0
}

// AttrInt converts Vaxis's attribute mask to the oracle's bit numbering.
func AttrInt(a vaxis.AttributeMask) int {
	n := 0
	for i, b := range []vaxis.AttributeMask{vaxis.AttrBold, vaxis.AttrDim, vaxis.AttrItalic, vaxis.AttrBlink,
		vaxis.AttrReverse, vaxis.AttrInvisible, vaxis.AttrStrikethrough} {
		if a&b != 0 {
			n |= 1 << i
		}
	}
	return n
}

// ---- executor ----------------------------------------------------------

type Ctx struct {
	G, L *trace.Interner
	Dump func(format string, a ...any) // debugging: raw output per frame
}

func (c *Ctx) dump(format string, a ...any) {
	if c.Dump != nil {
		c.Dump(format, a...)
	}
}

func stripNUL(b []byte) string { return strings.ReplaceAll(string(b), "\x00", "") }

type curReq struct {
	vis             bool
	row, col, shape int
}

// ---- the application's record -------------------------------------------

// RecCell is what the application knows about one column: the cell of the write that last covered the
// column, the column where that write started (Hd) and the number of the write (St, growing; 0 = never
// written). The record is a log, not a verdict: which glyphs are still whole and what each column has
// to show is decided by RefTerm!Intended from these facts.
type RecCell struct {
	Cell   CellD
	Hd, St int
}

// Rec is the application's own record of the screen it asked for.
type Rec struct {
	Cols, Rows int
	Cells      [][]RecCell
	stamp      int
	w          widther
}

type widther interface{ AppWidth(string) int }

func NewRec(cols, rows int, w widther) *Rec {
	m := &Rec{Cols: cols, Rows: rows, w: w, Cells: make([][]RecCell, rows)}
	for r := range m.Cells {
		m.Cells[r] = make([]RecCell, cols)
		for c := range m.Cells[r] {
			m.Cells[r][c].Hd = c
		}
	}
	return m
}

// Width is the number of columns a cell covers on this terminal: the explicit width, else the
// terminal's own width of the grapheme; an empty or zero-width cell still covers its column.
func (m *Rec) Width(c CellD) int {
	w := c.W
	if w == 0 {
		w = m.w.AppWidth(c.G)
	}
	if w < 1 {
		w = 1
	}
	return w
}

func (m *Rec) in(c, r int) bool { return c >= 0 && c < m.Cols && r >= 0 && r < m.Rows }

// Set records SetCell(c, r, cell): the write covers the columns c .. c+width-1 (to the edge of the
// screen at most; a glyph reaching past the edge is outside C01's domain, see Fits).
func (m *Rec) Set(c, r int, cell CellD) {
	if !m.in(c, r) {
		return
	}
	m.stamp++
	for i := 0; i < m.Width(cell) && c+i < m.Cols; i++ {
		m.Cells[r][c+i] = RecCell{Cell: cell, Hd: c, St: m.stamp}
	}
}

// Fits tells whether a cell set at column c lies on the screen with all of its columns.
func (m *Rec) Fits(c int, cell CellD) bool { return c >= 0 && c+m.Width(cell) <= m.Cols }

// SetStyle records Window.SetStyle: the style of the cell that starts at this column changes, no
// column changes hands.
func (m *Rec) SetStyle(c, r int, st StyleD) {
	if m.in(c, r) {
		m.Cells[r][c].Cell.S = st
	}
}

// Fill records Window.Fill: the window is filled with the cell, one beside the other; columns at the
// right edge too few for one more are not touched.
func (m *Rec) Fill(cell CellD) {
	w := m.Width(cell)
	for r := 0; r < m.Rows; r++ {
		for c := 0; c+w <= m.Cols; c += w {
			m.Set(c, r, cell)
		}
	}
}

func (m *Rec) Clear() { m.Fill(CellD{G: " ", W: 1}) }

// Print records Window.Print of narrow ASCII text: left to right from the origin, wrapping at the
// right edge (the documented behaviour).
func (m *Rec) Print(text string, st StyleD) {
	c, r := 0, 0
	for _, ch := range text {
		if r >= m.Rows {
			break
		}
		m.Set(c, r, CellD{G: string(ch), W: 1, S: st})
		c++
		if c >= m.Cols {
			c, r = 0, r+1
		}
	}
}

// Whole tells whether the write that started at (c, r) still has all of its columns.
func (m *Rec) Whole(c, r int) bool {
	h := m.Cells[r][c]
	if h.Hd != c {
		return false
	}
	for i := 0; i < m.Width(h.Cell) && c+i < m.Cols; i++ {
		if x := m.Cells[r][c+i]; x.Hd != c || x.St != h.St {
			return false
		}
	}
	return true
}

// Apply records one cell operation (cursor operations are not cell operations).
func (m *Rec) Apply(op Op) {
	switch op.K {
	case "set":
		m.Set(op.C, op.R, *op.Cell)
	case "style":
		m.SetStyle(op.C, op.R, *op.Style)
	case "fill":
		m.Fill(*op.Cell)
	case "clear":
		m.Clear()
	case "print":
		m.Print(op.Text, *op.Style)
	}
}

// App renders the record as the grid of tuples RefTerm!Intended expects:
// <<g, w, fg, bg, ul, us, at, ln, tw, hd, st>> (hd 1-based).
func (m *Rec) App(cv *termcmd.Conv, l *trace.Interner) [][][]int {
	app := make([][][]int, m.Rows)
	for r := range m.Cells {
		app[r] = make([][]int, m.Cols)
		for c, x := range m.Cells[r] {
			app[r][c] = append(appCell(cv, l, x.Cell), x.Hd+1, x.St)
		}
	}
	return app
}

// appCell renders one application cell as the tuple RefTerm.Intended expects.
func appCell(cv *termcmd.Conv, l *trace.Interner, c CellD) []int {
	ln := 0
	if c.S.Link != "" {
		ln = l.ID(c.S.LinkP + ";" + c.S.Link)
	}
	v := c.S.V()
	return []int{cv.G.ID(c.G), c.W, ColInt(v.Foreground), ColInt(v.Background), ColInt(v.UnderlineColor),
		int(c.S.Us), AttrInt(v.Attribute), ln, cv.AppWidth(c.G)}
}

func foreignEv(f *ForeignD) trace.Ev {
	return trace.Ev{"ev": "foreign", "vis": f.Vis, "shape": f.Shape, "r": f.R + 1, "c": f.C + 1}
}

// Run executes a scenario against the real library and returns its events.
func Run(ctx *Ctx, sc *Scn) (evs []trace.Ev, note string) {
	caps := responder.FromMask(sc.Mask, sc.Alt)
	caps.XTVersion, caps.DA1Class = sc.TermID, sc.DA1Class
	s, err := sess.Start(sess.Config{Caps: caps, Cols: sc.Cols, Rows: sc.Rows})
	if err != nil {
		return nil, "start: " + err.Error()
	}
	vx := s.Vx
	defer func() {
		if r := recover(); r != nil {
			note = fmt.Sprintf("panic: %v", r)
			evs = append(evs, trace.Ev{"ev": "panic"})
		}
	}()
	cv := termcmd.NewConv(ctx.G, ctx.L, caps.UnicodeCore, caps.ExplicitWidth)
	rgbcap := vx.CanRGB()
	sucap := caps.Smulx || caps.VTE
	adv := []string{}
	for i, n := range responder.Names {
		if sc.Mask&(1<<i) != 0 {
			adv = append(adv, n)
		}
	}
	if sc.TermID == "tmux 3.4" && sc.Mask&(1<<1) == 0 {
		adv = append(adv, "unicodeCore")
	}
	evs = append(evs, trace.Ev{"ev": "reset", "rows": sc.Rows, "cols": sc.Cols, "xw": caps.ExplicitWidth, "adv": adv})
	evs = append(evs, cv.Feed(s.Startup)...)
	evs = append(evs, trace.Ev{"ev": "ready", "can": map[string]bool{
		"rgb": vx.CanRGB(), "kittyGraphics": vx.CanKittyGraphics(), "sixel": vx.CanSixel(), "color": vx.CanReportColor(),
		"fg": vx.CanReportForegroundColor(), "bg": vx.CanReportBackgroundColor(), "graphics": vx.CanDisplayGraphics(),
		"appid": vx.CanSetAppID(), "unicodeCore": vx.CanUnicodeCore(), "explicitWidth": vx.CanExplicitWidth()}})
	ctx.dump("startup caps=%+v out=%q\n", caps, stripNUL(s.Startup))
	cols, rows := sc.Cols, sc.Rows
	want := NewRec(cols, rows, cv)
	cur := curReq{}
	for _, f := range sc.Frames {
		if f.End == "resize" && (f.Cols != cols || f.Rows != rows) {
			cols, rows = f.Cols, f.Rows
			s.Con.SetSize(cols, rows)
			s.Resp.Cols, s.Resp.Rows = cols, rows
			vx.Resize()
			vx.Render()
			o := s.Con.Take()
			ctx.dump("resize -> %dx%d out=%q\n", cols, rows, stripNUL(o))
			evs = append(evs, cv.Feed(o)...)
			evs = append(evs, trace.Ev{"ev": "resize", "rows": rows, "cols": cols})
			if f.Foreign != nil {
				evs = append(evs, foreignEv(f.Foreign))
			}
			want = NewRec(cols, rows, cv)
		}
		win := vx.Window()
		for _, op := range f.Ops {
			switch op.K {
			case "set":
				win.SetCell(op.C, op.R, op.Cell.V())
			case "style":
				win.SetStyle(op.C, op.R, op.Style.V())
			case "fill":
				win.Fill(op.Cell.V())
			case "clear":
				win.Clear()
			case "print":
				// narrow ASCII text only
				win.Print(vaxis.Segment{Text: op.Text, Style: op.Style.V()})
			case "show":
				vx.ShowCursor(op.C, op.R, vaxis.CursorStyle(op.Shape))
				cur = curReq{true, op.R, op.C, op.Shape}
			case "hide":
				vx.HideCursor()
				cur.vis = false
			}
			want.Apply(op)
		}
		switch f.End {
		case "refresh":
			if f.Foreign != nil {
				evs = append(evs, foreignEv(f.Foreign))
			} else {
				evs = append(evs, trace.Ev{"ev": "scramble"})
			}
			vx.Refresh()
		default:
			vx.Render()
		}
		o := s.Con.Take()
		ctx.dump("frame %s out=%q\n", f.End, stripNUL(o))
		evs = append(evs, cv.Feed(o)...)
		cr := []int{0, 0, 0, 0}
		if cur.vis {
			cr = []int{1, cur.row + 1, cur.col + 1, cur.shape}
		}
		evs = append(evs, trace.Ev{"ev": "frame", "app": want.App(cv, ctx.L), "cur": cr, "rgb": rgbcap, "su": sucap})
	}
	vx.Close()
	evs = append(evs, cv.Feed(s.Con.Take())...)
	return evs, ""
}

// ---- generators --------------------------------------------------------

var narrow = []string{"a", "b", "x", " ", "é", "~"}
var wide = []string{"世", "😀"}
var tricky = []string{"👩‍🚀", "☺️", "🇯🇵"} // width depends on the terminal's method
var zero = []string{"", "́"}

func randColor(rng *rand.Rand) uint32 {
	switch rng.Intn(6) {
	case 0, 1:
		return 0
	case 2:
		return uint32(vaxis.IndexColor(uint8(rng.Intn(8))))
	case 3:
		return uint32(vaxis.IndexColor(uint8(8 + rng.Intn(8))))
	case 4:
		return uint32(vaxis.IndexColor(uint8(16 + rng.Intn(240))))
	}
	return uint32(vaxis.RGBColor(uint8(rng.Intn(256)), uint8(rng.Intn(256)), uint8(rng.Intn(256))))
}

func RandStyle(rng *rand.Rand) StyleD {
	s := StyleD{}
	if rng.Intn(4) == 0 {
		return s
	}
	s.Fg, s.Bg = randColor(rng), randColor(rng)
	if rng.Intn(2) == 0 {
		s.Us = uint8(rng.Intn(6))
		s.Ul = randColor(rng)
	}
	if rng.Intn(2) == 0 {
		s.At = uint8(rng.Intn(128)) << 1
	}
	switch rng.Intn(12) {
	case 0:
		s.Link = "http://a"
	case 1:
		s.Link, s.LinkP = "http://b", "id=1"
	case 2: // the same target under another id: a different hyperlink
		s.Link, s.LinkP = "http://b", "id=2"
	case 3: // a target with the separator of the sequence in it
		s.Link, s.LinkP = "http://c/login;jsessionid=1?x=/y", "id=1"
	case 4:
		s.Link = "http://c/login;jsessionid=1?x=/y"
	}
	return s
}

func randCell(rng *rand.Rand, cv widther, maxw int) CellD {
	var g string
	switch x := rng.Intn(20); {
	case x < 10:
		g = narrow[rng.Intn(len(narrow))]
	case x < 15:
		g = wide[rng.Intn(len(wide))]
	case x < 17:
		g = tricky[rng.Intn(len(tricky))]
	case x < 19:
		g = zero[rng.Intn(len(zero))]
	default:
		g = ""
	}
	c := CellD{G: g, S: RandStyle(rng)}
	if rng.Intn(3) == 0 && g != "" {
		c.W = cv.AppWidth(g) // explicit, correct width
	}
	return c
}

// fixDomain appends ops so that no glyph extends past the right edge (such a
// cell has no correct rendering and is outside C01's domain).
func fixDomain(m *sim, ops []Op) []Op {
	for r := range m.Cells {
		for c := range m.Cells[r] {
			if x := m.Cells[r][c]; x.Hd == c && !m.Fits(c, x.Cell) {
				cell := CellD{G: "#", W: 1, S: x.Cell.S}
				op := Op{K: "set", C: c, R: r, Cell: &cell}
				m.apply(op)
				ops = append(ops, op)
			}
		}
	}
	return ops
}

// sim mirrors Run's bookkeeping so generators can keep scenarios in domain.
type sim struct {
	*Rec
	// grid: the last cell stored at each column, whatever covered it since. Drivers that still keep this older
	// record and lay a row out from the left (C12) share the histories generated here: a glyph that reaches
	// past the edge in that reading is kept out as well
	grid   [][]CellD
	vis    bool
	cr, cc int
}

func newSim(cols, rows int, w widther) *sim {
	m := &sim{Rec: NewRec(cols, rows, w), grid: make([][]CellD, rows)}
	for r := range m.grid {
		m.grid[r] = make([]CellD, cols)
	}
	return m
}

func (m *sim) apply(op Op) {
	switch op.K {
	case "show":
		m.vis, m.cr, m.cc = true, op.R, op.C
	case "hide":
		m.vis = false
	default:
		m.Rec.Apply(op)
		m.applyGrid(op)
	}
}

func (m *sim) applyGrid(op Op) {
	all := func(c CellD) {
		for r := range m.grid {
			for x := range m.grid[r] {
				m.grid[r][x] = c
			}
		}
	}
	switch op.K {
	case "set":
		if m.in(op.C, op.R) {
			m.grid[op.R][op.C] = *op.Cell
		}
	case "style":
		if m.in(op.C, op.R) {
			m.grid[op.R][op.C].S = *op.Style
		}
	case "fill":
		all(*op.Cell)
	case "clear":
		all(CellD{G: " ", W: 1})
	case "print":
		c, r := 0, 0
		for _, ch := range op.Text {
			if r >= m.Rows {
				break
			}
			m.grid[r][c] = CellD{G: string(ch), W: 1, S: *op.Style}
			c++
			if c >= m.Cols {
				c, r = 0, r+1
			}
		}
	}
}

// fixGrid: fixDomain for the older reading (rows laid out from the left over the last cell stored at each column).
func (m *sim) fixGrid(ops []Op) []Op {
	for r := range m.grid {
		for c := 0; c < m.Cols; {
			w := m.Width(m.grid[r][c])
			if c+w > m.Cols {
				cell := CellD{G: "#", W: 1, S: m.grid[r][c].S}
				op := Op{K: "set", C: c, R: r, Cell: &cell}
				m.apply(op)
				ops = append(ops, op)
				w = 1
			}
			c += w
		}
	}
	return ops
}

// inDomain rewrites a cell operation so that no glyph is set where it does not fit: a set of a glyph
// that would reach past the right edge sets '#' there instead; a fill with a wide cell is followed by
// '#' in the columns at the right edge that are too few for one more (what Fill leaves there is not
// stated anywhere).
func (m *sim) inDomain(op Op) []Op {
	switch op.K {
	case "set":
		if m.in(op.C, op.R) && !m.Fits(op.C, *op.Cell) {
			cell := CellD{G: "#", W: 1, S: op.Cell.S}
			op.Cell = &cell
		}
	case "fill":
		w := m.Width(*op.Cell)
		ops := []Op{op}
		for r := 0; r < m.Rows; r++ {
			for c := m.Cols - m.Cols%w; c < m.Cols; c++ {
				cell := CellD{G: "#", W: 1, S: op.Cell.S}
				ops = append(ops, Op{K: "set", C: c, R: r, Cell: &cell})
			}
		}
		return ops
	}
	return []Op{op}
}

// capsConv returns a width oracle matching what the terminal will do once
// Vaxis has finished start-up under this mask.
func capsConv(mask int, alt bool) *termcmd.Conv {
	caps := responder.FromMask(mask, alt)
	cv := termcmd.NewConv(trace.NewInterner(" "), trace.NewInterner(""), caps.UnicodeCore, caps.ExplicitWidth)
	// Mode 2027 is switched on by a conforming application iff the terminal
	// advertises it and explicit width is not in use.
	cv.Mode2027 = caps.UnicodeCore && !caps.ExplicitWidth
	return cv
}

// The capability bits that matter for rendering.
var renderBits = []int{0, 1, 8, 9, 14} // sync, unicodeCore, rgb, styledUnderlines, explicitWidth

func randMask(rng *rand.Rand) int {
	m := 0
	for _, b := range renderBits {
		if rng.Intn(2) == 0 {
			m |= 1 << b
		}
	}
	return m
}

func GenRandom(rng *rand.Rand, nframes int) *Scn {
	return GenRandomFor(rng, nframes, randMask(rng), rng.Intn(2) == 0)
}

// GenRandomFor generates a history for a terminal advertising exactly mask.
func GenRandomFor(rng *rand.Rand, nframes int, mask int, alt bool) *Scn {
	sc := &Scn{Kind: "random", Mask: mask, Alt: alt, Cols: 1 + rng.Intn(8), Rows: 1 + rng.Intn(4)}
	cv := capsConv(sc.Mask, sc.Alt)
	m := newSim(sc.Cols, sc.Rows, cv)
	for i := 0; i < nframes; i++ {
		f := Frame{End: "render"}
		switch x := rng.Intn(20); {
		case x < 3:
			f.End = "refresh"
		case x < 5 && i > 0:
			f.End = "resize"
			f.Cols, f.Rows = 1+rng.Intn(8), 1+rng.Intn(4)
			if f.Cols == m.Cols && f.Rows == m.Rows {
				f.Cols++
			}
			vis, cr, cc := m.vis, m.cr, m.cc
			m = newSim(f.Cols, f.Rows, cv)
			m.vis, m.cr, m.cc = vis, cr, cc
			if m.vis && (m.cr >= m.Rows || m.cc >= m.Cols) {
				// a cursor request outside the new screen has no meaning
				op := Op{K: "hide"}
				m.apply(op)
				f.Ops = append(f.Ops, op)
			}
		}
		nops := rng.Intn(6)
		for j := 0; j < nops; j++ {
			var op Op
			switch x := rng.Intn(20); {
			case x < 10:
				c := randCell(rng, cv, m.Cols)
				if mask&(1<<14) != 0 && rng.Intn(4) == 0 && len([]rune(c.G)) == 1 && cv.AppWidth(c.G) == 1 {
					// a terminal with explicit width displays a glyph in as many cells as the
					// application says: a narrow character laid out two cells wide
					c.W = 2
				}
				op = Op{K: "set", C: rng.Intn(m.Cols+1) - 0, R: rng.Intn(m.Rows), Cell: &c}
				if rng.Intn(10) == 0 {
					op.C = -1
				}
			case x < 12:
				st := RandStyle(rng)
				op = Op{K: "style", C: rng.Intn(m.Cols), R: rng.Intn(m.Rows), Style: &st}
			case x < 13:
				c := randCell(rng, cv, m.Cols)
				op = Op{K: "fill", Cell: &c}
			case x < 15:
				op = Op{K: "clear"}
			case x < 16:
				st := RandStyle(rng)
				op = Op{K: "print", Text: strings.Repeat("hi", 1+rng.Intn(3)), Style: &st}
			case x < 19:
				op = Op{K: "show", C: rng.Intn(m.Cols), R: rng.Intn(m.Rows), Shape: rng.Intn(7)}
			default:
				op = Op{K: "hide"}
			}
			for _, op := range m.inDomain(op) {
				m.apply(op)
				f.Ops = append(f.Ops, op)
			}
		}
		f.Ops = fixDomain(m, m.fixGrid(f.Ops))
		sc.Frames = append(sc.Frames, f)
	}
	return sc
}

// WithForeignCursor gives every Refresh and every size change of the scenario a cursor that something
// else left behind on the terminal (visibility, shape, position): "whatever the terminal displayed
// before" includes the cursor.
func WithForeignCursor(rng *rand.Rand, sc *Scn) *Scn {
	cols, rows := sc.Cols, sc.Rows
	for i := range sc.Frames {
		f := &sc.Frames[i]
		if f.End == "resize" {
			cols, rows = f.Cols, f.Rows
		}
		if f.End == "refresh" || f.End == "resize" {
			f.Foreign = &ForeignD{Vis: rng.Intn(3) != 0, Shape: rng.Intn(7), R: rng.Intn(rows), C: rng.Intn(cols)}
		}
	}
	return sc
}

// GenOverlap: two cells A and B of every pair of kinds (narrow, wide, empty, styled empty, zero-width)
// set so that one lies on a column of the other - B on the second column of A, or B one column to the
// left of A and reaching it when B is wide - in both orders, within one frame and in two, the last frame
// rendered or refreshed, then one more frame that replaces the left cell by a narrow one. pick selects
// every n-th case (1 = all).
func GenOverlap(rng *rand.Rand, pick int) []*Scn {
	red := StyleD{Bg: uint32(vaxis.IndexColor(1))}
	kinds := []CellD{{G: "a", W: 1}, {G: "世"}, {G: "😀", W: 2, S: StyleD{Fg: uint32(vaxis.IndexColor(2))}}, {}, {S: red}, {G: " ", W: 1, S: red}, {G: "́"}}
	var out []*Scn
	k := 0
	for _, a := range kinds {
		for _, b := range kinds {
			for v := 0; v < 16; v++ {
				k++
				if k%pick != 0 {
					continue
				}
				a, b := a, b
				ca, cb := 1, 2 // B on the column after A's first
				if v&1 != 0 {
					ca, cb = 2, 1 // B before A
				}
				opA, opB := Op{K: "set", C: ca, R: 0, Cell: &a}, Op{K: "set", C: cb, R: 0, Cell: &b}
				if v&2 != 0 { // the other order: B first, then A over it
					opA, opB = opB, opA
				}
				end := "render"
				if v&8 != 0 {
					end = "refresh"
				}
				x := CellD{G: "x", W: 1}
				sc := &Scn{Kind: "overlap", Mask: []int{0, 1 << 1, 1 << 14, 1<<0 | 1<<8}[rng.Intn(4)], Cols: 5, Rows: 1}
				base := Op{K: "print", Text: "hello", Style: &StyleD{}}
				if v&4 != 0 {
					sc.Frames = []Frame{{End: "render", Ops: []Op{base, opA}}, {End: end, Ops: []Op{opB}}}
				} else {
					sc.Frames = []Frame{{End: "render", Ops: []Op{base}}, {End: end, Ops: []Op{opA, opB}}}
				}
				sc.Frames = append(sc.Frames, Frame{End: "render", Ops: []Op{{K: "set", C: 1, R: 0, Cell: &x}}},
					Frame{End: "refresh"})
				out = append(out, sc)
			}
		}
	}
	// the as-reported shape: text with wide characters, then a child window (its cells) from the second
	// column of a wide character on
	for _, fill := range []CellD{{G: "#", W: 1}, {S: red}, {}} {
		fill := fill
		for _, end := range []string{"render", "refresh"} {
			w1, w2 := CellD{G: "世"}, CellD{G: "界"}
			out = append(out, &Scn{Kind: "overlap-popup", Cols: 6, Rows: 1, Frames: []Frame{
				{End: "render", Ops: []Op{{K: "set", C: 0, R: 0, Cell: &w1}, {K: "set", C: 2, R: 0, Cell: &w2}}},
				{End: end, Ops: []Op{{K: "set", C: 1, R: 0, Cell: &fill}, {K: "set", C: 2, R: 0, Cell: &fill}}},
				{End: "refresh"},
			}})
		}
	}
	return out
}

// GenChain exercises pen transitions: rows of cells whose styles follow a
// prescribed chain, two frames so that both in-frame carry and cross-frame
// diffs are covered.
func GenChain(mask int, alt bool, cols, rows int, styles []StyleD) *Scn {
	sc := &Scn{Kind: "chain", Mask: mask, Alt: alt, Cols: cols, Rows: rows}
	k := 0
	for fr := 0; fr < 2 && k < len(styles); fr++ {
		f := Frame{End: "render"}
		for r := 0; r < rows && k < len(styles); r++ {
			for c := 0; c < cols && k < len(styles); c++ {
				cell := CellD{G: string(rune('a' + k%26)), W: 1, S: styles[k]}
				f.Ops = append(f.Ops, Op{K: "set", C: c, R: r, Cell: &cell})
				k++
			}
		}
		sc.Frames = append(sc.Frames, f)
	}
	return sc
}

// allStyleChain returns a style chain covering every ordered pair of
// attribute masks (128 x 128) once: a, b0, a, b1, ... for each a.
func attrPairChain() []StyleD {
	var out []StyleD
	for a := 0; a < 128; a++ {
		for b := 0; b < 128; b++ {
			out = append(out, StyleD{At: uint8(a) << 1}, StyleD{At: uint8(b) << 1})
		}
	}
	return out
}

func colourClassChain() []StyleD {
	classes := []uint32{0, uint32(vaxis.IndexColor(3)), uint32(vaxis.IndexColor(12)), uint32(vaxis.IndexColor(200)),
		uint32(vaxis.RGBColor(1, 2, 3)), uint32(vaxis.RGBColor(0x60, 0, 0)), uint32(vaxis.IndexColor(0)), uint32(vaxis.IndexColor(255))}
	var out []StyleD
	for _, a := range classes {
		for _, b := range classes {
			out = append(out, StyleD{Fg: a, Bg: b}, StyleD{Fg: b, Bg: a, Ul: a, Us: 1}, StyleD{Ul: b, Us: 3})
		}
	}
	for a := 0; a < 6; a++ {
		for b := 0; b < 6; b++ {
			out = append(out, StyleD{Us: uint8(a)}, StyleD{Us: uint8(b)})
		}
	}
	return out
}

// GenChains builds chain scenarios. full: every attribute-mask pair;
// otherwise n random chunks of the pair chain plus the colour-class chain.
func GenChains(rng *rand.Rand, full bool, n int) []*Scn {
	var out []*Scn
	pairs := attrPairChain()
	cc := colourClassChain()
	const cols, rows = 16, 4
	per := cols * rows * 2
	emit := func(chain []StyleD, mask int) {
		for i := 0; i < len(chain); i += per {
			j := i + per
			if j > len(chain) {
				j = len(chain)
			}
			out = append(out, GenChain(mask, false, cols, rows, chain[i:j]))
		}
	}
	if full {
		emit(pairs, 0)
		emit(pairs, 1<<8|1<<9|1)
	} else {
		for k := 0; k < n; k++ {
			i := rng.Intn(len(pairs)/per) * per
			out = append(out, GenChain(randMask(rng), false, cols, rows, pairs[i:i+per]))
		}
	}
	for _, m := range []int{0, 1 << 8, 1 << 9, 1<<8 | 1<<9, 1<<8 | 1<<9 | 1} {
		emit(cc, m)
	}
	return out
}

// Fixed returns hand-written regression scenarios for corner cases the
// random generator reaches only rarely.
func Fixed() []*Scn {
	cell := func(g string, w int) *CellD { return &CellD{G: g, W: w} }
	var out []*Scn
	for _, mask := range []int{0, 1 << 1, 1 << 14, 1 | 1<<1 | 1<<8 | 1<<9} {
		// wide glyph over never-written cells, then replaced by a narrow one
		out = append(out, &Scn{Kind: "wide-then-narrow", Mask: mask, Cols: 3, Rows: 1, Frames: []Frame{
			{End: "render", Ops: []Op{{K: "set", C: 0, R: 0, Cell: cell("世", 0)}}},
			{End: "render", Ops: []Op{{K: "set", C: 0, R: 0, Cell: cell("a", 1)}}},
		}})
		// narrow pair replaced by a wide glyph, then back
		out = append(out, &Scn{Kind: "narrow-wide-narrow", Mask: mask, Cols: 4, Rows: 2, Frames: []Frame{
			{End: "render", Ops: []Op{{K: "set", C: 1, R: 0, Cell: cell("a", 1)}, {K: "set", C: 2, R: 0, Cell: cell("b", 1)}}},
			{End: "render", Ops: []Op{{K: "set", C: 1, R: 0, Cell: cell("世", 2)}}},
			{End: "render", Ops: []Op{{K: "set", C: 1, R: 0, Cell: cell("a", 1)}}},
			{End: "render", Ops: []Op{{K: "set", C: 2, R: 0, Cell: cell("c", 1)}}},
		}})
		// cursor shown, moved without content change, hidden
		out = append(out, &Scn{Kind: "cursor-only", Mask: mask, Cols: 4, Rows: 2, Frames: []Frame{
			{End: "render", Ops: []Op{{K: "show", C: 1, R: 1, Shape: 2}}},
			{End: "render", Ops: []Op{{K: "show", C: 2, R: 0, Shape: 2}}},
			{End: "render", Ops: []Op{{K: "show", C: 2, R: 0, Shape: 4}}},
			{End: "render", Ops: []Op{{K: "hide"}}},
			{End: "render", Ops: []Op{{K: "show", C: 0, R: 0, Shape: 6}, {K: "set", C: 0, R: 0, Cell: cell("z", 1)}}},
			{End: "render", Ops: []Op{{K: "hide"}, {K: "set", C: 1, R: 0, Cell: cell("y", 1)}}},
			{End: "refresh", Ops: nil},
		}})
	}
	return out
}
