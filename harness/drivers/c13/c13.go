// Package c13 drives the embedded terminal's input side: keys, paste
// boundaries and mouse events are handed to the real emulator (Model.Update)
// under a chosen set of child modes; the bytes it writes towards the child are
// read back from a pipe, tokenised by the harness lexer, and decoded by a real
// Vaxis reading them from a fake console.
package c13

import (
	"fmt"
	"math/rand"
	"os"
	"sync/atomic"
	"time"
	"unicode"

	"git.sr.ht/~rockorager/vaxis"

	"verif/harness/drivers/emu"
	"verif/harness/responder"
	"verif/harness/sess"
	"verif/harness/trace"
)

type Input struct {
	T       string `json:"t"` // key | paste | mouse
	Name    string `json:"name,omitempty"`
	Code    int    `json:"code,omitempty"`
	Mods    int    `json:"mods,omitempty"` // Shift 1, Alt 2, Ctrl 4
	Shifted int    `json:"shifted,omitempty"`
	// Text: the text the key event carries when it is not the key's own character (grapheme cluster, AltGr
	// level, composed text with Code 0); NoText: an event without text (synthesised by an application);
	// Locks: 64 Caps Lock, 128 Num Lock; Et: "" press | repeat | release | paste (event type)
	Text   string `json:"text,omitempty"`
	NoText bool   `json:"notext,omitempty"`
	Locks  int    `json:"locks,omitempty"`
	Et     string `json:"et,omitempty"`
	Start  bool   `json:"start,omitempty"`
	Button int    `json:"button,omitempty"`
	MType  string `json:"mtype,omitempty"`
	Col    int    `json:"col,omitempty"`
	Row    int    `json:"row,omitempty"`
	Mode   string `json:"mode,omitempty"` // t = "mode": decckm | deckpam | paste | m1000 | m1002 | m1003 | m1006
	On     bool   `json:"on,omitempty"`
}

type Scn struct {
	Kind    string `json:"kind"`
	Decckm  bool   `json:"decckm"`
	Deckpam bool   `json:"deckpam"`
	Paste   bool   `json:"paste"`
	M1000   bool   `json:"m1000"`
	M1002   bool   `json:"m1002"`
	M1003   bool   `json:"m1003"`
	M1006   bool   `json:"m1006"`
	// Form: how the child reaches the configuration. 0 = one DECSET/DECRST per
	// mode; 1 = every mode set first, then the configuration; 2 = every mode
	// reset first, then the private modes to set in one CSI ? a;b;c h
	Form   int     `json:"form,omitempty"`
	Inputs []Input `json:"inputs"`
	// Alt: the child is on the alternate screen (?1049h); M1007: alternate-scroll mode as set AFTER that
	// (entering the alternate screen may switch it on by itself)
	Alt   bool `json:"alt,omitempty"`
	M1007 bool `json:"m1007,omitempty"`
	// M1007First: the child sets / resets alternate-scroll mode BEFORE it enters the alternate screen, and enters
	// it with ?1049h (AltVia 0), ?47h or ?1047h (AltVia 47, 1047): a mode the child has reset stays reset
	M1007First bool `json:"m1007first,omitempty"`
	AltVia     int  `json:"altvia,omitempty"`
}

type Ctx struct {
	NKeys, NMouse, NPaste, NRetry int64
}

var Named = map[string]rune{
	"UP": vaxis.KeyUp, "DOWN": vaxis.KeyDown, "RIGHT": vaxis.KeyRight, "LEFT": vaxis.KeyLeft, "HOME": vaxis.KeyHome, "END": vaxis.KeyEnd,
	"INSERT": vaxis.KeyInsert, "DELETE": vaxis.KeyDelete, "PAGE_UP": vaxis.KeyPgUp, "PAGE_DOWN": vaxis.KeyPgDown,
	"F1": vaxis.KeyF01, "F2": vaxis.KeyF02, "F3": vaxis.KeyF03, "F4": vaxis.KeyF04, "F5": vaxis.KeyF05, "F6": vaxis.KeyF06,
	"F7": vaxis.KeyF07, "F8": vaxis.KeyF08, "F9": vaxis.KeyF09, "F10": vaxis.KeyF10, "F11": vaxis.KeyF11, "F12": vaxis.KeyF12,
	"ENTER": vaxis.KeyEnter, "TAB": vaxis.KeyTab, "BACKSPACE": vaxis.KeyBackspace, "ESCAPE": vaxis.KeyEsc,
	"KP_0": vaxis.KeyKeyPad0, "KP_1": vaxis.KeyKeyPad1, "KP_2": vaxis.KeyKeyPad2, "KP_3": vaxis.KeyKeyPad3, "KP_4": vaxis.KeyKeyPad4,
	"KP_5": vaxis.KeyKeyPad5, "KP_6": vaxis.KeyKeyPad6, "KP_7": vaxis.KeyKeyPad7, "KP_8": vaxis.KeyKeyPad8, "KP_9": vaxis.KeyKeyPad9,
	"KP_DECIMAL": vaxis.KeyKeyPadDecimal, "KP_DIVIDE": vaxis.KeyKeyPadDivide, "KP_MULTIPLY": vaxis.KeyKeyPadMultiply,
	"KP_SUBTRACT": vaxis.KeyKeyPadSubtract, "KP_ADD": vaxis.KeyKeyPadAdd, "KP_EQUAL": vaxis.KeyKeyPadEqual, "KP_SEPARATOR": vaxis.KeyKeyPadSeparator,
	"KP_ENTER": vaxis.KeyKeyPadEnter, "KP_BEGIN": vaxis.KeyKeyPadBegin,
	"KP_LEFT": vaxis.KeyKeyPadLeft, "KP_RIGHT": vaxis.KeyKeyPadRight, "KP_UP": vaxis.KeyKeyPadUp, "KP_DOWN": vaxis.KeyKeyPadDown,
	"KP_HOME": vaxis.KeyKeyPadHome, "KP_END": vaxis.KeyKeyPadEnd, "KP_PAGE_UP": vaxis.KeyKeyPadPageUp, "KP_PAGE_DOWN": vaxis.KeyKeyPadPageDown,
	"KP_INSERT": vaxis.KeyKeyPadInsert, "KP_DELETE": vaxis.KeyKeyPadDelete,
}

// kpText: the text a keypad key produces with Num Lock on (the kitty keyboard
// protocol reports it as the event's associated text).
var kpText = map[string]string{"KP_0": "0", "KP_1": "1", "KP_2": "2", "KP_3": "3", "KP_4": "4", "KP_5": "5", "KP_6": "6", "KP_7": "7", "KP_8": "8", "KP_9": "9",
	"KP_DECIMAL": ".", "KP_DIVIDE": "/", "KP_MULTIPLY": "*", "KP_SUBTRACT": "-", "KP_ADD": "+", "KP_EQUAL": "=", "KP_SEPARATOR": ","}

var nameOf = func() map[rune]string {
	m := map[rune]string{}
	for n, c := range Named {
		m[c] = n
	}
	return m
}()

func libEt(s string) vaxis.EventType {
	switch s {
	case "repeat":
		return vaxis.EventRepeat
	case "release":
		return vaxis.EventRelease
	case "paste":
		return vaxis.EventPaste
	}
	return vaxis.EventPress
}

func runes(s string) []int {
	out := []int{}
	for _, r := range s {
		out = append(out, int(r))
	}
	return out
}

func libMods(m int) vaxis.ModifierMask {
	var out vaxis.ModifierMask
	if m&1 != 0 {
		out |= vaxis.ModShift
	}
	if m&2 != 0 {
		out |= vaxis.ModAlt
	}
	if m&4 != 0 {
		out |= vaxis.ModCtrl
	}
	return out
}

func absMods(m vaxis.ModifierMask) int {
	n := 0
	if m&vaxis.ModShift != 0 {
		n |= 1
	}
	if m&vaxis.ModAlt != 0 {
		n |= 2
	}
	if m&vaxis.ModCtrl != 0 {
		n |= 4
	}
	return n
}

// LibKey builds the event a Vaxis host (kitty keyboard protocol with
// alternate keys and associated text, which is what Vaxis requests) delivers
// for the chord.
func LibKey(in Input) vaxis.Key {
	k := vaxis.Key{Modifiers: libMods(in.Mods) | vaxis.ModifierMask(in.Locks&(64|128)), EventType: libEt(in.Et)}
	if in.Name != "" {
		k.Keycode = Named[in.Name]
		if in.Mods&^1 == 0 && !in.NoText {
			// NoText: the event Vaxis's own decoder delivers on a host without the kitty protocol (Vaxis puts the host
			// into application keypad mode, the terminal sends SS3 p-y / j-o / X, decoded to the keypad key without text)
			k.Text = kpText[in.Name]
		}
		return k
	}
	k.Keycode = rune(in.Code)
	if in.Mods&1 != 0 && in.Shifted != 0 {
		k.ShiftedCode = rune(in.Shifted)
	}
	if in.Text != "" {
		k.Text = in.Text
	} else if in.Mods&^1 == 0 && !in.NoText {
		if k.ShiftedCode != 0 {
			k.Text = string(k.ShiftedCode)
		} else {
			k.Text = string(k.Keycode)
		}
	}
	return k
}

func libType(t string) vaxis.EventType {
	switch t {
	case "press":
		return vaxis.EventPress
	case "release":
		return vaxis.EventRelease
	}
	return vaxis.EventMotion
}

func absType(t vaxis.EventType) string {
	switch t {
	case vaxis.EventPress:
		return "press"
	case vaxis.EventRelease:
		return "release"
	case vaxis.EventMotion:
		return "motion"
	}
	return "other"
}

const (
	sentKey  = 0xF0000
	sentText = "\U000F0001"
)

var sentinel = []byte(fmt.Sprintf("\x1b[%d;1:1;%du", sentKey, 0xF0001))

func isSentinel(k vaxis.Key) bool { return k.Keycode == sentKey && k.Text == sentText }

type host struct {
	s   *sess.S
	ctx *Ctx
}

// once injects b followed by the sentinel and returns the events delivered
// before the sentinel.
func (h *host) once(b []byte) (evs []vaxis.Event, ok bool) {
	if len(b) > 0 && b[len(b)-1] == 0x1b {
		// a trailing ESC is told from an escape sequence by a timer: wait for
		// its event before the sentinel follows
		h.s.Con.Inject(b)
		want := 1
		if len(b) > 1 {
			want = 0 // unknown; wait out the timer instead
			time.Sleep(60 * time.Millisecond)
		}
		for i := 0; i < want; i++ {
			select {
			case ev := <-h.s.Vx.Events():
				evs = append(evs, ev)
			case <-time.After(3 * time.Second):
			}
		}
		h.s.Con.Inject(sentinel)
	} else {
		h.s.Con.Inject(append(append([]byte{}, b...), sentinel...))
	}
	to := time.After(3 * time.Second)
	for {
		select {
		case ev := <-h.s.Vx.Events():
			if k, isKey := ev.(vaxis.Key); isKey && isSentinel(k) {
				return evs, true
			}
			evs = append(evs, ev)
		case <-to:
			return evs, false
		}
	}
}

func same(a, b []vaxis.Event) bool {
	if len(a) != len(b) {
		return false
	}
	for i := range a {
		if a[i] != b[i] {
			return false
		}
	}
	return true
}

// decode is once, repeated until the outcome is one event or reproduces (the
// parser's 10 ms ESC timer can tear a sequence apart on a starved machine;
// that race is C08's subject).
func (h *host) decode(b []byte) ([]vaxis.Event, string) {
	var prev []vaxis.Event
	have := false
	for attempt := 0; attempt < 4; attempt++ {
		evs, ok := h.once(b)
		if ok && len(evs) == 1 {
			return evs, ""
		}
		if ok && have && same(prev, evs) {
			return evs, ""
		}
		atomic.AddInt64(&h.ctx.NRetry, 1)
		if !ok {
			if _, ok2 := h.once([]byte("x")); !ok2 {
				return evs, "timeout waiting for the sentinel"
			}
			have = false
			continue
		}
		prev, have = evs, true
	}
	return prev, ""
}

func ints(b []byte) []int {
	out := make([]int, len(b))
	for i, c := range b {
		out[i] = int(c)
	}
	return out
}

// sgrOf parses ESC [ < pb ; x ; y M|m (the whole of b) independently of the library.
func sgrOf(b []byte) map[string]any {
	bad := map[string]any{"ok": false, "pb": 0, "x": 0, "y": 0, "final": ""}
	if len(b) < 9 || b[0] != 0x1b || b[1] != '[' || b[2] != '<' {
		return bad
	}
	nums := []int{0}
	digits := 0
	for i := 3; i < len(b); i++ {
		c := b[i]
		switch {
		case c >= '0' && c <= '9':
			nums[len(nums)-1] = nums[len(nums)-1]*10 + int(c-'0')
			digits++
			if nums[len(nums)-1] > 100000 {
				return bad
			}
		case c == ';':
			if digits == 0 {
				return bad
			}
			nums = append(nums, 0)
			digits = 0
		case c == 'M' || c == 'm':
			if i != len(b)-1 || len(nums) != 3 || digits == 0 {
				return bad
			}
			return map[string]any{"ok": true, "pb": nums[0], "x": nums[1], "y": nums[2], "final": string(c)}
		default:
			return bad
		}
	}
	return bad
}

func asciiOf(s string) string {
	out := []byte{}
	for _, r := range s {
		if r >= 32 && r < 127 && r != '"' && r != '\\' {
			out = append(out, byte(r))
		} else {
			out = append(out, []byte(fmt.Sprintf("<%X>", r))...)
		}
	}
	return string(out)
}

func b2i(b bool) int {
	if b {
		return 1
	}
	return 0
}

func Run(ctx *Ctx, sc *Scn) (evs []trace.Ev, note string) {
	defer func() {
		if r := recover(); r != nil {
			note = fmt.Sprintf("panic: %v", r)
			evs = append(evs, trace.Ev{"ev": "panic", "what": "panic"})
		}
	}()
	evs = append(evs, trace.Ev{"ev": "reset", "what": "reset"})
	pr, pw, err := os.Pipe()
	if err != nil {
		panic(err)
	}
	defer pr.Close()
	defer pw.Close()
	const cols, rows = 320, 260
	vt := emu.NewTo(pw, cols, rows)
	set := func(on bool, h, l string) {
		s := l
		if on {
			s = h
		}
		if msg := emu.Feed(vt, emu.ParseMemo(s), nil); msg != "" {
			panic(msg)
		}
	}
	type pm struct {
		on bool
		n  int
	}
	private := []pm{{sc.Decckm, 1}, {sc.Paste, 2004}, {sc.M1000, 1000}, {sc.M1002, 1002}, {sc.M1003, 1003}, {sc.M1006, 1006}}
	switch sc.Form {
	case 1:
		set(true, "\x1b[?1;2004;1000;1002;1003;1006h\x1b=", "")
	case 2:
		set(true, "\x1b[?1;2004;1000;1002;1003;1006l\x1b>", "")
	}
	if sc.Form == 2 {
		ps := ""
		for _, m := range private {
			if m.on {
				if ps != "" {
					ps += ";"
				}
				ps += fmt.Sprint(m.n)
			}
		}
		if ps != "" {
			set(true, "\x1b[?"+ps+"h", "")
		}
	} else {
		for _, m := range private {
			set(m.on, fmt.Sprintf("\x1b[?%dh", m.n), fmt.Sprintf("\x1b[?%dl", m.n))
		}
	}
	set(sc.Deckpam, "\x1b=", "\x1b>")
	if sc.Alt && sc.M1007First {
		via := sc.AltVia
		if via == 0 {
			via = 1049
		}
		set(sc.M1007, "\x1b[?1007h", "\x1b[?1007l")
		set(true, fmt.Sprintf("\x1b[?%dh", via), "")
	} else if sc.Alt {
		set(true, "\x1b[?1049h", "")
		set(sc.M1007, "\x1b[?1007h", "\x1b[?1007l")
	}
	buf := make([]byte, 4096)
	written := func() []byte {
		// everything Update wrote, delimited by a marker no encoding contains
		pw.Write([]byte{0xFF})
		var out []byte
		for {
			n, err := pr.Read(buf)
			if err != nil {
				panic(err)
			}
			out = append(out, buf[:n]...)
			if len(out) > 0 && out[len(out)-1] == 0xFF {
				return out[:len(out)-1]
			}
		}
	}
	written()

	var h *host
	for try := 0; try < 4 && h == nil; try++ {
		s, err := sess.Start(sess.Config{Caps: responder.Caps{CursorStyle: 2}, Cols: 20, Rows: 4})
		if err != nil {
			continue
		}
		defer s.Con.Close()
		hh := &host{s: s, ctx: ctx}
		for attempt := 0; attempt < 2; attempt++ {
			if _, ok := hh.once([]byte("x")); ok {
				h = hh
				break
			}
		}
	}
	if h == nil {
		return append(evs, trace.Ev{"ev": "panic", "what": "host session does not deliver input"}), "host session does not deliver input"
	}
	cur := *sc // the child's modes as they are now (a "mode" step changes them mid-history)
	sc = &cur
	for i, in := range sc.Inputs {
		modes := fmt.Sprintf("ckm=%d kpam=%d", b2i(sc.Decckm), b2i(sc.Deckpam))
		switch in.T {
		case "mode":
			switch in.Mode {
			case "decckm":
				sc.Decckm = in.On
				set(in.On, "\x1b[?1h", "\x1b[?1l")
			case "deckpam":
				sc.Deckpam = in.On
				set(in.On, "\x1b=", "\x1b>")
			case "paste":
				sc.Paste = in.On
				set(in.On, "\x1b[?2004h", "\x1b[?2004l")
			case "m1000":
				sc.M1000 = in.On
				set(in.On, "\x1b[?1000h", "\x1b[?1000l")
			case "m1002":
				sc.M1002 = in.On
				set(in.On, "\x1b[?1002h", "\x1b[?1002l")
			case "m1003":
				sc.M1003 = in.On
				set(in.On, "\x1b[?1003h", "\x1b[?1003l")
			case "m1006":
				sc.M1006 = in.On
				set(in.On, "\x1b[?1006h", "\x1b[?1006l")
			}
			written()
		case "key":
			k := LibKey(in)
			vt.Update(k)
			b := written()
			n, rt, rtNoAlt, gots := 0, false, false, ""
			allKeys, gotText, gotName, gotMods, sameKey := true, "", "", 0, false
			ctrlm := []int{} // ASCII keys c such that the decoded event matches Ctrl+c (for Ctrl chords whose control code several keys share)
			if len(b) > 0 {
				got, dead := h.decode(b)
				if dead != "" {
					return append(evs, trace.Ev{"ev": "panic", "what": dead}), dead
				}
				n = len(got)
				gots = asciiOf(fmt.Sprintf("%+v", got))
				for _, g := range got {
					if gk, ok := g.(vaxis.Key); ok {
						gotText += gk.Text
					} else {
						allKeys = false
					}
				}
				if n == 1 {
					if gk, ok := got[0].(vaxis.Key); ok {
						rt = gk.Matches(k.Keycode, k.Modifiers)
						rtNoAlt = gk.Matches(k.Keycode, k.Modifiers&^vaxis.ModAlt)
						// the same key with some of the chord's modifiers (what is left of a chord whose modifiers the encoding cannot carry)
						for sub := 0; sub < 8 && in.Name == ""; sub++ {
							if sub&^in.Mods == 0 && (gk.Matches(k.Keycode, libMods(sub)) || (in.Shifted != 0 && gk.Matches(rune(in.Shifted), libMods(sub)))) {
								sameKey = true
							}
						}
						gotName, gotMods = nameOf[gk.Keycode], absMods(gk.Modifiers)
						if (in.Mods == 4 || in.Mods == 5) && in.Name == "" {
							for c := rune(32); c < 127; c++ {
								if gk.Matches(c, vaxis.ModCtrl) {
									ctrlm = append(ctrlm, int(c))
								}
							}
						}
					} else {
						n = -1
					}
				}
			}
			atomic.AddInt64(&ctx.NKeys, 1)
			what := fmt.Sprintf("key:%s:mods=%d", in.Name, in.Mods)
			if in.Name != "" && in.NoText && kpText[in.Name] != "" {
				what += ":notext"
			}
			if in.Name == "" {
				what = fmt.Sprintf("key:U+%04X:mods=%d", in.Code, in.Mods)
				switch {
				case in.Text == "":
				case in.Code == 0:
					what = fmt.Sprintf("key:text-without-key:mods=%d", in.Mods)
				case len([]rune(in.Text)) > 1:
					what = fmt.Sprintf("key:text-cluster:mods=%d", in.Mods)
				default:
					what = fmt.Sprintf("key:text-not-the-key-code:mods=%d", in.Mods)
				}
			}
			et := in.Et
			if et == "" {
				et = "press"
			} else {
				what += ":" + et
			}
			evs = append(evs, trace.Ev{"ev": "key", "i": i, "what": what, "modes": modes, "name": in.Name, "code": in.Code, "mods": in.Mods,
				"lower": in.Name == "" && unicode.ToUpper(rune(in.Code)) != rune(in.Code), "shifted": in.Shifted, "etype": et, "text": runes(k.Text),
				"decckm": sc.Decckm, "deckpam": sc.Deckpam, "bytes": ints(b), "n": n, "rt": rt, "rtnoalt": rtNoAlt, "ctrlm": ctrlm, "got": gots,
				"allkeys": allKeys, "gottext": runes(gotText), "gotname": gotName, "gotmods": gotMods, "samekey": sameKey})
		case "paste":
			if in.Start {
				vt.Update(vaxis.PasteStartEvent{})
			} else {
				vt.Update(vaxis.PasteEndEvent{})
			}
			b := written()
			atomic.AddInt64(&ctx.NPaste, 1)
			evs = append(evs, trace.Ev{"ev": "paste", "i": i, "what": fmt.Sprintf("paste:start=%v:mode=%v", in.Start, sc.Paste),
				"pastemode": sc.Paste, "start": in.Start, "bytes": ints(b)})
		case "mouse":
			m := vaxis.Mouse{Button: vaxis.MouseButton(in.Button), Row: in.Row, Col: in.Col, EventType: libType(in.MType), Modifiers: libMods(in.Mods)}
			vt.Update(m)
			b := written()
			dec := map[string]any{"ok": false, "button": 0, "type": "", "col": 0, "row": 0, "mods": 0}
			sgr := sgrOf(b)
			if sgr["ok"].(bool) {
				got, dead := h.decode(b)
				if dead != "" {
					return append(evs, trace.Ev{"ev": "panic", "what": dead}), dead
				}
				if len(got) == 1 {
					if gm, ok := got[0].(vaxis.Mouse); ok {
						dec = map[string]any{"ok": true, "button": int(gm.Button), "type": absType(gm.EventType), "col": gm.Col, "row": gm.Row, "mods": absMods(gm.Modifiers)}
					}
				}
			}
			atomic.AddInt64(&ctx.NMouse, 1)
			evs = append(evs, trace.Ev{"ev": "mouse", "i": i,
				"what":   fmt.Sprintf("mouse:%s:button=%d:modes=%d%d%d%d", in.MType, in.Button, b2i(sc.M1000), b2i(sc.M1002), b2i(sc.M1003), b2i(sc.M1006)),
				"button": in.Button, "type": in.MType, "col": in.Col, "row": in.Row, "mods": in.Mods,
				"m1000": sc.M1000, "m1002": sc.M1002, "m1003": sc.M1003, "m1006": sc.M1006, "alt": sc.Alt, "m1007": sc.M1007,
				"decckm": sc.Decckm, "bytes": ints(b), "sgr": sgr, "dec": dec})
		}
	}
	return evs, ""
}

// US-layout shifted images of the non-letter ASCII keys.
var usShift = map[int]int{'1': '!', '2': '@', '3': '#', '4': '$', '5': '%', '6': '^', '7': '&', '8': '*', '9': '(', '0': ')',
	'-': '_', '=': '+', '[': '{', ']': '}', '\\': '|', ';': ':', '\'': '"', ',': '<', '.': '>', '/': '?', '`': '~'}

func shiftedOf(c int) int {
	if u := unicode.ToUpper(rune(c)); int(u) != c {
		return int(u)
	}
	return usShift[c]
}

var names = []string{"UP", "DOWN", "RIGHT", "LEFT", "HOME", "END", "INSERT", "DELETE", "PAGE_UP", "PAGE_DOWN",
	"F1", "F2", "F3", "F4", "F5", "F6", "F7", "F8", "F9", "F10", "F11", "F12", "ENTER", "TAB", "BACKSPACE", "ESCAPE",
	"KP_0", "KP_1", "KP_2", "KP_3", "KP_4", "KP_5", "KP_6", "KP_7", "KP_8", "KP_9",
	"KP_DECIMAL", "KP_DIVIDE", "KP_MULTIPLY", "KP_SUBTRACT", "KP_ADD", "KP_EQUAL", "KP_SEPARATOR", "KP_ENTER", "KP_BEGIN",
	"KP_LEFT", "KP_RIGHT", "KP_UP", "KP_DOWN", "KP_HOME", "KP_END", "KP_PAGE_UP", "KP_PAGE_DOWN", "KP_INSERT", "KP_DELETE"}

// textKeys: printable keys whose text is not the character of their key code.
func textKeys(rng *rand.Rand, thorough bool) []Input {
	out := []Input{
		// grapheme clusters typed or pasted on the host (the decoder puts the first code point into Keycode)
		{T: "key", Code: 'e', Text: "e\u0301"}, {T: "key", Code: 'a', Text: "a\u0308\u0323"},
		{T: "key", Code: 0x1F468, Text: "\U0001F468\u200d\U0001F469\u200d\U0001F467"}, {T: "key", Code: 0x1F1E9, Text: "\U0001F1E9\U0001F1EA"},
		{T: "key", Code: 0x2764, Text: "\u2764\ufe0f"}, {T: "key", Code: 0x915, Text: "\u0915\u094d\u0937"},
		// third level of a layout (AltGr), reported by the kitty protocol as key code + associated text
		{T: "key", Code: 'q', Text: "@"}, {T: "key", Code: 'e', Text: "\u20ac"}, {T: "key", Code: '7', Text: "{"},
		{T: "key", Code: 'q', Mods: 1, Shifted: 'Q', Text: "\u03a9"},
		// Caps Lock: the letter key gives the capital, with Shift the small letter
		{T: "key", Code: 'a', Locks: 64, Text: "A"}, {T: "key", Code: 'a', Mods: 1, Shifted: 'A', Locks: 64, Text: "a"}, {T: "key", Code: 0xE9, Locks: 64, Text: "\u00c9"},
		// composed text / input method: text that belongs to no key
		{T: "key", Code: 0, Text: "\u00e9"}, {T: "key", Code: 0, Text: "\u00f1"}, {T: "key", Code: 0, Text: "\u4f60\u597d"},
		// an event without text (synthesised by an application)
		{T: "key", Code: 'a', NoText: true}, {T: "key", Code: '1', NoText: true}, {T: "key", Code: 0xE9, NoText: true},
	}
	if thorough {
		marks := []rune{0x300, 0x301, 0x302, 0x303, 0x308, 0x30A, 0x323, 0x327, 0x5B0, 0x64E, 0x93E, 0xFE0F, 0x20E3}
		for k := 0; k < 120; k++ {
			base := rune(codes()[rng.Intn(len(codes()))])
			if base == ' ' || base > 0xFFFF {
				base = 'o'
			}
			t := string(base)
			for n := 1 + rng.Intn(3); n > 0; n-- {
				t += string(marks[rng.Intn(len(marks))])
			}
			out = append(out, Input{T: "key", Code: int(base), Text: t})
		}
		for k := 0; k < 40; k++ {
			a, b := 0x1F1E6+rng.Intn(26), 0x1F1E6+rng.Intn(26)
			out = append(out, Input{T: "key", Code: a, Text: string(rune(a)) + string(rune(b))})
			third := []rune("@#{}[]|\\~\u20ac\u00b5\u00df\u0142")
			out = append(out, Input{T: "key", Code: 'a' + rng.Intn(26), Text: string(third[rng.Intn(len(third))])})
		}
	}
	return out
}

func codes() []int {
	var out []int
	for c := 32; c < 127; c++ {
		if c >= 'A' && c <= 'Z' {
			continue // the base key is the lower-case letter
		}
		if _, isShifted := func() (int, bool) {
			for _, v := range usShift {
				if v == c {
					return v, true
				}
			}
			return 0, false
		}(); isShifted {
			continue
		}
		out = append(out, c)
	}
	return append(out, 0xE9, 0xDF, 0x436, 0x3C9, 0x4E16, 0x1F600)
}

// moreCodes: base keys of non-US layouts (Latin-1, Greek, Cyrillic, ...).
func moreCodes() []int {
	var out []int
	for _, r := range [][2]int{{0xA1, 0xFF}, {0x3B1, 0x3C9}, {0x430, 0x45F}, {0x5D0, 0x5EA}, {0x3041, 0x3060}} {
		for c := r[0]; c <= r[1]; c++ {
			if unicode.IsUpper(rune(c)) || !unicode.IsPrint(rune(c)) {
				continue
			}
			out = append(out, c)
		}
	}
	return out
}

// Generate: every key x every Shift/Alt/Ctrl subset under every cursor-key x
// keypad mode; paste boundaries under both paste modes; every button x type x
// a position sample under every mouse-mode combination.
func Generate(seed int64, thorough bool) []*Scn {
	rng := rand.New(rand.NewSource(seed))
	var out []*Scn
	for cfg := 0; cfg < 4; cfg++ {
		var named, chars []Input
		for _, n := range names {
			for m := 0; m < 8; m++ {
				named = append(named, Input{T: "key", Name: n, Mods: m})
			}
		}
		for _, c := range codes() {
			for m := 0; m < 8; m++ {
				if !thorough && cfg != 0 && rng.Intn(4) != 0 {
					continue // printable keys do not depend on the modes: sampled outside the first configuration
				}
				chars = append(chars, Input{T: "key", Code: c, Mods: m, Shifted: shiftedOf(c)})
			}
		}
		if thorough && cfg == 0 {
			for _, c := range moreCodes() {
				for m := 0; m < 8; m++ {
					chars = append(chars, Input{T: "key", Code: c, Mods: m, Shifted: shiftedOf(c)})
				}
			}
		}
		for form := 0; form < 3; form++ {
			if !thorough && form != cfg%3 {
				continue
			}
			out = append(out, &Scn{Kind: "named-keys", Decckm: cfg&1 != 0, Deckpam: cfg&2 != 0, Form: form, Inputs: named})
		}
		for len(chars) > 0 {
			n := 160
			if n > len(chars) {
				n = len(chars)
			}
			out = append(out, &Scn{Kind: "char-keys", Decckm: cfg&1 != 0, Deckpam: cfg&2 != 0, Form: rng.Intn(3), Inputs: chars[:n]})
			chars = chars[n:]
		}
	}
	for p := 0; p < 6; p++ {
		out = append(out, &Scn{Kind: "paste", Paste: p%2 == 1, Form: p / 2, Inputs: []Input{{T: "paste", Start: true}, {T: "key", Code: 'a'}, {T: "paste"}, {T: "paste"}, {T: "paste", Start: true}}})
	}
	// keys carrying text that is not their key code, typed, auto-repeated and pasted (with and without bracketed paste)
	for p := 0; p < 2; p++ {
		var ins []Input
		tk := textKeys(rng, thorough)
		for _, et := range []string{"", "repeat", "paste"} {
			if et == "paste" {
				ins = append(ins, Input{T: "paste", Start: true})
			}
			for _, in := range tk {
				in.Et = et
				ins = append(ins, in)
			}
			if et == "paste" {
				ins = append(ins, Input{T: "paste"})
			}
		}
		out = append(out, &Scn{Kind: "text-keys", Paste: p == 1, Decckm: rng.Intn(2) == 0, Deckpam: rng.Intn(2) == 0, Form: rng.Intn(3), Inputs: ins})
	}
	// key releases (the host reports them when the application asked for key events) and auto-repeats
	for cfg := 0; cfg < 4; cfg++ {
		var ins []Input
		for _, n := range names {
			for m := 0; m < 8; m++ {
				if !thorough && !(m == 0 && rng.Intn(4) == 0) && rng.Intn(24) != 0 {
					continue
				}
				ins = append(ins, Input{T: "key", Name: n, Mods: m, Et: "release"}, Input{T: "key", Name: n, Mods: m, Et: "repeat"})
			}
		}
		for _, c := range codes() {
			for m := 0; m < 8; m++ {
				if (!thorough || cfg != 0) && rng.Intn(24) != 0 {
					continue
				}
				ins = append(ins, Input{T: "key", Code: c, Mods: m, Shifted: shiftedOf(c), Et: "release"}, Input{T: "key", Code: c, Mods: m, Shifted: shiftedOf(c), Et: "repeat"})
			}
		}
		out = append(out, &Scn{Kind: "key-events", Decckm: cfg&1 != 0, Deckpam: cfg&2 != 0, Form: rng.Intn(3), Inputs: ins})
	}
	// the alternate screen with and without alternate-scroll (1007), with no tracking mode and with each one:
	// wheel steps become cursor keys only when nothing reports the mouse
	for _, m1007 := range []bool{false, true} {
		for mm := 0; mm < 7; mm++ {
			var ins []Input
			for _, btn := range []int{0, 1, 2, 3, 64, 65, 66, 67, 128, 129, 130, 131} {
				for _, ty := range []string{"press", "release", "motion"} {
					if (btn == 3 && ty != "motion") || (btn >= 64 && btn < 128 && ty != "press") {
						continue
					}
					ins = append(ins, Input{T: "mouse", Button: btn, MType: ty, Col: rng.Intn(80), Row: rng.Intn(24), Mods: rng.Intn(2) * rng.Intn(8)})
				}
			}
			// mm 0, 4 (nothing reports the mouse: the wheel becomes cursor keys) under both cursor-key modes: 5, 6
			decckm := rng.Intn(2) == 0
			if mm == 0 || mm == 4 {
				decckm = false
			} else if mm > 4 {
				decckm = true
			}
			out = append(out, &Scn{Kind: "alt-scroll", Alt: true, M1007: m1007, Decckm: decckm,
				M1000: mm == 1, M1002: mm == 2, M1003: mm == 3, M1006: mm == 4 || mm == 6 || rng.Intn(2) == 0, Inputs: ins})
			// the same with the mode chosen before the child enters the alternate screen
			out = append(out, &Scn{Kind: "alt-scroll-first", Alt: true, M1007: m1007, M1007First: true, AltVia: []int{0, 47, 1047}[mm%3], Decckm: decckm,
				M1000: mm == 1, M1002: mm == 2, M1003: mm == 3, M1006: mm == 4 || mm == 6 || rng.Intn(2) == 0, Inputs: ins})
		}
	}
	// histories: the child changes its modes between inputs
	nh := 12
	if thorough {
		nh = 400
	}
	modeNames := []string{"decckm", "deckpam", "paste", "m1000", "m1002", "m1003", "m1006"}
	for k := 0; k < nh; k++ {
		sc := &Scn{Kind: "history", Decckm: rng.Intn(2) == 0, Deckpam: rng.Intn(2) == 0, Paste: rng.Intn(2) == 0,
			M1000: rng.Intn(2) == 0, M1002: rng.Intn(2) == 0, M1003: rng.Intn(2) == 0, M1006: rng.Intn(2) == 0, Form: rng.Intn(3)}
		pasting := false
		for n := 20 + rng.Intn(40); n > 0; n-- {
			switch x := rng.Intn(10); {
			case x < 3:
				sc.Inputs = append(sc.Inputs, Input{T: "mode", Mode: modeNames[rng.Intn(len(modeNames))], On: rng.Intn(2) == 0})
			case x < 6:
				et := []string{"", "", "", "", "", "", "repeat", "release"}[rng.Intn(8)]
				if pasting {
					et = "paste"
				}
				if rng.Intn(2) == 0 {
					in := Input{T: "key", Name: names[rng.Intn(len(names))], Mods: rng.Intn(8), Et: et}
					if kpText[in.Name] != "" && rng.Intn(2) == 0 {
						in.Mods, in.NoText = 0, true
					}
					sc.Inputs = append(sc.Inputs, in)
				} else if rng.Intn(6) == 0 {
					tk := textKeys(rng, false)
					in := tk[rng.Intn(len(tk))]
					in.Et = et
					sc.Inputs = append(sc.Inputs, in)
				} else {
					c := codes()[rng.Intn(len(codes()))]
					sc.Inputs = append(sc.Inputs, Input{T: "key", Code: c, Mods: rng.Intn(8), Shifted: shiftedOf(c), Et: et})
				}
			case x < 7:
				pasting = !pasting
				sc.Inputs = append(sc.Inputs, Input{T: "paste", Start: pasting})
			default:
				btn := []int{0, 1, 2, 3, 64, 65}[rng.Intn(6)]
				ty := []string{"press", "release", "motion"}[rng.Intn(3)]
				if btn == 3 {
					ty = "motion"
				}
				if btn >= 64 {
					ty = "press"
				}
				sc.Inputs = append(sc.Inputs, Input{T: "mouse", Button: btn, MType: ty, Col: rng.Intn(320), Row: rng.Intn(260), Mods: rng.Intn(8)})
			}
		}
		out = append(out, sc)
	}
	colsS := []int{0, 1, 79, 94, 95, 222, 223, 319}
	rowsS := []int{0, 1, 23, 94, 222, 259}
	for mf := 0; mf < 48; mf++ {
		mm, form := mf%16, mf/16
		if !thorough && form != mm%3 {
			continue
		}
		var ins []Input
		for _, btn := range []int{0, 1, 2, 3, 64, 65, 66, 67, 128, 129} {
			for _, ty := range []string{"press", "release", "motion"} {
				if btn == 3 && ty != "motion" {
					continue // no button: motion only
				}
				if btn >= 64 && btn < 128 && ty != "press" {
					continue // wheel steps are presses
				}
				reps := 2
				if thorough {
					reps = 40
				}
				for r := 0; r < reps; r++ {
					in := Input{T: "mouse", Button: btn, MType: ty, Col: colsS[rng.Intn(len(colsS))], Row: rowsS[rng.Intn(len(rowsS))]}
					if r > 0 {
						in.Mods = rng.Intn(8)
					}
					if thorough && r > 6 {
						in.Col, in.Row = rng.Intn(320), rng.Intn(260)
					}
					ins = append(ins, in)
				}
			}
		}
		out = append(out, &Scn{Kind: "mouse", M1000: mm&1 != 0, M1002: mm&2 != 0, M1003: mm&4 != 0, M1006: mm&8 != 0,
			Decckm: rng.Intn(2) == 0, Paste: rng.Intn(2) == 0, Form: form, Inputs: ins})
	}
	return out
}
