package c13

import (
	"fmt"
	"math/rand"
	"os"

	"verif/harness/drivers/emu"
	"verif/harness/lexer"
	"verif/harness/trace"
)

// Replies (specification growth, not a verdict of C13): what the emulator
// answers to DSR, CPR, DA1 and DECRQM after a history of mode changes and
// cursor movements. Judged by specs/emu/EmuReplies.tla.

type RStep struct {
	Op   string `json:"op"`             // set | reset | ris | feed | cpr | decrqm | da1 | dsr5
	Ms   []int  `json:"ms,omitempty"`   // modes of set/reset
	M    int    `json:"m,omitempty"`    // mode of decrqm
	Feed string `json:"feed,omitempty"` // bytes (hex) for feed
}

type RScn struct {
	Kind  string  `json:"kind"`
	Cols  int     `json:"cols"`
	Rows  int     `json:"rows"`
	Steps []RStep `json:"steps"`
}

func paramStr(ms []int) string {
	s := ""
	for i, m := range ms {
		if i > 0 {
			s += ";"
		}
		s += fmt.Sprint(m)
	}
	return s
}

// nums returns the numeric parameters of the first CSI with the given final
// byte (and private marker) in b, tokenised by the harness lexer.
func csiParams(b []byte, final byte) []int {
	out := []int{}
	var l lexer.Lexer
	for _, t := range l.Feed(b) {
		if t.K == lexer.CSI && t.B == final {
			for _, p := range t.Params {
				if len(p) > 0 && p[0] >= 0 {
					out = append(out, p[0])
				} else {
					out = append(out, 0)
				}
			}
			return out
		}
	}
	return out
}

func RunReplies(sc *RScn) (evs []trace.Ev, note string) {
	evs = append(evs, trace.Ev{"ev": "reset"})
	defer func() {
		if r := recover(); r != nil {
			note = fmt.Sprintf("panic: %v", r)
		}
	}()
	pr, pw, err := os.Pipe()
	if err != nil {
		panic(err)
	}
	defer pr.Close()
	defer pw.Close()
	vt := emu.NewTo(pw, sc.Cols, sc.Rows)
	buf := make([]byte, 4096)
	written := func() []byte {
		pw.Write([]byte{0xFF})
		var out []byte
		for {
			n, err := pr.Read(buf)
			if err != nil {
				panic(err)
			}
			out = append(out, buf[:n]...)
			if len(out) > 0 && out[len(out)-1] == 0xFF {
				return out[:len(out)-1]
			}
		}
	}
	feed := func(s string) {
		if msg := emu.Feed(vt, emu.ParseMemo(s), nil); msg != "" {
			panic(msg)
		}
	}
	for _, st := range sc.Steps {
		switch st.Op {
		case "set", "reset":
			fin := "h"
			if st.Op == "reset" {
				fin = "l"
			}
			feed("\x1b[?" + paramStr(st.Ms) + fin)
			written()
			evs = append(evs, trace.Ev{"ev": "mode", "ms": st.Ms, "v": st.Op == "set"})
		case "ris":
			feed("\x1bc")
			written()
			evs = append(evs, trace.Ev{"ev": "ris"})
		case "feed":
			b := unhex(st.Feed)
			feed(string(b))
			written()
		case "cpr":
			snap := vt.VerifSnapshot()
			feed("\x1b[6n")
			evs = append(evs, trace.Ev{"ev": "query", "q": "cpr", "m": 0, "reply": csiParams(written(), 'R'),
				"snap": map[string]any{"r": snap.Cursor.Row, "c": snap.Cursor.Col, "decom": snap.DECOM, "top": snap.Top}})
		case "decrqm":
			feed(fmt.Sprintf("\x1b[?%d$p", st.M))
			evs = append(evs, trace.Ev{"ev": "query", "q": "decrqm", "m": st.M, "reply": csiParams(written(), 'y')})
		case "da1":
			feed("\x1b[c")
			evs = append(evs, trace.Ev{"ev": "query", "q": "da1", "m": 0, "reply": csiParams(written(), 'c')})
		case "dsr5":
			feed("\x1b[5n")
			evs = append(evs, trace.Ev{"ev": "query", "q": "dsr5", "m": 0, "reply": csiParams(written(), 'n')})
		}
	}
	return evs, ""
}

func unhex(s string) []byte {
	out := make([]byte, 0, len(s)/2)
	for i := 0; i+1 < len(s); i += 2 {
		var b byte
		fmt.Sscanf(s[i:i+2], "%02x", &b)
		out = append(out, b)
	}
	return out
}

func hexOf(s string) string { return fmt.Sprintf("%x", s) }

var replyModes = []int{1, 6, 7, 25, 1000, 1002, 1003, 1006, 1049, 2004, 12, 1004, 2026, 2027, 9999}

func GenReplies(seed int64, thorough bool) []*RScn {
	rng := rand.New(rand.NewSource(seed))
	var out []*RScn
	// every judged mode: query, set, query, reset, query
	var steps []RStep
	for _, m := range replyModes {
		steps = append(steps, RStep{Op: "decrqm", M: m}, RStep{Op: "set", Ms: []int{m}}, RStep{Op: "decrqm", M: m},
			RStep{Op: "reset", Ms: []int{m}}, RStep{Op: "decrqm", M: m})
	}
	steps = append(steps, RStep{Op: "da1"}, RStep{Op: "dsr5"}, RStep{Op: "cpr"})
	out = append(out, &RScn{Kind: "each-mode", Cols: 10, Rows: 5, Steps: steps})
	n := 60
	if thorough {
		n = 3000
	}
	for i := 0; i < n; i++ {
		sc := &RScn{Kind: "random", Cols: 2 + rng.Intn(12), Rows: 2 + rng.Intn(6)}
		for k := 4 + rng.Intn(20); k > 0; k-- {
			switch rng.Intn(10) {
			case 0, 1:
				ms := []int{replyModes[rng.Intn(10)]}
				if rng.Intn(3) == 0 {
					ms = append(ms, replyModes[rng.Intn(len(replyModes))])
				}
				sc.Steps = append(sc.Steps, RStep{Op: []string{"set", "reset"}[rng.Intn(2)], Ms: ms})
			case 2:
				sc.Steps = append(sc.Steps, RStep{Op: "decrqm", M: replyModes[rng.Intn(len(replyModes))]})
			case 3, 4:
				sc.Steps = append(sc.Steps, RStep{Op: "cpr"})
			case 5:
				sc.Steps = append(sc.Steps, RStep{Op: "feed", Feed: hexOf(fmt.Sprintf("\x1b[%d;%dH", rng.Intn(sc.Rows+2), rng.Intn(sc.Cols+2)))})
			case 6:
				t := 1 + rng.Intn(sc.Rows)
				sc.Steps = append(sc.Steps, RStep{Op: "feed", Feed: hexOf(fmt.Sprintf("\x1b[%d;%dr", t, t+rng.Intn(sc.Rows)))})
			case 7:
				s := ""
				for j := rng.Intn(sc.Cols + 3); j > 0; j-- {
					s += string(rune('a' + rng.Intn(26)))
				}
				sc.Steps = append(sc.Steps, RStep{Op: "feed", Feed: hexOf(s)})
			case 8:
				sc.Steps = append(sc.Steps, RStep{Op: []string{"da1", "dsr5"}[rng.Intn(2)]})
			case 9:
				if rng.Intn(4) == 0 {
					sc.Steps = append(sc.Steps, RStep{Op: "ris"})
				} else {
					sc.Steps = append(sc.Steps, RStep{Op: "feed", Feed: hexOf([]string{"\r\n", "\x1bM", "\x1b7", "\x1b8", "\n\n"}[rng.Intn(5)])})
				}
			}
		}
		sc.Steps = append(sc.Steps, RStep{Op: "cpr"})
		out = append(out, sc)
	}
	return out
}
