// Package c02 feeds byte streams, split into reads in a chosen way, to the
// real ansi.Parser and records what it delivers. specs/parser/VT500_Trace.tla
// compares the delivery with the VT500 oracle.
package c02

import (
	"encoding/hex"
	"fmt"
	"io"
	"math/rand"
	"strconv"
	"time"
	"unicode/utf8"

	"github.com/rivo/uniseg"

	"git.sr.ht/~rockorager/vaxis/ansi"

	"verif/harness/trace"
)

// Scn is the replay descriptor: hex bytes and the offsets at which reads end.
type Scn struct {
	Kind   string
	Hex    string
	Splits []int // ascending byte offsets (0 < s < len) where a read boundary falls
}

func (s *Scn) Bytes() []byte { b, _ := hex.DecodeString(s.Hex); return b }

// chunkReader returns the input one chunk per Read, then io.EOF.
type chunkReader struct {
	chunks [][]byte
}

func (r *chunkReader) Read(p []byte) (int, error) {
	if len(r.chunks) == 0 {
		return 0, io.EOF
	}
	n := copy(p, r.chunks[0])
	if n == len(r.chunks[0]) {
		r.chunks = r.chunks[1:]
	} else {
		r.chunks[0] = r.chunks[0][n:]
	}
	return n, nil
}

func split(b []byte, splits []int) [][]byte {
	var out [][]byte
	prev := 0
	for _, s := range splits {
		if s > prev && s < len(b) {
			out = append(out, b[prev:s])
			prev = s
		}
	}
	if prev < len(b) {
		out = append(out, b[prev:])
	}
	return out
}

// Scalars decodes the input the way the property defines it: valid UTF-8
// scalars, and each invalid byte as itself. Also returns the byte offset of
// every scalar.
func Scalars(b []byte) (sc []int, off []int) {
	for i := 0; i < len(b); {
		r, size := utf8.DecodeRune(b[i:])
		if r == utf8.RuneError && size <= 1 {
			sc = append(sc, int(b[i]))
			size = 1
		} else {
			sc = append(sc, int(r))
		}
		off = append(off, i)
		i += size
	}
	return
}

func runes(rs []rune) []int {
	o := make([]int, len(rs))
	for i, r := range rs {
		o[i] = int(r)
	}
	return o
}

func ints(s string) []int {
	o := []int{}
	for _, r := range s {
		o = append(o, int(r))
	}
	return o
}

// digitsOf gives a delivered parameter value as its decimal digits (TLC
// integers have 32 bits; digit sequences compare exactly whatever the size).
// A value of 19 digits or more, or negative after overflow, is outside the
// prescribed range: the oracle's Huge (<<-2>>).
func digitsOf(v int) []int {
	if v < 0 || v >= 1000000000000000000 {
		return []int{-2}
	}
	s := strconv.Itoa(v)
	d := make([]int, len(s))
	for i := range s {
		d[i] = int(s[i] - '0')
	}
	return d
}

func capInts(p []int) [][]int {
	o := make([][]int, len(p))
	for i, v := range p {
		o[i] = digitsOf(v)
	}
	return o
}

// Item converts a delivered sequence to the oracle's item record. ok=false
// for Go error values (diagnostics, not sequences).
func Item(seq ansi.Sequence) (map[string]any, bool) {
	switch s := seq.(type) {
	case ansi.Print:
		return map[string]any{"t": "print", "s": ints(s.Grapheme), "w": s.Width, "uw": uniseg.StringWidth(s.Grapheme)}, true
	case ansi.C0:
		return map[string]any{"t": "c0", "v": int(s)}, true
	case ansi.ESC:
		return map[string]any{"t": "esc", "i": runes(s.Intermediate), "f": int(s.Final)}, true
	case ansi.SS3:
		return map[string]any{"t": "ss3", "v": int(s)}, true
	case ansi.CSI:
		ps := make([][][]int, len(s.Parameters))
		for i, p := range s.Parameters {
			ps[i] = capInts(p)
		}
		return map[string]any{"t": "csi", "i": runes(s.Intermediate), "p": ps, "f": int(s.Final)}, true
	case ansi.OSC:
		return map[string]any{"t": "osc", "d": runes(s.Payload)}, true
	case ansi.DCS:
		ps := capInts(s.Parameters)
		return map[string]any{"t": "dcs", "i": runes(s.Intermediate), "p": ps, "f": int(s.Final), "d": runes(s.Data)}, true
	case ansi.APC:
		return map[string]any{"t": "apc", "d": ints(s.Data)}, true
	case ansi.EOF:
		return map[string]any{"t": "eof"}, true
	}
	return nil, false
}

// Run executes one scenario.
func Run(sc *Scn) (evs []trace.Ev, note string) {
	b := sc.Bytes()
	in, off := Scalars(b)
	items := []map[string]any{}
	panicked := false
	closed := false
	errs := 0
	done := make(chan struct{})
	go func() {
		defer close(done)
		defer func() {
			if r := recover(); r != nil {
				panicked = true
				note = fmt.Sprintf("panic: %v", r)
			}
		}()
		p := ansi.NewParser(&chunkReader{chunks: split(b, sc.Splits)})
		for seq := range p.Next() {
			if it, ok := Item(seq); ok {
				items = append(items, it)
			} else {
				errs++
			}
			p.Finish(seq)
		}
		closed = true
	}()
	select {
	case <-done:
	case <-time.After(10 * time.Second):
		note = "hang: channel not closed within 10s"
	}
	// facts: read boundaries as scalar indexes (a split inside a scalar counts
	// for both neighbours), cluster boundaries for pure text
	rb := []int{}
	for _, s := range sc.Splits {
		for i := 1; i < len(off); i++ {
			if off[i] == s {
				rb = append(rb, i)
			} else if off[i-1] < s && s < off[i] {
				rb = append(rb, i-1, i)
			}
		}
		if len(off) > 0 && s > off[len(off)-1] {
			rb = append(rb, len(off)-1)
		}
	}
	// A read that ends with the first bytes of a multi-byte sequence ends inside a scalar as far as the parser
	// can tell (it cannot know the sequence is never completed without waiting for another read): the
	// boundaries before the scalars those bytes are logged as - one per byte when the sequence turns out to be
	// invalid - are read boundaries too. The end of the input is the end of the last read.
	for _, s := range append(append([]int{}, sc.Splits...), len(b)) {
		if s > len(b) {
			continue
		}
		for l := 3; l >= 1; l-- {
			k := s - l
			if k >= 0 && utf8.RuneStart(b[k]) && b[k] >= 0xC0 && !utf8.FullRune(b[k:s]) {
				for i := range off {
					if off[i] >= k && off[i] <= s {
						rb = append(rb, i)
					}
				}
				break
			}
		}
	}
	text := len(in) > 0
	for _, x := range in {
		if x < 0x20 || x == 0x7f && false {
			text = false
		}
	}
	cb := []int{}
	if text {
		rs := make([]rune, len(in))
		for i, x := range in {
			rs[i] = rune(x)
		}
		str := string(rs)
		state := -1
		pos := 0
		for len(str) > 0 {
			var c string
			c, str, _, state = uniseg.FirstGraphemeClusterInString(str, state)
			pos += utf8.RuneCountInString(c)
			if len(str) > 0 {
				cb = append(cb, pos)
			}
		}
	}
	eofLast := len(items) > 0 && items[len(items)-1]["t"] == "eof"
	evs = []trace.Ev{
		{"ev": "reset"},
		{"ev": "run", "in": in, "items": items, "panic": panicked, "closed": closed && eofLast,
			"text": text, "cb": cb, "rb": rb, "errs": errs},
	}
	return
}

// ---- generators --------------------------------------------------------

// Reps: one representative per byte class of the state machine.
var Reps = [][]byte{{0x0a}, {0x07}, {0x18}, {0x1a}, {0x1b}, {'#'}, {'1'}, {';'}, {':'}, {'?'}, {'A'}, {'O'}, {'P'}, {'X'},
	{'['}, {'\\'}, {']'}, {'_'}, {'m'}, {0x7f}, {0xc3, 0xa9}, {0xe4, 0xb8, 0x96}, {0xff}, {0xef, 0xbf, 0xbd}}

func mk(kind string, b []byte, splits []int) *Scn {
	return &Scn{Kind: kind, Hex: hex.EncodeToString(b), Splits: splits}
}

// Exhaustive enumerates all strings of n representatives; each is emitted
// unsplit and, when chunk, once more with one random split.
func Exhaustive(n int, rng *rand.Rand, emit func(*Scn)) {
	idx := make([]int, n)
	for {
		var b []byte
		for _, i := range idx {
			b = append(b, Reps[i]...)
		}
		emit(mk(fmt.Sprintf("exh%d", n), b, nil))
		if len(b) > 1 && rng != nil {
			emit(mk(fmt.Sprintf("exh%d-split", n), b, []int{1 + rng.Intn(len(b)-1)}))
		}
		k := n - 1
		for k >= 0 {
			idx[k]++
			if idx[k] < len(Reps) {
				break
			}
			idx[k] = 0
			k--
		}
		if k < 0 {
			return
		}
	}
}

var textPool = []string{"a", "b", " ", "é", "é", "世", "😀", "👩‍🚀", "🇯🇵", "☺️", "́", "‍", "ก", "ำ", "각", "ᄀ", "ᅡ", "ᆨ",
	"�", "~", " ", "🏳️‍🌈", "👍🏽", "x",
	// Prepend characters (join with whatever follows), invalid bytes, truncated and overlong forms
	"\u0600", "\u06dd", "\U000110bd", "\xdc", "\xff", "\xe2\x82", "\xc0\xaf", "\xed\xa0\x80", "\xf4\x90\x80\x80"}

func randNum(rng *rand.Rand) string {
	switch rng.Intn(6) {
	case 0:
		return ""
	case 1:
		return "0"
	case 2:
		return "1"
	case 3:
		return fmt.Sprint(rng.Intn(100000))
	case 4:
		return "007"
	case 5:
		if rng.Intn(3) == 0 {
			// around the sizes of machine integers, and beyond every one of them
			return []string{"65535", "65536", "999999999", "1000000000", "2147483647", "2147483648", "4294967295", "4294967296",
				"00000000004294967297", "123456789012", "999999999999999999", "1000000000000000000", "9223372036854775807",
				"9223372036854775808", "18446744073709551621", "340282366920938463463374607431768211456"}[rng.Intn(16)]
		}
	}
	return fmt.Sprint(rng.Intn(300))
}

func randParams(rng *rand.Rand) string {
	n := rng.Intn(5)
	if rng.Intn(15) == 0 {
		n = 15 + rng.Intn(6)
	}
	s := ""
	for i := 0; i < n; i++ {
		if i > 0 {
			s += ";"
		}
		s += randNum(rng)
		for rng.Intn(4) == 0 {
			s += ":" + randNum(rng)
		}
	}
	return s
}

func randPayload(rng *rand.Rand) string {
	s := ""
	for n := rng.Intn(8); n > 0; n-- {
		switch rng.Intn(8) {
		case 0:
			s += ";"
		case 1:
			s += fmt.Sprint(rng.Intn(200))
		case 2:
			s += "\n"
		case 3:
			s += "\x7f"
		default:
			s += textPool[rng.Intn(len(textPool))]
		}
	}
	return s
}

func randInter(rng *rand.Rand) string {
	s := ""
	for rng.Intn(3) == 0 {
		s += string(rune(0x20 + rng.Intn(16)))
	}
	return s
}

func randFinal(rng *rand.Rand) string { return string(rune(0x40 + rng.Intn(0x3f))) }

// Grammar builds a stream of well-formed and deliberately broken sequences.
func Grammar(rng *rand.Rand) *Scn {
	var b []byte
	n := 1 + rng.Intn(12)
	for i := 0; i < n; i++ {
		var s string
		// ESC ESC \: the first ESC ends the string, the second begins a complete ESC \ of its own
		terms := []string{"\x1b\\", "\x07", "\x18", "\x1a", "\x1b\\", "\x1bB", "\x1b[1m", "\x1b\x1b\\", "\x1b\n\\"}
		switch rng.Intn(19) {
		case 17: // a device control string abandoned in its header by a non-ASCII character; what follows
			// (text, and a complete ESC \ near or far) must not be disturbed by it
			s = "\x1bP" + []string{"", randParams(rng), "1"}[rng.Intn(3)] + randInter(rng) +
				[]string{"\u00e9", "\u4e16", "\xff", "\u0600", "\U0001f600"}[rng.Intn(5)]
			for k := rng.Intn(4); k > 0; k-- {
				s += []string{"h", "i", " ", "\u00e9", "q", "1", ";", "$"}[rng.Intn(8)]
			}
			s += []string{"\x1b\\", "\x1b\\", "", "\x1b\x1b\\", "\x07", "\x18\x1b\\", "\x1b[1m\x1b\\"}[rng.Intn(7)]
		case 18: // any string, then ESC ESC \ (or ESC, a C0, \)
			s = []string{"\x1b]", "\x1bPq", "\x1bP1$r", "\x1b_", "\x1b^", "\x1bX", "\x1bP", "\x1bP1:", "\x1b]\x07", ""}[rng.Intn(10)] +
				randPayload(rng) + []string{"\x1b\x1b\\", "\x1b\x1b\x1b\\", "\x1b\x1b\\\x1b\\", "\x1b\n\x1b\\"}[rng.Intn(4)]
		case 14: // a lone ESC \ (the Alt+\ key, or a string terminator without a string)
			s = "\x1b\\"
		case 15: // a device control string cut short in its prefix, or one that is ignored (':' among the parameters)
			switch rng.Intn(3) {
			case 0:
				s = "\x1bP" + randParams(rng) + randInter(rng) + []string{"\x18", "\x1a"}[rng.Intn(2)]
			case 1:
				s = "\x1bP1:2" + randFinal(rng) + randPayload(rng) + terms[rng.Intn(len(terms))]
			default:
				s = "\x1bP" + randParams(rng) + terms[rng.Intn(len(terms))]
			}
		case 16: // privacy message / start of string, ended every possible way
			s = []string{"\x1b^", "\x1bX"}[rng.Intn(2)] + randPayload(rng) + terms[rng.Intn(len(terms))]
		case 0, 1:
			priv := ""
			if rng.Intn(3) == 0 {
				priv = string("<=>?"[rng.Intn(4)])
			}
			s = "\x1b[" + priv + randParams(rng) + randInter(rng) + randFinal(rng)
		case 2:
			s = "\x1b]" + randPayload(rng) + []string{"\x07", "\x1b\\", "\x18", "\x1a", "\x1bA", "\x1b[1m", "\x1b\x1b\\"}[rng.Intn(7)]
		case 3:
			s = "\x1bP" + randParams(rng) + randInter(rng) + randFinal(rng) + randPayload(rng) + []string{"\x1b\\", "\x18", "\x1b\\", "\x1bB"}[rng.Intn(4)]
		case 4:
			s = "\x1b_" + randPayload(rng) + []string{"\x1b\\", "\x18", "\x1b\\"}[rng.Intn(3)]
		case 5:
			s = "\x1bO" + randFinal(rng)
		case 6:
			s = "\x1b" + randInter(rng) + string(rune(0x30+rng.Intn(0x4f)))
		case 7:
			s = string(rune(rng.Intn(0x20)))
		case 8:
			s = "\x1b[" + randParams(rng) + "?" + randParams(rng) + randFinal(rng) // csi ignore
		case 9:
			s = []string{"\x1b^", "\x1bX"}[rng.Intn(2)] + randPayload(rng) + "\x1b\\"
		case 10:
			s = "\x1b\x7f"
		case 11:
			s = "\x1b[" + randParams(rng) + "\x0a" + randParams(rng) + randFinal(rng) // C0 inside CSI
		default:
			for k := 1 + rng.Intn(5); k > 0; k-- {
				s += textPool[rng.Intn(len(textPool))]
			}
		}
		b = append(b, s...)
	}
	if rng.Intn(6) == 0 && len(b) > 1 {
		b = b[:1+rng.Intn(len(b)-1)] // truncate: end of input mid-sequence
	}
	return mk("grammar", b, randSplits(rng, len(b)))
}

func randSplits(rng *rand.Rand, n int) []int {
	var sp []int
	if n < 2 {
		return nil
	}
	switch rng.Intn(4) {
	case 0:
		return nil
	case 1: // every byte its own read
		for i := 1; i < n; i++ {
			sp = append(sp, i)
		}
		return sp
	}
	for i := 1; i < n; i++ {
		if rng.Intn(4) == 0 {
			sp = append(sp, i)
		}
	}
	return sp
}

func Text(rng *rand.Rand) *Scn {
	s := ""
	for k := 1 + rng.Intn(10); k > 0; k-- {
		s += textPool[rng.Intn(len(textPool))]
	}
	return mk("text", []byte(s), randSplits(rng, len(s)))
}

func RandomBytes(rng *rand.Rand) *Scn {
	n := 1 + rng.Intn(40)
	b := make([]byte, n)
	for i := range b {
		switch rng.Intn(4) {
		case 0:
			b[i] = byte(rng.Intn(256))
		case 1:
			b[i] = []byte{0x1b, '[', ']', 'P', '\\', ';', '0', 'm', 0x07, 0x18}[rng.Intn(10)]
		default:
			b[i] = byte(0x20 + rng.Intn(0x5f))
		}
	}
	return mk("random", b, randSplits(rng, n))
}

// Fixed corner cases.
func Fixed() []*Scn {
	var out []*Scn
	for _, s := range []string{
		"\x1b]\x1b\\", "\x1bPq\x1b\\", "\x1b_\x1b\\", "\x1b]x\x07\x1b\\", "\x1b]x\x18\x1b\\", "\xef\xbf\xbd", "a\xef\xbf\xbdb",
		"\x1b[38:2::1:2:3m", "\x1b[;m", "\x1b[1;;3m", "\x1b[5:m", "\x1b[?1;2$y", "\x1bP1$r2 q\x1b\\", "\x1bP+q524742\x1b\\",
		"\x1b[\xc3\xa9A", "\x1b]8;;http://example.com\x1b\\", "\x1b[1;2;3;4;5;6;7;8;9;10;11;12;13;14;15;16;17;18m",
		"e\xcc\x81", "\x1bOP", "\x1b\x7f", "\x1b(B", "\x1b[1\x1b[2J", "\x1b[1\x182J",
		// a DCS abandoned in its header by a non-ASCII character, a complete ESC \ downstream
		"\x1bP1\xc3\xa9hi\x1b\\x", "\x1bP$\xc3\xa9hi\x1b\\x", "\x1bP\xc3\xa9hi\x1b\\x", "\x1bP1\xc3\xa9\x1b\\x", "\x1bP1\xc3\xa9\x1b[m\x1b\\",
		// a string ended by ESC, then a second ESC beginning ESC \; the same with a C0 or a sequence in between
		"\x1b]a\x1b\x1b\\x", "\x1bPq\x1b\x1b\\x", "\x1b_a\x1b\x1b\\x", "\x1bXa\x1b\x1b\\x", "\x1b^a\x1b\x1b\\x", "\x1bP1\x1b\x1b\\x",
		"\x1bP1:q\x1b\x1b\\x", "\x1b]a\x1b\n\\", "\x1b]a\x1bA\x1b\\", "\x1b\x1b\\", "\x1b]a\x1b\x1b\x1b\\",
		// a device control string with a parameter beyond every machine integer between two ordinary ones (that one
		// value is open, its neighbours and the number of parameters are not), alone, first, last; the values around
		// the largest 64-bit integer; the same parameter bytes in a control sequence
		"\x1bP1;99999999999999999999;3q#data\x1b\\X", "\x1bP99999999999999999999q\x1b\\", "\x1bP99999999999999999999;2$q\x1b\\",
		"\x1bP1;2;340282366920938463463374607431768211456+q\x1b\\", "\x1bP1;999999999999999999;3q\x1b\\",
		"\x1bP1;9223372036854775807;3q\x1b\\", "\x1bP1;9223372036854775808;3q\x1b\\", "\x1bP;18446744073709551616;q\x18",
		"\x1bP1;00000000000000000000007;3q\x1b\\", "\x1b[1;99999999999999999999;3m",
	} {
		out = append(out, mk("fixed", []byte(s), nil))
		if len(s) > 2 {
			out = append(out, mk("fixed", []byte(s), []int{len(s) / 2}))
		}
	}
	return out
}
