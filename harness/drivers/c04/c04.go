// Package c04 runs whole Vaxis sessions (start-up, frames, cursor and
// pointer changes, Suspend/Resume cycles, Close, a second Close, shutdown by
// a termination signal, a panic inside the input goroutine) on a fake
// console for a chosen capability set and records everything the session
// wrote, with marks where Suspend/Resume/Close returned.
// specs/life/Modes_Trace.tla applies the commands to the terminal's mode
// table and requires it to be restored at every suspended/closed mark.
package c04

import (
	"bufio"
	"encoding/hex"
	"fmt"
	"os"
	"runtime"
	"strings"
	"sync"
	"sync/atomic"
	"syscall"
	"time"

	"git.sr.ht/~rockorager/vaxis"

	"verif/harness/fakecon"
	"verif/harness/responder"
	"verif/harness/sess"
	"verif/harness/termcmd"
	"verif/harness/trace"
)

type Scn struct {
	Kind         string
	Mask         int
	Alt          bool
	DisableMouse bool
	DisableKitty bool
	KStack       []int    // terminal's kitty keyboard stack at start
	Shape        int      // terminal's cursor style at start
	NoDECRQSS    bool     // terminal does not answer the cursor-style query (then Shape is 0)
	PreSet       []int    `json:",omitempty"` // gated modes already set when the session starts
	TermID       string   `json:",omitempty"` // XTVERSION name; "tmux 3.4" implements mode 2027 without reporting it
	Cols, Rows   int      `json:",omitempty"` // terminal size (0: 20x5); the large-frame steps need a large one
	Env          []string `json:",omitempty"` // NAME=value set for this session only (child process): the library's environment options
	Steps        []string
	ConLog       string `json:",omitempty"` // where the session log is written (set by the parent for child runs)
}

// NeedsChild: sessions that end with a signal or an injected panic, and
// sessions that set environment variables (the environment is the process's).
func (s *Scn) NeedsChild() bool {
	for _, st := range s.Steps {
		if strings.HasPrefix(st, "kill") || strings.HasPrefix(st, "panic") {
			return true
		}
	}
	return len(s.Env) > 0
}

// Signals: sessions in which the library's signal handler is installed.
func (s *Scn) Signals() bool {
	for _, st := range s.Steps {
		if strings.HasPrefix(st, "kill") || strings.HasPrefix(st, "panic") {
			return true
		}
	}
	return false
}

// tcon is the fake console with a stall point at Reset (the last thing
// Suspend does, after the terminal has been restored and before Close closes
// the console).
type tcon struct {
	*fakecon.Console
	onReset atomic.Pointer[func()]
}

func (c *tcon) Reset() error {
	if h := c.onReset.Load(); h != nil {
		(*h)()
	}
	return c.Console.Reset()
}

// session log: "W <hex>" console writes, "M <mark>" marks.
type slog struct {
	mu sync.Mutex
	w  *bufio.Writer
	f  *os.File
	sb *strings.Builder
}

func (l *slog) line(s string) {
	l.mu.Lock()
	defer l.mu.Unlock()
	if l.f != nil {
		l.f.WriteString(s + "\n") // unbuffered: must survive the death of the process
	} else {
		l.sb.WriteString(s + "\n")
	}
}

type Result struct {
	Log  string `json:"log"`  // in-process runs: the session log itself
	Note string `json:"note"` // hang / error observations
}

var hookMu sync.Mutex

// Execute runs a session. Child sessions write their log to sc.ConLog.
func Execute(sc *Scn) *Result {
	l := &slog{sb: &strings.Builder{}}
	if sc.ConLog != "" {
		f, err := os.OpenFile(sc.ConLog, os.O_CREATE|os.O_WRONLY|os.O_TRUNC, 0o644)
		if err != nil {
			return &Result{Note: "conlog: " + err.Error()}
		}
		l.f = f
		defer f.Close()
	}
	res := &Result{}
	caps := responder.FromMask(sc.Mask, sc.Alt)
	caps.XTVersion = sc.TermID
	caps.CursorStyle = sc.Shape
	if sc.NoDECRQSS {
		caps.CursorStyle = -1
	}
	caps.PreSet = map[int]bool{}
	for _, n := range sc.PreSet {
		caps.PreSet[n] = true
	}
	sess.ScrubEnv()
	for _, kv := range sc.Env {
		if i := strings.IndexByte(kv, '='); i > 0 {
			os.Setenv(kv[:i], kv[i+1:])
			defer os.Unsetenv(kv[:i])
		}
	}
	cols, rows := sc.Cols, sc.Rows
	if cols == 0 {
		cols, rows = 20, 5
	}
	con := &tcon{Console: fakecon.New(cols, rows)}
	resp := responder.New(caps, cols, rows, con.Inject)
	// blockAt = n > 0: the n-th console write from now stalls (a slow terminal) until writeGate opens
	var blockMu sync.Mutex
	blockAt := 0
	block := func(n int) { blockMu.Lock(); blockAt = n; blockMu.Unlock() }
	writeGate := make(chan struct{})
	writeHit := make(chan struct{}, 1)
	var slowTerm atomic.Bool // the terminal takes 100 ms to answer
	con.OnWrite = func(p []byte) {
		if con.Closed() {
			return // a closed console receives nothing
		}
		l.line("W " + hex.EncodeToString(p))
		if slowTerm.Load() {
			q := append([]byte(nil), p...)
			go func() { time.Sleep(100 * time.Millisecond); resp.OnWrite(q) }()
		} else {
			resp.OnWrite(p)
		}
		blockMu.Lock()
		hit := false
		if blockAt > 0 {
			blockAt--
			hit = blockAt == 0
		}
		blockMu.Unlock()
		if hit {
			writeHit <- struct{}{}
			<-writeGate
		}
	}
	// afterSize, when armed, runs once when Render has read the terminal size, just before it draws
	var afterSize atomic.Pointer[func()]
	con.AfterSize = func() {
		if h := afterSize.Swap(nil); h != nil {
			(*h)()
		}
	}
	vx, err := vaxis.New(vaxis.Options{WithConsole: con, NoSignals: !sc.Signals(),
		DisableMouse: sc.DisableMouse, DisableKittyKeyboard: sc.DisableKitty})
	if err != nil {
		res.Note = "start: " + err.Error()
		res.Log = l.sb.String()
		return res
	}
	l.line("M ready")
	// drain events so the input goroutine never blocks on a full queue
	stopDrain := make(chan struct{})
	quitSeen := make(chan struct{}, 1)
	go func() {
		for {
			select {
			case ev := <-vx.Events():
				if _, ok := ev.(vaxis.QuitEvent); ok {
					select {
					case quitSeen <- struct{}{}:
					default:
					}
				}
			case <-stopDrain:
				return
			}
		}
	}()
	defer close(stopDrain)
	call := func(name string, fn func()) bool {
		done := make(chan struct{})
		go func() { fn(); close(done) }()
		select {
		case <-done:
			return true
		case <-time.After(5 * time.Second):
			l.line("M hang:" + name)
			res.Note = "hang in " + name
			return false
		}
	}
	// the signal path's Close has finished once the console is closed: nothing can be written after that
	waitClosed := func(d time.Duration) bool {
		deadline := time.Now().Add(d)
		for !con.Closed() && time.Now().Before(deadline) {
			time.Sleep(200 * time.Microsecond)
		}
		return con.Closed()
	}
	markClosed := func(what string) {
		if waitClosed(5 * time.Second) {
			l.line("M closed")
		} else {
			l.line("M hang:kill")
			res.Note = "hang after kill signal " + what
		}
	}
	linked := vaxis.Style{Foreground: vaxis.IndexColor(2), Attribute: vaxis.AttrBold, Hyperlink: "http://k"}
	// a frame that changes every cell of a large screen: each row opens the hyperlink anew
	bigFrame := func(g string) {
		win := vx.Window()
		w, h := win.Size()
		for row := 0; row < h; row++ {
			for col := 0; col < w; col++ {
				win.SetCell(col, row, vaxis.Cell{Character: vaxis.Character{Grapheme: g, Width: 1}, Style: linked})
			}
		}
	}
	frames := 0
	for _, st := range sc.Steps {
		switch st {
		case "frame":
			frames++
			win := vx.Window()
			win.Clear()
			style := vaxis.Style{Foreground: vaxis.IndexColor(3), Attribute: vaxis.AttrBold | vaxis.AttrItalic,
				UnderlineStyle: vaxis.UnderlineCurly, UnderlineColor: vaxis.RGBColor(1, 2, 3), Hyperlink: "http://x"}
			win.SetCell(frames%5, 1, vaxis.Cell{Character: vaxis.Character{Grapheme: "x", Width: 1}, Style: style})
			vx.ShowCursor(frames%3, 0, vaxis.CursorStyle(1+frames%6))
			vx.SetMouseShape([]vaxis.MouseShape{vaxis.MouseShapeClickable, vaxis.MouseShapeHelp, vaxis.MouseShapeDefault}[frames%3])
			vx.Render()
		case "hidecursor":
			vx.HideCursor()
			vx.Render()
		case "suspend":
			if !call("Suspend", func() { vx.Suspend() }) {
				res.Log = l.sb.String()
				return res
			}
			l.line("M suspended")
		case "resume":
			if !call("Resume", func() { vx.Resume() }) {
				res.Log = l.sb.String()
				return res
			}
			l.line("M resumed")
		case "close":
			if !call("Close", vx.Close) {
				res.Log = l.sb.String()
				return res
			}
			l.line("M closed")
		case "close2":
			if !call("Close", vx.Close) {
				res.Log = l.sb.String()
				return res
			}
			l.line("M closed")
		case "kill":
			l.line("M kill")
			syscall.Kill(os.Getpid(), syscall.SIGTERM)
			deadline := time.Now().Add(5 * time.Second)
			for !con.Closed() && time.Now().Before(deadline) {
				time.Sleep(time.Millisecond)
			}
			if con.Closed() {
				l.line("M closed")
			} else {
				l.line("M hang:kill")
				res.Note = "hang after kill signal"
			}
		case "killclose":
			// the usual application shape: its event loop leaves on QuitEvent and calls Close itself,
			// here after a termination signal started the library's own Close. "closed" is marked when
			// the APPLICATION's Close returns: the terminal must be restored by then
			l.line("M kill")
			slowTerm.Store(true)
			syscall.Kill(os.Getpid(), syscall.SIGTERM)
			select {
			case <-quitSeen:
			case <-time.After(5 * time.Second):
			}
			if !call("Close", vx.Close) {
				res.Log = l.sb.String()
				return res
			}
			l.line("M closed")
			time.Sleep(300 * time.Millisecond) // whatever is written after this point came too late
		case "killrender":
			// a termination signal while the application goroutine is inside Render, its console
			// write stalled by a slow terminal: the signal path's Close runs beside it
			l.line("M kill")
			frames++
			vx.Window().SetCell(frames%5, 2, vaxis.Cell{Character: vaxis.Character{Grapheme: "k", Width: 1}, Style: linked})
			vx.Window().SetCell(frames%5+2, 3, vaxis.Cell{Character: vaxis.Character{Grapheme: "l", Width: 1}, Style: linked})
			block(1)
			renderDone := make(chan struct{})
			go func() { vx.Render(); close(renderDone) }()
			select {
			case <-writeHit:
			case <-time.After(2 * time.Second):
			}
			syscall.Kill(os.Getpid(), syscall.SIGTERM)
			time.Sleep(150 * time.Millisecond)
			close(writeGate)
			select {
			case <-renderDone:
			case <-time.After(5 * time.Second):
			}
			deadline := time.Now().Add(5 * time.Second)
			for !con.Closed() && time.Now().Before(deadline) {
				time.Sleep(time.Millisecond)
			}
			if con.Closed() {
				l.line("M closed")
			} else {
				l.line("M hang:kill")
				res.Note = "hang after kill signal during Render"
			}
		case "killframe", "killdraw":
			// a termination signal while the application goroutine draws a large frame: the signal
			// path's Close runs while the frame is being produced.
			// killframe: the signal is raised from inside Render, after it has read the terminal size
			// and before it draws. killdraw: the signal path's Close has already begun (its first write
			// to a slow terminal is stalled) and the terminal takes that write as Render starts to draw
			l.line("M kill")
			bigFrame("f")
			vx.ShowCursor(1, 1, vaxis.CursorStyle(4))
			trigger := func() { syscall.Kill(os.Getpid(), syscall.SIGTERM) }
			if st == "killdraw" {
				block(1)
				syscall.Kill(os.Getpid(), syscall.SIGTERM)
				select {
				case <-writeHit:
				case <-time.After(2 * time.Second):
				}
				trigger = func() { close(writeGate) }
			}
			afterSize.Store(&trigger)
			vx.Resize() // the next Render reads the size first
			renderDone := make(chan struct{})
			go func() {
				if caps.InBandResize {
					// the size is not read from the console then: trigger on the way in
					if h := afterSize.Swap(nil); h != nil {
						(*h)()
					}
				}
				vx.Render()
				if h := afterSize.Swap(nil); h != nil {
					(*h)() // Render did not ask for the size
				}
				close(renderDone)
			}()
			select {
			case <-renderDone:
			case <-time.After(50 * time.Millisecond):
				// Render has not come to read the size (it may be waiting for the shutdown to finish)
				if h := afterSize.Swap(nil); h != nil {
					(*h)()
				}
				select {
				case <-renderDone:
				case <-time.After(5 * time.Second):
				}
			}
			markClosed("beside a large frame")
		case "killcursor2", "killcursor3":
			// the application goroutine places the cursor (as it does for every frame) while the signal
			// path's Close is restoring the terminal: its n-th write is stalled by a slow terminal
			l.line("M kill")
			block(int(st[len(st)-1] - '0'))
			syscall.Kill(os.Getpid(), syscall.SIGTERM)
			select {
			case <-writeHit:
			case <-time.After(2 * time.Second):
			}
			shown := make(chan struct{})
			go func() { vx.ShowCursor(2, 2, vaxis.CursorStyle(3)); close(shown) }()
			select {
			case <-shown:
			case <-time.After(20 * time.Millisecond): // it may have to wait for the shutdown
			}
			close(writeGate)
			markClosed("beside ShowCursor")
		case "killlate":
			// the application goroutine draws one more frame when the signal path's Close has restored
			// the terminal and has not yet returned (stalled in the console's Reset)
			l.line("M kill")
			atReset := make(chan struct{})
			resetGate := make(chan struct{})
			var once sync.Once
			hold := func() { once.Do(func() { close(atReset); <-resetGate }) }
			con.onReset.Store(&hold)
			syscall.Kill(os.Getpid(), syscall.SIGTERM)
			select {
			case <-atReset:
			case <-time.After(2 * time.Second):
			}
			frames++
			drawn := make(chan struct{})
			go func() {
				vx.Window().SetCell(frames%5, 2, vaxis.Cell{Character: vaxis.Character{Grapheme: "z", Width: 1}, Style: linked})
				vx.ShowCursor(2, 2, vaxis.CursorStyle(3))
				vx.Render()
				close(drawn)
			}()
			select {
			case <-drawn:
			case <-time.After(50 * time.Millisecond): // it may have to wait for the shutdown
			}
			close(resetGate)
			markClosed("before a late frame")
		case "killsuspend":
			// a termination signal while the application is inside Suspend, waiting for a slow terminal
			// to take and answer the query that wakes the input parser
			l.line("M kill")
			slowTerm.Store(true)
			block(1)
			suspended := make(chan struct{})
			go func() { vx.Suspend(); close(suspended) }()
			select {
			case <-writeHit:
			case <-time.After(2 * time.Second):
			}
			syscall.Kill(os.Getpid(), syscall.SIGTERM)
			early := waitClosed(300 * time.Millisecond)
			if early {
				l.line("M closed") // the signal path's Close is through
			}
			close(writeGate)
			select {
			case <-suspended:
				l.line("M suspended")
			case <-time.After(5 * time.Second):
				l.line("M hang:Suspend")
				res.Note = "hang in Suspend beside a kill signal"
			}
			if !early {
				// Suspend ends the signal handling: a signal the input goroutine had not taken by then
				// closes nothing, and that is not a hang
				if waitClosed(time.Second) {
					l.line("M closed")
				} else {
					l.line("M signal-not-taken")
				}
			}
		case "kill3":
			// a termination signal while input is pouring in: hold the input
			// goroutine at its hook, queue four keys, raise the signal, let go
			l.line("M kill")
			gate := make(chan struct{})
			var once sync.Once
			vaxis.VerifHook = func(pt string) {
				if pt == "input.seq" {
					once.Do(func() { <-gate })
				}
			}
			con.Inject([]byte("abcd"))
			time.Sleep(20 * time.Millisecond)
			syscall.Kill(os.Getpid(), syscall.SIGTERM)
			time.Sleep(20 * time.Millisecond)
			close(gate)
			deadline := time.Now().Add(5 * time.Second)
			for !con.Closed() && time.Now().Before(deadline) {
				time.Sleep(time.Millisecond)
			}
			vaxis.VerifHook = nil
			if con.Closed() {
				l.line("M closed")
			} else {
				l.line("M hang:kill")
				res.Note = "hang after kill signal with pending input"
			}
		case "panic", "panic3":
			l.line("M panic")
			vaxis.VerifHook = func(pt string) {
				if pt == "input.seq" {
					vaxis.VerifHook = nil
					panic("verif: injected fault in the input goroutine")
				}
			}
			if st == "panic3" {
				con.Inject([]byte("wxyz")) // three more keys are pending when the fault hits
			} else {
				con.Inject([]byte("x"))
			}
			time.Sleep(5 * time.Second) // the process dies before this returns
			l.line("M hang:panic")
			res.Note = "input goroutine survived the injected panic"
			if os.Getenv("VERIF_DEBUG") != "" {
				buf := make([]byte, 1<<20)
				os.Stderr.Write(buf[:runtime.Stack(buf, true)])
			}
		}
	}
	res.Log = l.sb.String()
	return res
}

// Events converts a session log to trace events.
func Events(sc *Scn, log string, died string, g, ln *trace.Interner) []trace.Ev {
	caps := responder.FromMask(sc.Mask, sc.Alt)
	sup := []int{}
	if caps.Sync {
		sup = append(sup, 2026)
	}
	if caps.UnicodeCore {
		sup = append(sup, 2027)
	}
	if caps.ColorTheme {
		sup = append(sup, 2031)
	}
	if caps.InBandResize {
		sup = append(sup, 2048)
	}
	if caps.SixelDA1 || caps.SixelXTSM {
		sup = append(sup, 8452)
	}
	kst := sc.KStack
	if kst == nil {
		kst = []int{}
	}
	evs := []trace.Ev{{"ev": "reset", "sup": sup, "kk": caps.KittyKeyboard, "a176": caps.OSC176,
		"kstack": kst, "shape": sc.Shape, "appid": ln.ID("appid:" + caps.AppID), "preset": presetOf(sc, sup)}}
	cv := termcmd.NewConv(g, ln, caps.UnicodeCore, caps.ExplicitWidth)
	for _, line := range strings.Split(log, "\n") {
		switch {
		case strings.HasPrefix(line, "W "):
			b, _ := hex.DecodeString(line[2:])
			for _, e := range cv.Feed(b) {
				switch e["ev"] {
				case "print", "xprint", "cup", "nop", "other", "cr", "ed2":
					continue // no mode effect: keep the trace small
				}
				evs = append(evs, e)
			}
		case strings.HasPrefix(line, "M "):
			evs = append(evs, trace.Ev{"ev": "mark", "what": line[2:]})
		}
	}
	if died != "" {
		// the process died (expected for the injected panic): whatever it
		// wrote before dying is all the terminal got
		evs = append(evs, trace.Ev{"ev": "mark", "what": "died", "msg": asciiOnly(died)})
	}
	return evs
}

// presetOf: the pre-set modes the terminal actually implements.
func presetOf(sc *Scn, sup []int) []int {
	out := []int{}
	for _, n := range sc.PreSet {
		for _, s := range sup {
			if s == n {
				out = append(out, n)
			}
		}
	}
	return out
}

func asciiOnly(s string) string {
	b := []byte(s)
	for i := range b {
		if b[i] < 0x20 || b[i] > 0x7e || b[i] == '"' || b[i] == '\\' {
			b[i] = '?'
		}
	}
	if len(b) > 120 {
		b = b[:120]
	}
	return string(b)
}

// ---- generators -------------------------------------------------------------

// The capability bits that decide which modes are switched.
var ModeBits = []int{0, 1, 2, 3, 4, 6, 13, 14}

var Templates = [][]string{
	{"frame", "close"},
	{"close"},
	{"frame", "suspend", "resume", "frame", "close", "close2"},
	{"suspend", "resume", "suspend", "resume", "frame", "suspend", "resume", "close"},
	{"frame", "hidecursor", "suspend"},
	{"frame", "frame", "frame", "suspend", "resume", "hidecursor", "close"},
	{"frame", "suspend", "close"}, // quitting while suspended
	{"suspend", "resume", "suspend", "close", "close2"},
}

var CrashTemplates = [][]string{
	{"kill"},
	{"frame", "kill"},
	{"frame", "suspend", "resume", "kill"},
	{"panic"},
	{"frame", "panic"},
	{"frame", "suspend", "resume", "frame", "panic"},
	{"frame", "panic3"},
	{"frame", "kill3"},
	{"frame", "killrender"},
	{"frame", "killclose"},
	{"frame", "suspend", "resume", "frame", "killrender"},
	{"frame", "killframe"},
	{"frame", "killdraw"},
	{"frame", "killcursor3"},
	{"frame", "suspend", "resume", "frame", "killcursor2"},
	{"frame", "killlate"},
	{"frame", "killsuspend", "close"},
	{"frame", "suspend", "resume", "killsuspend"},
	{"suspend", "resume", "frame", "killframe"},
}

// EnvTemplates: sessions under one of the library's environment options that
// change which capabilities it uses (run in child processes, the variable set
// for that session only).
var EnvTemplates = [][]string{
	{"frame", "close"},
	{"frame", "suspend", "resume", "frame", "close", "close2"},
	{"suspend", "resume", "suspend"},
}
var EnvOptions = []string{"VAXIS_FORCE_WCWIDTH=1", "VAXIS_FORCE_NOZWJ=1", "VAXIS_FORCE_UNICODE=1"}

// MaskOf expands a 10-bit configuration number: 8 capability bits + 2 options.
func Config(n int) (mask int, noMouse, noKitty bool) {
	for i, b := range ModeBits {
		if n&(1<<i) != 0 {
			mask |= 1 << b
		}
	}
	return mask, n&(1<<8) != 0, n&(1<<9) != 0
}

func Gen(configs []int, crash bool) []*Scn {
	var out []*Scn
	starts := []struct {
		k     []int
		shape int
		noq   bool
	}{{nil, 0, false}, {[]int{1}, 2, false}, {[]int{3, 1}, 5, false}, {nil, 0, true}}
	for ci, n := range configs {
		mask, nm, nk := Config(n)
		tpls := Templates
		if crash {
			tpls = CrashTemplates
		}
		for ti, t := range tpls {
			st := starts[(ci+ti)%len(starts)]
			sc := &Scn{Kind: fmt.Sprintf("session-%s", strings.Join(t, "-")), Mask: mask, Alt: (ci+ti)%2 == 1,
				DisableMouse: nm, DisableKitty: nk, KStack: st.k, Shape: st.shape, NoDECRQSS: st.noq, Steps: t}
			if (ci+ti)%5 == 4 {
				sc.PreSet = []int{2027, 2031} // the user's terminal already has these modes on
				sc.Kind += "+preset"
			}
			if (ci+ti)%7 == 3 && mask&(1<<1) == 0 && sc.PreSet == nil {
				// tmux 3.4 lays text out per Unicode without having mode 2027 (it ignores the mode):
				// Vaxis's quirk for it must not disturb the restore bookkeeping
				sc.TermID = "tmux 3.4"
				sc.Kind += "+tmux34"
			}
			for _, s := range t {
				if s == "killframe" || s == "killdraw" {
					sc.Cols, sc.Rows = 400, 120
				}
			}
			out = append(out, sc)
		}
	}
	return out
}

// GenEnv: for every configuration one session per environment option.
func GenEnv(configs []int) []*Scn {
	var out []*Scn
	starts := []struct {
		k     []int
		shape int
	}{{nil, 0}, {[]int{1}, 2}, {[]int{3, 1}, 5}}
	for ci, n := range configs {
		mask, nm, nk := Config(n)
		for ei, env := range EnvOptions {
			t := EnvTemplates[(ci+ei)%len(EnvTemplates)]
			st := starts[(ci+ei)%len(starts)]
			sc := &Scn{Kind: fmt.Sprintf("session-%s+env:%s", strings.Join(t, "-"), strings.SplitN(env, "=", 2)[0]),
				Mask: mask, Alt: (ci+ei)%2 == 1, DisableMouse: nm, DisableKitty: nk, KStack: st.k, Shape: st.shape,
				Env: []string{env}, Steps: t}
			if (ci+ei)%4 == 3 {
				sc.PreSet = []int{2027, 2031}
				sc.Kind += "+preset"
			}
			out = append(out, sc)
		}
	}
	return out
}
