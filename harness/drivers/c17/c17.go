// Package c17 drives the two line editors (vxfw/textfield.TextField through
// HandleEvent and its exported methods, widgets/textinput.Model through
// Update/SetContent) with generated command histories and records, after
// every command, the text (as grapheme clusters), the cursor index where the
// widget exposes one, the arguments of the change/submit callbacks and the
// cursor column of a Draw into a window of the current width.  The driver
// logs the abstract command it issued; specs/text/LineEdit_Trace.tla decides
// what the text and cursor must be.
package c17

import (
	"fmt"
	"math/rand"
	"reflect"
	"strings"
	"sync/atomic"
	"time"
	"unicode"

	"git.sr.ht/~rockorager/vaxis"
	"git.sr.ht/~rockorager/vaxis/vxfw"
	"git.sr.ht/~rockorager/vaxis/vxfw/textfield"
	"git.sr.ht/~rockorager/vaxis/widgets/textinput"
	"github.com/rivo/uniseg"

	"verif/harness/responder"
	"verif/harness/sess"
	"verif/harness/trace"
)

// ---- replay descriptor ---------------------------------------------------

type Op struct {
	K    string   `json:"k"`             // abstract command (LineEdit.tla vocabulary)
	Via  string   `json:"via"`           // key: through the event handler; call: exported method
	Key  string   `json:"key,omitempty"` // binding used, e.g. "Ctrl+a", "Home"
	Gs   []string `json:"gs,omitempty"`  // graphemes inserted / pasted / assigned; on a deletion: the two graphemes it brings together, which form one cluster
	I    int      `json:"i,omitempty"`   // goto target
	W    int      `json:"w,omitempty"`   // resize: new window width
	Base string   `json:",omitempty"`    // insjoin, pastejoin: the cluster the first grapheme of Gs joins
}

type Scn struct {
	Widget string `json:"widget"` // textfield | textinput
	Gen    string `json:"gen"`
	Prompt string `json:"prompt,omitempty"`
	W      int    `json:"w"` // initial window width
	Ops    []Op   `json:"ops"`
	// Locks: lock-state bits (vaxis.ModCapsLock, vaxis.ModNumLock) carried by every key event of the scenario, the
	// way a terminal speaking the kitty keyboard protocol reports keys typed while Caps Lock / Num Lock is on
	Locks int `json:"locks,omitempty"`
}

// ---- keys -----------------------------------------------------------------

var named = map[string]rune{
	"Home": vaxis.KeyHome, "End": vaxis.KeyEnd, "Left": vaxis.KeyLeft, "Right": vaxis.KeyRight,
	"Delete": vaxis.KeyDelete, "BackSpace": vaxis.KeyBackspace, "Enter": vaxis.KeyEnter, "Tab": vaxis.KeyTab,
	"Up": vaxis.KeyUp, "Down": vaxis.KeyDown, "F1": vaxis.KeyF01, "Escape": vaxis.KeyEsc, "Insert": vaxis.KeyInsert,
	"Page_Up": vaxis.KeyPgUp,
}

// KeyOf builds the Key value Vaxis delivers for a binding name such as
// "Ctrl+a", "Alt+f", "Ctrl+Right" or "Home".
func KeyOf(name string) vaxis.Key {
	k := vaxis.Key{}
	for {
		switch {
		case strings.HasPrefix(name, "Ctrl+"):
			k.Modifiers |= vaxis.ModCtrl
			name = name[5:]
			continue
		case strings.HasPrefix(name, "Alt+"):
			k.Modifiers |= vaxis.ModAlt
			name = name[4:]
			continue
		case strings.HasPrefix(name, "Shift+"):
			k.Modifiers |= vaxis.ModShift
			name = name[6:]
			continue
		}
		break
	}
	if r, ok := named[name]; ok {
		k.Keycode = r
	} else {
		k.Keycode = []rune(name)[0]
	}
	return k
}

// TextKey is the key event of typing one grapheme cluster.
func TextKey(g string, et vaxis.EventType) vaxis.Key {
	var r rune
	for _, x := range g {
		r = x
		break
	}
	k := vaxis.Key{Keycode: r, Text: g, EventType: et}
	if unicode.IsUpper(r) {
		k.Keycode = unicode.ToLower(r)
		k.ShiftedCode = r
		k.Modifiers = vaxis.ModShift
	}
	return k
}

// IsCtl: g is a single character that cannot be displayed (C0 control or DEL).
func IsCtl(g string) bool {
	r := []rune(g)
	return len(r) == 1 && (r[0] < 0x20 || r[0] == 0x7f)
}

// PastedKey is the key event the input decoder delivers for the grapheme g of a
// bracketed paste: printable text as a key with Text; a C0 byte as the key that
// byte encodes on a legacy terminal (CR = Enter, 0x01 = Ctrl+a, 0x08 and DEL =
// BackSpace, ...) without Text; in both cases EventType = EventPaste.
func PastedKey(g string) vaxis.Key {
	if !IsCtl(g) {
		return TextKey(g, vaxis.EventPaste)
	}
	r := []rune(g)[0]
	k := vaxis.Key{EventType: vaxis.EventPaste}
	switch {
	case r == 0x08 || r == 0x7f:
		k.Keycode = vaxis.KeyBackspace
	case r == 0x09:
		k.Keycode = vaxis.KeyTab
	case r == 0x0d:
		k.Keycode = vaxis.KeyEnter
	case r == 0x1b:
		k.Keycode = vaxis.KeyEsc
	case r == 0:
		k.Keycode, k.Modifiers = '@', vaxis.ModCtrl
	case r <= 0x1a:
		k.Keycode, k.Modifiers = r+0x60, vaxis.ModCtrl
	default:
		k.Keycode, k.Modifiers = r+0x40, vaxis.ModCtrl
	}
	return k
}

// Bindings: abstract command -> the bindings each widget documents for it.
var Bindings = map[string]map[string][]string{
	"textfield": {
		"home": {"Ctrl+a", "Home"}, "end": {"Ctrl+e", "End"}, "right": {"Ctrl+f", "Right"}, "left": {"Ctrl+b", "Left"},
		"del": {"Ctrl+d", "Delete"}, "bs": {"Ctrl+h", "BackSpace"}, "killeol": {"Ctrl+k"}, "enter": {"Enter"},
		"noop": {"Ctrl+u", "Ctrl+w", "Alt+b", "Alt+f", "Tab", "F1", "Up", "Down", "Escape", "Ctrl+Right", "Page_Up"},
	},
	"textinput": {
		"home": {"Ctrl+a", "Home"}, "end": {"Ctrl+e", "End"}, "right": {"Ctrl+f", "Right"}, "left": {"Ctrl+b", "Left"},
		"wordright": {"Alt+f", "Ctrl+Right"}, "wordleft": {"Alt+b", "Ctrl+Left"},
		"del": {"Ctrl+d", "Delete"}, "bs": {"Ctrl+h", "BackSpace"}, "killeol": {"Ctrl+k"}, "killbol": {"Ctrl+u"},
		"delword": {"Ctrl+w"},
		"noop":    {"Enter", "Tab", "F1", "Up", "Down", "Escape", "Ctrl+x", "Alt+x", "Page_Up", "Insert"},
	},
}

// ---- facts ------------------------------------------------------------------

func segment(s string) []string {
	var out []string
	g := uniseg.NewGraphemes(s)
	for g.Next() {
		out = append(out, g.Str())
	}
	return out
}

func classOf(g string) int {
	if IsCtl(g) {
		return 3
	}
	allsp := true
	for _, r := range g {
		if !unicode.IsSpace(r) {
			allsp = false
		}
	}
	if allsp {
		return 0
	}
	for _, r := range g {
		if unicode.IsLetter(r) || unicode.IsNumber(r) {
			return 1
		}
		break
	}
	return 2
}

// cols: the columns a terminal with grapheme clustering shows s in: each cluster in as many as Unicode
// measures it, and never more than two.
func cols(s string) int {
	t, state := 0, -1
	for len(s) > 0 {
		var w int
		_, s, w, state = uniseg.FirstGraphemeClusterInString(s, state)
		if w > 2 {
			w = 2
		}
		t += w
	}
	return t
}

type local struct {
	m   map[string]int
	tab [][]int
}

func (l *local) id(g string) int {
	if id, ok := l.m[g]; ok {
		return id
	}
	l.tab = append(l.tab, []int{cols(g), classOf(g)})
	l.m[g] = len(l.tab)
	return len(l.tab)
}

func (l *local) ids(gs []string) []int {
	out := []int{}
	for _, g := range gs {
		out = append(out, l.id(g))
	}
	return out
}

// tfCursor reads the TextField's cursor index. The widget exports no accessor;
// the property names the private field ("TextField.Value, cursor, n") and
// demands that it is the ideal editor's grapheme index, always within the text,
// so it is read (never written) through reflection. -1 = not observable (no
// unsigned integer field of that name): the cursor is then judged through the
// drawn cursor column only.
func tfCursor(tf *textfield.TextField) int {
	f := reflect.ValueOf(tf).Elem().FieldByName("cursor")
	if !f.IsValid() || !f.CanUint() {
		return -1
	}
	return int(f.Uint())
}

// ---- executor ------------------------------------------------------------------

type Ctx struct {
	Hangs atomic.Int32
	Dump  func(format string, a ...any)
}

// Worker owns one real Vaxis (fake console) whose windows textinput draws into.
type Worker struct {
	S *sess.S
}

func NewWorker() (*Worker, error) {
	// the editors are drawn on a terminal that advertises Unicode core (mode 2027): Vaxis and the terminal
	// then measure a grapheme cluster the same way (cols below), which is the width fact the oracle is given
	s, err := sess.Start(sess.Config{Caps: responder.Caps{UnicodeCore: true}, Cols: 120, Rows: 2})
	if err != nil {
		return nil, err
	}
	return &Worker{S: s}, nil
}

func guarded(f func()) (pan string) {
	defer func() {
		if r := recover(); r != nil {
			pan = fmt.Sprint(r)
		}
	}()
	f()
	return ""
}

func ascii(s string) string {
	var b strings.Builder
	for _, r := range s {
		if r < 0x20 || r > 0x7e || r == '"' || r == '\\' {
			b.WriteByte('?')
		} else {
			b.WriteRune(r)
		}
	}
	if b.Len() > 120 {
		return b.String()[:120]
	}
	return b.String()
}

// timed runs f with a watchdog; false = f did not return in time (abandoned).
func timed(f func()) bool {
	done := make(chan struct{})
	go func() { f(); close(done) }()
	select {
	case <-done:
		return true
	case <-time.After(5 * time.Second):
		return false
	}
}

func Run(c *Ctx, wk *Worker, sc *Scn) (evs []trace.Ev, note string) {
	loc := &local{m: map[string]int{}, tab: [][]int{}}
	var (
		tf      *textfield.TextField
		ti      *textinput.Model
		chg     [][]int
		sub     [][]int
		promptW int
	)
	reset := trace.Ev{"ev": "reset", "widget": sc.Widget}
	switch sc.Widget {
	case "textfield":
		tf = textfield.New()
		tf.OnChange = func(s string) (vxfw.Command, error) { chg = append(chg, loc.ids(segment(s))); return nil, nil }
		tf.OnSubmit = func(s string) (vxfw.Command, error) { sub = append(sub, loc.ids(segment(s))); return nil, nil }
		reset["enter"], reset["cb"] = "clear", true
	case "textinput":
		ti = textinput.New()
		if sc.Prompt != "" {
			ti.SetPrompt(sc.Prompt)
			promptW = cols(sc.Prompt)
		}
		reset["enter"], reset["cb"] = "keep", false
	default:
		return nil, "unknown widget"
	}
	reset["pw"] = promptW
	evs = append(evs, reset)
	defer func() { reset["tab"] = loc.tab }()
	win := sc.W
	prevWin := sc.W
	unsynced := false
	for _, op := range sc.Ops {
		op := op
		chg, sub = [][]int{}, [][]int{}
		gs := op.Gs
		if gs == nil {
			gs = []string{}
		}
		ev := trace.Ev{"ev": "op", "k": op.K, "via": op.Via, "gs": loc.ids(gs), "i": op.I}
		var evsIn []vaxis.Event
		var call func()
		joined := strings.Join(gs, "")
		if (op.K == "bs" || op.K == "del" || op.K == "delword") && len(gs) != 0 {
			// a deletion that brings gs[0] and gs[1] together: the oracle is told the
			// cluster the two form (segmentation fact)
			if len(gs) != 2 || len(segment(joined)) != 1 {
				return evs, "bad join fact"
			}
			ev["gs"] = loc.ids([]string{gs[0], gs[1], joined})
		}
		switch {
		case op.K == "resize":
			win = op.W
		case op.Via == "key" && op.K == "ins":
			for _, g := range gs {
				evsIn = append(evsIn, TextKey(g, vaxis.EventPress))
			}
		case op.Via == "key" && op.K == "insjoin":
			// one key whose text joins the cluster left of the cursor (op.Base,
			// typed just before): the oracle is told the cluster that results
			evsIn = append(evsIn, TextKey(gs[0], vaxis.EventPress))
			ev["gs"] = loc.ids([]string{op.Base + gs[0]})
			ev["i"] = loc.id(op.Base)
		case op.Via == "key" && (op.K == "paste" || op.K == "pastectl" || op.K == "pastejoin"):
			// pastectl: the pasted text contains control characters; pastejoin: its
			// first grapheme joins the cluster left of the cursor (op.Base)
			evsIn = append(evsIn, vaxis.PasteStartEvent{})
			for _, g := range gs {
				evsIn = append(evsIn, PastedKey(g))
			}
			evsIn = append(evsIn, vaxis.PasteEndEvent{})
			if op.K == "pastejoin" {
				ev["gs"] = loc.ids(append([]string{op.Base + gs[0]}, gs[1:]...))
				ev["i"] = loc.id(op.Base)
			}
		case op.Via == "key" && op.K == "noop" && op.Key == "release":
			k := TextKey("a", vaxis.EventRelease)
			evsIn = append(evsIn, k)
		case op.Via == "key":
			evsIn = append(evsIn, KeyOf(op.Key))
		}
		if sc.Locks != 0 {
			for i, e := range evsIn {
				if k, ok := e.(vaxis.Key); ok && k.EventType != vaxis.EventPaste {
					k.Modifiers |= vaxis.ModifierMask(sc.Locks)
					evsIn[i] = k
				}
			}
		}
		switch {
		case op.Via == "call" && tf != nil:
			switch op.K {
			case "reset":
				call = tf.Reset
			case "ins":
				call = func() { tf.InsertStringAtCursor(joined) }
			case "goto":
				call = func() { tf.CursorTo(uint(op.I)) }
			case "del":
				call = func() { tf.DeleteCharRightOfCursor() }
			case "bs":
				call = func() { tf.DeleteCharLeftOfCursor() }
			case "killeol":
				call = func() { tf.DeleteCursorToEndOfLine() }
			case "setval":
				// the application assigns the exported field (the way a TextField is
				// given a starting content)
				call = func() { tf.Value = joined }
			}
		case op.Via == "call" && ti != nil:
			switch op.K {
			case "set":
				call = func() { ti.SetContent(joined) }
			}
		}
		if op.K != "resize" && evsIn == nil && call == nil {
			return evs, "bad op " + op.K + "/" + op.Via
		}
		var pan string
		col := -1
		text := []int{}
		cur := -1
		ok := timed(func() {
			pan = guarded(func() {
				for _, e := range evsIn {
					if tf != nil {
						if _, err := tf.HandleEvent(e, vxfw.TargetPhase); err != nil {
							panic("HandleEvent error: " + err.Error())
						}
					} else {
						ti.Update(e)
					}
				}
				if call != nil {
					call()
				}
				// observe
				if tf != nil {
					text = loc.ids(segment(tf.Value))
					cur = tfCursor(tf)
					if c.Hangs.Load() < 4 {
						s, err := tf.Draw(vxfw.DrawContext{Max: vxfw.Size{Width: uint16(win), Height: 1}, Characters: vaxis.Characters})
						if err != nil {
							panic("Draw error: " + err.Error())
						}
						if s.Cursor != nil {
							col = int(s.Cursor.Col)
						}
					}
				} else {
					text = loc.ids(segment(ti.String()))
					cur = ti.CursorPosition()
					if c.Hangs.Load() < 4 {
						vx := wk.S.Vx
						vx.HideCursor()
						ti.Draw(vx.Window().New(0, 0, win, 1))
						if cc, _, vis := vx.VerifRequestedCursor(); vis {
							col = cc
						}
					}
				}
			})
		})
		if !ok {
			c.Hangs.Add(1)
			evs = append(evs, trace.Ev{"ev": "hang", "k": op.K, "w": win})
			return evs, "hang"
		}
		if pan != "" {
			evs = append(evs, trace.Ev{"ev": "panic", "k": op.K, "msg": ascii(pan)})
			return evs, "panic: " + pan
		}
		switch op.K {
		case "setval":
			unsynced = true
		case "noop", "resize":
		default:
			unsynced = false
		}
		if unsynced {
			// since the application assigned Value the widget was not given anything to
			// do (at most a key it does not bind): its cursor index is judged from the
			// next command on, the drawn cursor column at once
			cur = -1
		}
		dw := win
		if c.Hangs.Load() >= 4 {
			dw = -1 // draws are switched off after repeated hangs
		}
		ev["text"], ev["cur"], ev["chg"], ev["sub"], ev["w"], ev["col"], ev["pwin"] = text, cur, chg, sub, dw, col, prevWin
		evs = append(evs, ev)
		prevWin = win
		if c.Dump != nil {
			v := ""
			if tf != nil {
				v = tf.Value
			} else {
				v = ti.String()
			}
			c.Dump("%-9s %-5s %-10s gs=%q i=%d -> %q cur=%d w=%d col=%d chg=%d sub=%d\n", op.K, op.Via, op.Key, gs, op.I, v, cur, win, col, len(chg), len(sub))
		}
	}
	return evs, note
}

// ---- generators --------------------------------------------------------------------

// Alphabet: narrow letter, wide ideograph, decomposed accented letter (two
// code points), blank, hyphen, emoji with modifier (wide, two code points),
// flag (two regional indicators). No cluster merges with a neighbour.
// EAcute is the decomposed e-acute: one grapheme cluster of two code points.
const EAcute = "e\u0301"

var Alphabet = []string{"a", "世", EAcute, " ", "-", "👍🏽", "🇩🇪", "b", "7"}

func keyOp(widget, k string, alt int) Op {
	b := Bindings[widget][k]
	return Op{K: k, Via: "key", Key: b[alt%len(b)]}
}

func insOp(gs ...string) Op { return Op{K: "ins", Via: "key", Gs: gs} }

// Joins: a base typed as one key, then a key whose text extends that cluster
// (combining mark, emoji modifier, second regional indicator).
// (No lone regional indicator as a base: next to a flag it would regroup the
// neighbouring pairs, which the grapheme-level oracle does not describe.)
var Joins = [][2]string{{"e", "\u0301"}, {"👍", "🏽"}, {"a", "\u0308"}, {"世", "\u3099"}}

func joinOps(k int) []Op {
	j := Joins[k%len(Joins)]
	return []Op{insOp(j[0]), {K: "insjoin", Via: "key", Gs: []string{j[1]}, Base: j[0]}}
}

// pasteJoinOps: the base typed, then a paste that starts with the joining
// character followed by more graphemes.
func pasteJoinOps(k int, more ...string) []Op {
	j := Joins[k%len(Joins)]
	return []Op{insOp(j[0]), {K: "pastejoin", Via: "key", Gs: append([]string{j[1]}, more...), Base: j[0]}}
}

// DelJoins: two graphemes that stay apart while something stands between them and
// form one cluster when they become neighbours: two regional indicators, Hangul
// leading consonant and vowel, Hangul syllable and trailing consonant, an emoji
// followed by a zero width joiner and a second emoji.
var DelJoins = [][2]string{{"🇩", "🇪"}, {"\u1100", "\u1161"}, {"\uac00", "\u11a8"}, {"👩\u200d", "💻"}}

// delJoinOps types DelJoins[k] with one grapheme between the two and deletes
// that grapheme: how = "bs" (from behind it), "del" (from before it), "delword"
// (word deletion from behind it; textinput, pairs that are not letters).
func delJoinOps(widget string, k int, how string, alt int) []Op {
	j := DelJoins[k%len(DelJoins)]
	sep := []string{"a", "世", "7", " "}[alt%4]
	if how == "delword" {
		sep = []string{"a", "7", "b"}[alt%3]
	}
	ops := []Op{insOp(j[0]), insOp(sep), insOp(j[1]), keyOp(widget, "left", alt)}
	if how == "del" {
		ops = append(ops, keyOp(widget, "left", alt+1))
	}
	d := keyOp(widget, how, alt)
	d.Gs = []string{j[0], j[1]}
	return append(ops, d)
}

// delJoinHows: the deletions of delJoinOps a widget offers for DelJoins[k].
func delJoinHows(widget string, k int) []string {
	if widget == "textinput" && classOf(DelJoins[k%len(DelJoins)][0]) != 1 {
		return []string{"bs", "del", "delword"}
	}
	return []string{"bs", "del"}
}

// Ctls: control characters a paste may contain; on a legacy terminal the same
// bytes are the keys Enter, Ctrl+a, Ctrl+k, Ctrl+e, BackSpace (2x), Ctrl+d,
// Ctrl+u, Ctrl+w, Ctrl+b, Ctrl+f, which the widgets bind.
// (No LF: CR LF would be one cluster; no TAB: see notes, not judged.)
var Ctls = []string{"\r", "\x01", "\x0b", "\x05", "\x08", "\x7f", "\x04", "\x15", "\x17", "\x02", "\x06"}

// pasteCtlOp: a paste of gs with the control character Ctls[k] put at position at.
func pasteCtlOp(k, at int, gs ...string) Op {
	at %= len(gs) + 1
	out := append([]string{}, gs[:at]...)
	out = append(out, Ctls[k%len(Ctls)])
	out = append(out, gs[at:]...)
	return Op{K: "pastectl", Via: "key", Gs: out}
}

// BaseOps is the command alphabet of the bounded-exhaustive family.
func BaseOps(widget string, alt int) []Op {
	ops := []Op{insOp("a"), insOp("世"), insOp(EAcute), insOp(" ")}
	ks := []string{"left", "right", "home", "end", "bs", "del", "killeol"}
	if widget == "textfield" {
		ks = append(ks, "enter")
		ops = append(ops, pasteCtlOp(alt, 1, "b", "👍🏽"), Op{K: "setval", Via: "call", Gs: []string{"世"}})
	} else {
		ks = append(ks, "wordleft", "wordright", "killbol", "delword")
		ops = append(ops, Op{K: "paste", Via: "key", Gs: []string{"b", "👍🏽"}})
	}
	for _, k := range ks {
		ops = append(ops, keyOp(widget, k, alt))
	}
	return ops
}

// Starts: commands that establish a starting content and cursor.
func Starts(widget string) [][]Op {
	mk := func(gs []string, cur int) []Op {
		var o []Op
		if widget == "textfield" {
			o = append(o, Op{K: "ins", Via: "call", Gs: gs}, Op{K: "goto", Via: "call", I: cur})
		} else {
			o = append(o, Op{K: "set", Via: "call", Gs: gs})
			for i := len(gs); i > cur; i-- {
				o = append(o, keyOp(widget, "left", i))
			}
		}
		return o
	}
	return [][]Op{
		nil,
		mk([]string{"a", "世", EAcute}, 3),
		mk([]string{"a", "世", EAcute}, 1),
		mk([]string{"a", " ", "b"}, 0),
		mk([]string{EAcute, "-", " "}, 2),
	}
}

// ValueStarts: starting contents of a TextField given the way an application
// gives them, by assigning the exported Value: to a new field (cursor 0), and to
// a field whose cursor is beyond the end of the new text.
func ValueStarts() [][]Op {
	return [][]Op{
		{{K: "setval", Via: "call", Gs: []string{"a", "世", EAcute}}},
		{{K: "ins", Via: "call", Gs: []string{"a", "b", "7", "-"}}, {K: "setval", Via: "call", Gs: []string{"世", "a"}}},
	}
}

// assignedTwice: the history assigns Value twice with nothing between the two
// that the widget acts on. Not generated: the widget cannot know of the first
// assignment, and the statement does not say whether the cursor index it keeps
// is the one from before the first assignment or that index kept within the
// text assigned first.
func assignedTwice(ops []Op) bool {
	pending := false
	for _, op := range ops {
		switch op.K {
		case "setval":
			if pending {
				return true
			}
			pending = true
		case "noop", "resize":
		default:
			pending = false
		}
	}
	return false
}

var widths = []int{40, 40, 12, 9, 7, 6, 5, 4, 3, 2, 1, 0}

// Exhaustive: every command sequence of length n over BaseOps from every start.
func Exhaustive(widget string, n int) []*Scn {
	var out []*Scn
	cnt := 0
	starts := Starts(widget)
	if widget == "textfield" {
		starts = append(starts, ValueStarts()...)
	}
	for si, st := range starts {
		var rec func(prefix []Op)
		rec = func(prefix []Op) {
			if len(prefix) == n {
				cnt++
				sc := &Scn{Widget: widget, Gen: "exh", W: widths[cnt%len(widths)]}
				if widget == "textinput" && cnt%5 == 0 {
					sc.Prompt = "> "
				}
				sc.Ops = append(append([]Op(nil), st...), prefix...)
				if !assignedTwice(sc.Ops) {
					out = append(out, sc)
				}
				return
			}
			for _, op := range BaseOps(widget, cnt+si) {
				rec(append(append([]Op(nil), prefix...), op))
			}
		}
		rec(nil)
	}
	return out
}

// Prefixed: from every start, one of the two-stage inputs (a base and a
// character joining it, typed or pasted; a paste holding a control character;
// from two of the starts: two graphemes that join once the grapheme between
// them is deleted), followed by every command sequence of length 0..n over BaseOps.
func Prefixed(widget string, n int) []*Scn {
	var pres [][]Op
	for k := range Joins {
		pres = append(pres, joinOps(k), pasteJoinOps(k), pasteJoinOps(k, "b", "世"))
	}
	for k := range Ctls {
		pres = append(pres, []Op{pasteCtlOp(k, k, "a", EAcute)})
	}
	var djs [][]Op
	for k := range DelJoins {
		for _, how := range delJoinHows(widget, k) {
			djs = append(djs, delJoinOps(widget, k, how, len(djs)))
		}
	}
	var out []*Scn
	cnt := 0
	for si, st := range Starts(widget) {
		ps := pres
		if si == 0 || si == 2 {
			// a deletion that lets its two neighbours join: in an empty field and in the middle of a text
			ps = append(append([][]Op(nil), pres...), djs...)
		}
		for _, pre := range ps {
			var rec func(suffix []Op)
			rec = func(suffix []Op) {
				cnt++
				sc := &Scn{Widget: widget, Gen: "pre", W: widths[cnt%len(widths)]}
				if widget == "textinput" && cnt%5 == 0 {
					sc.Prompt = "> "
				}
				sc.Ops = append(append(append([]Op(nil), st...), pre...), suffix...)
				if !assignedTwice(sc.Ops) {
					out = append(out, sc)
				}
				if len(suffix) == n {
					return
				}
				for _, op := range BaseOps(widget, cnt+si) {
					rec(append(append([]Op(nil), suffix...), op))
				}
			}
			rec(nil)
		}
	}
	return out
}

// Random: a long history over the full command set, including method calls,
// unbound keys, key releases, pastes and window resizes.
func Random(rng *rand.Rand, widget string, n int) *Scn {
	sc := &Scn{Widget: widget, Gen: "rand", W: []int{60, 60, 30, 16, 10, 8}[rng.Intn(6)]}
	if widget == "textinput" && rng.Intn(3) == 0 {
		sc.Prompt = []string{"> ", "世: ", "$"}[rng.Intn(3)]
	}
	pick := func() string { return Alphabet[rng.Intn(len(Alphabet))] }
	some := func(max int) []string {
		var gs []string
		for k := 1 + rng.Intn(max); k > 0; k-- {
			gs = append(gs, pick())
		}
		return gs
	}
	for len(sc.Ops) < n {
		x := rng.Intn(100)
		switch {
		case x < 30:
			sc.Ops = append(sc.Ops, insOp(pick()))
		case x < 34:
			if rng.Intn(3) == 0 {
				op := pasteCtlOp(rng.Intn(len(Ctls)), rng.Intn(5), some(3)...)
				if rng.Intn(3) == 0 {
					op = pasteCtlOp(rng.Intn(len(Ctls)), rng.Intn(5), op.Gs...)
				}
				sc.Ops = append(sc.Ops, op)
			} else {
				sc.Ops = append(sc.Ops, Op{K: "paste", Via: "key", Gs: some(4)})
			}
		case x < 36:
			switch rng.Intn(3) {
			case 0:
				sc.Ops = append(sc.Ops, joinOps(rng.Intn(len(Joins)))...)
			case 1:
				sc.Ops = append(sc.Ops, pasteJoinOps(rng.Intn(len(Joins)))...)
			default:
				sc.Ops = append(sc.Ops, pasteJoinOps(rng.Intn(len(Joins)), some(2)...)...)
			}
		case x < 38:
			// at the end of the line (no neighbour the typed halves could join)
			k := rng.Intn(len(DelJoins))
			hows := delJoinHows(widget, k)
			sc.Ops = append(sc.Ops, keyOp(widget, "end", rng.Intn(2)))
			sc.Ops = append(sc.Ops, delJoinOps(widget, k, hows[rng.Intn(len(hows))], rng.Intn(12))...)
		case x < 85:
			var ks []string
			for k := range Bindings[widget] {
				ks = append(ks, k)
			}
			sortStrings(ks)
			k := ks[rng.Intn(len(ks))]
			if k == "enter" && rng.Intn(4) != 0 {
				k = "left"
			}
			sc.Ops = append(sc.Ops, keyOp(widget, k, rng.Intn(8)))
		case x < 87:
			sc.Ops = append(sc.Ops, Op{K: "noop", Via: "key", Key: "release"})
		case x < 90:
			sc.Ops = append(sc.Ops, Op{K: "resize", Via: "call", W: []int{0, 1, 2, 3, 4, 5, 6, 8, 10, 14, 20, 40, 80}[rng.Intn(13)]})
		default:
			if widget == "textfield" {
				switch rng.Intn(9) {
				case 7, 8:
					gs := some(4)
					if rng.Intn(4) == 0 {
						gs = []string{}
					}
					sc.Ops = append(sc.Ops, Op{K: "setval", Via: "call", Gs: gs})
					if assignedTwice(sc.Ops) {
						sc.Ops[len(sc.Ops)-1] = keyOp(widget, "left", rng.Intn(2))
					}
				case 0:
					sc.Ops = append(sc.Ops, Op{K: "reset", Via: "call"})
				case 1:
					sc.Ops = append(sc.Ops, Op{K: "ins", Via: "call", Gs: some(3)})
				case 2, 3:
					sc.Ops = append(sc.Ops, Op{K: "goto", Via: "call", I: rng.Intn(12)})
				case 4:
					sc.Ops = append(sc.Ops, Op{K: "del", Via: "call"})
				case 5:
					sc.Ops = append(sc.Ops, Op{K: "bs", Via: "call"})
				case 6:
					sc.Ops = append(sc.Ops, Op{K: "killeol", Via: "call"})
				}
			} else {
				gs := some(5)
				if rng.Intn(4) == 0 {
					gs = []string{}
				}
				sc.Ops = append(sc.Ops, Op{K: "set", Via: "call", Gs: gs})
			}
		}
	}
	return sc
}

func sortStrings(a []string) {
	for i := 1; i < len(a); i++ {
		for j := i; j > 0 && a[j] < a[j-1]; j-- {
			a[j], a[j-1] = a[j-1], a[j]
		}
	}
}

// Corners: hand-written histories.
func Corners() []*Scn {
	var out []*Scn
	add := func(widget string, w int, prompt string, ops ...Op) {
		out = append(out, &Scn{Widget: widget, Gen: "corner", W: w, Prompt: prompt, Ops: ops})
	}
	for _, wd := range []string{"textfield", "textinput"} {
		k := func(name string) Op { return keyOp(wd, name, 1) }
		// stale length after a deletion
		add(wd, 40, "", insOp("a"), insOp("b"), k("bs"), k("end"), k("left"), insOp("c"))
		add(wd, 40, "", insOp("a"), insOp("b"), k("home"), k("del"), k("end"), k("right"), k("left"), k("left"))
		add(wd, 40, "", insOp("a"), insOp("b"), insOp("c"), k("home"), k("right"), k("killeol"), k("end"), k("bs"), k("bs"), k("bs"))
		// motions at the ends
		add(wd, 40, "", k("left"), k("right"), k("home"), k("end"), k("bs"), k("del"), k("killeol"), insOp("世"), k("right"), k("right"), k("left"), k("left"), k("left"))
		// multi-codepoint and wide graphemes
		add(wd, 40, "", insOp("🇩🇪"), insOp("🇩🇪"), k("left"), insOp("🇩🇪"), k("bs"), k("del"), insOp("👍🏽"), k("home"), insOp(EAcute), k("del"))
		// window widths around the text width
		for w := 0; w <= 12; w++ {
			add(wd, w, "", insOp("a"), insOp("b"), insOp("c"), insOp("d"), insOp("e"), insOp("f"), k("home"), k("end"), k("left"))
		}
		// resize from narrow to wide and back
		add(wd, 6, "", insOp("a"), insOp("b"), insOp("c"), insOp("d"), insOp("e"), insOp("f"), insOp("g"), insOp("h"),
			Op{K: "resize", Via: "call", W: 40}, k("left"), Op{K: "resize", Via: "call", W: 6}, k("home"), Op{K: "resize", Via: "call", W: 40})
		add(wd, 40, "", Op{K: "noop", Via: "key", Key: "release"}, insOp("A"), insOp("Z"), k("noop"))
		// a character typed or pasted on its own that joins the cluster before the cursor
		for j := range Joins {
			add(wd, 40, "", append(joinOps(j), k("left"), insOp("b"), k("end"), k("bs"), k("bs"))...)
			add(wd, 40, "", append(append([]Op{insOp("a"), insOp("b"), k("left")}, pasteJoinOps(j, "7")...), k("left"), k("left"), k("del"), k("right"), insOp("-"))...)
		}
		// pasted text is text: a line break in it is not Enter, control bytes are not commands
		add(wd, 40, "", insOp("b"), insOp("7"), Op{K: "pastectl", Via: "key", Gs: []string{"a", "b", "\r", "世", "-"}}, k("left"), insOp("a"))
		add(wd, 40, "", insOp("b"), insOp("7"), Op{K: "pastectl", Via: "key", Gs: []string{"\x01", "\x0b", "a"}}, k("home"), k("del"))
		add(wd, 40, "", insOp("b"), insOp("7"), k("left"), Op{K: "pastectl", Via: "key", Gs: []string{"\x05", "a", "\x08", "\x7f"}}, insOp("-"))
		add(wd, 40, "", insOp("b"), insOp("7"), k("home"), Op{K: "pastectl", Via: "key", Gs: []string{"\x04", "\x06", "a", "\x15"}}, Op{K: "pastectl", Via: "key", Gs: []string{"\x17", "\x02"}}, insOp("-"))
	}
	for _, wd := range []string{"textfield", "textinput"} {
		// a deletion lets its two neighbours join; then motions, typing and deleting around the joined cluster
		for j := range DelJoins {
			for alt, how := range delJoinHows(wd, j) {
				k := func(name string) Op { return keyOp(wd, name, alt) }
				add(wd, 40, "", append(delJoinOps(wd, j, how, alt), insOp("b"), k("left"), k("left"), k("right"), k("right"), k("right"))...)
				add(wd, 40, "", append(delJoinOps(wd, j, how, alt+1), k("end"), k("bs"), k("end"), insOp("7"))...)
				add(wd, 30, "", append(append([]Op{insOp("a"), insOp("-"), k("left")}, delJoinOps(wd, j, how, alt+2)...), k("right"), k("bs"), k("home"), k("right"), k("right"), k("del"))...)
				add(wd, 40, "", append(delJoinOps(wd, j, how, alt+3), k("home"), k("del"), k("end"), k("left"), insOp("a"))...)
			}
		}
	}
	// the same text assigned as a whole and reached by a deletion behaves the same
	add("textinput", 30, "", Op{K: "set", Via: "call", Gs: []string{"🇩", "a", "🇪"}}, keyOp("textinput", "left", 1), Op{K: "bs", Via: "key", Key: "BackSpace", Gs: []string{"🇩", "🇪"}},
		keyOp("textinput", "end", 1), keyOp("textinput", "bs", 1), keyOp("textinput", "bs", 1))
	// a TextField whose content is assigned through its exported Value
	for alt := 0; alt < 2; alt++ {
		tk := func(name string) Op { return keyOp("textfield", name, alt) }
		val := func(gs ...string) Op { return Op{K: "setval", Via: "call", Gs: gs} }
		add("textfield", 40, "", val("h", "e", "l", "l", "o"), tk("end"), tk("right"), tk("home"), tk("del"), tk("killeol"))
		add("textfield", 40, "", val("a", "世", EAcute), tk("right"), tk("right"), tk("bs"), insOp("b"), tk("end"), tk("bs"))
		add("textfield", 40, "", val("a", "b", "7"), Op{K: "goto", Via: "call", I: 2}, Op{K: "del", Via: "call"}, val("世", "-", "a", "b"), Op{K: "goto", Via: "call", I: 9}, Op{K: "bs", Via: "call"}, Op{K: "killeol", Via: "call"})
		add("textfield", 40, "", insOp("a"), insOp("b"), insOp("7"), insOp("-"), val("世"), tk("bs"), tk("bs"), insOp("a"))
		add("textfield", 40, "", insOp("a"), insOp("b"), insOp("7"), insOp("-"), val("世", "a"), tk("noop"), tk("left"), insOp("b"), val(), tk("left"), tk("del"), insOp("a"))
		add("textfield", 40, "", insOp("a"), insOp("b"), insOp("7"), tk("left"), tk("left"), val(EAcute, "-", " ", "b", "世"), tk("killeol"), val("a", "b"), tk("end"), tk("enter"), val("7"), tk("right"), tk("bs"))
		add("textfield", 40, "", insOp("a"), insOp("b"), insOp("7"), val("a"), Op{K: "ins", Via: "call", Gs: []string{"世"}}, val("a", "b"), Op{K: "pastectl", Via: "key", Gs: []string{"7", "\r", "-"}}, tk("left"), tk("left"), tk("left"), tk("left"))
	}
	ti := "textinput"
	k := func(name string, alt int) Op { return keyOp(ti, name, alt) }
	set := func(s string) Op { return Op{K: "set", Via: "call", Gs: segment(s)} }
	for alt := 0; alt < 2; alt++ {
		add(ti, 60, "", set("foo bar-baz  qux"), k("wordleft", alt), k("wordleft", alt), k("wordleft", alt), k("wordleft", alt), k("wordleft", alt), k("wordleft", alt),
			k("wordright", alt), k("wordright", alt), k("wordright", alt), k("wordright", alt), k("wordright", alt))
		add(ti, 60, "", set("nai\u0308ve cafe\u0301 世界 x"), k("wordleft", alt), k("wordleft", alt), k("wordleft", alt), k("wordleft", alt), k("home", 0), k("wordright", alt), k("wordright", alt), k("wordright", alt))
		add(ti, 60, "", set("  --  "), k("wordleft", alt), k("end", 0), k("delword", 0), set("a  "), k("delword", 0), set("a-b c"), k("delword", 0), k("delword", 0), k("delword", 0))
	}
	add(ti, 60, "> ", set("hello"), k("killbol", 0), set("hello"), k("home", 0), k("killbol", 0), k("killeol", 0), k("delword", 0), k("wordleft", 0), k("wordright", 0))
	add(ti, 60, "", Op{K: "paste", Via: "key", Gs: segment("pa\u0308ste 世")}, k("left", 0), Op{K: "paste", Via: "key", Gs: []string{"🇩🇪"}}, k("home", 0), Op{K: "paste", Via: "key", Gs: []string{}})
	// what a submit leaves behind: Enter on a non-empty line, then motions to the end of the (now
	// empty) field, then edits (seeded change C17c: the cached count survived the submit)
	tf := "textfield"
	for alt := 0; alt < 2; alt++ {
		tk := func(name string) Op { return keyOp(tf, name, alt) }
		add(tf, 40, "", insOp("a"), insOp("b"), insOp("c"), tk("enter"), tk("end"), insOp("世"), tk("left"), insOp("b"), tk("end"), tk("bs"))
		add(tf, 40, "", insOp("a"), insOp(EAcute), insOp("c"), tk("enter"), tk("right"), tk("right"), tk("bs"), insOp("a"), tk("home"), insOp("b"))
		add(tf, 40, "", insOp("a"), insOp("b"), tk("enter"), tk("end"), tk("del"), tk("killeol"), tk("left"), insOp("a"), insOp("b"), tk("left"), tk("killeol"))
		add(tf, 40, "", insOp("a"), insOp("b"), insOp("c"), tk("enter"), Op{K: "goto", Via: "call", I: 2}, Op{K: "ins", Via: "call", Gs: []string{"x", "y"}}, tk("left"), Op{K: "bs", Via: "call"},
			tk("enter"), tk("end"), Op{K: "pastectl", Via: "key", Gs: []string{"a", "\r", "b"}}, tk("left"), insOp("7"))
	}
	add("textfield", 40, "", insOp("a"), keyOp("textfield", "enter", 0), keyOp("textfield", "enter", 0), insOp("b"), Op{K: "reset", Via: "call"}, Op{K: "ins", Via: "call", Gs: []string{"x", "y"}},
		Op{K: "goto", Via: "call", I: 1}, Op{K: "del", Via: "call"}, Op{K: "goto", Via: "call", I: 9}, Op{K: "bs", Via: "call"}, Op{K: "killeol", Via: "call"}, Op{K: "goto", Via: "call", I: 0}, Op{K: "killeol", Via: "call"})
	return out
}
