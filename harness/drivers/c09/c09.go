// Package c09 injects key reports (legacy bytes, C0, ESC-prefixed, SS3 incl.
// the application keypad, CSI letter, CSI ~, CSI u; alone or several back to
// back in one read) through a fake console into a real Vaxis, reads the
// resulting Key events from Events() and records what the library says about
// them (decoded fields, Matches, MatchString, String). The driver never
// computes an expectation: specs/keys/KeyCodec_Trace.tla decides.
package c09

import (
	"fmt"
	"strings"
	"sync/atomic"
	"time"
	"unicode/utf8"

	"git.sr.ht/~rockorager/vaxis"

	kc "verif/harness/keycodec"
	"verif/harness/responder"
	"verif/harness/sess"
	"verif/harness/trace"
)

// ---- replay descriptor -------------------------------------------------

// Probe asks Key.Matches(BK, m) for every m in BMs (All: all 256 masks).
type Probe struct {
	BK  int
	BMs []int `json:",omitempty"`
	All bool  `json:",omitempty"`
}

// SProbe asks Key.MatchString of the binding string built from (BK, BM) in
// the given Form (see bindingString).
type SProbe struct {
	BK   int
	BM   int
	Form string
}

type Item struct {
	Enc kc.Enc
	// Then: further reports injected in the same chunk right behind Enc (before
	// the sentinel): every report must be decoded on its own, none may take
	// bytes of its neighbour.
	Then    []kc.Enc `json:",omitempty"`
	Probes  []Probe  `json:",omitempty"`
	SProbes []SProbe `json:",omitempty"`
	Self    bool     `json:",omitempty"`
}

// XP is one chord under several encodings; (BKs[i], BMs[i]) are the bindings
// tried on each of them, Rels[i] says how the generator derived the binding.
type XP struct {
	Key  int
	Mods int
	Encs []kc.Enc
	BKs  []int
	BMs  []int
	Rels []string
}

type Scn struct {
	Kind  string
	Kitty bool
	Items []Item `json:",omitempty"`
	XPs   []XP   `json:",omitempty"`
}

// ---- binding between the library's public vocabulary and the oracle's ----

var fkOfLib = map[rune]string{
	vaxis.KeyInsert: "INSERT", vaxis.KeyDelete: "DELETE", vaxis.KeyLeft: "LEFT", vaxis.KeyRight: "RIGHT",
	vaxis.KeyUp: "UP", vaxis.KeyDown: "DOWN", vaxis.KeyPgUp: "PAGE_UP", vaxis.KeyPgDown: "PAGE_DOWN",
	vaxis.KeyHome: "HOME", vaxis.KeyEnd: "END",
	vaxis.KeyF00: "F0", vaxis.KeyF01: "F1", vaxis.KeyF02: "F2", vaxis.KeyF03: "F3", vaxis.KeyF04: "F4", vaxis.KeyF05: "F5",
	vaxis.KeyF06: "F6", vaxis.KeyF07: "F7", vaxis.KeyF08: "F8", vaxis.KeyF09: "F9", vaxis.KeyF10: "F10",
	vaxis.KeyF11: "F11", vaxis.KeyF12: "F12", vaxis.KeyF13: "F13", vaxis.KeyF14: "F14", vaxis.KeyF15: "F15",
	vaxis.KeyF16: "F16", vaxis.KeyF17: "F17", vaxis.KeyF18: "F18", vaxis.KeyF19: "F19", vaxis.KeyF20: "F20",
	vaxis.KeyF21: "F21", vaxis.KeyF22: "F22", vaxis.KeyF23: "F23", vaxis.KeyF24: "F24", vaxis.KeyF25: "F25",
	vaxis.KeyF26: "F26", vaxis.KeyF27: "F27", vaxis.KeyF28: "F28", vaxis.KeyF29: "F29", vaxis.KeyF30: "F30",
	vaxis.KeyF31: "F31", vaxis.KeyF32: "F32", vaxis.KeyF33: "F33", vaxis.KeyF34: "F34", vaxis.KeyF35: "F35",
	vaxis.KeyF36: "F36", vaxis.KeyF37: "F37", vaxis.KeyF38: "F38", vaxis.KeyF39: "F39", vaxis.KeyF40: "F40",
	vaxis.KeyF41: "F41", vaxis.KeyF42: "F42", vaxis.KeyF43: "F43", vaxis.KeyF44: "F44", vaxis.KeyF45: "F45",
	vaxis.KeyF46: "F46", vaxis.KeyF47: "F47", vaxis.KeyF48: "F48", vaxis.KeyF49: "F49", vaxis.KeyF50: "F50",
	vaxis.KeyF51: "F51", vaxis.KeyF52: "F52", vaxis.KeyF53: "F53", vaxis.KeyF54: "F54", vaxis.KeyF55: "F55",
	vaxis.KeyF56: "F56", vaxis.KeyF57: "F57", vaxis.KeyF58: "F58", vaxis.KeyF59: "F59", vaxis.KeyF60: "F60",
	vaxis.KeyF61: "F61", vaxis.KeyF62: "F62", vaxis.KeyF63: "F63",
	vaxis.KeyClear: "CLEAR", vaxis.KeyDownLeft: "DOWN_LEFT", vaxis.KeyDownRight: "DOWN_RIGHT",
	vaxis.KeyUpLeft: "UP_LEFT", vaxis.KeyUpRight: "UP_RIGHT", vaxis.KeyCenter: "CENTER", vaxis.KeyBegin: "BEGIN",
	vaxis.KeyCancel: "CANCEL", vaxis.KeyClose: "CLOSE", vaxis.KeyCommand: "COMMAND", vaxis.KeyCopy: "COPY",
	vaxis.KeyExit: "EXIT", vaxis.KeyPrint: "PRINT", vaxis.KeyRefresh: "REFRESH",
	vaxis.KeyCapsLock: "CAPS_LOCK", vaxis.KeyScrollLock: "SCROLL_LOCK", vaxis.KeyNumlock: "NUM_LOCK",
	vaxis.KeyPrintScreen: "PRINT_SCREEN", vaxis.KeyPause: "PAUSE", vaxis.KeyMenu: "MENU",
	vaxis.KeyMediaPlay: "MEDIA_PLAY", vaxis.KeyMediaPause: "MEDIA_PAUSE", vaxis.KeyMediaPlayPause: "MEDIA_PLAY_PAUSE",
	vaxis.KeyMediaRev: "MEDIA_REVERSE", vaxis.KeyMediaStop: "MEDIA_STOP", vaxis.KeyMediaFF: "MEDIA_FAST_FORWARD",
	vaxis.KeyMediaRewind: "MEDIA_REWIND", vaxis.KeyMediaNext: "MEDIA_TRACK_NEXT", vaxis.KeyMediaPrev: "MEDIA_TRACK_PREVIOUS",
	vaxis.KeyMediaRecord: "MEDIA_RECORD", vaxis.KeyMediaVolDown: "LOWER_VOLUME", vaxis.KeyMediaVolUp: "RAISE_VOLUME",
	vaxis.KeyMediaMute: "MUTE_VOLUME",
	vaxis.KeyLeftShift: "LEFT_SHIFT", vaxis.KeyLeftControl: "LEFT_CONTROL", vaxis.KeyLeftAlt: "LEFT_ALT",
	vaxis.KeyLeftSuper: "LEFT_SUPER", vaxis.KeyLeftHyper: "LEFT_HYPER", vaxis.KeyLeftMeta: "LEFT_META",
	vaxis.KeyRightShift: "RIGHT_SHIFT", vaxis.KeyRightControl: "RIGHT_CONTROL", vaxis.KeyRightAlt: "RIGHT_ALT",
	vaxis.KeyRightSuper: "RIGHT_SUPER", vaxis.KeyRightHyper: "RIGHT_HYPER", vaxis.KeyRightMeta: "RIGHT_META",
	vaxis.KeyL3Shift: "ISO_LEVEL3_SHIFT", vaxis.KeyL5Shift: "ISO_LEVEL5_SHIFT",
	vaxis.KeyKeyPad0: "KP_0", vaxis.KeyKeyPad1: "KP_1", vaxis.KeyKeyPad2: "KP_2", vaxis.KeyKeyPad3: "KP_3",
	vaxis.KeyKeyPad4: "KP_4", vaxis.KeyKeyPad5: "KP_5", vaxis.KeyKeyPad6: "KP_6", vaxis.KeyKeyPad7: "KP_7",
	vaxis.KeyKeyPad8: "KP_8", vaxis.KeyKeyPad9: "KP_9", vaxis.KeyKeyPadDecimal: "KP_DECIMAL",
	vaxis.KeyKeyPadDivide: "KP_DIVIDE", vaxis.KeyKeyPadMultiply: "KP_MULTIPLY", vaxis.KeyKeyPadSubtract: "KP_SUBTRACT",
	vaxis.KeyKeyPadAdd: "KP_ADD", vaxis.KeyKeyPadEnter: "KP_ENTER", vaxis.KeyKeyPadEqual: "KP_EQUAL",
	vaxis.KeyKeyPadSeparator: "KP_SEPARATOR", vaxis.KeyKeyPadLeft: "KP_LEFT", vaxis.KeyKeyPadRight: "KP_RIGHT",
	vaxis.KeyKeyPadUp: "KP_UP", vaxis.KeyKeyPadDown: "KP_DOWN", vaxis.KeyKeyPadPageUp: "KP_PAGE_UP",
	vaxis.KeyKeyPadPageDown: "KP_PAGE_DOWN", vaxis.KeyKeyPadHome: "KP_HOME", vaxis.KeyKeyPadEnd: "KP_END",
	vaxis.KeyKeyPadInsert: "KP_INSERT", vaxis.KeyKeyPadDelete: "KP_DELETE", vaxis.KeyKeyPadBegin: "KP_BEGIN",
}

var libOfFK = func() map[int]rune {
	m := map[int]rune{}
	for r, n := range fkOfLib {
		id := kc.FK(n)
		if _, dup := m[id]; dup {
			panic("two library keys for " + n)
		}
		m[id] = r
	}
	return m
}()

var modPairs = []struct {
	lib vaxis.ModifierMask
	bit int
}{{vaxis.ModShift, kc.Shift}, {vaxis.ModAlt, kc.Alt}, {vaxis.ModCtrl, kc.Ctrl}, {vaxis.ModSuper, kc.Super},
	{vaxis.ModHyper, kc.Hyper}, {vaxis.ModMeta, kc.Meta}, {vaxis.ModCapsLock, kc.Caps}, {vaxis.ModNumLock, kc.Num}}

// AbsKey maps a library key code to the oracle's identity (-2: a value
// outside Unicode that is none of the library's named keys).
func AbsKey(r rune) int {
	if r <= utf8.MaxRune {
		return int(r)
	}
	if n, ok := fkOfLib[r]; ok {
		return kc.FK(n)
	}
	return -2
}

// LibKey is the inverse of AbsKey on the oracle's identities.
func LibKey(k int) rune {
	if k < kc.FKBase {
		return rune(k)
	}
	r, ok := libOfFK[k]
	if !ok {
		panic(fmt.Sprintf("no library key for identity %d", k))
	}
	return r
}

func AbsMods(m vaxis.ModifierMask) int {
	n := 0
	rest := m
	for _, p := range modPairs {
		if m&p.lib != 0 {
			n |= p.bit
			rest &^= p.lib
		}
	}
	if rest != 0 {
		return -1 - n // bits outside the documented eight: never an expected value
	}
	return n
}

func LibMods(n int) vaxis.ModifierMask {
	var m vaxis.ModifierMask
	for _, p := range modPairs {
		if n&p.bit != 0 {
			m |= p.lib
		}
	}
	return m
}

func absType(t vaxis.EventType) int {
	switch t {
	case vaxis.EventPress:
		return 1
	case vaxis.EventRepeat:
		return 2
	case vaxis.EventRelease:
		return 3
	}
	return 100 + int(t)
}

func cpsOf(s string) []int {
	out := []int{}
	for _, r := range s {
		out = append(out, int(r))
	}
	return out
}

func absKeyRec(k vaxis.Key) map[string]any {
	return map[string]any{"code": AbsKey(k.Keycode), "sh": int(k.ShiftedCode), "base": int(k.BaseLayoutCode),
		"mods": AbsMods(k.Modifiers), "type": absType(k.EventType), "text": cpsOf(k.Text)}
}

// ascii renders a string for reports (TLC's Json module is ASCII only).
func ascii(s string) string {
	var sb strings.Builder
	for _, r := range s {
		if r >= 0x20 && r < 0x7f && r != '"' && r != '\\' {
			sb.WriteRune(r)
		} else {
			fmt.Fprintf(&sb, "{%X}", r)
		}
	}
	return sb.String()
}

// ---- binding strings -----------------------------------------------------

// modName is the name String() prints for one modifier bit ("" if it
// prints none): the vocabulary of binding strings is the vocabulary of
// descriptions.
func modName(bit int) string {
	s := vaxis.Key{Keycode: 'a', Modifiers: LibMods(bit)}.String()
	s = strings.TrimSuffix(s, "a")
	return strings.TrimSuffix(s, "+")
}

// printOrder: the order in which String() lists modifiers.
var printOrder = []int{kc.Meta, kc.Hyper, kc.Super, kc.Ctrl, kc.Alt, kc.Shift}

// keyName is how a binding string names the key: the description of the
// bare key for functional keys and for code points that String() names,
// the character itself otherwise.
func keyName(bk int) (name string, class string) {
	if bk >= kc.FKBase {
		return vaxis.Key{Keycode: LibKey(bk)}.String(), "fk"
	}
	switch bk {
	case 9, 13, 27, 127, 32:
		return vaxis.Key{Keycode: rune(bk)}.String(), "named-cp"
	}
	return string(rune(bk)), "char"
}

func flipCase(s string) string {
	var sb strings.Builder
	for i, r := range s {
		if i%2 == 0 {
			sb.WriteString(strings.ToUpper(string(r)))
		} else {
			sb.WriteString(strings.ToLower(string(r)))
		}
	}
	return sb.String()
}

// bindingString builds "<mod>+<mod>+<key>". Forms: canon (as String()
// prints), lower / upper / mixed (modifier case), rev (reverse order), keyalt
// (the key's name in another case - names only; the character for named code
// points). ok=false when a modifier of bm has no name.
func bindingString(bk, bm int, form string) (s string, names string, class string, ok bool) {
	var mods []string
	for _, b := range printOrder {
		if bm&b != 0 {
			n := modName(b)
			if n == "" {
				return "", "", "", false
			}
			mods = append(mods, n)
		}
	}
	if bm&^63 != 0 {
		return "", "", "", false
	}
	names = strings.Join(mods, "+")
	key, class := keyName(bk)
	if key == "" {
		return "", "", "", false
	}
	switch form {
	case "lower":
		for i := range mods {
			mods[i] = strings.ToLower(mods[i])
		}
	case "upper":
		for i := range mods {
			mods[i] = strings.ToUpper(mods[i])
		}
	case "mixed":
		for i := range mods {
			mods[i] = flipCase(mods[i])
		}
	case "rev":
		for i, j := 0, len(mods)-1; i < j; i, j = i+1, j-1 {
			mods[i], mods[j] = mods[j], mods[i]
		}
	case "keyalt":
		switch class {
		case "fk":
			key = flipCase(key)
		case "named-cp":
			key = string(rune(bk))
		}
	}
	return strings.Join(append(mods, key), "+"), names, class, true
}

// ---- executor -------------------------------------------------------------

type Ctx struct {
	S    *trace.Interner // String() results
	Dump func(format string, a ...any)
	// measured volume (atomic)
	NKeys, NMatch, NMStr, NSelf, NXP, NXPMatch, NRetry, NRestart int64
}

func (c *Ctx) dump(format string, a ...any) {
	if c.Dump != nil {
		c.Dump(format, a...)
	}
}

const (
	sentKey  = 0xF0000
	sentText = "\U000F0001"
)

var sentinel = []byte(fmt.Sprintf("\x1b[%d;1:1;%du", sentKey, 0xF0001))

func isSentinel(k vaxis.Key) bool { return k.Keycode == sentKey && k.Text == sentText }

type runner struct {
	s    *sess.S
	ctx  *Ctx
	dead string
}

// once injects one report followed by the sentinel and returns the Key
// events (and the number of other events) delivered before the sentinel;
// ok=false when the sentinel did not arrive within the bound.
func (r *runner) once(e kc.Enc, then ...kc.Enc) (keys []vaxis.Key, other int, ok bool) {
	b := e.Bytes()
	for _, t := range then {
		b = append(b, t.Bytes()...)
	}
	if len(b) == 1 && b[0] == 0x1b {
		// a lone ESC is told from an escape sequence by a timer: deliver it
		// alone and wait for the event before the sentinel follows
		r.s.Con.Inject(b)
		select {
		case ev := <-r.s.Vx.Events():
			if k, ok := ev.(vaxis.Key); ok {
				keys = append(keys, k)
			} else {
				other++
			}
		case <-time.After(3 * time.Second):
		}
		r.s.Con.Inject(sentinel)
	} else {
		r.s.Con.Inject(append(append([]byte{}, b...), sentinel...))
	}
	to := time.After(3 * time.Second)
	for {
		select {
		case ev := <-r.s.Vx.Events():
			if k, ok := ev.(vaxis.Key); ok {
				if isSentinel(k) {
					return keys, other, true
				}
				keys = append(keys, k)
			} else {
				other++
			}
		case <-to:
			return keys, other, false
		}
	}
}

func sameKeys(a, b []vaxis.Key) bool {
	if len(a) != len(b) {
		return false
	}
	for i := range a {
		if a[i] != b[i] {
			return false
		}
	}
	return true
}

// roundTrip is once, repeated when the outcome is not exactly one key event per report:
// the parser tells a lone ESC from an escape sequence by a 10 ms timer, so
// on a starved machine a report can be torn apart (that race is the business
// of C08/C10). An outcome is recorded when it is normal or when it
// reproduces; r.dead is set when the session no longer answers.
func (r *runner) roundTrip(e kc.Enc, then ...kc.Enc) (keys []vaxis.Key, other int) {
	var pk []vaxis.Key
	po := -1
	for attempt := 0; attempt < 4; attempt++ {
		k, o, ok := r.once(e, then...)
		if ok && len(k) == 1+len(then) && o == 0 {
			return k, o
		}
		if ok && po == o && sameKeys(pk, k) {
			return k, o
		}
		atomic.AddInt64(&r.ctx.NRetry, 1)
		if !ok {
			// resynchronise: the sentinel itself may have been torn
			if _, _, ok2 := r.once(kc.Enc{K: "char", Cps: []int{'x'}}); !ok2 {
				r.dead = "timeout waiting for the sentinel after " + e.String()
				return k, o
			}
			pk, po = nil, -1
			continue
		}
		pk, po = k, o
	}
	return pk, po
}

func matchVec(k vaxis.Key, bk int, bms []int) []bool {
	out := make([]bool, len(bms))
	lk := LibKey(bk)
	for i, m := range bms {
		out[i] = k.Matches(lk, LibMods(m))
	}
	return out
}

var allMasks = func() []int {
	a := make([]int, 256)
	for i := range a {
		a[i] = i
	}
	return a
}()

func selfClass(k vaxis.Key, desc string) string {
	a := AbsKey(k.Keycode)
	var kcN, extra string
	switch {
	case a >= kc.FKBase:
		kcN = "fk"
		extra = "key-" + kc.FKeyNames[a-kc.FKBase-1]
		if desc == "" || strings.HasSuffix(desc, "+") {
			kcN, extra = "fk-unnamed", "" // the description names no key
		}
	case a == '+':
		kcN = "plus"
	case a == ' ':
		kcN = "space"
	case a < 0x20 || a == 0x7f:
		kcN = fmt.Sprintf("ctl%d", a)
	case a < 0x80:
		f := kc.FactOf(a)
		switch {
		case f.L:
			kcN = "letter"
		default:
			kcN = "graphic"
		}
	default:
		kcN = "nonascii"
	}
	var ms []string
	m := AbsMods(k.Modifiers)
	for i, n := range []string{"shift", "alt", "ctrl", "super", "hyper", "meta", "caps", "num"} {
		if m >= 0 && m&(1<<i) != 0 {
			ms = append(ms, n)
		}
	}
	txt := "notext"
	if k.Text != "" {
		txt = "text"
	}
	if extra != "" {
		ms = append(ms, extra)
	}
	return kcN + ":" + strings.Join(ms, "+") + ":" + txt
}

// Run executes a scenario against the real library and returns its events.
func Run(ctx *Ctx, sc *Scn) (evs []trace.Ev, note string) {
	evs = append(evs, trace.Ev{"ev": "reset", "fkeys": kc.FKeyNames, "item": 0})
	item := 0
	defer func() {
		if r := recover(); r != nil {
			note = fmt.Sprintf("panic: %v", r)
			evs = append(evs, trace.Ev{"ev": "panic", "msg": ascii(fmt.Sprint(r)), "item": item})
		}
	}()
	// Start a session and check that it delivers input. A session can be
	// wedged by start-up itself (Vaxis.New probes the cursor position with a
	// 50 ms time-out; a reply that arrives later blocks the input goroutine
	// for good - C03's subject, seen on a starved machine): try afresh.
	var r *runner
	for try := 0; try < 4; try++ {
		s, err := sess.Start(sess.Config{Caps: responder.Caps{KittyKeyboard: sc.Kitty, CursorStyle: 2}, Cols: 20, Rows: 4})
		if err != nil {
			if try < 3 {
				continue
			}
			return append(evs, trace.Ev{"ev": "panic", "msg": "start: " + ascii(err.Error()), "item": 0}), "start: " + err.Error()
		}
		// End the session by end of input (the parser and the input goroutine
		// return on EOF). Vaxis.Close is not used: it races the parser's ESC
		// timer against its own DA1 query (send on closed channel), which is
		// C10's subject and would kill the driver on a loaded machine.
		defer s.Con.Close()
		r = &runner{s: s, ctx: ctx}
		alive := false
		for attempt := 0; attempt < 2 && !alive; attempt++ {
			// also flushes whatever start-up left in the queue
			_, _, alive = r.once(kc.Enc{K: "char", Cps: []int{'x'}})
		}
		if alive {
			break
		}
		atomic.AddInt64(&ctx.NRestart, 1)
		r.dead = "the session does not deliver input"
	}
	if r.dead != "" {
		return append(evs, trace.Ev{"ev": "panic", "msg": ascii(r.dead), "item": 0}), r.dead
	}

	decode := func(e kc.Enc, then ...kc.Enc) (trace.Ev, []vaxis.Key) {
		e = e.Norm()
		cps := e.CodePoints()
		thenN := []kc.Enc{}
		for _, t := range then {
			thenN = append(thenN, t.Norm())
			cps = append(cps, t.CodePoints()...)
		}
		keys, other := r.roundTrip(e, thenN...)
		got := []any{}
		for _, k := range keys {
			got = append(got, absKeyRec(k))
		}
		ctx.dump("item %d %s then %v -> %+v other=%d\n", item, e, thenN, keys, other)
		atomic.AddInt64(&ctx.NKeys, int64(1+len(then)))
		return trace.Ev{"ev": "key", "item": item, "enc": e, "then": thenN, "facts": kc.Facts(cps...), "got": got, "other": other}, keys
	}

	for _, it := range sc.Items {
		ev, keys := decode(it.Enc, it.Then...)
		evs = append(evs, ev)
		if r.dead != "" {
			evs = append(evs, trace.Ev{"ev": "panic", "msg": ascii(r.dead), "item": item})
			return evs, r.dead
		}
		if len(keys) == 1 && len(it.Then) == 0 {
			k := keys[0]
			for _, p := range it.Probes {
				bms := p.BMs
				if p.All {
					bms = allMasks
				}
				atomic.AddInt64(&ctx.NMatch, int64(len(bms)))
				evs = append(evs, trace.Ev{"ev": "match", "item": item, "bk": p.BK, "bms": bms,
					"res": matchVec(k, p.BK, bms), "facts": kc.Facts(p.BK)})
			}
			for _, p := range it.SProbes {
				str, names, class, ok := bindingString(p.BK, p.BM, p.Form)
				if !ok {
					continue
				}
				res := k.MatchString(str)
				atomic.AddInt64(&ctx.NMStr, 1)
				ctx.dump("   MatchString(%q) = %v\n", str, res)
				evs = append(evs, trace.Ev{"ev": "mstr", "item": item, "bk": p.BK, "bm": p.BM, "form": p.Form,
					"bkclass": class, "modnames": names, "res": res, "facts": kc.Facts(p.BK), "str": ascii(str)})
			}
			if it.Self {
				str := k.String()
				res := k.MatchString(str)
				atomic.AddInt64(&ctx.NSelf, 1)
				ctx.dump("   String() = %q, MatchString(it) = %v\n", str, res)
				evs = append(evs, trace.Ev{"ev": "self", "item": item, "sid": ctx.S.ID(str), "str": ascii(str),
					"res": res, "cls": selfClass(k, str)})
			}
		}
		item++
	}
	for _, xp := range sc.XPs {
		sids, strs, res := []int{}, []string{}, [][]bool{}
		var cps []int
		complete := true
		for _, e := range xp.Encs {
			ev, keys := decode(e)
			evs = append(evs, ev)
			if r.dead != "" {
				evs = append(evs, trace.Ev{"ev": "panic", "msg": ascii(r.dead), "item": item})
				return evs, r.dead
			}
			cps = append(cps, e.CodePoints()...)
			if len(keys) != 1 {
				complete = false
				continue
			}
			k := keys[0]
			str := k.String()
			sids = append(sids, ctx.S.ID(str))
			strs = append(strs, ascii(str))
			v := make([]bool, len(xp.BKs))
			for i := range xp.BKs {
				v[i] = k.Matches(LibKey(xp.BKs[i]), LibMods(xp.BMs[i]))
			}
			res = append(res, v)
		}
		if complete {
			encs := []kc.Enc{}
			for _, e := range xp.Encs {
				encs = append(encs, e.Norm())
			}
			atomic.AddInt64(&ctx.NXP, 1)
			atomic.AddInt64(&ctx.NXPMatch, int64(len(xp.Encs)*len(xp.BKs)))
			evs = append(evs, trace.Ev{"ev": "xp", "item": item, "chord": map[string]int{"key": xp.Key, "mods": xp.Mods},
				"encs": encs, "sids": sids, "strs": strs, "res": res, "bks": xp.BKs, "bms": xp.BMs, "rels": xp.Rels,
				"facts": kc.Facts(cps...)})
		}
		item++
	}
	return evs, ""
}
