package c09

import (
	"math/rand"
	"unicode"

	kc "verif/harness/keycodec"
)

// ---- key samples -----------------------------------------------------------

// Samples is the fixed sample of non-ASCII code points: cased letters of
// several scripts (BMP and astral, with and without a case partner),
// title-case digraphs, uncased letters, digits, symbols, spaces, format
// characters, marks, private use and non-characters.
func Samples() []int {
	var out []int
	add := func(cs ...int) { out = append(out, cs...) }
	run := func(from, n, step int) {
		for i := 0; i < n; i++ {
			add(from + i*step)
		}
	}
	add(0x85, 0xA0, 0xA1, 0xA7, 0xA9, 0xAB, 0xAD, 0xB5, 0xBB, 0xBF, 0xD7, 0xF7, 0xDF, 0xFF, 0x178)
	run(0xC0, 6, 5)   // À Å Ê Ï Ô Ù
	run(0xE0, 6, 5)   // à å ê ï ô ù
	run(0x100, 8, 1)  // Ā ā Ă ă ...
	add(0x130, 0x131) // İ ı
	add(0x1C4, 0x1C5, 0x1C6, 0x1F1, 0x1F2, 0x1F3)
	run(0x391, 6, 4) // Greek capitals
	run(0x3B1, 6, 4) // Greek small
	add(0x3C2, 0x3C3, 0x3A3, 0x3D2, 0x3F4)
	run(0x410, 8, 4)  // Cyrillic capitals
	run(0x430, 8, 4)  // Cyrillic small
	add(0x401, 0x451) // Ё ё
	add(0x444, 0x424) // ф Ф
	run(0x531, 4, 9)  // Armenian capitals
	run(0x561, 4, 9)  // Armenian small
	run(0x10D0, 3, 7) // Georgian Mkhedruli
	run(0x1C90, 3, 7) // Georgian Mtavruli
	run(0x13A0, 3, 11)
	run(0xAB70, 3, 11) // Cherokee
	add(0x1E9E, 0x2126, 0x212A, 0x212B)
	run(0x10400, 3, 13)
	run(0x10428, 3, 13)   // Deseret
	add(0x1E900, 0x1E922) // Adlam
	add(0x1D400, 0x1D41A) // mathematical bold A a (cased, no partner)
	add(0xFF21, 0xFF41, 0xFF11)
	add(0x5D0, 0x5E9, 0x627, 0x628, 0x633, 0x905, 0x915, 0xE01, 0xE2A)
	add(0x3042, 0x30A2, 0x4E2D, 0x65E5, 0xAC00, 0xD55C)
	add(0x663, 0x6F3, 0x966, 0x96F)
	add(0x20AC, 0xA3, 0x2192, 0x2211, 0x2665, 0x2014, 0x201C, 0x201D, 0x2026, 0x2030)
	add(0x2003, 0x3000, 0x200B, 0x200D, 0x2028, 0xFEFF)
	add(0x301, 0x308, 0x20E3, 0xFE0F)
	add(0x1F600, 0x1F1E9, 0x1F468, 0x1F3FD)
	add(0xF0002, 0x100000, 0xFFFE, 0x10FFFF, 0xFDD0)
	seen := map[int]bool{}
	var uniq []int
	for _, c := range out {
		if !seen[c] {
			seen[c] = true
			uniq = append(uniq, c)
		}
	}
	return uniq
}

// Clusters are multi-code-point grapheme clusters typed as text.
var Clusters = [][]int{
	{'e', 0x301}, {'A', 0x30A}, {0x1F1E9, 0x1F1EA}, {0x1F468, 0x200D, 0x1F469, 0x200D, 0x1F467},
	{0x1100, 0x1161, 0x11A8}, {0x1F44D, 0x1F3FD}, {'1', 0xFE0F, 0x20E3},
	{0x424, 0x301},
}

var usShift = map[int]int{'1': '!', '2': '@', '3': '#', '4': '$', '5': '%', '6': '^', '7': '&', '8': '*', '9': '(',
	'0': ')', '-': '_', '=': '+', '[': '{', ']': '}', '\\': '|', ';': ':', '\'': '"', ',': '<', '.': '>', '/': '?', '`': '~'}

// shiftedOf proposes a shifted code for a key (what a layout might report).
func shiftedOf(c int) int {
	if s, ok := usShift[c]; ok {
		return s
	}
	if c < kc.FKBase {
		if u := int(unicode.ToUpper(rune(c))); u != c {
			return u
		}
	}
	return 0
}

// legacy forms of functional keys
var letterFinals = []int{'A', 'B', 'C', 'D', 'E', 'F', 'H', 'P', 'Q', 'R', 'S'}
var ss3Finals = []int{'A', 'B', 'C', 'D', 'E', 'F', 'H', 'P', 'Q', 'R', 'S'}

// application keypad (DECKPAM, which Vaxis itself requests): SS3 final, key,
// and the key's number in the kitty protocol (driver side: used to aim probes
// and to pair the two encodings; the oracle has its own tables)
var keypadFinals = []struct {
	fin   int
	name  string
	kitty int
}{{'M', "KP_ENTER", 57414}, {'X', "KP_EQUAL", 57415}, {'j', "KP_MULTIPLY", 57411}, {'k', "KP_ADD", 57413},
	{'l', "KP_SEPARATOR", 57416}, {'m', "KP_SUBTRACT", 57412}, {'n', "KP_DECIMAL", 57409}, {'o', "KP_DIVIDE", 57410},
	{'p', "KP_0", 57399}, {'q', "KP_1", 57400}, {'r', "KP_2", 57401}, {'s', "KP_3", 57402}, {'t', "KP_4", 57403},
	{'u', "KP_5", 57404}, {'v', "KP_6", 57405}, {'w', "KP_7", 57406}, {'x', "KP_8", 57407}, {'y', "KP_9", 57408}}
var tildeNums = []int{1, 2, 3, 4, 5, 6, 7, 8, 11, 12, 13, 14, 15, 17, 18, 19, 20, 21, 23, 24, 25, 26, 28, 29, 31, 32, 33, 34, 57427}
var letterName = map[int]string{'A': "UP", 'B': "DOWN", 'C': "RIGHT", 'D': "LEFT", 'E': "KP_BEGIN", 'F': "END", 'H': "HOME",
	'P': "F1", 'Q': "F2", 'R': "F3", 'S': "F4"}
var tildeName = map[int]string{1: "HOME", 2: "INSERT", 3: "DELETE", 4: "END", 5: "PAGE_UP", 6: "PAGE_DOWN", 7: "HOME", 8: "END",
	11: "F1", 12: "F2", 13: "F3", 14: "F4", 15: "F5", 17: "F6", 18: "F7", 19: "F8", 20: "F9", 21: "F10", 23: "F11", 24: "F12",
	25: "F13", 26: "F14", 28: "F15", 29: "F16", 31: "F17", 32: "F18", 33: "F19", 34: "F20", 57427: "KP_BEGIN"}

func puaNums() []int {
	var out []int
	for n := 57358; n <= 57363; n++ {
		out = append(out, n)
	}
	for n := 57376; n <= 57426; n++ {
		out = append(out, n)
	}
	for n := 57428; n <= 57454; n++ {
		out = append(out, n)
	}
	return out
}

// puaName mirrors the kitty functional key table (driver side: only used to
// aim probes at the key's own identity; the oracle has its own table).
func puaName(n int) string {
	switch {
	case n <= 57363:
		return kc.FKeyNames[23+n-57358]
	case n <= 57426:
		return kc.FKeyNames[29+n-57376]
	default:
		return kc.FKeyNames[80+n-57428]
	}
}

// ---- probes ------------------------------------------------------------------

// info is what the generator knows about the chord it encodes (used only to
// aim probes; never logged as an expectation).
type info struct {
	code, sh, base, text0, mods int
}

type relKey struct {
	bk  int
	rel string
}

func caseImg(c int) (up, lo int) {
	if c < 0 || c >= kc.FKBase {
		return c, c
	}
	return int(unicode.ToUpper(rune(c))), int(unicode.ToLower(rune(c)))
}

func validBK(c int) bool {
	if c >= kc.FKBase {
		return true
	}
	// binding keys are named keys or code points a user can write in a binding
	return c >= 32 && c <= unicode.MaxRune && !(c >= 0xD800 && c <= 0xDFFF) || c == 9 || c == 13 || c == 27
}

func relKeys(in info) []relKey {
	var out []relKey
	seen := map[int]bool{}
	add := func(c int, rel string) {
		if c == 0 || !validBK(c) || seen[c] {
			return
		}
		seen[c] = true
		out = append(out, relKey{c, rel})
	}
	add(in.code, "own")
	add(in.sh, "shifted")
	add(in.base, "base")
	add(in.text0, "text")
	for _, c := range []int{in.code, in.sh, in.base, in.text0} {
		if c == 0 {
			continue
		}
		u, l := caseImg(c)
		add(u, "upper")
		add(l, "lower")
	}
	un := 'q'
	if seen['q'] || seen['Q'] {
		un = 'w'
	}
	add(int(un), "unrelated")
	if seen[';'] {
		add(',', "unrelated")
	} else {
		add(';', "unrelated")
	}
	if !seen[kc.FK("F5")] {
		add(kc.FK("F5"), "unrelated")
	} else {
		add(kc.FK("F6"), "unrelated")
	}
	if !seen[9] {
		add(9, "unrelated")
	}
	return out
}

func maskSet(m int, rng *rand.Rand, extra int) []int {
	seen := map[int]bool{}
	var out []int
	add := func(x int) {
		x &= 255
		if !seen[x] {
			seen[x] = true
			out = append(out, x)
		}
	}
	add(m)
	add(m & 63)
	add(m ^ 1)
	add(m | 64)
	add(m | 128)
	add((m ^ 1) | 192)
	add(m &^ 192)
	add(0)
	add(1)
	for _, b := range []int{2, 4, 8, 16, 32} {
		add(m ^ b)
	}
	for i := 0; i < extra; i++ {
		add(rng.Intn(256))
	}
	return out
}

var forms = []string{"canon", "lower", "upper", "mixed", "rev", "keyalt"}

// attach adds the standard probes for an item. level: 0 = self only,
// 1 = own/related keys with aimed masks, 2 = also all 256 masks on the own
// and the first related key.
func attach(it *Item, in info, rng *rand.Rand, level int) {
	it.Self = true
	if level == 0 {
		return
	}
	rks := relKeys(in)
	for i, rk := range rks {
		p := Probe{BK: rk.bk}
		if level >= 2 && i < 2 {
			p.All = true
		} else {
			p.BMs = maskSet(in.mods, rng, 2)
		}
		it.Probes = append(it.Probes, p)
	}
	m6 := in.mods & 63
	it.SProbes = append(it.SProbes, SProbe{BK: in.code, BM: m6, Form: forms[rng.Intn(len(forms))]})
	it.SProbes = append(it.SProbes, SProbe{BK: in.code, BM: m6, Form: "canon"})
	rk := rks[rng.Intn(len(rks))]
	it.SProbes = append(it.SProbes, SProbe{BK: rk.bk, BM: m6 ^ (1 << rng.Intn(6)), Form: forms[rng.Intn(len(forms))]})
	rk = rks[rng.Intn(len(rks))]
	it.SProbes = append(it.SProbes, SProbe{BK: rk.bk, BM: m6, Form: forms[rng.Intn(len(forms))]})
	if in.sh != 0 && validBK(in.sh) {
		it.SProbes = append(it.SProbes, SProbe{BK: in.sh, BM: m6 &^ 1, Form: "canon"})
	}
}

// ---- item generators ------------------------------------------------------------

type Gen struct {
	Rng      *rand.Rand
	Thorough bool
	scns     []*Scn
	n        int
}

func (g *Gen) emit(kind string, items []Item, per int) {
	for len(items) > 0 {
		n := per
		if n > len(items) {
			n = len(items)
		}
		g.scns = append(g.scns, &Scn{Kind: kind, Kitty: g.n%2 == 0, Items: items[:n]})
		g.n++
		items = items[n:]
	}
}

func charInfo(cps []int) info {
	c := cps[0]
	in := info{code: c, text0: c}
	if unicode.IsUpper(rune(c)) {
		in.code, in.sh, in.mods = int(unicode.ToLower(rune(c))), c, kc.Shift
	}
	if len(cps) > 1 {
		in.text0 = 0
	}
	return in
}

func (g *Gen) chars() {
	var items []Item
	one := func(cps []int) {
		it := Item{Enc: kc.Enc{K: "char", Cps: cps}}
		attach(&it, charInfo(cps), g.Rng, 1+g.Rng.Intn(6)/5)
		items = append(items, it)
	}
	for c := 32; c <= 127; c++ {
		one([]int{c})
	}
	for _, c := range Samples() {
		if c == 0xFFFD {
			continue // literal U+FFFD in the input stream is the parser's business (C02)
		}
		one([]int{c})
	}
	for _, cl := range Clusters {
		one(cl)
	}
	g.emit("char", items, 12)
}

func (g *Gen) c0() {
	var items []Item
	for b := 0; b < 32; b++ {
		it := Item{Enc: kc.Enc{K: "c0", B: b}}
		in := info{mods: kc.Ctrl}
		switch {
		case b == 8:
			in = info{code: 127}
		case b == 9 || b == 13 || b == 27:
			in = info{code: b}
		case b == 0:
			in.code = '@'
		case b <= 26:
			in.code = b + 96
		default:
			in.code = b + 64
		}
		attach(&it, in, g.Rng, 2)
		items = append(items, it)
	}
	g.emit("c0", items, 8)
}

var escIntro = map[int]bool{'O': true, 'P': true, 'X': true, '[': true, ']': true, '^': true, '_': true}

func (g *Gen) esc() {
	var items []Item
	for b := 32; b <= 127; b++ {
		if escIntro[b] {
			continue
		}
		it := Item{Enc: kc.Enc{K: "esc", B: b}}
		in := charInfo([]int{b})
		in.text0 = 0
		in.mods |= kc.Alt
		attach(&it, in, g.Rng, 1+g.Rng.Intn(4)/3)
		items = append(items, it)
	}
	g.emit("esc", items, 10)
	items = nil
	for b := 0; b < 32; b++ {
		if b == 27 {
			continue
		}
		it := Item{Enc: kc.Enc{K: "escc0", B: b}}
		it.Self = true
		items = append(items, it)
	}
	g.emit("escc0", items, 4)
}

func (g *Gen) ss3() {
	var items []Item
	assigned := map[int]bool{}
	for _, f := range ss3Finals {
		assigned[f] = true
		it := Item{Enc: kc.Enc{K: "ss3", B: f}}
		attach(&it, info{code: kc.FK(letterName[f])}, g.Rng, 2)
		items = append(items, it)
	}
	for _, kp := range keypadFinals {
		assigned[kp.fin] = true
		it := Item{Enc: kc.Enc{K: "ss3", B: kp.fin}}
		attach(&it, info{code: kc.FK(kp.name)}, g.Rng, 2)
		// the key of the main block that carries the same legend is another key
		it.Probes = append(it.Probes, Probe{BK: mainBlockTwin(kp.name), BMs: []int{0, 1, 64}})
		items = append(items, it)
	}
	g.emit("ss3", items, 5)
	// finals to which no table assigns a key: exercised (no crash, the next
	// report is not harmed), the outcome is not judged
	items = nil
	for f := 32; f <= 126; f++ {
		if !assigned[f] {
			items = append(items, Item{Enc: kc.Enc{K: "ss3", B: f}})
		}
	}
	g.emit("ss3-unassigned", items, 10)
}

func mainBlockTwin(kp string) int {
	switch kp {
	case "KP_ENTER":
		return 13
	case "KP_EQUAL":
		return '='
	case "KP_MULTIPLY":
		return '*'
	case "KP_ADD":
		return '+'
	case "KP_SEPARATOR":
		return ','
	case "KP_SUBTRACT":
		return '-'
	case "KP_DECIMAL":
		return '.'
	case "KP_DIVIDE":
		return '/'
	}
	return '0' + int(kp[3]-'0')
}

// pairs: two reports back to back in one read (fast typing, key repeat, a
// terminal flushing several reports at once): each is decoded on its own.
func (g *Gen) pairs() {
	var items []Item
	thens := []kc.Enc{{K: "char", Cps: []int{'a'}}, {K: "csi", Ps: [][]int{{1}, {5}}, Fin: 'A'}, {K: "c0", B: 13},
		{K: "csi", Ps: [][]int{{97}, {6}}, Fin: 'u'}}
	n := 0
	add := func(e kc.Enc) {
		if g.Thorough {
			for _, t := range thens {
				items = append(items, Item{Enc: e, Then: []kc.Enc{t}})
			}
			return
		}
		items = append(items, Item{Enc: e, Then: []kc.Enc{thens[n%len(thens)]}})
		n++
	}
	for b := 32; b <= 127; b++ {
		if !escIntro[b] {
			e := kc.Enc{K: "esc", B: b}
			items = append(items, Item{Enc: e, Then: []kc.Enc{thens[0]}}) // a text key behind every ESC-prefixed key
			if b < 48 && b%4 == 0 || g.Thorough {
				for _, t := range thens[1:] {
					items = append(items, Item{Enc: e, Then: []kc.Enc{t}})
				}
			}
		}
	}
	for b := 0; b < 32; b++ {
		if b != 27 { // ESC + byte is a report of its own
			add(kc.Enc{K: "c0", B: b})
		}
	}
	for _, c := range []int{'a', 'Z', '.', ' ', 127, 0xE9, 0x424, 0x1F600} {
		add(kc.Enc{K: "char", Cps: []int{c}})
	}
	for _, f := range ss3Finals {
		add(kc.Enc{K: "ss3", B: f})
	}
	for _, kp := range keypadFinals {
		add(kc.Enc{K: "ss3", B: kp.fin})
	}
	for _, f := range letterFinals {
		add(kc.Enc{K: "csi", Fin: f})
		add(kc.Enc{K: "csi", Ps: [][]int{{1}, {1 + g.Rng.Intn(256)}}, Fin: f})
	}
	for _, tn := range tildeNums {
		add(kc.Enc{K: "csi", Ps: [][]int{{tn}}, Fin: '~'})
	}
	for _, c := range []int{97, 13, 27, 32, 46, 57399, 57414, 0x444} {
		add(kc.Enc{K: "csi", Ps: [][]int{{c}}, Fin: 'u'})
		add(kc.Enc{K: "csi", Ps: [][]int{{c}, {3, 1}}, Fin: 'u'})
	}
	// three in a row
	items = append(items, Item{Enc: kc.Enc{K: "esc", B: '.'}, Then: []kc.Enc{{K: "esc", B: 'x'}, {K: "char", Cps: []int{'a'}}}},
		Item{Enc: kc.Enc{K: "ss3", B: 'M'}, Then: []kc.Enc{{K: "ss3", B: 'A'}, {K: "c0", B: 9}}})
	g.emit("pair", items, 12)
}

// modParam builds the second CSI parameter for mask m and event type t
// (t = 0: no type sub-parameter; m = -1: modifiers omitted).
func modParam(m, t int) []int {
	p := []int{-1}
	if m >= 0 {
		p[0] = m + 1
	}
	if t > 0 {
		p = append(p, t)
	}
	return p
}

func (g *Gen) funcKeys() {
	var items []Item
	combos := func(full bool) [][2]int { // (mods, type) pairs
		var out [][2]int
		if full {
			for m := 0; m < 256; m++ {
				for t := 0; t <= 3; t++ {
					out = append(out, [2]int{m, t})
				}
			}
			return out
		}
		for i := 0; i < 10; i++ {
			out = append(out, [2]int{g.Rng.Intn(256), g.Rng.Intn(4)})
		}
		for _, m := range []int{0, 1, 2, 4, 8, 16, 32, 64, 128, 255} {
			out = append(out, [2]int{m, g.Rng.Intn(4)})
		}
		return out
	}
	lvl := func() int { return g.Rng.Intn(12) / 10 } // mostly decode+self only
	for i, f := range letterFinals {
		code := kc.FK(letterName[f])
		it := Item{Enc: kc.Enc{K: "csi", Fin: f}}
		attach(&it, info{code: code}, g.Rng, 2)
		items = append(items, it)
		it = Item{Enc: kc.Enc{K: "csi", Ps: [][]int{{1}}, Fin: f}}
		attach(&it, info{code: code}, g.Rng, 1)
		items = append(items, it)
		for _, mt := range combos(g.Thorough && i%2 == 0) {
			it := Item{Enc: kc.Enc{K: "csi", Ps: [][]int{{1}, modParam(mt[0], mt[1])}, Fin: f}}
			attach(&it, info{code: code, mods: mt[0]}, g.Rng, lvl())
			items = append(items, it)
		}
	}
	it := Item{Enc: kc.Enc{K: "csi", Fin: 'Z'}}
	attach(&it, info{code: 9, mods: kc.Shift}, g.Rng, 2)
	items = append(items, it)
	g.emit("csi-letter", items, 16)
	items = nil
	for i, n := range tildeNums {
		code := kc.FK(tildeName[n])
		it := Item{Enc: kc.Enc{K: "csi", Ps: [][]int{{n}}, Fin: '~'}}
		attach(&it, info{code: code}, g.Rng, 2)
		items = append(items, it)
		for _, mt := range combos(g.Thorough && i%3 == 0) {
			it := Item{Enc: kc.Enc{K: "csi", Ps: [][]int{{n}, modParam(mt[0], mt[1])}, Fin: '~'}}
			attach(&it, info{code: code, mods: mt[0]}, g.Rng, lvl())
			items = append(items, it)
		}
	}
	g.emit("csi-tilde", items, 16)
}

// kittyItem builds a CSI u report from the chosen optional fields.
// present bits: 1 shifted, 2 base, 4 mods, 8 type, 16 text.
func kittyEnc(code, sh, base, mods, typ int, text []int, present int) (kc.Enc, info) {
	p1 := []int{code}
	in := info{code: code}
	if code >= 57344 && code <= 63743 {
		in.code = kc.FK(puaName(code))
	}
	if present&2 != 0 {
		s := -1
		if present&1 != 0 {
			s = sh
			in.sh = sh
		}
		p1 = append(p1, s, base)
		in.base = base
	} else if present&1 != 0 {
		p1 = append(p1, sh)
		in.sh = sh
	}
	ps := [][]int{p1}
	m, t := -1, 0
	if present&4 != 0 {
		m = mods
		in.mods = mods
	}
	if present&8 != 0 {
		t = typ
	}
	if present&16 != 0 {
		ps = append(ps, modParam(m, t), text)
		if len(text) == 1 {
			in.text0 = text[0]
		}
	} else if present&(4|8) != 0 {
		ps = append(ps, modParam(m, t))
	}
	return kc.Enc{K: "csi", Ps: ps, Fin: 'u'}, in
}

func (g *Gen) kitty() {
	rng := g.Rng
	var keys []int
	for c := 32; c <= 126; c++ {
		keys = append(keys, c)
	}
	keys = append(keys, 9, 13, 27, 127)
	for _, c := range Samples() {
		if c >= 57344 && c <= 63743 || c < 0xA0 {
			continue
		}
		keys = append(keys, c)
	}
	npua := len(keys)
	keys = append(keys, puaNums()...)
	textFor := func(code, sh, mods int) []int {
		switch rng.Intn(6) {
		case 0:
			return []int{0xFFFD}
		case 1:
			return []int{'x', 'y'}
		case 2:
			return Clusters[rng.Intn(len(Clusters))]
		}
		if mods&kc.Shift != 0 && sh != 0 {
			return []int{sh}
		}
		if code >= 32 && code < 57344 || code > 63743 {
			if mods&kc.Caps != 0 {
				u, _ := caseImg(code)
				return []int{u}
			}
			return []int{code}
		}
		return []int{'z'}
	}
	var items []Item
	reps := 1
	if g.Thorough {
		reps = 10
	}
	for ki, code := range keys {
		isPUA := ki >= npua
		sh := shiftedOf(code)
		if sh == 0 {
			sh = []int{'X', 0x416, '%', 0x1F600}[rng.Intn(4)]
		}
		base := []int{'a', 'f', ';', 'z', '2'}[rng.Intn(5)]
		for present := 0; present < 32; present++ {
			if !g.Thorough && rng.Intn(6) != 0 && present != 0 && present != 31 {
				continue
			}
			for rep := 0; rep < reps; rep++ {
				mods := rng.Intn(256)
				switch rng.Intn(6) {
				case 0:
					mods = 1 << rng.Intn(8)
				case 1:
					mods = kc.Shift | rng.Intn(4)<<6
				case 2:
					mods = 0
				}
				typ := 1 + rng.Intn(3)
				e, in := kittyEnc(code, sh, base, mods, typ, textFor(code, sh, mods), present)
				it := Item{Enc: e}
				lvl := 1
				if isPUA && rng.Intn(4) != 0 {
					lvl = 0
				}
				if rng.Intn(40) == 0 {
					lvl = 2
				}
				attach(&it, in, rng, lvl)
				items = append(items, it)
			}
		}
	}
	// every modifier mask and event type on a few keys, minimal and full forms
	full := []int{'a', ';', 13, 0x444, 57399}
	if g.Thorough {
		full = append(full, ' ', '1', 'z', 9, 27, 127, 0xE9, 57376, 57441, 0x1F600)
	}
	for _, code := range full {
		sh := shiftedOf(code)
		for m := 0; m < 256; m++ {
			for t := 0; t <= 3; t++ {
				if !g.Thorough && t != 0 && (m+t)%3 != 0 {
					continue
				}
				present := 4
				if t > 0 {
					present |= 8
				}
				if sh != 0 && m&1 != 0 && t%2 == 1 {
					present |= 1
				}
				e, in := kittyEnc(code, sh, 0, m, t, nil, present)
				it := Item{Enc: e}
				attach(&it, in, rng, rng.Intn(8)/7)
				items = append(items, it)
			}
		}
	}
	g.emit("csi-u", items, 16)
}

// ---- match grids: all 256 x 256 mask pairs on chosen key shapes ----------------

func (g *Gen) grids() {
	type shape struct {
		code, sh, base int
		text           []int
		bks            []int
	}
	shapes := []shape{
		{'a', 'A', 0, []int{'A'}, []int{'a', 'A'}},
		{'a', 0, 0, nil, []int{'a', 'A'}},
		{';', ':', 0, []int{':'}, []int{';', ':'}},
		{0x444, 0x424, 'a', []int{0x444}, []int{'a', 0x444, 0x424}},
		{57399, 0, 0, nil, []int{kc.FK("KP_0"), '0'}},
		{9, 0, 0, nil, []int{9}},
	}
	if !g.Thorough {
		shapes = shapes[:3]
	}
	var items []Item
	for _, s := range shapes {
		for m := 0; m < 256; m++ {
			if !g.Thorough && g.Rng.Intn(8) != 0 {
				continue
			}
			present := 4
			if s.sh != 0 {
				present |= 1
			}
			if s.base != 0 {
				present |= 2
			}
			if s.text != nil {
				present |= 16
			}
			e, _ := kittyEnc(s.code, s.sh, s.base, m, 0, s.text, present)
			it := Item{Enc: e}
			for _, bk := range s.bks {
				it.Probes = append(it.Probes, Probe{BK: bk, All: true})
			}
			items = append(items, it)
		}
	}
	g.emit("grid", items, 8)
}

// ---- cross-protocol -----------------------------------------------------------------

func xpBindings(in info, rng *rand.Rand) (bks, bms []int, rels []string) {
	for _, rk := range relKeys(in) {
		for _, m := range maskSet(in.mods, rng, 1) {
			bks = append(bks, rk.bk)
			bms = append(bms, m)
			rels = append(rels, rk.rel)
		}
	}
	return
}

func (g *Gen) xps() {
	rng := g.Rng
	var xps []XP
	add := func(key, mods int, in info, encs ...kc.Enc) {
		bks, bms, rels := xpBindings(in, rng)
		xps = append(xps, XP{Key: key, Mods: mods, Encs: encs, BKs: bks, BMs: bms, Rels: rels})
	}
	ku := func(code, sh, mods int, text []int, present int) kc.Enc {
		e, _ := kittyEnc(code, sh, 0, mods, 1, text, present)
		return e
	}
	// text keys: plain, Shift (upper case), Alt, Alt+Shift, Ctrl
	var textKeys []int
	for c := 32; c <= 126; c++ {
		if !unicode.IsUpper(rune(c)) {
			textKeys = append(textKeys, c)
		}
	}
	for _, c := range Samples() {
		if unicode.IsUpper(rune(c)) || c >= 57344 && c <= 63743 || c < 0xA0 || c == 0xFFFD {
			continue
		}
		textKeys = append(textKeys, c)
	}
	for _, c := range textKeys {
		up, _ := caseImg(c)
		in := info{code: c, text0: c}
		add(c, 0, in, kc.Enc{K: "char", Cps: []int{c}}, ku(c, 0, 0, nil, 0), ku(c, 0, 0, []int{c}, 4|16), ku(c, 0, 0, []int{c}, 4|8|16))
		if unicode.IsLower(rune(c)) && up != c && unicode.IsUpper(rune(up)) && int(unicode.ToLower(rune(up))) == c {
			in := info{code: c, sh: up, text0: up, mods: kc.Shift}
			add(c, kc.Shift, in, kc.Enc{K: "char", Cps: []int{up}}, ku(c, up, kc.Shift, []int{up}, 1|4|16),
				ku(c, up, kc.Shift, nil, 1|4), ku(c, 0, kc.Shift, nil, 4), ku(c, 0, kc.Shift, []int{up}, 4|16))
			// the same report with and without Num Lock (identical optional fields): the lock state must not change the chord
			add(c, kc.Shift, info{code: c, mods: kc.Shift}, ku(c, 0, kc.Shift, nil, 4), ku(c, 0, kc.Shift|kc.Num, nil, 4))
			add(c, kc.Shift, info{code: c, sh: up, mods: kc.Shift}, ku(c, up, kc.Shift, nil, 1|4), ku(c, up, kc.Shift|kc.Num, nil, 1|4))
		}
		if c < 32 || c > 126 || escIntro[c] {
			continue
		}
		add(c, kc.Alt, info{code: c, mods: kc.Alt}, kc.Enc{K: "esc", B: c}, ku(c, 0, kc.Alt, nil, 4), ku(c, 0, kc.Alt, nil, 4|8))
		if c >= 'a' && c <= 'z' && !escIntro[up] {
			add(c, kc.Alt|kc.Shift, info{code: c, sh: up, mods: kc.Alt | kc.Shift}, kc.Enc{K: "esc", B: up},
				ku(c, up, kc.Alt|kc.Shift, nil, 1|4), ku(c, 0, kc.Alt|kc.Shift, nil, 4))
		}
		if c >= 'a' && c <= 'z' && c != 'h' && c != 'i' && c != 'm' {
			add(c, kc.Ctrl, info{code: c, mods: kc.Ctrl}, kc.Enc{K: "c0", B: c - 96}, ku(c, 0, kc.Ctrl, nil, 4), ku(c, 0, kc.Ctrl, nil, 4|8))
			add(c, kc.Ctrl|kc.Alt, info{code: c, mods: kc.Ctrl | kc.Alt}, kc.Enc{K: "escc0", B: c - 96}, ku(c, 0, kc.Ctrl|kc.Alt, nil, 4))
		}
	}
	for _, c := range []int{'@', '\\', ']', '^', '_'} {
		// unambiguous only for '@'-less bytes; the oracle decides (xp-domain) - '@' is canonical for NUL
		add(c, kc.Ctrl, info{code: c, mods: kc.Ctrl}, kc.Enc{K: "c0", B: c - 64}, ku(c, 0, kc.Ctrl, nil, 4))
	}
	// dedicated keys with a code point
	add(13, 0, info{code: 13}, kc.Enc{K: "c0", B: 13}, ku(13, 0, 0, nil, 0), ku(13, 0, 0, nil, 4|8))
	add(9, 0, info{code: 9}, kc.Enc{K: "c0", B: 9}, ku(9, 0, 0, nil, 0), ku(9, 0, 0, nil, 4|8))
	add(27, 0, info{code: 27}, kc.Enc{K: "c0", B: 27}, ku(27, 0, 0, nil, 0), ku(27, 0, 0, nil, 4|8))
	add(127, 0, info{code: 127}, kc.Enc{K: "char", Cps: []int{127}}, kc.Enc{K: "c0", B: 8}, ku(127, 0, 0, nil, 0), ku(127, 0, 0, nil, 4|8))
	add(9, kc.Shift, info{code: 9, mods: kc.Shift}, kc.Enc{K: "csi", Fin: 'Z'}, ku(9, 0, kc.Shift, nil, 4))
	add(127, kc.Alt, info{code: 127, mods: kc.Alt}, kc.Enc{K: "esc", B: 127}, ku(127, 0, kc.Alt, nil, 4))
	add(13, kc.Alt, info{code: 13, mods: kc.Alt}, kc.Enc{K: "escc0", B: 13}, ku(13, 0, kc.Alt, nil, 4))
	add(9, kc.Alt, info{code: 9, mods: kc.Alt}, kc.Enc{K: "escc0", B: 9}, ku(9, 0, kc.Alt, nil, 4))
	add(32, 0, info{code: 32, text0: 32}, kc.Enc{K: "char", Cps: []int{32}}, ku(32, 0, 0, nil, 0), ku(32, 0, 0, []int{32}, 4|16))
	// Shift+space without a text field (the work-around's motivating case), with and without Num Lock
	add(32, kc.Shift, info{code: 32, mods: kc.Shift}, ku(32, 0, kc.Shift, nil, 4), ku(32, 0, kc.Shift|kc.Num, nil, 4))
	// functional keys: SS3 / CSI letter / CSI ~ / kitty forms of the same key
	fk := func(name string, mods int, encs ...kc.Enc) {
		add(kc.FK(name), mods, info{code: kc.FK(name), mods: mods}, encs...)
	}
	csi := func(fin int, ps ...[]int) kc.Enc { return kc.Enc{K: "csi", Ps: ps, Fin: fin} }
	for _, f := range letterFinals {
		n := letterName[f]
		encs := []kc.Enc{csi(f), csi(f, []int{1}), csi(f, []int{1}, []int{1, 1}), {K: "ss3", B: f}}
		for tn, name := range tildeName {
			if name == n {
				encs = append(encs, csi('~', []int{tn}), csi('~', []int{tn}, []int{1, 1}))
			}
		}
		fk(n, 0, encs...)
		masks := []int{1, 2, 4, 5, 8, 16, 32, 63}
		if g.Thorough {
			masks = masks[:0]
			for m := 1; m < 64; m++ {
				masks = append(masks, m)
			}
		}
		for _, m := range masks {
			encs := []kc.Enc{csi(f, []int{1}, []int{m + 1}), csi(f, []int{1}, []int{m + 1, 1})}
			for tn, name := range tildeName {
				if name == n {
					encs = append(encs, csi('~', []int{tn}, []int{m + 1}))
				}
			}
			fk(n, m, encs...)
		}
	}
	// application keypad: SS3 final and the kitty number of the same key
	for _, kp := range keypadFinals {
		fk(kp.name, 0, kc.Enc{K: "ss3", B: kp.fin}, csi('u', []int{kp.kitty}), csi('u', []int{kp.kitty}, []int{1, 1}))
	}
	for _, tn := range []int{2, 3, 5, 6, 15, 17, 24} {
		fk(tildeName[tn], 0, csi('~', []int{tn}), csi('~', []int{tn}, []int{1}), csi('~', []int{tn}, []int{1, 1}))
		fk(tildeName[tn], kc.Ctrl|kc.Shift, csi('~', []int{tn}, []int{6}), csi('~', []int{tn}, []int{6, 1}))
	}
	for i, tn := range []int{25, 26, 28, 29, 31, 32, 33, 34} { // F13..F20: VT220 and kitty numbers
		fk(tildeName[tn], 0, csi('~', []int{tn}), csi('u', []int{57376 + i}), csi('u', []int{57376 + i}, []int{1, 1}))
		fk(tildeName[tn], kc.Alt, csi('~', []int{tn}, []int{3}), csi('u', []int{57376 + i}, []int{3}))
	}
	rng.Shuffle(len(xps), func(i, j int) { xps[i], xps[j] = xps[j], xps[i] })
	if !g.Thorough {
		// keep the hand-aimed corner cases and a third of the rest
		var keep []XP
		for i, x := range xps {
			if i%3 == 0 || x.Key < 128 && (x.Key == 'a' || x.Key == ';' || x.Key == '1' || x.Key < 32 || x.Key == 127) || x.Key >= kc.FKBase && i%2 == 0 {
				keep = append(keep, x)
			}
		}
		xps = keep
	}
	for len(xps) > 0 {
		n := 6
		if n > len(xps) {
			n = len(xps)
		}
		g.scns = append(g.scns, &Scn{Kind: "xp", Kitty: g.n%2 == 0, XPs: xps[:n]})
		g.n++
		xps = xps[n:]
	}
}

// Fixed are hand-written corner cases (always run).
func (g *Gen) fixed() {
	csiu := func(ps ...[]int) kc.Enc { return kc.Enc{K: "csi", Ps: ps, Fin: 'u'} }
	var items []Item
	add := func(e kc.Enc, in info, extra ...Probe) {
		it := Item{Enc: e}
		attach(&it, in, g.Rng, 2)
		it.Probes = append(it.Probes, extra...)
		items = append(items, it)
	}
	fkAll := func(names ...string) []Probe {
		var ps []Probe
		for _, n := range names {
			ps = append(ps, Probe{BK: kc.FK(n), BMs: []int{0, 1, 4, 64}})
		}
		return ps
	}
	// the examples of the library's own test-suite and documentation
	add(csiu([]int{106}, []int{1, 3}), info{code: 'j'})
	add(csiu([]int{106}, []int{65}, []int{74}), info{code: 'j', mods: 64, text0: 'J'})
	add(csiu([]int{1092, -1, 97}, []int{-1}, []int{1092}), info{code: 1092, base: 97, text0: 1092})
	add(csiu([]int{1092, 1060, 97}, []int{6, 3}), info{code: 1092, sh: 1060, base: 97, mods: 5})
	add(csiu([]int{59, 58}, []int{2}, []int{58}), info{code: ';', sh: ':', mods: 1, text0: ':'})
	add(csiu([]int{112}, []int{65}, []int{80}), info{code: 'p', mods: 64, text0: 'P'})
	// Shift without text: space (the work-around's motivating case), digit with and without shifted code
	add(csiu([]int{32}, []int{2}), info{code: 32, mods: 1})
	add(csiu([]int{49}, []int{2}), info{code: '1', mods: 1})
	add(csiu([]int{49, 33}, []int{2}), info{code: '1', sh: '!', mods: 1})
	add(csiu([]int{97}, []int{2 + 64}), info{code: 'a', mods: 1 | 64})
	add(csiu([]int{97}, []int{65}), info{code: 'a', mods: 64})
	add(csiu([]int{97}, []int{129}), info{code: 'a', mods: 128})
	// text U+FFFD must not make the event look like a functional key
	add(csiu([]int{97}, []int{-1}, []int{0xFFFD}), info{code: 'a', text0: 0xFFFD}, fkAll("UP", "F1", "KP_0", "F40", "MENU")...)
	add(csiu([]int{0xFFFD}), info{code: 0xFFFD}, fkAll("UP", "F1")...)
	// '+' as a key
	add(csiu([]int{43}, []int{5}), info{code: '+', mods: 4})
	add(csiu([]int{61, 43}, []int{2}, []int{43}), info{code: '=', sh: '+', mods: 1, text0: '+'})
	add(kc.Enc{K: "char", Cps: []int{'+'}}, info{code: '+', text0: '+'})
	// each modifier alone and all together on a letter and on a functional key
	for _, m := range []int{1, 2, 4, 8, 16, 32, 64, 128, 63, 255} {
		add(csiu([]int{97}, []int{m + 1}), info{code: 'a', mods: m})
		add(kc.Enc{K: "csi", Ps: [][]int{{1}, {m + 1}}, Fin: 'A'}, info{code: kc.FK("UP"), mods: m})
	}
	// release and repeat of a modified key (description of a release carries no modifiers)
	add(csiu([]int{97}, []int{5, 3}), info{code: 'a', mods: 4})
	add(csiu([]int{97}, []int{5, 2}), info{code: 'a', mods: 4})
	g.emit("fixed", items, 4)

	// every named functional key as a binding target against its own and a foreign event
	items = nil
	for _, n := range puaNums() {
		it := Item{Enc: csiu([]int{n})}
		it.Self = true
		own := kc.FK(puaName(n))
		it.Probes = []Probe{{BK: own, BMs: []int{0, 1, 64}}}
		for _, f := range forms {
			it.SProbes = append(it.SProbes, SProbe{BK: own, BM: 0, Form: f})
		}
		it.SProbes = append(it.SProbes, SProbe{BK: own, BM: kc.Ctrl, Form: "canon"})
		items = append(items, it)
	}
	g.emit("named", items, 6)
	items = nil
	// an 'a' press against every named key (including the terminfo-only ones)
	var ps []Probe
	var sps []SProbe
	for i := range kc.FKeyNames {
		ps = append(ps, Probe{BK: kc.FKBase + i + 1, BMs: []int{0, 1}})
		sps = append(sps, SProbe{BK: kc.FKBase + i + 1, BM: 0, Form: "canon"}, SProbe{BK: kc.FKBase + i + 1, BM: kc.Shift, Form: "lower"})
	}
	items = append(items, Item{Enc: kc.Enc{K: "char", Cps: []int{'a'}}, Probes: ps, SProbes: sps})
	g.emit("named-foreign", items, 1)
}

// Generate returns the scenario list for a tier.
func Generate(seed int64, thorough bool) []*Scn {
	g := &Gen{Rng: rand.New(rand.NewSource(seed)), Thorough: thorough}
	g.fixed()
	g.chars()
	g.c0()
	g.esc()
	g.ss3()
	g.pairs()
	g.funcKeys()
	g.kitty()
	g.grids()
	g.xps()
	return g.scns
}
