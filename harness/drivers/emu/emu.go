// Package emu holds what the C05 and C06 drivers share: a terminal emulator
// (widgets/term) without a child process, byte -> sequence parsing through
// the library's own parser, and conversion of state snapshots to the integer
// encodings of the TLA+ specifications.
package emu

import (
	"bytes"
	"fmt"
	"os"
	"sort"
	"sync"

	"git.sr.ht/~rockorager/vaxis"
	"git.sr.ht/~rockorager/vaxis/ansi"
	"git.sr.ht/~rockorager/vaxis/widgets/term"

	"verif/harness/trace"
)

const RGBBase = 1 << 24

var (
	nullOnce sync.Once
	nullFile *os.File
)

// Null is a write-only sink for the replies the emulator sends to its child.
func Null() *os.File {
	nullOnce.Do(func() {
		f, err := os.OpenFile(os.DevNull, os.O_WRONLY, 0)
		if err != nil {
			panic(err)
		}
		nullFile = f
	})
	return nullFile
}

// New returns an emulator of the given size with no child attached.
func New(cols, rows int) *term.Model { return term.NewVerif(Null(), cols, rows) }

// NewTo is New with what the emulator sends to its child written to w.
func NewTo(w *os.File, cols, rows int) *term.Model { return term.NewVerif(w, cols, rows) }

// Parse turns child output into the sequences the PTY goroutine would
// receive, using the library's parser. The parser interprets a lone ESC by a
// 10 ms timer; when input is complete that timer can only fire if the parser
// goroutine was descheduled, which would make the run irreproducible: such a
// parse (recognisable by a C0 ESC item) is repeated.
func Parse(b []byte) []ansi.Sequence {
	var out []ansi.Sequence
	for try := 0; try < 8; try++ {
		out = out[:0]
		p := ansi.NewParser(bytes.NewReader(b))
		glitch := false
		for seq := range p.Next() {
			switch seq := seq.(type) {
			case ansi.EOF:
				continue
			case ansi.C0:
				if rune(seq) == 0x1B {
					glitch = true
				}
			}
			out = append(out, seq)
		}
		if !glitch {
			break
		}
	}
	return out
}

var (
	memoMu sync.RWMutex
	memo   = map[string][]ansi.Sequence{}
)

// ParseMemo is Parse with a cache (sequences are treated as read-only).
func ParseMemo(s string) []ansi.Sequence {
	memoMu.RLock()
	v, ok := memo[s]
	memoMu.RUnlock()
	if ok {
		return v
	}
	v = append([]ansi.Sequence(nil), Parse([]byte(s))...)
	memoMu.Lock()
	memo[s] = v
	memoMu.Unlock()
	return v
}

// Feed applies sequences one by one; a panic is returned as a string.
func Feed(vt *term.Model, seqs []ansi.Sequence, after func(seq ansi.Sequence, evs []vaxis.Event)) (panicMsg string) {
	defer func() {
		if r := recover(); r != nil {
			panicMsg = fmt.Sprint(r)
			if panicMsg == "" {
				panicMsg = "panic"
			}
		}
	}()
	for _, seq := range seqs {
		evs := vt.VerifFeed(seq)
		if after != nil {
			after(seq, evs)
		}
	}
	return ""
}

// ColInt converts a colour to the oracle's integer encoding (module SGR)
// using only the public Params accessor.
func ColInt(c vaxis.Color) int {
	p := c.Params()
	switch len(p) {
	case 1:
		return int(p[0]) + 1
	case 3:
		return RGBBase + int(p[0])<<16 + int(p[1])<<8 + int(p[2])
	}
	return 0
}

// AttrInt converts the attribute mask to the oracle's bit numbering.
func AttrInt(a vaxis.AttributeMask) int {
	n := 0
	for i, b := range []vaxis.AttributeMask{vaxis.AttrBold, vaxis.AttrDim, vaxis.AttrItalic, vaxis.AttrBlink,
		vaxis.AttrReverse, vaxis.AttrInvisible, vaxis.AttrStrikethrough} {
		if a&b != 0 {
			n |= 1 << i
		}
	}
	return n
}

// Pen is <<fg,bg,ul,us,at>>.
func Pen(s vaxis.Style) []int {
	return []int{ColInt(s.Foreground), ColInt(s.Background), ColInt(s.UnderlineColor), int(s.UnderlineStyle), AttrInt(s.Attribute)}
}

// Cell is <<g,w,fg,bg,ul,us,at>>; the empty grapheme and U+0020 are both id 0.
func Cell(g *trace.Interner, c term.VerifCell) [7]int {
	gr := c.Grapheme
	if gr == "" {
		gr = " "
	}
	p := Pen(c.Style)
	return [7]int{g.ID(gr), c.Width, p[0], p[1], p[2], p[3], p[4]}
}

func saved(c term.VerifCursor) []int {
	return append([]int{c.Row, c.Col}, Pen(c.Pen)...)
}

// Widths returns the distinct row lengths, ascending.
func Widths(lists ...[]int) []int {
	set := map[int]bool{}
	for _, l := range lists {
		for _, n := range l {
			set[n] = true
		}
	}
	out := []int{}
	for n := range set {
		out = append(out, n)
	}
	sort.Ints(out)
	return out
}

// Obs tracks the previously logged grid so that only changed rows are logged.
type Obs struct {
	G    *trace.Interner
	prev [][][7]int
}

// Full renders a snapshot as the observation record of VTRef_Trace.
func (o *Obs) Full(st term.VerifState, rows, cols int) map[string]any {
	act := make([]int, len(st.Active))
	for i, r := range st.Active {
		act[i] = len(r)
	}
	m := map[string]any{
		"r": st.Cursor.Row, "c": st.Cursor.Col, "lc": st.LastCol, "pen": Pen(st.Cursor.Pen),
		"top": st.Top, "bot": st.Bottom, "alt": st.Alt, "sp": saved(st.SavedPri), "sa": saved(st.SavedAlt),
		"h": len(st.Active), "ws": Widths(act),
	}
	delta := [][]any{}
	if len(st.Active) == rows && len(Widths(act)) == 1 && Widths(act)[0] == cols {
		if o.prev == nil {
			o.prev = make([][][7]int, rows)
			for y := range o.prev {
				o.prev[y] = make([][7]int, cols) // all-zero cells = RawBlank
			}
		}
		for y, line := range st.Active {
			cur := make([][7]int, cols)
			same := true
			for x, c := range line {
				cur[x] = Cell(o.G, c)
				if cur[x] != o.prev[y][x] {
					same = false
				}
			}
			if !same {
				delta = append(delta, []any{y + 1, cur})
				o.prev[y] = cur
			}
		}
	}
	m["rows"] = delta
	return m
}
