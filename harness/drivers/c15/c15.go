// Package c15 runs instrumented widget trees under the real vxfw.App.Run on a
// fake console, injects key / mouse / terminal-focus events as bytes (custom
// events through App.PostEvent between two sentinels) and records every
// CaptureEvent / HandleEvent / root Draw call in the order the application
// goroutine made them. specs/vxfw/Routing_Trace.tla decides.
//
// Synchronisation is in-band only: after every injected event the driver
// injects a sentinel key with a unique private-use code point and waits until
// some widget is offered it (events are handled strictly in order by one
// goroutine, so everything before it has been handled). When one of the
// driver's own widgets returned a RedrawCmd the driver waits for the root's
// Draw and then for another sentinel, so the frame has completed before the
// next event is injected. Timeouts only produce "lost" observations.
package c15

import (
	"fmt"
	"runtime"
	"strings"
	"sync"
	"sync/atomic"
	"time"

	"git.sr.ht/~rockorager/vaxis"
	"git.sr.ht/~rockorager/vaxis/vxfw"

	"verif/harness/lexer"
	"verif/harness/responder"
	"verif/harness/trace"
	"verif/harness/vxsess"
)

// ---- replay descriptor -------------------------------------------------

type Geom struct{ X, Y, W, H, Z int }

// CmdD is a command tree: C = nil|redraw|refresh|quit|consume|focus|batch|slice.
type CmdD struct {
	C string
	W int     `json:",omitempty"` // focus: widget id
	L []*CmdD `json:",omitempty"` // batch (vxfw.BatchCmd) / slice ([]vxfw.Command)
}

// Rule: widget W (0 = any) offered an event of class Cls in phase Ph ("" =
// any) returns Cmd. The first matching rule wins. N > 0: the rule answers at
// most N times (then it is skipped) until a step of type "arm" re-arms every
// rule; scripted answers to notifications that move the focus are one-shot,
// or two widgets would hand the focus to and fro for ever.
type Rule struct {
	W   int
	Cls string
	Ph  string `json:",omitempty"`
	Cmd *CmdD
	N   int `json:",omitempty"`
}

// Step: T = key (K = one of a..h, R redraw, Q quit, 0..9 layout switch) |
// mouse (B = SGR button code, X, Y 0-based, Rel = release) | tfin | tfout |
// custom (N) | arm (re-arms the counted rules, K = "off": spends them; nothing
// is sent to the library).
type Step struct {
	T    string
	K    string `json:",omitempty"`
	B    int    `json:",omitempty"`
	X, Y int    `json:",omitempty"`
	Rel  bool   `json:",omitempty"`
	N    int    `json:",omitempty"`
}

type Scn struct {
	Kind       string
	Cols, Rows int
	Parent     []int    // Parent[i] = parent of widget i+1 (0 for the root, widget 1)
	Caps       []bool   // Caps[i]: widget i+1 implements EventCapturer
	Lays       [][]Geom // layouts; Lays[k][i] = geometry of widget i+1 relative to its parent
	// Hid[k] = widgets (ids) that their parent's Draw does not add as a child in
	// layout k: they and their subtrees are not part of a frame drawn from it
	Hid [][]int `json:",omitempty"`
	// Pars[k], when present, is the parent relation of layout k instead of Parent: a
	// widget (with its subtree) may be drawn by another parent after a layout switch
	Pars [][]int `json:",omitempty"`
	// Wrap = widgets (ids) whose Draw returns a surface holding one child surface of
	// the same size tagged with the widget itself (a decoration around its own
	// content, as list.Dynamic draws its cursor); the widget's children hang below
	// the inner surface
	Wrap  []int `json:",omitempty"`
	Rules []Rule
	Steps []Step
}

// StackDump, when set, receives all goroutine stacks when a sentinel is not
// seen within the time limit (debugging).
var StackDump func([]byte)

type Ctx struct {
	Dump func(format string, a ...any)
}

func (c *Ctx) dump(format string, a ...any) {
	if c.Dump != nil {
		c.Dump(format, a...)
	}
}

// ---- instrumented widgets ------------------------------------------------

type customEv struct{ N int }

type entry struct {
	draw bool
	lay  int
	w    int
	ph   string
	cls  string
	ser  int // sentinel serial (cls == "S")
	ret  *CmdD
}

type session struct {
	sc      *Scn
	mu      sync.Mutex
	log     []entry
	seen    map[int]bool // sentinel serials offered to some widget
	cond    *sync.Cond
	draws   int
	redrawQ bool // a driver widget returned a RedrawCmd since the last root Draw
	lay     int  // layout the next Draw uses
	ws      []vxfw.Widget
	fired   []int // per rule: answers given since the last "arm"
}

type plainW struct {
	s  *session
	id int
}

type capW struct{ plainW }

const sentinelBase = 0xE000

func classOf(ev vaxis.Event) (cls string, ser int) {
	switch ev := ev.(type) {
	case vxfw.Init:
		return "init", 0
	case vxfw.MouseEnter:
		return "enter", 0
	case vxfw.MouseLeave:
		return "leave", 0
	case vaxis.FocusIn:
		return "fin", 0
	case vaxis.FocusOut:
		return "fout", 0
	case customEv:
		return fmt.Sprintf("u%d", ev.N), 0
	case vaxis.Mouse:
		t := "p"
		switch ev.EventType {
		case vaxis.EventRelease:
			t = "r"
		case vaxis.EventMotion:
			t = "m"
		}
		return fmt.Sprintf("m%s%d", t, int(ev.Button)), 0
	case vaxis.Key:
		r := ev.Keycode
		switch {
		case r >= sentinelBase && r < sentinelBase+0x1800:
			return "S", int(r - sentinelBase)
		case ev.ShiftedCode != 0:
			return "k" + string(ev.ShiftedCode), 0
		default:
			return "k" + string(r), 0
		}
	}
	return fmt.Sprintf("other-%T", ev), 0
}

func hasCmd(c *CmdD, name string) bool {
	if c == nil {
		return false
	}
	if c.C == name {
		return true
	}
	for _, x := range c.L {
		if hasCmd(x, name) {
			return true
		}
	}
	return false
}

func (s *session) toCmd(c *CmdD) vxfw.Command {
	if c == nil {
		return nil
	}
	switch c.C {
	case "redraw":
		return vxfw.RedrawCmd{}
	case "refresh":
		return vxfw.RefreshCmd{}
	case "quit":
		return vxfw.QuitCmd{}
	case "consume":
		return vxfw.ConsumeEventCmd{}
	case "focus":
		return vxfw.FocusWidgetCmd(s.ws[c.W-1])
	case "batch":
		b := vxfw.BatchCmd{}
		for _, x := range c.L {
			b = append(b, s.toCmd(x))
		}
		return b
	case "slice":
		b := []vxfw.Command{}
		for _, x := range c.L {
			b = append(b, s.toCmd(x))
		}
		return b
	}
	return nil
}

func (s *session) offer(id int, ph string, ev vaxis.Event) (vxfw.Command, error) {
	cls, ser := classOf(ev)
	var ret *CmdD
	s.mu.Lock()
	for i := range s.sc.Rules {
		r := &s.sc.Rules[i]
		if (r.W == 0 || r.W == id) && r.Cls == cls && (r.Ph == "" || r.Ph == ph) {
			if r.N > 0 && s.fired[i] >= r.N {
				continue
			}
			s.fired[i]++
			ret = r.Cmd
			break
		}
	}
	s.log = append(s.log, entry{w: id, ph: ph, cls: cls, ser: ser, ret: ret})
	if cls == "S" {
		s.seen[ser] = true
	}
	if hasCmd(ret, "redraw") {
		s.redrawQ = true
	}
	// layout switch: the digit key's handler (whoever is offered it first and
	// answers) selects the layout used from the next Draw on
	if ret != nil && len(cls) == 2 && cls[0] == 'k' && cls[1] >= '0' && cls[1] <= '9' {
		if k := int(cls[1] - '0'); k < len(s.sc.Lays) {
			s.lay = k
		}
	}
	s.cond.Broadcast()
	s.mu.Unlock()
	return s.toCmd(ret), nil
}

func (w *plainW) HandleEvent(ev vaxis.Event, ph vxfw.EventPhase) (vxfw.Command, error) {
	p := "tgt"
	switch ph {
	case vxfw.CapturePhase:
		p = "cap!" // HandleEvent must never be called with the capture phase
	case vxfw.BubblePhase:
		p = "bub"
	}
	return w.s.offer(w.id, p, ev)
}

func (w *capW) CaptureEvent(ev vaxis.Event) (vxfw.Command, error) {
	return w.s.offer(w.id, "cap", ev)
}

func (w *plainW) Draw(dc vxfw.DrawContext) (vxfw.Surface, error) {
	s := w.s
	if w.id == 1 {
		s.mu.Lock()
		s.log = append(s.log, entry{draw: true, lay: s.lay})
		if s.draws > 0 {
			// the layout App.Run computes once before its loop is not a frame
			s.redrawQ = false
		}
		s.draws++
		s.cond.Broadcast()
		s.mu.Unlock()
	}
	return s.surface(w.id, s.currentLay()), nil
}

func (s *session) currentLay() int {
	s.mu.Lock()
	defer s.mu.Unlock()
	return s.lay
}

func (sc *Scn) hidden(lay, id int) bool {
	if lay < len(sc.Hid) {
		for _, h := range sc.Hid[lay] {
			if h == id {
				return true
			}
		}
	}
	return false
}

// parentAt returns the parent relation of layout lay.
func (sc *Scn) parentAt(lay int) []int {
	if lay < len(sc.Pars) && len(sc.Pars[lay]) == len(sc.Parent) {
		return sc.Pars[lay]
	}
	return sc.Parent
}

func (sc *Scn) wrapped(id int) bool {
	for _, w := range sc.Wrap {
		if w == id {
			return true
		}
	}
	return false
}

func (s *session) surface(id, lay int) vxfw.Surface {
	if s.sc.wrapped(id) {
		g := s.sc.Lays[lay][id-1]
		outer := vxfw.NewSurface(uint16(g.W), uint16(g.H), s.ws[id-1])
		outer.AddChild(0, 0, s.ownSurface(id, lay))
		return outer
	}
	return s.ownSurface(id, lay)
}

func (s *session) ownSurface(id, lay int) vxfw.Surface {
	g := s.sc.Lays[lay][id-1]
	sf := vxfw.NewSurface(uint16(g.W), uint16(g.H), s.ws[id-1])
	cell := vaxis.Cell{Character: vaxis.Character{Grapheme: string(rune('A' + (id-1)%26)), Width: 1}}
	for r := 0; r < g.H; r++ {
		for c := 0; c < g.W; c++ {
			sf.WriteCell(uint16(c), uint16(r), cell)
		}
	}
	par := s.sc.parentAt(lay)
	for k := range par {
		if par[k] == id && !s.sc.hidden(lay, k+1) {
			kg := s.sc.Lays[lay][k]
			sf.AddChild(kg.X, kg.Y, s.surface(k+1, lay))
			sf.Children[len(sf.Children)-1].ZIndex = kg.Z
		}
	}
	return sf
}

// ---- executor ------------------------------------------------------------------

// Time limits only turn a missing reaction into an observation ("lost"); on a
// conforming library they are never reached unless the machine starves the
// process (then the rejection does not reproduce in the confirmation run and
// is dropped). After a few expiries in one process the limit shrinks so that
// a library that loses every redraw does not cost minutes.
const waitLimitLong = 20 * time.Second
const waitLimitShort = 1500 * time.Millisecond

var expiries atomic.Int32

func waitLimit() time.Duration {
	if expiries.Load() >= 4 {
		return waitLimitShort
	}
	return waitLimitLong
}

// waitFor blocks until pred holds (under the session lock), Run has ended, or
// the limit expires. It returns "", "done" or "timeout".
func (s *session) waitFor(done <-chan struct{}, pred func() bool) string {
	limit := waitLimit()
	timer := time.AfterFunc(limit, func() { s.mu.Lock(); s.cond.Broadcast(); s.mu.Unlock() })
	defer timer.Stop()
	deadline := time.Now().Add(limit)
	s.mu.Lock()
	defer s.mu.Unlock()
	for !pred() {
		select {
		case <-done:
			return "done"
		default:
		}
		if time.Now().After(deadline) {
			expiries.Add(1)
			return "timeout"
		}
		s.cond.Wait()
	}
	return ""
}

func cmdJSON(c *CmdD) map[string]any {
	if c == nil {
		return map[string]any{"c": "nil"}
	}
	m := map[string]any{"c": c.C}
	if c.C == "focus" {
		m["w"] = c.W
	}
	if c.C == "batch" || c.C == "slice" {
		l := []any{}
		for _, x := range c.L {
			l = append(l, cmdJSON(x))
		}
		m["l"] = l
	}
	return m
}

func offerJSON(e entry) map[string]any {
	if e.draw {
		return map[string]any{"w": 0, "ph": "", "cls": "draw", "ret": cmdJSON(nil)}
	}
	return map[string]any{"w": e.w, "ph": e.ph, "cls": e.cls, "ret": cmdJSON(e.ret)}
}

func stepBytes(st Step) []byte {
	switch st.T {
	case "key":
		return []byte(st.K)
	case "mouse":
		f := 'M'
		if st.Rel {
			f = 'm'
		}
		return []byte(fmt.Sprintf("\x1b[<%d;%d;%d%c", st.B, st.X+1, st.Y+1, f))
	case "tfin":
		return []byte("\x1b[I")
	case "tfout":
		return []byte("\x1b[O")
	}
	return nil
}

// stepIn is the driver's own description of what it injected, in the
// vocabulary of the oracle (the class is computed from what was asked for,
// not from what the library delivered).
func stepIn(st Step) map[string]any {
	switch st.T {
	case "key":
		return map[string]any{"t": "key", "cls": "k" + st.K}
	case "mouse":
		t := "p"
		if st.Rel {
			t = "r"
		}
		if st.B&32 != 0 {
			t = "m"
		}
		return map[string]any{"t": "mouse", "cls": fmt.Sprintf("m%s%d", t, st.B&0b11000011), "x": st.X, "y": st.Y}
	case "custom":
		return map[string]any{"t": "custom", "cls": fmt.Sprintf("u%d", st.N)}
	}
	return map[string]any{"t": st.T, "cls": st.T}
}

type mark struct {
	ser   int
	role  string // "step" | "frame"
	step  int    // index into Steps (-1 = init)
	full  int    // frame: 1 full repaint, 0 not, -1 unknown
	lost  string // "" | nosync | noframe
	final bool
}

func printed(out []byte) int {
	var lx lexer.Lexer
	n := 0
	for _, t := range lx.Feed(out) {
		if t.K == lexer.Text {
			n += len([]rune(t.S))
		}
	}
	return n
}

func Run(ctx *Ctx, sc *Scn) (evs []trace.Ev, note string) {
	n := len(sc.Parent)
	lays := make([]any, len(sc.Lays))
	pars := make([]any, len(sc.Lays))
	for k, l := range sc.Lays {
		pars[k] = sc.parentAt(k)
		gs := make([]any, n)
		for i, g := range l {
			gs[i] = map[string]any{"x": g.X, "y": g.Y, "w": g.W, "h": g.H, "z": g.Z, "hid": sc.hidden(k, i+1)}
		}
		lays[k] = gs
	}
	wraps := make([]bool, n)
	for i := range wraps {
		wraps[i] = sc.wrapped(i + 1)
	}
	evs = append(evs, trace.Ev{"ev": "reset", "n": n, "pars": pars, "caps": sc.Caps, "wraps": wraps, "lays": lays})
	vs, err := vxsess.Start(responder.FromMask(0, false), sc.Cols, sc.Rows)
	if err != nil {
		return append(evs, trace.Ev{"ev": "panic", "pmsg": "start"}), "start: " + err.Error()
	}
	s := &session{sc: sc, seen: map[int]bool{}, fired: make([]int, len(sc.Rules))}
	s.cond = sync.NewCond(&s.mu)
	for i := 0; i < n; i++ {
		p := plainW{s: s, id: i + 1}
		if sc.Caps[i] {
			s.ws = append(s.ws, &capW{p})
		} else {
			s.ws = append(s.ws, &p)
		}
	}
	done := make(chan struct{})
	var runRes string
	go func() {
		defer close(done)
		defer func() {
			if r := recover(); r != nil {
				runRes = "panic"
				s.mu.Lock()
				s.cond.Broadcast()
				s.mu.Unlock()
			}
		}()
		if err := vs.App.Run(s.ws[0]); err != nil {
			runRes = "error"
		}
		s.mu.Lock()
		s.cond.Broadcast()
		s.mu.Unlock()
	}()

	var marks []mark
	ser := 0
	ended := false
	// sync injects a fresh sentinel and waits until it is offered
	sync1 := func(role string, step int) *mark {
		ser++
		marks = append(marks, mark{ser: ser, role: role, step: step, full: -1})
		m := &marks[len(marks)-1]
		vs.Con.Inject([]byte(string(rune(sentinelBase + ser))))
		k := ser
		switch s.waitFor(done, func() bool { return s.seen[k] }) {
		case "done":
			ended = true
		case "timeout":
			m.lost = "nosync"
			ended = true
			if StackDump != nil {
				buf := make([]byte, 1<<20)
				StackDump(buf[:runtime.Stack(buf, true)])
			}
		}
		return m
	}
	// settle waits for the frame(s) the driver's widgets asked for
	settle := func(step int) {
		for i := 0; i < 6 && !ended; i++ {
			s.mu.Lock()
			want, have := s.redrawQ, s.draws
			s.mu.Unlock()
			if !want {
				return
			}
			r := s.waitFor(done, func() bool { return s.draws > have })
			if r == "done" {
				ended = true
				return
			}
			m := sync1("frame", step)
			if r == "timeout" {
				m.lost = "noframe"
				ended = true
				return
			}
			if m.lost == "" && !ended {
				m.full = 0
				if printed(vs.Con.Take()) >= sc.Cols*sc.Rows {
					m.full = 1
				}
			}
		}
	}
	// the start: Init is offered and the first layout computed before any
	// input; vaxis.New has queued the initial Resize, so App.Run owes one frame
	// of its own accord. It is waited for here, because a frame that is due
	// happens at the first idle 8 ms, i.e. anywhere under load. (A library
	// that draws no start-up frame only costs the time limit.)
	if s.waitFor(done, func() bool { return s.draws >= 1 }) != "" {
		ended = true
	}
	if !ended && s.waitFor(done, func() bool { return s.draws >= 2 }) == "done" {
		ended = true
	}
	if !ended {
		sync1("step", -1)
		settle(-1)
	}
	executed := -1
	for i, st := range sc.Steps {
		if ended {
			break
		}
		executed = i
		if st.T == "arm" {
			// K == "off": every counted rule is spent until the next "arm"
			s.mu.Lock()
			for k := range s.fired {
				s.fired[k] = 0
				if st.K == "off" {
					s.fired[k] = sc.Rules[k].N
				}
			}
			s.mu.Unlock()
			continue
		}
		vs.Con.Take() // quiescent here: what is written until the frame sentinel is the frame
		if st.T == "custom" {
			vs.App.PostEvent(customEv{N: st.N})
		} else {
			vs.Con.Inject(stepBytes(st))
		}
		sync1("step", i)
		settle(i)
	}
	// close the session: every widget answers Q with quit+consume. After a lost
	// reaction the key is still sent so that a slow but living run can end.
	cleanQuit := !ended
	if cleanQuit {
		executed = len(sc.Steps)
	}
	vs.Con.Inject([]byte("Q"))
	exit := ""
	limit := waitLimitShort
	if cleanQuit {
		limit = waitLimit()
	}
	select {
	case <-done:
		exit = "exit"
	case <-time.After(limit):
		if cleanQuit {
			exit = "noexit"
			expiries.Add(1)
		}
	}

	// ---- cut the log at the sentinels ------------------------------------
	s.mu.Lock()
	log := append([]entry(nil), s.log...)
	s.mu.Unlock()
	if ctx.Dump != nil {
		for _, e := range log {
			ctx.dump("  log %+v ret=%v\n", e, cmdJSON(e.ret))
		}
	}
	pos := 0
	take := func(until func(entry) bool) []entry {
		var seg []entry
		for pos < len(log) && !until(log[pos]) {
			seg = append(seg, log[pos])
			pos++
		}
		return seg
	}
	items := func(seg []entry) []any {
		out := []any{}
		for _, e := range seg {
			out = append(out, offerJSON(e))
		}
		return out
	}
	lastLay := -1
	emitSeg := func(seg []entry, in map[string]any, first bool, full int) {
		if first {
			// the layout App.Run computes right after Init is not a frame
			for i, e := range seg {
				if e.draw {
					seg = append(append([]entry(nil), seg[:i]...), seg[i+1:]...)
					break
				}
			}
		}
		if in != nil && len(seg) > 0 && seg[0].draw {
			// a frame nobody asked for ran before the event was handled: what
			// follows cannot be attributed; timing noise never becomes a verdict
			evs = append(evs, trace.Ev{"ev": "desync"})
			note = "desync"
			return
		}
		// an event's offers end at the first root Draw; what follows is a frame
		cut := len(seg)
		for i, e := range seg {
			if e.draw {
				cut = i
				break
			}
		}
		if in != nil {
			evs = append(evs, trace.Ev{"ev": "step", "in": in, "offers": items(seg[:cut])})
		}
		if cut < len(seg) {
			lay := 0
			for _, e := range seg[cut:] {
				if e.draw {
					lay = e.lay
				}
			}
			// a repaint can be told from a diff only on an unchanged screen
			if lay != lastLay {
				full = -1
			}
			lastLay = lay
			evs = append(evs, trace.Ev{"ev": "frame", "items": items(seg[cut:]), "lay": lay + 1, "full": full})
		}
	}
	for mi, m := range marks {
		k := m.ser
		seg := take(func(e entry) bool { return e.cls == "S" && e.ser == k })
		var in map[string]any
		if m.role == "step" {
			if m.step < 0 {
				in = map[string]any{"t": "init", "cls": "init"}
			} else {
				in = stepIn(sc.Steps[m.step])
			}
		}
		full := -1
		if m.role == "frame" {
			full = m.full
		}
		if m.lost == "noframe" && len(seg) == 0 {
			evs = append(evs, trace.Ev{"ev": "noframe"})
		} else {
			emitSeg(seg, in, mi == 0, full)
		}
		sent := take(func(e entry) bool { return !(e.cls == "S" && e.ser == k) })
		if len(sent) > 0 {
			evs = append(evs, trace.Ev{"ev": "step", "in": map[string]any{"t": "key", "cls": "S"}, "offers": items(sent)})
		} else if m.lost == "nosync" {
			evs = append(evs, trace.Ev{"ev": "nosync"})
		}
	}
	// whatever follows the last sentinel: the closing Q (or a quit that ended the run early)
	rest := take(func(entry) bool { return false })
	if len(marks) == 0 {
		// the run ended before the first sentinel (Init answered with quit)
		emitSeg(rest, map[string]any{"t": "init", "cls": "init"}, true, -1)
	} else if executed == len(sc.Steps) {
		emitSeg(rest, map[string]any{"t": "key", "cls": "kQ"}, false, -1)
	} else if len(rest) > 0 {
		emitSeg(rest, nil, false, -1)
	}
	switch {
	case runRes == "panic":
		evs = append(evs, trace.Ev{"ev": "panic", "pmsg": "run"})
		note = "panic in Run"
	case exit == "noexit":
		evs = append(evs, trace.Ev{"ev": "noexit"})
		note = "Run did not return"
	case exit == "exit":
		evs = append(evs, trace.Ev{"ev": "exit", "err": runRes == "error"})
	}
	_ = strings.TrimSpace
	return evs, note
}
