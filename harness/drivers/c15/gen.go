package c15

import (
	"fmt"
	"math/rand"
)

func cmd(c string) *CmdD               { return &CmdD{C: c} }
func focus(w int) *CmdD                { return &CmdD{C: "focus", W: w} }
func batch(l ...*CmdD) *CmdD           { return &CmdD{C: "batch", L: l} }
func slice(l ...*CmdD) *CmdD           { return &CmdD{C: "slice", L: l} }
func key(k string) Step                { return Step{T: "key", K: k} }
func mouse(b, x, y int) Step           { return Step{T: "mouse", B: b, X: x, Y: y} }
func anyRule(cls string, c *CmdD) Rule { return Rule{Cls: cls, Cmd: c} }

// generic rules every scenario ends with: R forces a frame, digits switch the
// layout and force a frame, Q ends the run. Whoever is offered the key first
// answers and consumes it.
func genericRules(nlay int) []Rule {
	rs := []Rule{anyRule("kR", slice(cmd("redraw"), cmd("consume"))), anyRule("kQ", batch(cmd("quit"), cmd("consume")))}
	for k := 0; k < nlay; k++ {
		rs = append(rs, anyRule(fmt.Sprintf("k%d", k), batch(cmd("consume"), cmd("redraw"))))
	}
	return rs
}

// nestedLayout places every widget inside its parent: column 0 and row 0 of a
// widget stay its own, its children split the rest side by side.
func nestedLayout(parent []int, cols, rows int) []Geom {
	return nestedLayoutOf(parent, nil, nil, cols, rows)
}

// nestedLayoutOf is nestedLayout in which the widgets of skip get no room
// (they are not drawn) and a widget k of twin gets the rectangle of its sibling
// twin[k] instead of a slot of its own (two pages on top of each other).
func nestedLayoutOf(parent []int, skip []int, twin map[int]int, cols, rows int) []Geom {
	n := len(parent)
	skipped := map[int]bool{}
	for _, w := range skip {
		skipped[w-1] = true
	}
	g := make([]Geom, n)
	g[0] = Geom{W: cols, H: rows}
	var place func(w int)
	place = func(w int) {
		var kids []int
		var twins []int
		for k := range parent {
			if parent[k] == w+1 && !skipped[k] {
				if _, ok := twin[k+1]; ok {
					twins = append(twins, k)
				} else {
					kids = append(kids, k)
				}
			}
		}
		if len(kids) == 0 {
			return
		}
		aw, ah := g[w].W-1, g[w].H-1
		each := aw / len(kids)
		for i, k := range kids {
			g[k] = Geom{X: 1 + i*each, Y: 1, W: each, H: ah}
			if each < 1 || ah < 1 {
				g[k] = Geom{X: 1, Y: 1}
			}
			place(k)
		}
		for _, k := range twins {
			g[k] = g[twin[k+1]-1]
			place(k)
		}
	}
	place(0)
	return g
}

// absolute origin of widget w (0-based index) in a layout
func origin(parent []int, g []Geom, w int) (int, int) {
	x, y := 0, 0
	for w >= 0 {
		x, y = x+g[w].X, y+g[w].Y
		w = parent[w] - 1
	}
	return x, y
}

// shapes enumerates every parent array with parent[i] < i+1 (increasing
// labelled trees: all shapes with all sibling orders) of n widgets.
func shapes(n int) [][]int {
	out := [][]int{{0}}
	for i := 1; i < n; i++ {
		var next [][]int
		for _, p := range out {
			for q := 1; q <= i; q++ {
				next = append(next, append(append([]int(nil), p...), q))
			}
		}
		out = next
	}
	return out
}

var phases = []string{"cap", "tgt", "bub"}

var mouseClasses = []struct {
	cls string
	b   int
	rel bool
}{
	{"mp0", 0, false}, {"mp1", 1, false}, {"mp2", 2, false}, {"mr0", 0, true}, {"mr1", 1, true}, {"mr2", 2, true},
	{"mm0", 32, false}, {"mm1", 33, false}, {"mm2", 34, false}, {"mm3", 35, false}, {"mp64", 64, false}, {"mp65", 65, false},
	{"mp128", 128, false}, {"mp129", 129, false}, {"mp130", 130, false}, {"mp131", 131, false},
}

// GenRoute: bounded-exhaustive three-phase dispatch. One session per (tree
// shape, capture mask, variant): every focus position x every single
// consumer (widget, phase) or none, by keys and by mouse at every widget.
// variant "settled" draws a frame after each focus change, "stale" does not.
func GenRoute(maxN int, rng *rand.Rand, sample int) []*Scn {
	var out []*Scn
	for n := 1; n <= maxN; n++ {
		for _, par := range shapes(n) {
			for mask := 0; mask < 1<<n; mask++ {
				if sample > 0 && n == maxN && rng.Intn(sample) != 0 {
					continue
				}
				for _, variant := range []string{"settled", "stale"} {
					sc := &Scn{Kind: "route-" + variant, Cols: 24, Rows: 8, Parent: par}
					for i := 0; i < n; i++ {
						sc.Caps = append(sc.Caps, mask&(1<<i) != 0)
					}
					sc.Lays = [][]Geom{nestedLayout(par, 24, 8)}
					// consumer j = (widget, phase) answers key letter j and mouse class j with consume
					j := 0
					for w := 1; w <= n; w++ {
						for _, ph := range phases {
							sc.Rules = append(sc.Rules, Rule{W: w, Cls: "k" + string(rune('a'+j)), Ph: ph, Cmd: cmd("consume")})
							sc.Rules = append(sc.Rules, Rule{W: w, Cls: mouseClasses[j].cls, Ph: ph, Cmd: slice(cmd("consume"))})
							j++
						}
					}
					for w := 1; w <= n; w++ {
						sc.Rules = append(sc.Rules, Rule{Cls: "k" + string(rune('A'+w-1)), Ph: "tgt", Cmd: batch(focus(w), cmd("consume"))})
					}
					sc.Rules = append(sc.Rules, genericRules(1)...)
					order := rng.Perm(n)
					for _, f := range order {
						sc.Steps = append(sc.Steps, key(string(rune('A'+f))))
						if variant == "settled" {
							sc.Steps = append(sc.Steps, key("R"))
						}
						for c := 0; c <= j && c < 16; c++ {
							sc.Steps = append(sc.Steps, key(string(rune('a'+c))))
						}
						// pointer on widget f's own corner
						x, y := origin(par, sc.Lays[0], f)
						if sc.Lays[0][f].W > 0 && sc.Lays[0][f].H > 0 {
							for c := 0; c <= j && c < 16; c++ {
								m := mouseClasses[c]
								sc.Steps = append(sc.Steps, Step{T: "mouse", B: m.b, Rel: m.rel, X: x, Y: y})
							}
						}
					}
					out = append(out, sc)
				}
			}
		}
	}
	return out
}

// ---- focus on widgets that are not part of the drawn frame -------------------

// subtree returns w (1-based) and its descendants.
func subtree(parent []int, w int) []int {
	out := []int{w}
	for i := 0; i < len(out); i++ {
		for k := range parent {
			if parent[k] == out[i] {
				out = append(out, k+1)
			}
		}
	}
	return out
}

// GenHidden: bounded-exhaustive focus on undrawn widgets. One session per
// (tree shape, capture mask, non-root widget d): layout 0 does not draw d (and
// hence its subtree), layout 1 draws everything (same geometry). For every
// widget t of d's subtree a handler focuses t while layout 0 is on screen - in
// the target phase (with consume), by the root in the bubble phase, or by the
// root in the capture phase (with consume) - and keys with every single
// consumer (widget, phase) or none plus custom events follow before any frame;
// then a frame on the same layout, the focus again, the switch to layout 1
// (the same keys), and the switch back that removes the focused widget from
// the frame. sample > 0 keeps one in sample of the sessions of size maxN.
func GenHidden(minN, maxN int, rng *rand.Rand, sample int) []*Scn {
	var out []*Scn
	vias := []string{"tgt", "bub", "cap"}
	for n := minN; n <= maxN; n++ {
		for _, par := range shapes(n) {
			for mask := 0; mask < 1<<n; mask++ {
				for d := 2; d <= n; d++ {
					if sample > 0 && n == maxN && rng.Intn(sample) != 0 {
						continue
					}
					sc := &Scn{Kind: "hidden-focus", Cols: 24, Rows: 8, Parent: par}
					for i := 0; i < n; i++ {
						sc.Caps = append(sc.Caps, mask&(1<<i) != 0)
					}
					lay := nestedLayout(par, 24, 8)
					sc.Lays = [][]Geom{lay, lay}
					sc.Hid = [][]int{{d}, {}}
					j := 0
					for w := 1; w <= n; w++ {
						for _, ph := range phases {
							sc.Rules = append(sc.Rules, Rule{W: w, Cls: "k" + string(rune('a'+j)), Ph: ph, Cmd: cmd("consume")})
							sc.Rules = append(sc.Rules, Rule{W: w, Cls: fmt.Sprintf("u%d", j+1), Ph: ph, Cmd: slice(cmd("consume"))})
							j++
						}
					}
					for w := 1; w <= n; w++ {
						// A..: whoever is the target focuses w; F..: the root does, bubbling (or as the target);
						// U..: the root does, capturing (or whoever is the target, when the root does not capture)
						sc.Rules = append(sc.Rules, Rule{Cls: "k" + string(rune('A'+w-1)), Ph: "tgt", Cmd: batch(focus(w), cmd("consume"))})
						sc.Rules = append(sc.Rules, Rule{W: 1, Cls: "k" + string(rune('F'+w-1)), Ph: "bub", Cmd: focus(w)})
						sc.Rules = append(sc.Rules, Rule{W: 1, Cls: "k" + string(rune('F'+w-1)), Ph: "tgt", Cmd: slice(focus(w), cmd("consume"))})
						sc.Rules = append(sc.Rules, Rule{W: 1, Cls: "k" + string(rune('U'+w-1)), Ph: "cap", Cmd: batch(cmd("consume"), focus(w))})
						sc.Rules = append(sc.Rules, Rule{Cls: "k" + string(rune('U'+w-1)), Ph: "tgt", Cmd: batch(cmd("consume"), focus(w))})
					}
					sc.Rules = append(sc.Rules, genericRules(2)...)
					all := func() {
						for c := 0; c <= j; c++ { // the last one has no consumer
							sc.Steps = append(sc.Steps, key(string(rune('a'+c))))
						}
						for c := 0; c <= j; c += 1 + rng.Intn(3) {
							sc.Steps = append(sc.Steps, Step{T: "custom", N: c + 1})
						}
					}
					few := func() {
						sc.Steps = append(sc.Steps, key(string(rune('a'+j))), Step{T: "custom", N: 1 + rng.Intn(j+1)}, key(string(rune('a'+rng.Intn(j)))))
					}
					hid := map[int]bool{}
					for _, t := range subtree(par, d) {
						hid[t] = true
					}
					var vis []int
					for w := 1; w <= n; w++ {
						if !hid[w] {
							vis = append(vis, w)
						}
					}
					for ti, t := range subtree(par, d) {
						via := vias[(ti+mask+d)%3]
						fk := map[string]rune{"tgt": 'A', "bub": 'F', "cap": 'U'}[via] + rune(t-1)
						// from a drawn focus position to the undrawn widget, no frame in between
						f := vis[rng.Intn(len(vis))]
						sc.Steps = append(sc.Steps, key(string(rune('A'+f-1))), key("R"), key(string(fk)))
						all()
						// a frame that still does not contain the focused widget
						sc.Steps = append(sc.Steps, key("R"))
						few()
						// focused while undrawn, then drawn by the next frame
						sc.Steps = append(sc.Steps, key(string(fk)), key(string(rune('a'+j))), key("1"))
						all()
						// the focused widget disappears from the frame
						sc.Steps = append(sc.Steps, key("0"))
						few()
					}
					out = append(out, sc)
				}
			}
		}
	}
	return out
}

// ---- widgets drawn by different parents in different layouts --------------------

// GenReparent: bounded-exhaustive re-parenting under a resting pointer. One
// session per (tree shape of minN..maxN widgets, widget m whose parent q is
// not the root, sibling p of q, mode, capture mask): layout 0 draws m (with its
// subtree) as a child of q, layout 1 as a child of p. Modes: "tabs" - only the
// page that holds m is drawn, so m keeps its screen position; "stack" - q and p
// cover the same rectangle and the one that holds m is on top (z); "side" - both
// are drawn side by side, m moves on the screen. For every widget t of m's
// subtree: focus t, pointer onto t, the switch with the pointer resting, a key,
// every mouse class (press, release, motion, wheel; each with its single
// consumer (widget, phase) or none) at the resting cell, the same at t's new
// place, the switch back, terminal focus out/in, and the pointer leaving the
// root. sample > 0 keeps one in sample of the sessions of size maxN.
func GenReparent(minN, maxN int, rng *rand.Rand, sample int) []*Scn {
	var out []*Scn
	const cols, rows = 24, 8
	for n := minN; n <= maxN; n++ {
		for _, par := range shapes(n) {
			for m := 2; m <= n; m++ {
				q := par[m-1]
				if q == 1 {
					continue
				}
				for p := 2; p <= n; p++ {
					if p == q || par[p-1] != par[q-1] {
						continue
					}
					for _, mode := range []string{"tabs", "stack", "side"} {
						for mask := 0; mask < 1<<n; mask++ {
							if sample > 0 && n == maxN && rng.Intn(sample) != 0 {
								continue
							}
							par1 := append([]int(nil), par...)
							par1[m-1] = p
							sc := &Scn{Kind: "reparent-" + mode, Cols: cols, Rows: rows, Parent: par, Pars: [][]int{par, par1}}
							for i := 0; i < n; i++ {
								sc.Caps = append(sc.Caps, mask&(1<<i) != 0)
							}
							switch mode {
							case "tabs":
								sc.Hid = [][]int{{p}, {q}}
								sc.Lays = [][]Geom{nestedLayoutOf(par, sc.Hid[0], nil, cols, rows), nestedLayoutOf(par1, sc.Hid[1], nil, cols, rows)}
							case "stack":
								tw := map[int]int{p: q}
								sc.Lays = [][]Geom{nestedLayoutOf(par, nil, tw, cols, rows), nestedLayoutOf(par1, nil, tw, cols, rows)}
								sc.Lays[0][q-1].Z, sc.Lays[1][p-1].Z = 1, 1
							default:
								sc.Lays = [][]Geom{nestedLayout(par, cols, rows), nestedLayout(par1, cols, rows)}
							}
							j := 0
							for w := 1; w <= n; w++ {
								for _, ph := range phases {
									sc.Rules = append(sc.Rules, Rule{W: w, Cls: mouseClasses[j].cls, Ph: ph, Cmd: slice(cmd("consume"))})
									j++
								}
							}
							for w := 1; w <= n; w++ {
								sc.Rules = append(sc.Rules, Rule{Cls: "k" + string(rune('A'+w-1)), Ph: "tgt", Cmd: batch(focus(w), cmd("consume"))})
							}
							sc.Rules = append(sc.Rules, genericRules(2)...)
							at := func(c, x, y int) Step {
								mc := mouseClasses[c]
								return Step{T: "mouse", B: mc.b, Rel: mc.rel, X: x, Y: y}
							}
							for _, t := range subtree(par, m) {
								g0, g1 := sc.Lays[0][t-1], sc.Lays[1][t-1]
								if g0.W < 1 || g0.H < 1 || g1.W < 1 || g1.H < 1 {
									continue
								}
								x0, y0 := origin(par, sc.Lays[0], t-1)
								x1, y1 := origin(par1, sc.Lays[1], t-1)
								sc.Steps = append(sc.Steps, key("0"), key(string(rune('A'+t-1))), key("a"), mouse(35, x0, y0),
									key("1"), key("a"))
								for c := 0; c <= j && c < len(mouseClasses); c++ {
									sc.Steps = append(sc.Steps, at(c, x0, y0))
								}
								if x1 != x0 || y1 != y0 {
									sc.Steps = append(sc.Steps, mouse(35, x1, y1), at(rng.Intn(j), x1, y1), at(j, x1, y1))
								}
								sc.Steps = append(sc.Steps, key("0"), at(rng.Intn(j+1), x1, y1), Step{T: "tfout"}, Step{T: "tfin"}, at(j, x1, y1),
									key("1"), mouse(35, cols+3, rows+2), mouse(0, cols+3, rows+2), mouse(35, x1, y1), key("0"), Step{T: "tfout"})
							}
							if len(sc.Steps) > 0 {
								out = append(out, sc)
							}
						}
					}
				}
			}
		}
	}
	return out
}

// ---- random sessions ---------------------------------------------------------

func overlap(a, b Geom) bool {
	return a.X < b.X+b.W && b.X < a.X+a.W && a.Y < b.Y+b.H && b.Y < a.Y+a.H
}

func randLayout(rng *rand.Rand, parent []int, cols, rows int, tidy bool) []Geom {
	n := len(parent)
	if tidy {
		return nestedLayout(parent, cols, rows)
	}
	g := make([]Geom, n)
	g[0] = Geom{W: cols - rng.Intn(3), H: rows - rng.Intn(2)}
	for k := 1; k < n; k++ {
		p := g[parent[k]-1]
		g[k] = Geom{X: rng.Intn(p.W+3) - 1, Y: rng.Intn(p.H+2) - 1, W: rng.Intn(p.W + 2), H: rng.Intn(p.H + 2), Z: rng.Intn(3) - 1}
	}
	// overlapping siblings get distinct z-indices (the property orders by z only)
	for k := 1; k < n; k++ {
		for again := true; again; {
			again = false
			for j := 1; j < k; j++ {
				if parent[j] == parent[k] && g[j].Z == g[k].Z && overlap(g[j], g[k]) {
					g[k].Z = rng.Intn(9) - 4
					again = true
				}
			}
		}
	}
	return g
}

var keyLetters = []string{"a", "b", "c", "d", "e", "f"}

func randCmd(rng *rand.Rand, n int, depth int, allowFocus bool) *CmdD {
	atoms := []string{"redraw", "refresh", "nil", "redraw", "consume"}
	switch x := rng.Intn(10); {
	case x < 5 || depth > 2:
		a := atoms[rng.Intn(len(atoms))]
		if a == "nil" {
			return nil
		}
		return cmd(a)
	case x < 6 && allowFocus:
		// with a consume the event stops there; without, the rest of its route
		// is that of the old or of the new focus (rule R1m)
		switch rng.Intn(4) {
		case 0:
			return focus(1 + rng.Intn(n))
		case 1:
			return slice(cmd("redraw"), focus(1+rng.Intn(n)))
		}
		return batch(focus(1+rng.Intn(n)), cmd("consume"))
	case x < 8:
		var l []*CmdD
		for i := 0; i < rng.Intn(4); i++ {
			l = append(l, randCmd(rng, n, depth+1, allowFocus))
		}
		return batch(l...)
	default:
		var l []*CmdD
		for i := 0; i < rng.Intn(3); i++ {
			l = append(l, randCmd(rng, n, depth+1, allowFocus))
		}
		return slice(l...)
	}
}

// GenRandom: hidden = some widgets are not drawn in some layouts (kind
// "random-hidden": more layouts, focus keys and layout switches).
// repar = some widgets are drawn by another parent in the layouts after the
// first (kind "random-reparent", with hidden "random-hidden-reparent"), half of
// them with a page pair on top of each other that hands a child over.
func GenRandom(rng *rand.Rand, count int, hidden, repar bool) []*Scn {
	var out []*Scn
	for i := 0; i < count; i++ {
		n := 1 + rng.Intn(7)
		par := []int{0}
		for k := 1; k < n; k++ {
			par = append(par, 1+rng.Intn(k))
		}
		cols, rows := 10+rng.Intn(10), 4+rng.Intn(5)
		tidy := rng.Intn(3) == 0
		sc := &Scn{Kind: "random", Cols: cols, Rows: rows, Parent: par}
		for k := 0; k < n; k++ {
			sc.Caps = append(sc.Caps, rng.Intn(3) == 0)
		}
		nlay := 1 + rng.Intn(3)
		if (hidden || repar) && nlay == 1 {
			nlay = 2
		}
		if repar {
			sc.Pars = [][]int{par}
			for k := 1; k < nlay; k++ {
				pk := append([]int(nil), par...)
				for mv := 0; mv < 1+rng.Intn(2) && n > 2; mv++ {
					m := 2 + rng.Intn(n-1)
					under := map[int]bool{}
					for _, w := range subtree(pk, m) {
						under[w] = true
					}
					var cand []int
					for w := 1; w <= n; w++ {
						if !under[w] && w != pk[m-1] {
							cand = append(cand, w)
						}
					}
					if len(cand) > 0 {
						pk[m-1] = cand[rng.Intn(len(cand))]
					}
				}
				sc.Pars = append(sc.Pars, pk)
			}
		}
		for k := 0; k < nlay; k++ {
			sc.Lays = append(sc.Lays, randLayout(rng, sc.parentAt(k), cols, rows, tidy && k == 0))
		}
		var handover []Step
		if repar && rng.Intn(2) == 0 {
			// a page pair q, p on the same rectangle (q on top in layout 0, p in layout 1) hands the child m over
			var ms []int
			for m := 2; m <= n; m++ {
				if par[m-1] != 1 {
					ms = append(ms, m)
				}
			}
			if len(ms) > 0 {
				m := ms[rng.Intn(len(ms))]
				q := par[m-1]
				var ps []int
				for p := 2; p <= n; p++ {
					if p != q && par[p-1] == par[q-1] {
						ps = append(ps, p)
					}
				}
				if len(ps) > 0 {
					p := ps[rng.Intn(len(ps))]
					sc.Pars[1] = append([]int(nil), par...)
					sc.Pars[1][m-1] = p
					sc.Lays[1] = append([]Geom(nil), sc.Lays[0]...)
					sc.Lays[0][p-1], sc.Lays[1][p-1] = sc.Lays[0][q-1], sc.Lays[0][q-1]
					sc.Lays[0][p-1].Z, sc.Lays[1][p-1].Z = sc.Lays[0][q-1].Z-10, sc.Lays[0][q-1].Z+10
					x, y := origin(par, sc.Lays[0], m-1)
					x, y = x+rng.Intn(2), y+rng.Intn(2)
					if x < 0 { // a pointer position has no negative coordinates
						x = 0
					}
					if y < 0 {
						y = 0
					}
					b := []int{0, 35, 64}[rng.Intn(3)]
					handover = []Step{key("0"), mouse(35, x, y), key("1"), mouse(b, x, y), mouse(35, x, y), key("0"), mouse(b, x, y)}
				}
			}
		}
		if rng.Intn(3) == 0 {
			// some widgets draw a surface of their own inside their surface
			for w := 1; w <= n; w++ {
				if rng.Intn(4) == 0 {
					sc.Wrap = append(sc.Wrap, w)
				}
			}
		}
		if repar {
			sc.Kind = "random-reparent"
		}
		if hidden {
			sc.Kind = "random-hidden"
			if repar {
				sc.Kind = "random-hidden-reparent"
			}
			sc.Hid = make([][]int, nlay)
			for k := 0; k < nlay; k++ {
				sc.Hid[k] = []int{}
				for w := 2; w <= n; w++ {
					if rng.Intn(3) == 0 {
						sc.Hid[k] = append(sc.Hid[k], w)
					}
				}
			}
		}
		classes := []string{"init", "u1", "u2", "mp0", "mr0", "mm3", "mm0", "mp64", "enter", "leave", "fin", "fout"}
		for _, k := range keyLetters {
			classes = append(classes, "k"+k)
		}
		for r := 0; r < rng.Intn(4*n+2); r++ {
			cls := classes[rng.Intn(len(classes))]
			ru := Rule{W: rng.Intn(n + 1), Cls: cls}
			if rng.Intn(3) > 0 {
				ru.Ph = phases[rng.Intn(3)]
			}
			switch cls {
			case "enter", "leave", "fin", "fout":
				// notifications answer with redraws (possibly batched), with a consume (as the built-in
				// button does), which must not outlive the notification, now and then with a focus
				// command (answered once: two widgets could hand the focus to and fro for ever) and
				// rarely with a quit, whether an event or a frame sent them
				opts := []*CmdD{nil, cmd("redraw"), batch(cmd("redraw")), slice(batch(), cmd("redraw")),
					cmd("consume"), slice(cmd("consume"), cmd("redraw"))}
				if cls == "enter" || cls == "leave" {
					opts = append(opts, cmd("consume"))
				}
				ru.Cmd = opts[rng.Intn(len(opts))]
				switch x := rng.Intn(40); {
				case x < 6:
					ru.Cmd, ru.N = focus(1+rng.Intn(n)), 1
				case x < 8:
					ru.Cmd, ru.N = batch(cmd("redraw"), focus(1+rng.Intn(n)), cmd("consume")), 1
				case x < 9:
					ru.Cmd = slice(cmd("quit"))
				}
			default:
				ru.Cmd = randCmd(rng, n, 0, true)
				if rng.Intn(25) == 0 {
					ru.Cmd = batch(cmd("quit"), ru.Cmd)
				}
			}
			sc.Rules = append(sc.Rules, ru)
		}
		// explicit focus keys
		for w := 1; w <= n; w++ {
			sc.Rules = append(sc.Rules, Rule{Cls: "k" + string(rune('A'+w-1)), Ph: "tgt", Cmd: slice(cmd("consume"), focus(w))})
		}
		sc.Rules = append(sc.Rules, genericRules(nlay)...)
		hoAt := -1
		if handover != nil {
			hoAt = rng.Intn(4)
		}
		for s := 0; s < 4+rng.Intn(16); s++ {
			if s == hoAt {
				sc.Steps = append(sc.Steps, handover...)
			}
			if hidden && rng.Intn(3) == 0 {
				// focus a widget (drawn or not), perhaps switch the layout, then a key or a custom event
				sc.Steps = append(sc.Steps, key(string(rune('A'+rng.Intn(n)))))
				if rng.Intn(2) == 0 {
					sc.Steps = append(sc.Steps, key(fmt.Sprint(rng.Intn(nlay))))
				}
				if rng.Intn(2) == 0 {
					sc.Steps = append(sc.Steps, Step{T: "custom", N: 1 + rng.Intn(2)})
				} else {
					sc.Steps = append(sc.Steps, key(keyLetters[rng.Intn(len(keyLetters))]))
				}
				continue
			}
			switch x := rng.Intn(20); {
			case x < 5:
				sc.Steps = append(sc.Steps, key(keyLetters[rng.Intn(len(keyLetters))]))
			case x < 11:
				b := []int{0, 0, 35, 35, 32, 64}[rng.Intn(6)]
				sc.Steps = append(sc.Steps, Step{T: "mouse", B: b, Rel: b == 0 && rng.Intn(2) == 0, X: rng.Intn(cols + 1), Y: rng.Intn(rows + 1)})
			case x < 12:
				sc.Steps = append(sc.Steps, Step{T: "tfout"})
			case x < 13:
				sc.Steps = append(sc.Steps, Step{T: "tfin"})
			case x < 15:
				sc.Steps = append(sc.Steps, Step{T: "custom", N: 1 + rng.Intn(2)})
			case x < 17:
				sc.Steps = append(sc.Steps, key(string(rune('A'+rng.Intn(n)))))
			case x < 19:
				sc.Steps = append(sc.Steps, key("R"))
			default:
				sc.Steps = append(sc.Steps, key(fmt.Sprint(rng.Intn(nlay))))
			}
		}
		out = append(out, sc)
	}
	return out
}

// ---- hand-written corner cases -------------------------------------------------

func Fixed() []*Scn {
	var out []*Scn
	par := []int{0, 1, 1, 2} // 1 -> {2 -> {4}, 3}
	lay := nestedLayout(par, 20, 6)
	base := func(kind string, caps []bool, rules []Rule, steps ...Step) *Scn {
		return &Scn{Kind: kind, Cols: 20, Rows: 6, Parent: par, Caps: caps, Lays: [][]Geom{lay},
			Rules: append(rules, genericRules(1)...), Steps: steps}
	}
	none := []bool{false, false, false, false}
	all := []bool{true, true, true, true}
	x4, y4 := origin(par, lay, 3)
	x3, y3 := origin(par, lay, 2)
	// terminal focus lost and regained while the pointer is inside
	out = append(out, base("fixed-termfocus", none, nil,
		mouse(35, x4, y4), Step{T: "tfout"}, Step{T: "tfin"}, mouse(35, x4, y4), mouse(35, x3, y3), Step{T: "tfout"}, mouse(35, 0, 0)))
	// pointer leaves the root surface, comes back
	small := base("fixed-leave", none, nil, mouse(35, 1, 1), mouse(35, 19, 5), mouse(35, 1, 1), mouse(35, 30, 30), mouse(0, 2, 2))
	small.Lays = [][]Geom{nestedLayout(par, 12, 4)}
	out = append(out, small)
	// focus moves without any redraw: the very next keys must follow the new path
	out = append(out, base("fixed-focus-noredraw", all,
		[]Rule{{W: 1, Cls: "kA", Ph: "tgt", Cmd: batch(focus(4), cmd("consume"))}, {W: 4, Cls: "kB", Ph: "tgt", Cmd: batch(focus(3), cmd("consume"))},
			{W: 3, Cls: "kC", Ph: "bub", Cmd: cmd("consume")}},
		key("A"), key("a"), key("b"), key("B"), key("a"), key("C"), key("R"), key("a")))
	// focusing the focused widget: no notifications
	out = append(out, base("fixed-refocus-same", none,
		[]Rule{{Cls: "kA", Ph: "tgt", Cmd: batch(focus(2), cmd("consume"))}},
		key("A"), key("A"), key("R"), key("A"), key("a")))
	// nested batches of both kinds, every command once
	out = append(out, base("fixed-batches", none,
		[]Rule{{W: 1, Cls: "ka", Ph: "tgt", Cmd: batch(slice(batch(cmd("redraw")), cmd("refresh")), batch(), slice(focus(3), batch(cmd("consume"))))},
			{W: 3, Cls: "kb", Ph: "tgt", Cmd: slice(cmd("refresh"))}, {W: 1, Cls: "kb", Ph: "bub", Cmd: batch(batch(batch(cmd("redraw"))))}},
		key("R"), key("a"), key("b"), key("b"), key("R"), key("R")))
	// quit in the capture phase without consume: the event still completes, then the run ends
	out = append(out, base("fixed-quit-capture", all,
		[]Rule{{W: 1, Cls: "ka", Ph: "cap", Cmd: cmd("quit")}, {Cls: "kA", Ph: "tgt", Cmd: batch(focus(4), cmd("consume"))}},
		key("A"), key("R"), key("a"), key("b")))
	// overlapping siblings: the upper one (by z) is under the pointer, the lower is not
	op := []int{0, 1, 1, 2, 3}
	ol := []Geom{{W: 16, H: 6}, {X: 1, Y: 1, W: 8, H: 4, Z: 0}, {X: 5, Y: 2, W: 8, H: 3, Z: 2}, {X: 4, Y: 1, W: 3, H: 2}, {X: 0, Y: 0, W: 2, H: 2}}
	ol2 := []Geom{{W: 16, H: 6}, {X: 1, Y: 1, W: 8, H: 4, Z: 3}, {X: 5, Y: 2, W: 8, H: 3, Z: 2}, {X: 4, Y: 1, W: 3, H: 2}, {X: 0, Y: 0, W: 2, H: 2}}
	out = append(out, &Scn{Kind: "fixed-overlap", Cols: 16, Rows: 6, Parent: op, Caps: []bool{false, true, true, false, false},
		Lays: [][]Geom{ol, ol2}, Rules: genericRules(2),
		Steps: []Step{mouse(35, 6, 3), mouse(0, 6, 3), mouse(35, 2, 2), mouse(35, 6, 3), key("1"), mouse(35, 6, 3), mouse(35, 12, 4)}})
	// layout change under a resting pointer: hover follows the new frame
	out = append(out, &Scn{Kind: "fixed-relayout", Cols: 16, Rows: 6, Parent: []int{0, 1, 1}, Caps: []bool{false, false, false},
		Lays:  [][]Geom{{{W: 16, H: 6}, {X: 0, Y: 0, W: 8, H: 6}, {X: 8, Y: 0, W: 8, H: 6}}, {{W: 16, H: 6}, {X: 8, Y: 0, W: 8, H: 6}, {X: 0, Y: 0, W: 8, H: 6}}, {{W: 4, H: 2}, {X: 0, Y: 0, W: 2, H: 2}, {X: 2, Y: 0, W: 2, H: 2}}},
		Rules: append([]Rule{{Cls: "enter", Cmd: cmd("redraw")}}, genericRules(3)...),
		Steps: []Step{mouse(35, 3, 3), key("1"), key("R"), key("2"), key("0"), Step{T: "tfout"}, key("1")}})
	// custom events are routed like keys
	out = append(out, base("fixed-custom", []bool{true, false, true, false},
		[]Rule{{W: 2, Cls: "u1", Ph: "bub", Cmd: cmd("consume")}, {Cls: "kA", Ph: "tgt", Cmd: batch(focus(4), cmd("consume"))}, {W: 1, Cls: "u2", Ph: "cap", Cmd: slice(cmd("consume"), cmd("redraw"))}},
		Step{T: "custom", N: 1}, key("A"), key("R"), Step{T: "custom", N: 1}, Step{T: "custom", N: 2}, Step{T: "custom", N: 3}))
	// a handler focuses a dialog (4) that only the next layout draws: the keys that arrive before that frame
	// go to the dialog and not along the route of the last frame; when the dialog disappears again while
	// focused the focus may move on, with one focus-out and one focus-in
	dp := []int{0, 1, 2, 1} // 1 -> {2 -> {3}, 4}
	dl := nestedLayout(dp, 20, 6)
	out = append(out, &Scn{Kind: "fixed-focus-undrawn", Cols: 20, Rows: 6, Parent: dp, Caps: []bool{true, true, false, false},
		Lays: [][]Geom{dl, dl}, Hid: [][]int{{4}, {}},
		Rules: append([]Rule{{W: 1, Cls: "init", Ph: "tgt", Cmd: focus(3)}, {W: 1, Cls: "kn", Ph: "bub", Cmd: focus(4)}, {W: 1, Cls: "kn", Ph: "tgt", Cmd: slice(focus(4), cmd("consume"))},
			{W: 4, Cls: "kn", Ph: "tgt", Cmd: batch(focus(3), cmd("consume"))}, {W: 4, Cls: "u2", Ph: "tgt", Cmd: cmd("consume")},
			{W: 1, Cls: "kz", Ph: "cap", Cmd: cmd("consume")}}, genericRules(2)...),
		Steps: []Step{key("y"), key("n"), key("y"), Step{T: "custom", N: 1}, Step{T: "custom", N: 2}, key("z"), key("1"), key("y"), Step{T: "custom", N: 1},
			key("0"), key("y"), key("n"), key("y"), key("R"), key("y"), key("n"), key("n"), key("y"), key("n"), key("1"), key("y")}})
	// a tab view: the root shows page 2 or page 3, both wrap the same leaf 4 at the same place. After the page
	// switch under a resting pointer the old page has left the chain (leave) and the new one entered it, and
	// the next click is routed through the new page
	tp0, tp1 := []int{0, 1, 1, 2}, []int{0, 1, 1, 3}
	tl0, tl1 := nestedLayoutOf(tp0, []int{3}, nil, 20, 6), nestedLayoutOf(tp1, []int{2}, nil, 20, 6)
	tx, ty := origin(tp0, tl0, 3)
	out = append(out, &Scn{Kind: "fixed-reparent", Cols: 20, Rows: 6, Parent: tp0, Pars: [][]int{tp0, tp1}, Caps: []bool{false, true, true, false},
		Lays: [][]Geom{tl0, tl1}, Hid: [][]int{{3}, {2}},
		Rules: append([]Rule{{Cls: "kA", Ph: "tgt", Cmd: batch(focus(4), cmd("consume"))}}, genericRules(2)...),
		Steps: []Step{mouse(35, tx+1, ty), key("1"), mouse(0, tx+1, ty), Step{T: "mouse", B: 0, Rel: true, X: tx + 1, Y: ty}, mouse(64, tx+1, ty),
			key("A"), key("y"), key("0"), key("y"), mouse(0, tx+1, ty), key("1"), Step{T: "tfout"}, Step{T: "tfin"}, mouse(35, tx+1, ty), key("0"),
			mouse(35, 40, 40), key("1"), mouse(35, tx, ty), mouse(35, 40, 40)}})
	// the focus-out handler of the widget losing the focus (2 -> 4) names a third widget (3): however the two
	// commands compete, every change is one focus-out to the holder and one focus-in to its successor
	out = append(out, base("fixed-focusout-refocus", []bool{true, false, false, false},
		[]Rule{{W: 4, Cls: "fout", Cmd: focus(3), N: 1}, {W: 1, Cls: "init", Ph: "tgt", Cmd: focus(4)},
			{Cls: "kn", Ph: "tgt", Cmd: batch(focus(2), cmd("consume"))}, {W: 2, Cls: "fin", Cmd: focus(4), N: 1}},
		key("y"), key("n"), key("y"), key("R"), key("y"), arm(), key("n"), key("y")))
	// the root, capturing, hands the focus from 4 (under 2) to 3 and lets the key go on: one route, old or new
	out = append(out, base("fixed-capture-moves-focus", all,
		[]Rule{{W: 1, Cls: "init", Ph: "tgt", Cmd: focus(4)}, {W: 1, Cls: "kn", Ph: "cap", Cmd: focus(3)}, {W: 1, Cls: "km", Ph: "cap", Cmd: focus(4)}},
		key("R"), key("y"), key("n"), key("y"), key("m"), key("R"), key("n"), key("y")))
	// the target hands the focus on without consuming the key; the new holder consumes its focus-in
	// (vxfw.ConsumeAndRedraw): the key still bubbles
	out = append(out, base("fixed-focusin-consumes", none,
		[]Rule{{W: 1, Cls: "init", Ph: "tgt", Cmd: focus(4)}, {W: 4, Cls: "kn", Ph: "tgt", Cmd: focus(3)}, {W: 3, Cls: "kn", Ph: "tgt", Cmd: focus(4)},
			{Cls: "fin", Cmd: slice(cmd("redraw"), cmd("consume"))}, {W: 4, Cls: "fout", Cmd: cmd("consume")}},
		key("R"), key("n"), key("y"), key("n"), key("y")))
	// a widget (4) appears under the resting pointer and answers its mouse-enter, sent by the frame, with quit
	out = append(out, &Scn{Kind: "fixed-quit-on-frame", Cols: 20, Rows: 6, Parent: dp, Caps: []bool{false, true, false, false},
		Lays: [][]Geom{dl, dl}, Hid: [][]int{{4}, {}},
		Rules: append([]Rule{{W: 4, Cls: "enter", Cmd: cmd("quit")}}, genericRules(2)...),
		Steps: []Step{mouse(35, dl[3].X, dl[3].Y), key("y"), key("1"), key("y"), key("y")}})
	// widget 2 draws its content in a surface of its own inside its surface (as list.Dynamic draws its cursor
	// around the selected row): it is one widget under the pointer and one ancestor of 4
	sn := base("fixed-selfnest", all, []Rule{{Cls: "kA", Ph: "tgt", Cmd: batch(focus(4), cmd("consume"))}},
		mouse(35, x4, y4), mouse(0, x4, y4), mouse(35, x4-1, y4), mouse(35, x3, y3), key("A"), key("y"), key("R"), key("y"), mouse(35, x4, y4), Step{T: "tfout"})
	sn.Wrap = []int{2}
	out = append(out, sn)
	return out
}

// ---- commands returned for notifications and while the event is being routed -------

func arm() Step    { return Step{T: "arm"} }
func disarm() Step { return Step{T: "arm", K: "off"} }

func capsOf(n, mask int) []bool {
	c := make([]bool, n)
	for i := range c {
		c[i] = mask&(1<<i) != 0
	}
	return c
}

// pathOf returns the widgets from the root to w (1-based ids).
func pathOf(parent []int, w int) []int {
	var p []int
	for ; w > 0; w = parent[w-1] {
		p = append([]int{w}, p...)
	}
	return p
}

// consumerRules: consumer j = (widget, phase) answers key letter 'a'+j with consume.
func consumerRules(n int) (rs []Rule, j int) {
	for w := 1; w <= n; w++ {
		for _, ph := range phases {
			rs = append(rs, Rule{W: w, Cls: "k" + string(rune('a'+j)), Ph: ph, Cmd: cmd("consume")})
			j++
		}
	}
	return rs, j
}

// GenNested: bounded-exhaustive focus commands returned by focus-out / focus-in
// handlers. One session per (tree shape, capture mask, notification class,
// widget c): the first widget that is sent that notification after an "arm"
// answers it with a focus command for c (alone, or in a batch / slice with a
// redraw). For every ordered pair (x, b) of widgets: the focus is put on x with
// the answers spent, they are armed, a handler (the target with consume, the
// root bubbling without, the root capturing with consume, by turns) focuses b,
// and unconsumed keys plus one with a random single consumer show who holds the
// focus before and after a frame. sample > 0 keeps one in sample of the
// sessions of size maxN.
func GenNested(minN, maxN int, rng *rand.Rand, sample int) []*Scn {
	var out []*Scn
	vias := []rune{'A', 'F', 'U'}
	for n := minN; n <= maxN; n++ {
		for _, par := range shapes(n) {
			for mask := 0; mask < 1<<n; mask++ {
				for ci, cls := range []string{"fout", "fin"} {
					for c := 1; c <= n; c++ {
						if sample > 0 && n == maxN && rng.Intn(sample) != 0 {
							continue
						}
						sc := &Scn{Kind: "nested-focus-" + cls, Cols: 24, Rows: 8, Parent: par, Caps: capsOf(n, mask)}
						sc.Lays = [][]Geom{nestedLayout(par, 24, 8)}
						ans := []*CmdD{focus(c), batch(cmd("redraw"), focus(c)), slice(focus(c), batch())}[(mask+c+ci)%3]
						sc.Rules = append(sc.Rules, Rule{Cls: cls, Cmd: ans, N: 1})
						cons, j := consumerRules(n)
						sc.Rules = append(sc.Rules, cons...)
						for w := 1; w <= n; w++ {
							sc.Rules = append(sc.Rules, Rule{Cls: "k" + string(rune('A'+w-1)), Ph: "tgt", Cmd: batch(focus(w), cmd("consume"))})
							sc.Rules = append(sc.Rules, Rule{W: 1, Cls: "k" + string(rune('F'+w-1)), Ph: "bub", Cmd: focus(w)})
							sc.Rules = append(sc.Rules, Rule{W: 1, Cls: "k" + string(rune('F'+w-1)), Ph: "tgt", Cmd: slice(focus(w), cmd("consume"))})
							sc.Rules = append(sc.Rules, Rule{W: 1, Cls: "k" + string(rune('U'+w-1)), Ph: "cap", Cmd: batch(cmd("consume"), focus(w))})
							sc.Rules = append(sc.Rules, Rule{Cls: "k" + string(rune('U'+w-1)), Ph: "tgt", Cmd: batch(cmd("consume"), focus(w))})
						}
						sc.Rules = append(sc.Rules, genericRules(1)...)
						k := 0
						for x := 1; x <= n; x++ {
							for b := 1; b <= n; b++ {
								if b == x {
									continue
								}
								via := vias[(k+mask+c)%3]
								k++
								sc.Steps = append(sc.Steps, disarm(), key(string(rune('A'+x-1))), arm(), key(string(via+rune(b-1))),
									key("y"), key(string(rune('a'+rng.Intn(j)))))
								if k%2 == 0 {
									sc.Steps = append(sc.Steps, key("R"), key("y"))
								}
							}
						}
						out = append(out, sc)
					}
				}
			}
		}
	}
	return out
}

// GenMidRoute: bounded-exhaustive focus commands WITHOUT consume from the
// handlers an event passes on its way, and consume commands returned for the
// focus notifications that result. One session per (tree shape, capture mask,
// variant): for every focus position x, every capturing widget a on the path to x
// and every widget b, the key of (a, b) makes a's CaptureEvent return a focus
// command for b; the key of b alone makes the target return one; the root does
// the same when bubbling. An unconsumed key follows each. Variant "plain":
// notifications are answered with nothing; "fin-consumes" / "fout-consumes":
// every focus-in (focus-out) handler returns a consume (with a redraw, as
// vxfw.ConsumeAndRedraw), which concerns the notification and not the key.
func GenMidRoute(minN, maxN int, rng *rand.Rand, sample int) []*Scn {
	var out []*Scn
	for n := minN; n <= maxN; n++ {
		for _, par := range shapes(n) {
			for mask := 0; mask < 1<<n; mask++ {
				for _, variant := range []string{"plain", "fin-consumes", "fout-consumes"} {
					if sample > 0 && n == maxN && rng.Intn(sample) != 0 {
						continue
					}
					sc := &Scn{Kind: "midroute-" + variant, Cols: 24, Rows: 8, Parent: par, Caps: capsOf(n, mask)}
					sc.Lays = [][]Geom{nestedLayout(par, 24, 8)}
					switch variant {
					case "fin-consumes":
						sc.Rules = append(sc.Rules, Rule{Cls: "fin", Cmd: batch(cmd("redraw"), cmd("consume"))})
					case "fout-consumes":
						sc.Rules = append(sc.Rules, Rule{Cls: "fout", Cmd: cmd("consume")})
					}
					for a := 1; a <= n; a++ {
						for b := 1; b <= n; b++ {
							sc.Rules = append(sc.Rules, Rule{W: a, Cls: "k" + string(rune('a'+(a-1)*n+b-1)), Ph: "cap", Cmd: focus(b)})
						}
					}
					for b := 1; b <= n; b++ {
						sc.Rules = append(sc.Rules, Rule{Cls: "k" + string(rune('q'+b-1)), Ph: "tgt", Cmd: slice(focus(b))})
						sc.Rules = append(sc.Rules, Rule{W: 1, Cls: "k" + string(rune('F'+b-1)), Ph: "bub", Cmd: focus(b)})
						sc.Rules = append(sc.Rules, Rule{Cls: "k" + string(rune('A'+b-1)), Ph: "tgt", Cmd: batch(focus(b), cmd("consume"))})
					}
					sc.Rules = append(sc.Rules, genericRules(1)...)
					for x := 1; x <= n; x++ {
						for _, a := range pathOf(par, x) {
							if !sc.Caps[a-1] {
								continue
							}
							for b := 1; b <= n; b++ {
								sc.Steps = append(sc.Steps, key(string(rune('A'+x-1))))
								if rng.Intn(2) == 0 {
									sc.Steps = append(sc.Steps, key("R"))
								}
								sc.Steps = append(sc.Steps, key(string(rune('a'+(a-1)*n+b-1))), key("y"))
							}
						}
						for b := 1; b <= n; b++ {
							sc.Steps = append(sc.Steps, key(string(rune('A'+x-1))), key(string(rune('q'+b-1))), key("y"))
							if rng.Intn(3) == 0 {
								sc.Steps = append(sc.Steps, key(string(rune('A'+x-1))), key(string(rune('F'+b-1))), key("y"))
							}
						}
					}
					out = append(out, sc)
				}
			}
		}
	}
	return out
}

// GenTick: commands returned for the notifications a FRAME sends (no event is
// being handled). One session per (tree shape, non-root widget d that layout 0
// leaves out, widget t of d's subtree, answer): the pointer rests where t will
// be, the switch to layout 1 makes t appear under it (mouse-enter on the
// frame), the switch back removes it (mouse-leave on the frame, and, when t
// holds the focus, the focus change away from it). Answers: quit for the
// enter / the leave / the focus-out of t / the focus-in that follows it; a focus
// command (with a consume) for the enter; a focus command for the focus-out of
// the vanished widget. A quit ends the run with that frame.
func GenTick(minN, maxN int, rng *rand.Rand, sample int) []*Scn {
	var out []*Scn
	kinds := []string{"quit-enter", "quit-leave", "quit-fout", "quit-fin", "focus-enter", "focus-fout", "quit-enter-batch"}
	for n := minN; n <= maxN; n++ {
		for _, par := range shapes(n) {
			for d := 2; d <= n; d++ {
				for _, t := range subtree(par, d) {
					for ki, kind := range kinds {
						if sample > 0 && n == maxN && rng.Intn(sample) != 0 {
							continue
						}
						mask := rng.Intn(1 << n)
						lay := nestedLayout(par, 24, 8)
						if lay[t-1].W < 1 || lay[t-1].H < 1 {
							continue
						}
						sc := &Scn{Kind: "tick-" + kind, Cols: 24, Rows: 8, Parent: par, Caps: capsOf(n, mask),
							Lays: [][]Geom{lay, lay}, Hid: [][]int{{d}, {}}}
						c := 1 + (ki+t+d)%n
						switch kind {
						case "quit-enter":
							sc.Rules = append(sc.Rules, Rule{W: t, Cls: "enter", Cmd: cmd("quit")})
						case "quit-enter-batch":
							sc.Rules = append(sc.Rules, Rule{W: t, Cls: "enter", Cmd: slice(cmd("redraw"), batch(cmd("quit")))})
						case "quit-leave":
							sc.Rules = append(sc.Rules, Rule{W: t, Cls: "leave", Cmd: batch(cmd("quit"))})
						case "quit-fout":
							sc.Rules = append(sc.Rules, Rule{W: t, Cls: "fout", Cmd: cmd("quit"), N: 1})
						case "quit-fin":
							sc.Rules = append(sc.Rules, Rule{W: 1, Cls: "fin", Cmd: slice(cmd("quit")), N: 1})
						case "focus-enter":
							sc.Rules = append(sc.Rules, Rule{W: t, Cls: "enter", Cmd: batch(focus(c), cmd("consume")), N: 1})
						case "focus-fout":
							sc.Rules = append(sc.Rules, Rule{W: t, Cls: "fout", Cmd: focus(c), N: 1})
						}
						for w := 1; w <= n; w++ {
							sc.Rules = append(sc.Rules, Rule{Cls: "k" + string(rune('A'+w-1)), Ph: "tgt", Cmd: batch(focus(w), cmd("consume"))})
						}
						sc.Rules = append(sc.Rules, genericRules(2)...)
						x, y := origin(par, lay, t-1)
						sc.Steps = []Step{disarm(), mouse(35, x, y), key("y"), key("1"), key("y"), key(string(rune('A' + t - 1))), key("y"), arm(),
							key("0"), key("y"), key("1"), key("y"), key("0"), key("y")}
						out = append(out, sc)
					}
				}
			}
		}
	}
	return out
}

// GenSelfNest: the route family (variant without frames after focus changes)
// on trees in which the widgets of a set draw a surface of their own inside
// their surface; every non-empty set for sizes below maxN, a random one each
// for size maxN.
func GenSelfNest(maxN int, rng *rand.Rand, sample int) []*Scn {
	var out []*Scn
	for _, sc := range GenRoute(maxN, rng, sample) {
		n := len(sc.Parent)
		if sc.Kind != "route-stale" {
			continue
		}
		lo, hi := 1, 1<<n
		if n == maxN {
			lo = 1 + rng.Intn(1<<n-1)
			hi = lo + 1
		}
		for set := lo; set < hi; set++ {
			cp := *sc
			cp.Kind = "route-selfnest"
			cp.Wrap = nil
			for w := 1; w <= n; w++ {
				if set&(1<<(w-1)) != 0 {
					cp.Wrap = append(cp.Wrap, w)
				}
			}
			out = append(out, &cp)
		}
	}
	return out
}

// ---- many siblings of one z-index --------------------------------------------------

// tiePoints lists the cells of the fan parent fp (absolute coordinates) at which
// at least two of its children of the highest z-index found there have the same
// z-index: which of them is on top is not stated, but it is one of them for a
// frame and a point.
func tiePoints(par []int, g []Geom, fp int) [][2]int {
	ox, oy := origin(par, g, fp-1)
	var pts [][2]int
	for y := 0; y < g[fp-1].H; y++ {
		for x := 0; x < g[fp-1].W; x++ {
			best, cnt := 0, 0
			for k := range par {
				if par[k] != fp || x < g[k].X || x >= g[k].X+g[k].W || y < g[k].Y || y >= g[k].Y+g[k].H {
					continue
				}
				switch {
				case cnt == 0 || g[k].Z > best:
					best, cnt = g[k].Z, 1
				case g[k].Z == best:
					cnt++
				}
			}
			if cnt > 1 && ox+x >= 0 && oy+y >= 0 {
				pts = append(pts, [2]int{ox + x, oy + y})
			}
		}
	}
	return pts
}

// GenTies: one surface (the root's, or that of the root's only child) with 13 to
// 18 children, one row each, most of them of z-index 0; a few of them are
// rectangles that overlap their siblings, one or two are raised or lowered. The
// pointer rests on a cell shared by siblings of equal z-index while frames are
// drawn from the unchanged tree and mouse events of every kind arrive at that
// cell; then it moves, the layout is switched (other children raised) and back,
// the terminal loses and regains the focus.
func GenTies(rng *rand.Rand, count int) []*Scn {
	var out []*Scn
	for i := 0; i < count; i++ {
		m := 13 + rng.Intn(6)
		par, fp := []int{0}, 1
		if rng.Intn(3) == 0 {
			par, fp = append(par, 1), 2
		}
		first := len(par)
		for k := 0; k < m; k++ {
			par = append(par, fp)
		}
		cols, rows := 22+rng.Intn(8), m+2+rng.Intn(3)
		g := make([]Geom, len(par))
		g[0] = Geom{W: cols, H: rows}
		if fp == 2 {
			g[1] = Geom{X: 1, Y: 1, W: cols - 1, H: rows - 1}
		}
		pw, ph := g[fp-1].W, g[fp-1].H
		for k := 0; k < m; k++ {
			g[first+k] = Geom{X: 0, Y: k, W: pw, H: 1}
		}
		var tall []int
		for t := 0; t < 2+rng.Intn(3); t++ {
			k := first + rng.Intn(m)
			g[k] = Geom{X: rng.Intn(pw / 2), Y: rng.Intn(ph - 3), W: 4 + rng.Intn(pw/2), H: 2 + rng.Intn(4)}
			tall = append(tall, k)
		}
		// a child of its own below one or two of the rectangles: the chain goes on below the tie
		for _, k := range tall[:rng.Intn(3)] {
			par = append(par, k+1)
			g = append(g, Geom{X: 0, Y: 0, W: g[k].W, H: g[k].H})
		}
		n := len(par)
		raise := func(l []Geom) {
			for r := 0; r < 1+rng.Intn(2); r++ {
				l[first+rng.Intn(m)].Z = 1
			}
			if rng.Intn(3) == 0 {
				l[first+rng.Intn(m)].Z = -1
			}
		}
		l0 := append([]Geom(nil), g...)
		raise(l0)
		sc := &Scn{Kind: "ties", Cols: cols, Rows: rows, Parent: par, Lays: [][]Geom{l0}}
		if rng.Intn(2) == 0 {
			l1 := append([]Geom(nil), g...)
			raise(l1)
			sc.Lays = append(sc.Lays, l1)
		}
		nlay := len(sc.Lays)
		for k := 0; k < n; k++ {
			sc.Caps = append(sc.Caps, rng.Intn(3) == 0)
		}
		classes := []string{"mp0", "mr0", "mm3", "mm0", "mp64"}
		for r := 0; r < rng.Intn(5); r++ {
			ru := Rule{W: 1 + rng.Intn(n), Cls: classes[rng.Intn(len(classes))], Ph: phases[rng.Intn(3)], Cmd: cmd("consume")}
			if rng.Intn(3) == 0 {
				ru.Cmd = batch(cmd("redraw"), cmd("consume"))
			}
			sc.Rules = append(sc.Rules, ru)
		}
		if rng.Intn(4) == 0 {
			// hover answered with a redraw (as a button does): a frame follows every change of the chain
			sc.Rules = append(sc.Rules, Rule{Cls: []string{"enter", "leave"}[rng.Intn(2)], Cmd: cmd("redraw")})
		}
		sc.Rules = append(sc.Rules, genericRules(nlay)...)
		pts := tiePoints(par, l0, fp)
		point := func() (int, int) {
			if len(pts) > 0 && rng.Intn(6) > 0 {
				p := pts[rng.Intn(len(pts))]
				return p[0], p[1]
			}
			return rng.Intn(cols + 1), rng.Intn(rows + 1)
		}
		at := func(b int, rel bool, x, y int) Step { return Step{T: "mouse", B: b, Rel: rel, X: x, Y: y} }
		x, y := point()
		if rng.Intn(2) == 0 {
			sc.Steps = append(sc.Steps, at(35, false, x, y), key("R"), at(0, false, x, y), key("R"), key("R"), at(0, true, x, y))
		}
		for s := 0; s < 8+rng.Intn(10); s++ {
			switch r := rng.Intn(20); {
			case r < 6:
				sc.Steps = append(sc.Steps, key("R"))
			case r < 13:
				b := []int{0, 0, 35, 35, 32, 64}[rng.Intn(6)]
				sc.Steps = append(sc.Steps, at(b, b == 0 && rng.Intn(2) == 0, x, y))
			case r < 15:
				x, y = point()
				sc.Steps = append(sc.Steps, at(35, false, x, y))
			case r < 17:
				sc.Steps = append(sc.Steps, key(fmt.Sprint(rng.Intn(nlay))))
			case r < 18:
				sc.Steps = append(sc.Steps, Step{T: "tfout"}, Step{T: "tfin"})
			default:
				sc.Steps = append(sc.Steps, key(keyLetters[rng.Intn(len(keyLetters))]))
			}
		}
		out = append(out, sc)
	}
	return out
}

// FixedTies: 13 children of the root, one row each; the first is raised and lies
// elsewhere, the seventh is a rectangle over the rows of the third to sixth (same
// z-index). The pointer comes to rest on a cell of the fourth that the seventh
// covers too; frames are drawn and buttons pressed there, nothing else changes.
func FixedTies() *Scn {
	par := []int{0}
	g := []Geom{{W: 24, H: 22}}
	for k := 0; k < 13; k++ {
		par = append(par, 1)
		g = append(g, Geom{X: 0, Y: k, W: 20, H: 1})
	}
	g[1].Y, g[1].Z = 20, 1
	g[7] = Geom{X: 2, Y: 2, W: 10, H: 4}
	return &Scn{Kind: "fixed-ties", Cols: 24, Rows: 22, Parent: par, Caps: make([]bool, len(par)), Lays: [][]Geom{g}, Rules: genericRules(1),
		Steps: []Step{key("R"), mouse(35, 5, 3), key("R"), mouse(35, 5, 3), key("R"), mouse(0, 5, 3), Step{T: "mouse", B: 0, Rel: true, X: 5, Y: 3}, key("R"), key("R"),
			mouse(35, 5, 8), mouse(35, 5, 3), key("R"), Step{T: "tfout"}, Step{T: "tfin"}, mouse(35, 5, 3), key("R")}}
}
