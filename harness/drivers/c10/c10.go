// Package c10 runs concurrent-use scenarios against a real Vaxis built with
// the race detector: posters, input floods (including a lone ESC around the
// parser's timer), queries from other goroutines, rendering, and Close /
// Suspend / Resume at arbitrary moments, with a small event queue.
// Observations are judged by specs/conc/Conc_Trace.tla; the interleavings
// the design allows are explored by specs/conc/Shutdown.tla.
package c10

import (
	"fmt"
	"math/rand"
	"runtime"
	"sort"
	"strings"
	"sync"
	"sync/atomic"
	"time"

	"git.sr.ht/~rockorager/vaxis"

	"verif/harness/fakecon"
	"verif/harness/responder"
	"verif/harness/sess"
)

type Poster struct {
	Mode string // post | blocking | sync | resize
	N    int
}

type Scn struct {
	Kind     string
	QSize    int
	Mask     int
	Keys     int    // key presses injected (flood)
	Chunk    int    // keys per chunk
	Reader   string // drain | none | slow
	Posters  []Poster
	Query    bool   // query calls from another goroutine during the session
	Render   int    // frames rendered by the main goroutine meanwhile
	WriteLag bool   // during the end phase the console's Write returns 3 ms after the terminal has answered
	LoneEsc  bool   // a lone ESC goes in right before the end
	End      string // close | suspend-close | suspend-resume-close | close-close
	// Resizes > 0 (kind "resize-handoff"): the terminal changes size that many times; each further change
	// happens right after a Render has read the previous size (a schedule of specs/conc/ResizeFlag.tla)
	Resizes int `json:",omitempty"`
	Seed    int64
}

type Result struct {
	Returned bool     `json:"returned"`
	What     string   `json:"what"`
	Leaked   []string `json:"leaked"`
	Stuck    []string `json:"stuck"`
	Orders   [][]int  `json:"orders"`
	BSent    []int    `json:"bsent"`
	BGot     []int    `json:"bgot"`
	Panic    string   `json:"panic"`
	Race     string   `json:"race"`
	RWant    []int    `json:"rwant"` // resize hand-off: the terminal's final size ...
	RGot     []int    `json:"rgot"`  // ... and the size the library works with after the renders that follow
}

type pev struct{ P, N int }

// libGoroutines returns a description of every goroutine started by the library.
func libGoroutines() []string {
	buf := make([]byte, 1<<20)
	n := runtime.Stack(buf, true)
	var out []string
	for _, g := range strings.Split(string(buf[:n]), "\n\n") {
		i := strings.LastIndex(g, "created by ")
		if i < 0 {
			continue
		}
		creator := g[i+len("created by "):]
		if j := strings.IndexAny(creator, " \n"); j >= 0 {
			creator = creator[:j]
		}
		if strings.Contains(creator, "rockorager/vaxis") && !strings.Contains(creator, "verif/harness") {
			lines := strings.Split(g, "\n")
			top := ""
			if len(lines) > 1 {
				top = strings.TrimSpace(lines[1])
				if k := strings.IndexByte(top, '('); k > 0 {
					top = top[:k]
				}
			}
			out = append(out, ascii(creator+" at "+top))
		}
	}
	sort.Strings(out)
	return out
}

func ascii(s string) string {
	b := []byte(s)
	for i := range b {
		if b[i] < 0x20 || b[i] > 0x7e || b[i] == '"' || b[i] == '\\' {
			b[i] = '?'
		}
	}
	return string(b)
}

func call(name string, fn func(), res *Result) bool {
	done := make(chan struct{})
	go func() { fn(); close(done) }()
	select {
	case <-done:
		return true
	case <-time.After(4 * time.Second):
		res.Returned = false
		res.What = name + " did not return"
		return false
	}
}

// resizeHandoff: the terminal's size changes while the main goroutine is inside Render, at the point
// ResizeFlag.tla's counterexample names: after Render has read the size it was told about and before it
// returns. Afterwards the application renders as it would on the Redraw events it got; the library must
// end up working with the terminal's final size.
func resizeHandoff(sc *Scn, res *Result) *Result {
	sess.ScrubEnv()
	caps := responder.FromMask(sc.Mask&^(1<<3|1<<7), false) // size comes from the console (no in-band or XTWINOPS reports)
	con := fakecon.New(20, 5)
	resp := responder.New(caps, 20, 5, con.Inject)
	con.OnWrite = resp.OnWrite
	vx, err := vaxis.New(vaxis.Options{WithConsole: con, NoSignals: true, EventQueueSize: 64})
	if err != nil {
		res.What = "start: " + err.Error()
		return res
	}
	go func() {
		for range vx.Events() {
		}
	}()
	vx.Render()
	cols, rows := 20, 5
	left := sc.Resizes
	change := func() {
		cols, rows = cols+3, rows+1
		con.SetSize(cols, rows)
		vx.Resize()
	}
	con.AfterSize = func() {
		if left > 1 {
			left--
			change() // the next size change lands while this Render is under way
		}
	}
	change()
	for i := 0; i < sc.Resizes+3; i++ { // one Render per Redraw the application was sent, and a few more
		vx.Render()
	}
	con.AfterSize = nil
	w, h := vx.Window().Size()
	res.RWant, res.RGot = []int{cols, rows}, []int{w, h}
	call("Close", vx.Close, res)
	return res
}

func Execute(sc *Scn) *Result {
	res := &Result{Returned: true, Leaked: []string{}, Stuck: []string{}, Orders: [][]int{}, BSent: []int{}, BGot: []int{}, RWant: []int{}, RGot: []int{}}
	if sc.Resizes > 0 {
		return resizeHandoff(sc, res)
	}
	rng := rand.New(rand.NewSource(sc.Seed))
	sess.ScrubEnv()
	caps := responder.FromMask(sc.Mask, false)
	con := fakecon.New(20, 5)
	resp := responder.New(caps, 20, 5, con.Inject)
	var lag atomic.Bool
	con.OnWrite = func(p []byte) {
		resp.OnWrite(p)
		if lag.Load() {
			// the reply is on the wire (and may be consumed) before the writer gets control back
			time.Sleep(3 * time.Millisecond)
		}
	}
	vx, err := vaxis.New(vaxis.Options{WithConsole: con, NoSignals: true, EventQueueSize: sc.QSize})
	if err != nil {
		res.What = "start: " + err.Error()
		return res
	}
	// reader
	var mu sync.Mutex
	orders := make([][]int, len(sc.Posters))
	stopRead := make(chan struct{})
	readerDone := make(chan struct{})
	var open atomic.Bool
	open.Store(true)
	go func() {
		defer close(readerDone)
		if sc.Reader == "none" {
			<-stopRead
			return
		}
		for {
			select {
			case ev := <-vx.Events():
				switch e := ev.(type) {
				case pev:
					mu.Lock()
					orders[e.P] = append(orders[e.P], e.N)
					mu.Unlock()
				case vaxis.SyncFunc:
					e()
				}
				if sc.Reader == "slow" {
					time.Sleep(200 * time.Microsecond)
				}
			case <-stopRead:
				return
			}
		}
	}()
	// posters
	var wg sync.WaitGroup
	bsent := make([]int64, len(sc.Posters))
	posterState := make([]atomic.Value, len(sc.Posters))
	for pi, p := range sc.Posters {
		wg.Add(1)
		go func(pi int, p Poster) {
			defer wg.Done()
			for n := 1; n <= p.N; n++ {
				posterState[pi].Store(p.Mode)
				switch p.Mode {
				case "post":
					vx.PostEvent(pev{pi, n})
				case "blocking":
					wasOpen := open.Load()
					vx.PostEventBlocking(pev{pi, n})
					if wasOpen && open.Load() {
						atomic.AddInt64(&bsent[pi], 1)
					}
				case "sync":
					n := n
					vx.SyncFunc(func() {
						mu.Lock()
						orders[pi] = append(orders[pi], n)
						mu.Unlock()
					})
				case "resize":
					vx.Resize()
				}
				posterState[pi].Store("")
				if n%4 == 0 {
					runtime.Gosched()
				}
			}
		}(pi, p)
	}
	// input flood
	wg.Add(1)
	go func() {
		defer wg.Done()
		chunk := sc.Chunk
		if chunk < 1 {
			chunk = 1
		}
		for k := 0; k < sc.Keys; k += chunk {
			con.Inject([]byte(strings.Repeat("k", chunk)))
			if k%8 == 0 {
				runtime.Gosched()
			}
		}
	}()
	// queries from another goroutine
	qdone := make(chan struct{})
	go func() {
		defer close(qdone)
		if !sc.Query {
			return
		}
		for i := 0; i < 3; i++ {
			vx.CursorPosition()
			if caps.OSC11 {
				vx.QueryBackground()
			}
		}
	}()
	// main goroutine: draw and render
	for f := 0; f < sc.Render; f++ {
		win := vx.Window()
		win.Clear()
		win.Print(vaxis.Segment{Text: fmt.Sprintf("frame %d", f)})
		vx.ShowCursor(f%3, 0, vaxis.CursorBlock)
		vx.Render()
		if rng.Intn(2) == 0 {
			runtime.Gosched()
		}
	}
	select {
	case <-qdone:
	case <-time.After(3 * time.Second):
		res.Stuck = append(res.Stuck, "query call blocked")
	}
	if sc.LoneEsc {
		con.Inject([]byte("\x1b"))
		time.Sleep(time.Duration(rng.Intn(14)) * time.Millisecond) // before, around and after the 10 ms timer
	}
	lag.Store(sc.WriteLag)
	switch sc.End {
	case "close":
		open.Store(false)
		call("Close", vx.Close, res)
	case "close-async":
		// the shutdown comes from another goroutine (as the signal handler's does) while the main
		// goroutine is drawing and rendering
		open.Store(false)
		rdone := make(chan struct{})
		go func() {
			defer close(rdone)
			for f := 0; f < 40; f++ {
				win := vx.Window()
				win.SetCell(f%20, f%5, vaxis.Cell{Character: vaxis.Character{Grapheme: "r", Width: 1}})
				vx.ShowCursor(f%3, 0, vaxis.CursorBlock)
				vx.Render()
			}
		}()
		time.Sleep(time.Duration(rng.Intn(300)) * time.Microsecond)
		call("Close beside Render", vx.Close, res)
		select {
		case <-rdone:
		case <-time.After(3 * time.Second):
			res.Stuck = append(res.Stuck, "Render blocked after Close")
		}
	case "close-close":
		open.Store(false)
		if call("Close", vx.Close, res) {
			call("second Close", vx.Close, res)
		}
	case "suspend-close":
		if call("Suspend", func() { vx.Suspend() }, res) {
			open.Store(false)
			call("Close after Suspend", vx.Close, res)
		}
	case "suspend-resume-close":
		ok := call("Suspend", func() { vx.Suspend() }, res)
		if ok {
			ok = call("Resume", func() { vx.Resume() }, res)
		}
		if ok {
			con.Inject([]byte("zz"))
			vx.Render()
			open.Store(false)
			call("Close", vx.Close, res)
		}
	}
	// posters must come back (a blocked post is released by Close)
	pdone := make(chan struct{})
	go func() { wg.Wait(); close(pdone) }()
	select {
	case <-pdone:
	case <-time.After(2 * time.Second):
		for pi := range sc.Posters {
			if s, _ := posterState[pi].Load().(string); s != "" {
				res.Stuck = append(res.Stuck, "poster blocked in "+s)
			}
		}
	}
	close(stopRead)
	<-readerDone
	// whatever is still queued counts as received order-wise
drain:
	for {
		select {
		case ev := <-vx.Events():
			if e, ok := ev.(pev); ok {
				orders[e.P] = append(orders[e.P], e.N)
			}
		default:
			break drain
		}
	}
	if res.Returned {
		deadline := time.Now().Add(time.Second)
		for {
			res.Leaked = libGoroutines()
			if len(res.Leaked) == 0 || time.Now().After(deadline) {
				break
			}
			time.Sleep(5 * time.Millisecond)
		}
	}
	for pi, p := range sc.Posters {
		if p.Mode == "sync" || p.Mode == "resize" {
			orders[pi] = append([]int{}, orders[pi]...)
		}
		if orders[pi] == nil {
			orders[pi] = []int{}
		}
		if p.Mode == "blocking" {
			res.BSent = append(res.BSent, int(bsent[pi]))
			res.BGot = append(res.BGot, len(orders[pi]))
		}
	}
	res.Orders = orders
	return res
}

// ---- generators -------------------------------------------------------------------

func Gen(rng *rand.Rand) *Scn {
	sc := &Scn{Kind: "concurrent", QSize: []int{1, 2, 4, 1024}[rng.Intn(4)], Mask: rng.Intn(1 << 15),
		Keys: []int{0, 3, 10, 40}[rng.Intn(4)], Chunk: 1 + rng.Intn(5),
		Reader: []string{"drain", "drain", "slow", "none"}[rng.Intn(4)], Query: rng.Intn(3) == 0, Render: rng.Intn(6),
		WriteLag: rng.Intn(3) == 0, LoneEsc: rng.Intn(3) == 0, End: []string{"close", "close", "close-close", "suspend-close", "suspend-resume-close", "close-async"}[rng.Intn(6)],
		Seed: rng.Int63()}
	if sc.Reader == "none" {
		// a query needs its reply handled, which needs the event queue to be
		// read: an application that does neither has deadlocked itself
		sc.Query = false
	}
	for n := rng.Intn(4); n > 0; n-- {
		sc.Posters = append(sc.Posters, Poster{Mode: []string{"post", "blocking", "sync", "resize"}[rng.Intn(4)], N: 1 + rng.Intn(30)})
	}
	return sc
}

func Fixed() []*Scn {
	return []*Scn{
		// the resize hand-off (specs/conc/ResizeFlag.tla): 1 = a plain resize, 2.. = further size changes each landing inside a Render
		{Kind: "resize-handoff", Resizes: 1, Seed: 41},
		{Kind: "resize-handoff", Resizes: 2, Seed: 42},
		{Kind: "resize-handoff", Resizes: 3, Mask: 1 | 1<<1, Seed: 43},
		{Kind: "resize-handoff", Resizes: 4, Mask: 1<<8 | 1<<9, Seed: 44},
		{Kind: "flood-then-close", QSize: 2, Keys: 10, Chunk: 10, Reader: "none", End: "close", Seed: 1},
		{Kind: "flood-then-close", QSize: 1, Keys: 40, Chunk: 3, Reader: "none", End: "close", Seed: 2},
		{Kind: "flood-then-suspend", QSize: 2, Keys: 10, Chunk: 10, Reader: "none", End: "suspend-close", Seed: 3},
		{Kind: "blocked-poster-close", QSize: 1, Reader: "none", Posters: []Poster{{"blocking", 5}, {"blocking", 5}}, End: "close", Seed: 4},
		{Kind: "lone-esc-close", QSize: 1024, Keys: 2, Chunk: 2, Reader: "drain", LoneEsc: true, End: "close", Seed: 5},
		{Kind: "lone-esc-close", QSize: 1024, Keys: 2, Chunk: 2, Reader: "drain", LoneEsc: true, End: "suspend-resume-close", Seed: 6},
		{Kind: "posters-order", QSize: 4, Reader: "slow", Posters: []Poster{{"blocking", 30}, {"blocking", 30}, {"sync", 20}}, Render: 5, End: "close", Seed: 7},
		{Kind: "close-beside-render", QSize: 1024, Keys: 2, Chunk: 2, Reader: "drain", End: "close-async", Seed: 11},
		{Kind: "close-beside-render", QSize: 4, Keys: 10, Chunk: 3, Reader: "slow", Render: 3, End: "close-async", Seed: 12},
		{Kind: "slow-write-close", QSize: 1024, Keys: 2, Chunk: 2, Reader: "drain", WriteLag: true, End: "close", Seed: 9},
		{Kind: "slow-write-suspend", QSize: 1024, Reader: "drain", WriteLag: true, End: "suspend-resume-close", Seed: 10},
		{Kind: "query-render", QSize: 1024, Mask: 1<<15 - 1, Reader: "drain", Query: true, Render: 5, End: "close", Seed: 8},
	}
}
