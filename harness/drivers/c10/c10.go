// Package c10 runs concurrent-use scenarios against a real Vaxis built with
// the race detector: posters, input floods (including a lone ESC around the
// parser's timer), queries from other goroutines, rendering, and Close /
// Suspend / Resume at arbitrary moments, with a small event queue.
// Observations are judged by specs/conc/Conc_Trace.tla; the interleavings
// the design allows are explored by specs/conc/Shutdown.tla.
package c10

import (
	"bytes"
	"context"
	"fmt"
	"image"
	"image/color"
	"math/rand"
	"runtime"
	"sort"
	"strings"
	"sync"
	"sync/atomic"
	"time"

	"git.sr.ht/~rockorager/vaxis"
	"git.sr.ht/~rockorager/vaxis/widgets/spinner"

	"verif/harness/fakecon"
	"verif/harness/responder"
	"verif/harness/sess"
)

type Poster struct {
	Mode string // post | blocking | sync | resize
	N    int
}

type Scn struct {
	Kind     string
	QSize    int
	Mask     int
	Keys     int    // key presses injected (flood)
	Chunk    int    // keys per chunk
	Reader   string // drain | none | slow
	Posters  []Poster
	Query    bool   // query calls from another goroutine during the session
	Render   int    // frames rendered by the main goroutine meanwhile
	WriteLag bool   // during the end phase the console's Write returns 3 ms after the terminal has answered
	LoneEsc  bool   // a lone ESC goes in right before the end
	End      string // close | suspend-close | suspend-resume-close | close-close
	// Resizes > 0 (kind "resize-handoff"): the terminal changes size that many times; each further change
	// happens right after a Render has read the previous size (a schedule of specs/conc/ResizeFlag.tla)
	Resizes int `json:",omitempty"`
	// kind "queries": QCallers goroutines issue terminal queries while the main goroutine renders and
	// (Cycles times, the callers going on until that is over) suspends and resumes; QReply says when the
	// terminal's replies arrive:
	//   ontime       within the write of the query
	//   late         1-7 ms after it
	//   never        not at all
	//   held         while the application is shutting its input down (inside the Suspend of the end phase)
	//   held-resume  after the Resume of the end phase has returned
	//   expired      after the caller has given up (clipboard requests only: they end with the caller's context)
	QCallers []QCaller `json:",omitempty"`
	QReply   string    `json:",omitempty"`
	Cycles   int       `json:",omitempty"`
	// kind "spinner": run | stop-posted | stopped | helpers | suspend | fullqueue
	Spin string `json:",omitempty"`
	// kind "suspend-fullqueue": the event queue is full (nobody reads it), the terminal sends Pre
	// (paste | keys | focus | mouse), then the application suspends;
	// Reader "none" | "late" (the application reads its events only after the Resume); End suspend-close |
	// suspend-resume-close (more input follows the Resume)
	Pre string `json:",omitempty"`
	// kind "sixel-resize": the main goroutine has a sixel image re-encoded (the library does that in a
	// goroutine of its own) and goes on rendering, Sixel times, while the terminal reports new sizes
	Sixel int `json:",omitempty"`
	Seed  int64
}

// QCaller is one goroutine that makes N rounds of the calls named by Kinds:
// color:<index> | fg | bg | cpr | clip
type QCaller struct {
	Kinds []string
	N     int
}

// QObs is what the driver saw of one query caller.
type QObs struct {
	Kind   string `json:"kind"`   // the caller's kinds (colour indexes left out)
	Reply  string `json:"reply"`  // the scenario's QReply
	Before bool   `json:"before"` // all its calls had returned before the application closed Vaxis (bound: 4 s)
	After  bool   `json:"after"`  // ... 1.5 s after Close had returned
}

type Result struct {
	Returned bool     `json:"returned"`
	What     string   `json:"what"`
	Leaked   []string `json:"leaked"`
	Stuck    []string `json:"stuck"`
	Orders   [][]int  `json:"orders"`
	BSent    []int    `json:"bsent"`
	BGot     []int    `json:"bgot"`
	Panic    string   `json:"panic"`
	Race     string   `json:"race"`
	RWant    []int    `json:"rwant"` // resize hand-off: the terminal's final size ...
	RGot     []int    `json:"rgot"`  // ... and the size the library works with after the renders that follow
	Queries  []QObs   `json:"queries"`
	SLeaked  []string `json:"sleaked"` // goroutines started by the library still alive 1 s after a Suspend returned
}

func NewResult() *Result {
	return &Result{Returned: true, Leaked: []string{}, Stuck: []string{}, Orders: [][]int{}, BSent: []int{}, BGot: []int{},
		RWant: []int{}, RGot: []int{}, Queries: []QObs{}, SLeaked: []string{}}
}

type pev struct{ P, N int }

// libGoroutines returns a description of every goroutine started by the library, except those whose
// id is in base (goroutines an earlier scenario of this process left behind: they are that scenario's).
// ids, when not nil, receives the ids of the goroutines found.
func libGoroutines(base map[string]bool, ids map[string]bool) []string {
	buf := make([]byte, 1<<20)
	n := runtime.Stack(buf, true)
	var out []string
	for _, g := range strings.Split(string(buf[:n]), "\n\n") {
		id := ""
		if f := strings.Fields(g); len(f) > 1 && f[0] == "goroutine" {
			id = f[1]
		}
		if base[id] {
			continue
		}
		i := strings.LastIndex(g, "created by ")
		if i < 0 {
			continue
		}
		creator := g[i+len("created by "):]
		if j := strings.IndexAny(creator, " \n"); j >= 0 {
			creator = creator[:j]
		}
		if strings.Contains(creator, "rockorager/vaxis") && !strings.Contains(creator, "verif/harness") {
			lines := strings.Split(g, "\n")
			top := ""
			if len(lines) > 1 {
				top = strings.TrimSpace(lines[1])
				if k := strings.IndexByte(top, '('); k > 0 {
					top = top[:k]
				}
			}
			out = append(out, ascii(creator+" at "+top))
			if ids != nil {
				ids[id] = true
			}
		}
	}
	sort.Strings(out)
	return out
}

func ascii(s string) string {
	b := []byte(s)
	for i := range b {
		if b[i] < 0x20 || b[i] > 0x7e || b[i] == '"' || b[i] == '\\' {
			b[i] = '?'
		}
	}
	return string(b)
}

func call(name string, fn func(), res *Result) bool {
	done := make(chan struct{})
	go func() { fn(); close(done) }()
	select {
	case <-done:
		return true
	case <-time.After(4 * time.Second):
		res.Returned = false
		res.What = name + " did not return"
		return false
	}
}

// resizeHandoff: the terminal's size changes while the main goroutine is inside Render, at the point
// ResizeFlag.tla's counterexample names: after Render has read the size it was told about and before it
// returns. Afterwards the application renders as it would on the Redraw events it got; the library must
// end up working with the terminal's final size.
func resizeHandoff(sc *Scn, res *Result) *Result {
	sess.ScrubEnv()
	caps := responder.FromMask(sc.Mask&^(1<<3|1<<7), false) // size comes from the console (no in-band or XTWINOPS reports)
	con := fakecon.New(20, 5)
	resp := responder.New(caps, 20, 5, con.Inject)
	con.OnWrite = resp.OnWrite
	vx, err := vaxis.New(vaxis.Options{WithConsole: con, NoSignals: true, EventQueueSize: 64})
	if err != nil {
		res.What = "start: " + err.Error()
		return res
	}
	go func() {
		for range vx.Events() {
		}
	}()
	vx.Render()
	cols, rows := 20, 5
	left := sc.Resizes
	change := func() {
		cols, rows = cols+3, rows+1
		con.SetSize(cols, rows)
		vx.Resize()
	}
	con.AfterSize = func() {
		if left > 1 {
			left--
			change() // the next size change lands while this Render is under way
		}
	}
	change()
	for i := 0; i < sc.Resizes+3; i++ { // one Render per Redraw the application was sent, and a few more
		vx.Render()
	}
	con.AfterSize = nil
	w, h := vx.Window().Size()
	res.RWant, res.RGot = []int{cols, rows}, []int{w, h}
	call("Close", vx.Close, res)
	return res
}

// leakBase is the set of library goroutines that existed when the scenario under way began.
var leakBase map[string]bool

// waitLeaks fills res.Leaked with the library's goroutines that are still there (up to 1 s after Close).
func waitLeaks(res *Result) {
	if !res.Returned {
		return
	}
	deadline := time.Now().Add(time.Second)
	for {
		res.Leaked = libGoroutines(leakBase, nil)
		if len(res.Leaked) == 0 || time.Now().After(deadline) {
			return
		}
		time.Sleep(5 * time.Millisecond)
	}
}

// suspendLeaks records the library's goroutines that are still there after a Suspend has returned (it
// waits up to 1 s for them to go; a later Suspend of the same scenario does not hide what an earlier left).
func suspendLeaks(res *Result) {
	if !res.Returned || len(res.SLeaked) > 0 {
		return
	}
	deadline := time.Now().Add(time.Second)
	for {
		l := libGoroutines(leakBase, nil)
		if len(l) == 0 {
			return
		}
		if time.Now().After(deadline) {
			res.SLeaked = l
			return
		}
		time.Sleep(5 * time.Millisecond)
	}
}

// suspendFullQueue: the application is busy: its event queue is full and it does not read it. The
// terminal sends input (the input goroutine has to post it), then the application suspends. Suspend has to
// return and the library's goroutines have to be gone then; after a Resume more input arrives and the
// application (Reader "late") gets round to its events; then it closes.
func suspendFullQueue(sc *Scn, res *Result) *Result {
	sess.ScrubEnv()
	caps := responder.FromMask(sc.Mask, false)
	con := fakecon.New(20, 5)
	resp := responder.New(caps, 20, 5, con.Inject)
	con.OnWrite = resp.OnWrite
	vx, err := vaxis.New(vaxis.Options{WithConsole: con, NoSignals: true, EventQueueSize: sc.QSize})
	if err != nil {
		res.What = "start: " + err.Error()
		return res
	}
	for i := 0; i < sc.QSize; i++ {
		vx.PostEvent(pev{0, i + 1}) // dropped when the queue is full already
	}
	settle := func() { // the terminal's bytes have been read and handed on
		for dl := time.Now().Add(300 * time.Millisecond); con.Pending() > 0 && time.Now().Before(dl); {
			time.Sleep(time.Millisecond)
		}
		time.Sleep(10 * time.Millisecond)
	}
	pre := map[string]string{"paste": "\x1b[200~", "keys": "abc", "focus": "\x1b[I", "mouse": "\x1b[<0;2;2M\x1b[<0;2;2m"}[sc.Pre]
	con.Inject([]byte(pre))
	settle()
	stopRead := make(chan struct{})
	readerDone := make(chan struct{})
	read := func() {
		defer close(readerDone)
		for {
			select {
			case ev := <-vx.Events():
				if fn, ok := ev.(vaxis.SyncFunc); ok {
					fn()
				}
			case <-stopRead:
				return
			}
		}
	}
	if call("Suspend", func() { vx.Suspend() }, res) {
		suspendLeaks(res)
		switch sc.End {
		case "suspend-resume-close":
			if call("Resume", func() { vx.Resume() }, res) {
				con.Inject([]byte("a\x1b[201~b"))
				settle()
				if sc.Reader == "late" {
					go read()
					time.Sleep(5 * time.Millisecond)
				}
				vx.Render()
				call("Close", vx.Close, res)
			}
		default:
			call("Close after Suspend", vx.Close, res)
		}
	}
	select {
	case <-readerDone:
	default:
		if sc.Reader == "late" && sc.End == "suspend-resume-close" && res.Returned {
			close(stopRead)
			<-readerDone
		}
	}
	waitLeaks(res)
	return res
}

// sixelResize: an application with a sixel image on a terminal that reports its size in band. The terminal
// is resized; the application, on the Redraw it gets, has the image fitted again (Sixel.Resize: the library
// encodes in a goroutine it starts) and renders. The library's goroutine runs beside the frames.
func sixelResize(sc *Scn, res *Result) *Result {
	sess.ScrubEnv()
	caps := responder.FromMask(sc.Mask|1<<3|1<<6, false)
	con := fakecon.New(20, 5)
	resp := responder.New(caps, 20, 5, con.Inject)
	resp.XPix, resp.YPix = 200, 100
	con.OnWrite = resp.OnWrite
	vx, err := vaxis.New(vaxis.Options{WithConsole: con, NoSignals: true, EventQueueSize: 1024})
	if err != nil {
		res.What = "start: " + err.Error()
		return res
	}
	img := image.NewRGBA(image.Rect(0, 0, 48, 48))
	for i := 0; i < 48; i++ {
		img.Set(i, i, color.RGBA{255, 0, 0, 255})
		img.Set(i, 47-i, color.RGBA{0, 0, 255, 255})
	}
	sx := vx.NewSixel(img)
	redraw := func() { // the application's loop: until the Redraw of the size change (at most 300 ms)
		t := time.After(300 * time.Millisecond)
		for {
			select {
			case ev := <-vx.Events():
				switch ev := ev.(type) {
				case vaxis.SyncFunc:
					ev()
				case vaxis.Redraw:
					return
				}
			case <-t:
				return
			}
		}
	}
	for i := 0; i < sc.Sixel; i++ {
		cols, rows := 20+i%2, 5+i%2
		con.SetSize(cols, rows)
		con.Inject([]byte(fmt.Sprintf("\x1b[48;%d;%d;%d;%dt", rows, cols, rows*20, cols*10+i%3)))
		redraw()
		if i > 0 {
			sx.Resize(4, 2)
		}
		vx.Render()
		sx.Draw(vx.Window())
		vx.Render()
	}
	time.Sleep(20 * time.Millisecond)
	call("Close", vx.Close, res)
	waitLeaks(res)
	return res
}

func isQueryReply(b []byte) bool {
	return bytes.HasPrefix(b, []byte("\x1b]4;")) || bytes.HasPrefix(b, []byte("\x1b]10;")) || bytes.HasPrefix(b, []byte("\x1b]11;")) ||
		(bytes.HasPrefix(b, []byte("\x1b[")) && bytes.HasSuffix(b, []byte("R")))
}

// queryRun: several goroutines issue terminal queries of every kind while the main goroutine draws,
// renders and (Cycles times) suspends and resumes; the terminal answers on time, late, while the input is
// being shut down, after the Resume, or never; then the application ends the session. Every call has to
// come back: while Vaxis runs when the terminal answered, and in any case once Close has returned.
func queryRun(sc *Scn, res *Result) *Result {
	sess.ScrubEnv()
	caps := responder.FromMask(sc.Mask|1<<10|1<<11|1<<12, false) // the terminal answers OSC 4 / 10 / 11 queries
	con := fakecon.New(20, 5)
	var active, ending atomic.Bool
	var nreply, pendingLate atomic.Int64
	var hmu sync.Mutex
	var held [][]byte
	release := func() {
		hmu.Lock()
		h := held
		held = nil
		hmu.Unlock()
		for _, b := range h {
			con.Inject(b)
		}
	}
	resp := responder.New(caps, 20, 5, func(b []byte) {
		if !active.Load() || !(isQueryReply(b) || sc.QReply == "expired" && bytes.HasPrefix(b, []byte("\x1b]52;"))) {
			con.Inject(b)
			return
		}
		n := nreply.Add(1)
		switch sc.QReply {
		case "late":
			b := append([]byte(nil), b...)
			time.AfterFunc(time.Duration(1+n%7)*time.Millisecond, func() { con.Inject(b) })
		case "expired":
			// after the caller has given up (a clipboard request ends with its 30 ms context: the terminal asked
			// its user for permission first)
			b := append([]byte(nil), b...)
			pendingLate.Add(1)
			time.AfterFunc(time.Duration(45+n%7)*time.Millisecond, func() { con.Inject(b); pendingLate.Add(-1) })
		case "never":
		case "held", "held-resume":
			hmu.Lock()
			held = append(held, append([]byte(nil), b...))
			hmu.Unlock()
		default:
			con.Inject(b)
		}
	})
	resp.Clipboard = "clip"
	con.OnWrite = func(p []byte) {
		if ending.Load() && sc.QReply == "held" && bytes.Contains(p, []byte("\x1b[c")) {
			// the application has asked its input parser to stop and now provokes a last reply:
			// the replies the terminal still owed arrive right before that one
			release()
		}
		resp.OnWrite(p)
	}
	vx, err := vaxis.New(vaxis.Options{WithConsole: con, NoSignals: true, EventQueueSize: 1024})
	if err != nil {
		res.What = "start: " + err.Error()
		return res
	}
	stopRead := make(chan struct{})
	readerDone := make(chan struct{})
	go func() {
		defer close(readerDone)
		for {
			select {
			case ev := <-vx.Events():
				if fn, ok := ev.(vaxis.SyncFunc); ok {
					fn()
				}
			case <-stopRead:
				return
			}
		}
	}()
	active.Store(true)
	var cycled atomic.Bool // the Suspend/Resume cycles are over (callers keep asking until then)
	cycled.Store(sc.Cycles == 0)
	done := make([]chan struct{}, len(sc.QCallers))
	for ci, qc := range sc.QCallers {
		done[ci] = make(chan struct{})
		go func(ci int, qc QCaller) {
			defer close(done[ci])
			for n := 0; n < qc.N || !cycled.Load(); n++ {
				for _, k := range qc.Kinds {
					switch {
					case strings.HasPrefix(k, "color:"):
						var idx int
						fmt.Sscanf(k, "color:%d", &idx)
						vx.QueryColor(vaxis.IndexColor(uint8(idx)))
					case k == "fg":
						vx.QueryForeground()
					case k == "bg":
						vx.QueryBackground()
					case k == "cpr":
						vx.CursorPosition()
					case k == "clip":
						ctx, cancel := context.WithTimeout(context.Background(), 30*time.Millisecond)
						vx.ClipboardPop(ctx)
						cancel()
					}
				}
			}
		}(ci, qc)
	}
	frame := func(f int) {
		win := vx.Window()
		win.Clear()
		win.Print(vaxis.Segment{Text: fmt.Sprintf("frame %d", f)})
		vx.ShowCursor(f%3, 0, vaxis.CursorBlock)
		vx.Render()
	}
	for f := 0; f < sc.Render; f++ {
		frame(f)
		runtime.Gosched()
	}
	ok := true
	for c := 0; c < sc.Cycles && ok; c++ {
		ok = call("Suspend", func() { vx.Suspend() }, res) && call("Resume", func() { vx.Resume() }, res)
		if ok {
			frame(c)
		}
	}
	cycled.Store(true)
	obs := make([]QObs, len(sc.QCallers))
	for ci, qc := range sc.QCallers {
		ks := make([]string, len(qc.Kinds))
		for i, k := range qc.Kinds {
			ks[i] = strings.SplitN(k, ":", 2)[0]
		}
		obs[ci] = QObs{Kind: strings.Join(ks, "+"), Reply: sc.QReply}
	}
	waitAll := func(d time.Duration, set func(o *QObs)) {
		dl := time.NewTimer(d)
		defer dl.Stop()
		expired := false
		for ci := range done {
			if !expired {
				select {
				case <-done[ci]:
					set(&obs[ci])
					continue
				case <-dl.C:
					expired = true
				}
			}
			select {
			case <-done[ci]:
				set(&obs[ci])
			default:
			}
		}
	}
	switch sc.QReply {
	case "never", "held", "held-resume":
		// the end comes while the queries are outstanding: wait until the terminal has seen them
		for dl := time.Now().Add(300 * time.Millisecond); time.Now().Before(dl); {
			hmu.Lock()
			n := len(held)
			hmu.Unlock()
			if int(nreply.Load()) >= len(sc.QCallers) || n >= len(sc.QCallers) {
				break
			}
			time.Sleep(time.Millisecond)
		}
	default:
		waitAll(4*time.Second, func(o *QObs) { o.Before = true })
		if sc.QReply == "expired" { // the replies nobody waits for any more arrive, and the input loop digests them
			for dl := time.Now().Add(time.Second); pendingLate.Load() > 0 && time.Now().Before(dl); {
				time.Sleep(time.Millisecond)
			}
			time.Sleep(30 * time.Millisecond)
		}
	}
	ending.Store(true)
	if ok {
		switch sc.End {
		case "suspend-close":
			if call("Suspend", func() { vx.Suspend() }, res) {
				call("Close after Suspend", vx.Close, res)
			}
		case "suspend-resume-close":
			if call("Suspend", func() { vx.Suspend() }, res) && call("Resume", func() { vx.Resume() }, res) {
				release() // held-resume: the replies arrive now
				frame(0)
				if sc.QReply == "held" || sc.QReply == "held-resume" {
					waitAll(4*time.Second, func(o *QObs) { o.Before = true })
				}
				call("Close", vx.Close, res)
			}
		default:
			call("Close", vx.Close, res)
		}
	}
	if res.Returned {
		waitAll(1500*time.Millisecond, func(o *QObs) { o.After = true })
	}
	res.Queries = obs
	close(stopRead)
	<-readerDone
	waitLeaks(res)
	return res
}

// spinnerRun: an application with a widgets/spinner model: started through the event loop, drawn on the
// Redraw events it posts, stopped (or not) and closed; Start/Stop/Toggle also from other goroutines.
func spinnerRun(sc *Scn, res *Result) *Result {
	sess.ScrubEnv()
	caps := responder.FromMask(sc.Mask, false)
	con := fakecon.New(20, 5)
	resp := responder.New(caps, 20, 5, con.Inject)
	con.OnWrite = resp.OnWrite
	qsize := 1024
	if sc.Spin == "fullqueue" {
		qsize = 4
	}
	vx, err := vaxis.New(vaxis.Options{WithConsole: con, NoSignals: true, EventQueueSize: qsize})
	if err != nil {
		res.What = "start: " + err.Error()
		return res
	}
	sp := spinner.New(vx, 2*time.Millisecond)
	if sc.Spin == "fullqueue" {
		return spinnerFullQueue(vx, sp, res)
	}
	frames, syncs := 0, 0
	// the application's event loop, on the main goroutine, until cond holds (at most 2 s)
	pump := func(cond func() bool) {
		t := time.After(2 * time.Second)
		for !cond() {
			select {
			case ev := <-vx.Events():
				switch ev := ev.(type) {
				case vaxis.SyncFunc:
					ev()
					syncs++
				case vaxis.Redraw:
					frames++
					sp.Draw(vx.Window())
					vx.Render()
				}
			case <-t:
				return
			}
		}
	}
	spin := func(n int) { f0 := frames; pump(func() bool { return frames >= f0+n }) }
	sp.Start()
	spin(3)
	switch sc.Spin {
	case "stop-posted":
		sp.Stop() // the application leaves its loop right away: the queued stop is never run
	case "stopped":
		s0 := syncs
		sp.Stop()
		pump(func() bool { return syncs > s0 })
	case "helpers":
		var wg sync.WaitGroup
		for h := 0; h < 3; h++ {
			wg.Add(1)
			go func(h int) {
				defer wg.Done()
				for i := 0; i < 20; i++ {
					switch (h + i) % 3 {
					case 0:
						sp.Toggle()
					case 1:
						sp.Start()
					case 2:
						sp.Stop()
					}
					time.Sleep(200 * time.Microsecond)
				}
				sp.Start()
			}(h)
		}
		hd := make(chan struct{})
		go func() { wg.Wait(); close(hd) }()
		pump(func() bool {
			select {
			case <-hd:
				return true
			default:
				return false
			}
		})
		spin(2)
	case "suspend":
		if call("Suspend", func() { vx.Suspend() }, res) && call("Resume", func() { vx.Resume() }, res) {
			spin(2)
		}
	}
	if res.Returned {
		call("Close", vx.Close, res)
	}
	waitLeaks(res)
	return res
}

// spinnerFullQueue: the spinner ticks while the event queue is full: six goroutines post blocking events
// into a queue of four, the application's loop takes one event, works 1 ms, draws the spinner and renders.
// Nothing here may stop the loop: a tick that finds the queue full may be dropped (a non-blocking post),
// but the goroutine that drains the queue must never wait for the goroutine that fills it.
func spinnerFullQueue(vx *vaxis.Vaxis, sp *spinner.Model, res *Result) *Result {
	const producers, each = 6, 20
	sp.Start()
	var wg sync.WaitGroup
	for p := 0; p < producers; p++ {
		wg.Add(1)
		go func(p int) {
			defer wg.Done()
			for n := 1; n <= each; n++ {
				vx.PostEventBlocking(pev{p, n})
			}
		}(p)
	}
	got := make(chan int, 1)
	quit := make(chan struct{})
	pd := make(chan struct{}) // the producers' posts have all returned
	go func() { wg.Wait(); close(pd) }()
	var progress atomic.Int64
	go func() { // the application's loop (it may get stuck: it is not the goroutine that judges)
		n := 0
		for n < producers*each {
			select {
			case ev := <-vx.Events():
				switch ev := ev.(type) {
				case vaxis.SyncFunc:
					ev()
				case pev:
					n++
					time.Sleep(time.Millisecond)
				}
				sp.Draw(vx.Window())
				vx.Render()
				progress.Add(1)
			case <-pd:
				// nothing more is coming: what is queued still counts, then the loop ends (a library that
				// loses blocking posts must not keep this loop waiting for them beside a ticking spinner)
				for {
					select {
					case ev := <-vx.Events():
						if _, ok := ev.(pev); ok {
							n++
						}
					default:
						got <- n
						return
					}
				}
			case <-quit:
				got <- n
				return
			}
		}
		got <- n
	}()
	// stuck = no turn of the loop completed for 4 s (a slow machine makes slow progress, not none)
	last, since := int64(-1), time.Now()
wait:
	for {
		select {
		case n := <-got:
			// every post was a blocking one, made while Vaxis was open
			res.BSent, res.BGot = append(res.BSent, producers*each), append(res.BGot, n)
			break wait
		case <-time.After(100 * time.Millisecond):
			if p := progress.Load(); p != last {
				last, since = p, time.Now()
			} else if time.Since(since) > 4*time.Second {
				// the loop's goroutine is stuck for good; shutting down from here would be a shutdown
				// beside a goroutine that is inside the library, which is another matter: report and leave it
				res.Stuck = append(res.Stuck, "event loop stopped beside a ticking spinner with a full queue")
				return res
			}
		}
	}
	close(quit)
	call("Close", vx.Close, res)
	select {
	case <-pd:
	case <-time.After(2 * time.Second):
	}
	waitLeaks(res)
	return res
}

func Execute(sc *Scn) *Result {
	res := NewResult()
	leakBase = map[string]bool{}
	libGoroutines(nil, leakBase)
	if sc.Resizes > 0 {
		return resizeHandoff(sc, res)
	}
	if len(sc.QCallers) > 0 {
		return queryRun(sc, res)
	}
	if sc.Spin != "" {
		return spinnerRun(sc, res)
	}
	if sc.Pre != "" {
		return suspendFullQueue(sc, res)
	}
	if sc.Sixel > 0 {
		return sixelResize(sc, res)
	}
	rng := rand.New(rand.NewSource(sc.Seed))
	sess.ScrubEnv()
	caps := responder.FromMask(sc.Mask, false)
	con := fakecon.New(20, 5)
	resp := responder.New(caps, 20, 5, con.Inject)
	var lag atomic.Bool
	con.OnWrite = func(p []byte) {
		resp.OnWrite(p)
		if lag.Load() {
			// the reply is on the wire (and may be consumed) before the writer gets control back
			time.Sleep(3 * time.Millisecond)
		}
	}
	vx, err := vaxis.New(vaxis.Options{WithConsole: con, NoSignals: true, EventQueueSize: sc.QSize})
	if err != nil {
		res.What = "start: " + err.Error()
		return res
	}
	// reader
	var mu sync.Mutex
	orders := make([][]int, len(sc.Posters))
	stopRead := make(chan struct{})
	readerDone := make(chan struct{})
	var open atomic.Bool
	open.Store(true)
	go func() {
		defer close(readerDone)
		if sc.Reader == "none" {
			<-stopRead
			return
		}
		for {
			select {
			case ev := <-vx.Events():
				switch e := ev.(type) {
				case pev:
					mu.Lock()
					orders[e.P] = append(orders[e.P], e.N)
					mu.Unlock()
				case vaxis.SyncFunc:
					e()
				}
				if sc.Reader == "slow" {
					time.Sleep(200 * time.Microsecond)
				}
			case <-stopRead:
				return
			}
		}
	}()
	// posters
	var wg sync.WaitGroup
	bsent := make([]int64, len(sc.Posters))
	posterState := make([]atomic.Value, len(sc.Posters))
	for pi, p := range sc.Posters {
		wg.Add(1)
		go func(pi int, p Poster) {
			defer wg.Done()
			for n := 1; n <= p.N; n++ {
				posterState[pi].Store(p.Mode)
				switch p.Mode {
				case "post":
					vx.PostEvent(pev{pi, n})
				case "blocking":
					wasOpen := open.Load()
					vx.PostEventBlocking(pev{pi, n})
					if wasOpen && open.Load() {
						atomic.AddInt64(&bsent[pi], 1)
					}
				case "sync":
					n := n
					vx.SyncFunc(func() {
						mu.Lock()
						orders[pi] = append(orders[pi], n)
						mu.Unlock()
					})
				case "resize":
					vx.Resize()
				}
				posterState[pi].Store("")
				if n%4 == 0 {
					runtime.Gosched()
				}
			}
		}(pi, p)
	}
	// input flood
	wg.Add(1)
	go func() {
		defer wg.Done()
		chunk := sc.Chunk
		if chunk < 1 {
			chunk = 1
		}
		for k := 0; k < sc.Keys; k += chunk {
			con.Inject([]byte(strings.Repeat("k", chunk)))
			if k%8 == 0 {
				runtime.Gosched()
			}
		}
	}()
	// queries from another goroutine
	qdone := make(chan struct{})
	go func() {
		defer close(qdone)
		if !sc.Query {
			return
		}
		for i := 0; i < 3; i++ {
			vx.CursorPosition()
			if caps.OSC11 {
				vx.QueryBackground()
			}
		}
	}()
	// main goroutine: draw and render
	for f := 0; f < sc.Render; f++ {
		win := vx.Window()
		win.Clear()
		win.Print(vaxis.Segment{Text: fmt.Sprintf("frame %d", f)})
		vx.ShowCursor(f%3, 0, vaxis.CursorBlock)
		vx.Render()
		if rng.Intn(2) == 0 {
			runtime.Gosched()
		}
	}
	select {
	case <-qdone:
	case <-time.After(3 * time.Second):
		res.Stuck = append(res.Stuck, "query call blocked")
	}
	if sc.LoneEsc {
		con.Inject([]byte("\x1b"))
		time.Sleep(time.Duration(rng.Intn(14)) * time.Millisecond) // before, around and after the 10 ms timer
	}
	lag.Store(sc.WriteLag)
	switch sc.End {
	case "close":
		open.Store(false)
		call("Close", vx.Close, res)
	case "close-async":
		// the shutdown comes from another goroutine (as the signal handler's does) while the main
		// goroutine is drawing and rendering
		open.Store(false)
		rdone := make(chan struct{})
		go func() {
			defer close(rdone)
			for f := 0; f < 40; f++ {
				win := vx.Window()
				win.SetCell(f%20, f%5, vaxis.Cell{Character: vaxis.Character{Grapheme: "r", Width: 1}})
				vx.ShowCursor(f%3, 0, vaxis.CursorBlock)
				vx.Render()
			}
		}()
		time.Sleep(time.Duration(rng.Intn(300)) * time.Microsecond)
		call("Close beside Render", vx.Close, res)
		select {
		case <-rdone:
		case <-time.After(3 * time.Second):
			res.Stuck = append(res.Stuck, "Render blocked after Close")
		}
	case "close-close":
		open.Store(false)
		if call("Close", vx.Close, res) {
			call("second Close", vx.Close, res)
		}
	case "suspend-close":
		if call("Suspend", func() { vx.Suspend() }, res) {
			suspendLeaks(res)
			open.Store(false)
			call("Close after Suspend", vx.Close, res)
		}
	case "suspend-resume-close":
		ok := call("Suspend", func() { vx.Suspend() }, res)
		if ok {
			suspendLeaks(res)
			ok = call("Resume", func() { vx.Resume() }, res)
		}
		if ok {
			con.Inject([]byte("zz"))
			vx.Render()
			open.Store(false)
			call("Close", vx.Close, res)
		}
	}
	// posters must come back (a blocked post is released by Close)
	pdone := make(chan struct{})
	go func() { wg.Wait(); close(pdone) }()
	select {
	case <-pdone:
	case <-time.After(2 * time.Second):
		for pi := range sc.Posters {
			if s, _ := posterState[pi].Load().(string); s != "" {
				res.Stuck = append(res.Stuck, "poster blocked in "+s)
			}
		}
	}
	close(stopRead)
	<-readerDone
	// whatever is still queued counts as received order-wise
drain:
	for {
		select {
		case ev := <-vx.Events():
			if e, ok := ev.(pev); ok {
				orders[e.P] = append(orders[e.P], e.N)
			}
		default:
			break drain
		}
	}
	waitLeaks(res)
	for pi, p := range sc.Posters {
		if p.Mode == "sync" || p.Mode == "resize" {
			orders[pi] = append([]int{}, orders[pi]...)
		}
		if orders[pi] == nil {
			orders[pi] = []int{}
		}
		if p.Mode == "blocking" {
			res.BSent = append(res.BSent, int(bsent[pi]))
			res.BGot = append(res.BGot, len(orders[pi]))
		}
	}
	res.Orders = orders
	return res
}

// ---- generators -------------------------------------------------------------------

func Gen(rng *rand.Rand) *Scn {
	sc := &Scn{Kind: "concurrent", QSize: []int{1, 2, 4, 1024}[rng.Intn(4)], Mask: rng.Intn(1 << 15),
		Keys: []int{0, 3, 10, 40}[rng.Intn(4)], Chunk: 1 + rng.Intn(5),
		Reader: []string{"drain", "drain", "slow", "none"}[rng.Intn(4)], Query: rng.Intn(3) == 0, Render: rng.Intn(6),
		WriteLag: rng.Intn(3) == 0, LoneEsc: rng.Intn(3) == 0, End: []string{"close", "close", "close-close", "suspend-close", "suspend-resume-close", "close-async"}[rng.Intn(6)],
		Seed: rng.Int63()}
	if sc.Reader == "none" {
		// a query needs its reply handled, which needs the event queue to be
		// read: an application that does neither has deadlocked itself
		sc.Query = false
	}
	for n := rng.Intn(4); n > 0; n-- {
		sc.Posters = append(sc.Posters, Poster{Mode: []string{"post", "blocking", "sync", "resize"}[rng.Intn(4)], N: 1 + rng.Intn(30)})
	}
	return sc
}

// GenQuery draws one "queries" scenario.
func GenQuery(rng *rand.Rand) *Scn {
	sc := &Scn{Kind: "queries", Mask: rng.Intn(1 << 15), Render: rng.Intn(6),
		QReply: []string{"ontime", "ontime", "ontime", "late", "never", "held", "held-resume"}[rng.Intn(7)],
		End:    []string{"close", "suspend-close", "suspend-resume-close"}[rng.Intn(3)], Seed: rng.Int63()}
	n := 1
	switch sc.QReply {
	case "ontime":
		n = 1 + rng.Intn(40)
		sc.Cycles = []int{0, 0, 2, 4, 8}[rng.Intn(5)]
	case "late":
		n = 1 + rng.Intn(10)
	case "held-resume":
		sc.End = "suspend-resume-close"
	}
	if rng.Intn(8) == 0 {
		// every reply comes after its caller has given up: clipboard requests (the only query with a deadline of
		// the caller's own)
		sc.QReply, sc.Cycles = "expired", 0
		for c := 1 + rng.Intn(2); c > 0; c-- {
			sc.QCallers = append(sc.QCallers, QCaller{Kinds: []string{"clip"}, N: 1 + rng.Intn(3)})
		}
		return sc
	}
	for c := 1 + rng.Intn(4); c > 0; c-- {
		qc := QCaller{N: n}
		nk := 1
		if n > 1 {
			nk = 1 + rng.Intn(3) // a caller alternates between up to 3 kinds
		}
		for k := 0; k < nk; k++ {
			kind := []string{"color", "color", "fg", "bg", "cpr", "clip"}[rng.Intn(6)]
			if kind == "clip" && n == 1 {
				kind = "bg" // the clipboard request ends with its context whatever the terminal does
			}
			if kind == "color" {
				kind = fmt.Sprintf("color:%d", rng.Intn(256))
			}
			qc.Kinds = append(qc.Kinds, kind)
		}
		sc.QCallers = append(sc.QCallers, qc)
	}
	return sc
}

// GenSuspend draws one "suspend-fullqueue" scenario.
func GenSuspend(rng *rand.Rand) *Scn {
	return &Scn{Kind: "suspend-fullqueue", Mask: rng.Intn(1 << 15), QSize: []int{1, 1, 2, 4}[rng.Intn(4)],
		Pre: []string{"paste", "keys", "focus", "mouse"}[rng.Intn(4)], Reader: []string{"none", "late"}[rng.Intn(2)],
		End: []string{"suspend-close", "suspend-resume-close"}[rng.Intn(2)], Seed: rng.Int63()}
}

// GenSpin draws one "spinner" scenario.
func GenSpin(rng *rand.Rand) *Scn {
	return &Scn{Kind: "spinner", Mask: rng.Intn(1 << 15), Spin: []string{"run", "stop-posted", "stopped", "helpers", "suspend", "fullqueue"}[rng.Intn(6)], Seed: rng.Int63()}
}

func Fixed() []*Scn {
	all := []QCaller{{[]string{"color:1"}, 1}, {[]string{"fg"}, 1}, {[]string{"bg"}, 1}, {[]string{"cpr"}, 1}}
	return []*Scn{
		// terminal queries from several goroutines (specs/conc/Query.tla)
		{Kind: "queries", QReply: "never", QCallers: all, Render: 2, End: "close", Seed: 21},
		{Kind: "queries", QReply: "never", QCallers: all[2:3], End: "suspend-close", Seed: 22},
		{Kind: "queries", QReply: "held", QCallers: all[2:3], Render: 1, End: "suspend-resume-close", Seed: 23},
		{Kind: "queries", QReply: "held", QCallers: all[:2], End: "close", Seed: 24},
		{Kind: "queries", QReply: "held-resume", QCallers: all[1:], End: "suspend-resume-close", Seed: 25},
		{Kind: "queries", QReply: "ontime", QCallers: []QCaller{{[]string{"color:10"}, 150}, {[]string{"color:11"}, 150}, {[]string{"color:12", "bg"}, 80}, {[]string{"color:13", "fg", "cpr"}, 50}}, Render: 5, End: "close", Seed: 26},
		{Kind: "queries", QReply: "late", QCallers: []QCaller{{[]string{"color:10"}, 8}, {[]string{"color:11", "bg"}, 5}, {[]string{"fg", "cpr"}, 5}}, Render: 3, End: "suspend-resume-close", Seed: 27},
		{Kind: "queries", QReply: "ontime", Cycles: 8, QCallers: []QCaller{{[]string{"cpr"}, 20}, {[]string{"cpr", "clip"}, 20}}, Render: 2, End: "close", Seed: 28},
		{Kind: "queries", QReply: "ontime", Cycles: 3, QCallers: []QCaller{{[]string{"color:3", "fg"}, 40}}, End: "suspend-close", Seed: 29},
		{Kind: "queries", QReply: "expired", QCallers: []QCaller{{[]string{"clip"}, 1}}, Render: 1, End: "close", Seed: 31},
		{Kind: "queries", QReply: "expired", QCallers: []QCaller{{[]string{"clip"}, 2}, {[]string{"clip"}, 1}}, End: "suspend-resume-close", Seed: 32},
		{Kind: "queries", QReply: "ontime", Cycles: 6, QCallers: []QCaller{{[]string{"bg"}, 10}, {[]string{"color:7", "cpr"}, 10}}, Render: 1, End: "suspend-resume-close", Seed: 30},
		// widgets/spinner: its ticker goroutine is one of the library's
		{Kind: "spinner", Spin: "run", Seed: 31},
		{Kind: "spinner", Spin: "stop-posted", Seed: 32},
		{Kind: "spinner", Spin: "stopped", Seed: 33},
		{Kind: "spinner", Spin: "helpers", Seed: 34},
		{Kind: "spinner", Spin: "suspend", Seed: 35},
		{Kind: "spinner", Spin: "fullqueue", Seed: 36},
		{Kind: "spinner", Spin: "fullqueue", Mask: 1<<15 - 1, Seed: 37},
		// the resize hand-off (specs/conc/ResizeFlag.tla): 1 = a plain resize, 2.. = further size changes each landing inside a Render
		{Kind: "resize-handoff", Resizes: 1, Seed: 41},
		{Kind: "resize-handoff", Resizes: 2, Seed: 42},
		{Kind: "resize-handoff", Resizes: 3, Mask: 1 | 1<<1, Seed: 43},
		{Kind: "resize-handoff", Resizes: 4, Mask: 1<<8 | 1<<9, Seed: 44},
		// the sixel encoder goroutine beside frames that take a new size over
		{Kind: "sixel-resize", Sixel: 30, Seed: 61},
		{Kind: "sixel-resize", Sixel: 30, Mask: 1<<15 - 1, Seed: 62},
		// Suspend while the input goroutine is posting to a full queue
		{Kind: "suspend-fullqueue", QSize: 1, Pre: "paste", Reader: "none", End: "suspend-close", Seed: 51},
		{Kind: "suspend-fullqueue", QSize: 2, Pre: "keys", Reader: "none", End: "suspend-close", Seed: 52},
		{Kind: "suspend-fullqueue", QSize: 1, Pre: "paste", Reader: "late", End: "suspend-resume-close", Seed: 53},
		{Kind: "suspend-fullqueue", QSize: 4, Pre: "mouse", Reader: "none", End: "suspend-resume-close", Seed: 54},
		{Kind: "suspend-fullqueue", QSize: 1, Pre: "focus", Reader: "late", End: "suspend-resume-close", Mask: 1<<15 - 1, Seed: 55},
		{Kind: "flood-then-close", QSize: 2, Keys: 10, Chunk: 10, Reader: "none", End: "close", Seed: 1},
		{Kind: "flood-then-close", QSize: 1, Keys: 40, Chunk: 3, Reader: "none", End: "close", Seed: 2},
		{Kind: "flood-then-suspend", QSize: 2, Keys: 10, Chunk: 10, Reader: "none", End: "suspend-close", Seed: 3},
		{Kind: "blocked-poster-close", QSize: 1, Reader: "none", Posters: []Poster{{"blocking", 5}, {"blocking", 5}}, End: "close", Seed: 4},
		{Kind: "lone-esc-close", QSize: 1024, Keys: 2, Chunk: 2, Reader: "drain", LoneEsc: true, End: "close", Seed: 5},
		{Kind: "lone-esc-close", QSize: 1024, Keys: 2, Chunk: 2, Reader: "drain", LoneEsc: true, End: "suspend-resume-close", Seed: 6},
		{Kind: "posters-order", QSize: 4, Reader: "slow", Posters: []Poster{{"blocking", 30}, {"blocking", 30}, {"sync", 20}}, Render: 5, End: "close", Seed: 7},
		{Kind: "close-beside-render", QSize: 1024, Keys: 2, Chunk: 2, Reader: "drain", End: "close-async", Seed: 11},
		{Kind: "close-beside-render", QSize: 4, Keys: 10, Chunk: 3, Reader: "slow", Render: 3, End: "close-async", Seed: 12},
		{Kind: "slow-write-close", QSize: 1024, Keys: 2, Chunk: 2, Reader: "drain", WriteLag: true, End: "close", Seed: 9},
		{Kind: "slow-write-suspend", QSize: 1024, Reader: "drain", WriteLag: true, End: "suspend-resume-close", Seed: 10},
		{Kind: "query-render", QSize: 1024, Mask: 1<<15 - 1, Reader: "drain", Query: true, Render: 5, End: "close", Seed: 8},
	}
}
