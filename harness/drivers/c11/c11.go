// Package c11 drives window drawing calls of a real Vaxis on a fake console.
// Every round paints the whole screen with a sentinel, renders, performs ONE
// drawing call on a window reached through a chain of levels (constructor
// calls or raw Window values, with offsets and sizes from negative to
// oversized), and renders again. The terminal commands of both frames are
// logged; specs/clip/Clip_Trace.tla replays them through the reference
// terminal and compares the set of changed cells with the Clip / TextLayout
// oracles. The driver records only what it asked for (chain, call, text
// facts); it never reads Vaxis's buffers.
package c11

import (
	"fmt"
	"math/rand"
	"strings"

	"git.sr.ht/~rockorager/vaxis"
	"github.com/rivo/uniseg"

	"verif/harness/responder"
	"verif/harness/sess"
	"verif/harness/termcmd"
	"verif/harness/trace"
)

// ---- replay descriptor -------------------------------------------------

// Level is one step of the window tree. M: "new" (parent.New(C,R,W,H)),
// "raw" (Window{Parent: &parent, ...}) or "top" (Window{Parent: nil, ...}).
type Level struct {
	M          string
	C, R, W, H int
}

type Op struct {
	K    string   // set, setw, set0, style, fill, fillw, fill0, clear, print, println, trunc, wrap
	C, R int      `json:",omitempty"`
	Row  int      `json:",omitempty"`
	G    string   `json:",omitempty"` // set0, fill0: the grapheme of the cell whose Width is left at 0 ("" = "中")
	Segs []string `json:",omitempty"`
	Pre  []Pre    `json:",omitempty"` // style: what the call finds on the screen
}

// Pre is a cell put on the screen (screen coordinates, through the full-screen
// window) BEFORE the round's snapshot, on top of the sentinel: what the window's
// call then finds there. K: "w" a two-cell glyph (Width 2), "0" a two-cell glyph
// whose Width is left at 0, "e" the empty cell (vaxis.Cell{}).
type Pre struct {
	K    string
	C, R int
}

type Round struct {
	Chain []Level
	Op    Op
}

type Scn struct {
	Kind   string
	Mask   int
	Alt    bool `json:",omitempty"`
	Cols   int
	Rows   int
	Rounds []Round
}

// ---- fixed vocabulary of cells ------------------------------------------

// oracle colour encoding of palette index n is n+1
const (
	sentinelBg = 1
	markBg     = 2
	wideBg     = 3
	autoBg     = 4
	styleBg    = 5
	preBg      = 6 // "w", 7 for "0"
	segBg0     = 9 // segments use 9, 10, 11, ...
)

func idx(n int) vaxis.Color { return vaxis.IndexColor(uint8(n)) }

var (
	sentinel = vaxis.Cell{Character: vaxis.Character{Grapheme: ".", Width: 1}, Style: vaxis.Style{Background: idx(sentinelBg)}}
	marker   = vaxis.Cell{Character: vaxis.Character{Grapheme: "M", Width: 1}, Style: vaxis.Style{Background: idx(markBg)}}
	wideMark = vaxis.Cell{Character: vaxis.Character{Grapheme: "世", Width: 2}, Style: vaxis.Style{Background: idx(wideBg)}}
)

// preCell is the cell a round finds on the screen at a Pre position.
func preCell(k string) vaxis.Cell {
	switch k {
	case "w":
		return vaxis.Cell{Character: vaxis.Character{Grapheme: "界", Width: 2}, Style: vaxis.Style{Background: idx(preBg)}}
	case "0":
		return vaxis.Cell{Character: vaxis.Character{Grapheme: "好"}, Style: vaxis.Style{Background: idx(preBg + 1)}}
	default: // "e"
		return vaxis.Cell{}
	}
}

// autoCell is a cell whose Width is left at 0: the documented way of letting
// Vaxis measure the grapheme (it then takes the width of the terminal it runs on).
func autoCell(g string) vaxis.Cell {
	return vaxis.Cell{Character: vaxis.Character{Grapheme: g}, Style: vaxis.Style{Background: idx(autoBg)}}
}

type Ctx struct {
	G, L *trace.Interner
	Dump func(format string, a ...any)
}

func (c *Ctx) dump(format string, a ...any) {
	if c.Dump != nil {
		c.Dump(format, a...)
	}
}

func stripNUL(b []byte) string { return strings.ReplaceAll(string(b), "\x00", "") }

// Build follows the chain from the full-screen window.
func Build(vx *vaxis.Vaxis, chain []Level) vaxis.Window {
	w := vx.Window()
	for _, lv := range chain {
		switch lv.M {
		case "new":
			w = w.New(lv.C, lv.R, lv.W, lv.H)
		case "raw":
			p := w
			w = vaxis.Window{Vx: vx, Parent: &p, Column: lv.C, Row: lv.R, Width: lv.W, Height: lv.H}
		default: // top
			w = vaxis.Window{Vx: vx, Column: lv.C, Row: lv.R, Width: lv.W, Height: lv.H}
		}
	}
	return w
}

// Items computes the text FACTS of the segments: grapheme clusters (uniseg
// iterator API), the width the terminal gives each cluster (w: what the oracle
// lays out with; u: the width of the Unicode tables, which only names the
// rejection signature when the two differ) and UAX #14 break opportunities.
// The end of a styled segment counts as an opportunity.
func Items(cv *termcmd.Conv, segs []string) []map[string]any {
	out := []map[string]any{}
	for si, text := range segs {
		gr := uniseg.NewGraphemes(text)
		first := len(out)
		for gr.Next() {
			s := gr.Str()
			b := 0
			if gr.LineBreak() != uniseg.LineDontBreak {
				b = 1
			}
			it := map[string]any{"k": "g", "g": 0, "w": 0, "u": 0, "s": si, "b": b}
			switch {
			case s == "\t":
				it["k"] = "tab"
			case strings.ContainsAny(s, "\n\v\f\u0085\u2028\u2029"):
				it["k"] = "nl"
			default:
				it["g"] = cv.G.ID(s)
				it["w"] = cv.AppWidth(s)
				it["u"] = uniseg.StringWidth(s)
			}
			out = append(out, it)
		}
		if len(out) > first {
			out[len(out)-1]["b"] = 1
		}
	}
	return out
}

// CutsCluster reports the FACT that UAX #14 allows a line break inside a
// grapheme cluster of one of the texts (a combining mark after a space:
// UAX #29 keeps them together, UAX #14 LB10/LB18 allows a break between).
func CutsCluster(segs []string) bool {
	for _, text := range segs {
		ends := map[int]bool{}
		gr := uniseg.NewGraphemes(text)
		for gr.Next() {
			_, to := gr.Positions()
			ends[to] = true
		}
		rest, state, off := text, -1, 0
		for len(rest) > 0 {
			var seg string
			seg, rest, _, state = uniseg.FirstLineSegmentInString(rest, state)
			off += len(seg)
			if !ends[off] {
				return true
			}
		}
	}
	return false
}

func segments(segs []string) []vaxis.Segment {
	var out []vaxis.Segment
	for i, s := range segs {
		out = append(out, vaxis.Segment{Text: s, Style: vaxis.Style{Background: idx(segBg0 + i)}})
	}
	return out
}

// Run executes a scenario against the real library and returns its events.
func Run(ctx *Ctx, sc *Scn) (evs []trace.Ev, note string) {
	caps := responder.FromMask(sc.Mask, sc.Alt)
	s, err := sess.Start(sess.Config{Caps: caps, Cols: sc.Cols, Rows: sc.Rows})
	if err != nil {
		return nil, "start: " + err.Error()
	}
	vx := s.Vx
	defer vx.Close()
	cv := termcmd.NewConv(ctx.G, ctx.L, caps.UnicodeCore, caps.ExplicitWidth)
	evs = append(evs, trace.Ev{"ev": "reset", "rows": sc.Rows, "cols": sc.Cols, "xw": caps.ExplicitWidth})
	evs = append(evs, cv.Feed(s.Startup)...)
	ell := ctx.G.ID("…")
	frame := func(tag string) {
		vx.Render()
		o := s.Con.Take()
		ctx.dump("%s out=%q\n", tag, stripNUL(o))
		evs = append(evs, cv.Feed(o)...)
	}
	refill := func(full bool, pre []Pre) {
		vx.Window().Fill(sentinel)
		for _, p := range pre {
			vx.Window().SetCell(p.C, p.R, preCell(p.K))
		}
		if full {
			// a glyph that got over the screen's edge makes the terminal wrap or scroll, which the
			// library does not know of: repaint everything so that the rounds stay independent
			vx.Refresh()
			o := s.Con.Take()
			ctx.dump("sentinel(full) out=%q\n", stripNUL(o))
			evs = append(evs, cv.Feed(o)...)
		} else {
			frame("sentinel")
		}
		evs = append(evs, trace.Ev{"ev": "mark"})
	}
	full := false
	for i, rd := range sc.Rounds {
		refill(full, rd.Op.Pre)
		op := rd.Op
		chain := make([]map[string]any, 0, len(rd.Chain))
		for _, lv := range rd.Chain {
			chain = append(chain, map[string]any{"m": lv.M, "c": lv.C, "r": lv.R, "w": lv.W, "h": lv.H})
		}
		chk := trace.Ev{"ev": "check", "rnd": i, "op": op.K, "chain": chain, "c": op.C, "r": op.R}
		panicked := func() (p bool) {
			defer func() {
				if r := recover(); r != nil {
					note = fmt.Sprintf("round %d: panic: %v", i, r)
					p = true
				}
			}()
			win := Build(vx, rd.Chain)
			switch op.K {
			case "set":
				win.SetCell(op.C, op.R, marker)
				chk["mk"] = []int{ctx.G.ID("M"), 1, markBg + 1}
			case "setw":
				win.SetCell(op.C, op.R, wideMark)
				chk["mk"] = []int{ctx.G.ID("世"), 2, wideBg + 1}
			case "set0", "fill0":
				// Width 0 = "measure it for me": the logged width is the FACT of how many
				// cells the scenario's terminal gives the cluster (capability-dependent)
				g := op.G
				if g == "" {
					g = "中"
				}
				chk["mk"] = []int{ctx.G.ID(g), cv.AppWidth(g), autoBg + 1}
				if op.K == "set0" {
					win.SetCell(op.C, op.R, autoCell(g))
				} else {
					win.Fill(autoCell(g))
				}
			case "style":
				win.SetStyle(op.C, op.R, vaxis.Style{Background: idx(styleBg)})
				chk["mk"] = []int{0, 1, styleBg + 1}
			case "fill":
				win.Fill(marker)
				chk["mk"] = []int{ctx.G.ID("M"), 1, markBg + 1}
			case "fillw":
				win.Fill(wideMark)
				chk["mk"] = []int{ctx.G.ID("世"), 2, wideBg + 1}
			case "clear":
				win.Clear()
			default:
				chk["op"] = "text"
				chk["fn"] = op.K
				chk["row"] = op.Row
				chk["items"] = Items(cv, op.Segs)
				bgs := []int{}
				for k := range op.Segs {
					bgs = append(bgs, segBg0+k+1)
				}
				chk["segbg"] = bgs
				chk["ell"] = ell
				chk["cut"] = CutsCluster(op.Segs)
				segs := segments(op.Segs)
				switch op.K {
				case "print":
					win.Print(segs...)
				case "println":
					win.Println(op.Row, segs...)
				case "trunc":
					win.PrintTruncate(op.Row, segs...)
				case "wrap":
					win.Wrap(segs...)
				default:
					panic("c11: unknown op " + op.K)
				}
			}
			frame(fmt.Sprintf("round %d %s", i, op.K))
			return false
		}()
		if panicked {
			evs = append(evs, trace.Ev{"ev": "panic", "rnd": i, "op": op.K})
			return evs, note
		}
		evs = append(evs, chk)
		// the next sentinel frame is repainted in full after a wide direct call (see refill), after the
		// hand-written texts whose clusters' width depends on the terminal and after a round that
		// found wide glyphs on the screen
		full = op.K == "set0" || op.K == "setw" || op.K == "fill0" || op.K == "fillw" || sc.Kind == "fixedwidth" || len(op.Pre) > 0
	}
	return evs, note
}

// ---- generators --------------------------------------------------------

const lo, hi = -2, 6 // range of every offset and size ("negative to beyond the parent" on a 4x3 screen)

var modes = []string{"new", "raw", "top"}

// pointOps returns the single-cell calls at (c, r).
func pointOps(c, r int) []Op {
	return []Op{{K: "set", C: c, R: r}, {K: "style", C: c, R: r}, {K: "setw", C: c, R: r}, {K: "set0", C: c, R: r}}
}

// wideFills are the fills with a two-cell cell: explicit Width 2, and Width 0 (measured by Vaxis).
var wideFills = []Op{{K: "fillw"}, {K: "fill0"}}

type batcher struct {
	kind       string
	mask       int
	cols, rows int
	per        int
	cur        []Round
	out        []*Scn
}

func (b *batcher) add(r Round) {
	b.cur = append(b.cur, r)
	if len(b.cur) >= b.per {
		b.flush()
	}
}

func (b *batcher) flush() {
	if len(b.cur) > 0 {
		b.out = append(b.out, &Scn{Kind: b.kind, Mask: b.mask, Cols: b.cols, Rows: b.rows, Rounds: b.cur})
		b.cur = nil
	}
}

// GenDepth1 enumerates depth-1 trees on a 4x3 screen: every mode and every
// offset/size in lo..hi (19683 geometries). For each: fill, clear and npts
// seeded single-cell calls with coordinates in -1..6 x -1..4. frac < 1
// keeps a seeded sample of the geometries (quick tier).
func GenDepth1(rng *rand.Rand, frac float64, npts int) []*Scn {
	b := &batcher{kind: "depth1", cols: 4, rows: 3, per: 24}
	for _, m := range modes {
		for c := lo; c <= hi; c++ {
			for r := lo; r <= hi; r++ {
				for w := lo; w <= hi; w++ {
					for h := lo; h <= hi; h++ {
						if frac < 1 && rng.Float64() >= frac {
							continue
						}
						ch := []Level{{m, c, r, w, h}}
						b.add(Round{ch, Op{K: "fill"}})
						b.add(Round{ch, Op{K: "clear"}})
						b.add(Round{ch, wideFills[rng.Intn(2)]})
						for k := 0; k < npts; k++ {
							ops := pointOps(rng.Intn(8)-1, rng.Intn(6)-1)
							b.add(Round{ch, ops[(k+rng.Intn(len(ops)))%len(ops)]})
						}
					}
				}
			}
		}
	}
	b.flush()
	return b.out
}

// GenCoords: every coordinate in -1..6 x -1..4 for every single-cell call on
// a set of depth-1 geometries covering each boundary class of each axis.
func GenCoords(rng *rand.Rand, full bool) []*Scn {
	b := &batcher{kind: "coords", cols: 4, rows: 3, per: 48}
	offs := []int{-2, 0, 1, 3, 5}
	sizes := []int{-1, 0, 1, 3, 6}
	for _, m := range modes {
		for _, c := range offs {
			for _, w := range sizes {
				for _, r := range offs {
					for _, h := range sizes {
						if !full && rng.Intn(16) != 0 {
							continue
						}
						ch := []Level{{m, c, r, w, h}}
						for x := -1; x <= 6; x++ {
							for y := -1; y <= 4; y++ {
								ops := pointOps(x, y)
								if full {
									for _, o := range ops {
										b.add(Round{ch, o})
									}
								} else {
									b.add(Round{ch, ops[rng.Intn(len(ops))]})
								}
							}
						}
					}
				}
			}
		}
	}
	b.flush()
	return b.out
}

func randLevel(rng *rand.Rand, depth int, biased bool) Level {
	m := "new"
	switch x := rng.Intn(10); {
	case x >= 6 && x < 9:
		m = "raw"
	case x == 9 && depth == 0:
		m = "top"
	}
	if biased {
		offs := []int{-1, 0, 0, 0, 1, 1, 2}
		sizes := []int{-1, -1, 1, 2, 3, 4, 6}
		return Level{m, offs[rng.Intn(len(offs))], offs[rng.Intn(len(offs))], sizes[rng.Intn(len(sizes))], sizes[rng.Intn(len(sizes))]}
	}
	v := func() int { return lo + rng.Intn(hi-lo+1) }
	return Level{m, v(), v(), v(), v()}
}

func randChain(rng *rand.Rand, depth int) []Level {
	biased := rng.Intn(3) != 0
	var ch []Level
	for d := 0; d < depth; d++ {
		ch = append(ch, randLevel(rng, d, biased))
	}
	return ch
}

// GenTrees: seeded random trees of depth 2 and 3 with every drawing call.
func GenTrees(rng *rand.Rand, n int) []*Scn {
	b := &batcher{kind: "tree", cols: 4, rows: 3, per: 24}
	for i := 0; i < n; i++ {
		ch := randChain(rng, 2+rng.Intn(2))
		b.add(Round{ch, Op{K: "fill"}})
		if rng.Intn(2) == 0 {
			b.add(Round{ch, Op{K: "clear"}})
		}
		if rng.Intn(2) == 0 {
			b.add(Round{ch, wideFills[rng.Intn(2)]})
		}
		for k := 0; k < 3; k++ {
			b.add(Round{ch, pointOps(rng.Intn(8)-1, rng.Intn(6)-1)[rng.Intn(4)]})
		}
		b.add(Round{ch, randText(rng, 1+rng.Intn(6))})
	}
	b.flush()
	return b.out
}

// ---- text ----------------------------------------------------------------

// Alphabet classes: n narrow, s space, w wide, c combining mark, t tab, l newline.
const classes = "nswctl"

// Classes whose display width depends on the terminal (GenTextWidth):
// e = "☺" + VS16: two cells where the terminal clusters per Unicode (mode 2027),
// one where it adds up code points; v = U+FF9E, a halfwidth voiced sound mark that
// extends the cluster before it: no cell of its own under Unicode clustering, one
// more cell on a terminal that adds up code points ("aﾞ" = 1 or 2, "世ﾞ" = 2 or 3).
const widthClasses = "nswev"

var textFns = []string{"print", "println", "trunc", "wrap"}

// Concrete turns a class string into text with distinct narrow/wide letters.
func Concrete(cls string) string {
	narrow := []string{"a", "b", "c", "d", "e", "f", "g", "h"}
	wide := []string{"世", "界", "你", "好", "😀"}
	var sb strings.Builder
	ni, wi := 0, 0
	for _, ch := range cls {
		switch ch {
		case 'n':
			sb.WriteString(narrow[ni%len(narrow)])
			ni++
		case 's':
			sb.WriteString(" ")
		case 'w':
			sb.WriteString(wide[wi%len(wide)])
			wi++
		case 'c':
			sb.WriteString("\u0301")
		case 'e':
			sb.WriteString("\u263A\uFE0F")
		case 'v':
			sb.WriteString("\uFF9E")
		case 't':
			sb.WriteString("\t")
		case 'l':
			sb.WriteString("\n")
		}
	}
	return sb.String()
}

func split(rng *rand.Rand, text string) []string {
	rs := []rune(text)
	if len(rs) < 2 || rng.Intn(3) != 0 {
		return []string{text}
	}
	k := 1 + rng.Intn(len(rs)-1)
	if len(rs) > 3 && rng.Intn(2) == 0 {
		j := k + rng.Intn(len(rs)-k)
		if j > k {
			return []string{string(rs[:k]), string(rs[k:j]), string(rs[j:])}
		}
	}
	return []string{string(rs[:k]), string(rs[k:])}
}

func randClass(rng *rand.Rand, n int) string {
	weights := "nnnnsswwwctl"
	var sb strings.Builder
	for i := 0; i < n; i++ {
		sb.WriteByte(weights[rng.Intn(len(weights))])
	}
	return sb.String()
}

func randText(rng *rand.Rand, n int) Op {
	fn := textFns[rng.Intn(len(textFns))]
	return Op{K: fn, Row: rng.Intn(5) - 1, Segs: split(rng, Concrete(randClass(rng, n)))}
}

// allClassStrings enumerates every class string of length 1..n.
func allClassStrings(n int) []string { return classStrings(classes, n) }

func classStrings(classes string, n int) []string {
	var out []string
	var rec func(prefix string)
	rec = func(prefix string) {
		if len(prefix) > 0 {
			out = append(out, prefix)
		}
		if len(prefix) == n {
			return
		}
		for _, c := range classes {
			rec(prefix + string(c))
		}
	}
	rec("")
	return out
}

// GenText: every string over the class alphabet up to length maxLen, through
// every text helper, in windows of every width 0..5 that lie strictly inside
// a 9x5 screen (so that any spill past an edge is visible), plus a window
// hanging over the screen's right edge. keep < 1 samples (string, width) pairs.
func GenText(rng *rand.Rand, maxLen int, keep float64) []*Scn {
	b := &batcher{kind: "text", cols: 9, rows: 5, per: 24}
	for _, cls := range allClassStrings(maxLen) {
		text := Concrete(cls)
		for w := 0; w <= 5; w++ {
			if keep < 1 && rng.Float64() >= keep {
				continue
			}
			chains := [][]Level{
				{{"new", 1, 1, w, 3}},
				{{"new", 9 - w, 0, w + rng.Intn(2)*2, 2}},
			}
			ch := chains[0]
			if rng.Intn(4) == 0 {
				ch = chains[1]
			}
			for _, fn := range textFns {
				b.add(Round{ch, Op{K: fn, Row: rng.Intn(3), Segs: split(rng, text)}})
			}
		}
	}
	b.flush()
	return b.out
}

// splitClasses cuts a class string into at most two styled segments, never
// right before a class that extends the previous cluster.
func splitClasses(rng *rand.Rand, cls string) []string {
	if len(cls) < 2 || rng.Intn(3) != 0 {
		return []string{Concrete(cls)}
	}
	k := 1 + rng.Intn(len(cls)-1)
	if cls[k] == 'v' || cls[k] == 'c' {
		return []string{Concrete(cls)}
	}
	return []string{Concrete(cls[:k]), Concrete(cls[k:])}
}

// WidthMasks: the capability sets that decide how wide a cluster is shown:
// none (code points added up), Unicode core, Unicode core + explicit width,
// explicit width alone.
var WidthMasks = []int{0, 1 << 1, 1<<1 | 1<<14, 1 << 14}

// GenTextWidth: every string up to maxLen over widthClasses that holds a
// cluster whose width depends on the terminal, through every text helper, in
// windows 1..5 columns wide strictly inside a 9x5 screen, on terminals with
// and without Unicode core. On a terminal with explicit widths the library
// does not turn Unicode core on and trusts the terminal to show a cluster that
// Unicode measures as one cell in one cell; this harness's terminal adds up
// code points whenever mode 2027 is off, which is not what a terminal that
// implements explicit widths does: class v is left out there. keep < 1 samples (string, width, mask) triples.
func GenTextWidth(rng *rand.Rand, maxLen int, keep float64) []*Scn {
	var out []*Scn
	for _, mask := range WidthMasks {
		b := &batcher{kind: "textwidth", mask: mask, cols: 9, rows: 5, per: 24}
		for _, cls := range classStrings(widthClasses, maxLen) {
			if !strings.ContainsAny(cls, "ev") || (mask&(1<<14) != 0 && strings.Contains(cls, "v")) {
				continue
			}
			for w := 1; w <= 5; w++ {
				if keep < 1 && rng.Float64() >= keep {
					continue
				}
				ch := []Level{{"new", 1, 1, w, 3}}
				for _, fn := range textFns {
					b.add(Round{ch, Op{K: fn, Row: rng.Intn(3), Segs: splitClasses(rng, cls)}})
				}
			}
		}
		b.flush()
		out = append(out, b.out...)
	}
	return out
}

// ---- wide cells at right edges ------------------------------------------------

// Graphemes handed over with Width 0 on terminals with and without Unicode
// core: 2/2, 1/2, 2/1 and 4/2 cells (code points added up / Unicode).
var autoGraphemes = []string{"中", "\u263A\uFE0F", "a\uFF9E", "\U0001F469\u200D\U0001F680"}

// edgeChains: the one-row windows of the 5x3 screen whose right edge is inside
// the screen, on its edge or beyond it (every mode x offset 0..4 x size
// {1,2,3,5,-1} x row {0, bottom}), and children cut by their parent's right edge.
// The window's row 0 is screen row R of the last level.
func edgeChains() [][]Level {
	var chains [][]Level
	for _, m := range modes {
		for c := 0; c <= 4; c++ {
			for _, w := range []int{1, 2, 3, 5, -1} {
				for _, r := range []int{0, 2} {
					chains = append(chains, []Level{{m, c, r, w, 1}})
				}
			}
		}
	}
	for _, m := range modes[:2] { // the parent's right edge is the one that cuts
		for pc := 0; pc <= 2; pc++ {
			for _, pw := range []int{2, 3} {
				for c := -1; c <= 1; c++ {
					for _, r := range []int{0, 2} {
						chains = append(chains, []Level{{"new", pc, 0, pw, 3}, {m, c, r, 4, 1}})
					}
				}
			}
		}
	}
	return chains
}

// GenWideEdge: single cells and fills with two-cell content, Width explicit
// and Width 0, at and around the right edge of windows whose right edge is
// inside the screen, on the screen's edge (also in the bottom row, where an
// overhanging glyph makes the terminal scroll) or beyond it, and of windows
// cut by an ancestor. 5x3 screen. keep < 1 samples the geometries.
func GenWideEdge(rng *rand.Rand, keep float64) []*Scn {
	b := &batcher{kind: "wideedge", cols: 5, rows: 3, per: 24}
	chains := edgeChains()
	for _, ch := range chains {
		if keep < 1 && rng.Float64() >= keep {
			continue
		}
		for x := 0; x <= 5; x++ {
			b.add(Round{Chain: ch, Op: Op{K: "set0", C: x}})
		}
		b.add(Round{Chain: ch, Op: Op{K: "setw", C: rng.Intn(6)}})
		b.add(Round{Chain: ch, Op: Op{K: "fill0"}})
		b.add(Round{Chain: ch, Op: Op{K: "fillw"}})
	}
	b.flush()
	out := b.out
	for _, mask := range []int{0, 1 << 1} {
		bm := &batcher{kind: "wideedge", mask: mask, cols: 5, rows: 3, per: 24}
		for _, g := range autoGraphemes {
			for _, ch := range [][]Level{{{"new", 1, 0, 3, 1}}, {{"new", 2, 0, 3, 1}}, {{"new", 2, 2, 3, 1}}, {{"new", 0, 1, 5, 1}}} {
				for x := 0; x <= 4; x++ {
					if x < 2 && rng.Intn(2) == 0 {
						continue
					}
					bm.add(Round{ch, Op{K: "set0", C: x, G: g}})
				}
				bm.add(Round{ch, Op{K: "fill0", G: g}})
			}
		}
		bm.flush()
		out = append(out, bm.out...)
	}
	return out
}

// ---- set style on what is already on the screen -----------------------------

// GenStyle: SetStyle through the windows of edgeChains on a row of the 5x3
// screen that holds a two-cell glyph in columns gx, gx+1 (gx = 0..3; Width 2 or
// left at 0), at every window column 0..5: narrow cells, the glyph's left and
// right half, with the glyph inside the window, outside it, or cut by the right
// or left edge of the window or of a parent; now and then an empty cell
// elsewhere on the row. keep < 1 samples (window, glyph position) pairs.
// Then a few on a terminal with Unicode core.
func GenStyle(rng *rand.Rand, keep float64) []*Scn {
	b := &batcher{kind: "styleedge", cols: 5, rows: 3, per: 24}
	rounds := func(b *batcher, ch []Level, gx int, k string) {
		row := ch[len(ch)-1].R
		pre := []Pre{{K: k, C: gx, R: row}}
		if e := rng.Intn(8); e < 5 && e != gx && e != gx+1 {
			pre = append(pre, Pre{K: "e", C: e, R: row})
		}
		if rng.Intn(6) == 0 && gx+3 < 5 { // a second glyph right behind the first
			pre = append(pre, Pre{K: "w", C: gx + 2, R: row})
		}
		for x := 0; x <= 5; x++ {
			b.add(Round{Chain: ch, Op: Op{K: "style", C: x, Pre: pre}})
		}
	}
	for _, ch := range edgeChains() {
		for gx := 0; gx <= 3; gx++ {
			if keep < 1 && rng.Float64() >= keep {
				continue
			}
			k := "w"
			if rng.Intn(3) == 0 {
				k = "0"
			}
			rounds(b, ch, gx, k)
		}
	}
	b.flush()
	out := b.out
	bm := &batcher{kind: "styleedge", mask: 1 << 1, cols: 5, rows: 3, per: 24}
	for _, ch := range [][]Level{{{"new", 0, 0, 3, 1}}, {{"new", 3, 2, 3, 1}}, {{"new", 1, 0, 3, 3}, {"raw", 0, 0, 4, 1}}} {
		for gx := 1; gx <= 3; gx++ {
			rounds(bm, ch, gx, "0")
		}
	}
	bm.flush()
	return append(out, bm.out...)
}

// GenStyleTrees: SetStyle at a seeded coordinate through seeded trees of depth
// 1 to 3 on the 4x3 screen, which holds one or two two-cell glyphs.
func GenStyleTrees(rng *rand.Rand, n int) []*Scn {
	b := &batcher{kind: "styletree", cols: 4, rows: 3, per: 24}
	for i := 0; i < n; i++ {
		ch := randChain(rng, 1+rng.Intn(3))
		pre := []Pre{{K: []string{"w", "w", "0"}[rng.Intn(3)], C: rng.Intn(3), R: rng.Intn(3)}}
		if rng.Intn(3) == 0 {
			p := Pre{K: "w", C: rng.Intn(3), R: rng.Intn(3)}
			if p.R != pre[0].R {
				pre = append(pre, p)
			}
		}
		for k := 0; k < 3; k++ {
			// mostly at or next to a glyph
			p := pre[rng.Intn(len(pre))]
			o := Origin(ch, 4, 3)
			c, r := p.C-o[0]+rng.Intn(3)-1, p.R-o[1]
			if rng.Intn(4) == 0 {
				c, r = rng.Intn(8)-1, rng.Intn(6)-1
			}
			b.add(Round{Chain: ch, Op: Op{K: "style", C: c, R: r, Pre: pre}})
		}
	}
	b.flush()
	return b.out
}

// Origin adds up the offsets of a chain (the last "top" level starts over):
// only used to aim the generator's coordinates at a glyph.
func Origin(chain []Level, cols, rows int) [2]int {
	o := [2]int{}
	for _, lv := range chain {
		if lv.M == "top" {
			o = [2]int{}
		}
		o[0] += lv.C
		o[1] += lv.R
	}
	return o
}

// GenTextRandom: longer seeded strings in seeded trees (clipped by ancestors).
func GenTextRandom(rng *rand.Rand, n int) []*Scn {
	b := &batcher{kind: "textrand", cols: 9, rows: 5, per: 24}
	for i := 0; i < n; i++ {
		var ch []Level
		switch rng.Intn(3) {
		case 0:
			ch = []Level{{"new", rng.Intn(4), rng.Intn(2), 1 + rng.Intn(7), 1 + rng.Intn(4)}}
		case 1:
			ch = []Level{{"new", 1 + rng.Intn(3), rng.Intn(2), 2 + rng.Intn(4), 2 + rng.Intn(3)},
				{modes[rng.Intn(2)], rng.Intn(4) - 1, rng.Intn(3) - 1, rng.Intn(9) - 1, rng.Intn(6) - 1}}
		default:
			ch = randChain(rng, 1+rng.Intn(3))
		}
		b.add(Round{ch, randText(rng, 3+rng.Intn(14))})
	}
	b.flush()
	// the same under other width-measuring capability sets
	for _, mask := range []int{1 << 1, 1 << 14, 1<<1 | 1<<14} {
		bm := &batcher{kind: "textcaps", mask: mask, cols: 9, rows: 5, per: 24}
		for i := 0; i < n/8+4; i++ {
			bm.add(Round{[]Level{{"new", 1, 1, 1 + rng.Intn(6), 3}}, randText(rng, 2+rng.Intn(8))})
		}
		bm.flush()
		b.out = append(b.out, bm.out...)
	}
	return b.out
}

// Fixed returns hand-written corner cases.
func Fixed() []*Scn {
	in3 := []Level{{"new", 0, 0, 3, 2}}
	edge := []Level{{"new", 3, 0, 3, 2}}
	rounds := []Round{
		// wide cluster arriving at the last column of a window inside the screen
		{in3, Op{K: "print", Segs: []string{"ab世c"}}},
		{in3, Op{K: "wrap", Segs: []string{"ab世c"}}},
		{in3, Op{K: "println", Segs: []string{"ab世c"}}},
		{in3, Op{K: "trunc", Segs: []string{"ab世c"}}},
		{in3, Op{K: "trunc", Segs: []string{"abc"}}},
		{in3, Op{K: "trunc", Segs: []string{"abcd"}}},
		// ... and at the last column of the screen
		{edge, Op{K: "print", Segs: []string{"ab世c"}}},
		{edge, Op{K: "setw", C: 2, R: 0}},
		{in3, Op{K: "setw", C: 2, R: 1}},
		// line break after a full row; leading combining mark; tab
		{in3, Op{K: "print", Segs: []string{"abc\nd"}}},
		{in3, Op{K: "print", Segs: []string{"\u0301a"}}},
		{in3, Op{K: "print", Segs: []string{"a\tb"}}},
		{in3, Op{K: "wrap", Segs: []string{"ab cd e"}}},
		{in3, Op{K: "wrap", Segs: []string{"abcdefg hi"}}},
		// text taller than the window
		{in3, Op{K: "print", Segs: []string{"abcdefghij"}}},
		{in3, Op{K: "print", Segs: []string{"a\nb\nc\nd"}}},
		// rows outside the window
		{in3, Op{K: "println", Row: 2, Segs: []string{"ab"}}},
		{in3, Op{K: "println", Row: -1, Segs: []string{"ab"}}},
		{in3, Op{K: "trunc", Row: -1, Segs: []string{"abcdef"}}},
		// child larger than, and outside of, its parent
		{[]Level{{"new", 1, 1, 2, 1}, {"new", -1, -1, 6, 6}}, Op{K: "fill"}},
		{[]Level{{"new", 1, 1, 2, 1}, {"raw", -1, -1, 6, 6}}, Op{K: "fill"}},
		{[]Level{{"new", 1, 1, 2, 1}, {"raw", 0, 0, 6, 6}}, Op{K: "print", Segs: []string{"abcdef"}}},
		{[]Level{{"new", 5, 0, -1, -1}}, Op{K: "fill"}},
		{[]Level{{"top", -1, -1, 9, 9}}, Op{K: "clear"}},
		{[]Level{{"new", 1, 0, 2, 2}, {"new", 1, 0, 3, 1}}, Op{K: "setw", C: 0, R: 0}},
	}
	// cells whose Width is left at 0 (Vaxis measures them) and that do not fit:
	// at a window's last column, at an ancestor's, at the screen's (the terminal
	// wraps the glyph onto the next row; in the bottom row it scrolls)
	wide := []Round{
		{in3, Op{K: "set0", C: 2, R: 1}},
		{in3, Op{K: "set0", C: 1, R: 1}},
		{[]Level{{"new", 1, 0, 2, 2}, {"new", 1, 0, 3, 1}}, Op{K: "set0"}},
		{[]Level{{"new", 1, 0, 2, 2}, {"raw", 0, 0, 3, 1}}, Op{K: "set0", C: 1}},
		{in3, Op{K: "fill0"}},
		{in3, Op{K: "fillw"}},
		{[]Level{{"new", 1, 1, 4, 1}}, Op{K: "fill0"}},
		{edge, Op{K: "fill0"}},
		{edge, Op{K: "set0", C: 2, R: 0}},
		{[]Level{{"new", 3, 2, 3, 1}}, Op{K: "set0", C: 2, R: 0}},
		{[]Level{{"top", 5, 2, 3, 1}}, Op{K: "set0"}},
	}
	// clusters that a terminal without Unicode core (mask 0) shows narrower
	// ("☺️": 1 cell) or wider ("aﾞ": 2 cells) than Unicode measures them
	in13 := []Level{{"new", 1, 0, 3, 2}}
	width := []Round{
		{in13, Op{K: "wrap", Segs: []string{"\u263A\uFE0Fbcd"}}},
		{in13, Op{K: "wrap", Segs: []string{"xya\uFF9E"}}},
		{in13, Op{K: "print", Segs: []string{"\u263A\uFE0Fbcd"}}},
		{in13, Op{K: "print", Segs: []string{"xya\uFF9E"}}},
		{in13, Op{K: "println", Segs: []string{"xya\uFF9E"}}},
		{in13, Op{K: "trunc", Segs: []string{"\u263A\uFE0Fbcd"}}},
		{in13, Op{K: "wrap", Segs: []string{"a\uFF9E \u263A\uFE0Fb c"}}},
	}
	// SetStyle on a screen that holds a two-cell glyph in columns 2 and 3 of row 0
	g23 := []Pre{{K: "w", C: 2, R: 0}}
	g23auto := []Pre{{K: "0", C: 2, R: 0}}
	style := []Round{
		// the glyph hangs over the window's right edge, a parent's right edge; its left half is outside
		{in3, Op{K: "style", C: 2, Pre: g23}},
		{in3, Op{K: "style", C: 2, Pre: g23auto}},
		{[]Level{{"new", 0, 0, 3, 3}, {"raw", 0, 0, 6, 1}}, Op{K: "style", C: 2, Pre: g23}},
		{[]Level{{"new", 0, 0, 3, 3}, {"new", 1, 0, 4, 1}}, Op{K: "style", C: 1, Pre: g23}},
		{edge, Op{K: "style", C: 0, Pre: g23}},
		// the glyph is wholly the window's: left half, right half
		{[]Level{{"new", 0, 0, 4, 2}}, Op{K: "style", C: 2, Pre: g23}},
		{[]Level{{"new", 2, 0, 2, 1}}, Op{K: "style", C: 0, Pre: g23auto}},
		{[]Level{{"new", 0, 0, 4, 2}}, Op{K: "style", C: 3, Pre: g23}},
		// next to it, on an empty cell, outside the window
		{in3, Op{K: "style", C: 1, Pre: g23}},
		{in3, Op{K: "style", C: 1, Pre: []Pre{{K: "e", C: 1, R: 0}, {K: "w", C: 2, R: 0}}}},
		{in3, Op{K: "style", C: 3, Pre: g23}},
		{[]Level{{"new", 0, 0, 2, 2}}, Op{K: "style", C: 2, Pre: g23}},
	}
	return []*Scn{
		{Kind: "fixed", Cols: 6, Rows: 3, Rounds: rounds},
		{Kind: "fixedstyle", Cols: 6, Rows: 3, Rounds: style},
		{Kind: "fixedwide", Cols: 6, Rows: 3, Rounds: wide},
		{Kind: "fixedwidth", Cols: 6, Rows: 3, Rounds: width},
		{Kind: "fixedwidth", Mask: 1 << 1, Cols: 6, Rows: 3, Rounds: width},
	}
}
