// Package c03 injects streams of terminal reports into a real Vaxis (fake
// console, chosen capability set) and records the events the application
// would see, up to an in-band sentinel key; it also issues the query APIs
// against solicited, unsolicited, duplicated and late replies.
// specs/input/Reports_Trace.tla decides. A panic in the input goroutine
// kills the process, so scenarios run in child processes.
package c03

import (
	"bytes"
	"context"
	"fmt"
	"math/rand"
	"os"
	"reflect"
	"strings"
	"sync"
	"sync/atomic"
	"time"

	"git.sr.ht/~rockorager/vaxis"

	"verif/harness/fakecon"
	"verif/harness/responder"
	"verif/harness/sess"
)

// Report is one abstract report with its wire encoding.
type Report struct {
	K     string // key mouse focusin focusout pastestart pasteend reply garbage esckey
	Hex   string // wire bytes (hex)
	Code  int    `json:",omitempty"` // key: expected key code, -1 = any
	Pb    int    `json:",omitempty"`
	X, Y  int    `json:",omitempty"`
	Final string `json:",omitempty"`
	// key reports: ModsP1 = 1 + the expected Shift(1)/Alt(2)/Ctrl(4) mask, 0 = not
	// judged; Cls = class of the encoding (see specs/input/ReportsKeys.tla);
	// Opt = the bytes may as well be a reply (zero or one event)
	ModsP1 int    `json:",omitempty"`
	Cls    string `json:",omitempty"`
	Opt    bool   `json:",omitempty"`
}

// CodeF3 is the symbolic key code of F3 in reports and logged events (the
// library's public constant KeyF03 is mapped to it when events are logged).
const CodeF3 = -103

type Step struct {
	Op      string   // inject | call | render (the application draws a frame)
	Reports []Report `json:",omitempty"` // inject: sent as one chunk
	What    string   `json:",omitempty"` // call: bg fg color cpr clipboard; reply timing in Reply
	Reply   string   `json:",omitempty"` // call: "ontime" | "late" | "never" | "twice" | "early" | "slow" (25 ms, inside the time-out)
	// inject: silence after the chunk (ms)
	PauseMs int `json:",omitempty"`
	// call cpr: Row, Col > 0 = where the terminal's cursor is (1-based); Reports of a
	// call step = what its reply may mean to the application when it comes late (an
	// optional key, or nothing) and, with InjectAtMs > 0, the key presses sent that many
	// ms after the call started (while the query is outstanding); Wants = further answers
	// the protocol allows (an ambiguous key report read as the reply)
	Row, Col   int      `json:",omitempty"`
	InjectAtMs int      `json:",omitempty"`
	Wants      []string `json:",omitempty"`
	// render: Rows/Cols != "" = the size the terminal reports from now on when asked
	// (decimal strings: they may exceed every integer type); the frame is a resize
	Rows, Cols string `json:",omitempty"`
}

type Scn struct {
	Kind  string
	Mask  int
	Alt   bool
	Loose bool
	Steps []Step
	// QSize > 0: the application's event queue holds that many events; Stall:
	// the application does not read its events while a step's reports arrive
	// (for 60 ms), so the queue is full and the input loop waits behind it
	QSize int  `json:",omitempty"`
	Stall bool `json:",omitempty"`
	// Ahead: user input the terminal sends while the library's start-up queries are
	// outstanding (type-ahead): its events are the first ones of the judged stream
	Ahead []Ahead `json:",omitempty"`
	// Behind: user input that follows the terminal's primary device attributes reply (the reply which
	// ends start-up) in the same read: it was typed later than every Ahead report and comes after them
	Behind []Report `json:",omitempty"`
	// XTWinOps: the application asks the terminal for its size (VAXIS_FORCE_XTWINOPS)
	XTWinOps bool `json:",omitempty"`
}

// Ahead: reports sent just before the terminal's Before-th reply to the start-up
// queries (0 = before the first one) or just before its primary device attributes
// reply (the last one), whichever comes first.
type Ahead struct {
	Before  int
	Reports []Report
}

// Answer: what a query call returned and the values the terminal has
// reported for that kind so far (the reply to this very query first).
type Answer struct {
	Q     string   `json:"q"`
	Got   string   `json:"got"`
	Want  string   `json:"-"`
	Wants []string `json:"wants"`
}

type Result struct {
	Events  []map[string]any `json:"events"`
	Answers []Answer         `json:"answers"`
	Stalled bool             `json:"stalled"`
	Panic   string           `json:"panic"`
	Note    string           `json:"note"`
}

const sentinel = ""

func hx(s string) string { return fmt.Sprintf("%x", s) }

func unhex(h string) []byte {
	b := make([]byte, len(h)/2)
	fmt.Sscanf(h, "%x", &b)
	return b
}

func mods(m vaxis.ModifierMask) int {
	n := 0
	if m&vaxis.ModShift != 0 {
		n |= 1
	}
	if m&vaxis.ModAlt != 0 {
		n |= 2
	}
	if m&vaxis.ModCtrl != 0 {
		n |= 4
	}
	// every other bit is reported too (an SGR mouse report carries no other
	// modifier: the oracle expects none)
	for i, b := range []vaxis.ModifierMask{vaxis.ModSuper, vaxis.ModHyper, vaxis.ModMeta, vaxis.ModCapsLock, vaxis.ModNumLock} {
		if m&b != 0 {
			n |= 8 << i
		}
	}
	if rest := m &^ (vaxis.ModShift | vaxis.ModAlt | vaxis.ModCtrl | vaxis.ModSuper | vaxis.ModHyper | vaxis.ModMeta | vaxis.ModCapsLock | vaxis.ModNumLock); rest != 0 {
		n |= 1 << 8
	}
	return n
}

func evType(t vaxis.EventType) string {
	switch t {
	case vaxis.EventPress:
		return "press"
	case vaxis.EventRelease:
		return "release"
	case vaxis.EventMotion:
		return "motion"
	case vaxis.EventRepeat:
		return "repeat"
	case vaxis.EventPaste:
		return "paste"
	}
	return "other"
}

// conv maps an application event to the oracle's record; ok=false for the
// library's internal (unexported) event types and Resize/Redraw housekeeping.
func conv(ev vaxis.Event) (map[string]any, bool) {
	switch e := ev.(type) {
	case vaxis.Key:
		code := int(e.Keycode)
		if e.Keycode == vaxis.KeyF03 {
			code = CodeF3
		}
		return map[string]any{"t": "key", "code": code, "paste": e.EventType == vaxis.EventPaste, "text": e.Text, "mods": mods(e.Modifiers)}, true
	case vaxis.Mouse:
		return map[string]any{"t": "mouse", "button": int(e.Button), "type": evType(e.EventType), "mods": mods(e.Modifiers),
			"col": e.Col, "row": e.Row}, true
	case vaxis.FocusIn:
		return map[string]any{"t": "focusin"}, true
	case vaxis.FocusOut:
		return map[string]any{"t": "focusout"}, true
	case vaxis.PasteStartEvent:
		return map[string]any{"t": "pastestart"}, true
	case vaxis.PasteEndEvent:
		return map[string]any{"t": "pasteend"}, true
	case vaxis.Resize, vaxis.Redraw, vaxis.ColorThemeUpdate, vaxis.QuitEvent:
		return nil, false
	}
	t := reflect.TypeOf(ev)
	if t != nil && t.PkgPath() == "git.sr.ht/~rockorager/vaxis" && !isExported(t.Name()) {
		return nil, false // internal capability/reply event
	}
	return map[string]any{"t": "other", "name": fmt.Sprintf("%T", ev)}, true
}

func isExported(n string) bool { return n != "" && n[0] >= 'A' && n[0] <= 'Z' }

// Execute runs one scenario in this process.
func Execute(sc *Scn) *Result {
	res := &Result{Events: []map[string]any{}, Answers: []Answer{}}
	sess.ScrubEnv()
	caps := responder.FromMask(sc.Mask, sc.Alt)
	con := fakecon.New(80, 24)
	// type-ahead: sent between the replies to the start-up queries
	ahead, nreply := append([]Ahead(nil), sc.Ahead...), 0
	behind := sc.Behind
	resp := responder.New(caps, 80, 24, func(b []byte) {
		da1 := bytes.HasPrefix(b, []byte("\x1b[?")) && bytes.HasSuffix(b, []byte("c"))
		if da1 && len(behind) > 0 {
			// one write of the terminal: the reply and what was typed right after it
			b = append([]byte(nil), b...)
			for _, r := range behind {
				b = append(b, unhex(r.Hex)...)
			}
			behind = nil
		}
		if len(ahead) > 0 {
			for len(ahead) > 0 && (da1 || ahead[0].Before <= nreply) {
				var t []byte
				for _, r := range ahead[0].Reports {
					t = append(t, unhex(r.Hex)...)
				}
				con.Inject(t)
				ahead = ahead[1:]
			}
			nreply++
		}
		con.Inject(b)
	})
	resp.Clipboard = "clip-content"
	var rmu sync.Mutex
	replyMode := "ontime"
	var lastBg string
	var sizeRows, sizeCols string // != "": the size the terminal reports when asked (render step)
	con.OnWrite = func(p []byte) {
		rmu.Lock()
		mode := replyMode
		rows, cols := sizeRows, sizeCols
		rmu.Unlock()
		if rows != "" && bytes.Contains(p, []byte("\x1b[18t")) {
			con.Inject([]byte("\x1b[4;600;800t\x1b[8;" + rows + ";" + cols + "t"))
			return
		}
		switch mode {
		case "never":
			return
		case "late":
			q := append([]byte(nil), p...)
			go func() { time.Sleep(90 * time.Millisecond); resp.OnWrite(q) }()
			return
		case "slow":
			q := append([]byte(nil), p...)
			go func() { time.Sleep(25 * time.Millisecond); resp.OnWrite(q) }()
			return
		case "early":
			// the reply is on the wire before the write call returns to the requester
			resp.OnWrite(p)
			time.Sleep(3 * time.Millisecond)
			return
		case "twice":
			resp.OnWrite(p)
			// the duplicate is appended by call()
			return
		}
		resp.OnWrite(p)
	}
	_ = lastBg
	if sc.XTWinOps {
		os.Setenv("VAXIS_FORCE_XTWINOPS", "1")
	}
	vx, err := vaxis.New(vaxis.Options{WithConsole: con, NoSignals: true, EventQueueSize: sc.QSize})
	os.Unsetenv("VAXIS_FORCE_XTWINOPS")
	if err != nil {
		res.Note = "start: " + err.Error()
		return res
	}
	// collect events
	var emu sync.Mutex
	sawSentinel := make(chan struct{}, 64)
	stop := make(chan struct{})
	var paused atomic.Bool
	go func() {
		for {
			if paused.Load() {
				time.Sleep(time.Millisecond)
				continue
			}
			select {
			case ev := <-vx.Events():
				if k, ok := ev.(vaxis.Key); ok && k.Text == sentinel {
					sawSentinel <- struct{}{}
					continue
				}
				if m, ok := conv(ev); ok {
					emu.Lock()
					res.Events = append(res.Events, m)
					emu.Unlock()
				}
			case <-stop:
				return
			}
		}
	}()
	// the sentinel is sent up to three times: an unfinished sequence left by
	// the scenario (ESC O, an unterminated string) legitimately swallows one
	sync1 := func() bool {
		for try := 0; try < 3; try++ {
			con.Inject([]byte(sentinel))
			select {
			case <-sawSentinel:
				return true
			case <-time.After(700 * time.Millisecond):
				con.Inject([]byte("\x18")) // CAN: abandon whatever is pending
			}
		}
		return false
	}
	reported := map[string][]string{} // kind -> values the terminal volunteered
	// everything start-up produced is not part of the scenario
	if !sync1() {
		res.Stalled = true
		res.Note = "stalled right after start-up"
		return res
	}
	if len(sc.Ahead) == 0 && len(sc.Behind) == 0 {
		emu.Lock()
		res.Events = res.Events[:0]
		emu.Unlock()
	}
steps:
	for _, st := range sc.Steps {
		switch st.Op {
		case "render":
			// the application answers the Redraw event of a size report by drawing
			// (the reports sent so far have been read: a sentinel round trip)
			if !sync1() {
				res.Stalled = true
				res.Note = "stalled before a frame"
				return res
			}
			func() {
				defer func() {
					if p := recover(); p != nil {
						res.Panic = fmt.Sprintf("panic: Render after a size report: %v", p)
					}
				}()
				if st.Rows != "" {
					rmu.Lock()
					sizeRows, sizeCols = st.Rows, st.Cols
					rmu.Unlock()
					vx.Resize() // the window changed (what SIGWINCH announces)
				}
				vx.Render()
				vx.Window().Fill(vaxis.Cell{Character: vaxis.Character{Grapheme: "x", Width: 1}})
				vx.Render()
			}()
			if res.Panic != "" {
				break steps
			}
		case "inject":
			var b []byte
			esc := false
			for _, r := range st.Reports {
				b = append(b, unhex(r.Hex)...)
				if r.K == "esckey" {
					esc = true
				}
			}
			bs := string(b)
			if strings.Contains(bs, "\x1b]11;rgb:9999") {
				reported["bg"] = append(reported["bg"], "rgb:99/99/99")
			}
			if strings.Contains(bs, "\x1b]10;rgb:9999") {
				reported["fg"] = append(reported["fg"], "rgb:99/99/99")
			}
			if strings.Contains(bs, "\x1b]4;1;rgb:9999") {
				reported["color"] = append(reported["color"], "rgb:99/99/99")
			}
			if strings.Contains(bs, "\x1b[7;7R") {
				reported["cpr"] = append(reported["cpr"], "6,6")
			}
			if strings.Contains(bs, "\x1b]52;c;aGk=") {
				reported["clipboard"] = append(reported["clipboard"], fmt.Sprintf("%q,%v", "hi", false))
			}
			if sc.Stall {
				paused.Store(true)
			}
			con.Inject(b)
			if esc {
				time.Sleep(40 * time.Millisecond) // a lone ESC is a key press only after silence
			}
			if sc.Stall {
				time.Sleep(60 * time.Millisecond)
				paused.Store(false)
			}
			if st.PauseMs > 0 {
				time.Sleep(time.Duration(st.PauseMs) * time.Millisecond)
			}
		case "call":
			if !sc.Loose && !sync1() { // a judged stream: nothing of it is still in flight when the query goes out
				res.Stalled = true
				res.Note = "stalled before a call"
				return res
			}
			if st.Row > 0 && st.Col > 0 {
				resp.Row, resp.Col = st.Row, st.Col
			}
			if st.InjectAtMs > 0 {
				var b []byte
				for _, r := range st.Reports {
					b = append(b, unhex(r.Hex)...)
				}
				go func(d int) { time.Sleep(time.Duration(d) * time.Millisecond); con.Inject(b) }(st.InjectAtMs)
			}
			rmu.Lock()
			replyMode = st.Reply
			rmu.Unlock()
			done := make(chan Answer, 1)
			go func(what string) {
				a := Answer{Q: what}
				switch what {
				case "bg":
					a.Want = "rgb:01/02/03"
					a.Got = colStr(vx.QueryBackground())
				case "fg":
					a.Want = "rgb:ab/cd/ef"
					a.Got = colStr(vx.QueryForeground())
				case "color":
					a.Want = "rgb:12/34/56"
					a.Got = colStr(vx.QueryColor(vaxis.IndexColor(1)))
				case "cpr":
					r, c := vx.CursorPosition()
					a.Got = fmt.Sprintf("%d,%d", r, c)
					a.Want = fmt.Sprintf("%d,%d", resp.Row-1, resp.Col-1)
					if st.Reply == "late" || st.Reply == "never" {
						a.Want = "-1,-1"
					}
				case "clipboard":
					ctx, cancel := context.WithTimeout(context.Background(), 500*time.Millisecond)
					s, err := vx.ClipboardPop(ctx)
					cancel()
					a.Got = fmt.Sprintf("%q,%v", s, err != nil)
					a.Want = fmt.Sprintf("%q,%v", "clip-content", false) // the terminal answers OSC 52 at once
				}
				done <- a
			}(st.What)
			select {
			case a := <-done:
				// capabilities the terminal did not advertise: the API returns the zero colour
				if (st.What == "bg" && !caps.OSC11) || (st.What == "fg" && !caps.OSC10) || (st.What == "color" && !caps.OSC4) {
					a.Want = "zero"
				}
				a.Wants = append([]string{a.Want}, reported[st.What]...)
				a.Wants = append(a.Wants, st.Wants...)
				if st.What == "cpr" {
					a.Wants = append(a.Wants, "-1,-1") // a loaded machine may miss the 50 ms deadline
				}
				res.Answers = append(res.Answers, a)
			case <-time.After(2 * time.Second):
				res.Answers = append(res.Answers, Answer{Q: st.What, Got: "blocked", Wants: []string{"an answer"}})
			}
			if st.Reply == "late" {
				time.Sleep(120 * time.Millisecond) // let the late reply arrive (now unsolicited)
			}
			if st.Reply == "slow" {
				time.Sleep(60 * time.Millisecond) // the reply has arrived whoever took it
			}
			rmu.Lock()
			replyMode = "ontime"
			rmu.Unlock()
		}
	}
	if !sync1() {
		res.Stalled = true
	}
	close(stop)
	done := make(chan struct{})
	go func() { vx.Close(); close(done) }()
	select {
	case <-done:
	case <-time.After(3 * time.Second):
		res.Note = "Close did not return"
	}
	return res
}

func colStr(c vaxis.Color) string {
	p := c.Params()
	if len(p) == 3 {
		return fmt.Sprintf("rgb:%02x/%02x/%02x", p[0], p[1], p[2])
	}
	return "zero"
}

// ---- generators ---------------------------------------------------------------

func key(s string, code int) Report { return Report{K: "key", Hex: hx(s), Code: code} }

func randKey(rng *rand.Rand) Report {
	switch rng.Intn(10) {
	case 0:
		return key("\x1b[A", -1)
	case 1:
		return key("\x1bOP", -1)
	case 2:
		return key(fmt.Sprintf("\x1b[%d;%du", 97+rng.Intn(26), 1+rng.Intn(8)), -1) // kitty
	case 3:
		return key("\x1b[3;5~", -1)
	case 4:
		return key("\r", -1)
	case 5:
		return key("世", -1)
	case 6:
		return key("\x1bx", -1) // alt+x
	case 7:
		return key(string(rune(1+rng.Intn(26))), -1) // ctrl+letter
	}
	c := 'a' + rune(rng.Intn(26))
	return key(string(c), int(c))
}

func randMouse(rng *rand.Rand) Report {
	pb := rng.Intn(256)
	x, y := 1+rng.Intn(300), 1+rng.Intn(120)
	f := "M"
	if rng.Intn(3) == 0 {
		f = "m"
	}
	return Report{K: "mouse", Hex: hx(fmt.Sprintf("\x1b[<%d;%d;%d%s", pb, x, y, f)), Pb: pb, X: x, Y: y, Final: f}
}

var unsolicited = []string{
	"\x1b[?62;22c", "\x1b[?62;4;22c", "\x1b[?2026;2$y", "\x1b[?2027;1$y", "\x1b[?2031;2$y", "\x1b[?2027$y", "\x1b[?$y", "\x1b[$y",
	"\x1b[?997;1n", "\x1b[?997n", "\x1b[?1u", "\x1b[?2;0;800;600S", "\x1b[?2;0S", "\x1b[4;600;800t", "\x1b[8;24;80t", "\x1b[8;24t",
	"\x1b[48;24;80;600;800t", "\x1b[48;24;80t", "\x1bP1+r524742=382F382F38\x1b\\", "\x1bP0+r\x1b\\", "\x1bP+r\x1b\\", "\x1bP1+r\x1b\\",
	"\x1bP1$r2 q\x1b\\", "\x1bP1$r9 q\x1b\\", "\x1bP1$r q\x1b\\", "\x1bP!|7E565445\x1b\\", "\x1bP>|foot(1.2)\x1b\\", "\x1b_Gi=1;OK\x1b\\",
	"\x1b_\x1b\\", "\x1b]4;1;rgb:1212/3434/5656\x1b\\", "\x1b]10;rgb:abab/cdcd/efef\x1b\\", "\x1b]11;rgb:0101/0202/0303\x1b\\",
	"\x1b]11;rgb:zz\x1b\\", "\x1b]52;c;aGk=\x1b\\", "\x1b]52;c\x1b\\", "\x1b]52;c;!!!\x1b\\", "\x1b]176;app\x1b\\", "\x1b]176\x1b\\",
	"\x1b[1;1R", "\x1b[5R", "\x1b[200~", "\x1b[201~", "\x1b[~", "\x1b[I", "\x1b[O",
}

var garbage = []string{
	"\x1b[M !!", "\x1b[0;1;1M", "\x1b[<0;1M", "\x1b[<0;1;1;1M", "\x1b[<;;M", "\x1b[M", "\x1b[m", "\x1b[;M", "\x1b[t", "\x1b[1t", "\x1b[1;2t",
	"\x1b[c", "\x1b[?c", "\x1b[y", "\x1b[S", "\x1b[?S", "\x1b[n", "\x1b[?n", "\x1b[u", "\x1b[?u", "\x1bP+r\x1b\\", "\x1bP$r\x1b\\", "\x1bP|\x1b\\",
	"\x1bPr\x1b\\", "\x1bP1r\x1b\\", "\x1b]4\x1b\\", "\x1b]\x1b\\", "\x1b]52\x1b\\", "\x1b_\x1b\\", "\xff\xfe", "\x1b[99999999999u", "\x1b[;u", "\x1b[1;1:3u",
	"\x1b[57399;1:5u", "\x1b[27;5;13~", "\x1b[0~", "\x1b[1;0A", "\x1b[1;999Z", "\x1bO", "\x1bO\x7f", "\x1b\x7f",
}

// Stream: strict user-input stream (every byte has a prescribed meaning).
func Stream(rng *rand.Rand) *Scn {
	sc := &Scn{Kind: "stream", Mask: rng.Intn(1 << 15), Alt: rng.Intn(2) == 0}
	n := 1 + rng.Intn(4)
	for i := 0; i < n; i++ {
		var rs []Report
		for k := 1 + rng.Intn(10); k > 0; k-- {
			switch x := rng.Intn(20); {
			case x < 9:
				rs = append(rs, randKey(rng))
			case x < 14:
				rs = append(rs, randMouse(rng))
			case x < 15:
				rs = append(rs, Report{K: "focusin", Hex: hx("\x1b[I")})
			case x < 16:
				rs = append(rs, Report{K: "focusout", Hex: hx("\x1b[O")})
			case x < 18:
				rs = append(rs, Report{K: "pastestart", Hex: hx("\x1b[200~")})
				for p := rng.Intn(6); p > 0; p-- {
					rs = append(rs, randKey(rng))
				}
				if rng.Intn(4) == 0 { // pasted text may contain escape sequences
					rs = append(rs, key("\x1b[A", -1), key("\x1b[1;5C", -1))
				}
				rs = append(rs, Report{K: "pasteend", Hex: hx("\x1b[201~")})
			default:
				rs = append(rs, Report{K: "reply", Hex: hx([]string{"\x1b[?62;22c", "\x1b[?2026;2$y", "\x1bP1+r524742=38\x1b\\", "\x1b_Gi=1;OK\x1b\\"}[rng.Intn(4)])})
			}
		}
		sc.Steps = append(sc.Steps, Step{Op: "inject", Reports: rs})
	}
	if rng.Intn(5) == 0 {
		sc.Steps = append(sc.Steps, Step{Op: "inject", Reports: []Report{{K: "esckey", Hex: hx("\x1b"), Code: 27}}})
		sc.Steps[len(sc.Steps)-1].Reports[0].K = "esckey"
	}
	return sc
}

// Backpressure: a report stream arriving while the application is not
// reading its (small) event queue: every report still becomes its event, once,
// in stream order.
func Backpressure(rng *rand.Rand) *Scn {
	sc := Stream(rng)
	noEsc := func(steps []Step) []Step { // a lone ESC is a key press only when silence follows: keep none but a final one
		var out []Step
		for _, st := range steps {
			lone := false
			for _, r := range st.Reports {
				lone = lone || r.K == "esckey"
			}
			if !lone {
				out = append(out, st)
			}
		}
		return out
	}
	sc.Steps = noEsc(sc.Steps)
	for len(sc.Steps) < 3 {
		more := Stream(rng)
		sc.Steps = append(sc.Steps, noEsc(more.Steps)...)
	}
	sc.Kind = "backpressure"
	sc.QSize = []int{1, 2, 4, 8}[rng.Intn(4)]
	sc.Stall = true
	return sc
}

// Robust: replies nobody asked for, truncated and malformed reports, garbage.
func Robust(rng *rand.Rand) *Scn {
	sc := &Scn{Kind: "robust", Mask: rng.Intn(1 << 15), Alt: rng.Intn(2) == 0, Loose: true}
	if rng.Intn(2) == 0 {
		sc.Mask |= 1<<10 | 1<<11 | 1<<12 | 1<<7 // colour and size reports established at start-up
	}
	for i := 1 + rng.Intn(3); i > 0; i-- {
		var rs []Report
		for k := 1 + rng.Intn(8); k > 0; k-- {
			var s string
			switch rng.Intn(3) {
			case 0:
				s = garbage[rng.Intn(len(garbage))]
			default:
				s = unsolicited[rng.Intn(len(unsolicited))]
			}
			rep := 1
			if rng.Intn(3) == 0 {
				rep = 2 + rng.Intn(3) // repeated
			}
			rs = append(rs, Report{K: "garbage", Hex: hx(strings.Repeat(s, rep))})
		}
		sc.Steps = append(sc.Steps, Step{Op: "inject", Reports: rs})
	}
	return sc
}

// Each: one scenario per unsolicited/garbage item, repeated three times,
// under a capability set that established every reply channel.
func Each() []*Scn {
	var out []*Scn
	full := 1<<15 - 1
	for _, list := range [][]string{unsolicited, garbage} {
		for _, s := range list {
			for _, mask := range []int{0, full} {
				out = append(out, &Scn{Kind: "each", Mask: mask, Loose: true,
					Steps: []Step{{Op: "inject", Reports: []Report{{K: "garbage", Hex: hx(strings.Repeat(s, 3))}}}}})
			}
		}
	}
	return out
}

// F3AfterTimeout: a cursor position request the terminal never answers, then the
// user presses F3 (legacy encoding CSI R, the same final byte as the report):
// every one of those key presses is user input and must be delivered.
func F3AfterTimeout(rng *rand.Rand) *Scn {
	sc := &Scn{Kind: "f3-after-cpr-timeout", Mask: rng.Intn(1<<15) &^ (1 << 4), Alt: rng.Intn(2) == 0}
	sc.Steps = append(sc.Steps, Step{Op: "call", What: "cpr", Reply: "never"})
	f3 := []string{"\x1b[R", "\x1b[1;2R", "\x1b[1;5R"}
	rs := []Report{key(f3[rng.Intn(3)], -1), key("a", 'a'), key(f3[rng.Intn(3)], -1)}
	sc.Steps = append(sc.Steps, Step{Op: "inject", Reports: rs})
	return sc
}

// QueryCaps: each colour query under every subset of the three colour-report
// capabilities (OSC 4, 10, 11 answered or not): a query the terminal answers
// returns the reported colour whatever the other two capabilities are.
func QueryCaps(rng *rand.Rand) []*Scn {
	var out []*Scn
	for sub := 0; sub < 8; sub++ {
		for _, order := range [][]string{{"bg", "fg", "color"}, {"color", "fg", "bg"}} {
			sc := &Scn{Kind: "query-caps", Mask: rng.Intn(1<<10) | sub<<10 | rng.Intn(4)<<13, Alt: rng.Intn(2) == 0, Loose: true}
			for _, w := range order {
				sc.Steps = append(sc.Steps, Step{Op: "call", What: w, Reply: "ontime"})
			}
			out = append(out, sc)
		}
	}
	return out
}

// Queries: the query APIs against reply timings, preceded/followed by unsolicited replies.
func Queries(rng *rand.Rand) *Scn {
	sc := &Scn{Kind: "query", Mask: rng.Intn(1 << 15), Alt: rng.Intn(2) == 0, Loose: true}
	if rng.Intn(2) == 0 {
		sc.Mask |= 1<<10 | 1<<11 | 1<<12 // all three colour queries answered
	}
	whats := []string{"bg", "fg", "color", "cpr", "clipboard"}
	for i := 1 + rng.Intn(4); i > 0; i-- {
		if rng.Intn(2) == 0 {
			s := []string{"\x1b]11;rgb:9999/9999/9999\x1b\\", "\x1b]10;rgb:9999/9999/9999\x1b\\", "\x1b]4;1;rgb:9999/9999/9999\x1b\\",
				"\x1b[7;7R", "\x1b]52;c;aGk=\x1b\\", "\x1b[8;24;80t"}[rng.Intn(6)]
			sc.Steps = append(sc.Steps, Step{Op: "inject", Reports: []Report{{K: "garbage", Hex: hx(strings.Repeat(s, 1+rng.Intn(3)))}}})
		}
		w := whats[rng.Intn(len(whats))]
		reply := []string{"ontime", "early"}[rng.Intn(2)]
		if w == "cpr" {
			reply = []string{"ontime", "early", "late", "never"}[rng.Intn(4)]
		}
		sc.Steps = append(sc.Steps, Step{Op: "call", What: w, Reply: reply})
	}
	return sc
}

// ---- key reports judged beyond "one key event" (specs/input/ReportsKeys.tla) ----

// plain: one printable ASCII byte = that character, no modifier.
func plain(c rune) Report { return Report{K: "key", Hex: hx(string(c)), Code: int(c), ModsP1: 1} }

func plainKeys(rng *rand.Rand, n int) []Report {
	var rs []Report
	for ; n > 0; n-- {
		if rng.Intn(4) == 0 {
			rs = append(rs, plain('0'+rune(rng.Intn(10))))
		} else {
			rs = append(rs, plain('a'+rune(rng.Intn(26))))
		}
	}
	return rs
}

// c0Key: a key whose legacy encoding is one control byte (Enter, Tab, Backspace, Ctrl+letter).
func c0Key(b byte) Report { return Report{K: "key", Hex: hx(string(rune(b))), Code: -1, Cls: "c0"} }

// EscC0ThenKeys: a legacy Alt chord of a control key (ESC + control byte: Alt+Enter,
// Alt+Tab, Alt+Backspace, Ctrl+Alt+letter), silence, then ordinary key presses: each
// is one event, and the later ones are the keys that were pressed (no modifier).
func EscC0ThenKeys(rng *rand.Rand) *Scn {
	sc := &Scn{Kind: "esc-c0-then-keys", Mask: rng.Intn(1 << 15), Alt: rng.Intn(2) == 0}
	c0s := []byte{0x0d, 0x09, 0x08, 0x01, 0x0d, 0x09, 0x02, 0x1f, 0x00, 0x18, 0x1a}
	first := plainKeys(rng, rng.Intn(3))
	b := c0s[rng.Intn(len(c0s))]
	first = append(first, Report{K: "key", Hex: hx("\x1b" + string(rune(b))), Code: -1, Cls: "escc0"})
	sc.Steps = append(sc.Steps, Step{Op: "inject", Reports: first, PauseMs: []int{0, 15, 60, 300}[rng.Intn(4)]})
	var rest []Report
	for k := rng.Intn(3); k > 0; k-- { // control-byte keys in between
		rest = append(rest, c0Key([]byte{0x0d, 0x09, 0x03, 0x08}[rng.Intn(4)]))
	}
	rest = append(rest, plainKeys(rng, 1+rng.Intn(3))...)
	if rng.Intn(2) == 0 {
		rest = append(rest, key("\x1b[A", -1))
		rest = append(rest, plainKeys(rng, 1+rng.Intn(2))...)
	}
	if rng.Intn(2) == 0 {
		sc.Steps = append(sc.Steps, Step{Op: "inject", Reports: rest})
	} else { // key by key
		for _, r := range rest {
			sc.Steps = append(sc.Steps, Step{Op: "inject", Reports: []Report{r}, PauseMs: rng.Intn(3) * 12})
		}
	}
	return sc
}

// EscPrefixed: ESC followed at once by a key that is not an ASCII character: a
// non-ASCII character (legacy Alt+é), Escape (Alt+Escape), an Escape-prefixed
// cursor key (ESC ESC [ A: Alt+Up of rxvt): one event each, then ordinary keys.
func EscPrefixed(rng *rand.Rand) *Scn {
	sc := &Scn{Kind: "esc-prefixed-key", Mask: rng.Intn(1 << 15), Alt: rng.Intn(2) == 0}
	rs := plainKeys(rng, rng.Intn(3))
	pause := 0
	switch rng.Intn(4) {
	case 0, 1:
		c := []rune{'é', 'ü', 'ж', '世', 'ß', 0x1F600}[rng.Intn(6)]
		rs = append(rs, Report{K: "key", Hex: hx("\x1b" + string(c)), Code: int(c), Cls: "esc-nonascii"})
		if rng.Intn(2) == 0 {
			rs = append(rs, plainKeys(rng, 1+rng.Intn(2))...) // in the same read
		}
	case 2:
		rs = append(rs, Report{K: "key", Hex: hx("\x1b\x1b"), Code: 27, Cls: "esc-esc"})
		pause = 40 // the second ESC is complete only after silence
	case 3:
		rs = append(rs, Report{K: "key", Hex: hx("\x1b\x1b[A"), Code: -1, Cls: "esc-esc-csi"})
	}
	sc.Steps = append(sc.Steps, Step{Op: "inject", Reports: rs, PauseMs: pause})
	sc.Steps = append(sc.Steps, Step{Op: "inject", Reports: plainKeys(rng, 1+rng.Intn(3))})
	return sc
}

// EscSosPm: legacy Alt+Shift+x / Alt+^ (ESC X, ESC ^: in ECMA-48 the introducers of the
// SOS and PM strings, which no terminal sends as a report), then ordinary keys.
func EscSosPm(rng *rand.Rand) *Scn {
	sc := &Scn{Kind: "esc-sos-pm-key", Mask: rng.Intn(1 << 15), Alt: rng.Intn(2) == 0}
	c := []rune{'X', '^'}[rng.Intn(2)]
	code := int(c)
	if c == 'X' {
		code = 'x'
	}
	rs := plainKeys(rng, rng.Intn(2))
	rs = append(rs, Report{K: "key", Hex: hx("\x1b" + string(c)), Code: code, Cls: "esc-sos-pm"})
	sc.Steps = append(sc.Steps, Step{Op: "inject", Reports: rs, PauseMs: 20})
	sc.Steps = append(sc.Steps, Step{Op: "inject", Reports: plainKeys(rng, 1+rng.Intn(3))})
	sc.Steps = append(sc.Steps, Step{Op: "inject", Reports: append([]Report{key("\x1b[A", -1)}, plainKeys(rng, 1)...)})
	return sc
}

// CprTiming: cursor position requests against reply timings, in a strict key stream.
// A report CSI r;c R with r != 1 is never a key press: whenever it arrives it is consumed.
// CSI 1;c R is also F3 with modifiers: either reading (optional event). F3 pressed while
// a request is outstanding: CSI R can not be the report and is delivered; CSI 1;m R may
// be taken for it (then the answer is row 1, column m).
func CprTiming(rng *rand.Rand) *Scn {
	sc := &Scn{Kind: "cpr-timing", Mask: rng.Intn(1<<15) &^ (1 << 4), Alt: rng.Intn(2) == 0}
	n := 1 + rng.Intn(2)
	for i := 0; i < n; i++ {
		if rng.Intn(2) == 0 {
			sc.Steps = append(sc.Steps, Step{Op: "inject", Reports: plainKeys(rng, 1+rng.Intn(2))})
		}
		row, col := 2+rng.Intn(23), 1+rng.Intn(80)
		st := Step{Op: "call", What: "cpr", Row: row, Col: col}
		switch rng.Intn(8) {
		case 0, 1, 2: // the reply comes after the time-out
			st.Reply = "late"
		case 3: // ... with the cursor on the first row: the late reply reads as an F3 chord too
			st.Reply, st.Row = "late", 1
			st.Reports = []Report{{K: "key", Hex: "", Code: -1, Cls: "cpr-row1-late", Opt: true}}
		case 4: // no reply at all
			st.Reply = "never"
		case 5: // in time
			st.Reply = []string{"ontime", "early", "slow"}[rng.Intn(3)]
		case 6: // F3 pressed while the request is outstanding
			st.Reply, st.InjectAtMs = "slow", 5
			st.Reports = []Report{{K: "key", Hex: hx("\x1b[R"), Code: CodeF3, Cls: "f3-while-cpr-outstanding"}}
		case 7: // Shift/Ctrl+F3 pressed while the request is outstanding: ambiguous
			m := []int{2, 5, 3, 6}[rng.Intn(4)]
			st.Reply, st.InjectAtMs = "slow", 5
			st.Reports = []Report{{K: "key", Hex: hx(fmt.Sprintf("\x1b[1;%dR", m)), Code: CodeF3, Cls: "f3-chord-while-cpr-outstanding", Opt: true}}
			st.Wants = []string{fmt.Sprintf("0,%d", m-1)}
		}
		sc.Steps = append(sc.Steps, st)
		tail := plainKeys(rng, 1+rng.Intn(2))
		if rng.Intn(3) == 0 { // F3 once nothing is outstanding any more: a key press
			tail = append(tail, Report{K: "key", Hex: hx([]string{"\x1b[R", "\x1b[1;2R"}[rng.Intn(2)]), Code: CodeF3, Cls: "f3"})
			tail = append(tail, plainKeys(rng, 1)...)
		}
		sc.Steps = append(sc.Steps, Step{Op: "inject", Reports: tail})
	}
	return sc
}

// ---- input during start-up; absurd size reports ------------------------------------

func ta(r Report) Report { r.Cls = "typeahead"; return r }

// aheadReports: user input with one meaning whatever queries are outstanding (no F3
// chord: CSI 1;m R is also a cursor position report; no lone ESC: a key only after silence);
// keys with an exact code outside a paste, any key inside one.
func aheadReports(rng *rand.Rand) []Report {
	var rs []Report
	for k := 1 + rng.Intn(4); k > 0; k-- {
		switch x := rng.Intn(12); {
		case x < 5:
			for n := 1 + rng.Intn(3); n > 0; n-- {
				rs = append(rs, ta(plain('a'+rune(rng.Intn(26)))))
			}
		case x < 6:
			rs = append(rs, ta(key("世", 0x4e16)))
		case x < 8:
			rs = append(rs, randMouse(rng))
		case x < 9:
			rs = append(rs, Report{K: "focusin", Hex: hx("\x1b[I")})
		case x < 10:
			rs = append(rs, Report{K: "focusout", Hex: hx("\x1b[O")})
		default:
			rs = append(rs, Report{K: "pastestart", Hex: hx("\x1b[200~")})
			for p := rng.Intn(4); p > 0; p-- {
				rs = append(rs, ta(randKey(rng)))
			}
			rs = append(rs, Report{K: "pasteend", Hex: hx("\x1b[201~")})
		}
	}
	return rs
}

// TypeAhead: the user types (clicks, pastes, the window gains focus) while the program
// starts: the reports reach the program before / between the terminal's replies to the
// start-up queries. Every one of them is user input: one event each, in stream order,
// ahead of what is typed later; event queues of 1..4 events and the default one.
func TypeAhead(rng *rand.Rand) *Scn {
	sc := &Scn{Kind: "typeahead", Mask: rng.Intn(1 << 15), Alt: rng.Intn(2) == 0, QSize: []int{0, 0, 1, 2, 3, 4}[rng.Intn(6)]}
	before := 0
	for n := 1 + rng.Intn(3); n > 0; n-- {
		if rng.Intn(3) == 0 {
			before = 99 // just before the primary device attributes reply
		} else {
			before += rng.Intn(5)
		}
		sc.Ahead = append(sc.Ahead, Ahead{Before: before, Reports: aheadReports(rng)})
	}
	// what is typed later starts with a digit: no report of the start-up phase means the same event
	later := append([]Report{plain('0' + rune(rng.Intn(10)))}, plainKeys(rng, rng.Intn(3))...)
	if rng.Intn(2) == 0 {
		later = append(later, randMouse(rng))
	}
	sc.Steps = append(sc.Steps, Step{Op: "inject", Reports: later})
	return sc
}

// TypeAheadBehind: input on both sides of the reply which ends start-up, the later part in the same
// read as that reply: the order of the keys is the order they were typed in.
func TypeAheadBehind() []*Scn {
	var out []*Scn
	for _, q := range []int{0, 1, 2, 4} {
		for _, mask := range []int{0, 1<<15 - 1, 1 << 4} {
			out = append(out, &Scn{Kind: "typeahead", Mask: mask, QSize: q,
				Ahead:  []Ahead{{Before: 99, Reports: []Report{ta(plain('a')), ta(plain('b')), ta(plain('c'))}}},
				Behind: []Report{ta(plain('d')), ta(plain('e')), ta(plain('f'))},
				Steps:  []Step{{Op: "inject", Reports: []Report{plain('1')}}}})
			out = append(out, &Scn{Kind: "typeahead", Mask: mask, QSize: q,
				Ahead:  []Ahead{{Before: 0, Reports: []Report{ta(plain('p'))}}, {Before: 99, Reports: []Report{ta(plain('q'))}}},
				Behind: []Report{ta(plain('r')), ta(plain('s'))},
				Steps:  []Step{{Op: "inject", Reports: []Report{plain('2')}}}})
		}
	}
	return out
}

// TypeAheadEach: "hi" typed right before the reply which ends start-up, per queue size
// and for the poorest and the richest terminal.
func TypeAheadEach() []*Scn {
	var out []*Scn
	for _, q := range []int{0, 1, 2, 3, 4} {
		for _, mask := range []int{0, 1<<15 - 1} {
			out = append(out, &Scn{Kind: "typeahead", Mask: mask, QSize: q,
				Ahead: []Ahead{{Before: 99, Reports: []Report{ta(plain('h')), ta(plain('i'))}}},
				Steps: []Step{{Op: "inject", Reports: []Report{plain('x')}}}})
		}
	}
	return out
}

// SizeReports: a size report (in-band CSI 48 ; rows ; cols ; ypix ; xpix t, or the
// CSI 8 ; rows ; cols t reply to a size request) with absurd numbers, then the
// application draws, then keys. Only survival is judged. Every field is either small
// (rows <= 200, columns <= 1000: the screen it describes fits in a few MB) or at least
// 2^50 (no such screen can be allocated: the attempt fails at once instead of
// exhausting the machine's memory); nothing in between is generated.
func SizeReports(rng *rand.Rand) *Scn {
	sc := &Scn{Kind: "size-report", Mask: rng.Intn(1<<15) | 1<<3, Alt: rng.Intn(2) == 0, Loose: true}
	huge := []string{"1125899906842624", "4611686018427387904", "9223372036854775807", "99999999999999999999"}
	rows := fmt.Sprint([]int{0, 1, 24, 200}[rng.Intn(4)])
	cols := fmt.Sprint([]int{0, 1, 80, 1000}[rng.Intn(4)])
	ypix, xpix := fmt.Sprint(rng.Intn(2000)), fmt.Sprint(rng.Intn(2000))
	switch rng.Intn(5) {
	case 0:
		rows = huge[rng.Intn(4)]
	case 1:
		cols = huge[rng.Intn(4)]
	case 2:
		rows, cols = huge[rng.Intn(4)], huge[rng.Intn(4)]
	case 3:
		ypix, xpix = huge[rng.Intn(4)], huge[rng.Intn(4)]
	}
	if rng.Intn(3) == 0 {
		// the reply to the size request of a drawing application (a terminal asked
		// with CSI 18 t, eg under VAXIS_FORCE_XTWINOPS)
		sc.XTWinOps = true
		sc.Mask = sc.Mask&^(1<<3) | 1<<7
		sc.Steps = append(sc.Steps, Step{Op: "render", Rows: rows, Cols: cols})
	} else {
		rep := 1 + rng.Intn(2)
		sc.Steps = append(sc.Steps, Step{Op: "inject", Reports: []Report{{K: "garbage",
			Hex: hx(strings.Repeat(fmt.Sprintf("\x1b[48;%s;%s;%s;%st", rows, cols, ypix, xpix), rep))}}})
		sc.Steps = append(sc.Steps, Step{Op: "render"})
	}
	sc.Steps = append(sc.Steps, Step{Op: "inject", Reports: plainKeys(rng, 1+rng.Intn(2))})
	return sc
}
