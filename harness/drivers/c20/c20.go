// Package c20 drives the image code of a real Vaxis on a fake console.
//
//	fit    Resize(box) then CellSize() for every protocol, image size, box
//	       size and cell pixel geometry: one "fit" record each.
//	block  half/full block images with chosen pixel values drawn through a
//	       window (sentinel frame, Draw, second frame): the displayed cells
//	       are compared with the source pixels ("bcheck").
//	hist   frame histories that add, keep, move, resize and drop kitty /
//	       sixel placements, with Render, Refresh and terminal resizes: the
//	       graphics commands of every frame are logged and judged by the
//	       placement oracle against a reference graphics terminal ("gframe").
//
// The driver records only what it asked for; specs/gfx/Gfx_Trace.tla decides.
package c20

import (
	"fmt"
	"image"
	"image/color"
	"math/rand"
	"strings"
	"time"

	"git.sr.ht/~rockorager/vaxis"

	"verif/harness/drivers/c11"
	"verif/harness/responder"
	"verif/harness/sess"
	"verif/harness/termcmd"
	"verif/harness/trace"
)

// ---- replay descriptor -------------------------------------------------

type Fit struct {
	IW, IH, BW, BH int
	// OX, OY: the top-left corner of the image's bounds (a crop of a larger
	// picture keeps its coordinates; the image is still IW x IH pixels)
	OX, OY int `json:",omitempty"`
}

type Block struct {
	Chain  []c11.Level
	W, H   int      // image size in pixels
	Px     []uint32 // r<<24|g<<16|b<<8|a, straight alpha, row-major
	Premul bool     `json:",omitempty"` // store as image.RGBA (premultiplied) instead of image.NRGBA
	// Src: the kind of image.Image holding the pixels (see Sources); "" = image.NRGBA / image.RGBA.
	// The pixels the oracle sees are what that image reports through At().RGBA().
	Src string `json:",omitempty"`
	// OX, OY: the top-left corner of the image's bounds; when not (0,0) the image is a SubImage
	// crop out of a larger picture whose other pixels are opaque
	OX, OY int `json:",omitempty"`
	// Re: after the unscaled drawing the same image object is resized into this
	// smaller box and drawn again (a second encoding of one image)
	Re [2]int `json:",omitempty"`
}

type GOp struct {
	K      string      // clear | draw | resize | resize2
	I      int         `json:",omitempty"`
	Chain  []c11.Level `json:",omitempty"`
	BW, BH int         `json:",omitempty"`
	// resize2: Resize(BW, BH) immediately followed by Resize(BW2, BH2) (two quick size changes);
	// the second call is the one the application wants
	BW2, BH2 int `json:",omitempty"`
	// Thin (resize): the box leaves the image less than one pixel in some direction. Whether the
	// library then announces a new encoding (Redraw) is its own business: the driver waits for one
	// for thinGrace and goes on drawing either way
	Thin bool `json:",omitempty"`
}

type Frame struct {
	Ops        []GOp
	End        string // render | refresh | termsize | cellsize
	Cols, Rows int    `json:",omitempty"`
	// cellsize: before the frame's operations the terminal reports (in band) a new pixel size for
	// the same number of columns and rows: its cells are CW x CH pixels from now on
	CW, CH int `json:",omitempty"`
}

type Scn struct {
	Kind       string // fit | block | hist
	Proto      string // kitty | sixel | half | full
	Cols, Rows int
	CW, CH     int      // cell size in pixels (kitty, sixel)
	Fits       []Fit    `json:",omitempty"`
	Blocks     []Block  `json:",omitempty"`
	Imgs       [][2]int `json:",omitempty"` // hist: pixel sizes of the images
	Org        [][2]int `json:",omitempty"` // hist: top-left corners of the images' bounds (default 0,0)
	Noisy      bool     `json:",omitempty"` // hist: the images are seeded noise (slow to encode) instead of one colour
	Frames     []Frame  `json:",omitempty"`
}

type Ctx struct {
	G, L *trace.Interner
	Dump func(format string, a ...any)
}

func (c *Ctx) dump(format string, a ...any) {
	if c.Dump != nil {
		c.Dump(format, a...)
	}
}

func short(b []byte) string {
	s := strings.ReplaceAll(string(b), "\x00", "")
	if len(s) > 900 {
		s = s[:450] + " ... " + s[len(s)-450:]
	}
	return s
}

// ---- session -----------------------------------------------------------

type session struct {
	s   *sess.S
	vx  *vaxis.Vaxis
	gfx *termcmd.Gfx
	cv  *termcmd.Conv
	red chan struct{}
	key chan struct{}
	// the fit / block record being executed (for the event logged when the library panics)
	curN         int
	curOX, curOY int
}

func start(ctx *Ctx, sc *Scn) (*session, error) {
	mask := 1<<3 | 1<<8 // in-band resize reports (pixel size), RGB
	switch sc.Proto {
	case "kitty":
		mask |= 1 << 5
	case "sixel":
		mask |= 1 << 6
	}
	caps := responder.FromMask(mask, false)
	s, err := sess.Start(sess.Config{Caps: caps, Cols: sc.Cols, Rows: sc.Rows, XPix: sc.Cols * sc.CW, YPix: sc.Rows * sc.CH})
	if err != nil {
		return nil, err
	}
	se := &session{s: s, vx: s.Vx, red: make(chan struct{}, 1024), key: make(chan struct{}, 16), curN: -1}
	se.cv = termcmd.NewConv(ctx.G, ctx.L, false, false)
	se.gfx = termcmd.NewGfx(se.cv)
	go func() {
		for ev := range se.vx.Events() {
			switch e := ev.(type) {
			case vaxis.Redraw:
				select {
				case se.red <- struct{}{}:
				default:
				}
			case vaxis.Key:
				if e.Keycode == 'Z' || e.Text == "Z" {
					se.key <- struct{}{}
				}
			case vaxis.QuitEvent:
				return
			}
		}
	}()
	if !se.settle() {
		se.vx.Close()
		return nil, fmt.Errorf("session did not settle")
	}
	return se, nil
}

// settle waits until every byte the terminal has sent so far has been turned
// into events (a sentinel key typed after them has come out), then forgets
// the Redraw events seen up to now.
func (se *session) settle() bool {
	se.s.Con.Inject([]byte("Z"))
	select {
	case <-se.key:
	case <-time.After(30 * time.Second):
		return false
	}
	for len(se.red) > 0 {
		<-se.red
	}
	return true
}

func (se *session) waitRedraw(d time.Duration) bool {
	select {
	case <-se.red:
		return true
	case <-time.After(d):
		return false
	}
}

func (se *session) newImage(proto string, img image.Image) vaxis.Image {
	switch proto {
	case "kitty":
		return se.vx.NewKittyGraphic(img)
	case "sixel":
		return se.vx.NewSixel(img)
	case "half":
		return se.vx.NewHalfBlockImage(img)
	default:
		return se.vx.NewFullBlockImage(img)
	}
}

func async(proto string) bool { return proto == "kitty" || proto == "sixel" }

func uniform(ox, oy, w, h int) image.Image {
	img := image.NewRGBA(image.Rect(ox, oy, ox+w, oy+h))
	for i := range img.Pix {
		img.Pix[i] = [4]uint8{180, 40, 90, 255}[i%4]
	}
	return img
}

// noise is an opaque image that does not compress (its encoding takes time
// proportional to its area).
func noise(seed int64, ox, oy, w, h int) image.Image {
	img := image.NewRGBA(image.Rect(ox, oy, ox+w, oy+h))
	rng := rand.New(rand.NewSource(seed))
	rng.Read(img.Pix)
	for i := 3; i < len(img.Pix); i += 4 {
		img.Pix[i] = 255
	}
	return img
}

// Sources are the kinds of image.Image a block image is built from. All are
// legal inputs of NewHalfBlockImage / NewFullBlockImage; they differ in colour
// model and in what At() answers outside the bounds (which no consumer may
// rely on): transparent for the RGBA family, an opaque colour for paletted,
// gray, CMYK and YCbCr images and for "alien" (an image type of the driver's
// own that answers opaque magenta there).
var Sources = []string{"", "nrgba64", "rgba64", "paletted", "gray", "gray16", "cmyk", "ycbcr", "ycbcr420", "nycbcra", "alien"}

type alien struct {
	r  image.Rectangle
	px []color.NRGBA
}

func (a *alien) ColorModel() color.Model { return color.NRGBAModel }
func (a *alien) Bounds() image.Rectangle { return a.r }
func (a *alien) At(x, y int) color.Color {
	if !(image.Point{X: x, Y: y}).In(a.r) {
		return color.NRGBA{R: 255, B: 255, A: 255}
	}
	return a.px[(y-a.r.Min.Y)*a.r.Dx()+x-a.r.Min.X]
}

// build makes the source image: w x h pixels px (straight alpha, row-major)
// with the top-left corner at (ox, oy).
func build(src string, premul bool, ox, oy, w, h int, px []uint32) image.Image {
	rect := image.Rect(ox, oy, ox+w, oy+h)
	whole := rect
	if ox != 0 || oy != 0 {
		whole = rect.Inset(-2) // the picture the image is cropped out of
	}
	at := func(x, y int) color.NRGBA {
		if !(image.Point{X: x, Y: y}).In(rect) {
			return color.NRGBA{R: 250, G: 5, B: 250, A: 255}
		}
		p := px[(y-oy)*w+x-ox]
		return color.NRGBA{R: uint8(p >> 24), G: uint8(p >> 16), B: uint8(p >> 8), A: uint8(p)}
	}
	type subber interface {
		SubImage(image.Rectangle) image.Image
	}
	var img image.Image
	switch src {
	case "alien":
		a := &alien{r: rect, px: make([]color.NRGBA, 0, w*h)}
		for y := rect.Min.Y; y < rect.Max.Y; y++ {
			for x := rect.Min.X; x < rect.Max.X; x++ {
				a.px = append(a.px, at(x, y))
			}
		}
		return a
	case "ycbcr", "ycbcr420", "nycbcra":
		ratio := image.YCbCrSubsampleRatio444
		if src == "ycbcr420" && whole.Min.X >= 0 && whole.Min.Y >= 0 {
			// (the standard library's chroma offsets are wrong for negative odd
			// coordinates: such a picture is stored without subsampling)
			ratio = image.YCbCrSubsampleRatio420
		}
		var yc *image.YCbCr
		var na *image.NYCbCrA
		if src == "nycbcra" {
			na = image.NewNYCbCrA(whole, ratio)
			yc = &na.YCbCr
			img = na
		} else {
			yc = image.NewYCbCr(whole, ratio)
			img = yc
		}
		for y := whole.Min.Y; y < whole.Max.Y; y++ {
			for x := whole.Min.X; x < whole.Max.X; x++ {
				c := at(x, y)
				yy, cb, cr := color.RGBToYCbCr(c.R, c.G, c.B)
				yc.Y[yc.YOffset(x, y)] = yy
				yc.Cb[yc.COffset(x, y)], yc.Cr[yc.COffset(x, y)] = cb, cr
				if na != nil {
					na.A[na.AOffset(x, y)] = c.A
				}
			}
		}
	default:
		var d interface {
			image.Image
			Set(x, y int, c color.Color)
		}
		switch src {
		case "nrgba64":
			d = image.NewNRGBA64(whole)
		case "rgba64":
			d = image.NewRGBA64(whole)
		case "gray":
			d = image.NewGray(whole)
		case "gray16":
			d = image.NewGray16(whole)
		case "cmyk":
			d = image.NewCMYK(whole)
		case "paletted":
			// the palette: the colours of the picture, an opaque one first when there is one
			var pal, clear color.Palette
			seen := map[color.NRGBA]bool{}
			for y := whole.Min.Y; y < whole.Max.Y; y++ {
				for x := whole.Min.X; x < whole.Max.X; x++ {
					if c := at(x, y); !seen[c] && len(seen) < 256 {
						seen[c] = true
						if c.A == 255 {
							pal = append(pal, c)
						} else {
							clear = append(clear, c)
						}
					}
				}
			}
			d = image.NewPaletted(whole, append(pal, clear...))
		default:
			if premul {
				d = image.NewRGBA(whole)
			} else {
				d = image.NewNRGBA(whole)
			}
		}
		for y := whole.Min.Y; y < whole.Max.Y; y++ {
			for x := whole.Min.X; x < whole.Max.X; x++ {
				d.Set(x, y, at(x, y))
			}
		}
		img = d
	}
	if whole != rect {
		img = img.(subber).SubImage(rect)
	}
	return img
}

func chainEv(ch []c11.Level) []map[string]any {
	out := make([]map[string]any, 0, len(ch))
	for _, lv := range ch {
		out = append(out, map[string]any{"m": lv.M, "c": lv.C, "r": lv.R, "w": lv.W, "h": lv.H})
	}
	return out
}

// Run executes a scenario against the real library and returns its events.
func Run(ctx *Ctx, sc *Scn) (evs []trace.Ev, note string) {
	reset := trace.Ev{"ev": "reset", "rows": sc.Rows, "cols": sc.Cols, "xw": false, "cw": sc.CW, "ch": sc.CH, "proto": sc.Proto}
	se, err := start(ctx, sc)
	if err != nil {
		return []trace.Ev{reset, {"ev": "abort", "what": "start"}}, "start: " + err.Error()
	}
	defer se.vx.Close()
	evs = append(evs, reset)
	evs = append(evs, se.gfx.Feed(se.s.Startup)...)
	defer func() {
		if r := recover(); r != nil {
			note = fmt.Sprintf("panic: %v", r)
			evs = append(evs, trace.Ev{"ev": "panic", "what": sc.Kind, "n": se.curN, "ox": se.curOX, "oy": se.curOY})
		}
	}()
	switch sc.Kind {
	case "fit":
		evs = append(evs, se.runFits(sc)...)
	case "block":
		evs = append(evs, se.runBlocks(ctx, sc)...)
	default:
		e, n := se.runHist(ctx, sc)
		evs = append(evs, e...)
		note = n
	}
	return evs, note
}

func (se *session) runFits(sc *Scn) []trace.Ev {
	var evs []trace.Ev
	for n, f := range sc.Fits {
		se.curN, se.curOX, se.curOY = n, f.OX, f.OY
		im := se.newImage(sc.Proto, uniform(f.OX, f.OY, f.IW, f.IH))
		im.Resize(f.BW, f.BH)
		done := true
		ow, oh := im.CellSize() // kitty computes the size synchronously
		if sc.Proto == "sixel" {
			// sixel computes it while encoding and reports 0,0 until that is over
			deadline := time.Now().Add(20 * time.Second)
			for ow == 0 && oh == 0 && time.Now().Before(deadline) {
				select {
				case <-se.red:
				case <-time.After(time.Millisecond):
				}
				ow, oh = im.CellSize()
			}
			done = ow != 0 || oh != 0
		}
		cw, ch := sc.CW, sc.CH
		if !async(sc.Proto) {
			cw, ch = 1, 2 // block images: a cell is one pixel wide and two high
		}
		evs = append(evs, trace.Ev{"ev": "fit", "n": n, "iw": f.IW, "ih": f.IH, "bw": f.BW, "bh": f.BH,
			"cw": cw, "ch": ch, "ow": ow, "oh": oh, "done": done, "ox": f.OX, "oy": f.OY})
		im.Destroy()
		se.s.Con.Take()
	}
	return evs
}

// ---- block images ---------------------------------------------------------

var sentinel = vaxis.Cell{Character: vaxis.Character{Grapheme: ".", Width: 1}, Style: vaxis.Style{Background: vaxis.IndexColor(1)}}

// image builds the source image; a failure to do so is the driver's (or the
// standard library's), never the library's under test.
func (b *Block) image() (img image.Image, err error) {
	defer func() {
		if r := recover(); r != nil {
			err = fmt.Errorf("building the source image: %v", r)
		}
	}()
	return build(b.Src, b.Premul, b.OX, b.OY, b.W, b.H, b.Px), nil
}

func (se *session) frame(ctx *Ctx, tag string, refresh bool) []trace.Ev {
	if refresh {
		se.vx.Refresh()
	} else {
		se.vx.Render()
	}
	o := se.s.Con.Take()
	ctx.dump("%s out=%q\n", tag, short(o))
	return se.gfx.Feed(o)
}

func (se *session) runBlocks(ctx *Ctx, sc *Scn) []trace.Ev {
	var evs []trace.Ev
	gl := map[string]any{"up": ctx.G.ID("▀"), "lo": ctx.G.ID("▄"), "full": ctx.G.ID("█"), "sp": 0}
	refill := func() {
		se.vx.Window().Fill(sentinel)
		evs = append(evs, se.frame(ctx, "sentinel", false)...)
		evs = append(evs, trace.Ev{"ev": "mark"})
	}
	refill()
	for n, b := range sc.Blocks {
		se.curN, se.curOX, se.curOY = n, b.OX, b.OY
		src, err := b.image()
		if err != nil {
			return append(evs, trace.Ev{"ev": "abort", "what": err.Error()})
		}
		im := se.newImage(sc.Proto, src)
		// a box the image fits in: the cells then show the source pixels themselves
		im.Resize(b.W, (b.H+1)/2)
		ow, oh := im.CellSize()
		im.Draw(c11.Build(se.vx, b.Chain))
		evs = append(evs, se.frame(ctx, fmt.Sprintf("block %d", n), false)...)
		px := make([][]int, 0, len(b.Px))
		for i := range b.Px {
			// the source pixel (counted from the top-left corner of the image) as the
			// standard colour model reports it: alpha-premultiplied, 16 bits per channel
			r, g, bl, a := src.At(b.OX+i%b.W, b.OY+i/b.W).RGBA()
			px = append(px, []int{int(r), int(g), int(bl), int(a)})
		}
		evs = append(evs, trace.Ev{"ev": "bcheck", "n": n, "proto": sc.Proto, "chain": chainEv(b.Chain),
			"iw": b.W, "ih": b.H, "ow": ow, "oh": oh, "px": px, "gl": gl, "ox": b.OX, "oy": b.OY})
		refill()
		if b.Re[0] > 0 && b.Re[1] > 0 {
			im.Resize(b.Re[0], b.Re[1])
			rw, rh := im.CellSize()
			im.Draw(c11.Build(se.vx, b.Chain))
			evs = append(evs, se.frame(ctx, fmt.Sprintf("block %d again", n), false)...)
			evs = append(evs, trace.Ev{"ev": "bscaled", "n": n, "proto": sc.Proto, "chain": chainEv(b.Chain),
				"iw": b.W, "ih": b.H, "bw": b.Re[0], "bh": b.Re[1], "ow": rw, "oh": rh, "px": px, "gl": gl, "ox": b.OX, "oy": b.OY})
			refill()
		}
	}
	return evs
}

// ---- frame histories ------------------------------------------------------

// doubleGrace: how long after the Redraw of a double Resize the driver waits
// for a second one (the encodings used there take a few tens of milliseconds).
const doubleGrace = 1200 * time.Millisecond

// thinGrace: how long the driver waits for the Redraw of a Resize that leaves the
// image less than one pixel high or wide (such an encoding is a few hundred bytes).
const thinGrace = 1500 * time.Millisecond

func (se *session) runHist(ctx *Ctx, sc *Scn) (evs []trace.Ev, note string) {
	imgs := make([]vaxis.Image, len(sc.Imgs))
	cropped := false
	for i, sz := range sc.Imgs {
		var o [2]int
		if i < len(sc.Org) {
			o = sc.Org[i]
		}
		cropped = cropped || o != [2]int{}
		if sc.Noisy {
			imgs[i] = se.newImage(sc.Proto, noise(int64(i+1), o[0], o[1], sz[0], sz[1]))
		} else {
			imgs[i] = se.newImage(sc.Proto, uniform(o[0], o[1], sz[0], sz[1]))
		}
	}
	cols, rows := sc.Cols, sc.Rows
	type placed struct {
		k, g   int
		chain  []c11.Level
		w, h   int
		x0, y0 int // origin and extent, only for keeping sixel images apart
	}
	var want []placed
	gen := make([]int, len(imgs))   // how often each image has been (re-)encoded
	dbl := make([]bool, len(imgs))  // its latest encoding was asked for right after another one
	thin := make([]bool, len(imgs)) // its latest Resize left it less than one pixel in some direction
	cw, ch := sc.CW, sc.CH          // the terminal's current cell size in pixels
	regeom := false                 // the cell size has changed during the history
	abort := func(what string) ([]trace.Ev, string) {
		return append(evs, trace.Ev{"ev": "abort", "what": what}), "abort: " + what
	}
	for fi, f := range sc.Frames {
		resized := false
		if f.End == "termsize" && (f.Cols != cols || f.Rows != rows) {
			resized = true
			cols, rows = f.Cols, f.Rows
			se.s.Con.SetSize(cols, rows)
			se.s.Resp.Cols, se.s.Resp.Rows = cols, rows
			se.s.Resp.XPix, se.s.Resp.YPix = cols*cw, rows*ch
			se.s.Con.Inject([]byte(fmt.Sprintf("\x1b[48;%d;%d;%d;%dt", rows, cols, rows*ch, cols*cw)))
			if !se.settle() {
				return abort("termsize")
			}
			se.vx.Render() // takes the new size; the next render repaints everything
			evs = append(evs, se.gfx.Feed(se.s.Con.Take())...)
			evs = append(evs, trace.Ev{"ev": "resize", "rows": rows, "cols": cols})
		}
		if f.End == "cellsize" && (f.CW != cw || f.CH != ch) {
			// the same columns and rows, other pixels (a font size change that the window
			// follows, a move to a screen of another density): reported in band like any
			// other size change; the application renders once and goes on
			cw, ch, regeom = f.CW, f.CH, true
			se.s.Resp.XPix, se.s.Resp.YPix = cols*cw, rows*ch
			se.s.Con.Inject([]byte(fmt.Sprintf("\x1b[48;%d;%d;%d;%dt", rows, cols, rows*ch, cols*cw)))
			if !se.settle() {
				return abort("cellsize")
			}
			se.vx.Render()
			evs = append(evs, se.gfx.Feed(se.s.Con.Take())...)
			evs = append(evs, trace.Ev{"ev": "geom", "cw": cw, "ch": ch})
		}
		for _, op := range f.Ops {
			switch op.K {
			case "clear":
				se.vx.Window().Clear()
				want = nil
			case "resize":
				for len(se.red) > 0 {
					<-se.red
				}
				imgs[op.I].Resize(op.BW, op.BH)
				gen[op.I]++
				dbl[op.I] = false
				thin[op.I] = op.Thin
				if op.Thin {
					se.waitRedraw(thinGrace)
				} else if !se.waitRedraw(5 * time.Second) {
					return abort("no Redraw after Resize")
				}
				if op.Thin || regeom {
					// the size the image reports has to be a fit of the box (in the cells of now)
					ow, oh := imgs[op.I].CellSize()
					var o [2]int
					if op.I < len(sc.Org) {
						o = sc.Org[op.I]
					}
					tag := "thin"
					if !op.Thin {
						tag = "geometry"
					}
					evs = append(evs, trace.Ev{"ev": "fit", "n": fi, "iw": sc.Imgs[op.I][0], "ih": sc.Imgs[op.I][1], "bw": op.BW, "bh": op.BH,
						"cw": cw, "ch": ch, "ow": ow, "oh": oh, "done": true, "ox": o[0], "oy": o[1], "ctx": tag})
				}
			case "resize2":
				for len(se.red) > 0 {
					<-se.red
				}
				imgs[op.I].Resize(op.BW, op.BH)
				imgs[op.I].Resize(op.BW2, op.BH2)
				gen[op.I] += 2
				dbl[op.I] = true
				thin[op.I] = false
				if !se.waitRedraw(10 * time.Second) {
					return abort("no Redraw after Resize")
				}
				// the superseded encoding may or may not announce itself when it is over;
				// either way it gets the time to finish before the application draws
				se.waitRedraw(doubleGrace)
				// the size the image now reports has to be a fit of the box of the second call
				ow, oh := imgs[op.I].CellSize()
				tag := "double-resize"
				var o [2]int
				if op.I < len(sc.Org) {
					o = sc.Org[op.I]
				}
				if o != [2]int{} {
					tag += "+origin"
				}
				evs = append(evs, trace.Ev{"ev": "fit", "n": fi, "iw": sc.Imgs[op.I][0], "ih": sc.Imgs[op.I][1], "bw": op.BW2, "bh": op.BH2,
					"cw": cw, "ch": ch, "ow": ow, "oh": oh, "done": true, "ox": o[0], "oy": o[1], "ctx": tag})
			case "draw":
				w, h := imgs[op.I].CellSize()
				win := c11.Build(se.vx, op.Chain)
				x0, y0 := win.Origin()
				if sc.Proto == "sixel" {
					// domain: sixel images of one frame do not overlap (painting one
					// sixel over another has no defined outcome to hold the library to)
					clash := false
					for _, p := range want {
						if x0 < p.x0+p.w && p.x0 < x0+w && y0 < p.y0+p.h && p.y0 < y0+h &&
							!(p.k == op.I && p.x0 == x0 && p.y0 == y0) {
							clash = true
						}
					}
					if clash {
						continue
					}
				}
				imgs[op.I].Draw(win)
				want = append(want, placed{op.I, gen[op.I], op.Chain, w, h, x0, y0})
			}
		}
		refresh := f.End == "refresh" || resized
		evs = append(evs, se.frame(ctx, fmt.Sprintf("frame %d %s", fi, f.End), f.End == "refresh")...)
		wl := make([]map[string]any, 0, len(want))
		for _, p := range want {
			wl = append(wl, map[string]any{"k": p.k, "g": p.g, "chain": chainEv(p.chain), "w": p.w, "h": p.h})
		}
		// context of the frame (for the rejection signature only)
		var tags []string
		for _, p := range want {
			if dbl[p.k] {
				tags = append(tags, "double-resize")
				break
			}
		}
		for _, p := range want {
			if thin[p.k] {
				tags = append(tags, "thin")
				break
			}
		}
		if regeom {
			tags = append(tags, "geometry")
		}
		if cropped {
			tags = append(tags, "origin")
		}
		evs = append(evs, trace.Ev{"ev": "gframe", "n": fi, "refresh": refresh, "want": wl, "ctx": strings.Join(tags, "+")})
	}
	return evs, ""
}

// ---- generators --------------------------------------------------------

// Geoms are the cell pixel geometries used for kitty and sixel.
var Geoms = [][2]int{{2, 4}, {8, 16}, {10, 21}}

type fitBatch struct {
	proto      string
	cw, ch     int
	per        int
	cur        []Fit
	out        []*Scn
	cols, rows int
}

// origin: one image in four is a crop that kept its coordinates (top-left
// corner anywhere from lo to hi, not (0,0)).
func origin(rng *rand.Rand, lo, hi int) (int, int) {
	if rng.Intn(4) != 0 {
		return 0, 0
	}
	for {
		if x, y := lo+rng.Intn(hi-lo+1), lo+rng.Intn(hi-lo+1); x != 0 || y != 0 {
			return x, y
		}
	}
}

func (b *fitBatch) add(f Fit) {
	b.cur = append(b.cur, f)
	if len(b.cur) >= b.per {
		b.flush()
	}
}

func (b *fitBatch) flush() {
	if len(b.cur) > 0 {
		b.out = append(b.out, &Scn{Kind: "fit", Proto: b.proto, Cols: b.cols, Rows: b.rows, CW: b.cw, CH: b.ch, Fits: b.cur})
		b.cur = nil
	}
}

// GenFitBlocks: half and full block images, every image size 1..12 x 1..24
// pixels (1..12 cells each way) into every box 1..12 x 1..12. keep < 1
// samples.
func GenFitBlocks(rng *rand.Rand, keep float64) []*Scn {
	var out []*Scn
	for _, proto := range []string{"half", "full"} {
		b := &fitBatch{proto: proto, cw: 8, ch: 16, per: 2000, cols: 10, rows: 4}
		for iw := 1; iw <= 12; iw++ {
			for ih := 1; ih <= 24; ih++ {
				for bw := 1; bw <= 12; bw++ {
					for bh := 1; bh <= 12; bh++ {
						if keep < 1 && rng.Float64() >= keep {
							continue
						}
						f := Fit{IW: iw, IH: ih, BW: bw, BH: bh}
						f.OX, f.OY = origin(rng, -6, 12)
						b.add(f)
					}
				}
			}
		}
		b.flush()
		out = append(out, b.out...)
	}
	return out
}

// GenFitPixel: kitty and sixel, for every cell geometry: image sizes 1..12
// cells each way (exact multiples of the cell and seeded ragged sizes) into
// boxes 1..12. keep < 1 samples.
func GenFitPixel(rng *rand.Rand, keep float64) []*Scn {
	var out []*Scn
	for _, proto := range []string{"kitty", "sixel"} {
		for _, g := range Geoms {
			b := &fitBatch{proto: proto, cw: g[0], ch: g[1], per: 250, cols: 12, rows: 6}
			for cwn := 1; cwn <= 12; cwn++ {
				for chn := 1; chn <= 12; chn++ {
					for bw := 1; bw <= 12; bw++ {
						for bh := 1; bh <= 12; bh++ {
							if keep < 1 && rng.Float64() >= keep {
								continue
							}
							iw, ih := cwn*g[0], chn*g[1]
							if rng.Intn(2) == 0 {
								iw -= rng.Intn(g[0])
							}
							if rng.Intn(2) == 0 {
								ih -= rng.Intn(g[1])
							}
							f := Fit{IW: iw, IH: ih, BW: bw, BH: bh}
							f.OX, f.OY = origin(rng, -2*g[0], 3*g[1])
							b.add(f)
						}
					}
				}
			}
			b.flush()
			out = append(out, b.out...)
		}
	}
	return out
}

// FixedFits: the corner cases (equal scale factors, extreme aspect ratios).
func FixedFits() []*Scn {
	var out []*Scn
	F := func(iw, ih, bw, bh int) Fit { return Fit{IW: iw, IH: ih, BW: bw, BH: bh} }
	at := func(f Fit, ox, oy int) Fit { f.OX, f.OY = ox, oy; return f }
	fits := []Fit{F(4, 8, 2, 2), F(6, 12, 3, 3), F(12, 24, 1, 1), F(12, 24, 6, 6), F(12, 1, 1, 1), F(1, 24, 1, 1), F(7, 7, 7, 3), F(3, 5, 3, 3), F(12, 2, 11, 1),
		// crops that kept their coordinates: fitting their box, not fitting it, above/left of the origin
		at(F(2, 2, 10, 10), 4, 4), at(F(2, 2, 3, 3), 4, 4), at(F(2, 2, 2, 1), 4, 4), at(F(6, 12, 3, 3), 5, 0), at(F(6, 12, 3, 3), 0, 7),
		at(F(4, 8, 8, 8), -2, -3), at(F(4, 8, 2, 2), -9, -9), at(F(7, 7, 7, 3), 1, 1)}
	for _, proto := range []string{"half", "full"} {
		out = append(out, &Scn{Kind: "fit", Proto: proto, Cols: 10, Rows: 4, CW: 8, CH: 16, Fits: fits})
	}
	pix := []Fit{F(32, 64, 2, 2), F(32, 32, 2, 1), F(80, 160, 5, 5), F(96, 16, 1, 1), F(8, 192, 1, 1), F(31, 63, 2, 2), F(33, 65, 2, 2),
		at(F(16, 16, 10, 10), 32, 32), at(F(16, 16, 2, 1), 8, 16), at(F(32, 64, 2, 2), 5, 3), at(F(80, 160, 5, 5), 0, 40), at(F(32, 32, 6, 6), -8, -16), at(F(31, 63, 2, 2), -40, -70)}
	for _, proto := range []string{"kitty", "sixel"} {
		out = append(out, &Scn{Kind: "fit", Proto: proto, Cols: 12, Rows: 6, CW: 8, CH: 16, Fits: pix})
	}
	return out
}

// ---- block generators ------------------------------------------------------

func pack(r, g, b, a int) uint32 { return uint32(r)<<24 | uint32(g)<<16 | uint32(b)<<8 | uint32(a) }

var sampleColours = [][3]int{{255, 255, 255}, {0, 0, 0}, {200, 10, 10}, {1, 2, 3}, {90, 180, 45}, {254, 127, 128}}

// GenBlocks: pixel pairs (top, bottom) covering every alpha level in
// alphas on either or both pixels, for a colour sample, in images eight
// pairs wide and 1..5 pixels high, drawn through full and clipping windows.
func GenBlocks(rng *rand.Rand, alphas []int, perAlpha int) []*Scn {
	var out []*Scn
	for _, proto := range []string{"half", "full"} {
		type pair struct{ t, b uint32 }
		var pairs []pair
		col := func() [3]int { return sampleColours[rng.Intn(len(sampleColours))] }
		for _, a := range alphas {
			for k := 0; k < perAlpha; k++ {
				c1, c2 := col(), col()
				var p pair
				switch k % 5 {
				case 0:
					p = pair{pack(c1[0], c1[1], c1[2], a), pack(c2[0], c2[1], c2[2], 255)}
				case 1:
					p = pair{pack(c1[0], c1[1], c1[2], 255), pack(c2[0], c2[1], c2[2], a)}
				case 2:
					p = pair{pack(c1[0], c1[1], c1[2], a), pack(c1[0], c1[1], c1[2], a)}
				case 3:
					p = pair{pack(c1[0], c1[1], c1[2], a), pack(c2[0], c2[1], c2[2], 0)}
				default:
					p = pair{pack(c1[0], c1[1], c1[2], a), pack(c2[0], c2[1], c2[2], rng.Intn(256))}
				}
				pairs = append(pairs, p)
			}
		}
		rng.Shuffle(len(pairs), func(i, j int) { pairs[i], pairs[j] = pairs[j], pairs[i] })
		var blocks []Block
		for i := 0; i < len(pairs); {
			w := 1 + rng.Intn(8)
			h := 1 + rng.Intn(5)
			b := Block{W: w, H: h, Px: make([]uint32, w*h), Premul: rng.Intn(4) == 0}
			if rng.Intn(2) == 0 {
				b.Src = Sources[rng.Intn(len(Sources))]
			}
			b.OX, b.OY = origin(rng, -6, 12)
			for x := 0; x < w; x++ {
				for y := 0; y < h; y += 2 {
					p := pairs[i%len(pairs)]
					i++
					b.Px[y*w+x] = p.t
					if y+1 < h {
						b.Px[(y+1)*w+x] = p.b
					}
				}
			}
			switch rng.Intn(4) {
			case 0: // a window smaller than the image, inside the screen
				b.Chain = []c11.Level{{"new", 1, 1, 1 + rng.Intn(5), 1 + rng.Intn(2)}}
			case 1: // hanging over the screen edge
				b.Chain = []c11.Level{{"new", 6 + rng.Intn(4), rng.Intn(3), -1, -1}}
			default:
				b.Chain = []c11.Level{{"new", rng.Intn(2), rng.Intn(2), 8, 3}}
			}
			blocks = append(blocks, b)
		}
		for i := 0; i < len(blocks); i += 16 {
			j := i + 16
			if j > len(blocks) {
				j = len(blocks)
			}
			out = append(out, &Scn{Kind: "block", Proto: proto, Cols: 10, Rows: 4, CW: 8, CH: 16, Blocks: blocks[i:j]})
		}
	}
	return out
}

// FixedBlocks: the alpha levels around the transparency threshold and the
// extremes, on the top and on the bottom pixel, fully visible; odd heights.
func FixedBlocks() []*Scn {
	var out []*Scn
	al := []int{49, 50, 51, 0, 1, 254, 255, 128}
	full := []c11.Level{{"new", 1, 0, 8, 3}}
	for _, proto := range []string{"half", "full"} {
		var blocks []Block
		for _, premul := range []bool{false, true} {
			for v := 0; v < 4; v++ {
				h := 2 + v%2 // 2 or 3 pixel rows
				b := Block{Chain: full, W: 8, H: h, Px: make([]uint32, 8*h), Premul: premul}
				for x, a := range al {
					c := sampleColours[(x+v)%len(sampleColours)]
					d := sampleColours[(x+v+2)%len(sampleColours)]
					switch v {
					case 0, 1: // level on top, opaque below
						b.Px[x], b.Px[8+x] = pack(c[0], c[1], c[2], a), pack(d[0], d[1], d[2], 255)
					default: // opaque on top, level below
						b.Px[x], b.Px[8+x] = pack(c[0], c[1], c[2], 255), pack(d[0], d[1], d[2], a)
					}
					if h == 3 {
						b.Px[16+x] = pack(d[0], d[1], d[2], a)
					}
				}
				blocks = append(blocks, b)
			}
		}
		out = append(out, &Scn{Kind: "block", Proto: proto, Cols: 10, Rows: 4, CW: 8, CH: 16, Blocks: blocks})
		// every kind of source image, odd pixel heights (the last cell row covers one pixel
		// row only) and even ones, at (0,0) and as crops that kept their coordinates
		var kinds []Block
		for si, src := range Sources {
			for v, h := range []int{1, 3, 2, 5} {
				w := 3 + (si+v)%4
				b := Block{Chain: full, W: w, H: h, Px: make([]uint32, w*h), Src: src}
				for i := range b.Px {
					c := sampleColours[(i+si+v)%len(sampleColours)]
					a := 255
					if (i+v)%5 == 4 {
						a = []int{0, 49, 50, 200}[(i/5+si)%4]
					}
					b.Px[i] = pack(c[0], c[1], c[2], a)
				}
				switch v {
				case 1:
					b.OX, b.OY = 4, 4
				case 2:
					b.OX, b.OY = -3, -2
				case 3:
					b.OX, b.OY = 0, 6
				}
				kinds = append(kinds, b)
			}
		}
		for i := 0; i < len(kinds); i += 11 {
			j := i + 11
			if j > len(kinds) {
				j = len(kinds)
			}
			out = append(out, &Scn{Kind: "block", Proto: proto, Cols: 10, Rows: 4, CW: 8, CH: 16, Blocks: kinds[i:j]})
		}
	}
	return out
}

// RescaleBlocks: images made of a uniform opaque band and a (sufficiently)
// transparent band, drawn unscaled and then, the same image object resized
// into a smaller box, drawn again: well inside a band the scaled image can
// only show that band (whatever the resampling), in particular the default
// colour inside the transparent band.
func RescaleBlocks(rng *rand.Rand, thorough bool) []*Scn {
	var out []*Scn
	full := []c11.Level{{"new", 1, 0, 8, 4}}
	boxes := [][2]int{{4, 2}, {5, 3}, {2, 1}, {3, 4}, {8, 2}, {4, 4}}
	for _, proto := range []string{"half", "full"} {
		var blocks []Block
		for v := 0; v < 8; v++ {
			for bi, box := range boxes {
				if !thorough && (v+bi)%3 != 0 {
					continue
				}
				w, h := 8, 8
				b := Block{Chain: full, W: w, H: h, Px: make([]uint32, w*h), Premul: v%2 == 1, Re: box}
				if (v+bi)%4 == 3 {
					// a crop that kept its coordinates, of several kinds of image
					b.OX, b.OY = []int{3, 0, -5}[bi%3], []int{5, 9, -2}[v%3]
					b.Src = []string{"", "paletted", "nycbcra", "alien"}[(v+bi)/4%4]
				}
				c := sampleColours[(v+bi)%len(sampleColours)]
				clearA := []int{0, 20, 49}[(v/2+bi)%3]
				for y := 0; y < h; y++ {
					for x := 0; x < w; x++ {
						solid := x < w/2
						switch v / 2 {
						case 1:
							solid = x >= w/2
						case 2:
							solid = y < h/2
						case 3:
							solid = y >= h/2
						}
						if solid {
							b.Px[y*w+x] = pack(c[0], c[1], c[2], 255)
						} else {
							b.Px[y*w+x] = pack(c[2], c[0], c[1], clearA)
						}
					}
				}
				blocks = append(blocks, b)
			}
		}
		for i := 0; i < len(blocks); i += 8 {
			j := i + 8
			if j > len(blocks) {
				j = len(blocks)
			}
			out = append(out, &Scn{Kind: "block", Proto: proto, Cols: 10, Rows: 5, CW: 8, CH: 16, Blocks: blocks[i:j]})
		}
	}
	return out
}

func AllAlphas() []int {
	a := make([]int, 256)
	for i := range a {
		a[i] = i
	}
	return a
}

// ---- history generators ----------------------------------------------------

func randWin(rng *rand.Rand, cols, rows int) []c11.Level {
	switch rng.Intn(10) {
	case 0: // small window: the image may not fit
		return []c11.Level{{"new", rng.Intn(cols), rng.Intn(rows), 1 + rng.Intn(2), 1}}
	case 1: // clipped by its parent
		return []c11.Level{{"new", rng.Intn(3), rng.Intn(2), 2 + rng.Intn(3), 1 + rng.Intn(2)}, {"raw", rng.Intn(3) - 1, rng.Intn(3) - 1, 6, 4}}
	case 2: // over the screen edge
		return []c11.Level{{"new", cols - 1 - rng.Intn(2), rows - 1 - rng.Intn(2), -1, -1}}
	case 3:
		return nil // the full-screen window
	}
	return []c11.Level{{"new", rng.Intn(cols - 3), rng.Intn(rows - 2), 4 + rng.Intn(4), 2 + rng.Intn(3)}}
}

// vanishes reports whether scaling a iw x ih pixel image into a bw x bh box of
// cw x ch pixel cells leaves less than one pixel in some direction (such an
// image cannot be encoded; histories avoid it).
func vanishes(iw, ih, bw, bh, cw, ch int) bool {
	cols, rows := (iw+cw-1)/cw, (ih+ch-1)/ch
	if cols <= bw && rows <= bh {
		return false
	}
	// scale = min(bw/cols, bh/rows); compare bw*rows with bh*cols
	num, den := bw, cols
	if bh*cols < bw*rows {
		num, den = bh, rows
	}
	return iw*num/den < 1 || ih*num/den < 1
}

// GenHist: seeded histories over up to three images.
func GenHist(rng *rand.Rand, proto string, n int) []*Scn {
	var out []*Scn
	for s := 0; s < n; s++ {
		g := Geoms[rng.Intn(len(Geoms))]
		sc := &Scn{Kind: "hist", Proto: proto, Cols: 10 + rng.Intn(3), Rows: 5 + rng.Intn(2), CW: g[0], CH: g[1]}
		nimg := 1 + rng.Intn(3)
		for i := 0; i < nimg; i++ {
			sc.Imgs = append(sc.Imgs, [2]int{g[0] * (1 + rng.Intn(5)), g[1] * (1 + rng.Intn(3))})
		}
		if rng.Intn(5) == 0 {
			// the images are crops that kept their coordinates
			for i := 0; i < nimg; i++ {
				sc.Org = append(sc.Org, [2]int{rng.Intn(2 * g[0]), 1 + rng.Intn(2*g[1])})
			}
		}
		first := Frame{End: "render"}
		for i := 0; i < nimg; i++ {
			bw, bh := 2+rng.Intn(4), 1+rng.Intn(3)
			for vanishes(sc.Imgs[i][0], sc.Imgs[i][1], bw, bh, g[0], g[1]) {
				bw, bh = bw+1, bh+1
			}
			first.Ops = append(first.Ops, GOp{K: "resize", I: i, BW: bw, BH: bh})
		}
		sc.Frames = append(sc.Frames, first)
		cols, rows := sc.Cols, sc.Rows
		pos := make([][]c11.Level, nimg) // where each image was last drawn
		shownLast := make([]bool, nimg)  // drawn since the last Clear
		nf := 3 + rng.Intn(5)
		for fi := 0; fi < nf; fi++ {
			f := Frame{End: "render"}
			switch x := rng.Intn(12); {
			case x < 2:
				f.End = "refresh"
			case x == 2:
				f.End = "termsize"
				f.Cols, f.Rows = 9+rng.Intn(5), 4+rng.Intn(4)
				cols, rows = f.Cols, f.Rows
			}
			if rng.Intn(8) == 0 && fi > 0 && f.End != "termsize" {
				// no Clear: the placements of the previous frame stay; draw some of them again
				for i := 0; i < nimg; i++ {
					if pos[i] != nil && shownLast[i] && rng.Intn(2) == 0 {
						f.Ops = append(f.Ops, GOp{K: "draw", I: i, Chain: pos[i]})
					}
				}
				sc.Frames = append(sc.Frames, f)
				continue
			}
			f.Ops = append(f.Ops, GOp{K: "clear"})
			for i := range shownLast {
				shownLast[i] = false
			}
			for i := 0; i < nimg; i++ {
				switch x := rng.Intn(10); {
				case x < 4 && pos[i] != nil: // keep
					f.Ops = append(f.Ops, GOp{K: "draw", I: i, Chain: pos[i]})
					shownLast[i] = true
				case x < 7: // add or move
					pos[i] = randWin(rng, cols, rows)
					if pos[i] == nil {
						pos[i] = []c11.Level{}
					}
					f.Ops = append(f.Ops, GOp{K: "draw", I: i, Chain: pos[i]})
					shownLast[i] = true
					if rng.Intn(6) == 0 { // the same image in a second place
						f.Ops = append(f.Ops, GOp{K: "draw", I: i, Chain: randWin(rng, cols, rows)})
					}
				case x == 7: // change its size, then draw where it was
					bw, bh := 1+rng.Intn(5), 1+rng.Intn(3)
					for vanishes(sc.Imgs[i][0], sc.Imgs[i][1], bw, bh, g[0], g[1]) {
						bw, bh = bw+1, bh+1
					}
					f.Ops = append(f.Ops, GOp{K: "resize", I: i, BW: bw, BH: bh})
					if pos[i] != nil {
						f.Ops = append(f.Ops, GOp{K: "draw", I: i, Chain: pos[i]})
						shownLast[i] = true
					}
				default: // drop
				}
			}
			sc.Frames = append(sc.Frames, f)
		}
		out = append(out, sc)
	}
	return out
}

// GenDoubleResize: kitty and sixel histories whose image is resized twice in a row (two
// quick size changes): first into a box it fits unscaled (a large encoding
// that takes long), then into a small box (a short one), or the other way
// round. Whichever encoding finishes first, what the terminal shows
// afterwards has to be the image of the second call. The image is then
// drawn, kept, moved and refreshed.
func GenDoubleResize(rng *rand.Rand, n int) []*Scn {
	var out []*Scn
	for s := 0; s < n; s++ {
		g := Geoms[rng.Intn(len(Geoms))]
		sc := &Scn{Kind: "hist", Proto: []string{"kitty", "sixel"}[s/2%2], Cols: 10 + rng.Intn(3), Rows: 5 + rng.Intn(2), CW: g[0], CH: g[1], Noisy: true}
		iw, ih := 400+rng.Intn(120), 280+rng.Intn(80)
		if sc.Proto == "sixel" {
			iw, ih = iw/2, ih/2 // a sixel encoding takes longer
		}
		sc.Imgs = [][2]int{{iw, ih}}
		if rng.Intn(4) == 0 {
			sc.Org = [][2]int{{rng.Intn(30), 1 + rng.Intn(30)}}
		}
		own := [2]int{(iw + g[0] - 1) / g[0], (ih + g[1] - 1) / g[1]}
		bw, bh := 2+rng.Intn(4), 1+rng.Intn(3)
		for vanishes(iw, ih, bw, bh, g[0], g[1]) {
			bw, bh = bw+1, bh+1
		}
		op := GOp{K: "resize2", I: 0, BW: own[0], BH: own[1], BW2: bw, BH2: bh}
		if s%8 == 3 || s%8 == 5 {
			// short encoding first; the large one wanted (too large for the screen: never shown)
			op = GOp{K: "resize2", I: 0, BW: bw, BH: bh, BW2: own[0], BH2: own[1]}
		}
		sc.Frames = append(sc.Frames, Frame{Ops: []GOp{op}, End: "render"})
		pos := randWin(rng, sc.Cols, sc.Rows)
		for fi, nf := 0, 2+rng.Intn(4); fi < nf; fi++ {
			f := Frame{Ops: []GOp{{K: "clear"}}, End: "render"}
			switch rng.Intn(6) {
			case 0:
				f.End = "refresh"
			case 1, 2:
				pos = randWin(rng, sc.Cols, sc.Rows)
			case 3:
				if fi > 0 { // a single Resize after the double one
					f.Ops = append(f.Ops, GOp{K: "resize", I: 0, BW: bw + 1, BH: bh + 1})
				}
			}
			if pos == nil {
				pos = []c11.Level{}
			}
			f.Ops = append(f.Ops, GOp{K: "draw", I: 0, Chain: pos})
			sc.Frames = append(sc.Frames, f)
		}
		out = append(out, sc)
	}
	return out
}

// FixedHist: hand-written histories.
func FixedHist() []*Scn {
	var out []*Scn
	in := []c11.Level{{"new", 1, 1, 6, 3}}
	moved := []c11.Level{{"new", 3, 2, 6, 3}}
	small := []c11.Level{{"new", 1, 1, 2, 1}}
	clipped := []c11.Level{{"new", 1, 1, 3, 2}, {"raw", 1, 0, 6, 3}}
	for _, proto := range []string{"kitty", "sixel"} {
		cl := GOp{K: "clear"}
		// add, keep, keep, move, drop, add again, refresh, drop on refresh
		out = append(out, &Scn{Kind: "hist", Proto: proto, Cols: 10, Rows: 5, CW: 8, CH: 16, Imgs: [][2]int{{32, 32}}, Frames: []Frame{
			{Ops: []GOp{{K: "resize", I: 0, BW: 4, BH: 2}}, End: "render"},
			{Ops: []GOp{cl, {K: "draw", I: 0, Chain: in}}, End: "render"},
			{Ops: []GOp{cl, {K: "draw", I: 0, Chain: in}}, End: "render"},
			{Ops: []GOp{{K: "draw", I: 0, Chain: in}}, End: "render"},
			{Ops: []GOp{cl, {K: "draw", I: 0, Chain: moved}}, End: "render"},
			{Ops: []GOp{cl}, End: "render"},
			{Ops: []GOp{cl, {K: "draw", I: 0, Chain: in}}, End: "render"},
			{Ops: []GOp{cl, {K: "draw", I: 0, Chain: in}}, End: "refresh"},
			{Ops: []GOp{cl}, End: "refresh"},
		}})
		// image larger than its window; window clipped by its parent
		out = append(out, &Scn{Kind: "hist", Proto: proto, Cols: 10, Rows: 5, CW: 8, CH: 16, Imgs: [][2]int{{32, 32}}, Frames: []Frame{
			{Ops: []GOp{{K: "resize", I: 0, BW: 4, BH: 2}}, End: "render"},
			{Ops: []GOp{cl, {K: "draw", I: 0, Chain: small}}, End: "render"},
			{Ops: []GOp{cl, {K: "draw", I: 0, Chain: clipped}}, End: "render"},
			{Ops: []GOp{cl, {K: "draw", I: 0, Chain: in}}, End: "render"},
		}})
		// TLC's counterexample (MC_Place): re-encode a shown image to the same cell size, keep
		// it where it is and also draw it somewhere else
		out = append(out, &Scn{Kind: "hist", Proto: proto, Cols: 12, Rows: 6, CW: 8, CH: 16, Imgs: [][2]int{{32, 32}}, Frames: []Frame{
			{Ops: []GOp{{K: "resize", I: 0, BW: 4, BH: 2}}, End: "render"},
			{Ops: []GOp{cl, {K: "draw", I: 0, Chain: in}}, End: "render"},
			{Ops: []GOp{cl, {K: "resize", I: 0, BW: 4, BH: 3}, {K: "draw", I: 0, Chain: in}, {K: "draw", I: 0, Chain: []c11.Level{{"new", 6, 3, 5, 3}}}}, End: "render"},
			{Ops: []GOp{cl, {K: "draw", I: 0, Chain: in}, {K: "draw", I: 0, Chain: []c11.Level{{"new", 6, 3, 5, 3}}}}, End: "render"},
		}})
		// resize while shown; two images; terminal resize
		out = append(out, &Scn{Kind: "hist", Proto: proto, Cols: 12, Rows: 6, CW: 8, CH: 16, Imgs: [][2]int{{32, 32}, {16, 16}}, Frames: []Frame{
			{Ops: []GOp{{K: "resize", I: 0, BW: 4, BH: 2}, {K: "resize", I: 1, BW: 2, BH: 1}}, End: "render"},
			{Ops: []GOp{cl, {K: "draw", I: 0, Chain: in}, {K: "draw", I: 1, Chain: []c11.Level{{"new", 8, 4, 3, 2}}}}, End: "render"},
			{Ops: []GOp{cl, {K: "resize", I: 0, BW: 2, BH: 1}, {K: "draw", I: 0, Chain: in}, {K: "draw", I: 1, Chain: []c11.Level{{"new", 8, 4, 3, 2}}}}, End: "render"},
			{Ops: []GOp{cl, {K: "draw", I: 0, Chain: in}}, End: "termsize", Cols: 11, Rows: 5},
			{Ops: []GOp{cl, {K: "draw", I: 0, Chain: in}}, End: "render"},
		}})
		// crops that kept their coordinates: add, keep, move, resize, refresh
		out = append(out, &Scn{Kind: "hist", Proto: proto, Cols: 12, Rows: 6, CW: 8, CH: 16, Imgs: [][2]int{{32, 32}, {16, 16}}, Org: [][2]int{{8, 16}, {5, 40}}, Frames: []Frame{
			{Ops: []GOp{{K: "resize", I: 0, BW: 6, BH: 3}, {K: "resize", I: 1, BW: 2, BH: 1}}, End: "render"},
			{Ops: []GOp{cl, {K: "draw", I: 0, Chain: in}, {K: "draw", I: 1, Chain: []c11.Level{{"new", 8, 4, 3, 2}}}}, End: "render"},
			{Ops: []GOp{cl, {K: "draw", I: 0, Chain: in}, {K: "draw", I: 1, Chain: []c11.Level{{"new", 8, 4, 3, 2}}}}, End: "render"},
			{Ops: []GOp{cl, {K: "resize", I: 0, BW: 2, BH: 1}, {K: "draw", I: 0, Chain: moved}}, End: "render"},
			{Ops: []GOp{cl, {K: "draw", I: 0, Chain: moved}}, End: "refresh"},
		}})
	}
	// two Resize calls in a row: a long encoding (the noise image unscaled: 60 x 20 cells) then a short
	// one (into 4 x 2 cells), drawn, kept, moved, refreshed; then (kitty) the other way round with an
	// image that fits the screen either way (240 x 240 px in cells of 20 x 40: 12 x 6)
	cl := GOp{K: "clear"}
	for _, proto := range []string{"kitty", "sixel"} {
		sz := [2]int{480, 320}
		if proto == "sixel" {
			sz = [2]int{240, 160} // a sixel encoding takes longer
		}
		out = append(out, &Scn{Kind: "hist", Proto: proto, Cols: 12, Rows: 6, CW: sz[0] / 60, CH: sz[1] / 20, Noisy: true, Imgs: [][2]int{sz}, Frames: []Frame{
			{Ops: []GOp{{K: "resize2", I: 0, BW: 60, BH: 20, BW2: 4, BH2: 2}}, End: "render"},
			{Ops: []GOp{cl, {K: "draw", I: 0, Chain: in}}, End: "render"},
			{Ops: []GOp{cl, {K: "draw", I: 0, Chain: in}}, End: "render"},
			{Ops: []GOp{cl, {K: "draw", I: 0, Chain: moved}}, End: "render"},
			{Ops: []GOp{cl, {K: "draw", I: 0, Chain: moved}}, End: "refresh"},
		}})
	}
	out = append(out, &Scn{Kind: "hist", Proto: "kitty", Cols: 14, Rows: 7, CW: 20, CH: 40, Noisy: true, Imgs: [][2]int{{240, 240}}, Frames: []Frame{
		{Ops: []GOp{{K: "resize2", I: 0, BW: 2, BH: 1, BW2: 12, BH2: 6}}, End: "render"},
		{Ops: []GOp{cl, {K: "draw", I: 0, Chain: []c11.Level{{"new", 1, 0, 13, 7}}}}, End: "render"},
		{Ops: []GOp{cl, {K: "resize2", I: 0, BW: 12, BH: 6, BW2: 2, BH2: 1}, {K: "draw", I: 0, Chain: in}}, End: "render"},
		{Ops: []GOp{cl, {K: "draw", I: 0, Chain: moved}}, End: "render"},
	}})
	return out
}

// ---- follow-up generators (h20-2 round) -------------------------------------
// They draw from random streams of their own, so the scenarios of the
// generators above stay what they were for every seed.

// SheerBlocks: semi-transparent ("sheer": alpha 50..254) source pixels of known
// straight colours, in straight-alpha and premultiplied sources of several
// kinds, above / below opaque pixels and in pairs of the same colour; and
// cells covering one sufficiently transparent pixel (coloured or not) and one
// visible pixel, or two transparent ones. Unscaled, fully visible.
func SheerBlocks() []*Scn {
	var out []*Scn
	cols := [][3]int{{100, 100, 100}, {1, 2, 3}, {254, 128, 50}, {255, 255, 255}, {200, 10, 10}, {0, 255, 0}, {6, 5, 250}, {77, 0, 129}}
	al := []int{50, 51, 98, 127, 128, 200, 254, 255}
	clr := []int{49, 0, 20, 1, 49, 0, 35, 10}
	full := []c11.Level{{"new", 1, 0, 8, 3}}
	type variant struct {
		premul bool
		src    string
	}
	vars := []variant{{false, ""}, {true, ""}, {false, "nrgba64"}, {false, "rgba64"}, {false, "paletted"}, {false, "alien"}, {false, "nycbcra"}}
	for _, proto := range []string{"half", "full"} {
		var blocks []Block
		for vi, v := range vars {
			mk := func(h int) Block {
				return Block{Chain: full, W: 8, H: h, Px: make([]uint32, 8*h), Premul: v.premul, Src: v.src}
			}
			// sheer over opaque, opaque over sheer
			a := mk(4)
			// the same sheer colour twice; two different sheer colours
			b := mk(4)
			// a transparent pixel (with a colour of its own) and a visible one, both ways; two transparent ones
			c := mk(4)
			d := mk(2)
			for x := 0; x < 8; x++ {
				c1, c2 := cols[(x+vi)%len(cols)], cols[(x+vi+3)%len(cols)]
				lv := al[(x+vi)%len(al)]
				a.Px[x], a.Px[8+x] = pack(c1[0], c1[1], c1[2], lv), pack(c2[0], c2[1], c2[2], 255)
				a.Px[16+x], a.Px[24+x] = pack(c2[0], c2[1], c2[2], 255), pack(c1[0], c1[1], c1[2], lv)
				b.Px[x], b.Px[8+x] = pack(c1[0], c1[1], c1[2], lv), pack(c1[0], c1[1], c1[2], lv)
				b.Px[16+x], b.Px[24+x] = pack(c1[0], c1[1], c1[2], lv), pack(c2[0], c2[1], c2[2], al[(x+vi+5)%len(al)])
				ca := clr[(x+vi)%len(clr)]
				c.Px[x], c.Px[8+x] = pack(c2[0], c2[1], c2[2], ca), pack(c1[0], c1[1], c1[2], []int{255, lv}[x%2])
				c.Px[16+x], c.Px[24+x] = pack(c1[0], c1[1], c1[2], []int{lv, 255}[x%2]), pack(c2[0], c2[1], c2[2], ca)
				d.Px[x], d.Px[8+x] = pack(c1[0], c1[1], c1[2], ca), pack(c2[0], c2[1], c2[2], clr[(x+vi+1)%len(clr)])
			}
			blocks = append(blocks, a, b, c, d)
		}
		// the three cells of the report: green at alpha 49 over opaque red; opaque white over
		// nothing; white at alpha 98 over nothing - and their mirror images
		e := Block{Chain: full, W: 6, H: 2, Px: []uint32{
			pack(0, 255, 0, 49), pack(255, 255, 255, 255), pack(255, 255, 255, 98), pack(255, 0, 0, 255), pack(0, 0, 0, 0), pack(0, 0, 0, 0),
			pack(255, 0, 0, 255), pack(0, 0, 0, 0), pack(0, 0, 0, 0), pack(0, 255, 0, 49), pack(255, 255, 255, 255), pack(255, 255, 255, 98)}}
		blocks = append(blocks, e)
		e.Premul = true
		blocks = append(blocks, e)
		for i := 0; i < len(blocks); i += 10 {
			j := i + 10
			if j > len(blocks) {
				j = len(blocks)
			}
			out = append(out, &Scn{Kind: "block", Proto: proto, Cols: 10, Rows: 4, CW: 8, CH: 16, Blocks: blocks[i:j]})
		}
	}
	return out
}

// ThinFits: extreme aspect ratios (100:1 and beyond, both ways) and boxes one
// cell high or wide, and moderate ones (12:1) whose scaled size still falls
// below one pixel.
func ThinFits() []*Scn {
	var out []*Scn
	F := func(iw, ih, bw, bh int) Fit { return Fit{IW: iw, IH: ih, BW: bw, BH: bh} }
	var fits []Fit
	for _, im := range [][2]int{{200, 1}, {200, 2}, {100, 3}, {24, 2}, {12, 1}} {
		for _, bx := range [][2]int{{1, 1}, {2, 1}, {3, 1}, {11, 1}, {50, 1}, {199, 1}, {200, 1}, {7, 2}} {
			fits = append(fits, F(im[0], im[1], bx[0], bx[1]), F(im[1], 2*im[0], bx[1], bx[0]))
		}
	}
	fits = append(fits, Fit{IW: 200, IH: 1, BW: 3, BH: 1, OX: 5, OY: 7}, Fit{IW: 1, IH: 200, BW: 1, BH: 2, OX: -3, OY: -2})
	for _, proto := range []string{"half", "full"} {
		out = append(out, &Scn{Kind: "fit", Proto: proto, Cols: 10, Rows: 4, CW: 8, CH: 16, Fits: fits})
	}
	for _, proto := range []string{"kitty", "sixel"} {
		for _, g := range Geoms {
			var pix []Fit
			for _, ih := range []int{1, g[1] / 2, g[1]} {
				for _, bx := range [][2]int{{1, 1}, {3, 1}, {10, 1}, {199, 1}, {200, 1}, {10, 2}} {
					pix = append(pix, F(200*g[0], ih, bx[0], bx[1]))
				}
				pix = append(pix, F(12*g[0], ih, 4, 1), F(12*g[0]-1, ih, 1, 1), F(12*g[0], ih, 11, 1))
			}
			for _, iw := range []int{1, g[0]} {
				for _, bx := range [][2]int{{1, 1}, {1, 3}, {1, 10}, {2, 10}, {1, 99}} {
					pix = append(pix, F(iw, 100*g[1], bx[0], bx[1]))
				}
				pix = append(pix, F(iw, 12*g[1], 1, 4))
			}
			pix = append(pix, Fit{IW: 200 * g[0], IH: 1, BW: 10, BH: 1, OX: g[0], OY: 3})
			out = append(out, &Scn{Kind: "fit", Proto: proto, Cols: 12, Rows: 6, CW: g[0], CH: g[1], Fits: pix})
		}
	}
	return out
}

// ThinHist: a banner (or a pole) is shown unscaled, then resized into a box that
// leaves it less than one pixel high (wide) and drawn into a window of the
// size of that box, kept, moved and refreshed. Whatever the library makes of
// such a Resize, what the terminal displays afterwards has to be what the
// image reports as its size, inside that window.
func ThinHist() []*Scn {
	var out []*Scn
	cl := GOp{K: "clear"}
	for _, proto := range []string{"kitty", "sixel"} {
		// 1000 x 5 px in cells of 10 x 20: 100 x 1 cells; into 10 x 1
		wide := []c11.Level{{"new", 1, 1, 101, 1}}
		box := []c11.Level{{"new", 1, 1, 10, 1}}
		out = append(out, &Scn{Kind: "hist", Proto: proto, Cols: 103, Rows: 3, CW: 10, CH: 20, Imgs: [][2]int{{1000, 5}}, Frames: []Frame{
			{Ops: []GOp{{K: "resize", I: 0, BW: 100, BH: 1}}, End: "render"},
			{Ops: []GOp{cl, {K: "draw", I: 0, Chain: wide}}, End: "render"},
			{Ops: []GOp{cl, {K: "resize", I: 0, BW: 10, BH: 1, Thin: true}, {K: "draw", I: 0, Chain: box}}, End: "render"},
			{Ops: []GOp{cl, {K: "draw", I: 0, Chain: box}}, End: "render"},
			{Ops: []GOp{cl, {K: "draw", I: 0, Chain: box}}, End: "refresh"},
		}})
		// 24 x 2 px in cells of 2 x 4: 12 x 1 cells; into 4 x 1; never shown unscaled
		small := []c11.Level{{"new", 2, 1, 4, 1}}
		out = append(out, &Scn{Kind: "hist", Proto: proto, Cols: 14, Rows: 5, CW: 2, CH: 4, Imgs: [][2]int{{24, 2}}, Frames: []Frame{
			{Ops: []GOp{{K: "resize", I: 0, BW: 12, BH: 1}}, End: "render"},
			{Ops: []GOp{cl, {K: "draw", I: 0, Chain: []c11.Level{{"new", 1, 1, 12, 1}}}}, End: "render"},
			{Ops: []GOp{cl, {K: "resize", I: 0, BW: 4, BH: 1, Thin: true}, {K: "draw", I: 0, Chain: small}}, End: "render"},
			{Ops: []GOp{cl, {K: "draw", I: 0, Chain: small}}, End: "render"},
			{Ops: []GOp{cl, {K: "draw", I: 0, Chain: []c11.Level{{"new", 5, 3, 4, 1}}}}, End: "render"},
			{Ops: []GOp{cl, {K: "draw", I: 0, Chain: []c11.Level{{"new", 5, 3, 4, 1}}}}, End: "refresh"},
		}})
		// the first Resize of the image is the thin one (nothing of it on the terminal yet)
		out = append(out, &Scn{Kind: "hist", Proto: proto, Cols: 14, Rows: 5, CW: 8, CH: 16, Imgs: [][2]int{{96, 3}}, Frames: []Frame{
			{Ops: []GOp{{K: "resize", I: 0, BW: 3, BH: 1, Thin: true}}, End: "render"},
			{Ops: []GOp{cl, {K: "draw", I: 0, Chain: []c11.Level{{"new", 1, 1, 3, 1}}}}, End: "render"},
			{Ops: []GOp{cl, {K: "draw", I: 0, Chain: []c11.Level{{"new", 1, 1, 3, 1}}}}, End: "render"},
		}})
		// a pole: 2 x 96 px in cells of 2 x 4: 1 x 24 cells; into 1 x 4
		out = append(out, &Scn{Kind: "hist", Proto: proto, Cols: 8, Rows: 26, CW: 2, CH: 4, Imgs: [][2]int{{2, 96}}, Frames: []Frame{
			{Ops: []GOp{{K: "resize", I: 0, BW: 1, BH: 24}}, End: "render"},
			{Ops: []GOp{cl, {K: "draw", I: 0, Chain: []c11.Level{{"new", 2, 1, 1, 24}}}}, End: "render"},
			{Ops: []GOp{cl, {K: "resize", I: 0, BW: 1, BH: 4, Thin: true}, {K: "draw", I: 0, Chain: []c11.Level{{"new", 2, 1, 1, 4}}}}, End: "render"},
			{Ops: []GOp{cl, {K: "draw", I: 0, Chain: []c11.Level{{"new", 2, 1, 1, 4}}}}, End: "refresh"},
		}})
	}
	return out
}

// GenThin: seeded histories of one banner or pole (8..12 cells long, at most
// half a cell thick): shown unscaled, resized into a box that makes it vanish
// in the thin direction, drawn into a window of that box, kept / moved /
// refreshed, sometimes resized back.
func GenThin(seed int64, n int) []*Scn {
	rng := rand.New(rand.NewSource(seed*7919 + 20))
	var out []*Scn
	for s := 0; s < n; s++ {
		g := Geoms[rng.Intn(len(Geoms))]
		k := 8 + rng.Intn(5)
		tall := rng.Intn(3) == 0
		sc := &Scn{Kind: "hist", Proto: []string{"kitty", "sixel"}[s%2], Cols: 14, Rows: 5, CW: g[0], CH: g[1]}
		iw, ih := k*g[0]-rng.Intn(g[0]), 1+rng.Intn(g[1]/2)
		own := [2]int{k, 1}
		if tall {
			sc.Cols, sc.Rows = 8, 14
			iw, ih = 1+rng.Intn((g[0]+1)/2), k*g[1]-rng.Intn(g[1])
			own = [2]int{1, k}
		}
		sc.Imgs = [][2]int{{iw, ih}}
		if rng.Intn(4) == 0 {
			sc.Org = [][2]int{{rng.Intn(2 * g[0]), 1 + rng.Intn(g[1])}}
		}
		// a box that makes it vanish
		bw, bh := 1+rng.Intn(k/2), 1
		if tall {
			bw, bh = 1, 1+rng.Intn(k/2)
		}
		if !vanishes(iw, ih, bw, bh, g[0], g[1]) {
			bw, bh = 1, 1
		}
		thin := vanishes(iw, ih, bw, bh, g[0], g[1])
		at := func(w, h int) []c11.Level {
			return []c11.Level{{"new", rng.Intn(sc.Cols - w + 1), rng.Intn(sc.Rows - h + 1), w, h}}
		}
		cl := GOp{K: "clear"}
		first := at(own[0], own[1])
		sc.Frames = append(sc.Frames, Frame{Ops: []GOp{{K: "resize", I: 0, BW: own[0], BH: own[1]}}, End: "render"})
		if rng.Intn(3) != 0 {
			sc.Frames = append(sc.Frames, Frame{Ops: []GOp{cl, {K: "draw", I: 0, Chain: first}}, End: "render"})
		}
		pos := at(bw, bh)
		if rng.Intn(2) == 0 {
			pos = []c11.Level{{"new", first[0].C, first[0].R, bw, bh}} // where it was
		}
		sc.Frames = append(sc.Frames, Frame{Ops: []GOp{cl, {K: "resize", I: 0, BW: bw, BH: bh, Thin: thin}, {K: "draw", I: 0, Chain: pos}}, End: "render"})
		for fi, nf := 0, 1+rng.Intn(3); fi < nf; fi++ {
			f := Frame{Ops: []GOp{cl}, End: "render"}
			switch rng.Intn(5) {
			case 0:
				f.End = "refresh"
			case 1:
				pos = at(bw, bh)
			case 2: // back to its own size
				f.Ops = append(f.Ops, GOp{K: "resize", I: 0, BW: own[0], BH: own[1]})
				pos, bw, bh = first, own[0], own[1]
			}
			f.Ops = append(f.Ops, GOp{K: "draw", I: 0, Chain: pos})
			sc.Frames = append(sc.Frames, f)
		}
		out = append(out, sc)
	}
	return out
}

// GeomPairs are the changes of cell pixel size used by the geometry histories.
var GeomPairs = [][2][2]int{{{10, 20}, {5, 10}}, {{5, 10}, {10, 20}}, {{8, 16}, {10, 21}}, {{10, 21}, {4, 8}}, {{4, 8}, {8, 16}}, {{6, 12}, {9, 12}}}

// GeomHist: the terminal's cells change their pixel size while the number of
// columns and rows stays (reported in band). The application renders, resizes
// its images for their boxes again and draws them: the images have to fit
// their boxes in the cells the terminal has now.
func GeomHist() []*Scn {
	var out []*Scn
	cl := GOp{K: "clear"}
	win := []c11.Level{{"new", 1, 1, 6, 6}}
	for pi, gp := range GeomPairs[:2] {
		for _, proto := range []string{"kitty", "sixel"} {
			if proto == "sixel" && pi > 0 {
				continue
			}
			a, b := gp[0], gp[1]
			// 100 x 100 px into 5 x 5 cells
			out = append(out, &Scn{Kind: "hist", Proto: proto, Cols: 24, Rows: 12, CW: a[0], CH: a[1], Imgs: [][2]int{{100, 100}}, Frames: []Frame{
				{Ops: []GOp{{K: "resize", I: 0, BW: 5, BH: 5}}, End: "render"},
				{Ops: []GOp{cl, {K: "draw", I: 0, Chain: win}}, End: "render"},
				{Ops: []GOp{cl, {K: "resize", I: 0, BW: 5, BH: 5}, {K: "draw", I: 0, Chain: win}}, End: "cellsize", CW: b[0], CH: b[1]},
				{Ops: []GOp{cl, {K: "draw", I: 0, Chain: win}}, End: "render"},
				{Ops: []GOp{cl, {K: "draw", I: 0, Chain: win}}, End: "refresh"},
				{Ops: []GOp{cl, {K: "resize", I: 0, BW: 4, BH: 2}, {K: "draw", I: 0, Chain: win}}, End: "cellsize", CW: a[0], CH: a[1]},
				{Ops: []GOp{cl, {K: "draw", I: 0, Chain: win}}, End: "render"},
			}})
		}
	}
	return out
}

// GenGeom: seeded histories with one or two changes of the cell pixel size;
// every image is resized again right after a change.
func GenGeom(seed int64, n int) []*Scn {
	rng := rand.New(rand.NewSource(seed*104729 + 20))
	var out []*Scn
	for s := 0; s < n; s++ {
		gp := GeomPairs[rng.Intn(len(GeomPairs))]
		cur := gp[0]
		sc := &Scn{Kind: "hist", Proto: "kitty", Cols: 16 + rng.Intn(4), Rows: 8 + rng.Intn(3), CW: cur[0], CH: cur[1]}
		if s%5 == 4 {
			sc.Proto = "sixel"
		}
		nimg := 1 + rng.Intn(2)
		box := make([][2]int, nimg)
		for i := 0; i < nimg; i++ {
			// 2..8 x 2..6 cells of the larger of the two geometries, ragged
			mw, mh := gp[0][0], gp[0][1]
			if gp[1][0] > mw {
				mw = gp[1][0]
			}
			if gp[1][1] > mh {
				mh = gp[1][1]
			}
			sc.Imgs = append(sc.Imgs, [2]int{mw*(2+rng.Intn(7)) - rng.Intn(mw), mh*(2+rng.Intn(5)) - rng.Intn(mh)})
		}
		pick := func(i int, g [2]int) {
			bw, bh := 2+rng.Intn(5), 2+rng.Intn(4)
			for vanishes(sc.Imgs[i][0], sc.Imgs[i][1], bw, bh, g[0], g[1]) {
				bw, bh = bw+1, bh+1
			}
			box[i] = [2]int{bw, bh}
		}
		cl := GOp{K: "clear"}
		first := Frame{End: "render"}
		for i := 0; i < nimg; i++ {
			pick(i, cur)
			first.Ops = append(first.Ops, GOp{K: "resize", I: i, BW: box[i][0], BH: box[i][1]})
		}
		sc.Frames = append(sc.Frames, first)
		pos := make([][]c11.Level, nimg)
		place := func(i int) []c11.Level {
			// a window of the size of the box, inside the screen
			fx, fy := sc.Cols-box[i][0]+1, sc.Rows-box[i][1]+1
			if fx < 1 {
				fx = 1
			}
			if fy < 1 {
				fy = 1
			}
			return []c11.Level{{"new", rng.Intn(fx), rng.Intn(fy), box[i][0], box[i][1]}}
		}
		changes := 1 + rng.Intn(2)
		for fi, nf := 0, 3+rng.Intn(4); fi < nf; fi++ {
			f := Frame{Ops: []GOp{cl}, End: "render"}
			change := changes > 0 && (fi == 1 || (fi > 1 && rng.Intn(3) == 0))
			if change {
				changes--
				if cur == gp[0] {
					cur = gp[1]
				} else {
					cur = gp[0]
				}
				f.End, f.CW, f.CH = "cellsize", cur[0], cur[1]
				for i := 0; i < nimg; i++ {
					if rng.Intn(2) == 0 {
						pick(i, cur) // another box, or the same one
					}
					f.Ops = append(f.Ops, GOp{K: "resize", I: i, BW: box[i][0], BH: box[i][1]})
					if pos[i] != nil {
						pos[i] = place(i)
					}
				}
			} else if rng.Intn(5) == 0 {
				f.End = "refresh"
			}
			for i := 0; i < nimg; i++ {
				switch x := rng.Intn(6); {
				case x < 3 && pos[i] != nil: // keep
					f.Ops = append(f.Ops, GOp{K: "draw", I: i, Chain: pos[i]})
				case x < 5: // add or move
					pos[i] = place(i)
					f.Ops = append(f.Ops, GOp{K: "draw", I: i, Chain: pos[i]})
				}
			}
			sc.Frames = append(sc.Frames, f)
		}
		out = append(out, sc)
	}
	return out
}
