// Package c16 drives the exported soft-wrap scanners (vxfw/text, vxfw/richtext),
// the rich-text hard-wrap scanner and the Draw methods of both text widgets
// with generated texts and widths, and records what they emitted together with
// the Unicode facts of the text (grapheme clusters, widths, white space, line
// terminators, letters, UAX #14 break opportunities) computed here through
// uniseg's Graphemes iterator, a call path the code under test does not use.
// specs/text/Wrap_Trace.tla decides.
package c16

import (
	"fmt"
	"math"
	"math/rand"
	"strings"
	"sync/atomic"
	"time"
	"unicode"

	"git.sr.ht/~rockorager/vaxis"
	"git.sr.ht/~rockorager/vaxis/vxfw"
	"git.sr.ht/~rockorager/vaxis/vxfw/richtext"
	"git.sr.ht/~rockorager/vaxis/vxfw/text"
	"github.com/rivo/uniseg"

	"verif/harness/trace"
)

// ---- replay descriptor ---------------------------------------------------

// GD is one intended grapheme cluster of the text and its style index (0..3).
type GD struct {
	S  string `json:"s"`
	St int    `json:"st,omitempty"`
}

type Scn struct {
	Kind   string `json:"kind"` // plain | rich | hard
	Gen    string `json:"gen"`  // generator tag
	Text   []GD   `json:"text"`
	Rep    []int  `json:"rep,omitempty"` // giant texts: Text[i] stands for Rep[i] consecutive copies (scanners only, run-length encoded trace)
	Cut    []int  `json:"cut,omitempty"` // rich/hard: extra segment boundaries before these grapheme indices
	Widths []int  `json:"widths"`
	Draw   bool   `json:"draw,omitempty"` // giant texts: the widget is drawn as well (event rdraw; small widths only)
}

const Inf = 65535 // "no width limit" (hard-wrap scanner)

// ---- Unicode facts ---------------------------------------------------------

type Fact struct {
	G              string
	W              int
	Ws, Nl, Lt, Gl bool
}

func allSpace(g string) bool {
	if g == "" {
		return false
	}
	for _, r := range g {
		if !unicode.IsSpace(r) {
			return false
		}
	}
	return true
}

func isLetter(g string) bool {
	for _, r := range g {
		return unicode.IsLetter(r) && !unicode.In(r, unicode.Han, unicode.Hiragana, unicode.Katakana, unicode.Hangul)
	}
	return false
}

// Facts segments s and classifies every cluster.
func Facts(s string) []Fact {
	var out []Fact
	gr := uniseg.NewGraphemes(s)
	for gr.Next() {
		g := gr.Str()
		out = append(out, Fact{G: g, W: uniseg.StringWidth(g), Ws: allSpace(g),
			Nl: uniseg.HasTrailingLineBreakInString(g), Lt: isLetter(g), Gl: gr.LineBreak() == uniseg.LineDontBreak})
	}
	if n := len(out); n > 0 {
		out[n-1].Gl = false
	}
	// UAX #14 LB4/LB5: there is always a break after a line terminator, whatever follows. (uniseg
	// v0.4.4 reports "no break" in front of a hyphen that is followed by a digit even there.)
	for i := range out {
		if out[i].Nl {
			out[i].Gl = false
		}
	}
	return out
}

func b2i(b bool) int {
	if b {
		return 1
	}
	return 0
}

// ---- styles ----------------------------------------------------------------

func Style(i int) vaxis.Style {
	switch i {
	case 0:
		return vaxis.Style{}
	case 3:
		return vaxis.Style{Foreground: vaxis.IndexColor(3), Attribute: vaxis.AttrBold}
	default:
		return vaxis.Style{Foreground: vaxis.IndexColor(uint8(i))}
	}
}

func styleID(s vaxis.Style) int {
	for i := 0; i < 4; i++ {
		if s == Style(i) {
			return i
		}
	}
	return 99
}

// ---- executor ----------------------------------------------------------------

type Ctx struct {
	G     *trace.Interner
	Hangs atomic.Int32
	Dump  func(format string, a ...any)
	// Unstable counts scenarios whose text does not segment into the intended clusters (skipped).
	Unstable atomic.Int32
}

func (c *Ctx) gid(g string) int {
	if g == "" || g == " " {
		return 0
	}
	return c.G.ID(g)
}

type result struct {
	evs []trace.Ev
}

func dctx(w, h int) vxfw.DrawContext {
	return vxfw.DrawContext{Max: vxfw.Size{Width: uint16(w), Height: uint16(h)}, Characters: vaxis.Characters}
}

func (c *Ctx) lineOfString(s string, st int) [][]int {
	out := [][]int{}
	for _, f := range Facts(s) {
		out = append(out, []int{c.gid(f.G), f.W, b2i(f.Ws), st})
	}
	return out
}

func (c *Ctx) lineOfCells(cells []vaxis.Cell) [][]int {
	out := [][]int{}
	for _, cell := range cells {
		out = append(out, []int{c.gid(cell.Grapheme), uniseg.StringWidth(cell.Grapheme), b2i(allSpace(cell.Grapheme)), styleID(cell.Style)})
	}
	return out
}

func (c *Ctx) rowsOf(s vxfw.Surface) [][][]int {
	rows := [][][]int{}
	w, h := int(s.Size.Width), int(s.Size.Height)
	for r := 0; r < h; r++ {
		row := [][]int{}
		for x := 0; x < w; x++ {
			i := r*w + x
			if i >= len(s.Buffer) {
				row = append(row, []int{-1, 0, 99})
				continue
			}
			cell := s.Buffer[i]
			row = append(row, []int{c.gid(cell.Grapheme), cell.Width, styleID(cell.Style)})
		}
		rows = append(rows, row)
	}
	return rows
}

// guarded runs f and turns a panic into an observation.
func guarded(f func()) (pan string) {
	defer func() {
		if r := recover(); r != nil {
			pan = fmt.Sprint(r)
		}
	}()
	f()
	return ""
}

// segments groups the text into styled segments (rich text as an application passes it).
func segments(sc *Scn) []vaxis.Segment {
	cut := map[int]bool{}
	for _, i := range sc.Cut {
		cut[i] = true
	}
	var segs []vaxis.Segment
	for i, g := range sc.Text {
		if i > 0 && !cut[i] && sc.Text[i-1].St == g.St {
			segs[len(segs)-1].Text += g.S
			continue
		}
		segs = append(segs, vaxis.Segment{Text: g.S, Style: Style(g.St)})
	}
	return segs
}

// Run executes one scenario. A watchdog turns a scanner or Draw that does not
// return into a "hang" observation (the stuck goroutine is abandoned).
func Run(c *Ctx, sc *Scn) (evs []trace.Ev, note string) {
	if sc.Rep != nil {
		return runGiant(c, sc)
	}
	var sb strings.Builder
	for _, g := range sc.Text {
		sb.WriteString(g.S)
	}
	str := sb.String()
	facts := Facts(str)
	stable := len(facts) == len(sc.Text)
	if stable {
		for i := range facts {
			if facts[i].G != sc.Text[i].S {
				stable = false
			}
		}
	}
	if !stable {
		c.Unstable.Add(1)
		return []trace.Ev{{"ev": "reset", "kind": sc.Kind, "inp": [][]int{}, "rinp": [][]int{}, "carriers": [][]int{}}}, "unstable segmentation: skipped"
	}
	inp := [][]int{}
	for i, f := range facts {
		st := sc.Text[i].St
		if sc.Kind == "plain" {
			st = 1
		}
		inp = append(inp, []int{c.gid(f.G), f.W, b2i(f.Ws), b2i(f.Nl), b2i(f.Lt), b2i(f.Gl), st})
	}
	// "carriers": clusters that begin with white space but are not white space (an isolated accent
	// on a space), with the id of what remains when the leading white space is taken away
	carriers := [][]int{}
	for _, f := range facts {
		if f.Ws {
			continue
		}
		core := strings.TrimLeftFunc(f.G, unicode.IsSpace)
		if core != f.G && core != "" {
			carriers = append(carriers, []int{c.gid(f.G), c.gid(core)})
		}
	}
	evs = append(evs, trace.Ev{"ev": "reset", "kind": sc.Kind, "inp": inp, "rinp": [][]int{}, "carriers": carriers})
	bound := len(facts) + 2
	total := 0
	for _, f := range facts {
		total += f.W
	}
	var cells []vaxis.Cell
	if sc.Kind != "plain" {
		for i, f := range facts {
			cells = append(cells, vaxis.Cell{Character: vaxis.Character{Grapheme: f.G, Width: f.W}, Style: Style(sc.Text[i].St)})
		}
	}
	for _, w := range sc.Widths {
		if c.Hangs.Load() >= 4 {
			note = "skipped after repeated hangs"
			break
		}
		w := w
		done := make(chan []trace.Ev, 1)
		go func() {
			var out []trace.Ev
			// --- scanner
			lines := [][][]int{}
			fin := false
			pan := guarded(func() {
				switch sc.Kind {
				case "plain":
					s := text.NewSoftwrapScanner(str, uint16(w))
					ctx := dctx(w, math.MaxUint16)
					for n := 0; n <= bound; n++ {
						if !s.Scan(ctx) {
							fin = true
							break
						}
						lines = append(lines, c.lineOfString(s.Text(), 1))
					}
				case "rich":
					s := richtext.NewSoftwrapScanner(append([]vaxis.Cell(nil), cells...), uint16(w))
					for n := 0; n <= bound; n++ {
						if !s.Scan() {
							fin = true
							break
						}
						lines = append(lines, c.lineOfCells(s.Text()))
					}
				case "hard":
					s := richtext.NewHardwrapScanner(append([]vaxis.Cell(nil), cells...))
					for n := 0; n <= bound; n++ {
						if !s.Scan() {
							fin = true
							break
						}
						lines = append(lines, c.lineOfCells(s.Line()))
					}
				}
			})
			if pan != "" {
				out = append(out, trace.Ev{"ev": "panic", "in": "scan", "w": w, "msg": ascii(pan)})
				done <- out
				return
			}
			out = append(out, trace.Ev{"ev": "scan", "w": w, "done": fin, "lines": lines})
			if c.Dump != nil {
				tab := c.G.Table()
				var ls []string
				for _, l := range lines {
					var b strings.Builder
					for _, g := range l {
						b.WriteString(tab[g[0]])
					}
					ls = append(ls, b.String())
				}
				c.Dump("%s %q w=%d done=%v lines=%q\n", sc.Kind, str, w, fin, ls)
			}
			// --- widget
			var surf vxfw.Surface
			pan = guarded(func() {
				var err error
				switch sc.Kind {
				case "plain":
					t := text.New(str)
					t.Style = Style(1)
					surf, err = t.Draw(dctx(w, math.MaxUint16))
				case "rich":
					surf, err = richtext.New(segments(sc)).Draw(dctx(w, math.MaxUint16))
				case "hard":
					t := richtext.New(segments(sc))
					t.Softwrap = false
					mw := total + 2
					if mw > 60000 {
						mw = 60000
					}
					surf, err = t.Draw(dctx(mw, math.MaxUint16))
				}
				if err != nil {
					panic("Draw error: " + err.Error())
				}
			})
			if pan != "" {
				out = append(out, trace.Ev{"ev": "panic", "in": "draw", "w": w, "msg": ascii(pan)})
				done <- out
				return
			}
			out = append(out, trace.Ev{"ev": "draw", "w": w, "sw": int(surf.Size.Width), "sh": int(surf.Size.Height), "rows": c.rowsOf(surf)})
			done <- out
		}()
		select {
		case out := <-done:
			evs = append(evs, out...)
		case <-time.After(10 * time.Second):
			c.Hangs.Add(1)
			evs = append(evs, trace.Ev{"ev": "hang", "in": "scan-or-draw", "w": w})
			return evs, "hang"
		}
	}
	return evs, note
}

// ---- giant texts -------------------------------------------------------------

// MaxGiantLines bounds the lines of a giant text the trace spec is asked to judge.
const MaxGiantLines = 200

// MaxGiantCells bounds the surface of a drawn giant text that is recorded (cell by cell).
const MaxGiantCells = 4096

// pack run-length encodes a sequence of tuples: equal neighbours become one tuple with the count appended.
func pack(ts [][]int) [][]int {
	out := [][]int{}
	for _, t := range ts {
		if n := len(out); n > 0 {
			last := out[n-1]
			same := true
			for i := range t {
				if last[i] != t[i] {
					same = false
					break
				}
			}
			if same {
				last[len(t)]++
				continue
			}
		}
		out = append(out, append(append([]int(nil), t...), 1))
	}
	return out
}

// runGiant executes a scenario whose text is given as runs (Text[i] repeated Rep[i] times) and is
// too long for one trace record per grapheme: the facts of the text and the emitted lines are
// computed grapheme by grapheme as for every other text and then run-length encoded (events
// reset.rinp and rscan, judged by WrapRelRL). Only the scanners are run, unless the descriptor asks
// for the widget too (Draw: event rdraw = the surface cell by cell, judged against the run-length
// encoded lines of the rscan before it by WrapRelRL!DrawOK).
func runGiant(c *Ctx, sc *Scn) (evs []trace.Ev, note string) {
	skip := func(why string) ([]trace.Ev, string) {
		c.Unstable.Add(1)
		return []trace.Ev{{"ev": "reset", "kind": sc.Kind, "inp": [][]int{}, "rinp": [][]int{}, "carriers": [][]int{}}}, why
	}
	if len(sc.Rep) != len(sc.Text) || sc.Kind == "hard" {
		return skip("malformed giant scenario: skipped")
	}
	var sb strings.Builder
	var want []int // index into sc.Text of every intended grapheme
	for i, g := range sc.Text {
		sb.WriteString(strings.Repeat(g.S, sc.Rep[i]))
		for k := 0; k < sc.Rep[i]; k++ {
			want = append(want, i)
		}
	}
	str := sb.String()
	facts := Facts(str)
	if len(facts) != len(want) {
		return skip("unstable segmentation: skipped")
	}
	flat := make([][]int, len(facts))
	var cells []vaxis.Cell
	for i, f := range facts {
		g := sc.Text[want[i]]
		if f.G != g.S {
			return skip("unstable segmentation: skipped")
		}
		st := g.St
		if sc.Kind == "plain" {
			st = 1
		}
		flat[i] = []int{c.gid(f.G), f.W, b2i(f.Ws), b2i(f.Nl), b2i(f.Lt), b2i(f.Gl), st}
		if sc.Kind == "rich" {
			cells = append(cells, vaxis.Cell{Character: vaxis.Character{Grapheme: f.G, Width: f.W}, Style: Style(g.St)})
		}
	}
	evs = append(evs, trace.Ev{"ev": "reset", "kind": sc.Kind, "inp": [][]int{}, "rinp": pack(flat), "carriers": [][]int{}})
	bound := len(facts) + 2
	for _, w := range sc.Widths {
		w := w
		done := make(chan []trace.Ev, 1)
		go func() {
			lines := [][][]int{}
			fin := false
			pan := guarded(func() {
				switch sc.Kind {
				case "plain":
					s := text.NewSoftwrapScanner(str, uint16(w))
					ctx := dctx(w, math.MaxUint16)
					for n := 0; n <= bound && len(lines) <= MaxGiantLines; n++ {
						if !s.Scan(ctx) {
							fin = true
							break
						}
						lines = append(lines, pack(c.lineOfString(s.Text(), 1)))
					}
				case "rich":
					s := richtext.NewSoftwrapScanner(append([]vaxis.Cell(nil), cells...), uint16(w))
					for n := 0; n <= bound && len(lines) <= MaxGiantLines; n++ {
						if !s.Scan() {
							fin = true
							break
						}
						lines = append(lines, pack(c.lineOfCells(s.Text())))
					}
				}
			})
			if pan != "" {
				done <- []trace.Ev{{"ev": "panic", "in": "scan", "w": w, "msg": ascii(pan)}}
				return
			}
			if len(lines) > MaxGiantLines {
				// more lines than the trace spec is asked to judge: no observation, no verdict
				done <- nil
				return
			}
			if c.Dump != nil {
				var ws []int
				for _, l := range lines {
					x := 0
					for _, it := range l {
						x += it[1] * it[4]
					}
					ws = append(ws, x)
				}
				c.Dump("%s giant %d graphemes w=%d done=%v line widths=%v\n", sc.Kind, len(facts), w, fin, ws)
			}
			out := []trace.Ev{{"ev": "rscan", "w": w, "done": fin, "lines": lines}}
			if sc.Draw {
				var surf vxfw.Surface
				pan = guarded(func() {
					var err error
					if sc.Kind == "plain" {
						t := text.New(str)
						t.Style = Style(1)
						surf, err = t.Draw(dctx(w, math.MaxUint16))
					} else {
						var segs []vaxis.Segment
						for i, g := range sc.Text {
							segs = append(segs, vaxis.Segment{Text: strings.Repeat(g.S, sc.Rep[i]), Style: Style(g.St)})
						}
						surf, err = richtext.New(segs).Draw(dctx(w, math.MaxUint16))
					}
					if err != nil {
						panic("Draw error: " + err.Error())
					}
				})
				if pan != "" {
					out = append(out, trace.Ev{"ev": "panic", "in": "draw", "w": w, "msg": ascii(pan)})
				} else if int(surf.Size.Width)*int(surf.Size.Height) <= MaxGiantCells {
					if c.Dump != nil {
						c.Dump("%s giant w=%d drawn %dx%d\n", sc.Kind, w, surf.Size.Width, surf.Size.Height)
					}
					out = append(out, trace.Ev{"ev": "rdraw", "w": w, "sw": int(surf.Size.Width), "sh": int(surf.Size.Height), "rows": c.rowsOf(surf)})
				}
			}
			done <- out
		}()
		select {
		case out := <-done:
			if out == nil {
				note = "giant: more than 200 lines at some width, those widths are not judged"
			}
			evs = append(evs, out...)
		case <-time.After(120 * time.Second):
			c.Hangs.Add(1)
			evs = append(evs, trace.Ev{"ev": "hang", "in": "scan", "w": w})
			return evs, "hang"
		}
	}
	return evs, note
}

// Giants are the fixed texts of tens of thousands of graphemes: words, runs of spaces and lines
// wider than 65535 columns, and widths whose sums pass 65535. The widths are large, so that a
// scanner which re-measures the rest of a word for every line stays fast.
func Giants() []*Scn {
	type run struct {
		s string
		n int
	}
	texts := []struct {
		runs   []run
		widths []int
	}{
		{[]run{{"x", 1}, {" ", 1}, {"a", 65539}, {" ", 1}, {"y", 1}}, []int{2000, 30000, 65535}},          // a word wider than 65535 columns
		{[]run{{"a", 30000}, {" ", 1}, {"b", 36000}}, []int{40000, 65535}},                                // two words whose widths add up beyond 65535
		{[]run{{"世", 32800}}, []int{40001, 65535}},                                                        // breakable everywhere, wider than 65535 altogether
		{[]run{{"a", 1}, {" ", 65540}, {"b", 1}}, []int{10, 65535}},                                       // a run of spaces wider than 65535
		{[]run{{"x", 1}, {" ", 1}, {"a", 65539}, {"\n", 1}, {"y", 1}, {"\n", 2}, {"z", 1}}, []int{30000}}, // hard breaks around a giant word
		{[]run{{"（", 1}, {"a", 40000}, {" ", 1}, {"（", 1}, {"b", 20000}}, []int{20001, 40000}},            // glued prefix before a giant run of letters
	}
	// drawn as well: the line that ends with a hard break or with the text keeps its trailing white
	// space, so its width as emitted passes 65535 although what is to be seen of it fits the width
	drawn := []struct {
		runs   []run
		widths []int
	}{
		{[]run{{"a", 1}, {"b", 1}, {" ", 65534}}, []int{10}},
		{[]run{{"a", 1}, {"b", 1}, {" ", 65535}, {"\n", 1}}, []int{3, 10}},
		{[]run{{"a", 5}, {" ", 65531}, {"\n", 1}, {"c", 1}, {" ", 1}, {"d", 1}}, []int{8}},
		{[]run{{"x", 1}, {" ", 65540}, {"y", 1}}, []int{10}},
		{[]run{{"世", 1}, {"a", 1}, {" ", 65533}}, []int{4}},
	}
	var out []*Scn
	for _, t := range drawn {
		for _, k := range []string{"plain", "rich"} {
			sc := &Scn{Kind: k, Gen: "giant", Widths: t.widths, Draw: true}
			for i, r := range t.runs {
				st := 0
				if k != "plain" {
					st = (i + 1) % 4
				}
				sc.Text = append(sc.Text, GD{S: r.s, St: st})
				sc.Rep = append(sc.Rep, r.n)
			}
			out = append(out, sc)
		}
	}
	for _, t := range texts {
		for _, k := range []string{"plain", "rich"} {
			sc := &Scn{Kind: k, Gen: "giant", Widths: t.widths}
			for i, r := range t.runs {
				st := 0
				if k != "plain" {
					st = i % 4
				}
				sc.Text = append(sc.Text, GD{S: r.s, St: st})
				sc.Rep = append(sc.Rep, r.n)
			}
			out = append(out, sc)
		}
	}
	return out
}

func ascii(s string) string {
	var b strings.Builder
	for _, r := range s {
		if r < 0x20 || r > 0x7e || r == '"' || r == '\\' {
			b.WriteByte('?')
		} else {
			b.WriteRune(r)
		}
	}
	if b.Len() > 120 {
		return b.String()[:120]
	}
	return b.String()
}

// ---- generators ------------------------------------------------------------------

var ideographs = []string{"世", "界", "日", "本", "語", "中", "文", "字"}

// classGrapheme instantiates class cls at position i; letters and ideographs
// differ by position so that any reordering or duplication is visible.
func classGrapheme(cls byte, i int) string {
	switch cls {
	case 'L':
		return string(rune('a' + i%26))
	case 'M':
		return string(rune('a'+i%26)) + "́"
	case 'S':
		return " "
	case 'H':
		return "-"
	case 'N':
		return "\n"
	case 'W':
		return ideographs[i%len(ideographs)]
	case 'C':
		return "。"
	case 'R':
		return "\r\n"
	case 'E':
		return "👍🏽"
	case 'P':
		return "！"
	case 'A': // an isolated accent: a visible cluster that begins with a space
		return " \u0301"
	case 'O': // wide opening punctuation: no break opportunity after it (UAX #14 LB14)
		return "（"
	case 'G': // no-break space: white space with no break opportunity next to it (LB12, LB12a)
		return "\u00a0"
	case 'D': // a digit: not a letter; UAX #14 LB25 keeps a hyphen and the digit after it together
		return string(rune('0' + i%10))
	}
	panic("class")
}

func FromClasses(kind, gen, classes string, widths []int) *Scn {
	sc := &Scn{Kind: kind, Gen: gen, Widths: widths}
	for i := 0; i < len(classes); i++ {
		st := 0
		if kind != "plain" {
			st = (i*5 + len(classes)) % 4
			if i%3 == 1 && i > 0 { // frequently keep the neighbour's style: multi-grapheme segments
				st = sc.Text[i-1].St
			}
		}
		sc.Text = append(sc.Text, GD{S: classGrapheme(classes[i], i), St: st})
	}
	return sc
}

func seqInts(a, b int) []int {
	var o []int
	for i := a; i <= b; i++ {
		o = append(o, i)
	}
	return o
}

// Exhaustive enumerates every class string of length lo..n over alphabet with
// widths 1..maxw, and width 0 as well for texts of at most 3 graphemes.
func Exhaustive(alphabet string, lo, n int, maxw int, kinds []string) []*Scn {
	var out []*Scn
	var rec func(prefix []byte)
	rec = func(prefix []byte) {
		if len(prefix) >= lo {
			for _, k := range kinds {
				ws := seqInts(1, maxw)
				if len(prefix) <= 3 {
					ws = seqInts(0, maxw)
				}
				if k == "hard" {
					ws = []int{Inf}
				}
				out = append(out, FromClasses(k, "exh", string(prefix), ws))
			}
		}
		if len(prefix) == n {
			return
		}
		for i := 0; i < len(alphabet); i++ {
			rec(append(append([]byte(nil), prefix...), alphabet[i]))
		}
	}
	rec(nil)
	return out
}

// Random builds a longer text out of words, gaps, hyphens, breaks and wide runs.
func Random(rng *rand.Rand, kind string) *Scn {
	n := 6 + rng.Intn(34)
	var cls []byte
	for len(cls) < n {
		switch x := rng.Intn(20); {
		case x < 8: // a word, now and then with a glued prefix (opening punctuation, no-break space)
			if y := rng.Intn(12); y < 2 {
				cls = append(cls, "OG"[y])
			}
			for k := 1 + rng.Intn(9); k > 0; k-- {
				if z := rng.Intn(12); z < 2 {
					cls = append(cls, 'M')
				} else if z == 2 {
					cls = append(cls, 'D')
				} else {
					cls = append(cls, 'L')
				}
			}
		case x < 12:
			for k := 1 + rng.Intn(3); k > 0; k-- {
				cls = append(cls, 'S')
			}
		case x < 14:
			for k := 1 + rng.Intn(3); k > 0; k-- {
				cls = append(cls, 'H')
			}
		case x < 16:
			for k := 1 + rng.Intn(2); k > 0; k-- {
				cls = append(cls, 'N')
			}
			if rng.Intn(3) == 0 { // a number with a sign right behind the break
				cls = append(cls, 'H')
				for k := 1 + rng.Intn(3); k > 0; k-- {
					cls = append(cls, 'D')
				}
			}
		case x < 18:
			for k := 1 + rng.Intn(4); k > 0; k-- {
				cls = append(cls, "WWWCPE"[rng.Intn(6)])
			}
		case x < 19:
			cls = append(cls, "CPEAOG"[rng.Intn(6)])
		default:
			cls = append(cls, 'R')
		}
	}
	var ws []int
	if kind == "hard" {
		ws = []int{Inf}
	} else {
		ws = []int{1 + rng.Intn(4), 3 + rng.Intn(6), 6 + rng.Intn(12)}
		if rng.Intn(8) == 0 {
			ws = append(ws, 0)
		}
	}
	sc := FromClasses(kind, "rand", string(cls), ws)
	if kind != "plain" {
		for i := range sc.Text {
			if rng.Intn(3) == 0 {
				sc.Text[i].St = rng.Intn(4)
			} else if i > 0 {
				sc.Text[i].St = sc.Text[i-1].St
			}
			if i > 0 && rng.Intn(10) == 0 {
				sc.Cut = append(sc.Cut, i)
			}
		}
	}
	return sc
}

// Corners are hand-written texts for the intricate cases the property names.
func Corners() []*Scn {
	texts := []string{
		"",
		"foo bar", "foo         bar", " foo\n bar", "longwordwithnobreaks", "each line\nfits",
		"b aaa---", "x foo-bar baz", "ab cdefgh", "ab  cdefgh ij", // long word after a partly filled line
		"abc  ", "abc   def", "ab c", "a b c d e f", // trailing space that does not fit
		"\n", "\n\n", "\nabc", "\n\nabc\n\n", "a\n\nb", "a \n b", "abc\n", " \n ", "a\n \nb", // leading / consecutive breaks
		"a\r\nb", "\r\n\r\nab", "ab\r\n",
		"世界日本語", "a世界b", "ab 世界。", "a。。。", "日本。。", "x 世。！", "ちょっと待って", "a 👍🏽👍🏽 b",
		"á b́ ć", "áb́ćd́ e", "éééé",
		"a-b-c-d", "---", "a - b", "well-known fact", "--a", "a--",
		"   ", " a", "a ", "  ab  cd  ",
		"字👍🏽界", "g字👍🏽界。ab", "🇩🇪🇩🇪🇩🇪 x", // clusters that a stale segmentation state tears apart
		"The quick brown fox jumps over the lazy dog", "supercalifragilisticexpialidocious is a word",
		"（ab", "xy \u00a0ab", "（（ab", "a（bc）d", "ab\u00a0cd", "\u00a0ab\u00a0cd", "« ab »", "(ab) [cd]", "（abc（de", // glued prefixes: a cut of the segment must not split the letters
		"\u0301ab", "a\n\u0301b", "\u0301", "a\u200bb", // clusters of width 0 at the start of a line or on their own
		"世\nb", "世 b", "世\n\nb", "a世\nb", // a grapheme wider than the line before a break
		"a\n-1", "total:\n-5 degrees", "ab\r\n-1", "x\n\n-2", "\n-1", "a \n-1 b", "世\n-1", "-1\n-2\n-3", "a\n- 1", "a\n--1", // a hard break in front of a hyphen and a digit
		"a -1", "ab-12 cd", "ab1cd", "x 1-2-3 y", "12 345 6789", "a\n1", "a\n\n\n-1\n", // digits elsewhere
	}
	var out []*Scn
	for _, t := range texts {
		for _, k := range []string{"plain", "rich", "hard"} {
			sc := &Scn{Kind: k, Gen: "corner", Widths: append(seqInts(0, 12), 100, 65535)}
			if k == "hard" {
				sc.Widths = []int{Inf}
			}
			for i, f := range Facts(t) {
				st := 0
				if k != "plain" {
					st = (i / 2) % 4
				}
				sc.Text = append(sc.Text, GD{S: f.G, St: st})
			}
			out = append(out, sc)
		}
	}
	return out
}
