package main

import (
	"encoding/json"
	"fmt"
	"math/rand"
	"os"
	"path/filepath"
	"sync"

	"verif/harness/drivers/c16"
	"verif/harness/trace"
)

func init() { drivers["c16"] = runC16 }

func runC16(o opts) error {
	ctx := &c16.Ctx{G: trace.NewInterner(" ")}
	var scns []*c16.Scn
	if o.extra == "dump" {
		ctx.Dump = func(f string, a ...any) { fmt.Fprintf(os.Stderr, f, a...) }
	}
	if o.replay != "" {
		l, err := trace.LoadReplay[c16.Scn](o.replay)
		if err != nil {
			return err
		}
		scns = l
		if o.shards > len(scns) {
			o.shards = len(scns)
		}
	} else {
		rng := rand.New(rand.NewSource(o.seed))
		all := []string{"plain", "rich", "hard"}
		if o.tier == "thorough" {
			scns = append(scns, c16.Exhaustive("LMSHNWC", 0, 5, 8, []string{"plain", "rich"})...)
			scns = append(scns, c16.Exhaustive("LSHNWC", 6, 6, 6, []string{"plain", "rich"})...)
			scns = append(scns, c16.Exhaustive("LSHNWC", 0, 5, 8, []string{"hard"})...)
			scns = append(scns, c16.Exhaustive("LSHNA", 1, 5, 6, []string{"rich", "hard"})...)   // with isolated accents
			scns = append(scns, c16.Exhaustive("LSNOGW", 1, 5, 7, []string{"plain", "rich"})...) // with glue: opening punctuation, no-break space
			scns = append(scns, c16.Exhaustive("LSHNDW", 1, 5, 6, all)...)                       // with digits: a hyphen and a digit stay together (LB25)
		} else {
			scns = append(scns, c16.Exhaustive("LMSHNWC", 0, 4, 7, all)...)
			scns = append(scns, c16.Exhaustive("LSNA", 1, 4, 5, []string{"rich", "hard"})...)  // with isolated accents (cells are clusters)
			scns = append(scns, c16.Exhaustive("LSOG", 1, 4, 6, []string{"plain", "rich"})...) // with glue: opening punctuation, no-break space
			scns = append(scns, c16.Exhaustive("LSHND", 1, 4, 4, all)...)                      // with digits: a hyphen and a digit stay together (LB25)
		}
		nrand := 900
		if o.tier == "thorough" {
			nrand = 15000
		}
		for i := 0; i < nrand; i++ {
			scns = append(scns, c16.Random(rng, all[i%3]))
		}
		scns = append(scns, c16.Corners()...)
		scns = append(scns, c16.Giants()...)
	}
	sink, err := trace.NewSink(o.out, o.shards)
	if err != nil {
		return err
	}
	var wg sync.WaitGroup
	type job struct {
		i  int
		sc *c16.Scn
	}
	ch := make(chan job)
	for w := 0; w < 16; w++ {
		wg.Add(1)
		go func() {
			defer wg.Done()
			for j := range ch {
				evs, note := c16.Run(ctx, j.sc)
				sink.Put(&trace.Scenario{Ord: j.i, Desc: j.sc, Note: note, Events: evs, Sig: j.sc.Kind + ":" + j.sc.Gen})
			}
		}()
	}
	for i, sc := range scns {
		ch <- job{i, sc}
	}
	close(ch)
	wg.Wait()
	b, _ := json.Marshal(map[string]any{"graphemes": ctx.G.Table(), "unstable": ctx.Unstable.Load(), "hangs": ctx.Hangs.Load()})
	os.WriteFile(filepath.Join(o.out, "tables.json"), b, 0o644)
	return sink.Close()
}
