package main

import (
	"encoding/json"
	"fmt"
	"math/rand"
	"os"
	"sort"
	"strconv"
	"strings"
	"sync"
	"syscall"
	"time"

	"verif/harness/drivers/c05"
	"verif/harness/trace"
)

func init() {
	drivers["c05"] = runC05
	// resizes racing with child output can corrupt memory and kill the process: such scenarios run in children
	// ... and so do scenarios with a deadline: a sequence that does not return cannot be interrupted, the
	// process that ran it is replaced
	drivers["c05child"] = c05Child
}

// c05Child is childLoop with one addition: after a scenario that ended in a hang the result line is
// written and the process replaces itself (same pid, so the parent notices nothing) to continue with the
// next scenario without the goroutine that is still spinning.
func c05Child(o opts) error {
	i := strings.LastIndexByte(o.extra, ':')
	start, _ := strconv.Atoi(o.extra[i+1:])
	b, err := os.ReadFile(o.extra[:i])
	if err != nil {
		return err
	}
	var list []*c05.Scn
	if err := json.Unmarshal(b, &list); err != nil {
		return err
	}
	f, err := os.OpenFile(o.out, os.O_APPEND|os.O_CREATE|os.O_WRONLY, 0o644)
	if err != nil {
		return err
	}
	defer f.Close()
	for k := start; k < len(list); k++ {
		sc := list[k]
		var res concRes
		if sc.Conc != nil {
			res.Events, res.Note = c05.RunConc(sc)
		} else {
			res.Events, res.Note = c05.Run(sc, time.Duration(sc.Deadline)*time.Millisecond)
		}
		line, _ := json.Marshal(&res)
		f.Write(append(line, '\n'))
		f.Sync()
		if strings.HasPrefix(res.Note, "hang") && k+1 < len(list) {
			self, _ := os.Executable()
			f.Close()
			return syscall.Exec(self, []string{self, "c05child", "-out", o.out, "-x", fmt.Sprintf("%s:%d", o.extra[:i], k+1)}, os.Environ())
		}
	}
	return nil
}

type concRes struct {
	Events []trace.Ev
	Note   string
}

// runC05: -x selects the family: "state" = grammar + fuzz + fixed scenarios + sixel strings (the latter in
// child processes with a deadline per sequence; "sixel" = those alone),
// "ex" = bounded-exhaustive sequences on screens up to 3x3 (both EmuSafe_Trace), "draw" = drawing into host windows
// (EmuDraw_Trace), "stall" = event floods, and resizes concurrent with child output, on the real PTY
// goroutine (EmuSafe_Trace). A replay descriptor selects its family by its fields.
func runC05(o opts) error {
	g, l := trace.NewInterner(" "), trace.NewInterner("")
	sink, err := trace.NewSink(o.out, o.shards)
	if err != nil {
		return err
	}
	thorough := o.tier == "thorough"
	var scns []*c05.Scn
	if o.replay != "" {
		scns, err = trace.LoadReplay[c05.Scn](o.replay)
		if err != nil {
			return err
		}
	} else {
		for _, fam := range strings.Split(o.extra, "+") { // families can be combined: state+ex
			famSeed := o.seed
			if strings.HasPrefix(fam, "state:") { // state:k = k-th batch of the state family
				k, _ := strconv.Atoi(fam[6:])
				famSeed = o.seed*1000 + int64(k)
				fam = "state"
			}
			rng := rand.New(rand.NewSource(famSeed))
			switch fam {
			case "state":
				scns = append(scns, c05.Fixed()...)
				ng, nf, fb := 500, 40, 5000 // grammar scenarios, fuzz scenarios, bytes per fuzz scenario
				if thorough {
					ng, nf, fb = 12000, 400, 10000
				}
				for i := 0; i < ng; i++ {
					scns = append(scns, c05.GenGrammar(rng, 20+rng.Intn(60), i%2 == 0))
				}
				for i := 0; i < nf; i++ {
					scns = append(scns, c05.GenFuzz(rng, fb))
				}
				// sixel strings: every boundary / huge number in every place, and random pictures (own generator,
				// see above; run in child processes with a per-sequence deadline)
				scns = append(scns, c05.SixelFixed()...)
				rng3 := rand.New(rand.NewSource(famSeed*104729 + 5))
				for i := 0; i < ng*4/5; i++ {
					scns = append(scns, c05.GenSixel(rng3))
				}
				// resize histories on the alternate screen (own generator so that the scenarios above keep their seeds)
				rng2 := rand.New(rand.NewSource(famSeed*7919 + 17))
				for i := 0; i < ng/2; i++ {
					scns = append(scns, c05.GenAltResize(rng2))
				}
			case "sixel": // the sixel part of the state family alone (development)
				scns = append(scns, c05.SixelFixed()...)
				n := 400
				if thorough {
					n = 9600
				}
				for i := 0; i < n; i++ {
					scns = append(scns, c05.GenSixel(rng))
				}
			case "ex":
				// bounded-exhaustive: depth 1 from every start state on every size up to 3x3; depth 2
				// on the sizes / start states of the tier
				add := func(sc *c05.Scn) { scns = append(scns, sc) }
				// every sequence of 2 (and 3) resizes on the alternate screen over all sizes up to 3x3
				for rows := 1; rows <= 3; rows++ {
					for cols := 1; cols <= 3; cols++ {
						c05.AltResizes(rows, cols, 3, 3, 2, add)
						if rows >= 2 {
							c05.AltResizes(rows, cols, 3, 3, 3, add)
						}
					}
				}
				for rows := 1; rows <= 3; rows++ {
					for cols := 1; cols <= 3; cols++ {
						alpha := c05.ExAlphabet(rows, cols, 3, 3, false)
						red := c05.ExAlphabet(rows, cols, 3, 3, true)
						pres := c05.ExPrefixes(rows, cols)
						var names []string
						for pn := range pres {
							names = append(names, pn)
						}
						sort.Strings(names)
						for _, pn := range names {
							pre := pres[pn]
							c05.Exhaustive(rows, cols, pn, pre, alpha, 1, add)
							switch {
							case thorough && pn == "fresh" && (rows == cols || (rows == 2 && cols == 3)):
								c05.Exhaustive(rows, cols, pn, pre, alpha, 2, add)
							case thorough && pn == "fresh", rows == cols && rows >= 2 && (thorough || pn == "fresh"):
								c05.Exhaustive(rows, cols, pn, pre, red, 2, add)
							}
						}
					}
				}
			case "draw":
				n := 300
				if thorough {
					n = 6000
				}
				for i := 0; i < n; i++ {
					scns = append(scns, c05.GenDraw(rng))
				}
			case "stall":
				scns = append(scns, c05.StallScenarios(thorough)...)
				scns = append(scns, c05.ConcScenarios(thorough)...)
			}
		}
	}
	if o.extra == "selftest" {
		// binding self-test: a good trace and two copies with one recorded field
		// corrupted (cursor row = number of rows; a row one cell too long)
		for k := 0; k < 3; k++ {
			sc := c05.Fixed()[0]
			evs, _ := c05.Run(sc, 15*time.Second)
			last := evs[len(evs)-1]["o"].(map[string]any)
			switch k {
			case 1:
				last["r"] = sc.Rows
			case 2:
				last["ws"] = []int{sc.Cols, sc.Cols + 1}
			}
			sink.Put(&trace.Scenario{Ord: k, Desc: sc, Events: evs, Sig: "selftest"})
		}
		return sink.Close()
	}
	var wg sync.WaitGroup
	type job struct {
		i  int
		sc *c05.Scn
	}
	ch := make(chan job)
	workers := 16
	if o.extra == "stall" {
		workers = 4
	}
	for w := 0; w < workers; w++ {
		wg.Add(1)
		go func() {
			defer wg.Done()
			for j := range ch {
				var evs []trace.Ev
				var note string
				switch {
				case j.sc.Stall != nil:
					evs, note = c05.RunStall(j.sc)
				case j.sc.Draw != nil:
					evs, note = c05.RunDraw(g, l, j.sc)
				default:
					evs, note = c05.Run(j.sc, 15*time.Second)
				}
				sink.Put(&trace.Scenario{Ord: j.i, Desc: j.sc, Note: note, Events: evs, Sig: j.sc.Kind})
			}
		}()
	}
	var conc []*c05.Scn
	var concAt []int
	for i, sc := range scns {
		if sc.Conc != nil || sc.Deadline > 0 {
			conc, concAt = append(conc, sc), append(concAt, i)
			continue
		}
		ch <- job{i, sc}
	}
	close(ch)
	wg.Wait()
	if len(conc) > 0 {
		raw := runChildren("c05child", o.out, conc, func(i int, msg string) any {
			if sc := conc[i]; sc.Conc == nil {
				// the process died while it ran a scenario with a deadline (a fatal error of the runtime, such as
				// memory exhausted, is not a panic that can be recovered): which sequence it was is not known
				return &concRes{Note: msg, Events: []trace.Ev{{"ev": "reset", "rows": sc.Rows, "cols": sc.Cols, "o": c05.FreshObs(sc.Cols, sc.Rows)},
					{"ev": "panic", "k": "process", "msg": c05.Ascii("process died: "+msg, 120)}}}
			}
			return &concRes{Note: msg, Events: []trace.Ev{{"ev": "reset", "rows": 4, "cols": 20, "o": c05.FreshObs(20, 4)},
				c05.ConcEv(conc[i].Conc.N, false, 1, "process died: "+msg)}}
		})
		for k, sc := range conc {
			var r concRes
			if raw[k] == nil || json.Unmarshal(raw[k], &r) != nil || len(r.Events) == 0 {
				return fmt.Errorf("no result from the child process for scenario %d", concAt[k])
			}
			sink.Put(&trace.Scenario{Ord: concAt[k], Desc: sc, Note: r.Note, Events: r.Events, Sig: sc.Kind})
		}
	}
	writeTables(o.out, g, l)
	return sink.Close()
}
