package main

import (
	"encoding/json"
	"fmt"
	"math/rand"
	"os"
	"sync"

	"verif/harness/drivers/c04"
	"verif/harness/trace"
)

func init() {
	drivers["c04"] = runC04
	drivers["c04child"] = func(o opts) error {
		return childLoop(o, func(sc *c04.Scn) any { return c04.Execute(sc) })
	}
}

func runC04(o opts) error {
	var scns []*c04.Scn
	if o.replay != "" {
		l, err := trace.LoadReplay[c04.Scn](o.replay)
		if err != nil {
			return err
		}
		scns = l
	} else {
		rng := rand.New(rand.NewSource(o.seed))
		var cfgs, crashCfgs, envCfgs []int
		if o.tier == "thorough" {
			for n := 0; n < 1024; n++ {
				cfgs = append(cfgs, n)
				if n%4 == int(o.seed)%4 {
					crashCfgs = append(crashCfgs, n)
				}
				if n < 256 {
					envCfgs = append(envCfgs, n)
				}
			}
		} else {
			cfgs = []int{0, 1023, 255, 256, 512}
			for len(cfgs) < 48 {
				cfgs = append(cfgs, rng.Intn(1024))
			}
			crashCfgs = []int{0, 255, 1023}
			for len(crashCfgs) < 10 {
				crashCfgs = append(crashCfgs, rng.Intn(1024))
			}
			// Unicode core alone, with explicit width, everything, nothing
			envCfgs = []int{2, 2 | 128, 255, 0, 127, 2 | 512}
			for len(envCfgs) < 10 {
				envCfgs = append(envCfgs, rng.Intn(1024))
			}
		}
		scns = append(scns, c04.Gen(cfgs, false)...)
		scns = append(scns, c04.Gen(crashCfgs, true)...)
		scns = append(scns, c04.GenEnv(envCfgs)...)
	}
	sink, err := trace.NewSink(o.out, o.shards)
	if err != nil {
		return err
	}
	g, ln := trace.NewInterner(" "), trace.NewInterner("")
	var inproc, child []*c04.Scn
	var childIdx []int
	for i, sc := range scns {
		if sc.NeedsChild() {
			sc.ConLog = fmt.Sprintf("%s/conlog-%d.txt", o.out, i)
			child = append(child, sc)
			childIdx = append(childIdx, i)
		} else {
			sc.ConLog = ""
			inproc = append(inproc, sc)
		}
	}
	// in-process sessions in parallel
	var wg sync.WaitGroup
	ch := make(chan int)
	for w := 0; w < 16; w++ {
		wg.Add(1)
		go func() {
			defer wg.Done()
			for i := range ch {
				sc := scns[i]
				r := c04.Execute(sc)
				sink.Put(&trace.Scenario{Ord: i, Desc: sc, Note: r.Note, Sig: sc.Kind, Events: c04.Events(sc, r.Log, "", g, ln)})
			}
		}()
	}
	for i, sc := range scns {
		if !sc.NeedsChild() {
			ch <- i
		}
	}
	close(ch)
	wg.Wait()
	// crashing sessions in child processes
	died := map[int]string{}
	var dmu sync.Mutex
	raw := runChildren("c04child", o.out, child, func(i int, msg string) any {
		dmu.Lock()
		died[i] = msg
		dmu.Unlock()
		return &c04.Result{Note: "died: " + msg}
	})
	for k, sc := range child {
		var r c04.Result
		if raw[k] != nil {
			json.Unmarshal(raw[k], &r)
		}
		b, _ := os.ReadFile(sc.ConLog)
		os.Remove(sc.ConLog)
		path := sc.ConLog
		sc.ConLog = ""
		_ = path
		sink.Put(&trace.Scenario{Ord: childIdx[k], Desc: sc, Note: r.Note, Sig: sc.Kind, Events: c04.Events(sc, string(b), died[k], g, ln)})
	}
	return sink.Close()
}
