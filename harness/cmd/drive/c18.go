package main

import (
	"encoding/json"
	"fmt"
	"math/rand"
	"os"
	"path/filepath"
	"sync"

	"verif/harness/drivers/c18"
	"verif/harness/trace"
)

func init() { drivers["c18"] = runC18 }

func runC18(o opts) error {
	ctx := &c18.Ctx{G: trace.NewInterner(" "), L: trace.NewInterner(""), Cov: c18.NewCov()}
	defer ctx.Close()
	if o.extra == "dump" {
		ctx.Dump = func(f string, a ...any) { fmt.Fprintf(os.Stderr, f, a...) }
	}
	var scns []*c18.Scn
	if o.replay != "" {
		l, err := trace.LoadReplay[c18.Scn](o.replay)
		if err != nil {
			return err
		}
		scns = l
		if len(l) == 1 {
			o.shards = 1
		}
	} else {
		scns = c18.Generate(rand.New(rand.NewSource(o.seed)), o.tier == "thorough")
	}
	sink, err := trace.NewSink(o.out, o.shards)
	if err != nil {
		return err
	}
	type job struct {
		i  int
		sc *c18.Scn
	}
	// stalled: the scenarios that hold the library's string parser up through the process-wide hook; they run
	// one at a time, after the others (no other parser is at work then)
	phase := func(legacy, stalled bool) {
		var wg sync.WaitGroup
		ch := make(chan job)
		workers := 16
		if stalled {
			workers = 1
		}
		for w := 0; w < workers; w++ {
			wg.Add(1)
			go func() {
				defer wg.Done()
				for j := range ch {
					evs, note := c18.Run(ctx, j.sc)
					sink.Put(&trace.Scenario{Ord: j.i, Desc: j.sc, Note: note, Events: evs, Sig: j.sc.Kind})
				}
			}()
		}
		for i, sc := range scns {
			if sc.Legacy == legacy && (sc.Stall > 0) == stalled {
				ch <- job{i, sc}
			}
		}
		close(ch)
		wg.Wait()
	}
	// The legacy-SGR quirk rewrites package state for good, so those scenarios run last.
	phase(false, false)
	phase(false, true)
	for _, sc := range scns {
		if sc.Legacy {
			if err := c18.EnterLegacy(); err != nil {
				return err
			}
			ctx.DropSessions()
			phase(true, false)
			break
		}
	}
	b, _ := json.Marshal(map[string]any{"graphemes": ctx.G.Table(), "links": ctx.L.Table()})
	os.WriteFile(filepath.Join(o.out, "tables.json"), b, 0o644)
	b, _ = json.Marshal(ctx.Cov.Report())
	os.WriteFile(filepath.Join(o.out, "coverage.json"), b, 0o644)
	return sink.Close()
}
