package main

import (
	"fmt"
	"math/rand"
	"os"
	"sync"

	"verif/harness/drivers/c14"
	"verif/harness/trace"
)

func init() { drivers["c14"] = runC14 }

func runC14(o opts) error {
	ctx := &c14.Ctx{G: trace.NewInterner(" "), L: trace.NewInterner("")}
	if o.extra == "dump" {
		ctx.Dump = func(f string, a ...any) { fmt.Fprintf(os.Stderr, f, a...) }
		c14.Stacks = func(v any, st []byte) { fmt.Fprintf(os.Stderr, "panic: %v\n%s\n", v, st) }
	}
	var scns []*c14.Scn
	if o.replay != "" {
		l, err := trace.LoadReplay[c14.Scn](o.replay)
		if err != nil {
			return err
		}
		scns = l
		if o.shards > len(l) {
			o.shards = len(l)
		}
	} else {
		rng := rand.New(rand.NewSource(o.seed))
		th := o.tier == "thorough"
		scns = append(scns, c14.GenSurf(rng, th)...)
		scns = append(scns, c14.GenDraw(rng, th)...)
		scns = append(scns, c14.GenPaintSmall(rng)...)
		scns = append(scns, c14.PaintFixed()...)
		scns = append(scns, c14.PaintWideFixed()...)
		scns = append(scns, c14.GenPaintWide(rng, th)...)
		n := 250
		if th {
			n = 6000
		}
		scns = append(scns, c14.GenPaintRandom(rng, n)...)
	}
	sink, err := trace.NewSink(o.out, o.shards)
	if err != nil {
		return err
	}
	type job struct {
		i  int
		sc *c14.Scn
	}
	var wg sync.WaitGroup
	ch := make(chan job)
	for w := 0; w < 16; w++ {
		wg.Add(1)
		go func() {
			defer wg.Done()
			for j := range ch {
				evs, note := c14.Run(ctx, j.sc)
				sig := j.sc.Kind
				if j.sc.Widget != nil {
					sig += ":" + j.sc.Widget.Sig()
				}
				sink.Put(&trace.Scenario{Ord: j.i, Desc: j.sc, Note: note, Events: evs, Sig: sig})
			}
		}()
	}
	for i, sc := range scns {
		ch <- job{i, sc}
	}
	close(ch)
	wg.Wait()
	writeTables(o.out, ctx.G, ctx.L)
	return sink.Close()
}
