package main

import (
	"verif/harness/drivers/c13"
	"verif/harness/trace"
)

func init() { drivers["c13r"] = runC13R }

func runC13R(o opts) error {
	var scns []*c13.RScn
	if o.replay != "" {
		l, err := trace.LoadReplay[c13.RScn](o.replay)
		if err != nil {
			return err
		}
		scns = l
		if len(scns) < o.shards {
			o.shards = len(scns)
		}
	} else {
		scns = c13.GenReplies(o.seed, o.tier == "thorough")
	}
	sink, err := trace.NewSink(o.out, o.shards)
	if err != nil {
		return err
	}
	for i, sc := range scns {
		evs, note := c13.RunReplies(sc)
		sink.Put(&trace.Scenario{Ord: i, Desc: sc, Note: note, Events: evs, Sig: sc.Kind})
	}
	return sink.Close()
}
