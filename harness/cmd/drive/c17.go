package main

import (
	"encoding/json"
	"fmt"
	"math/rand"
	"os"
	"path/filepath"
	"sync"

	"git.sr.ht/~rockorager/vaxis"

	"verif/harness/drivers/c17"
	"verif/harness/trace"
)

func init() { drivers["c17"] = runC17 }

func runC17(o opts) error {
	ctx := &c17.Ctx{}
	var scns []*c17.Scn
	if o.extra == "dump" {
		ctx.Dump = func(f string, a ...any) { fmt.Fprintf(os.Stderr, f, a...) }
	}
	if o.replay != "" {
		l, err := trace.LoadReplay[c17.Scn](o.replay)
		if err != nil {
			return err
		}
		scns = l
		if o.shards > len(scns) {
			o.shards = len(scns)
		}
	} else {
		rng := rand.New(rand.NewSource(o.seed))
		n, nrand, rlen := 2, 300, 120
		if o.tier == "thorough" {
			n, nrand, rlen = 4, 6000, 200
		}
		for _, wd := range []string{"textfield", "textinput"} {
			for k := 1; k <= n; k++ {
				scns = append(scns, c17.Exhaustive(wd, k)...)
			}
			scns = append(scns, c17.Prefixed(wd, n/2)...)
			for i := 0; i < nrand; i++ {
				sc := c17.Random(rng, wd, rlen/2+rng.Intn(rlen))
				if i%3 == 1 { // typed with Caps Lock and / or Num Lock on (kitty keyboard protocol: lock bits in every key)
					sc.Locks = []int{int(vaxis.ModCapsLock), int(vaxis.ModNumLock), int(vaxis.ModCapsLock | vaxis.ModNumLock)}[i/3%3]
					sc.Gen += "+locks"
				}
				scns = append(scns, sc)
			}
			for _, sc := range c17.Exhaustive(wd, 1) {
				sc.Locks = int(vaxis.ModCapsLock | vaxis.ModNumLock)
				sc.Gen += "+locks"
				scns = append(scns, sc)
			}
		}
		scns = append(scns, c17.Corners()...)
	}
	sink, err := trace.NewSink(o.out, o.shards)
	if err != nil {
		return err
	}
	var wg sync.WaitGroup
	type job struct {
		i  int
		sc *c17.Scn
	}
	ch := make(chan job)
	var werr error
	for w := 0; w < 16; w++ {
		wg.Add(1)
		go func() {
			defer wg.Done()
			wk, err := c17.NewWorker()
			if err != nil {
				werr = err
			}
			for j := range ch {
				if wk == nil {
					continue
				}
				evs, note := c17.Run(ctx, wk, j.sc)
				sink.Put(&trace.Scenario{Ord: j.i, Desc: j.sc, Note: note, Events: evs, Sig: j.sc.Widget + ":" + j.sc.Gen})
			}
		}()
	}
	for i, sc := range scns {
		ch <- job{i, sc}
	}
	close(ch)
	wg.Wait()
	if werr != nil {
		return werr
	}
	b, _ := json.Marshal(map[string]any{"hangs": ctx.Hangs.Load()})
	os.WriteFile(filepath.Join(o.out, "tables.json"), b, 0o644)
	return sink.Close()
}
