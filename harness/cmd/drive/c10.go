package main

import (
	"encoding/json"
	"math/rand"
	"strings"

	"verif/harness/drivers/c10"
	"verif/harness/trace"
)

func init() {
	drivers["c10"] = runC10
	drivers["c10child"] = func(o opts) error {
		return childLoop(o, func(sc *c10.Scn) any { return c10.Execute(sc) })
	}
}

func runC10(o opts) error {
	var scns []*c10.Scn
	if o.replay != "" {
		l, err := trace.LoadReplay[c10.Scn](o.replay)
		if err != nil {
			return err
		}
		scns = l
	} else {
		rng := rand.New(rand.NewSource(o.seed))
		n := 200
		if o.tier == "thorough" {
			n = 6000
		}
		scns = append(scns, c10.Fixed()...)
		for i := 0; i < n; i++ {
			scns = append(scns, c10.Gen(rng))
		}
		// query and spinner scenarios come from a generator of their own (the stream above stays what it was)
		rng2 := rand.New(rand.NewSource(o.seed*7919 + 1))
		for i := 0; i < n/10; i++ {
			scns = append(scns, c10.GenQuery(rng2))
		}
		for i := 0; i < n/40; i++ {
			scns = append(scns, c10.GenSpin(rng2))
		}
		// Suspend beside a full event queue: again a generator of its own
		rng3 := rand.New(rand.NewSource(o.seed*104729 + 3))
		for i := 0; i < n/20; i++ {
			scns = append(scns, c10.GenSuspend(rng3))
		}
	}
	sink, err := trace.NewSink(o.out, o.shards)
	if err != nil {
		return err
	}
	raw := runChildren("c10child", o.out, scns, func(i int, msg string) any {
		r := c10.NewResult()
		if strings.HasPrefix(msg, "race:") {
			r.Race = msg
		} else {
			r.Panic = msg
		}
		return r
	}, "GORACE=halt_on_error=1")
	for i, sc := range scns {
		var r c10.Result
		if raw[i] == nil || json.Unmarshal(raw[i], &r) != nil {
			r = c10.Result{What: "no result from child"}
		}
		if r.Leaked == nil {
			r.Leaked = []string{}
		}
		if r.Stuck == nil {
			r.Stuck = []string{}
		}
		if r.Orders == nil {
			r.Orders = [][]int{}
		}
		if r.RWant == nil {
			r.RWant, r.RGot = []int{}, []int{}
		}
		if r.BSent == nil {
			r.BSent, r.BGot = []int{}, []int{}
		}
		if r.Queries == nil {
			r.Queries = []c10.QObs{}
		}
		if r.SLeaked == nil {
			r.SLeaked = []string{}
		}
		ev := trace.Ev{"ev": "run", "returned": r.Returned, "what": r.What, "leaked": r.Leaked, "stuck": r.Stuck,
			"orders": r.Orders, "bsent": r.BSent, "bgot": r.BGot, "panic": r.Panic, "race": r.Race, "rwant": r.RWant, "rgot": r.RGot, "queries": r.Queries, "sleaked": r.SLeaked, "end": sc.End}
		sink.Put(&trace.Scenario{Ord: i, Desc: sc, Note: r.Panic + r.Race + r.What, Sig: sc.Kind, Events: []trace.Ev{{"ev": "reset"}, ev}})
	}
	return sink.Close()
}
