package main

import (
	"encoding/json"
	"fmt"
	"os"
	"path/filepath"
	"sync"

	"verif/harness/drivers/c09"
	"verif/harness/trace"
)

func init() { drivers["c09"] = runC09 }

func runC09(o opts) error {
	ctx := &c09.Ctx{S: trace.NewInterner("")}
	if o.extra == "dump" {
		ctx.Dump = func(f string, a ...any) { fmt.Fprintf(os.Stderr, f, a...) }
	}
	var scns []*c09.Scn
	if o.replay != "" {
		l, err := trace.LoadReplay[c09.Scn](o.replay)
		if err != nil {
			return err
		}
		scns = l
		if len(scns) < o.shards {
			o.shards = len(scns)
		}
	} else {
		scns = c09.Generate(o.seed, o.tier == "thorough")
	}
	sink, err := trace.NewSink(o.out, o.shards)
	if err != nil {
		return err
	}
	type job struct {
		i  int
		sc *c09.Scn
	}
	ch := make(chan job)
	var wg sync.WaitGroup
	for w := 0; w < 16; w++ {
		wg.Add(1)
		go func() {
			defer wg.Done()
			for j := range ch {
				evs, note := c09.Run(ctx, j.sc)
				sink.Put(&trace.Scenario{Ord: j.i, Desc: j.sc, Note: note, Events: evs, Sig: j.sc.Kind})
			}
		}()
	}
	for i, sc := range scns {
		ch <- job{i, sc}
	}
	close(ch)
	wg.Wait()
	b, _ := json.Marshal(map[string]any{"strings": ctx.S.Table(), "counts": map[string]int64{
		"keys": ctx.NKeys, "match": ctx.NMatch, "mstr": ctx.NMStr, "self": ctx.NSelf, "xp": ctx.NXP, "xpmatch": ctx.NXPMatch, "retries": ctx.NRetry, "restarts": ctx.NRestart}})
	os.WriteFile(filepath.Join(o.out, "tables.json"), b, 0o644)
	return sink.Close()
}
