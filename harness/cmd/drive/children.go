package main

import (
	"bufio"
	"bytes"
	"encoding/json"
	"fmt"
	"os"
	"os/exec"
	"strconv"
	"strings"
	"sync"
)

// Child-process execution: scenarios whose failure mode is the death of the
// process (a panic in a library goroutine) are executed in batches by child
// processes "drive <child> -x <listfile>:<start> -out <resultfile>"; the
// child appends one JSON result line per scenario. When a child dies the
// scenario it was executing gets a synthesized result carrying the panic
// message and a new child continues with the next one.

// childLoop is the child's side: decode the list, run from start.
func childLoop[T any](o opts, run func(*T) any) error {
	i := strings.LastIndexByte(o.extra, ':')
	start, _ := strconv.Atoi(o.extra[i+1:])
	b, err := os.ReadFile(o.extra[:i])
	if err != nil {
		return err
	}
	var list []*T
	if err := json.Unmarshal(b, &list); err != nil {
		return err
	}
	f, err := os.OpenFile(o.out, os.O_APPEND|os.O_CREATE|os.O_WRONLY, 0o644)
	if err != nil {
		return err
	}
	defer f.Close()
	for k := start; k < len(list); k++ {
		line, _ := json.Marshal(run(list[k]))
		f.Write(append(line, '\n'))
		f.Sync()
	}
	return nil
}

// raceLine summarises a race-detector report: the first frame of each of the two accesses.
func raceLine(msg string) string {
	var fr []string
	lines := strings.Split(msg, "\n")
	for i, l := range lines {
		t := strings.TrimSpace(l)
		if (strings.HasPrefix(t, "Read at") || strings.HasPrefix(t, "Write at") || strings.HasPrefix(t, "Previous read at") ||
			strings.HasPrefix(t, "Previous write at") || strings.HasPrefix(t, "Previous atomic") || strings.HasPrefix(t, "Atomic")) && i+1 < len(lines) {
			f := strings.TrimSpace(lines[i+1])
			f = strings.TrimSuffix(f, "()")
			if k := strings.LastIndexByte(f, '/'); k >= 0 {
				f = f[k+1:]
			}
			fr = append(fr, f)
		}
	}
	out := "race: " + strings.Join(fr, " vs ")
	if shutdownBesideDrawing(msg) {
		out = "race: shutdown-beside-drawing"
	} else if resumeBesideQuery(msg) {
		out = "race: resume-beside-query"
	} else if bl := raceStacks(msg); len(bl) == 2 {
		// a third family: the image encoder's goroutine (started by Sixel.Resize) beside a frame; which of the
		// two accesses the report names first depends on the schedule
		enc := func(b string) bool { return strings.Contains(b, "vaxis.(*Sixel).Resize.func1()") }
		frame := func(b string) bool { return !enc(b) && strings.Contains(b, "vaxis.(*Vaxis).Render()") }
		if enc(bl[0]) && frame(bl[1]) || enc(bl[1]) && frame(bl[0]) {
			out = "race: sixel-encoder-beside-render"
		}
	}
	b := []byte(out)
	for i := range b {
		if b[i] < 0x20 || b[i] > 0x7e || b[i] == '"' || b[i] == '\\' {
			b[i] = '?'
		}
	}
	return string(b)
}

func panicLine(msg string, err error) string {
	if strings.Contains(msg, "WARNING: DATA RACE") {
		return raceLine(msg)
	}
	first := msg
	if i := strings.Index(msg, "panic:"); i >= 0 {
		first = msg[i:]
	} else if i := strings.Index(msg, "fatal error:"); i >= 0 {
		first = msg[i:]
	}
	if j := strings.IndexByte(first, '\n'); j >= 0 {
		first = first[:j]
	}
	if strings.TrimSpace(first) == "" {
		first = "process died: " + err.Error()
	}
	return first
}

// runChildren executes list over W parallel children; died(i, msg) builds
// the result line for a scenario that killed its process. env is added to
// the children's environment.
func runChildren[T any](child, dir string, list []*T, died func(i int, msg string) any, env ...string) []json.RawMessage {
	self, _ := os.Executable()
	const W = 16
	out := make([]json.RawMessage, len(list))
	var wg sync.WaitGroup
	for w := 0; w < W; w++ {
		var idxs []int
		for i := w; i < len(list); i += W {
			idxs = append(idxs, i)
		}
		if len(idxs) == 0 {
			continue
		}
		wg.Add(1)
		go func(w int, idxs []int) {
			defer wg.Done()
			sub := make([]*T, len(idxs))
			for k, i := range idxs {
				sub[k] = list[i]
			}
			lf := fmt.Sprintf("%s/list-%s-%02d.json", dir, child, w)
			rf := fmt.Sprintf("%s/res-%s-%02d.ndjson", dir, child, w)
			b, _ := json.Marshal(sub)
			os.WriteFile(lf, b, 0o644)
			os.Remove(rf)
			var lines []json.RawMessage
			for len(lines) < len(sub) {
				cmd := exec.Command(self, child, "-out", rf, "-x", fmt.Sprintf("%s:%d", lf, len(lines)))
				cmd.Env = append(os.Environ(), env...)
				var stderr bytes.Buffer
				cmd.Stderr = &stderr
				err := cmd.Run()
				lines = lines[:0]
				if f, e := os.Open(rf); e == nil {
					sc := bufio.NewScanner(f)
					sc.Buffer(make([]byte, 1<<20), 1<<28)
					for sc.Scan() {
						lines = append(lines, append(json.RawMessage(nil), sc.Bytes()...))
					}
					f.Close()
				}
				if err != nil && len(lines) < len(sub) {
					line, _ := json.Marshal(died(idxs[len(lines)], panicLine(stderr.String(), err)))
					f, _ := os.OpenFile(rf, os.O_APPEND|os.O_CREATE|os.O_WRONLY, 0o644)
					f.Write(append(line, '\n'))
					f.Close()
					lines = append(lines, line)
				} else if err == nil && len(lines) < len(sub) {
					break // child exited cleanly without finishing: give up on the rest
				}
			}
			for k, i := range idxs {
				if k < len(lines) {
					out[i] = lines[k]
				}
			}
			os.Remove(lf)
			os.Remove(rf)
		}(w, idxs)
	}
	wg.Wait()
	return out
}

// raceStacks returns the two stacks of a race report: the blocks that follow the
// "... at 0x... by goroutine" headers.
func raceStacks(msg string) []string {
	var blocks []string
	cur := -1
	for _, l := range strings.Split(msg, "\n") {
		t := strings.TrimSpace(l)
		switch {
		case strings.Contains(t, " by goroutine ") || strings.Contains(t, " by main goroutine"):
			blocks = append(blocks, "")
			cur = len(blocks) - 1
		case strings.HasPrefix(t, "Goroutine ") || t == "":
			cur = -1
		case cur >= 0:
			blocks[cur] += t + "\n"
		}
	}
	return blocks
}

// shutdownBesideDrawing recognises one family of reports: one access is made on the library's shutdown
// path (Vaxis.close, which the signal handler's goroutine runs too), the other by the application's
// goroutine inside Render, ShowCursor or HideCursor.
func shutdownBesideDrawing(msg string) bool {
	blocks := raceStacks(msg)
	if len(blocks) != 2 {
		return false
	}
	closing := func(b string) bool { return strings.Contains(b, "vaxis.(*Vaxis).close()") }
	drawing := func(b string) bool {
		return !closing(b) && (strings.Contains(b, "vaxis.(*Vaxis).Render()") || strings.Contains(b, "vaxis.(*Vaxis).ShowCursor()") ||
			strings.Contains(b, "vaxis.(*Vaxis).HideCursor()"))
	}
	return closing(blocks[0]) && drawing(blocks[1]) || closing(blocks[1]) && drawing(blocks[0])
}

// resumeBesideQuery recognises a second family: one access is made by Resume while it installs the
// console, writer and parser (Vaxis.openTty called from Vaxis.Resume), the other by another goroutine
// inside one of the calls that talk to the terminal directly (queries, clipboard, title, bell). Which of
// those calls it is depends on the schedule; the family gets one signature.
func resumeBesideQuery(msg string) bool {
	blocks := raceStacks(msg)
	if len(blocks) != 2 {
		return false
	}
	resuming := func(b string) bool {
		return strings.Contains(b, "vaxis.(*Vaxis).openTty()") && strings.Contains(b, "vaxis.(*Vaxis).Resume()")
	}
	asking := func(b string) bool {
		if resuming(b) {
			return false
		}
		for _, f := range []string{"CursorPosition", "QueryColor", "QueryForeground", "QueryBackground", "ClipboardPop", "ClipboardPush",
			"Notify", "SetTitle", "SetAppID", "Bell"} {
			if strings.Contains(b, "vaxis.(*Vaxis)."+f+"()") {
				return true
			}
		}
		return false
	}
	return resuming(blocks[0]) && asking(blocks[1]) || resuming(blocks[1]) && asking(blocks[0])
}
