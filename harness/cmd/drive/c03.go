package main

import (
	"encoding/json"
	"math/rand"

	"verif/harness/drivers/c03"
	"verif/harness/trace"
)

func init() {
	drivers["c03"] = runC03
	drivers["c03child"] = func(o opts) error {
		return childLoop(o, func(sc *c03.Scn) any { return c03.Execute(sc) })
	}
}

func runC03(o opts) error {
	var scns []*c03.Scn
	if o.replay != "" {
		l, err := trace.LoadReplay[c03.Scn](o.replay)
		if err != nil {
			return err
		}
		scns = l
	} else {
		rng := rand.New(rand.NewSource(o.seed))
		ns, nr, nq := 250, 150, 100
		if o.tier == "thorough" {
			ns, nr, nq = 8000, 5000, 3000
		}
		scns = append(scns, c03.Each()...)
		for i := 0; i < ns; i++ {
			scns = append(scns, c03.Stream(rng))
		}
		for i := 0; i < nr; i++ {
			scns = append(scns, c03.Robust(rng))
		}
		for i := 0; i < nq; i++ {
			scns = append(scns, c03.Queries(rng))
		}
		for i := 0; i < nq/5; i++ {
			scns = append(scns, c03.F3AfterTimeout(rng))
		}
		scns = append(scns, c03.QueryCaps(rng)...)
		for i := 0; i < nq/2; i++ {
			scns = append(scns, c03.Backpressure(rng))
		}
		nk := 24
		if o.tier == "thorough" {
			nk = 400
		}
		for i := 0; i < nk; i++ {
			scns = append(scns, c03.EscC0ThenKeys(rng), c03.EscPrefixed(rng), c03.CprTiming(rng), c03.CprTiming(rng))
		}
		for i := 0; i < nk/4; i++ {
			scns = append(scns, c03.EscSosPm(rng))
		}
		scns = append(scns, c03.TypeAheadEach()...)
		scns = append(scns, c03.TypeAheadBehind()...)
		for i := 0; i < 2*nk; i++ {
			scns = append(scns, c03.TypeAhead(rng))
		}
		for i := 0; i < nk; i++ {
			scns = append(scns, c03.SizeReports(rng))
		}
	}
	sink, err := trace.NewSink(o.out, o.shards)
	if err != nil {
		return err
	}
	raw := runChildren("c03child", o.out, scns, func(i int, msg string) any {
		return &c03.Result{Events: []map[string]any{}, Answers: []c03.Answer{}, Panic: msg}
	})
	for i, sc := range scns {
		var r c03.Result
		if raw[i] == nil || json.Unmarshal(raw[i], &r) != nil {
			r = c03.Result{Note: "no result from child", Stalled: true}
		}
		if r.Events == nil {
			r.Events = []map[string]any{}
		}
		if r.Answers == nil {
			r.Answers = []c03.Answer{}
		}
		reports := []map[string]any{}
		all := [][]c03.Report{}
		for _, a := range sc.Ahead { // input during start-up: the first events of the stream
			all = append(all, a.Reports)
		}
		all = append(all, sc.Behind) // typed right behind the reply which ends start-up
		for _, st := range sc.Steps {
			all = append(all, st.Reports)
		}
		for _, rps := range all {
			for _, rp := range rps {
				k := rp.K
				if k == "esckey" {
					k = "key"
				}
				reports = append(reports, map[string]any{"k": k, "code": rp.Code, "pb": rp.Pb, "x": rp.X, "y": rp.Y, "final": rp.Final,
					"mods": rp.ModsP1 - 1, "cls": rp.Cls, "opt": rp.Opt})
			}
		}
		for _, e := range r.Events {
			delete(e, "text")
		}
		ev := trace.Ev{"ev": "run", "reports": reports, "events": r.Events, "answers": r.Answers, "panic": r.Panic,
			"stalled": r.Stalled, "loose": sc.Loose}
		sink.Put(&trace.Scenario{Ord: i, Desc: sc, Note: r.Panic + r.Note, Sig: sc.Kind, Events: []trace.Ev{{"ev": "reset"}, ev}})
	}
	return sink.Close()
}
