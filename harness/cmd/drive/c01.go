package main

import (
	"encoding/json"
	"fmt"
	"math/rand"
	"os"
	"path/filepath"
	"sync"

	"verif/harness/drivers/c01"
	"verif/harness/drivers/c12"
	"verif/harness/trace"
)

func init() { drivers["c01"] = runC01 }

func writeTables(dir string, g, l *trace.Interner) {
	b, _ := json.Marshal(map[string]any{"graphemes": g.Table(), "links": l.Table()})
	os.WriteFile(filepath.Join(dir, "tables.json"), b, 0o644)
}

func runC01(o opts) error {
	ctx := &c01.Ctx{G: trace.NewInterner(" "), L: trace.NewInterner("")}
	var scns []*c01.Scn
	if o.extra == "dump" {
		ctx.Dump = func(f string, a ...any) { fmt.Fprintf(os.Stderr, f, a...) }
	}
	if o.replay != "" {
		l, err := trace.LoadReplay[c01.Scn](o.replay)
		if err != nil {
			return err
		}
		scns = l
		o.shards = 1
	} else {
		rng := rand.New(rand.NewSource(o.seed))
		nrand, nchain := 400, 60
		if o.tier == "thorough" {
			nrand, nchain = 12000, 0
		}
		for i := 0; i < nrand; i++ {
			sc := c01.GenRandom(rng, 2+rng.Intn(5))
			if i%2 == 0 {
				// something else moved, reshaped, hid or showed the terminal's cursor before every
				// Refresh and size change
				sc = c01.WithForeignCursor(rng, sc)
			}
			scns = append(scns, sc)
		}
		scns = append(scns, c01.GenChains(rng, o.tier == "thorough", nchain)...)
		scns = append(scns, c01.Fixed()...)
		// a cell set on a column of a wide character, a wide character set over cells: both orders, in
		// one frame and in two
		pick := 5
		if o.tier == "thorough" {
			pick = 1
		}
		scns = append(scns, c01.GenOverlap(rng, pick)...)
		// neighbouring cells whose texts would form one grapheme cluster (regional indicators, Hangul
		// jamo, Prepend + letter, letter + spacing mark or emoji modifier): a terminal that segments
		// clusters itself - the reference terminal does, for the capability sets that say so - must
		// still show them as the two cells the application set. The histories are C12's family, run
		// here against the reference terminal and under other capability sets as well
		nnb := 30
		if o.tier == "thorough" {
			nnb = 1500
		}
		for i, s := range c12.GenNeighbours(rng, nnb) {
			sc := s.Scn
			sc.Mask = []int{1 << 1, 1<<1 | 1<<6, 1<<1 | 1<<0 | 1<<8, 1<<1 | 1<<14, 1<<15 - 1}[i%5]
			scns = append(scns, &sc)
		}
	}
	sink, err := trace.NewSink(o.out, o.shards)
	if err != nil {
		return err
	}
	var wg sync.WaitGroup
	type job struct {
		i  int
		sc *c01.Scn
	}
	ch := make(chan job)
	for w := 0; w < 16; w++ {
		wg.Add(1)
		go func() {
			defer wg.Done()
			for j := range ch {
				evs, note := c01.Run(ctx, j.sc)
				sink.Put(&trace.Scenario{Ord: j.i, Desc: j.sc, Note: note, Events: evs, Sig: j.sc.Kind})
			}
		}()
	}
	for i, sc := range scns {
		ch <- job{i, sc}
	}
	close(ch)
	wg.Wait()
	writeTables(o.out, ctx.G, ctx.L)
	return sink.Close()
}
