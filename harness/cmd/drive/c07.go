package main

import (
	"math/rand"
	"sync"

	"verif/harness/drivers/c01"
	"verif/harness/drivers/c07"
	"verif/harness/trace"
)

func init() {
	drivers["c07"] = runC07
	drivers["c07pal"] = runC07Pal
}

func runC07(o opts) error {
	ctx := &c01.Ctx{G: trace.NewInterner(" "), L: trace.NewInterner("")}
	var scns []*c07.Scn
	add := func(l ...*c01.Scn) {
		for _, sc := range l {
			scns = append(scns, c07.Plain(sc))
		}
	}
	if o.replay != "" {
		l, err := trace.LoadReplay[c07.Scn](o.replay)
		if err != nil {
			return err
		}
		scns = l
	} else {
		rng := rand.New(rand.NewSource(o.seed))
		if o.tier == "thorough" {
			for m := 0; m < 1<<15; m++ {
				add(c07.Session(m, m%2 == 1, m%7))
			}
		} else {
			// every single feature, every pair (alternative advertisement for half), plus random subsets
			for i := 0; i < 15; i++ {
				add(c07.Session(1<<i, false, i), c07.Session(1<<i, true, i))
				for j := i + 1; j < 15; j++ {
					add(c07.Session(1<<i|1<<j, (i+j)%2 == 0, j))
				}
			}
			add(c07.Session(0, false, 0), c07.Session(0, true, 1), c07.Session(1<<15-1, false, 2), c07.Session(1<<15-1, true, 3))
			for k := 0; k < 150; k++ {
				add(c07.Session(rng.Intn(1<<15), rng.Intn(2) == 0, rng.Intn(7)))
			}
		}
		// terminals that name themselves and give other DA1 service classes: neither advertises anything
		for _, id := range []string{"tmux 3.4", "tmux 3.3a", "tmux 3.2", "tmux 3.5a", "tmux 3.40", "kitty 0.35.2", "foot(1.16.2)", "XTerm(388)", "WezTerm 20240203"} {
			for _, mask := range []int{0, 1 << 1, 1<<5 | 1<<8, rng.Intn(1 << 15)} {
				add(c07.TermSession(mask, id, 0))
			}
		}
		for _, class := range []int{1, 4, 6, 61, 64, 65} {
			add(c07.TermSession(0, "", class), c07.TermSession(1<<6, "", class), c07.TermSession(rng.Intn(1<<15), "", class))
		}
		// what the replies establish depends neither on the size of the application's event queue (a public
		// option) ...: every small size against terminals that answer many, few and no queries before the
		// explicit-width probe's cursor report
		full := 1<<15 - 1
		early := 1<<0 | 1<<1 | 1<<2 | 1<<3 | 1<<4 | 1<<5 | 1<<6 | 1<<7 // the features whose replies precede that report
		for _, q := range []int{1, 2, 3, 4, 5, 6, 8, 9, 10, 12, 16} {
			scns = append(scns,
				c07.QueueSession(full, q%2 == 0, q%7, q, "fake 1.0"),
				c07.QueueSession(full, q%2 == 1, q%7, q, ""),
				c07.QueueSession(1<<14, false, q%7, q, ""),
				c07.QueueSession(full&^(1<<14), true, q%7, q, ""),
				c07.QueueSession(1<<14|rng.Intn(early+1), rng.Intn(2) == 0, q%7, q, ""),
				c07.QueueSession(rng.Intn(1<<15), rng.Intn(2) == 0, q%7, q, ""))
		}
		if o.tier == "thorough" {
			// every subset of the replies ahead of the report, against queues below, at and above their number
			late := full &^ early &^ (1 << 14)
			for _, q := range []int{1, 3, 6, 9} {
				for sub := 0; sub <= early; sub++ {
					scns = append(scns, c07.QueueSession(1<<14|sub|rng.Intn(late+1)&late, sub%2 == 0, sub%7, q, ""))
				}
			}
		}
		// ... nor on where the terminal's cursor happens to be when the application starts (the explicit-width
		// probe judges a cursor report: column 2 after one probed cell must mean the cell was understood,
		// not that the cursor began in column 2)
		for _, pos := range [][2]int{{1, 2}, {1, 3}, {2, 2}, {3, 7}, {1, 1}} {
			for _, m := range []int{0, 1 << 14, full, full &^ (1 << 14), rng.Intn(1 << 15), 1<<14 | rng.Intn(1<<14)} {
				scns = append(scns, c07.CursorSession(m, m%2 == 1, pos[1]+m%5, pos[0], pos[1]))
			}
		}
		// ... nor on the letter case of the hexadecimal strings in the XTGETTCAP / tertiary-DA replies
		for _, hc := range []int{1, 2} {
			for _, alt := range []bool{false, true} {
				for _, m := range []int{1 << 9, 1 << 8, 1<<8 | 1<<9, full, 1<<9 | 1<<14, 1<<9 | rng.Intn(1<<15), rng.Intn(1 << 15)} {
					scns = append(scns, c07.HexSession(m, alt, hc+m%5, hc))
				}
			}
		}
		// graphemes are measured with the width method that matches what the replies established, also by the
		// library's own text widgets (pager, text input): clusters whose width depends on the method, each followed
		// by a sentinel, on terminals with and without Unicode core / explicit width
		for v, m := range []int{0, 1 << 1, 1 << 14, 1<<1 | 1<<14, full, full &^ (1 << 1), full &^ (1 << 14), full &^ (1<<1 | 1<<14),
			rng.Intn(1 << 15), rng.Intn(1<<15) &^ (1<<1 | 1<<14), rng.Intn(1<<15) | 1<<14, rng.Intn(1<<15) | 1<<1} {
			scns = append(scns, c07.WidgetSession(m, v%2 == 1, v), c07.WidgetSession(m, v%2 == 0, v+rng.Intn(12)))
			// ... and after the process has run another Vaxis, on a terminal that measures the other way
			for _, flip := range []int{1 << 1, 1 << 14, 1<<1 | 1<<14} {
				ws := c07.WidgetSession(m, v%2 == 1, v+flip%7)
				ws.Kind, ws.Prior = "caps-widget-second", 1+(m^flip)
				scns = append(scns, ws)
			}
			// the same widgets on terminals that name themselves: a kitty without mode 2027 shows the parts of a
			// joined emoji sequence on their own (Vaxis measures with its no-joiner method there)
			// (the variants chosen for kitty hold no variation-selector emoji: a real kitty shows U+263A U+FE0F
			// two cells wide, which the harness's terminal without mode 2027 - it adds up code points - does not)
			for _, id := range []string{"kitty 0.35.2", "foot(1.16.2)"} {
				vv := v + rng.Intn(15)
				if id[0] == 'k' {
					vv = []int{2, 3, 7, 8, 12, 13}[rng.Intn(6)]
				}
				ws := c07.WidgetSession(m, v%2 == 1, vv)
				ws.TermID = id
				scns = append(scns, ws)
			}
		}
		// ... nor on the application id the terminal reports in its reply to the OSC 176 query (any string)
		for v, id := range []string{"org.example;profile=work", "a;b;c", ";", "x y", "org.example.App"} {
			scns = append(scns, c07.AppIDSession(1<<13, v%2 == 0, v, id), c07.AppIDSession(full, v%2 == 1, v, id),
				c07.AppIDSession(1<<13|rng.Intn(1<<15), rng.Intn(2) == 0, v, id))
		}
	}
	sink, err := trace.NewSink(o.out, o.shards)
	if err != nil {
		return err
	}
	type job struct {
		i  int
		sc *c07.Scn
	}
	var wg sync.WaitGroup
	ch := make(chan job)
	for w := 0; w < 16; w++ {
		wg.Add(1)
		go func() {
			defer wg.Done()
			for j := range ch {
				evs, note := c07.Run(ctx, j.sc)
				sink.Put(&trace.Scenario{Ord: j.i, Desc: j.sc, Note: note, Events: evs, Sig: j.sc.Kind})
			}
		}()
	}
	for i, sc := range scns {
		ch <- job{i, sc}
	}
	close(ch)
	wg.Wait()
	writeTables(o.out, ctx.G, ctx.L)
	return sink.Close()
}

// Palette sweep: quick = boundary-rich grid, thorough = all 2^24 colours.
type palScn struct {
	R, G int
	Bs   []int
}

func runC07Pal(o opts) error {
	var rows []*palScn
	if o.replay != "" {
		l, err := trace.LoadReplay[palScn](o.replay)
		if err != nil {
			return err
		}
		rows = l
	} else if o.tier == "thorough" {
		all := make([]int, 256)
		for i := range all {
			all[i] = i
		}
		for r := 0; r < 256; r++ {
			for g := 0; g < 256; g++ {
				rows = append(rows, &palScn{r, g, all})
			}
		}
	} else {
		grid := []int{0, 1, 0x2f, 0x30, 0x5e, 0x5f, 0x60, 0x72, 0x73, 0x86, 0x87, 0x88, 0x9b, 0xae, 0xaf, 0xb0, 0xc3, 0xd6, 0xd7, 0xd8, 0xeb, 0xfe, 0xff,
			8, 18, 0x12, 0x1c, 0x76, 0x80, 0xee}
		rng := rand.New(rand.NewSource(o.seed))
		for _, r := range grid {
			for _, g := range grid {
				bs := append([]int{}, grid...)
				for k := 0; k < 6; k++ {
					bs = append(bs, rng.Intn(256))
				}
				rows = append(rows, &palScn{r, g, bs})
			}
		}
	}
	sink, err := trace.NewSink(o.out, o.shards)
	if err != nil {
		return err
	}
	for i, r := range rows {
		sink.Put(&trace.Scenario{Ord: i, Desc: r, Sig: "palette", Events: []trace.Ev{{"ev": "reset"}, c07.PaletteRow(r.R, r.G, r.Bs)}})
	}
	return sink.Close()
}
