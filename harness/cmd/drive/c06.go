package main

import (
	"encoding/json"
	"fmt"
	"math/rand"
	"os"
	"path/filepath"
	"sort"
	"sync"

	"verif/harness/drivers/c06"
	"verif/harness/trace"
)

func init() { drivers["c06"] = runC06 }

// runC06: -x selects the scenario family: "" = all of the tier, "rand" =
// random + fixed only, "ex:RxC" = bounded-exhaustive on that screen size only.
func runC06(o opts) error {
	ctx := &c06.Ctx{G: trace.NewInterner(" ")}
	sink, err := trace.NewSink(o.out, o.shards)
	if err != nil {
		return err
	}
	var wg sync.WaitGroup
	type job struct {
		i  int
		sc *c06.Scn
	}
	ch := make(chan job, 256)
	for w := 0; w < 16; w++ {
		wg.Add(1)
		go func() {
			defer wg.Done()
			for j := range ch {
				evs, note := c06.Run(ctx, j.sc)
				sink.Put(&trace.Scenario{Ord: j.i, Desc: j.sc, Note: note, Events: evs, Sig: j.sc.Kind})
			}
		}()
	}
	n := 0
	opCount := map[string]int{} // oracle actions exercised (evidence)
	emit := func(sc *c06.Scn) {
		for _, op := range sc.Ops {
			opCount[op.Op]++
		}
		ch <- job{n, sc}
		n++
	}
	if o.extra == "selftest" {
		// binding self-test: one good trace, and the same trace with one recorded
		// field corrupted (cursor row; one grid cell) - TLC must reject exactly those
		for k := 0; k < 3; k++ {
			sc := c06.Fixed()[0]
			evs, _ := c06.Run(ctx, sc)
			last := evs[len(evs)-1]["o"].(map[string]any)
			switch k {
			case 1:
				last["r"] = last["r"].(int) + 1
			case 2:
				rows := last["rows"].([][]any)
				cells := rows[0][1].([][7]int)
				cells[0][0] += 1
			}
			sink.Put(&trace.Scenario{Ord: k, Desc: sc, Events: evs, Sig: "selftest"})
		}
		close(ch)
		wg.Wait()
		return sink.Close()
	}
	if o.replay != "" {
		l, err := trace.LoadReplay[c06.Scn](o.replay)
		if err != nil {
			return err
		}
		for _, sc := range l {
			emit(sc)
		}
	} else {
		thorough := o.tier == "thorough"
		if o.extra == "" || o.extra == "rand" {
			for _, sc := range c06.Fixed() {
				emit(sc)
			}
			for _, sc := range c06.SgrChains() {
				emit(sc)
			}
			rng := rand.New(rand.NewSource(o.seed))
			nr := 150
			if thorough {
				nr = 4000
			}
			for i := 0; i < nr; i++ {
				switch {
				case i%3 == 0:
					emit(c06.GenRandom(rng, 4, 3, 20, 80))
				case i%3 == 1:
					emit(c06.GenRandom(rng, 8, 5, 50, 200))
				default:
					emit(c06.GenRandom(rng, 12, 6, 50, 400))
				}
			}
		}
		for _, sz := range c06.Sizes {
			rows, cols := sz[0], sz[1]
			if o.extra != "" && o.extra != fmt.Sprintf("ex:%dx%d", rows, cols) {
				continue
			}
			alpha := c06.Alphabet(rows, cols, false)
			red := c06.Alphabet(rows, cols, true)
			pre := c06.Prefixes(rows, cols)
			huge := c06.HugeOps()
			var names []string
			for k := range pre {
				names = append(names, k)
			}
			sort.Strings(names)
			for _, pn := range names {
				c06.Exhaustive(rows, cols, pn, pre[pn], alpha, 1, emit)
				// every counted / positional function with every huge value (quick: from three of the start states)
				if thorough || pn == "full" || pn == "region" || pn == "bottom" || pn == "wrap" {
					c06.Exhaustive(rows, cols, "huge-"+pn, pre[pn], huge, 1, emit)
				}
				full2 := (rows == 3 && cols == 3) || (rows == 2 && cols == 3)
				switch {
				case thorough && full2:
					c06.Exhaustive(rows, cols, pn, pre[pn], alpha, 2, emit)
				case thorough:
					c06.Exhaustive(rows, cols, pn, pre[pn], red, 2, emit)
				case rows == 3 && cols == 3 && pn == "region", rows == 2 && cols == 3 && pn == "wrap":
					c06.Exhaustive(rows, cols, pn, pre[pn], red, 2, emit)
				}
				// length 3 over the tiny alphabet on the two smallest interesting screens
				if thorough && (pn == "full" || pn == "region") && rows == cols && rows <= 3 {
					c06.Exhaustive(rows, cols, pn, pre[pn], c06.Tiny(rows, cols), 3, emit)
				}
			}
		}
	}
	close(ch)
	wg.Wait()
	b, _ := json.Marshal(map[string]any{"graphemes": ctx.G.Table(), "ops": opCount})
	os.WriteFile(filepath.Join(o.out, "tables.json"), b, 0o644)
	return sink.Close()
}
