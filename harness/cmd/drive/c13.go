package main

import (
	"encoding/json"
	"os"
	"path/filepath"
	"sync"

	"verif/harness/drivers/c13"
	"verif/harness/trace"
)

func init() { drivers["c13"] = runC13 }

func runC13(o opts) error {
	ctx := &c13.Ctx{}
	var scns []*c13.Scn
	if o.replay != "" {
		l, err := trace.LoadReplay[c13.Scn](o.replay)
		if err != nil {
			return err
		}
		scns = l
		if len(scns) < o.shards {
			o.shards = len(scns)
		}
	} else {
		scns = c13.Generate(o.seed, o.tier == "thorough")
	}
	sink, err := trace.NewSink(o.out, o.shards)
	if err != nil {
		return err
	}
	type job struct {
		i  int
		sc *c13.Scn
	}
	ch := make(chan job)
	var wg sync.WaitGroup
	for w := 0; w < 12; w++ {
		wg.Add(1)
		go func() {
			defer wg.Done()
			for j := range ch {
				evs, note := c13.Run(ctx, j.sc)
				sink.Put(&trace.Scenario{Ord: j.i, Desc: j.sc, Note: note, Events: evs, Sig: j.sc.Kind})
			}
		}()
	}
	for i, sc := range scns {
		ch <- job{i, sc}
	}
	close(ch)
	wg.Wait()
	b, _ := json.Marshal(map[string]any{"counts": map[string]int64{"keys": ctx.NKeys, "mouse": ctx.NMouse, "paste": ctx.NPaste, "retries": ctx.NRetry}})
	os.WriteFile(filepath.Join(o.out, "tables.json"), b, 0o644)
	return sink.Close()
}
