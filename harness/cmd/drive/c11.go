package main

import (
	"fmt"
	"math/rand"
	"os"
	"sync"

	"verif/harness/drivers/c11"
	"verif/harness/trace"
)

func init() { drivers["c11"] = runC11 }

func runC11(o opts) error {
	ctx := &c11.Ctx{G: trace.NewInterner(" "), L: trace.NewInterner("")}
	var scns []*c11.Scn
	if o.extra == "dump" {
		ctx.Dump = func(f string, a ...any) { fmt.Fprintf(os.Stderr, f, a...) }
	}
	if o.replay != "" {
		l, err := trace.LoadReplay[c11.Scn](o.replay)
		if err != nil {
			return err
		}
		scns = l
		if o.shards > len(l) {
			o.shards = len(l)
		}
	} else {
		rng := rand.New(rand.NewSource(o.seed))
		if o.extra == "wide" { // development: only the wide-cell and terminal-width families, in full
			scns = append(scns, c11.GenWideEdge(rng, 1)...)
			scns = append(scns, c11.GenTextWidth(rng, 3, 1)...)
			scns = append(scns, c11.GenTextWidth(rng, 4, 0.5)...)
		} else if o.extra == "style" { // development: only the set-style-on-wide-glyphs families, in full
			scns = append(scns, c11.GenStyle(rng, 1)...)
			scns = append(scns, c11.GenStyleTrees(rng, 3000)...)
		} else if o.tier == "thorough" {
			scns = append(scns, c11.GenDepth1(rng, 1, 3)...)
			scns = append(scns, c11.GenCoords(rng, true)...)
			scns = append(scns, c11.GenTrees(rng, 6000)...)
			scns = append(scns, c11.GenText(rng, 4, 1)...)
			scns = append(scns, c11.GenText(rng, 5, 0.04)...)
			scns = append(scns, c11.GenTextRandom(rng, 6000)...)
			scns = append(scns, c11.GenWideEdge(rng, 1)...)
			scns = append(scns, c11.GenTextWidth(rng, 3, 1)...)
			scns = append(scns, c11.GenTextWidth(rng, 4, 0.5)...)
			scns = append(scns, c11.GenStyle(rng, 1)...)
			scns = append(scns, c11.GenStyleTrees(rng, 3000)...)
		} else {
			scns = append(scns, c11.GenDepth1(rng, 0.05, 4)...)
			scns = append(scns, c11.GenCoords(rng, false)...)
			scns = append(scns, c11.GenTrees(rng, 700)...)
			scns = append(scns, c11.GenText(rng, 3, 1)...)
			scns = append(scns, c11.GenText(rng, 5, 0.01)...)
			scns = append(scns, c11.GenTextRandom(rng, 800)...)
			scns = append(scns, c11.GenWideEdge(rng, 0.34)...)
			scns = append(scns, c11.GenTextWidth(rng, 3, 0.25)...)
			scns = append(scns, c11.GenStyle(rng, 0.3)...)
			scns = append(scns, c11.GenStyleTrees(rng, 200)...)
		}
		scns = append(scns, c11.Fixed()...)
	}
	sink, err := trace.NewSink(o.out, o.shards)
	if err != nil {
		return err
	}
	var wg sync.WaitGroup
	type job struct {
		i  int
		sc *c11.Scn
	}
	ch := make(chan job)
	for w := 0; w < 16; w++ {
		wg.Add(1)
		go func() {
			defer wg.Done()
			for j := range ch {
				evs, note := c11.Run(ctx, j.sc)
				if evs == nil {
					evs = []trace.Ev{{"ev": "reset", "rows": 1, "cols": 1, "xw": false}, {"ev": "panic", "rnd": -1, "op": "start"}}
				}
				sink.Put(&trace.Scenario{Ord: j.i, Desc: j.sc, Note: note, Events: evs, Sig: j.sc.Kind})
			}
		}()
	}
	for i, sc := range scns {
		ch <- job{i, sc}
	}
	close(ch)
	wg.Wait()
	writeTables(o.out, ctx.G, ctx.L)
	return sink.Close()
}
