package main

import (
	"bufio"
	"bytes"
	"encoding/json"
	"fmt"
	"math/rand"
	"os"
	"os/exec"
	"strconv"
	"strings"
	"sync"

	"verif/harness/drivers/c08"
	"verif/harness/trace"
)

func init() {
	drivers["c08"] = runC08
	drivers["c08child"] = runC08Child
}

// child: -x "<listfile>:<start>", results appended to -out (one JSON line per scenario)
func runC08Child(o opts) error {
	i := strings.LastIndexByte(o.extra, ':')
	start, _ := strconv.Atoi(o.extra[i+1:])
	b, err := os.ReadFile(o.extra[:i])
	if err != nil {
		return err
	}
	var list []*c08.Scn
	if err := json.Unmarshal(b, &list); err != nil {
		return err
	}
	f, err := os.OpenFile(o.out, os.O_APPEND|os.O_CREATE|os.O_WRONLY, 0o644)
	if err != nil {
		return err
	}
	defer f.Close()
	for k := start; k < len(list); k++ {
		res := c08.Execute(list[k])
		line, _ := json.Marshal(res)
		f.Write(append(line, '\n'))
		f.Sync()
	}
	return nil
}

func runSlice(self, dir string, w int, list []*c08.Scn) []*c08.Result {
	lf := fmt.Sprintf("%s/list%02d.json", dir, w)
	rf := fmt.Sprintf("%s/res%02d.ndjson", dir, w)
	b, _ := json.Marshal(list)
	os.WriteFile(lf, b, 0o644)
	os.Remove(rf)
	var results []*c08.Result
	for len(results) < len(list) {
		cmd := exec.Command(self, "c08child", "-out", rf, "-x", fmt.Sprintf("%s:%d", lf, len(results)))
		var stderr bytes.Buffer
		cmd.Stderr = &stderr
		err := cmd.Run()
		// read what it produced
		results = results[:0]
		if f, e := os.Open(rf); e == nil {
			sc := bufio.NewScanner(f)
			sc.Buffer(make([]byte, 1<<20), 1<<26)
			for sc.Scan() {
				var r c08.Result
				if json.Unmarshal(sc.Bytes(), &r) == nil {
					results = append(results, &r)
				}
			}
			f.Close()
		}
		if err != nil && len(results) < len(list) {
			// the process died while executing scenario len(results)
			msg := stderr.String()
			first := msg
			if i := strings.Index(msg, "panic:"); i >= 0 {
				first = msg[i:]
			} else if i := strings.Index(msg, "fatal error:"); i >= 0 {
				first = msg[i:]
			}
			if j := strings.IndexByte(first, '\n'); j >= 0 {
				first = first[:j]
			}
			if first == "" {
				first = "process died: " + err.Error()
			}
			r := &c08.Result{Items: []map[string]any{}, Panic: first}
			line, _ := json.Marshal(r)
			f, _ := os.OpenFile(rf, os.O_APPEND|os.O_CREATE|os.O_WRONLY, 0o644)
			f.Write(append(line, '\n'))
			f.Close()
			results = append(results, r)
		}
	}
	os.Remove(lf)
	os.Remove(rf)
	return results
}

func runC08(o opts) error {
	var scns []*c08.Scn
	if o.replay != "" {
		l, err := trace.LoadReplay[c08.Scn](o.replay)
		if err != nil {
			return err
		}
		scns = l
	} else {
		rng := rand.New(rand.NewSource(o.seed))
		scns = append(scns, c08.Fixed()...)
		n := 300
		if o.tier == "thorough" {
			n = 4000
		}
		for i := 0; i < n; i++ {
			scns = append(scns, c08.Timing(rng))
		}
		if o.extra != "" { // file of SCHED JSON lines produced by TLC
			f, err := os.Open(o.extra)
			if err != nil {
				return err
			}
			sc := bufio.NewScanner(f)
			sc.Buffer(make([]byte, 1<<20), 1<<26)
			for sc.Scan() {
				if s, err := c08.FromSched(sc.Text()); err == nil {
					scns = append(scns, s)
				}
			}
			f.Close()
		}
	}
	sink, err := trace.NewSink(o.out, o.shards)
	if err != nil {
		return err
	}
	self, _ := os.Executable()
	const W = 16
	var wg sync.WaitGroup
	for w := 0; w < W; w++ {
		var idxs []int
		for i := w; i < len(scns); i += W {
			idxs = append(idxs, i)
		}
		if len(idxs) == 0 {
			continue
		}
		wg.Add(1)
		go func(w int, idxs []int) {
			defer wg.Done()
			list := make([]*c08.Scn, len(idxs))
			for k, i := range idxs {
				list[k] = scns[i]
			}
			res := runSlice(self, o.out, w, list)
			for k, i := range idxs {
				r := res[k]
				sc := scns[i]
				ev := trace.Ev{"ev": "run", "in": sc.Input(), "items": r.Items, "closed": r.Closed, "kept": r.Kept,
					"panic": r.Panic, "hang": r.Hang, "drift": r.Drift, "early": r.EarlyEnd || sc.CloseAt >= 0, "ambig": r.Ambig}
				sink.Put(&trace.Scenario{Ord: i, Desc: sc, Note: r.Panic + r.Hang + r.Drift, Sig: sc.Kind,
					Events: []trace.Ev{{"ev": "reset"}, ev}})
			}
		}(w, idxs)
	}
	wg.Wait()
	return sink.Close()
}
