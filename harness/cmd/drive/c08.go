package main

import (
	"bufio"
	"encoding/json"
	"math/rand"
	"os"

	"verif/harness/drivers/c08"
	"verif/harness/trace"
)

func init() {
	drivers["c08"] = runC08
	drivers["c08child"] = runC08Child
}

func runC08Child(o opts) error {
	return childLoop(o, func(sc *c08.Scn) any { return c08.Execute(sc) })
}

func runC08(o opts) error {
	var scns []*c08.Scn
	if o.replay != "" {
		l, err := trace.LoadReplay[c08.Scn](o.replay)
		if err != nil {
			return err
		}
		scns = l
	} else {
		rng := rand.New(rand.NewSource(o.seed))
		scns = append(scns, c08.Fixed()...)
		scns = append(scns, c08.CloseThenReturn()...)
		n := 300
		if o.tier == "thorough" {
			n = 4000
		}
		for i := 0; i < n; i++ {
			scns = append(scns, c08.Timing(rng))
		}
		if o.extra != "" { // file of SCHED JSON lines produced by TLC
			f, err := os.Open(o.extra)
			if err != nil {
				return err
			}
			sc := bufio.NewScanner(f)
			sc.Buffer(make([]byte, 1<<20), 1<<26)
			for sc.Scan() {
				if s, err := c08.FromSched(sc.Text()); err == nil {
					scns = append(scns, s)
				}
			}
			f.Close()
		}
	}
	sink, err := trace.NewSink(o.out, o.shards)
	if err != nil {
		return err
	}
	raw := runChildren("c08child", o.out, scns, func(i int, msg string) any {
		return &c08.Result{Items: []map[string]any{}, Panic: msg, StopRets: -1}
	})
	for i, sc := range scns {
		var r c08.Result
		if raw[i] == nil || json.Unmarshal(raw[i], &r) != nil {
			r = c08.Result{Items: []map[string]any{}, Hang: "no result from child", StopRets: -1}
		}
		if r.Items == nil {
			r.Items = []map[string]any{}
		}
		if r.Items == nil {
			r.Items = []map[string]any{}
		}
		ev := trace.Ev{"ev": "run", "in": sc.Input(), "items": r.Items, "closed": r.Closed, "kept": r.Kept,
			"panic": r.Panic, "hang": r.Hang, "drift": r.Drift, "early": r.EarlyEnd || sc.CloseAt >= 0, "ambig": r.Ambig, "stopRets": r.StopRets}
		sink.Put(&trace.Scenario{Ord: i, Desc: sc, Note: r.Panic + r.Hang + r.Drift, Sig: sc.Kind,
			Events: []trace.Ev{{"ev": "reset"}, ev}})
	}
	return sink.Close()
}
