package main

import (
	"fmt"
	"math/rand"
	"os"
	"sync"

	"verif/harness/drivers/c20"
	"verif/harness/trace"
)

func init() { drivers["c20"] = runC20 }

func runC20(o opts) error {
	ctx := &c20.Ctx{G: trace.NewInterner(" "), L: trace.NewInterner("")}
	var scns []*c20.Scn
	if o.extra == "dump" {
		ctx.Dump = func(f string, a ...any) { fmt.Fprintf(os.Stderr, f, a...) }
	}
	if o.replay != "" {
		l, err := trace.LoadReplay[c20.Scn](o.replay)
		if err != nil {
			return err
		}
		scns = l
		if o.shards > len(l) {
			o.shards = len(l)
		}
	} else {
		rng := rand.New(rand.NewSource(o.seed))
		if o.tier == "thorough" {
			scns = append(scns, c20.GenFitBlocks(rng, 1)...)
			scns = append(scns, c20.GenFitPixel(rng, 0.2)...)
			scns = append(scns, c20.GenBlocks(rng, c20.AllAlphas(), 16)...)
			scns = append(scns, c20.GenHist(rng, "kitty", 2500)...)
			scns = append(scns, c20.GenHist(rng, "sixel", 2500)...)
			scns = append(scns, c20.GenDoubleResize(rng, 60)...)
		} else {
			scns = append(scns, c20.GenFitBlocks(rng, 0.05)...)
			scns = append(scns, c20.GenFitPixel(rng, 0.004)...)
			al := []int{0, 1, 49, 50, 51, 127, 128, 254, 255}
			for i := 0; i < 16; i++ {
				al = append(al, rng.Intn(256))
			}
			scns = append(scns, c20.GenBlocks(rng, al, 10)...)
			scns = append(scns, c20.GenHist(rng, "kitty", 80)...)
			scns = append(scns, c20.GenHist(rng, "sixel", 80)...)
			scns = append(scns, c20.GenDoubleResize(rng, 8)...)
		}
		scns = append(scns, c20.FixedFits()...)
		scns = append(scns, c20.FixedBlocks()...)
		scns = append(scns, c20.RescaleBlocks(rng, o.tier == "thorough")...)
		scns = append(scns, c20.FixedHist()...)
		// follow-up families (random streams of their own)
		scns = append(scns, c20.SheerBlocks()...)
		scns = append(scns, c20.ThinFits()...)
		scns = append(scns, c20.ThinHist()...)
		scns = append(scns, c20.GeomHist()...)
		if o.tier == "thorough" {
			scns = append(scns, c20.GenThin(o.seed, 60)...)
			scns = append(scns, c20.GenGeom(o.seed, 120)...)
		} else {
			scns = append(scns, c20.GenThin(o.seed, 6)...)
			scns = append(scns, c20.GenGeom(o.seed, 10)...)
		}
	}
	sink, err := trace.NewSink(o.out, o.shards)
	if err != nil {
		return err
	}
	var wg sync.WaitGroup
	type job struct {
		i  int
		sc *c20.Scn
	}
	ch := make(chan job)
	for w := 0; w < 12; w++ {
		wg.Add(1)
		go func() {
			defer wg.Done()
			for j := range ch {
				evs, note := c20.Run(ctx, j.sc)
				sink.Put(&trace.Scenario{Ord: j.i, Desc: j.sc, Note: note, Events: evs, Sig: j.sc.Kind + ":" + j.sc.Proto})
			}
		}()
	}
	for i, sc := range scns {
		ch <- job{i, sc}
	}
	close(ch)
	wg.Wait()
	writeTables(o.out, ctx.G, ctx.L)
	return sink.Close()
}
