// Command drive runs the property drivers: it executes scenarios against the
// real library (built from /repo's working tree with -tags verif) and writes
// NDJSON traces for TLC.
package main

import (
	"flag"
	"fmt"
	"os"
)

type opts struct {
	tier   string
	seed   int64
	out    string
	shards int
	replay string
	extra  string
}

var drivers = map[string]func(o opts) error{}

func main() {
	if len(os.Args) < 2 {
		fmt.Fprintln(os.Stderr, "usage: drive <property> [flags]")
		os.Exit(2)
	}
	prop := os.Args[1]
	fs := flag.NewFlagSet(prop, flag.ExitOnError)
	var o opts
	fs.StringVar(&o.tier, "tier", "quick", "quick|thorough")
	fs.Int64Var(&o.seed, "seed", 1, "random seed")
	fs.StringVar(&o.out, "out", "", "output directory")
	fs.IntVar(&o.shards, "shards", 16, "number of trace shards")
	fs.StringVar(&o.replay, "replay", "", "replay a single scenario descriptor file")
	fs.StringVar(&o.extra, "x", "", "driver-specific option")
	fs.Parse(os.Args[2:])
	d, ok := drivers[prop]
	if !ok {
		fmt.Fprintln(os.Stderr, "unknown property driver:", prop)
		os.Exit(2)
	}
	if o.out == "" {
		fmt.Fprintln(os.Stderr, "-out required")
		os.Exit(2)
	}
	if err := d(o); err != nil {
		fmt.Fprintln(os.Stderr, "drive:", err)
		os.Exit(2)
	}
}
