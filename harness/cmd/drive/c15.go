package main

import (
	"fmt"
	"math/rand"
	"os"
	"runtime/debug"
	"strings"
	"sync"

	"verif/harness/drivers/c15"
	"verif/harness/trace"
)

func init() { drivers["c15"] = runC15 }

func runC15(o opts) error {
	// thousands of short-lived Vaxis instances: collect less often (a collection
	// on a starved machine stalls every session at once)
	debug.SetGCPercent(400)
	ctx := &c15.Ctx{}
	if o.extra == "dump" {
		ctx.Dump = func(f string, a ...any) { fmt.Fprintf(os.Stderr, f, a...) }
	}
	if os.Getenv("C15_STACKS") != "" {
		var once sync.Once
		c15.StackDump = func(b []byte) {
			once.Do(func() { os.WriteFile(os.Getenv("C15_STACKS"), b, 0o644) })
		}
	}
	var scns []*c15.Scn
	if o.replay != "" {
		l, err := trace.LoadReplay[c15.Scn](o.replay)
		if err != nil {
			return err
		}
		scns = l
		if o.shards > len(l) {
			o.shards = len(l)
		}
	} else {
		rng := rand.New(rand.NewSource(o.seed))
		scns = append(scns, c15.Fixed()...)
		if o.tier == "thorough" {
			scns = append(scns, c15.GenRoute(5, rng, 0)...)
			scns = append(scns, c15.GenRandom(rng, 40000, false, false)...)
			scns = append(scns, c15.GenHidden(2, 4, rng, 0)...)
			scns = append(scns, c15.GenHidden(5, 5, rng, 4)...)
			scns = append(scns, c15.GenRandom(rng, 10000, true, false)...)
			scns = append(scns, c15.GenReparent(4, 5, rng, 0)...)
			scns = append(scns, c15.GenRandom(rng, 6000, false, true)...)
			scns = append(scns, c15.GenRandom(rng, 4000, true, true)...)
			scns = append(scns, c15.GenNested(2, 4, rng, 0)...)
			scns = append(scns, c15.GenMidRoute(2, 4, rng, 0)...)
			scns = append(scns, c15.GenTick(2, 4, rng, 0)...)
			scns = append(scns, c15.GenSelfNest(4, rng, 0)...)
			scns = append(scns, c15.FixedTies())
			scns = append(scns, c15.GenTies(rng, 3000)...)
		} else {
			scns = append(scns, c15.GenRoute(4, rng, 0)...)
			scns = append(scns, c15.GenRoute(5, rng, 24)[118*2:]...)
			scns = append(scns, c15.GenRandom(rng, 1500, false, false)...)
			scns = append(scns, c15.GenHidden(2, 3, rng, 0)...)
			scns = append(scns, c15.GenHidden(4, 4, rng, 4)...)
			scns = append(scns, c15.GenRandom(rng, 400, true, false)...)
			scns = append(scns, c15.GenReparent(4, 4, rng, 0)...)
			scns = append(scns, c15.GenReparent(5, 5, rng, 32)...)
			scns = append(scns, c15.GenRandom(rng, 160, false, true)...)
			scns = append(scns, c15.GenRandom(rng, 60, true, true)...)
			scns = append(scns, c15.GenNested(2, 3, rng, 0)...)
			scns = append(scns, c15.GenNested(4, 4, rng, 16)...)
			scns = append(scns, c15.GenMidRoute(2, 3, rng, 0)...)
			scns = append(scns, c15.GenMidRoute(4, 4, rng, 8)...)
			scns = append(scns, c15.GenTick(2, 3, rng, 0)...)
			scns = append(scns, c15.GenTick(4, 4, rng, 8)...)
			scns = append(scns, c15.GenSelfNest(3, rng, 0)...)
			scns = append(scns, c15.FixedTies())
			scns = append(scns, c15.GenTies(rng, 150)...)
		}
	}
	// -x kind=<prefix>: only the scenarios whose kind starts with prefix (development aid)
	if strings.HasPrefix(o.extra, "kind=") {
		var keep []*c15.Scn
		for _, sc := range scns {
			if strings.HasPrefix(sc.Kind, o.extra[5:]) {
				keep = append(keep, sc)
			}
		}
		scns = keep
	}
	sink, err := trace.NewSink(o.out, o.shards)
	if err != nil {
		return err
	}
	type job struct {
		i  int
		sc *c15.Scn
	}
	var wg sync.WaitGroup
	ch := make(chan job)
	for w := 0; w < 16; w++ {
		wg.Add(1)
		go func() {
			defer wg.Done()
			for j := range ch {
				evs, note := c15.Run(ctx, j.sc)
				sink.Put(&trace.Scenario{Ord: j.i, Desc: j.sc, Note: note, Events: evs, Sig: j.sc.Kind})
			}
		}()
	}
	for i, sc := range scns {
		ch <- job{i, sc}
	}
	close(ch)
	wg.Wait()
	return sink.Close()
}
