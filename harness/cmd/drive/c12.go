package main

import (
	"math/rand"
	"sync"

	"verif/harness/drivers/c01"
	"verif/harness/drivers/c12"
	"verif/harness/trace"
)

func init() { drivers["c12"] = runC12 }

func runC12(o opts) error {
	ctx := &c12.Ctx{G: trace.NewInterner(" "), L: trace.NewInterner("")}
	var scns []*c12.Scn
	add := func(sc *c01.Scn) { scns = append(scns, &c12.Scn{Scn: *sc}) }
	if o.replay != "" {
		l, err := trace.LoadReplay[c12.Scn](o.replay)
		if err != nil {
			return err
		}
		scns = l
	} else {
		rng := rand.New(rand.NewSource(o.seed))
		n := 250
		if o.tier == "thorough" {
			n = 8000
		}
		for i := 0; i < n; i++ {
			sc := c01.GenRandomFor(rng, 2+rng.Intn(5), 1<<1|1<<6, false)
			// the emulator is not resized under the running application: cut the history at its first resize
			for k, f := range sc.Frames {
				if f.End == "resize" {
					sc.Frames = sc.Frames[:k]
					break
				}
			}
			if len(sc.Frames) == 0 {
				continue
			}
			add(sc)
		}
		for _, sc := range c01.GenChains(rng, o.tier == "thorough", 20) {
			sc.Mask = 1<<1 | 1<<6
			add(sc)
		}
		for _, sc := range c01.Fixed() {
			if sc.Mask == 1<<1 {
				sc.Mask = 1<<1 | 1<<6
				add(sc)
			}
		}
		// cells whose neighbours would join them into one cluster; frames longer than one read of the
		// emulator's parser; pictures drawn with the graphics protocol the emulator advertises
		nnb := 60
		if o.tier == "thorough" {
			nnb = 3000
		}
		scns = append(scns, c12.GenNeighbours(rng, nnb)...)
		scns = append(scns, c12.GenBig(rng, o.tier == "thorough")...)
		scns = append(scns, c12.GenSixel(rng, o.tier == "thorough")...)
		// characters a typesetting width table gives three or four columns (a terminal gives any glyph at most two)
		nwg := 40
		if o.tier == "thorough" {
			nwg = 2000
		}
		scns = append(scns, c12.GenWide(rng, nwg)...)
	}
	sink, err := trace.NewSink(o.out, o.shards)
	if err != nil {
		return err
	}
	type job struct {
		i  int
		sc *c12.Scn
	}
	var wg sync.WaitGroup
	ch := make(chan job)
	for w := 0; w < 12; w++ {
		wg.Add(1)
		go func() {
			defer wg.Done()
			for j := range ch {
				evs, note := c12.Run(ctx, j.sc)
				sink.Put(&trace.Scenario{Ord: j.i, Desc: j.sc, Note: note, Events: evs, Sig: j.sc.Kind})
			}
		}()
	}
	for i, sc := range scns {
		ch <- job{i, sc}
	}
	close(ch)
	wg.Wait()
	writeTables(o.out, ctx.G, ctx.L)
	return sink.Close()
}
