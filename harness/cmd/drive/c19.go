package main

import (
	"encoding/json"
	"fmt"
	"math/rand"
	"os"
	"path/filepath"
	"sync"

	"verif/harness/drivers/c19"
	"verif/harness/trace"
)

func init() { drivers["c19"] = runC19 }

func runC19(o opts) error {
	ctx := &c19.Ctx{G: trace.NewInterner(" "), L: trace.NewInterner(""), Cov: c19.NewCov()}
	if o.extra == "dump" {
		ctx.Dump = func(f string, a ...any) { fmt.Fprintf(os.Stderr, f, a...) }
	}
	var scns []*c19.Scn
	if o.replay != "" {
		l, err := trace.LoadReplay[c19.Scn](o.replay)
		if err != nil {
			return err
		}
		scns = l
		if len(l) == 1 {
			o.shards = 1
		}
	} else {
		scns = c19.Generate(rand.New(rand.NewSource(o.seed)), o.tier == "thorough")
	}
	sink, err := trace.NewSink(o.out, o.shards)
	if err != nil {
		return err
	}
	type job struct {
		i  int
		sc *c19.Scn
	}
	var wg sync.WaitGroup
	ch := make(chan job)
	for w := 0; w < 16; w++ {
		wg.Add(1)
		go func() {
			defer wg.Done()
			for j := range ch {
				evs, note := c19.Run(ctx, j.sc)
				sink.Put(&trace.Scenario{Ord: j.i, Desc: j.sc, Note: note, Events: evs, Sig: j.sc.Kind})
			}
		}()
	}
	for i, sc := range scns {
		ch <- job{i, sc}
	}
	close(ch)
	wg.Wait()
	b, _ := json.Marshal(map[string]any{"graphemes": ctx.G.Table()})
	os.WriteFile(filepath.Join(o.out, "tables.json"), b, 0o644)
	b, _ = json.Marshal(ctx.Cov.Report())
	os.WriteFile(filepath.Join(o.out, "coverage.json"), b, 0o644)
	return sink.Close()
}
