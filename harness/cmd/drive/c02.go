package main

import (
	"math/rand"
	"sync"

	"verif/harness/drivers/c02"
	"verif/harness/trace"
)

func init() { drivers["c02"] = runC02 }

func runC02(o opts) error {
	sink, err := trace.NewSink(o.out, o.shards)
	if err != nil {
		return err
	}
	type job struct {
		i  int
		sc *c02.Scn
	}
	ch := make(chan job, 1024)
	var wg sync.WaitGroup
	for w := 0; w < 16; w++ {
		wg.Add(1)
		go func() {
			defer wg.Done()
			for j := range ch {
				evs, note := c02.Run(j.sc)
				sink.Put(&trace.Scenario{Ord: j.i, Desc: j.sc, Note: note, Events: evs, Sig: j.sc.Kind})
			}
		}()
	}
	n := 0
	emit := func(sc *c02.Scn) { ch <- job{n, sc}; n++ }
	if o.replay != "" {
		l, err := trace.LoadReplay[c02.Scn](o.replay)
		if err != nil {
			return err
		}
		for _, sc := range l {
			emit(sc)
		}
	} else {
		rng := rand.New(rand.NewSource(o.seed))
		for _, sc := range c02.Fixed() {
			emit(sc)
		}
		exh, ngram, ntext, nrand := 3, 3000, 1500, 1500
		if o.tier == "thorough" {
			exh, ngram, ntext, nrand = 4, 150000, 40000, 60000
		}
		for k := 1; k <= exh; k++ {
			c02.Exhaustive(k, rng, emit)
		}
		for i := 0; i < ngram; i++ {
			emit(c02.Grammar(rng))
		}
		for i := 0; i < ntext; i++ {
			emit(c02.Text(rng))
		}
		for i := 0; i < nrand; i++ {
			emit(c02.RandomBytes(rng))
		}
	}
	close(ch)
	wg.Wait()
	return sink.Close()
}
