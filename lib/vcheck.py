"""Shared machinery for /verif/bin/check: build the Go harness against /repo's
working tree (hooks on), run property drivers, validate the recorded traces with
TLC, run the exhaustive TLC models, classify rejections against
known_findings.json and write the evidence file.

Exit codes: 0 property held on everything explored (KNOWN-FINDING lines may be
printed); 1 at least one VIOLATION line; 2 inconclusive (tool failure)."""
import concurrent.futures as cf
import hashlib
import json
import os
import re
import shutil
import subprocess
import sys
import time

VERIF = os.path.dirname(os.path.dirname(os.path.abspath(__file__)))
REPO = os.environ.get("VERIF_REPO", "/repo")
GOENV = dict(GOFLAGS="-mod=mod", GOPROXY="off", GOSUMDB="off", GOTOOLCHAIN="local", CGO_ENABLED="1")


class Inconclusive(Exception):
    pass


def log(*a):
    print(*a, file=sys.stderr, flush=True)


class Check:
    def __init__(self, pid, tier, replay=None):
        self.pid = pid
        self.tier = tier
        self.seed = int(os.environ.get("VERIF_SEED", "1") or "1")
        self.t0 = time.time()
        self.scratch = os.path.join(VERIF, ".run", "%s-%d" % (pid, os.getpid()))
        shutil.rmtree(self.scratch, ignore_errors=True)
        os.makedirs(self.scratch)
        self.out = os.path.join(VERIF, "out", pid)
        os.makedirs(self.out, exist_ok=True)
        self.replay = replay
        self.cov = {"states": 0, "transitions": 0, "traces_validated_against_impl": 0, "samples": [],
                    "evaluations": 0, "distinct_nontrivial": 0, "models": [], "trace_specs": []}
        self.assumptions = []
        self.violations = []   # (sig, replay_path, text)
        self.known_seen = []   # (finding, text)
        self.notes = []
        self.findings = [f for f in load_findings() if f.get("property") == pid]

    # ---- build -----------------------------------------------------------
    def build(self, race=False, name="drive"):
        env = dict(os.environ, **GOENV)
        hdir = os.path.join(VERIF, "harness")
        gosum = os.path.join(hdir, "go.sum")
        # always the repository's own sums; replaced atomically and only when they differ, because
        # several checks may be building side by side
        with open(os.path.join(REPO, "go.sum"), "rb") as f:
            want = f.read()
        try:
            with open(gosum, "rb") as f:
                have = f.read()
        except OSError:
            have = None
        if have != want:
            tmp = "%s.%d.tmp" % (gosum, os.getpid())
            with open(tmp, "wb") as f:
                f.write(want)
            os.replace(tmp, gosum)
        outbin = os.path.join(self.scratch, name)
        cmd = ["go", "build", "-tags", "verif", "-o", outbin]
        if REPO != "/repo":
            # development against a scratch worktree: alternate go.mod with the replace redirected
            mf = os.path.join(self.scratch, "go.alt.mod")
            with open(os.path.join(hdir, "go.mod")) as f:
                txt = f.read().replace("=> /repo", "=> " + REPO)
            with open(mf, "w") as f:
                f.write(txt)
            shutil.copy(os.path.join(REPO, "go.sum"), os.path.join(self.scratch, "go.alt.sum"))
            cmd += ["-modfile", mf]
        if race:
            cmd.append("-race")
        cmd.append("./cmd/drive")
        p = subprocess.run(cmd, cwd=hdir, env=env, capture_output=True, text=True)
        if p.returncode != 0:
            log(p.stdout, p.stderr)
            raise Inconclusive("harness build failed against /repo working tree")
        return outbin

    # ---- driver ----------------------------------------------------------
    def drive(self, binary, prop, sub="traces", extra=(), timeout=3600, shards=16, replay=None, env=None):
        d = os.path.join(self.scratch, sub)
        cmd = [binary, prop, "-tier", self.tier, "-seed", str(self.seed), "-out", d, "-shards", str(shards)]
        if replay:
            cmd += ["-replay", replay]
        cmd += list(extra)
        e = dict(os.environ)
        for k in list(e):
            if k.startswith("VAXIS_") or k in ("COLORTERM", "ASCIINEMA_REC"):
                del e[k]
        if env:
            e.update(env)
        try:
            p = subprocess.run(cmd, capture_output=True, text=True, timeout=timeout, env=e)
        except subprocess.TimeoutExpired:
            raise Inconclusive("driver timed out: %s" % " ".join(cmd))
        if p.returncode != 0:
            log(p.stdout[-4000:], p.stderr[-4000:])
            raise Inconclusive("driver failed (%d): %s" % (p.returncode, " ".join(cmd)))
        return d

    # ---- TLC -------------------------------------------------------------
    def _tlc(self, specdir, tla, cfg, env_extra, workers, metadir, timeout, extra=()):
        env = dict(os.environ)
        # deep RECURSIVE operators on long traces need stack; 16 trace JVMs run side by side, so cap the heap
        env["JAVA_TOOL_OPTIONS"] = "-Xss512m " + ("-Xmx3g" if workers == 1 else "-Xmx12g")
        env.update(env_extra)
        cmd = ["tlc", "-workers", str(workers), "-metadir", metadir, "-config", cfg] + list(extra) + [tla]
        try:
            p = subprocess.run(cmd, cwd=specdir, env=env, capture_output=True, text=True, timeout=timeout)
        except subprocess.TimeoutExpired:
            raise Inconclusive("TLC timed out: %s %s" % (tla, env_extra))
        return p.returncode, p.stdout + p.stderr

    def stage_specs(self, *dirs):
        """Copy spec directories into one scratch directory (TLC litters)."""
        d = os.path.join(self.scratch, "specs")
        os.makedirs(d, exist_ok=True)
        for sd in dirs:
            src = os.path.join(VERIF, "specs", sd)
            for f in os.listdir(src):
                if f.endswith((".tla", ".cfg")):
                    shutil.copy(os.path.join(src, f), os.path.join(d, f))
        return d

    def validate_traces(self, specdir, tla, cfg, tracedir, timeout=3000, label=None):
        """Run the trace spec over every shard. Returns list of reject records
        (dicts with at least scn) and fills coverage."""
        meta = json.load(open(os.path.join(tracedir, "meta.json")))
        shards = [i for i in range(meta["shards"]) if meta["lines"][i] > 0]
        rejects, accepts = [], set()
        states = 0

        def one(i):
            f = os.path.join(tracedir, "shard%02d.ndjson" % i)
            md = os.path.join(tracedir, "md%02d" % i)
            rc, out = self._tlc(specdir, tla, cfg, {"TRACE": f}, 1, md, timeout)
            shutil.rmtree(md, ignore_errors=True)
            return i, rc, out

        with cf.ThreadPoolExecutor(max_workers=16) as ex:
            results = list(ex.map(one, shards))
        for i, rc, out in results:
            ok = "Model checking completed. No error has been found." in out
            if not ok or rc != 0:
                log(out[-6000:])
                raise Inconclusive("TLC failed on shard %d of %s (rc=%d)" % (i, tla, rc))
            for line in out.splitlines():
                line = line.strip()
                if line.startswith('"REJECT '):
                    rejects.append(json.loads(json.loads(line)[7:]))
                elif line.startswith('"ACCEPT '):
                    accepts.add(json.loads(json.loads(line)[7:])["scn"])
            m = re.search(r"(\d+) states generated, (\d+) distinct states found", out)
            if m:
                states += int(m.group(2))
        self.cov["trace_specs"].append({"spec": tla, "shards": len(shards), "scenarios": meta["scenarios"],
                                        "events": meta["events"], "trace_states": states, "label": label or tla})
        self.cov["traces_validated_against_impl"] += meta["scenarios"]
        self.cov["evaluations"] += meta["scenarios"]
        self.reject_total = getattr(self, 'reject_total', 0) + len(rejects)
        return rejects, accepts

    def model_check(self, specdir, tla, cfg, workers=8, timeout=3000, extra=(), expect_violation=False):
        """Exhaustive TLC run of a bounded model. Returns (ok, out)."""
        md = os.path.join(self.scratch, "mc-" + os.path.splitext(cfg)[0])
        rc, out = self._tlc(specdir, tla, cfg, {}, workers, md, timeout, extra)
        shutil.rmtree(md, ignore_errors=True)
        m = re.search(r"(\d+) states generated, (\d+) distinct states found", out)
        ok = "Model checking completed. No error has been found." in out
        st = {"model": tla, "cfg": cfg, "ok": ok}
        if m:
            st["transitions"], st["states"] = int(m.group(1)), int(m.group(2))
            self.cov["states"] += st["states"]
            self.cov["transitions"] += st["transitions"]
        dm = re.search(r"depth of the complete state graph search is (\d+)", out)
        if dm:
            st["depth"] = int(dm.group(1))
        self.cov["models"].append(st)
        if not ok and not expect_violation:
            if "is violated" in out or "Error:" in out:
                log(out[-8000:])
            if not m:
                raise Inconclusive("TLC model run failed: %s/%s" % (tla, cfg))
        return ok, out

    # ---- index / replay ----------------------------------------------------
    def load_index(self, tracedir):
        idx = {}
        with open(os.path.join(tracedir, "index.ndjson")) as f:
            for line in f:
                x = json.loads(line)
                idx[x["id"]] = x
        return idx

    def count_distinct(self, idx, nontrivial=lambda s: s["nev"] > 2):
        seen = set()
        for s in idx.values():
            if nontrivial(s):
                seen.add(hashlib.sha1(json.dumps(s["desc"], sort_keys=True).encode()).hexdigest())
        self.cov["distinct_nontrivial"] += len(seen)

    def write_multi(self, scns, name="confirm.json"):
        p = os.path.join(self.scratch, name)
        with open(p, "w") as f:
            json.dump({"multi": [s["desc"] for s in scns]}, f)
        return p

    def confirm(self, drv, prop, specdir, tla, cfg, cands, sig_fn, extra=(), tries=1):
        """cands: list of (sig, reject, scenario). Re-run the smallest scenario of each signature in a
        fresh driver process; report those rejected again with the same signature. tries > 1 (for
        observations that depend on the goroutine schedule): up to that many of the rejected scenarios
        of a signature are re-run, smallest first, and the first that is rejected again is reported."""
        if not cands:
            return
        per = {}
        for sig, r, scn in cands:
            per.setdefault(sig, []).append((r, scn))
        chosen = []
        for sig, lst in sorted(per.items()):
            lst.sort(key=lambda x: x[1]["nev"])
            seen_ids = set()
            for r, scn in lst:
                if scn["id"] in seen_ids:
                    continue
                seen_ids.add(scn["id"])
                chosen.append((sig, r, scn, len(lst)))
                if len(seen_ids) >= tries:
                    break
        if self.replay:
            done = set()
            for sig, r, scn, n in chosen:
                if sig not in done:
                    done.add(sig)
                    self.report(sig, self.replay, json.dumps(r))
            return
        mp = self.write_multi([c[2] for c in chosen])
        td2 = self.drive(drv, prop, sub="confirm", replay=mp, shards=min(16, len(chosen)), extra=extra)
        rej2, _ = self.validate_traces(specdir, tla, cfg, td2, label="confirm")
        idx2 = self.load_index(td2)
        again = {}
        for r in rej2:
            s2 = idx2[r["scn"]]
            again.setdefault(s2["ord"], []).append((sig_fn(r, s2), r))
        confirmed = set()
        for i, (sig, r, scn, n) in enumerate(chosen):
            if sig in confirmed:
                continue
            hits = [x for x in again.get(i, []) if x[0] == sig]
            if hits:
                confirmed.add(sig)
                path = self.write_replay(scn, tag=re.sub(r"[^A-Za-z0-9_.-]+", "_", sig))
                self.report(sig, path, "%d scenario(s); first: %s" % (n, json.dumps(hits[0][1])))
        for sig in sorted({c[0] for c in chosen} - confirmed):
            self.notes.append("unconfirmed rejection %s (%d scenario(s) re-run) - not reported" % (
                sig, sum(1 for c in chosen if c[0] == sig)))

    def write_replay(self, scn, tag=None):
        name = "replay-%s-seed%d-%s.json" % (self.tier, self.seed, tag if tag is not None else scn["id"])
        p = os.path.join(self.out, name)
        with open(p, "w") as f:
            json.dump(scn["desc"], f)
        return p

    # ---- verdicts ------------------------------------------------------------
    def match_known(self, sig):
        for f in self.findings:
            if f.get("status") == "known" and re.fullmatch(f["sig"], sig):
                return f
        return None

    def report(self, sig, replay_path, text):
        """Record one confirmed rejection of real behaviour."""
        k = self.match_known(sig)
        if os.environ.get("VERIF_DEBUG"):
            log("report: %s -> %s" % (sig, "known" if k is not None else "VIOLATION"))
        if k is not None:
            if not any(x[0] is k for x in self.known_seen):
                self.known_seen.append((k, text))
        else:
            self.violations.append((sig, replay_path, text))

    def sample(self, x):
        if len(self.cov["samples"]) < 6:
            self.cov["samples"].append(x)

    def finish(self, rule, level="model_checking", exhaustive=False):
        self.cov["rule"] = rule
        self.cov["exhaustive"] = exhaustive
        self.cov["known_findings_seen"] = [k["sig"] for k, _ in self.known_seen]
        self.cov["notes"] = self.notes
        if not self.cov["samples"]:
            self.cov["samples"] = ["(no sample recorded)"]
        ev = {"property_id": self.pid, "tier": self.tier, "seed": self.seed, "level": level,
              "coverage": self.cov, "assumptions": self.assumptions,
              "wall_s": round(time.time() - self.t0, 2), "violations": len(self.violations)}
        # evidence/<id>.json describes a quick/thorough run; a --replay run (one scenario, no model
        # checking) or a run redirected by VERIF_EVIDENCE_DIR (tools/try_mutant.sh) must not replace it
        evdir = os.environ.get("VERIF_EVIDENCE_DIR") or os.path.join(VERIF, "evidence")
        evname = self.pid + (".replay.json" if self.replay else ".json")
        if self.replay and not os.environ.get("VERIF_EVIDENCE_DIR"):
            evdir = os.path.join(VERIF, "out", self.pid)
        os.makedirs(evdir, exist_ok=True)
        with open(os.path.join(evdir, evname), "w") as f:
            json.dump(ev, f, indent=1)
        for k, text in self.known_seen:
            print("KNOWN-FINDING: property=%s %s" % (self.pid, k["what"]))
        seen = set()
        for sig, path, text in self.violations:
            if sig in seen:
                continue
            seen.add(sig)
            print("VIOLATION property=%s replay=%s" % (self.pid, path))
            print("  signature: %s" % sig)
            print("  " + text[:600])
        shutil.rmtree(self.scratch, ignore_errors=True)
        print("%s %s seed=%d: %d scenarios validated, %d model states, %d violation signature(s), %d known, %.1fs" % (
            self.pid, self.tier, self.seed, self.cov["traces_validated_against_impl"], self.cov["states"],
            len(seen), len(self.known_seen), time.time() - self.t0))
        return 1 if self.violations else 0


def load_findings():
    p = os.path.join(VERIF, "known_findings.json")
    if not os.path.exists(p):
        return []
    return json.load(open(p)).get("findings", [])


def run(main):
    """Wrap a check's main(): convert tool failures into exit 2."""
    try:
        rc = main()
    except Exception as e:  # noqa: BLE001 - any failure of the machinery itself is inconclusive, never a verdict
        if not isinstance(e, Inconclusive):
            import traceback
            traceback.print_exc()
            e = "%s: %s" % (type(e).__name__, e)
        print("INCONCLUSIVE: %s" % e)
        # leave nothing behind: scratch directories of this process
        rundir = os.path.join(VERIF, ".run")
        if os.path.isdir(rundir):
            for d in os.listdir(rundir):
                if d.endswith("-%d" % os.getpid()):
                    shutil.rmtree(os.path.join(rundir, d), ignore_errors=True)
        sys.exit(2)
    sys.exit(rc)
