"""Binding self-test shared by checks: take recorded, accepted scenarios,
corrupt one observed field in each, and require the trace specification to
accept the intact ones and reject every corrupted one (guards against a
vacuous trace spec). Two TLC runs (intact / corrupted), in parallel.
Returns a list for the evidence."""
import concurrent.futures as cf
import glob
import json
import os
import shutil


def scenarios(tracedir):
    """Yield lists of events, one list per recorded scenario."""
    for f in sorted(glob.glob(os.path.join(tracedir, "shard*.ndjson"))):
        cur = []
        for line in open(f):
            e = json.loads(line)
            if e.get("ev") == "reset" and cur:
                yield cur
                cur = []
            cur.append(e)
        if cur:
            yield cur


def run(c, specdir, tla, cfg, tracedir, rejected_scns, mutators):
    """mutators: list of (name, fn) where fn(events) returns a corrupted copy or
    None when the scenario has nothing to corrupt. For each mutator the first
    accepted scenario it applies to is used."""
    from vcheck import Inconclusive
    todo = list(mutators)
    picked = []  # (name, intact, corrupt)
    for evs in scenarios(tracedir):
        if not todo:
            break
        if evs[0].get("scn") in rejected_scns:
            continue
        for m in list(todo):
            name, fn = m
            bad = fn(json.loads(json.dumps(evs)))
            if bad is None:
                continue
            todo.remove(m)
            if isinstance(bad, tuple):   # the corruption chose its own intact sub-scenario
                picked.append((name, bad[0], bad[1]))
            else:
                picked.append((name, evs, bad))
    d = os.path.join(c.scratch, "selftest")
    os.makedirs(d, exist_ok=True)

    def tlc(label, which):
        shard = os.path.join(d, label + ".ndjson")
        with open(shard, "w") as f:
            for i, p in enumerate(picked):
                for e in p[which]:
                    f.write(json.dumps(dict(e, scn=i)) + "\n")
        rc, out = c._tlc(specdir, tla, cfg, {"TRACE": shard}, 1, os.path.join(d, "md-" + label), 900)
        shutil.rmtree(os.path.join(d, "md-" + label), ignore_errors=True)
        if "Model checking completed. No error has been found." not in out:
            raise Inconclusive("TLC failed in binding self-test (%s)" % label)
        rej = set()
        for line in out.splitlines():
            line = line.strip()
            if line.startswith('"REJECT '):
                rej.add(json.loads(json.loads(line)[7:])["scn"])
        return rej

    with cf.ThreadPoolExecutor(max_workers=2) as ex:
        fi, fc = ex.submit(tlc, "intact", 1), ex.submit(tlc, "corrupt", 2)
        ri, rc_ = fi.result(), fc.result()
    res = []
    for i, (name, _, _) in enumerate(picked):
        r = {"corruption": name, "intact_accepted": i not in ri, "corrupt_rejected": i in rc_}
        res.append(r)
        if not r["intact_accepted"] and r["corrupt_rejected"] and getattr(c, "reject_total", 0) > 0:
            # the run itself has rejections (the tree under test misbehaves), and the scenario picked
            # for this corruption is one of the misbehaving ones: the corruption cannot be judged on
            # it; the verdict of the run comes from the rejections, not from the self-test
            r["skipped"] = "intact scenario is itself rejected in a run that has rejections"
            continue
        if not (r["intact_accepted"] and r["corrupt_rejected"]):
            raise Inconclusive("binding self-test failed: %s" % json.dumps(r))
    for name, _ in todo:
        res.append({"corruption": name, "skipped": "no recorded scenario to apply it to"})
    return res
