package demo

import (
	"testing"

	"git.sr.ht/~rockorager/vaxis"
)

// The legacy (ESC-prefixed) encoding of Alt+<key> for the ASCII keys
// 0x20..0x2F: Alt+Space = ESC SP, Alt+. = ESC '.', Alt+/ = ESC '/',
// Alt+# = ESC '#', Alt+- = ESC '-' ... The kitty encoding is CSI <code>;3u.
// The user presses Alt+<key>, then (50ms later) the plain key 'a'.
func TestAltPunctuationEscPrefixed(t *testing.T) {
	for _, ch := range []rune{' ', '.', '/', '#', '-', ',', '+', '!'} {
		keys, _ := keysFor(t, "\x1b"+string(ch), "a")
		kk, _ := keysFor(t, "\x1b["+itoa(int(ch))+";3u", "a")
		if len(kk) != 2 || kk[0].Keycode != ch || kk[0].Modifiers != vaxis.ModAlt || kk[1].String() != "a" {
			t.Fatalf("kitty reference broken: %#v", kk)
		}
		var got []string
		for _, k := range keys {
			got = append(got, k.String())
		}
		want := []string{kk[0].String(), "a"}
		if len(keys) != 2 || got[0] != want[0] || got[1] != want[1] ||
			!keys[0].Matches(ch, vaxis.ModAlt) {
			t.Errorf("ESC %q then 'a': got events %q, kitty encoding gives %q", ch, got, want)
		}
	}
}

func itoa(i int) string {
	s := ""
	for i > 0 {
		s = string(rune('0'+i%10)) + s
		i /= 10
	}
	return s
}
