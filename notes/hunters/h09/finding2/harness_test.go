package demo

import (
	"bytes"
	"io"
	"os"
	"sync"
	"testing"
	"time"

	"git.sr.ht/~rockorager/vaxis"
	"github.com/containerd/console"
)

// fakeConsole is an in-memory console: it answers DSR-CPR and DA1 and lets
// the test inject input bytes.
type fakeConsole struct {
	mu     sync.Mutex
	in     chan []byte
	rest   []byte
	closed chan struct{}
	once   sync.Once
	out    bytes.Buffer
}

func newFake() *fakeConsole {
	return &fakeConsole{in: make(chan []byte, 1024), closed: make(chan struct{})}
}

func (f *fakeConsole) Read(p []byte) (int, error) {
	if len(f.rest) == 0 {
		select {
		case b := <-f.in:
			f.rest = b
		case <-f.closed:
			return 0, io.EOF
		}
	}
	n := copy(p, f.rest)
	f.rest = f.rest[n:]
	return n, nil
}

func (f *fakeConsole) Write(p []byte) (int, error) {
	f.mu.Lock()
	f.out.Write(p)
	f.mu.Unlock()
	if bytes.Contains(p, []byte("\x1b[6n")) {
		f.in <- []byte("\x1b[1;1R")
	}
	if bytes.Contains(p, []byte("\x1b[c")) {
		f.in <- []byte("\x1b[?62;22c")
	}
	return len(p), nil
}
func (f *fakeConsole) Output() string {
	f.mu.Lock()
	defer f.mu.Unlock()
	return f.out.String()
}
func (f *fakeConsole) Close() error                       { f.once.Do(func() { close(f.closed) }); return nil }
func (f *fakeConsole) Fd() uintptr                        { return ^uintptr(0) }
func (f *fakeConsole) Name() string                       { return "fake" }
func (f *fakeConsole) Resize(console.WinSize) error       { return nil }
func (f *fakeConsole) ResizeFrom(console.Console) error   { return nil }
func (f *fakeConsole) SetRaw() error                      { return nil }
func (f *fakeConsole) DisableEcho() error                 { return nil }
func (f *fakeConsole) Reset() error                       { return nil }
func (f *fakeConsole) Size() (console.WinSize, error) {
	return console.WinSize{Height: 24, Width: 80}, nil
}

const sentinel = "\x1b[57363u" // kitty Menu key

// keysFor starts Vaxis on a fake console, injects the chunks (each chunk is
// one write of the terminal, 50ms apart, i.e. separate key presses) and
// returns the Key events delivered before the sentinel key.
func keysFor(t *testing.T, chunks ...string) ([]vaxis.Key, *fakeConsole) {
	t.Helper()
	os.Unsetenv("COLORTERM")
	for _, e := range []string{"VAXIS_FORCE_LEGACY_SGR", "VAXIS_FORCE_WCWIDTH", "VAXIS_FORCE_UNICODE", "VAXIS_FORCE_XTWINOPS", "VAXIS_LOG_LEVEL", "VAXIS_GRAPHICS"} {
		os.Unsetenv(e)
	}
	fc := newFake()
	vx, err := vaxis.New(vaxis.Options{WithConsole: fc})
	if err != nil {
		t.Fatal(err)
	}
	defer vx.Close()
	go func() {
		for _, c := range chunks {
			fc.in <- []byte(c)
			time.Sleep(50 * time.Millisecond)
		}
		fc.in <- []byte(sentinel)
	}()
	var keys []vaxis.Key
	timeout := time.After(5 * time.Second)
	for {
		select {
		case ev := <-vx.Events():
			if k, ok := ev.(vaxis.Key); ok {
				if k.Keycode == vaxis.KeyMenu {
					return keys, fc
				}
				keys = append(keys, k)
			}
		case <-timeout:
			t.Fatalf("timeout; keys so far %v", keys)
		}
	}
}
