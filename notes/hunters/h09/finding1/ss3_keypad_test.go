package demo

import (
	"strings"
	"testing"

	"git.sr.ht/~rockorager/vaxis"
)

// Vaxis itself switches the terminal to application keypad mode (DECKPAM,
// ESC =) when it starts. In that mode xterm & co. report the keypad keys as
// SS3 sequences: ESC O M (KP_Enter), ESC O E (KP_Begin), ESC O p..y (KP_0..9),
// ESC O j k l m n o X (* + , - . / =). The kitty encoding of the same keys
// is CSI 57414 u etc. Both must decode to the same named key.
func TestSS3KeypadKeys(t *testing.T) {
	cases := []struct {
		ss3, kitty string
		want       rune
	}{
		{"\x1bOM", "\x1b[57414u", vaxis.KeyKeyPadEnter},
		{"\x1bOE", "\x1b[1E", vaxis.KeyKeyPadBegin},
		{"\x1bOp", "\x1b[57399u", vaxis.KeyKeyPad0},
		{"\x1bOj", "\x1b[57411u", vaxis.KeyKeyPadMultiply},
		{"\x1bOk", "\x1b[57413u", vaxis.KeyKeyPadAdd},
		{"\x1bOX", "\x1b[57415u", vaxis.KeyKeyPadEqual},
	}
	for _, c := range cases {
		keys, fc := keysFor(t, c.ss3, c.kitty)
		if !strings.Contains(fc.Output(), "\x1b=") {
			t.Fatalf("vaxis did not enable application keypad mode (test premise)")
		}
		if len(keys) != 2 {
			t.Fatalf("%q: want 2 keys, got %#v", c.ss3, keys)
		}
		l, k := keys[0], keys[1]
		if k.Keycode != c.want {
			t.Fatalf("kitty %q decoded to %q", c.kitty, k.String())
		}
		if l.Keycode != c.want || l.String() != k.String() {
			t.Errorf("SS3 %q: Keycode=%d String()=%q; kitty %q: String()=%q", c.ss3, l.Keycode, l.String(), c.kitty, k.String())
		}
		if !l.MatchString(l.String()) {
			t.Errorf("SS3 %q: event does not match its own description %q", c.ss3, l.String())
		}
		if !l.Matches(c.want) {
			t.Errorf("SS3 %q: does not match the binding %q that the kitty report matches", c.ss3, k.String())
		}
	}
}
