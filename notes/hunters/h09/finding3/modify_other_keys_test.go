package demo

import (
	"testing"

	"git.sr.ht/~rockorager/vaxis"
)

// xterm modifyOtherKeys (CSI 27 ; mods ; code ~, which decodeKey handles as a
// special case) reports Ctrl+Shift+a as CSI 27;6;65~ (code of 'A'); kitty
// reports the same chord as CSI 97;6u (or 97:65;6u). ESC A and a printed 'A'
// are normalized to key 'a' + Shift (+ShiftedCode 'A'); this encoding is not.
func TestModifyOtherKeysShiftedLetter(t *testing.T) {
	cases := []struct {
		legacy, kitty string
		mods          vaxis.ModifierMask
	}{
		{"\x1b[27;6;65~", "\x1b[97:65;6u", vaxis.ModCtrl | vaxis.ModShift},
		{"\x1b[27;6;65~", "\x1b[97;6u", vaxis.ModCtrl | vaxis.ModShift},
		{"\x1b[27;8;65~", "\x1b[97:65;8u", vaxis.ModCtrl | vaxis.ModAlt | vaxis.ModShift},
		{"\x1b[27;2;65~", "\x1b[97:65;2;65u", vaxis.ModShift},
	}
	for _, c := range cases {
		keys, _ := keysFor(t, c.legacy, c.kitty)
		if len(keys) != 2 {
			t.Fatalf("want 2 keys, got %#v", keys)
		}
		l, k := keys[0], keys[1]
		if l.String() != k.String() {
			t.Errorf("%q String()=%q but %q String()=%q", c.legacy, l.String(), c.kitty, k.String())
		}
		// the chord the user pressed: <mods incl. Shift> + a
		if lm, km := l.Matches('a', c.mods), k.Matches('a', c.mods); lm != km {
			t.Errorf("binding ('a', %q-mods): %q matches=%v, %q matches=%v", k.String(), c.legacy, lm, c.kitty, km)
		}
		if lm, km := l.MatchString(k.String()), k.MatchString(k.String()); lm != km {
			t.Errorf("binding %q: %q matches=%v, %q matches=%v", k.String(), c.legacy, lm, c.kitty, km)
		}
	}
}
