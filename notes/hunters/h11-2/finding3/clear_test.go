package demo

import (
	"image"
	"strings"
	"testing"

	"git.sr.ht/~rockorager/vaxis"
)

// A kitty image is placed through a window at columns 0-1. In the next frame
// the application draws the image again and then clears and reprints a
// different child window at columns 5-7, which neither contains nor overlaps
// the image. Window.Clear resets vx.graphicsNext for the whole screen, so
// Render deletes the image from the terminal: clearing one window changed
// screen cells (the image) outside that window.
func TestChildClearRemovesImageOutsideIt(t *testing.T) {
	f := start(t, 10, 4)
	defer f.vx.Close()
	root := f.vx.Window()
	root.Clear()

	img := f.vx.NewKittyGraphic(image.NewRGBA(image.Rect(0, 0, 8, 8)))
	imgWin := root.New(0, 0, 2, 2)
	pane := root.New(5, 0, 3, 2)

	img.Draw(imgWin)
	f.vx.Render()
	out1 := f.con.output()
	if !strings.Contains(out1, "\x1b_Ga=p,i=1,") {
		t.Fatalf("frame 1 did not place the image: %q", strings.ReplaceAll(out1, "\x00", ""))
	}

	// frame 2
	img.Draw(imgWin)
	pane.Clear()
	pane.Print(vaxis.Segment{Text: "hi"})
	f.vx.Render()
	out2 := strings.TrimPrefix(f.con.output(), out1)
	t.Logf("frame 2 output: %q", out2)
	if strings.Contains(out2, "\x1b_Ga=d,d=i,i=1,") {
		t.Errorf("clearing the window at columns 5-7 deleted the image placed at columns 0-1")
	}
}
