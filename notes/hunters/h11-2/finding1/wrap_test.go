package demo

import (
	"testing"

	"git.sr.ht/~rockorager/vaxis"
)

// "a", then the single grapheme cluster SPACE + COMBINING ACUTE ACCENT.
// Characters() (and so Print) keeps " ́" in one cell; Wrap cuts the
// text into line segments first ("a " | "́"), so the cluster is split
// over two cells, and the second half is placed on a row of its own.
func TestWrapSplitsCluster(t *testing.T) {
	f := start(t, 4, 3)
	defer f.vx.Close()
	text := "a ́"
	if n := len(vaxis.Characters(text)); n != 2 {
		t.Fatalf("text has %d clusters, expected 2", n)
	}
	red := vaxis.Style{Background: vaxis.IndexColor(1)}

	win := f.vx.Window().New(0, 0, 2, 3)
	f.vx.Window().Clear()
	pc, pr := win.Print(vaxis.Segment{Text: text, Style: red})
	ep := f.screen()
	t.Logf("Print -> (%d,%d)\n%s", pc, pr, f.dump(ep))

	f.vx.Window().Clear()
	wc, wr := win.Wrap(vaxis.Segment{Text: text, Style: red})
	ew := f.screen()
	t.Logf("Wrap  -> (%d,%d)\n%s", wc, wr, f.dump(ew))

	// two clusters of width 1 fill row 0 of the 2-column window exactly;
	// nothing of the text belongs on row 1
	if got := ew.row(1); got != "...." {
		t.Errorf("Wrap put part of the cluster %q into a cell of row 1: %s (Print: %s)", " ́", got, ep.row(1))
	}
	if got, want := ew.g[0][1].text, " ́"; got != want {
		t.Errorf("Wrap: cell (1,0) holds %q, want the whole cluster %q (Print shows %q)", got, want, ep.g[0][1].text)
	}
}
