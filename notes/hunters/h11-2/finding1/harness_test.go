package demo

import (
	"fmt"
	"os"
	"strconv"
	"strings"
	"sync"
	"testing"

	"git.sr.ht/~rockorager/vaxis"
	"github.com/containerd/console"
	"github.com/rivo/uniseg"
)

// ---- in-memory console -------------------------------------------------

type fakeConsole struct {
	mu     sync.Mutex
	out    []byte
	in     chan []byte
	closed chan struct{}
	once   sync.Once
	cols   int
	rows   int
	pend   []byte
}

func newFake(cols, rows int) *fakeConsole {
	return &fakeConsole{in: make(chan []byte, 64), closed: make(chan struct{}), cols: cols, rows: rows}
}

func (f *fakeConsole) Read(p []byte) (int, error) {
	if len(f.pend) == 0 {
		select {
		case b := <-f.in:
			f.pend = b
		case <-f.closed:
			return 0, os.ErrClosed
		}
	}
	n := copy(p, f.pend)
	f.pend = f.pend[n:]
	return n, nil
}

func (f *fakeConsole) Write(p []byte) (int, error) {
	f.mu.Lock()
	f.out = append(f.out, p...)
	f.mu.Unlock()
	s := string(p)
	if strings.Contains(s, "\x1b[6n") {
		f.in <- []byte("\x1b[1;1R")
	}
	if strings.Contains(s, "\x1b[c") {
		f.in <- []byte("\x1b[?62;22c")
	}
	return len(p), nil
}

func (f *fakeConsole) Close() error                      { f.once.Do(func() { close(f.closed) }); return nil }
func (f *fakeConsole) Fd() uintptr                       { return ^uintptr(0) }
func (f *fakeConsole) Name() string                      { return "fake" }
func (f *fakeConsole) Resize(console.WinSize) error      { return nil }
func (f *fakeConsole) ResizeFrom(console.Console) error  { return nil }
func (f *fakeConsole) SetRaw() error                     { return nil }
func (f *fakeConsole) DisableEcho() error                { return nil }
func (f *fakeConsole) Reset() error                      { return nil }
func (f *fakeConsole) Size() (console.WinSize, error) {
	return console.WinSize{Width: uint16(f.cols), Height: uint16(f.rows)}, nil
}

func (f *fakeConsole) output() string {
	f.mu.Lock()
	defer f.mu.Unlock()
	return string(f.out)
}

// ---- tiny reference terminal --------------------------------------------

type tcell struct {
	text string // "" = blank
	bg   string // "" = default
	cont bool   // right half of a wide character
}

type emu struct {
	cols, rows int
	g          [][]tcell
	r, c       int
	bg         string
}

func newEmu(cols, rows int) *emu {
	e := &emu{cols: cols, rows: rows}
	e.g = make([][]tcell, rows)
	for i := range e.g {
		e.g[i] = make([]tcell, cols)
	}
	return e
}

func (e *emu) put(cl string) {
	w := uniseg.StringWidth(cl)
	if w == 0 {
		return
	}
	if e.c+w > e.cols {
		// would wrap: not expected in these demos
		e.r, e.c = e.r+1, 0
	}
	if e.r >= e.rows {
		return
	}
	row := e.g[e.r]
	// overwriting the right half of a wide char blanks its left half
	if row[e.c].cont && e.c > 0 {
		row[e.c-1] = tcell{bg: row[e.c-1].bg}
	}
	// overwriting the left half of a wide char blanks its right half
	last := e.c + w - 1
	if last+1 < e.cols && row[last+1].cont {
		row[last+1] = tcell{bg: row[last+1].bg}
	}
	if cl == " " {
		row[e.c] = tcell{bg: e.bg}
	} else {
		row[e.c] = tcell{text: cl, bg: e.bg}
	}
	for i := 1; i < w; i++ {
		row[e.c+i] = tcell{bg: e.bg, cont: true}
	}
	e.c += w
	if e.c >= e.cols {
		e.c = e.cols - 1
	}
}

func (e *emu) sgr(ps string) {
	if ps == "" || ps == "0" {
		e.bg = ""
		return
	}
	switch {
	case ps == "49":
		e.bg = ""
	case strings.HasPrefix(ps, "48:"), strings.HasPrefix(ps, "48;"):
		e.bg = ps
	case len(ps) == 2 && ps[0] == '4' && ps[1] >= '0' && ps[1] <= '7':
		e.bg = ps
	case len(ps) == 3 && strings.HasPrefix(ps, "10"):
		e.bg = ps
	}
}

func (e *emu) feed(s string) {
	i := 0
	for i < len(s) {
		b := s[i]
		switch {
		case b == 0x1b && i+1 < len(s):
			n := s[i+1]
			switch n {
			case '[':
				j := i + 2
				for j < len(s) && (s[j] < 0x40 || s[j] > 0x7e) {
					j++
				}
				if j >= len(s) {
					return
				}
				ps := s[i+2 : j]
				switch s[j] {
				case 'H':
					r, c := 1, 1
					parts := strings.Split(ps, ";")
					if len(parts) > 0 && parts[0] != "" {
						r, _ = strconv.Atoi(parts[0])
					}
					if len(parts) > 1 && parts[1] != "" {
						c, _ = strconv.Atoi(parts[1])
					}
					e.r, e.c = r-1, c-1
				case 'm':
					e.sgr(ps)
				case 'J':
					for y := range e.g {
						for x := range e.g[y] {
							e.g[y][x] = tcell{}
						}
					}
				}
				i = j + 1
			case ']', 'P', '_', '^', 'X':
				j := i + 2
				for j < len(s) {
					if s[j] == 0x07 {
						j++
						break
					}
					if s[j] == 0x1b && j+1 < len(s) && s[j+1] == '\\' {
						j += 2
						break
					}
					j++
				}
				i = j
			default:
				j := i + 1
				for j < len(s) && s[j] >= 0x20 && s[j] <= 0x2f {
					j++
				}
				i = j + 1
			}
		case b < 0x20 || b == 0x7f:
			i++
		default:
			j := i
			for j < len(s) && s[j] >= 0x20 && s[j] != 0x7f {
				j++
			}
			run := s[i:j]
			state := -1
			var cl string
			for run != "" {
				cl, run, _, state = uniseg.FirstGraphemeClusterInString(run, state)
				e.put(cl)
			}
			i = j
		}
	}
}

func (e *emu) row(r int) string {
	var sb strings.Builder
	for _, c := range e.g[r] {
		t := c.text
		switch {
		case c.cont:
			t = "<"
		case t == "":
			t = "."
		}
		if c.bg != "" {
			t = "[" + t + "]"
		}
		sb.WriteString(t)
	}
	return sb.String()
}

// ---- fixture -----------------------------------------------------------------

type fixture struct {
	t    *testing.T
	vx   *vaxis.Vaxis
	con  *fakeConsole
	cols int
	rows int
}

func start(t *testing.T, cols, rows int) *fixture {
	for _, kv := range os.Environ() {
		k := strings.SplitN(kv, "=", 2)[0]
		if k == "COLORTERM" || strings.HasPrefix(k, "VAXIS_") {
			os.Unsetenv(k)
		}
	}
	con := newFake(cols, rows)
	vx, err := vaxis.New(vaxis.Options{WithConsole: con})
	if err != nil {
		t.Fatal(err)
	}
	// drain events so the queue never fills
	go func() {
		for range vx.Events() {
		}
	}()
	f := &fixture{t: t, vx: vx, con: con, cols: cols, rows: rows}
	w, h := vx.Window().Size()
	if w != cols || h != rows {
		t.Fatalf("screen is %dx%d, want %dx%d", w, h, cols, rows)
	}
	return f
}

// screen renders and returns what the reference terminal shows
func (f *fixture) screen() *emu {
	f.vx.Render()
	e := newEmu(f.cols, f.rows)
	e.feed(f.con.output())
	return e
}

func (f *fixture) dump(e *emu) string {
	var sb strings.Builder
	for r := 0; r < f.rows; r++ {
		fmt.Fprintf(&sb, "    row %d: %s\n", r, e.row(r))
	}
	return sb.String()
}
