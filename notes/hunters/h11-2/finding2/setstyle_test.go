package demo

import (
	"testing"

	"git.sr.ht/~rockorager/vaxis"
)

// changed lists the cells whose rendered content (text, background,
// continuation) differs between two snapshots of the reference terminal
func changed(a, b *emu) [][2]int {
	var out [][2]int
	for r := range a.g {
		for c := range a.g[r] {
			if a.g[r][c] != b.g[r][c] {
				out = append(out, [2]int{c, r})
			}
		}
	}
	return out
}

// The root window shows a wide character in columns 2-3. A child window
// covering columns 0-2 restyles all of its own cells with SetStyle (the usual
// way to highlight a pane). SetCell refuses a wide character that would hang
// over the right edge of the window; SetStyle has no such check, so the style
// of the wide character is changed and with it column 3, outside the window.
func TestSetStyleEscapesThroughWideCell(t *testing.T) {
	f := start(t, 6, 2)
	defer f.vx.Close()
	root := f.vx.Window()
	root.Clear()
	root.Print(vaxis.Segment{Text: "ab世ef"})
	before := f.screen()
	t.Logf("before:\n%s", f.dump(before))

	win := root.New(0, 0, 3, 2) // columns 0..2
	red := vaxis.Style{Background: vaxis.IndexColor(1)}
	for row := 0; row < 2; row++ {
		for col := 0; col < 3; col++ {
			win.SetStyle(col, row, red)
		}
	}
	after := f.screen()
	t.Logf("after:\n%s", f.dump(after))

	for _, p := range changed(before, after) {
		if p[0] >= 3 {
			t.Errorf("cell (%d,%d) is outside the window (columns 0-2) but changed: %+v -> %+v",
				p[0], p[1], before.g[p[1]][p[0]], after.g[p[1]][p[0]])
		}
	}
}

// Same geometry, text instead of style: the window (columns 0-2) overwrites
// its last column, which holds the left half of the wide character, with a
// narrow one. Column 3, outside the window, changes as well: it now shows
// whatever was buried in the model under the right half of the wide
// character ("X", drawn in an earlier frame).
func TestSetCellOnLeftHalfChangesNeighbourOutside(t *testing.T) {
	f := start(t, 6, 2)
	defer f.vx.Close()
	root := f.vx.Window()
	root.Clear()
	root.Print(vaxis.Segment{Text: "abcXef"})
	f.screen()
	root.SetCell(2, 0, vaxis.Cell{Character: vaxis.Character{Grapheme: "世"}})
	before := f.screen()
	t.Logf("before:\n%s", f.dump(before))

	win := root.New(0, 0, 3, 2) // columns 0..2
	win.SetCell(2, 0, vaxis.Cell{Character: vaxis.Character{Grapheme: "c", Width: 1}})
	after := f.screen()
	t.Logf("after:\n%s", f.dump(after))
	for _, p := range changed(before, after) {
		if p[0] >= 3 {
			t.Errorf("cell (%d,%d) is outside the window (columns 0-2) but changed: %+v -> %+v",
				p[0], p[1], before.g[p[1]][p[0]], after.g[p[1]][p[0]])
		}
	}
}
