package demo

import (
	"bytes"
	"fmt"
	"strings"
	"testing"

	"git.sr.ht/~rockorager/vaxis/ansi"
)

func show(seq ansi.Sequence) string {
	switch s := seq.(type) {
	case ansi.Print:
		return fmt.Sprintf("Print(%q,%d)", s.Grapheme, s.Width)
	case ansi.C0:
		return fmt.Sprintf("C0(%#x)", rune(s))
	case ansi.ESC:
		return fmt.Sprintf("ESC(%q,%q)", string(s.Intermediate), s.Final)
	case ansi.SS3:
		return fmt.Sprintf("SS3(%q)", rune(s))
	case ansi.CSI:
		return fmt.Sprintf("CSI(%q,%v,%q)", string(s.Intermediate), s.Parameters, s.Final)
	case ansi.OSC:
		return fmt.Sprintf("OSC(%q)", string(s.Payload))
	case ansi.DCS:
		return fmt.Sprintf("DCS(%q,%v,%q,%q)", string(s.Intermediate), s.Parameters, s.Final, string(s.Data))
	case ansi.APC:
		return fmt.Sprintf("APC(%q)", s.Data)
	case ansi.EOF:
		return "EOF"
	case error:
		return "ERR(" + s.Error() + ")"
	}
	return fmt.Sprintf("?%T", seq)
}

func run(in string) string {
	p := ansi.NewParser(bytes.NewReader([]byte(in)))
	var out []string
	for seq := range p.Next() {
		out = append(out, show(seq))
	}
	return strings.Join(out, " ")
}

// A complete DCS whose second parameter does not fit an int. The CSI with the
// same parameter string is delivered once with the parameter saturated
// ([[1] [MaxInt] [3]]); the DCS must likewise be delivered exactly once, with
// three parameters of which the first and third are exact, and nothing else
// may be delivered for it.
func TestDCSHugeParameter(t *testing.T) {
	csi := run("\x1b[1;99999999999999999999;3m")
	t.Logf("CSI: %s", csi)
	got := run("\x1bP1;99999999999999999999;3q#data\x1b\\X")
	t.Logf("DCS: %s", got)
	want := `DCS("",[1 9223372036854775807 3],'q',"#data") Print("X",1) EOF`
	if got != want {
		t.Errorf("\n got:  %s\n want: %s", got, want)
	}
	// the valid neighbours of the big parameter are lost as well
	if strings.Contains(got, "ERR(") {
		t.Errorf("a complete DCS delivered an error value besides the DCS")
	}
}
