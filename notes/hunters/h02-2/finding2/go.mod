module demo

go 1.23

require git.sr.ht/~rockorager/vaxis v0.0.0

require github.com/rivo/uniseg v0.4.4

replace git.sr.ht/~rockorager/vaxis => /tmp/hunt/h02/repo
