package demo

import (
	"bytes"
	"fmt"
	"strings"
	"testing"

	"git.sr.ht/~rockorager/vaxis/ansi"
)

func show(seq ansi.Sequence) string {
	switch s := seq.(type) {
	case ansi.Print:
		return fmt.Sprintf("Print(%q,%d)", s.Grapheme, s.Width)
	case ansi.C0:
		return fmt.Sprintf("C0(%#x)", rune(s))
	case ansi.ESC:
		return fmt.Sprintf("ESC(%q,%q)", string(s.Intermediate), s.Final)
	case ansi.SS3:
		return fmt.Sprintf("SS3(%q)", rune(s))
	case ansi.CSI:
		return fmt.Sprintf("CSI(%q,%v,%q)", string(s.Intermediate), s.Parameters, s.Final)
	case ansi.OSC:
		return fmt.Sprintf("OSC(%q)", string(s.Payload))
	case ansi.DCS:
		return fmt.Sprintf("DCS(%q,%v,%q,%q)", string(s.Intermediate), s.Parameters, s.Final, string(s.Data))
	case ansi.APC:
		return fmt.Sprintf("APC(%q)", s.Data)
	case ansi.EOF:
		return "EOF"
	case error:
		return "ERR(" + s.Error() + ")"
	}
	return fmt.Sprintf("?%T", seq)
}

func run(in string) string {
	p := ansi.NewParser(bytes.NewReader([]byte(in)))
	var out []string
	for seq := range p.Next() {
		out = append(out, show(seq))
	}
	return strings.Join(out, " ")
}

// A DCS whose header holds a non-ASCII character after a parameter (or after
// an intermediate) is malformed. It has to deliver nothing and leave what
// follows its ST alone: only the "X" after the ST may be delivered.
func TestDCSHeaderNonASCII(t *testing.T) {
	for _, in := range []string{
		"\x1bP1édata\x1b\\X",
		"\x1bP$édata\x1b\\X",
	} {
		got := run(in)
		t.Logf("%q -> %s", in, got)
		want := `Print("X",1) EOF`
		if got != want {
			t.Errorf("%q\n got:  %s\n want: %s", in, got, want)
		}
	}
	// for comparison: the same character right after ESC P is taken as the
	// final character and the string runs to its ST
	t.Logf("%q -> %s", "\x1bPédata\x1b\\X", run("\x1bPédata\x1b\\X"))
}
