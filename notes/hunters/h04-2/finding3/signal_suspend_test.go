package demo

import (
	"syscall"
	"testing"
	"time"

	"git.sr.ht/~rockorager/vaxis"
)

// The application calls Suspend (say on Ctrl-Z). Suspend marks the instance
// suspended, asks the parser to stop and writes a DA1 query to wake it. While
// the terminal's reply is on its way a SIGTERM arrives. The input goroutine
// is still alive, takes the signal and calls Close; Close's Suspend sees
// "already suspended", restores nothing, and Close closes the console and
// returns. The application's Suspend then writes its resets to a closed
// console. No hooks are used, only a terminal that takes a moment to answer.
func TestSignalDuringSuspend(t *testing.T) {
	clearEnv()
	con := newFakeConsole(nil)
	vx, err := vaxis.New(vaxis.Options{WithConsole: con})
	if err != nil {
		t.Fatal(err)
	}
	vx.Window().Print(vaxis.Segment{Text: "hello"})
	vx.Render()

	closeReturned := make(chan string, 1)
	con.setHook(func(reply []byte) {
		if string(reply) != "\x1b[?62;22c" {
			return
		}
		// the reply to Suspend's DA1 is in flight: the signal arrives now
		con.setHook(nil)
		syscall.Kill(syscall.Getpid(), syscall.SIGTERM)
		select {
		case <-vx.Done():
			closeReturned <- con.output()
		case <-time.After(2 * time.Second):
			closeReturned <- ""
		}
	})

	suspendReturned := make(chan struct{})
	go func() {
		vx.Suspend()
		close(suspendReturned)
	}()

	outAtClose := <-closeReturned
	if outAtClose == "" {
		t.Fatal("Close did not return while the DA1 reply was in flight (scenario not reached)")
	}
	select {
	case <-suspendReturned:
	case <-time.After(5 * time.Second):
		t.Fatal("Suspend did not return")
	}
	vx.Close() // the application's own Close on QuitEvent: returns at once

	for _, c := range []struct{ when, out string }{
		{"when the signal's Close returned", outAtClose},
		{"after Suspend and a second Close returned", con.output()},
	} {
		st := replay(c.out)
		t.Logf("%s: altScreen=%v cursorVisible=%v mouse1002=%v mouse1003=%v focus1004=%v sgrMouse1006=%v paste2004=%v cursorKeys=%v",
			c.when, st.modes["1049"], st.modes["25"], st.modes["1002"], st.modes["1003"], st.modes["1004"], st.modes["1006"], st.modes["2004"], st.modes["1"])
		if st.modes["1049"] || !st.modes["25"] || st.modes["1002"] || st.modes["1003"] || st.modes["1004"] || st.modes["1006"] || st.modes["2004"] || st.modes["1"] {
			t.Errorf("%s the terminal is not restored", c.when)
		}
	}
}
