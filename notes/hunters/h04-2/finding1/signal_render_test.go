package demo

import (
	"fmt"
	"syscall"
	"testing"
	"time"

	"git.sr.ht/~rockorager/vaxis"
)

// A termination signal arrives while the application goroutine is inside
// Render. The signal handler runs Close on the input goroutine; Suspend's
// mode resets and Render's cells go through the same buffered writer, so
// whatever part of the frame Render has produced so far (cursor movement,
// colours, an OSC 8 hyperlink that the row has open) is flushed to the
// terminal together with (or after) the resets. Render's closing OSC 8 comes
// only after Close has closed the console.
func TestSignalDuringRenderLeavesHyperlinkOpen(t *testing.T) {
	clearEnv()
	const trials = 300
	bad := 0
	var first string
	for i := 0; i < trials; i++ {
		con := newFakeConsole(map[string]string{
			"\x1b[?2026$p": "\x1b[?2026;2$y", // synchronized output supported
		})
		vx, err := vaxis.New(vaxis.Options{WithConsole: con})
		if err != nil {
			t.Fatal(err)
		}
		stop := make(chan struct{})
		rendered := make(chan struct{})
		go func() {
			defer close(rendered)
			for n := 0; ; n++ {
				select {
				case <-stop:
					return
				default:
				}
				win := vx.Window()
				w, h := win.Size()
				for row := 0; row < h; row++ {
					for col := 0; col < w; col++ {
						win.SetCell(col, row, vaxis.Cell{
							Character: vaxis.Character{Grapheme: string(rune('a' + (n+col)%26)), Width: 1},
							Style: vaxis.Style{
								Hyperlink:  "https://example.org/",
								Foreground: vaxis.IndexColor(uint8(1 + (n+col)%6)),
							},
						})
					}
				}
				vx.Render()
			}
		}()
		time.Sleep(time.Duration(500+i*37%3000) * time.Microsecond)
		syscall.Kill(syscall.Getpid(), syscall.SIGTERM)
		select {
		case <-vx.Done():
		case <-time.After(5 * time.Second):
			t.Fatal("Close did not finish after SIGTERM")
		}
		// Close has returned (Done is closed after the console was closed,
		// the fake console accepts nothing from here on)
		out := con.output()
		close(stop)
		<-rendered
		st := replay(out)
		if st.hyperlink != "" || !st.modes["25"] || st.modes["1049"] || st.modes["2026"] {
			bad++
			if first == "" {
				tail := out
				if len(tail) > 160 {
					tail = tail[len(tail)-160:]
				}
				first = fmt.Sprintf("trial %d: after Close: hyperlink=%q cursorVisible=%v altScreen=%v syncOutput=%v; last output %q",
					i, st.hyperlink, st.modes["25"], st.modes["1049"], st.modes["2026"], tail)
			}
		}
	}
	if bad > 0 {
		t.Errorf("%d of %d shutdowns by SIGTERM during Render left the terminal changed; %s", bad, trials, first)
	}
}
