package demo

import (
	"os"
	"testing"

	"git.sr.ht/~rockorager/vaxis"
)

// The terminal advertises Unicode core (mode 2027, currently reset). The user
// runs the application with VAXIS_FORCE_WCWIDTH=1. Start-up sets 2027
// (enableModes runs before applyQuirks), the quirk then clears the capability,
// and neither Suspend nor Close resets the mode.
func TestForceWcwidthLeavesUnicodeCoreSet(t *testing.T) {
	clearEnv()
	os.Setenv("VAXIS_FORCE_WCWIDTH", "1")
	defer os.Unsetenv("VAXIS_FORCE_WCWIDTH")

	con := newFakeConsole(map[string]string{
		"\x1b[?2027$p": "\x1b[?2027;2$y", // recognised, reset
	})
	vx, err := vaxis.New(vaxis.Options{WithConsole: con, NoSignals: true})
	if err != nil {
		t.Fatal(err)
	}
	vx.Window().Print(vaxis.Segment{Text: "hello"})
	vx.Render()
	vx.Close()

	st := replay(con.output())
	t.Logf("mode 2027 after Close: set=%v (before start-up: reset)", st.modes["2027"])
	if st.modes["2027"] {
		t.Errorf("mode 2027 (Unicode core) was reset before start-up and is still set after Close")
	}
	if st.modes["1049"] || !st.modes["25"] {
		t.Errorf("alt screen %v cursor visible %v", st.modes["1049"], st.modes["25"])
	}
}

// control: same terminal, no environment override: 2027 is reset on Close
func TestControlWithoutQuirk(t *testing.T) {
	clearEnv()
	con := newFakeConsole(map[string]string{"\x1b[?2027$p": "\x1b[?2027;2$y"})
	vx, err := vaxis.New(vaxis.Options{WithConsole: con, NoSignals: true})
	if err != nil {
		t.Fatal(err)
	}
	vx.Render()
	vx.Close()
	if replay(con.output()).modes["2027"] {
		t.Errorf("control: 2027 left set")
	}
}
