package demo

import (
	"bytes"
	"errors"
	"io"
	"os"
	"regexp"
	"sync"

	"github.com/containerd/console"
)

// fakeConsole is an in-memory terminal: it records everything written to it
// (until it is closed, like a closed file descriptor) and answers the queries
// listed in replies.
type fakeConsole struct {
	mu      sync.Mutex
	out     bytes.Buffer
	pending []byte // bytes of an unanswered query prefix
	closed  bool
	pr      *io.PipeReader
	pw      *io.PipeWriter
	in      chan []byte
	replies map[string]string
}

func newFakeConsole(extra map[string]string) *fakeConsole {
	pr, pw := io.Pipe()
	c := &fakeConsole{pr: pr, pw: pw, in: make(chan []byte, 1024), replies: map[string]string{
		"\x1b[6n": "\x1b[1;1R",
		"\x1b[c":  "\x1b[?62;22c",
	}}
	for k, v := range extra {
		c.replies[k] = v
	}
	go func() {
		for b := range c.in {
			pw.Write(b)
		}
	}()
	return c
}

func (c *fakeConsole) Read(p []byte) (int, error) { return c.pr.Read(p) }

func (c *fakeConsole) Write(p []byte) (int, error) {
	c.mu.Lock()
	defer c.mu.Unlock()
	if c.closed {
		return 0, errors.New("write on closed console")
	}
	c.out.Write(p)
	// answer queries in the order they appear
	type hit struct {
		pos int
		r   string
	}
	var hits []hit
	for q, r := range c.replies {
		idx := 0
		for {
			i := bytes.Index(p[idx:], []byte(q))
			if i < 0 {
				break
			}
			hits = append(hits, hit{idx + i, r})
			idx += i + len(q)
		}
	}
	for i := 0; i < len(hits); i++ {
		for j := i + 1; j < len(hits); j++ {
			if hits[j].pos < hits[i].pos {
				hits[i], hits[j] = hits[j], hits[i]
			}
		}
	}
	for _, h := range hits {
		c.in <- []byte(h.r)
	}
	return len(p), nil
}

func (c *fakeConsole) Close() error {
	c.mu.Lock()
	c.closed = true
	c.mu.Unlock()
	return nil
}
func (c *fakeConsole) Fd() uintptr                        { return ^uintptr(0) }
func (c *fakeConsole) Name() string                       { return "fake" }
func (c *fakeConsole) Resize(console.WinSize) error       { return nil }
func (c *fakeConsole) ResizeFrom(console.Console) error   { return nil }
func (c *fakeConsole) SetRaw() error                      { return nil }
func (c *fakeConsole) DisableEcho() error                 { return nil }
func (c *fakeConsole) Reset() error                       { return nil }
func (c *fakeConsole) Size() (console.WinSize, error) {
	return console.WinSize{Width: 200, Height: 60}, nil
}

func (c *fakeConsole) output() string {
	c.mu.Lock()
	defer c.mu.Unlock()
	return string(bytes.ReplaceAll(c.out.Bytes(), []byte{0}, nil))
}

// termState is the part of a terminal's mode table the demos look at
type termState struct {
	modes     map[string]bool // DEC private modes
	hyperlink string
}

var seqRe = regexp.MustCompile(`\x1b\[\?([0-9;]+)([hl])|\x1b\]8;([^;\x1b\x07]*);([^\x1b\x07]*)(?:\x1b\\|\x07)`)

// replay feeds out to a minimal reference terminal: DECSET/DECRST and OSC 8
func replay(out string) termState {
	st := termState{modes: map[string]bool{"25": true}}
	for _, m := range seqRe.FindAllStringSubmatch(out, -1) {
		if m[2] != "" {
			for _, ps := range bytes.Split([]byte(m[1]), []byte(";")) {
				st.modes[string(ps)] = m[2] == "h"
			}
			continue
		}
		st.hyperlink = m[4]
	}
	return st
}

func clearEnv() {
	os.Unsetenv("COLORTERM")
	for _, k := range []string{"VAXIS_LOG_LEVEL", "VAXIS_GRAPHICS", "VAXIS_FORCE_LEGACY_SGR", "VAXIS_FORCE_WCWIDTH",
		"VAXIS_FORCE_UNICODE", "VAXIS_FORCE_NOZWJ", "VAXIS_DISABLE_NOZWJ", "VAXIS_FORCE_XTWINOPS", "ASCIINEMA_REC"} {
		os.Unsetenv(k)
	}
}
