package demo

import (
	"image"
	"image/color"
	"testing"
	"time"

	"git.sr.ht/~rockorager/vaxis"
)

// The main goroutine asks a sixel image to resize itself (the library encodes
// in a goroutine of its own) and goes on rendering. The terminal reports a new
// size in between, as any terminal may at any time. Run with -race.
func TestSixelResizeWhileRendering(t *testing.T) {
	cleanEnv()
	con := newFake()
	vx, err := vaxis.New(vaxis.Options{WithConsole: con, NoSignals: true})
	if err != nil {
		t.Fatal(err)
	}
	img := image.NewRGBA(image.Rect(0, 0, 64, 64))
	for i := 0; i < 64; i++ {
		img.Set(i, i, color.RGBA{255, 0, 0, 255})
	}
	sx := vx.NewSixel(img)

	for i := 0; i < 200; i++ {
		// the terminal is resized: in-band report, handled by the input goroutine
		con.setSize(24+i%2, 80+i%2, 480+20*(i%2), 800+10*(i%2))
		// wait until the library has noted the request
		deadline := time.Now().Add(time.Second)
		for time.Now().Before(deadline) {
			select {
			case ev := <-vx.Events():
				if _, ok := ev.(vaxis.Redraw); ok {
					deadline = time.Time{}
				}
			default:
				time.Sleep(time.Millisecond)
			}
		}
		sx.Resize(10, 10) // library goroutine encodes
		vx.Render()       // main goroutine takes the new size over
		sx.Draw(vx.Window())
		vx.Render()
	}
	time.Sleep(100 * time.Millisecond)
	done := make(chan struct{})
	go func() { vx.Close(); close(done) }()
	select {
	case <-done:
	case <-time.After(5 * time.Second):
		t.Fatal("Close did not return")
	}
}
