package demo

import (
	"runtime"
	"strings"
	"testing"
	"time"

	"git.sr.ht/~rockorager/vaxis"
)

func inputGoroutines() int {
	buf := make([]byte, 1<<20)
	n := runtime.Stack(buf, true)
	c := 0
	for _, g := range strings.Split(string(buf[:n]), "\n\n") {
		if strings.Contains(g, "vaxis.(*Vaxis).openTty.func1") {
			c++
		}
	}
	return c
}

func within(t *testing.T, what string, f func()) {
	t.Helper()
	done := make(chan struct{})
	go func() { f(); close(done) }()
	select {
	case <-done:
	case <-time.After(5 * time.Second):
		t.Fatalf("%s did not return", what)
	}
}

// The application is busy (it does not read its queue, which is full) while
// the terminal sends a bracketed-paste start; the application then suspends
// and resumes, and the user types a key.
func TestSuspendWithFullQueue(t *testing.T) {
	cleanEnv()
	con := newFake()
	con.noInband = true
	vx, err := vaxis.New(vaxis.Options{WithConsole: con, NoSignals: true, EventQueueSize: 1})
	if err != nil {
		t.Fatal(err)
	}
	// the queue (size 1) now holds the initial Resize event: it is full
	con.feed("\x1b[200~") // paste start: the input goroutine blocks posting it
	time.Sleep(100 * time.Millisecond)

	within(t, "Suspend", func() { vx.Suspend() })
	time.Sleep(300 * time.Millisecond)
	leaked := inputGoroutines()
	if leaked != 0 {
		t.Errorf("%d input goroutine(s) started by the library still alive 300ms after Suspend returned", leaked)
	}

	within(t, "Resume", func() { vx.Resume() })
	time.Sleep(50 * time.Millisecond)
	if n := inputGoroutines(); n != 1 {
		t.Errorf("after Resume: %d input goroutines, want 1", n)
	}
	con.feed("a") // the new input goroutine reads pastePending, written by the old one
	time.Sleep(100 * time.Millisecond)

	// the application gets round to its events
	var got []vaxis.Event
	timeout := time.After(300 * time.Millisecond)
loop:
	for {
		select {
		case ev := <-vx.Events():
			got = append(got, ev)
		case <-timeout:
			break loop
		}
	}
	t.Logf("events: %#v", got)
	within(t, "Close", vx.Close)
}
