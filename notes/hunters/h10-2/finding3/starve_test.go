package demo

import (
	"fmt"
	"sync/atomic"
	"testing"
	"time"

	"git.sr.ht/~rockorager/vaxis"
	"git.sr.ht/~rockorager/vaxis/vxfw"
)

type root struct {
	draws  atomic.Int64
	events atomic.Int64
	quit   atomic.Bool
}

func (r *root) HandleEvent(ev vaxis.Event, _ vxfw.EventPhase) (vxfw.Command, error) {
	switch ev := ev.(type) {
	case vaxis.Mouse:
		r.events.Add(1)
		return vxfw.RedrawCmd{}, nil // every event changes what is shown
	case vaxis.Key:
		if ev.Matches('q') {
			return vxfw.QuitCmd{}, nil
		}
	}
	return nil, nil
}

func (r *root) Draw(ctx vxfw.DrawContext) (vxfw.Surface, error) {
	r.draws.Add(1)
	return vxfw.NewSurface(ctx.Max.Width, ctx.Max.Height, r), nil
}

// The terminal reports mouse motion (mode 1003, which vaxis enables) every
// 2 ms for 1.5 s. The main goroutine must keep drawing frames meanwhile.
func TestFramesWhileEventsArrive(t *testing.T) {
	cleanEnv()
	con := newFake()
	con.noInband = true
	app, err := vxfw.NewApp(vaxis.Options{WithConsole: con, NoSignals: true})
	if err != nil {
		t.Fatal(err)
	}
	r := &root{}
	done := make(chan error, 1)
	go func() { done <- app.Run(r) }()
	time.Sleep(200 * time.Millisecond) // first frames
	d0, e0 := r.draws.Load(), r.events.Load()
	start := time.Now()
	for i := 0; time.Since(start) < 1500*time.Millisecond; i++ {
		con.feed(fmt.Sprintf("\x1b[<35;%d;%dM", 1+i%70, 1+i%20))
		time.Sleep(2 * time.Millisecond)
	}
	d1, e1 := r.draws.Load(), r.events.Load()
	t.Logf("during 1.5s of mouse motion: %d events handled (each asked for a redraw), %d Draw calls", e1-e0, d1-d0)
	time.Sleep(200 * time.Millisecond)
	d2 := r.draws.Load()
	t.Logf("after the stream stopped: %d more Draw calls", d2-d1)
	if d1-d0 == 0 {
		t.Errorf("no frame was drawn for 1.5s while events arrived every 2ms (%d events, each requesting a redraw): rendering is starved", e1-e0)
	}
	con.feed("q")
	select {
	case <-done:
	case <-time.After(5 * time.Second):
		t.Fatal("Run did not return")
	}
}
