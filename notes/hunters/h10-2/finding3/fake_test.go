package demo

import (
	"bytes"
	"fmt"
	"io"
	"os"
	"sort"
	"sync"

	"github.com/containerd/console"
)

// fakeConsole is an in-memory terminal: it answers the cursor position
// request, DA1 and (like kitty, foot, ghostty) mode 2048 in-band resize.
type fakeConsole struct {
	mu     sync.Mutex
	cond   *sync.Cond
	in     []byte
	closed bool
	rows   int
	cols   int
	xpix   int
	ypix   int
	onWrite func(p []byte)
	noInband bool
}

func newFake() *fakeConsole {
	f := &fakeConsole{rows: 24, cols: 80, xpix: 800, ypix: 480}
	f.cond = sync.NewCond(&f.mu)
	return f
}

func (f *fakeConsole) feed(s string) {
	f.mu.Lock()
	f.in = append(f.in, s...)
	f.mu.Unlock()
	f.cond.Broadcast()
}

func (f *fakeConsole) sizeReport() string {
	f.mu.Lock()
	defer f.mu.Unlock()
	return fmt.Sprintf("\x1b[48;%d;%d;%d;%dt", f.rows, f.cols, f.ypix, f.xpix)
}

func (f *fakeConsole) setSize(rows, cols, ypix, xpix int) {
	f.mu.Lock()
	f.rows, f.cols, f.ypix, f.xpix = rows, cols, ypix, xpix
	f.mu.Unlock()
	f.feed(f.sizeReport())
}

func (f *fakeConsole) Read(p []byte) (int, error) {
	f.mu.Lock()
	defer f.mu.Unlock()
	for len(f.in) == 0 && !f.closed {
		f.cond.Wait()
	}
	if len(f.in) == 0 {
		return 0, io.EOF
	}
	n := copy(p, f.in)
	f.in = f.in[n:]
	return n, nil
}

func (f *fakeConsole) Write(p []byte) (int, error) {
	if h := f.onWrite; h != nil {
		h(p)
	}
	type hit struct {
		pos   int
		reply func() string
	}
	var hits []hit
	find := func(q string, reply func() string) {
		off := 0
		for {
			i := bytes.Index(p[off:], []byte(q))
			if i < 0 {
				return
			}
			hits = append(hits, hit{off + i, reply})
			off += i + len(q)
		}
	}
	find("\x1b[6n", func() string { return "\x1b[1;1R" })
	find("\x1b[c", func() string { return "\x1b[?62;22c" })
	if !f.noInband {
		find("\x1b[?2048h", f.sizeReport)
	}
	sort.Slice(hits, func(i, j int) bool { return hits[i].pos < hits[j].pos })
	for _, h := range hits {
		f.feed(h.reply())
	}
	return len(p), nil
}

func (f *fakeConsole) Close() error {
	f.mu.Lock()
	f.closed = true
	f.mu.Unlock()
	f.cond.Broadcast()
	return nil
}

func (f *fakeConsole) Fd() uintptr  { return ^uintptr(0) }
func (f *fakeConsole) Name() string { return "fake" }
func (f *fakeConsole) Resize(console.WinSize) error { return nil }
func (f *fakeConsole) ResizeFrom(console.Console) error { return nil }
func (f *fakeConsole) SetRaw() error { return nil }
func (f *fakeConsole) DisableEcho() error { return nil }
func (f *fakeConsole) Reset() error { return nil }
func (f *fakeConsole) Size() (console.WinSize, error) {
	f.mu.Lock()
	defer f.mu.Unlock()
	return console.WinSize{Height: uint16(f.rows), Width: uint16(f.cols)}, nil
}

func cleanEnv() {
	os.Unsetenv("COLORTERM")
	for _, k := range []string{"VAXIS_LOG_LEVEL", "VAXIS_GRAPHICS", "VAXIS_FORCE_XTWINOPS", "VAXIS_FORCE_WCWIDTH", "VAXIS_FORCE_UNICODE", "VAXIS_FORCE_NOZWJ", "VAXIS_DISABLE_NOZWJ", "VAXIS_FORCE_LEGACY_SGR"} {
		os.Unsetenv(k)
	}
}
