package demo

import (
	"testing"

	"git.sr.ht/~rockorager/vaxis"
)

// The application never shows the cursor. Something else (another program
// writing to the tty, a terminal reset) leaves garbage on the screen and the
// cursor visible. Refresh has to bring the terminal to the requested state
// "whatever the terminal displayed before": cells repainted, cursor hidden.
func TestRefreshHidesCursorAgain(t *testing.T) {
	vx, con, term := start(t, 6, 2)
	defer vx.Close()
	win := vx.Window()
	win.Print(vaxis.Segment{Text: "hello"})
	vx.HideCursor()
	vx.Render()
	term.feed(con.take())
	if term.cursorVisible {
		t.Fatalf("cursor visible after first frame")
	}

	// foreign output
	term.feed([]byte("\x1b[2;1Hjunk\x1b[?25h"))

	vx.HideCursor()
	vx.Refresh()
	out := con.take()
	term.feed(out)
	t.Logf("Refresh bytes: %q", out)
	t.Logf("terminal: %q / %q cursorVisible=%v", term.row(0), term.row(1), term.cursorVisible)
	if term.row(1) != "      " {
		t.Errorf("row 1 not repainted: %q", term.row(1))
	}
	if term.cursorVisible {
		t.Errorf("after Refresh the cursor is requested hidden, terminal shows it")
	}
}

// Same for the shape/position when the cursor is visible: this direction works.
func TestRefreshRestoresVisibleCursor(t *testing.T) {
	vx, con, term := start(t, 6, 2)
	defer vx.Close()
	vx.ShowCursor(2, 1, vaxis.CursorBeam)
	vx.Render()
	term.feed(con.take())
	term.feed([]byte("\x1b[?25l"))
	vx.Refresh()
	term.feed(con.take())
	if !term.cursorVisible || term.r != 1 || term.c != 2 {
		t.Errorf("cursor not restored: visible=%v at %d,%d", term.cursorVisible, term.r, term.c)
	}
}
