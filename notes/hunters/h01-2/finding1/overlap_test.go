package demo

import (
	"testing"

	"git.sr.ht/~rockorager/vaxis"
)

// Frame 1 prints two wide characters. Frame 2 draws a two column "popup"
// (a child window filled with '#') whose left edge falls on the right half
// of the first wide character. The application last set column 1 to '#', so
// the terminal has to show '#' there (and cannot keep the glyph of which
// column 1 was the right half).
func TestCellSetOverRightHalfOfWideCharacter(t *testing.T) {
	vx, con, term := start(t, 6, 1)
	defer vx.Close()

	win := vx.Window()
	win.Print(vaxis.Segment{Text: "世界"})
	vx.Render()
	term.feed(con.take())
	t.Logf("frame 1 terminal: %q", term.row(0))

	popup := win.New(1, 0, 2, 1)
	popup.Fill(vaxis.Cell{Character: vaxis.Character{Grapheme: "#", Width: 1}})
	vx.Render()
	out := con.take()
	term.feed(out)
	t.Logf("frame 2 bytes: %q", out)
	t.Logf("frame 2 terminal: %q", term.row(0))
	if got := term.g[0][1]; got.text != "#" {
		t.Errorf("after Render: column 1 was last set to '#', terminal shows %+v (row %q)", got, term.row(0))
	}
	if got := term.g[0][2]; got.text != "#" {
		t.Errorf("after Render: column 2 was last set to '#', terminal shows %+v", got)
	}

	// not even a full repaint shows the cell
	vx.Refresh()
	term.feed(con.take())
	t.Logf("after Refresh terminal: %q", term.row(0))
	if got := term.g[0][1]; got.text != "#" {
		t.Errorf("after Refresh: column 1 was last set to '#', terminal shows %+v (row %q)", got, term.row(0))
	}
}
