package demo

// Shared by the tests: an in-memory console and a small independent
// reference terminal (CUP, ED, SGR ignored, OSC skipped, DECTCEM, wide glyphs).

import (
	"bytes"
	"os"
	"strconv"
	"strings"
	"sync"
	"testing"
	"unicode/utf8"

	"git.sr.ht/~rockorager/vaxis"
	"github.com/containerd/console"
	"github.com/mattn/go-runewidth"
)

type fakeConsole struct {
	mu         sync.Mutex
	out        bytes.Buffer
	in         chan []byte
	closed     chan struct{}
	once       sync.Once
	cols, rows int
}

func newConsole(cols, rows int) *fakeConsole {
	return &fakeConsole{in: make(chan []byte, 64), closed: make(chan struct{}), cols: cols, rows: rows}
}
func (c *fakeConsole) Read(p []byte) (int, error) {
	select {
	case b := <-c.in:
		return copy(p, b), nil
	case <-c.closed:
		return 0, os.ErrClosed
	}
}
func (c *fakeConsole) Write(p []byte) (int, error) {
	c.mu.Lock()
	c.out.Write(p)
	c.mu.Unlock()
	if bytes.Contains(p, []byte("\x1b[6n")) {
		c.in <- []byte("\x1b[1;1R")
	}
	if bytes.Contains(p, []byte("\x1b[c")) {
		c.in <- []byte("\x1b[?62;22c")
	}
	return len(p), nil
}
func (c *fakeConsole) take() []byte {
	c.mu.Lock()
	defer c.mu.Unlock()
	b := append([]byte(nil), c.out.Bytes()...)
	c.out.Reset()
	return b
}
func (c *fakeConsole) Close() error                     { c.once.Do(func() { close(c.closed) }); return nil }
func (c *fakeConsole) Fd() uintptr                      { return ^uintptr(0) }
func (c *fakeConsole) Name() string                     { return "fake" }
func (c *fakeConsole) Resize(console.WinSize) error     { return nil }
func (c *fakeConsole) ResizeFrom(console.Console) error { return nil }
func (c *fakeConsole) SetRaw() error                    { return nil }
func (c *fakeConsole) DisableEcho() error               { return nil }
func (c *fakeConsole) Reset() error                     { return nil }
func (c *fakeConsole) Size() (console.WinSize, error) {
	return console.WinSize{Width: uint16(c.cols), Height: uint16(c.rows)}, nil
}

// ---- reference terminal ----

type tcell struct {
	text string // "" = blank
	cont bool   // right half of the wide glyph to the left
	wide bool
}

type refTerm struct {
	cols, rows    int
	g             [][]tcell
	r, c          int
	cursorVisible bool
}

func newTerm(cols, rows int) *refTerm {
	t := &refTerm{cols: cols, rows: rows, cursorVisible: true}
	t.clear()
	return t
}
func (t *refTerm) clear() {
	t.g = make([][]tcell, t.rows)
	for i := range t.g {
		t.g[i] = make([]tcell, t.cols)
	}
}

// erase what a write to (r,c) destroys: a wide glyph loses both halves
func (t *refTerm) damage(r, c int) {
	if c < 0 || c >= t.cols {
		return
	}
	cell := t.g[r][c]
	if cell.cont && c > 0 {
		t.g[r][c-1] = tcell{}
	}
	if cell.wide && c+1 < t.cols {
		t.g[r][c+1] = tcell{}
	}
	t.g[r][c] = tcell{}
}
func (t *refTerm) put(s string, w int) {
	if t.r >= t.rows || t.c >= t.cols {
		return
	}
	if w == 0 { // combining: joins the glyph left of the cursor
		if t.c > 0 {
			i := t.c - 1
			if t.g[t.r][i].cont && i > 0 {
				i--
			}
			t.g[t.r][i].text += s
		}
		return
	}
	if w == 2 && t.c+1 >= t.cols {
		return
	}
	t.damage(t.r, t.c)
	if w == 2 {
		t.damage(t.r, t.c+1)
		t.g[t.r][t.c] = tcell{text: s, wide: true}
		t.g[t.r][t.c+1] = tcell{cont: true}
	} else {
		t.g[t.r][t.c] = tcell{text: s}
	}
	t.c += w
	if t.c >= t.cols {
		t.c = t.cols - 1 // pending wrap is not needed here: vaxis repositions per row
	}
}
func (t *refTerm) feed(b []byte) {
	for i := 0; i < len(b); {
		ch := b[i]
		switch {
		case ch == 0x1b && i+1 < len(b) && b[i+1] == '[':
			j := i + 2
			for j < len(b) && (b[j] < 0x40 || b[j] > 0x7e) {
				j++
			}
			if j >= len(b) {
				return
			}
			t.csi(string(b[i+2:j]), b[j])
			i = j + 1
		case ch == 0x1b && i+1 < len(b) && (b[i+1] == ']' || b[i+1] == 'P' || b[i+1] == '_'):
			j := i + 2
			for j < len(b) {
				if b[j] == 0x07 {
					j++
					break
				}
				if b[j] == 0x1b && j+1 < len(b) && b[j+1] == '\\' {
					j += 2
					break
				}
				j++
			}
			i = j
		case ch == 0x1b:
			i += 2
		case ch < 0x20 || ch == 0x7f:
			i++
		default:
			r, n := utf8.DecodeRune(b[i:])
			t.put(string(r), runewidth.RuneWidth(r))
			i += n
		}
	}
}
func (t *refTerm) csi(params string, final byte) {
	switch final {
	case 'H':
		ps := strings.Split(params, ";")
		row, col := 1, 1
		if len(ps) > 0 && ps[0] != "" {
			row, _ = strconv.Atoi(ps[0])
		}
		if len(ps) > 1 && ps[1] != "" {
			col, _ = strconv.Atoi(ps[1])
		}
		t.r, t.c = row-1, col-1
	case 'J':
		t.clear()
	case 'h', 'l':
		switch params {
		case "?25":
			t.cursorVisible = final == 'h'
		case "?1049":
			t.clear()
		}
	}
}
func (t *refTerm) row(r int) string {
	var sb strings.Builder
	for c := 0; c < t.cols; c++ {
		cell := t.g[r][c]
		switch {
		case cell.cont:
			sb.WriteString("<")
		case cell.text == "":
			sb.WriteString("·")
		default:
			sb.WriteString(cell.text)
		}
	}
	return sb.String()
}

func start(t *testing.T, cols, rows int) (*vaxis.Vaxis, *fakeConsole, *refTerm) {
	os.Unsetenv("COLORTERM")
	for _, kv := range os.Environ() {
		if strings.HasPrefix(kv, "VAXIS_") {
			os.Unsetenv(strings.SplitN(kv, "=", 2)[0])
		}
	}
	con := newConsole(cols, rows)
	vx, err := vaxis.New(vaxis.Options{WithConsole: con})
	if err != nil {
		t.Fatal(err)
	}
	term := newTerm(cols, rows)
	term.feed(con.take())
	return vx, con, term
}
