package demo

import (
	"testing"

	"git.sr.ht/~rockorager/vaxis"
)

func cell(s string, w int) vaxis.Cell {
	return vaxis.Cell{Character: vaxis.Character{Grapheme: s, Width: w}}
}

// The terminal advertises no explicit-width support. The application gives a
// cell an explicit width that is not the width the terminal gives the text.
// The renderer writes the text and then assumes the terminal's cursor moved by
// the explicit width, so every following cell of the run lands in the wrong
// column.
func TestExplicitWidthLargerThanTerminalWidth(t *testing.T) {
	vx, con, term := start(t, 6, 1)
	defer vx.Close()
	win := vx.Window()
	win.SetCell(0, 0, cell("a", 2))
	win.SetCell(2, 0, cell("b", 1))
	win.SetCell(3, 0, cell("c", 1))
	vx.Render()
	out := con.take()
	term.feed(out)
	t.Logf("bytes: %q", out)
	t.Logf("terminal: %q", term.row(0))
	if term.g[0][2].text != "b" || term.g[0][3].text != "c" {
		t.Errorf("columns 2,3 were set to b,c; terminal row is %q", term.row(0))
	}
}

func TestExplicitWidthSmallerThanTerminalWidth(t *testing.T) {
	vx, con, term := start(t, 6, 1)
	defer vx.Close()
	win := vx.Window()
	win.SetCell(0, 0, cell("世", 1))
	win.SetCell(3, 0, cell("b", 1))
	vx.Render()
	out := con.take()
	term.feed(out)
	t.Logf("bytes: %q", out)
	t.Logf("terminal: %q", term.row(0))
	if term.g[0][3].text != "b" {
		t.Errorf("column 3 was set to b; terminal row is %q", term.row(0))
	}
}
