package demo

import (
	"testing"
	"time"

	"git.sr.ht/~rockorager/vaxis"
)

func keys(evs []vaxis.Event) []vaxis.Key {
	var ks []vaxis.Key
	for _, ev := range evs {
		if k, ok := ev.(vaxis.Key); ok {
			ks = append(ks, k)
		}
	}
	return ks
}

// Legacy encoding (no kitty keyboard): Alt+Enter is ESC CR, Alt+Tab is ESC HT,
// Alt+Ctrl+A is ESC 0x01. The user presses Alt+Enter and, 300 ms later, a
// plain 'a'.
func TestAltEnterThenPlainKey(t *testing.T) {
	vx, f := start(t)
	defer vx.Close()

	f.inject("\x1b\r")
	first := keys(drain(vx, 300*time.Millisecond))
	f.inject("a")
	second := keys(drain(vx, 100*time.Millisecond))
	t.Logf("ESC CR      -> %s", show(drain0(first)))
	t.Logf("a (300ms later) -> %s", show(drain0(second)))

	if len(first) != 1 || first[0].Keycode != vaxis.KeyEnter || first[0].Modifiers&vaxis.ModAlt == 0 {
		t.Errorf("Alt+Enter (ESC CR) was not reported as one Alt+Enter key press: %s", show(drain0(first)))
	}
	if len(second) != 1 || second[0].Keycode != 'a' || second[0].Modifiers != 0 || second[0].Text != "a" {
		t.Errorf("plain 'a' typed 300 ms after Alt+Enter was reported as: %s (want a plain 'a' with text \"a\")", show(drain0(second)))
	}
}

func drain0(ks []vaxis.Key) []vaxis.Event {
	var evs []vaxis.Event
	for _, k := range ks {
		evs = append(evs, k)
	}
	return evs
}
