package demo

import (
	"bytes"
	"fmt"
	"os"
	"sync"
	"testing"
	"time"

	"git.sr.ht/~rockorager/vaxis"
	"github.com/containerd/console"
)

type fakeConsole struct {
	mu      sync.Mutex
	cond    *sync.Cond
	in      []byte
	closed  bool
	noCPR   bool // do not answer CSI 6n
	onWrite func(p []byte)
}

func newFake() *fakeConsole {
	f := &fakeConsole{}
	f.cond = sync.NewCond(&f.mu)
	return f
}

func (f *fakeConsole) inject(b string) {
	f.mu.Lock()
	f.in = append(f.in, b...)
	f.mu.Unlock()
	f.cond.Broadcast()
}

func (f *fakeConsole) Read(p []byte) (int, error) {
	f.mu.Lock()
	defer f.mu.Unlock()
	for len(f.in) == 0 && !f.closed {
		f.cond.Wait()
	}
	if len(f.in) == 0 {
		return 0, fmt.Errorf("closed")
	}
	n := copy(p, f.in)
	f.in = f.in[n:]
	return n, nil
}

func (f *fakeConsole) Write(p []byte) (int, error) {
	f.mu.Lock()
	noCPR := f.noCPR
	f.mu.Unlock()
	if bytes.Contains(p, []byte("\x1b[6n")) && !noCPR {
		f.inject("\x1b[1;1R")
	}
	if bytes.Contains(p, []byte("\x1b[c")) {
		f.inject("\x1b[?62;22c")
	}
	return len(p), nil
}
func (f *fakeConsole) Close() error {
	f.mu.Lock()
	f.closed = true
	f.mu.Unlock()
	f.cond.Broadcast()
	return nil
}
func (f *fakeConsole) Fd() uintptr                      { return ^uintptr(0) }
func (f *fakeConsole) Name() string                     { return "fake" }
func (f *fakeConsole) Resize(console.WinSize) error     { return nil }
func (f *fakeConsole) ResizeFrom(console.Console) error { return nil }
func (f *fakeConsole) SetRaw() error                    { return nil }
func (f *fakeConsole) DisableEcho() error               { return nil }
func (f *fakeConsole) Reset() error                     { return nil }
func (f *fakeConsole) Size() (console.WinSize, error) {
	return console.WinSize{Height: 24, Width: 80}, nil
}

func start(t *testing.T) (*vaxis.Vaxis, *fakeConsole) {
	os.Unsetenv("COLORTERM")
	for _, e := range []string{"VAXIS_LOG_LEVEL", "VAXIS_GRAPHICS", "VAXIS_FORCE_LEGACY_SGR", "VAXIS_FORCE_WCWIDTH", "VAXIS_FORCE_UNICODE", "VAXIS_FORCE_XTWINOPS", "VAXIS_DISABLE_XTWINOPS"} {
		os.Unsetenv(e)
	}
	f := newFake()
	vx, err := vaxis.New(vaxis.Options{WithConsole: f, NoSignals: true})
	if err != nil {
		t.Fatal(err)
	}
	// drain start-up events
	drain(vx, 50*time.Millisecond)
	return vx, f
}

func drain(vx *vaxis.Vaxis, d time.Duration) []vaxis.Event {
	var evs []vaxis.Event
	for {
		select {
		case ev := <-vx.Events():
			evs = append(evs, ev)
		case <-time.After(d):
			return evs
		}
	}
}

func show(evs []vaxis.Event) string {
	s := ""
	for _, ev := range evs {
		switch ev := ev.(type) {
		case vaxis.Key:
			s += fmt.Sprintf("Key(%s text=%q type=%d) ", ev.String(), ev.Text, ev.EventType)
		default:
			s += fmt.Sprintf("%T%+v ", ev, ev)
		}
	}
	return s
}
